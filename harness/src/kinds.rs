//! One marker type per parseable subject (`type:<T>`, `tag:<T>`, `media`,
//! `master`), so that the generic ops (`type:`, `tag:`, `cmp:`, `owned:`) are
//! written once. Adding a subject = one `kind!` line + one line in
//! `with_kind!`.

use std::cmp::Ordering;
use std::collections::hash_map::DefaultHasher;
use std::convert::TryFrom;
use std::fmt::Display;
use std::hash::{Hash, Hasher};

use hls_m3u8::tags::{
    ExtInf, ExtXByteRange, ExtXDateRange, ExtXKey, ExtXMap, ExtXMedia, ExtXProgramDateTime,
    ExtXSessionData, ExtXSessionKey, ExtXStart, ExtXVersion, VariantStream,
};
use hls_m3u8::types::{
    ByteRange, Channels, ClosedCaptions, Codecs, DecryptionKey, EncryptionMethod, Float, HdcpLevel,
    InStreamId, InitializationVector, KeyFormat, KeyFormatVersions, MediaType, PlaylistType,
    ProtocolVersion, Resolution, StreamData, UFloat, Value,
};
use hls_m3u8::{MasterPlaylist, MediaPlaylist, RequiredVersion};

use crate::obs;

pub trait Kind {
    type Out<'a>: Display + Clone + PartialEq;
    fn parse<'a>(s: &'a str) -> Result<Self::Out<'a>, ()>;
    fn obs<'a>(v: &Self::Out<'a>, o: &mut String);
    /// `required_version()` as 1..7, `None` when the type has no `RequiredVersion`.
    fn version<'a>(v: &Self::Out<'a>) -> Option<u8>;
    /// `None` when the type has no `Ord`.
    fn cmp<'a>(a: &Self::Out<'a>, b: &Self::Out<'a>) -> Option<Ordering>;
    /// `None` when the type has no `Hash`.
    fn hash<'a>(v: &Self::Out<'a>) -> Option<u64>;
}

pub trait OwnKind: Kind {
    fn into_owned<'a>(v: Self::Out<'a>) -> Self::Out<'static>;
    fn eq_owned<'a>(v: &Self::Out<'a>, w: &Self::Out<'static>) -> bool;
}

pub fn hash_of<T: Hash>(v: &T) -> u64 {
    let mut h = DefaultHasher::new();
    v.hash(&mut h);
    h.finish()
}

fn ver_some<T: RequiredVersion>(v: &T) -> Option<u8> {
    Some(obs::pversion_u8(v.required_version()))
}
fn ver_none<T>(_: &T) -> Option<u8> {
    None
}
fn cmp_some<T: Ord>(a: &T, b: &T) -> Option<Ordering> {
    Some(a.cmp(b))
}
fn cmp_none<T>(_: &T, _: &T) -> Option<Ordering> {
    None
}
fn hash_some<T: Hash>(v: &T) -> Option<u64> {
    Some(hash_of(v))
}
fn hash_none<T>(_: &T) -> Option<u64> {
    None
}

macro_rules! kind {
    ($k:ident, $lt:lifetime, $ty:ty,
     obs: |$o:ident, $v:ident| $obs:expr,
     parse: |$s:ident| $parse:expr,
     $ver:ident, $cmp:ident, $hash:ident) => {
        pub struct $k;
        impl Kind for $k {
            type Out<$lt> = $ty;
            fn parse<$lt>(input: &$lt str) -> Result<$ty, ()> {
                let $s: &$lt str = input;
                ($parse).map_err(|_| ())
            }
            fn obs<$lt>(value: &$ty, out: &mut String) {
                let $v: &$ty = value;
                let $o: &mut String = out;
                $obs
            }
            fn version<$lt>(v: &$ty) -> Option<u8> {
                $ver(v)
            }
            fn cmp<$lt>(a: &$ty, b: &$ty) -> Option<Ordering> {
                $cmp(a, b)
            }
            fn hash<$lt>(v: &$ty) -> Option<u64> {
                $hash(v)
            }
        }
    };
}

macro_rules! own {
    ($($k:ident),* $(,)?) => {$(
        impl OwnKind for $k {
            fn into_owned<'a>(v: Self::Out<'a>) -> Self::Out<'static> {
                v.into_owned()
            }
            fn eq_owned<'a>(v: &Self::Out<'a>, w: &Self::Out<'static>) -> bool {
                let w: &Self::Out<'a> = w;
                v == w
            }
        }
    )*};
}

// ------------------------------------------------------------------- types

kind!(KByteRange, 'a, ByteRange,
    obs: |o, v| obs::byterange(o, v),
    parse: |s| ByteRange::try_from(s),
    ver_none, cmp_some, hash_some);
kind!(KChannels, 'a, Channels,
    obs: |o, v| obs::channels(o, v),
    parse: |s| s.parse::<Channels>(),
    ver_none, cmp_some, hash_some);
kind!(KClosedCaptions, 'a, ClosedCaptions<'a>,
    obs: |o, v| obs::cc(o, v),
    parse: |s| ClosedCaptions::try_from(s),
    ver_none, cmp_some, hash_some);
kind!(KCodecs, 'a, Codecs<'a>,
    obs: |o, v| obs::codecs(o, v),
    parse: |s| Codecs::try_from(s),
    ver_none, cmp_some, hash_some);
kind!(KDecryptionKey, 'a, DecryptionKey<'a>,
    obs: |o, v| obs::deckey(o, v),
    parse: |s| DecryptionKey::try_from(s),
    ver_some, cmp_some, hash_some);
kind!(KEncryptionMethod, 'a, EncryptionMethod,
    obs: |o, v| obs::method(o, *v),
    parse: |s| s.parse::<EncryptionMethod>(),
    ver_none, cmp_some, hash_some);
kind!(KFloat, 'a, Float,
    obs: |o, v| obs::float(o, *v),
    parse: |s| s.parse::<Float>(),
    ver_none, cmp_some, hash_some);
kind!(KUFloat, 'a, UFloat,
    obs: |o, v| obs::ufloat(o, *v),
    parse: |s| s.parse::<UFloat>(),
    ver_none, cmp_some, hash_some);
kind!(KHdcpLevel, 'a, HdcpLevel,
    obs: |o, v| obs::hdcp(o, *v),
    parse: |s| s.parse::<HdcpLevel>(),
    ver_none, cmp_some, hash_some);
kind!(KInStreamId, 'a, InStreamId,
    obs: |o, v| obs::instream(o, *v),
    parse: |s| s.parse::<InStreamId>(),
    ver_some, cmp_some, hash_some);
kind!(KInitializationVector, 'a, InitializationVector,
    obs: |o, v| obs::iv(o, v),
    parse: |s| s.parse::<InitializationVector>(),
    ver_none, cmp_some, hash_some);
kind!(KKeyFormat, 'a, KeyFormat<'a>,
    obs: |o, v| obs::keyformat(o, v),
    parse: |s| Ok::<KeyFormat<'a>, ()>(KeyFormat::from(s)),
    ver_some, cmp_some, hash_some);
kind!(KKeyFormatVersions, 'a, KeyFormatVersions,
    obs: |o, v| obs::versions(o, v),
    parse: |s| s.parse::<KeyFormatVersions>(),
    ver_some, cmp_some, hash_some);
kind!(KMediaType, 'a, MediaType,
    obs: |o, v| obs::mtype(o, *v),
    parse: |s| s.parse::<MediaType>(),
    ver_none, cmp_some, hash_some);
kind!(KPlaylistType, 'a, PlaylistType,
    obs: |o, v| obs::ptype(o, *v),
    parse: |s| PlaylistType::try_from(s),
    ver_some, cmp_some, hash_some);
kind!(KProtocolVersion, 'a, ProtocolVersion,
    obs: |o, v| obs::pversion(o, *v),
    parse: |s| s.parse::<ProtocolVersion>(),
    ver_none, cmp_some, hash_some);
kind!(KResolution, 'a, Resolution,
    obs: |o, v| obs::resolution(o, v),
    parse: |s| s.parse::<Resolution>(),
    ver_none, cmp_some, hash_some);
kind!(KStreamData, 'a, StreamData<'a>,
    obs: |o, v| obs::streamdata(o, v),
    parse: |s| StreamData::try_from(s),
    ver_some, cmp_some, hash_some);
kind!(KValue, 'a, Value<'a>,
    obs: |o, v| obs::value(o, v),
    parse: |s| Value::try_from(s),
    ver_none, cmp_some, hash_some);

// -------------------------------------------------------------------- tags

kind!(TExtXVersion, 'a, ExtXVersion,
    obs: |o, v| obs::xversion(o, v),
    parse: |s| ExtXVersion::try_from(s),
    ver_some, cmp_some, hash_some);
kind!(TExtInf, 'a, ExtInf<'a>,
    obs: |o, v| obs::extinf(o, v),
    parse: |s| ExtInf::try_from(s),
    ver_some, cmp_some, hash_some);
kind!(TExtXByteRange, 'a, ExtXByteRange,
    obs: |o, v| obs::xbyterange(o, v),
    parse: |s| ExtXByteRange::try_from(s),
    ver_some, cmp_some, hash_some);
kind!(TExtXKey, 'a, ExtXKey<'a>,
    obs: |o, v| obs::xkey(o, v),
    parse: |s| ExtXKey::try_from(s),
    ver_some, cmp_some, hash_some);
kind!(TExtXMap, 'a, ExtXMap<'a>,
    obs: |o, v| obs::map(o, v),
    parse: |s| ExtXMap::try_from(s),
    ver_some, cmp_some, hash_some);
kind!(TExtXProgramDateTime, 'a, ExtXProgramDateTime<'a>,
    obs: |o, v| obs::pdt(o, v),
    parse: |s| ExtXProgramDateTime::try_from(s),
    ver_some, cmp_some, hash_some);
kind!(TExtXDateRange, 'a, ExtXDateRange<'a>,
    obs: |o, v| obs::daterange(o, v),
    parse: |s| ExtXDateRange::try_from(s),
    ver_some, cmp_some, hash_some);
kind!(TExtXMedia, 'a, ExtXMedia<'a>,
    obs: |o, v| obs::xmedia(o, v),
    parse: |s| ExtXMedia::try_from(s),
    ver_some, cmp_some, hash_some);
kind!(TExtXSessionData, 'a, ExtXSessionData<'a>,
    obs: |o, v| obs::sessiondata(o, v),
    parse: |s| ExtXSessionData::try_from(s),
    ver_some, cmp_some, hash_some);
kind!(TExtXSessionKey, 'a, ExtXSessionKey<'a>,
    obs: |o, v| obs::sessionkey(o, v),
    parse: |s| ExtXSessionKey::try_from(s),
    ver_some, cmp_some, hash_some);
kind!(TExtXStart, 'a, ExtXStart,
    obs: |o, v| obs::start(o, v),
    parse: |s| ExtXStart::try_from(s),
    ver_some, cmp_some, hash_some);
kind!(TVariantStream, 'a, VariantStream<'a>,
    obs: |o, v| obs::variant(o, v),
    parse: |s| VariantStream::try_from(s),
    ver_some, cmp_some, hash_some);

// --------------------------------------------------------------- playlists

kind!(PMedia, 'a, MediaPlaylist<'a>,
    obs: |o, v| obs::media(o, v),
    parse: |s| MediaPlaylist::try_from(s),
    ver_some, cmp_none, hash_none);
kind!(PMaster, 'a, MasterPlaylist<'a>,
    obs: |o, v| obs::master(o, v),
    parse: |s| MasterPlaylist::try_from(s),
    ver_some, cmp_some, hash_some);

own!(
    KClosedCaptions,
    KCodecs,
    KDecryptionKey,
    KKeyFormat,
    KStreamData,
    KValue,
    TExtInf,
    TExtXKey,
    TExtXMap,
    TExtXProgramDateTime,
    TExtXDateRange,
    TExtXMedia,
    TExtXSessionData,
    TExtXSessionKey,
    TVariantStream,
    PMedia,
    PMaster,
);

/// `with_kind!(name, f, (args..), else_expr)`: calls `f::<K>(args..)` for the
/// kind named `name` ("type:<T>", "tag:<T>", "media", "master").
#[macro_export]
macro_rules! with_kind {
    ($name:expr, $f:ident, ($($a:expr),*), $else:expr) => {{
        use $crate::kinds::*;
        match $name {
            "type:ByteRange" => $f::<KByteRange>($($a),*),
            "type:Channels" => $f::<KChannels>($($a),*),
            "type:ClosedCaptions" => $f::<KClosedCaptions>($($a),*),
            "type:Codecs" => $f::<KCodecs>($($a),*),
            "type:DecryptionKey" => $f::<KDecryptionKey>($($a),*),
            "type:EncryptionMethod" => $f::<KEncryptionMethod>($($a),*),
            "type:Float" => $f::<KFloat>($($a),*),
            "type:UFloat" => $f::<KUFloat>($($a),*),
            "type:HdcpLevel" => $f::<KHdcpLevel>($($a),*),
            "type:InStreamId" => $f::<KInStreamId>($($a),*),
            "type:InitializationVector" => $f::<KInitializationVector>($($a),*),
            "type:KeyFormat" => $f::<KKeyFormat>($($a),*),
            "type:KeyFormatVersions" => $f::<KKeyFormatVersions>($($a),*),
            "type:MediaType" => $f::<KMediaType>($($a),*),
            "type:PlaylistType" => $f::<KPlaylistType>($($a),*),
            "type:ProtocolVersion" => $f::<KProtocolVersion>($($a),*),
            "type:Resolution" => $f::<KResolution>($($a),*),
            "type:StreamData" => $f::<KStreamData>($($a),*),
            "type:Value" => $f::<KValue>($($a),*),
            "tag:ExtXVersion" => $f::<TExtXVersion>($($a),*),
            "tag:ExtInf" => $f::<TExtInf>($($a),*),
            "tag:ExtXByteRange" => $f::<TExtXByteRange>($($a),*),
            "tag:ExtXKey" => $f::<TExtXKey>($($a),*),
            "tag:ExtXMap" => $f::<TExtXMap>($($a),*),
            "tag:ExtXProgramDateTime" => $f::<TExtXProgramDateTime>($($a),*),
            "tag:ExtXDateRange" => $f::<TExtXDateRange>($($a),*),
            "tag:ExtXMedia" => $f::<TExtXMedia>($($a),*),
            "tag:ExtXSessionData" => $f::<TExtXSessionData>($($a),*),
            "tag:ExtXSessionKey" => $f::<TExtXSessionKey>($($a),*),
            "tag:ExtXStart" => $f::<TExtXStart>($($a),*),
            "tag:VariantStream" => $f::<TVariantStream>($($a),*),
            "media" => $f::<PMedia>($($a),*),
            "master" => $f::<PMaster>($($a),*),
            _ => $else,
        }
    }};
}

/// Same for the kinds that have `into_owned()`.
#[macro_export]
macro_rules! with_own_kind {
    ($name:expr, $f:ident, ($($a:expr),*), $else:expr) => {{
        use $crate::kinds::*;
        match $name {
            "type:ClosedCaptions" => $f::<KClosedCaptions>($($a),*),
            "type:Codecs" => $f::<KCodecs>($($a),*),
            "type:DecryptionKey" => $f::<KDecryptionKey>($($a),*),
            "type:KeyFormat" => $f::<KKeyFormat>($($a),*),
            "type:StreamData" => $f::<KStreamData>($($a),*),
            "type:Value" => $f::<KValue>($($a),*),
            "tag:ExtInf" => $f::<TExtInf>($($a),*),
            "tag:ExtXKey" => $f::<TExtXKey>($($a),*),
            "tag:ExtXMap" => $f::<TExtXMap>($($a),*),
            "tag:ExtXProgramDateTime" => $f::<TExtXProgramDateTime>($($a),*),
            "tag:ExtXDateRange" => $f::<TExtXDateRange>($($a),*),
            "tag:ExtXMedia" => $f::<TExtXMedia>($($a),*),
            "tag:ExtXSessionData" => $f::<TExtXSessionData>($($a),*),
            "tag:ExtXSessionKey" => $f::<TExtXSessionKey>($($a),*),
            "tag:VariantStream" => $f::<TVariantStream>($($a),*),
            "media" => $f::<PMedia>($($a),*),
            "master" => $f::<PMaster>($($a),*),
            _ => $else,
        }
    }};
}
