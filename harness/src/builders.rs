//! Builder-script ops (`build_media`, `build_master`, `build_tag:<T>`), see
//! section "Builder scripts" of /verif/PROTOCOL.md.
//!
//! Two phases: (1) the whole script is checked and turned into a list of
//! calls (syntax, hex, numbers, embedded tag texts must parse, floats must be
//! accepted by `Float::try_from`) -- any failure there is `bad-op` and no
//! builder has been touched yet; (2) the calls are applied in script order to
//! the real builders -- an `Err` from any builder is `err`.

use std::borrow::Cow;
use std::convert::TryFrom;
use std::time::Duration;

use hls_m3u8::builder::MediaSegmentBuilder;
use hls_m3u8::tags::{
    ExtInf, ExtXByteRange, ExtXDateRange, ExtXKey, ExtXMap, ExtXMedia, ExtXProgramDateTime,
    ExtXSessionData, ExtXSessionKey, ExtXStart, SessionData, VariantStream,
};
use hls_m3u8::types::{
    Channels, Codecs, DecryptionKey, EncryptionMethod, Float, HdcpLevel, InStreamId, KeyFormat,
    KeyFormatVersions, MediaType, PlaylistType, Resolution, StreamData, Value,
};
use hls_m3u8::{MasterPlaylist, MediaPlaylist, MediaSegment};

use crate::hexs;
use crate::kinds::{KDecryptionKey, KStreamData, TExtXDateRange, TExtXMedia, TExtXSessionData};
use crate::ops::{master_response, media_response, value_response, Layout, BAD_OP, ERR};

#[derive(Debug, Clone, Copy, PartialEq)]
enum Fail {
    /// malformed script => `bad-op`
    Bad,
    /// a builder returned `Err` => `err`
    Err,
}

type Res<T> = Result<T, Fail>;

fn finish(r: Res<String>) -> String {
    match r {
        Ok(s) => s,
        Err(Fail::Bad) => BAD_OP.to_string(),
        Err(Fail::Err) => ERR.to_string(),
    }
}

// ------------------------------------------------------------ token parsers

fn digits(s: &str) -> bool {
    !s.is_empty() && s.bytes().all(|c| c.is_ascii_digit())
}

fn p_usize(s: &str) -> Res<usize> {
    if !digits(s) {
        return Err(Fail::Bad);
    }
    s.parse().map_err(|_| Fail::Bad)
}

fn p_u64(s: &str) -> Res<u64> {
    if !digits(s) {
        return Err(Fail::Bad);
    }
    s.parse().map_err(|_| Fail::Bad)
}

fn p_u8(s: &str) -> Res<u8> {
    if !digits(s) {
        return Err(Fail::Bad);
    }
    s.parse().map_err(|_| Fail::Bad)
}

fn p_bool(s: &str) -> Res<bool> {
    match s {
        "0" => Ok(false),
        "1" => Ok(true),
        _ => Err(Fail::Bad),
    }
}

/// total nanoseconds -> `Duration::new(ns / 10^9, ns % 10^9)`
fn p_dur(s: &str) -> Res<Duration> {
    if !digits(s) {
        return Err(Fail::Bad);
    }
    let ns: u128 = s.parse().map_err(|_| Fail::Bad)?;
    let secs = u64::try_from(ns / 1_000_000_000).map_err(|_| Fail::Bad)?;
    Ok(Duration::new(secs, (ns % 1_000_000_000) as u32))
}

fn p_text(s: &str) -> Res<String> {
    hexs::decode_text(s).ok_or(Fail::Bad)
}

fn p_texts(tokens: &[&str]) -> Res<Vec<String>> {
    tokens.iter().map(|t| p_text(t)).collect()
}

/// 8 hex digits -> `Float::try_from(f32::from_bits(..))`, rejection = bad-op
fn p_float(s: &str) -> Res<Float> {
    let bits = hexs::parse_bits(s).ok_or(Fail::Bad)?;
    Float::try_from(f32::from_bits(bits)).map_err(|_| Fail::Bad)
}

/// `<len>@<start>` -> (len, start); `start + len` must not overflow
fn p_len_at_start(s: &str) -> Res<(usize, usize)> {
    let (len, start) = s.split_once('@').ok_or(Fail::Bad)?;
    let (len, start) = (p_usize(len)?, p_usize(start)?);
    start.checked_add(len).ok_or(Fail::Bad)?;
    Ok((len, start))
}

fn p_iv(s: &str) -> Res<[u8; 16]> {
    let bytes = hexs::decode(s).ok_or(Fail::Bad)?;
    <[u8; 16]>::try_from(bytes.as_slice()).map_err(|_| Fail::Bad)
}

fn p_versions(s: &str) -> Res<Vec<u8>> {
    if s == "empty" {
        return Ok(Vec::new()); // `KeyFormatVersions::new()`: present, no entries
    }
    s.split('/').map(p_u8).collect()
}

fn p_method(s: &str) -> Res<EncryptionMethod> {
    match s {
        "aes" => Ok(EncryptionMethod::Aes128),
        "saes" => Ok(EncryptionMethod::SampleAes),
        _ => Err(Fail::Bad),
    }
}

fn kv(token: &str) -> Res<(&str, &str)> {
    token.split_once('=').ok_or(Fail::Bad)
}

/// Tokens of one call / one line; `""` = no tokens; empty tokens are malformed.
fn tokens(line: &str) -> Res<Vec<&str>> {
    if line.is_empty() {
        return Ok(Vec::new());
    }
    let t: Vec<&str> = line.split(' ').collect();
    if t.iter().any(|x| x.is_empty()) {
        return Err(Fail::Bad);
    }
    Ok(t)
}

/// Calls of a script; `""` = no calls; an empty call is malformed.
fn calls(script: &str) -> Res<Vec<Vec<&str>>> {
    if script.is_empty() {
        return Ok(Vec::new());
    }
    script
        .split('\n')
        .map(|line| {
            let t = tokens(line)?;
            if t.is_empty() {
                Err(Fail::Bad)
            } else {
                Ok(t)
            }
        })
        .collect()
}

// ---------------------------------------------------------- DecryptionKey

enum KeyCall {
    Method(EncryptionMethod),
    Uri(String),
    Iv([u8; 16]),
    Format(String),
    Versions(Vec<u8>),
}

fn build_key(calls: &[KeyCall]) -> Res<DecryptionKey<'_>> {
    let mut b = DecryptionKey::builder();
    for c in calls {
        match c {
            KeyCall::Method(m) => {
                b.method(*m);
            }
            KeyCall::Uri(u) => {
                b.uri(u.clone());
            }
            KeyCall::Iv(bytes) => {
                b.iv(*bytes);
            }
            KeyCall::Format(f) => {
                b.format(KeyFormat::from(f.as_str()));
            }
            KeyCall::Versions(v) => {
                b.versions(v.iter().copied().collect::<KeyFormatVersions>());
            }
        }
    }
    b.build().map_err(|_| Fail::Err)
}

/// `<m>:<hexuri>:<iv>:<fmt>:<vers>`
fn p_seg_key(s: &str) -> Res<Vec<KeyCall>> {
    let parts: Vec<&str> = s.split(':').collect();
    if parts.len() != 5 {
        return Err(Fail::Bad);
    }
    let mut out = vec![
        KeyCall::Method(p_method(parts[0])?),
        KeyCall::Uri(p_text(parts[1])?),
    ];
    if parts[2] != "-" {
        out.push(KeyCall::Iv(p_iv(parts[2])?));
    }
    if parts[3] != "-" {
        out.push(KeyCall::Format(p_text(parts[3])?));
    }
    if parts[4] != "-" {
        out.push(KeyCall::Versions(p_versions(parts[4])?));
    }
    Ok(out)
}

fn p_key_tokens(toks: &[&str]) -> Res<Vec<KeyCall>> {
    toks.iter()
        .map(|t| {
            let (k, v) = kv(t)?;
            Ok(match k {
                "method" => KeyCall::Method(p_method(v)?),
                "uri" => KeyCall::Uri(p_text(v)?),
                "iv" => KeyCall::Iv(p_iv(v)?),
                "format" => KeyCall::Format(p_text(v)?),
                "versions" => KeyCall::Versions(p_versions(v)?),
                _ => return Err(Fail::Bad),
            })
        })
        .collect()
}

// ------------------------------------------------------------ MediaSegment

enum SegCall {
    Dur(Duration),
    /// duration seen before in the same segment + title
    Title(Duration, String),
    Uri(String),
    Num(usize),
    NumNone,
    BrAt(usize, usize),
    BrTo(usize),
    Disc,
    Pdt(String),
    Dr(String),
    Map(String, Option<(usize, usize)>),
    KeyNone,
    Key(Vec<KeyCall>),
}

fn p_seg(toks: &[&str]) -> Res<Vec<SegCall>> {
    let mut out = Vec::new();
    let mut last_dur: Option<Duration> = None;
    for t in toks {
        let (k, v) = kv(t)?;
        out.push(match k {
            "dur" => {
                let d = p_dur(v)?;
                last_dur = Some(d);
                SegCall::Dur(d)
            }
            "title" => SegCall::Title(last_dur.ok_or(Fail::Bad)?, p_text(v)?),
            "uri" => SegCall::Uri(p_text(v)?),
            "num" if v == "none" => SegCall::NumNone,
            "num" => SegCall::Num(p_usize(v)?),
            "br" => {
                if v.contains('@') {
                    let (len, start) = p_len_at_start(v)?;
                    SegCall::BrAt(len, start)
                } else {
                    SegCall::BrTo(p_usize(v)?)
                }
            }
            "disc" => {
                if v != "1" {
                    return Err(Fail::Bad);
                }
                SegCall::Disc
            }
            "pdt" => SegCall::Pdt(p_text(v)?),
            "dr" => {
                let text = p_text(v)?;
                // must parse, otherwise the script is malformed
                ExtXDateRange::try_from(text.as_str()).map_err(|_| Fail::Bad)?;
                SegCall::Dr(text)
            }
            "map" => match v.split_once(':') {
                None => SegCall::Map(p_text(v)?, None),
                Some((uri, range)) => SegCall::Map(p_text(uri)?, Some(p_len_at_start(range)?)),
            },
            "key" => {
                if v == "none" {
                    SegCall::KeyNone
                } else {
                    SegCall::Key(p_seg_key(v)?)
                }
            }
            _ => return Err(Fail::Bad),
        });
    }
    Ok(out)
}

fn build_seg(calls: &[SegCall]) -> Res<MediaSegment<'_>> {
    // `MediaSegment::builder()` is `MediaSegmentBuilder::default()` pinned to
    // 'static; the default is used directly so that the `dr=` tag can borrow
    // from the script (no `into_owned()`, no leak).
    let mut b = MediaSegmentBuilder::default();
    for c in calls {
        match c {
            SegCall::Dur(d) => {
                b.duration(ExtInf::new(*d));
            }
            SegCall::Title(d, t) => {
                b.duration(ExtInf::with_title(*d, t.clone()));
            }
            SegCall::Uri(u) => {
                b.uri(u.clone());
            }
            SegCall::Num(n) => {
                b.number(Some(*n));
            }
            SegCall::NumNone => {
                b.number(None);
            }
            SegCall::BrAt(len, start) => {
                b.byte_range(ExtXByteRange::from(*start..*start + *len));
            }
            SegCall::BrTo(len) => {
                b.byte_range(ExtXByteRange::from(..*len));
            }
            SegCall::Disc => {
                b.has_discontinuity(true);
            }
            SegCall::Pdt(s) => {
                b.program_date_time(ExtXProgramDateTime::new(s.clone()));
            }
            SegCall::Dr(text) => {
                b.date_range(ExtXDateRange::try_from(text.as_str()).map_err(|_| Fail::Bad)?);
            }
            SegCall::Map(uri, None) => {
                b.map(ExtXMap::new(uri.clone()));
            }
            SegCall::Map(uri, Some((len, start))) => {
                b.map(ExtXMap::with_range(uri.clone(), *start..*start + *len));
            }
            SegCall::KeyNone => {
                b.push_key(ExtXKey::empty());
            }
            SegCall::Key(kc) => {
                b.push_key(ExtXKey::new(build_key(kc)?));
            }
        }
    }
    b.build().map_err(|_| Fail::Err)
}

// ------------------------------------------------------------- build_media

enum MediaCall {
    Td(Duration),
    Ms(usize),
    Ds(usize),
    Pt(PlaylistType),
    Ifo(bool),
    Ind(bool),
    End(bool),
    Start(Float, bool),
    Ex(Duration),
    Unk(Vec<String>),
    Push(Vec<SegCall>),
    Segs(Vec<Vec<SegCall>>),
    /// last call of a script: `builder.parse(text)` instead of `builder.build()`
    Parse(String),
}

fn one<'a>(args: &[&'a str]) -> Res<&'a str> {
    if args.len() == 1 {
        Ok(args[0])
    } else {
        Err(Fail::Bad)
    }
}

fn p_start(args: &[&str]) -> Res<(Float, bool)> {
    if args.len() != 2 {
        return Err(Fail::Bad);
    }
    Ok((p_float(args[0])?, p_bool(args[1])?))
}

fn p_media_script(script: &str) -> Res<Vec<MediaCall>> {
    let mut out = Vec::new();
    for call in calls(script)? {
        let args = &call[1..];
        out.push(match call[0] {
            "td" => MediaCall::Td(p_dur(one(args)?)?),
            "ms" => MediaCall::Ms(p_usize(one(args)?)?),
            "ds" => MediaCall::Ds(p_usize(one(args)?)?),
            "pt" => MediaCall::Pt(match one(args)? {
                "VOD" => PlaylistType::Vod,
                "EVENT" => PlaylistType::Event,
                _ => return Err(Fail::Bad),
            }),
            "ifo" => MediaCall::Ifo(p_bool(one(args)?)?),
            "ind" => MediaCall::Ind(p_bool(one(args)?)?),
            "end" => MediaCall::End(p_bool(one(args)?)?),
            "start" => {
                let (f, p) = p_start(args)?;
                MediaCall::Start(f, p)
            }
            "ex" => MediaCall::Ex(p_dur(one(args)?)?),
            "unk" => MediaCall::Unk(p_texts(args)?),
            "parse" => MediaCall::Parse(p_text(one(args)?)?),
            "push" => MediaCall::Push(p_seg(args)?),
            "segs" => {
                if args.is_empty() {
                    MediaCall::Segs(Vec::new())
                } else {
                    MediaCall::Segs(
                        args.split(|t| *t == "|")
                            .map(p_seg)
                            .collect::<Res<Vec<_>>>()?,
                    )
                }
            }
            _ => return Err(Fail::Bad),
        });
    }
    Ok(out)
}

fn build_media_with<R>(script: &str, f: impl FnOnce(&MediaPlaylist<'_>) -> R) -> Res<R> {
    let calls = p_media_script(script)?;
    let mut b = MediaPlaylist::builder();
    let mut parse_text: Option<&String> = None;
    for (i, c) in calls.iter().enumerate() {
        match c {
            MediaCall::Parse(t) => {
                if i + 1 != calls.len() {
                    // the builder is used again afterwards: whatever this call returns is dropped
                    let _ = b.parse(t);
                    continue;
                }
                parse_text = Some(t);
            }
            MediaCall::Td(d) => {
                b.target_duration(*d);
            }
            MediaCall::Ms(n) => {
                b.media_sequence(*n);
            }
            MediaCall::Ds(n) => {
                b.discontinuity_sequence(*n);
            }
            MediaCall::Pt(t) => {
                b.playlist_type(*t);
            }
            MediaCall::Ifo(x) => {
                b.has_i_frames_only(*x);
            }
            MediaCall::Ind(x) => {
                b.has_independent_segments(*x);
            }
            MediaCall::End(x) => {
                b.has_end_list(*x);
            }
            MediaCall::Start(f, p) => {
                b.start(ExtXStart::with_precise(*f, *p));
            }
            MediaCall::Ex(d) => {
                b.allowable_excess_duration(*d);
            }
            MediaCall::Unk(v) => {
                let list: Vec<Cow<'_, str>> = v.iter().map(|s| Cow::Owned(s.clone())).collect();
                b.unknown(list);
            }
            MediaCall::Push(seg) => {
                b.push_segment(build_seg(seg)?);
            }
            MediaCall::Segs(segs) => {
                let built = segs
                    .iter()
                    .map(|s| build_seg(s))
                    .collect::<Res<Vec<_>>>()?;
                b.segments(built);
            }
        }
    }
    let playlist = match parse_text {
        Some(t) => b.parse(t).map_err(|_| Fail::Err)?,
        None => b.build().map_err(|_| Fail::Err)?,
    };
    Ok(f(&playlist))
}

fn build_media(script: &str) -> Res<String> {
    build_media_with(script, |playlist| media_response(playlist, true))
}

pub fn op_build_media(script: &str) -> String {
    finish(build_media(script))
}

/// `cmp_holes`: build a playlist from the script, take a segment out through the public `segments` field (a hole stays), and
/// compare with the same value made compact: `E:` their `==`, `X:` whether the segments sit in the same slots.
pub fn op_cmp_holes(script: &str, index: &str) -> String {
    let i: usize = match index.parse() {
        Ok(i) => i,
        Err(_) => return BAD_OP.to_string(),
    };
    finish(build_media_with(script, |p| {
        use crate::kinds::{Kind, PMedia};
        let mut a = p.clone();
        if a.segments.has_element_at(i) {
            a.segments.remove(i);
        }
        let mut b = a.clone();
        b.segments.make_compact();
        let slots_a: Vec<usize> = a.segments.iter().map(|(k, _)| k).collect();
        let slots_b: Vec<usize> = b.segments.iter().map(|(k, _)| k).collect();
        let mut out = String::from("ok ");
        PMedia::obs(&a, &mut out);
        out.push_str(if a == b { " E:1" } else { " E:0" });
        out.push_str(if slots_a == slots_b { " X:1" } else { " X:0" });
        out
    }))
}

/// `owned_build_media`: a builder script (it may end in `parse <text>`), then `into_owned()` / `clone()` of what it made
pub fn op_owned_build_media(script: &str) -> String {
    finish(build_media_with(script, |p| crate::ops::owned_line::<crate::kinds::PMedia>(p)))
}

/// `cmp_build_media`: two builder scripts; ==, cmp and hash of the two built playlists and of their segment lists
/// (values with explicit segment numbers are only reachable through the builders).
pub fn op_cmp_build_media(script_a: &str, script_b: &str) -> String {
    let r = build_media_with(script_a, |a| build_media_with(script_b, |b| cmp_media_line(a, b)));
    match r {
        Ok(Ok(line)) => line,
        Err(Fail::Bad) | Ok(Err(Fail::Bad)) => BAD_OP.to_string(),
        _ => ERR.to_string(),
    }
}

fn cmp_media_line<'a>(a: &MediaPlaylist<'a>, b: &MediaPlaylist<'a>) -> String {
    use crate::kinds::{hash_of, Kind, PMedia};
    let mut out = String::from("ok ");
    PMedia::obs(a, &mut out);
    out.push(' ');
    PMedia::obs(b, &mut out);
    let sa: Vec<_> = a.segments.values().collect();
    let sb: Vec<_> = b.segments.values().collect();
    // the playlist and its segments must tell the same story
    let e = a == b;
    let es = sa == sb;
    let c = PMedia::cmp(a, b);
    let cs = sa.cmp(&sb);
    let h = PMedia::hash(a).zip(PMedia::hash(b)).map(|(x, y)| x == y);
    let hs = hash_of(&sa) == hash_of(&sb);
    crate::ops::push_ech_pub(&mut out, e, c, h);
    out.push_str(" X:");
    out.push(if es { '1' } else { '0' });
    out.push_str(" Y:");
    out.push_str(match cs {
        std::cmp::Ordering::Less => "lt",
        std::cmp::Ordering::Equal => "eq",
        std::cmp::Ordering::Greater => "gt",
    });
    out.push_str(" Z:");
    out.push(if hs { '1' } else { '0' });
    out
}

// ------------------------------------------------------------ build_master

enum MasterCall {
    Ind(bool),
    Start(Float, bool),
    Media(Vec<String>),
    /// renditions made with `ExtXMedia::builder()` (one argument per rendition: its `k=v` tokens joined by `+`), so that
    /// values no text can carry (a quote inside a group id …) reach the playlist builder
    MediaBuilt(Vec<Vec<String>>),
    MediaFields(Vec<Vec<String>>),
    Variants(Vec<String>),
    Sdata(Vec<String>),
    Skeys(Vec<String>),
    Unk(Vec<String>),
}

fn parse_all<'a, T, E>(
    texts: &'a [String],
    parse: impl Fn(&'a str) -> Result<T, E>,
) -> Res<Vec<T>> {
    texts
        .iter()
        .map(|t| parse(t.as_str()).map_err(|_| Fail::Bad))
        .collect()
}

fn p_master_script(script: &str) -> Res<Vec<MasterCall>> {
    let mut out = Vec::new();
    for call in calls(script)? {
        let args = &call[1..];
        out.push(match call[0] {
            "ind" => MasterCall::Ind(p_bool(one(args)?)?),
            "start" => {
                let (f, p) = p_start(args)?;
                MasterCall::Start(f, p)
            }
            "media" => {
                let texts = p_texts(args)?;
                parse_all(&texts, ExtXMedia::try_from)?;
                MasterCall::Media(texts)
            }
            "mediab" => {
                let items: Vec<Vec<String>> = args.iter().map(|a| a.split('+').map(str::to_string).collect()).collect();
                for it in &items {
                    let toks: Vec<&str> = it.iter().map(String::as_str).collect();
                    media_from_tokens(&toks).map_err(|_| Fail::Bad)?;
                }
                MasterCall::MediaBuilt(items)
            }
            "mediaf" => {
                let items: Vec<Vec<String>> = args.iter().map(|a| a.split('+').map(str::to_string).collect()).collect();
                for it in &items {
                    let toks: Vec<&str> = it.iter().map(String::as_str).collect();
                    media_from_fields(&toks)?;
                }
                MasterCall::MediaFields(items)
            }
            "variants" => {
                let texts = p_texts(args)?;
                parse_all(&texts, VariantStream::try_from)?;
                MasterCall::Variants(texts)
            }
            "sdata" => {
                let texts = p_texts(args)?;
                parse_all(&texts, ExtXSessionData::try_from)?;
                MasterCall::Sdata(texts)
            }
            "skeys" => {
                let texts = p_texts(args)?;
                parse_all(&texts, ExtXSessionKey::try_from)?;
                MasterCall::Skeys(texts)
            }
            "unk" => MasterCall::Unk(p_texts(args)?),
            _ => return Err(Fail::Bad),
        });
    }
    Ok(out)
}

fn build_master(script: &str) -> Res<String> {
    let calls = p_master_script(script)?;
    let mut b = MasterPlaylist::builder();
    for c in &calls {
        match c {
            MasterCall::Ind(x) => {
                b.has_independent_segments(*x);
            }
            MasterCall::Start(f, p) => {
                b.start(ExtXStart::with_precise(*f, *p));
            }
            MasterCall::Media(texts) => {
                b.media(parse_all(texts, ExtXMedia::try_from)?);
            }
            MasterCall::MediaBuilt(items) => {
                let mut v = Vec::new();
                for it in items {
                    let toks: Vec<&str> = it.iter().map(String::as_str).collect();
                    v.push(media_from_tokens(&toks)?);
                }
                b.media(v);
            }
            MasterCall::MediaFields(items) => {
                let mut v = Vec::new();
                for it in items {
                    let toks: Vec<&str> = it.iter().map(String::as_str).collect();
                    v.push(media_from_fields(&toks)?);
                }
                b.media(v);
            }
            MasterCall::Variants(texts) => {
                b.variant_streams(parse_all(texts, VariantStream::try_from)?);
            }
            MasterCall::Sdata(texts) => {
                b.session_data(parse_all(texts, ExtXSessionData::try_from)?);
            }
            MasterCall::Skeys(texts) => {
                b.session_keys(parse_all(texts, ExtXSessionKey::try_from)?);
            }
            MasterCall::Unk(v) => {
                let list: Vec<Cow<'_, str>> = v.iter().map(|s| Cow::Owned(s.clone())).collect();
                b.unknown_tags(list);
            }
        }
    }
    let playlist = b.build().map_err(|_| Fail::Err)?;
    Ok(master_response(&playlist, true))
}

pub fn op_build_master(script: &str) -> String {
    finish(build_master(script))
}

// --------------------------------------------------------------- build_tag

fn build_tag_media(toks: &[&str]) -> Res<String> {
    let v = media_from_tokens(toks)?;
    Ok(value_response::<TExtXMedia>(&v, Layout::Tag))
}

/// a rendition made with `ExtXMedia::new(type, group, name)` and then changed through its PUBLIC FIELDS (`media_type`,
/// `is_default`, `is_autoselect`, `is_forced`, `instream_id`, `channels`): no builder validation stands in between
fn media_from_fields(toks: &[&str]) -> Res<ExtXMedia<'static>> {
    let mt = |v: &str| -> Res<MediaType> {
        Ok(match v {
            "AUDIO" => MediaType::Audio,
            "VIDEO" => MediaType::Video,
            "SUBTITLES" => MediaType::Subtitles,
            "CLOSED-CAPTIONS" => MediaType::ClosedCaptions,
            _ => return Err(Fail::Bad),
        })
    };
    let ty = mt(tok(toks, "type").ok_or(Fail::Bad)?)?;
    let group = p_text(tok(toks, "group").ok_or(Fail::Bad)?)?;
    let name = p_text(tok(toks, "name").ok_or(Fail::Bad)?)?;
    let mut m = ExtXMedia::new(ty, group, name);
    for t in toks {
        let (k, v) = kv(t)?;
        match k {
            "type" | "group" | "name" => {}
            "settype" => m.media_type = mt(v)?,
            "default" => m.is_default = p_bool(v)?,
            "autoselect" => m.is_autoselect = p_bool(v)?,
            "forced" => m.is_forced = p_bool(v)?,
            "instream" => m.instream_id = Some(v.parse::<InStreamId>().map_err(|_| Fail::Bad)?),
            "channels" => m.channels = Some(v.parse::<Channels>().map_err(|_| Fail::Bad)?),
            _ => return Err(Fail::Bad),
        }
    }
    Ok(m)
}

fn media_from_tokens(toks: &[&str]) -> Res<ExtXMedia<'static>> {
    enum C {
        Type(MediaType),
        Uri(String),
        Group(String),
        Lang(String),
        Assoc(String),
        Name(String),
        Default(bool),
        Autoselect(bool),
        Forced(bool),
        Instream(InStreamId),
        Chars(String),
        Channels(Channels),
    }
    let mut calls = Vec::new();
    for t in toks {
        let (k, v) = kv(t)?;
        calls.push(match k {
            "type" => C::Type(match v {
                "AUDIO" => MediaType::Audio,
                "VIDEO" => MediaType::Video,
                "SUBTITLES" => MediaType::Subtitles,
                "CLOSED-CAPTIONS" => MediaType::ClosedCaptions,
                _ => return Err(Fail::Bad),
            }),
            "uri" => C::Uri(p_text(v)?),
            "group" => C::Group(p_text(v)?),
            "lang" => C::Lang(p_text(v)?),
            "assoc" => C::Assoc(p_text(v)?),
            "name" => C::Name(p_text(v)?),
            "default" => C::Default(p_bool(v)?),
            "autoselect" => C::Autoselect(p_bool(v)?),
            "forced" => C::Forced(p_bool(v)?),
            "instream" => C::Instream(v.parse::<InStreamId>().map_err(|_| Fail::Bad)?),
            "chars" => C::Chars(p_text(v)?),
            "channels" => C::Channels(v.parse::<Channels>().map_err(|_| Fail::Bad)?),
            _ => return Err(Fail::Bad),
        });
    }
    let mut b = ExtXMedia::builder();
    for c in calls {
        match c {
            C::Type(x) => {
                b.media_type(x);
            }
            C::Uri(x) => {
                b.uri(x);
            }
            C::Group(x) => {
                b.group_id(x);
            }
            C::Lang(x) => {
                b.language(x);
            }
            C::Assoc(x) => {
                b.assoc_language(x);
            }
            C::Name(x) => {
                b.name(x);
            }
            C::Default(x) => {
                b.is_default(x);
            }
            C::Autoselect(x) => {
                b.is_autoselect(x);
            }
            C::Forced(x) => {
                b.is_forced(x);
            }
            C::Instream(x) => {
                b.instream_id(x);
            }
            C::Chars(x) => {
                b.characteristics(x);
            }
            C::Channels(x) => {
                b.channels(x);
            }
        }
    }
    b.build().map_err(|_| Fail::Err)
}

fn build_tag_daterange(toks: &[&str]) -> Res<String> {
    enum C {
        Id(String),
        Class(String),
        Start(String),
        End(String),
        Dur(Duration),
        Planned(Duration),
        Cmd(String),
        Out(String),
        In(String),
        Eon(bool),
        Attr(String, Value<'static>),
    }
    let mut calls = Vec::new();
    for t in toks {
        let (k, v) = kv(t)?;
        calls.push(match k {
            "id" => C::Id(p_text(v)?),
            "class" => C::Class(p_text(v)?),
            "start" => C::Start(p_text(v)?),
            "end" => C::End(p_text(v)?),
            "dur" => C::Dur(p_dur(v)?),
            "planned" => C::Planned(p_dur(v)?),
            "cmd" => C::Cmd(p_text(v)?),
            "out" => C::Out(p_text(v)?),
            "in" => C::In(p_text(v)?),
            "eon" => C::Eon(p_bool(v)?),
            "attr" => {
                let (key, val) = v.split_once(':').ok_or(Fail::Bad)?;
                let key = p_text(key)?;
                let mut chars = val.chars();
                let value = match chars.next() {
                    Some('S') => Value::String(Cow::Owned(p_text(chars.as_str())?)),
                    Some('H') => Value::Hex(hexs::decode(chars.as_str()).ok_or(Fail::Bad)?),
                    Some('F') => Value::Float(p_float(chars.as_str())?),
                    _ => return Err(Fail::Bad),
                };
                C::Attr(key, value)
            }
            _ => return Err(Fail::Bad),
        });
    }
    let mut b = ExtXDateRange::builder();
    for c in calls {
        match c {
            C::Id(x) => {
                b.id(x);
            }
            C::Class(x) => {
                b.class(x);
            }
            C::Start(x) => {
                b.start_date(x);
            }
            C::End(x) => {
                b.end_date(x);
            }
            C::Dur(x) => {
                b.duration(x);
            }
            C::Planned(x) => {
                b.planned_duration(x);
            }
            C::Cmd(x) => {
                b.scte35_cmd(x);
            }
            C::Out(x) => {
                b.scte35_out(x);
            }
            C::In(x) => {
                b.scte35_in(x);
            }
            C::Eon(x) => {
                b.end_on_next(x);
            }
            C::Attr(k, v) => {
                b.insert_client_attribute(k, v);
            }
        }
    }
    let v = b.build().map_err(|_| Fail::Err)?;
    Ok(value_response::<TExtXDateRange>(&v, Layout::Tag))
}

fn build_tag_sessiondata(toks: &[&str]) -> Res<String> {
    enum C {
        Id(String),
        Value(String),
        Uri(String),
        Lang(String),
    }
    let mut calls = Vec::new();
    for t in toks {
        let (k, v) = kv(t)?;
        calls.push(match k {
            "id" => C::Id(p_text(v)?),
            "value" => C::Value(p_text(v)?),
            "uri" => C::Uri(p_text(v)?),
            "lang" => C::Lang(p_text(v)?),
            _ => return Err(Fail::Bad),
        });
    }
    let mut b = ExtXSessionData::builder();
    for c in calls {
        match c {
            C::Id(x) => {
                b.data_id(x);
            }
            C::Value(x) => {
                b.data(SessionData::Value(Cow::Owned(x)));
            }
            C::Uri(x) => {
                b.data(SessionData::Uri(Cow::Owned(x)));
            }
            C::Lang(x) => {
                b.language(x);
            }
        }
    }
    let v = b.build().map_err(|_| Fail::Err)?;
    Ok(value_response::<TExtXSessionData>(&v, Layout::Tag))
}

fn build_tag_streamdata(toks: &[&str]) -> Res<String> {
    enum C {
        Bw(u64),
        Avg(u64),
        Codecs(Vec<String>),
        Res(usize, usize),
        Hdcp(HdcpLevel),
        Video(String),
    }
    let mut calls = Vec::new();
    for t in toks {
        let (k, v) = kv(t)?;
        calls.push(match k {
            "bw" => C::Bw(p_u64(v)?),
            "avg" => C::Avg(p_u64(v)?),
            "codecs" => C::Codecs(p_text(v)?.split(',').map(str::to_string).collect()),
            "res" => {
                let (w, h) = v.split_once('x').ok_or(Fail::Bad)?;
                C::Res(p_usize(w)?, p_usize(h)?)
            }
            "hdcp" => C::Hdcp(match v {
                "TYPE-0" => HdcpLevel::Type0,
                "NONE" => HdcpLevel::None,
                _ => return Err(Fail::Bad),
            }),
            "video" => C::Video(p_text(v)?),
            _ => return Err(Fail::Bad),
        });
    }
    let mut b = StreamData::builder();
    for c in calls {
        match c {
            C::Bw(x) => {
                b.bandwidth(x);
            }
            C::Avg(x) => {
                b.average_bandwidth(x);
            }
            C::Codecs(list) => {
                b.codecs(Codecs::from(list));
            }
            C::Res(w, h) => {
                b.resolution(Resolution::new(w, h));
            }
            C::Hdcp(x) => {
                b.hdcp_level(x);
            }
            C::Video(x) => {
                b.video(x);
            }
        }
    }
    let v = b.build().map_err(|_| Fail::Err)?;
    Ok(value_response::<KStreamData>(&v, Layout::Tag))
}

fn build_tag_deckey(toks: &[&str]) -> Res<String> {
    let calls = p_key_tokens(toks)?;
    let v = build_key(&calls)?;
    Ok(value_response::<KDecryptionKey>(&v, Layout::Tag))
}

/// `build_tag:<T>`; payload = ONE line of blank-separated `k=v` tokens.
pub fn op_build_tag(what: &str, line: &str) -> String {
    let f: fn(&[&str]) -> Res<String> = match what {
        "ExtXMedia" => build_tag_media,
        "ExtXDateRange" => build_tag_daterange,
        "ExtXSessionData" => build_tag_sessiondata,
        "StreamData" => build_tag_streamdata,
        "DecryptionKey" => build_tag_deckey,
        _ => return BAD_OP.to_string(),
    };
    if line.contains('\n') {
        return BAD_OP.to_string();
    }
    finish(tokens(line).and_then(|t| f(&t)))
}

// ------------------------------------------------------------ ctor:<T>

/// `ctor:<T>`; payload = ONE line of blank-separated `k=v` tokens: the public constructors (`new`, `with_…`, `From`) that are
/// not builders. Answers like `tag:` / `type:` (observation, written text, version, re-parse of the text).
pub fn op_ctor(what: &str, line: &str) -> String {
    if line.contains('\n') {
        return BAD_OP.to_string();
    }
    finish(tokens(line).and_then(|t| ctor(what, &t)))
}

fn tok<'a>(toks: &[&'a str], key: &str) -> Option<&'a str> {
    toks.iter().filter_map(|t| t.split_once('=')).find(|(k, _)| *k == key).map(|(_, v)| v)
}

fn ctor(what: &str, toks: &[&str]) -> Res<String> {
    use crate::kinds::*;
    let need = |k: &str| tok(toks, k).ok_or(Fail::Bad);
    let known = |allowed: &[&str]| -> Res<()> {
        for t in toks {
            let (k, _) = kv(t)?;
            if !allowed.contains(&k) {
                return Err(Fail::Bad);
            }
        }
        Ok(())
    };
    Ok(match what {
        "ExtXStart" => {
            known(&["t", "precise"])?;
            let f = p_float(need("t")?)?;
            let v = match tok(toks, "precise") {
                None => ExtXStart::new(f),
                Some(p) => ExtXStart::with_precise(f, p_bool(p)?),
            };
            value_response::<TExtXStart>(&v, Layout::Tag)
        }
        "ExtXSessionData" => {
            known(&["id", "value", "uri", "lang"])?;
            let id = p_text(need("id")?)?;
            let data = match (tok(toks, "value"), tok(toks, "uri")) {
                (Some(v), None) => SessionData::Value(Cow::Owned(p_text(v)?)),
                (None, Some(u)) => SessionData::Uri(Cow::Owned(p_text(u)?)),
                _ => return Err(Fail::Bad),
            };
            let v = match tok(toks, "lang") {
                None => ExtXSessionData::new(id, data),
                Some(l) => ExtXSessionData::with_language(id, data, p_text(l)?),
            };
            value_response::<TExtXSessionData>(&v, Layout::Tag)
        }
        "DecryptionKey" | "ExtXSessionKey" | "ExtXKey" => {
            known(&["method", "uri"])?;
            let k = DecryptionKey::new(p_method(need("method")?)?, p_text(need("uri")?)?);
            match what {
                "DecryptionKey" => value_response::<KDecryptionKey>(&k, Layout::Tag),
                "ExtXSessionKey" => value_response::<TExtXSessionKey>(&ExtXSessionKey::new(k), Layout::Tag),
                _ => value_response::<TExtXKey>(&ExtXKey::new(k), Layout::Tag),
            }
        }
        "ExtXDateRange" => {
            known(&["id", "start"])?;
            let v = ExtXDateRange::new(p_text(need("id")?)?, p_text(need("start")?)?);
            value_response::<TExtXDateRange>(&v, Layout::Tag)
        }
        "ExtXMedia" => {
            known(&["type", "group", "name"])?;
            let ty = match need("type")? {
                "AUDIO" => MediaType::Audio,
                "VIDEO" => MediaType::Video,
                "SUBTITLES" => MediaType::Subtitles,
                "CLOSED-CAPTIONS" => MediaType::ClosedCaptions,
                _ => return Err(Fail::Bad),
            };
            let v = ExtXMedia::new(ty, p_text(need("group")?)?, p_text(need("name")?)?);
            value_response::<TExtXMedia>(&v, Layout::Tag)
        }
        "StreamData" => {
            known(&["bw"])?;
            let v = StreamData::new(p_u64(need("bw")?)?);
            value_response::<KStreamData>(&v, Layout::Tag)
        }
        "Channels" => {
            known(&["n"])?;
            let v = Channels::new(p_u64(need("n")?)?);
            value_response::<KChannels>(&v, Layout::Type)
        }
        "Codecs" => {
            known(&["list"])?;
            let v = match tok(toks, "list") {
                None => Codecs::new(),
                Some(l) => Codecs::from(p_text(l)?.split(',').map(str::to_string).collect::<Vec<_>>()),
            };
            value_response::<KCodecs>(&v, Layout::Type)
        }
        "ExtXVersion" => {
            known(&["v"])?;
            let pv = match need("v")? {
                "1" => hls_m3u8::types::ProtocolVersion::V1,
                "2" => hls_m3u8::types::ProtocolVersion::V2,
                "3" => hls_m3u8::types::ProtocolVersion::V3,
                "4" => hls_m3u8::types::ProtocolVersion::V4,
                "5" => hls_m3u8::types::ProtocolVersion::V5,
                "6" => hls_m3u8::types::ProtocolVersion::V6,
                "7" => hls_m3u8::types::ProtocolVersion::V7,
                _ => return Err(Fail::Bad),
            };
            value_response::<TExtXVersion>(&hls_m3u8::tags::ExtXVersion::new(pv), Layout::Tag)
        }
        "ExtInf" => {
            known(&["dur", "title"])?;
            let d = p_dur(need("dur")?)?;
            let v = match tok(toks, "title") {
                None => ExtInf::new(d),
                Some(t) => ExtInf::with_title(d, p_text(t)?),
            };
            value_response::<TExtInf>(&v, Layout::Tag)
        }
        "ExtXMap" => {
            known(&["uri", "range"])?;
            let u = p_text(need("uri")?)?;
            let v = match tok(toks, "range") {
                None => ExtXMap::new(u),
                Some(r) => {
                    let (len, start) = p_len_at_start(r)?;
                    ExtXMap::with_range(u, start..start + len)
                }
            };
            value_response::<TExtXMap>(&v, Layout::Tag)
        }
        "ExtXByteRange" => {
            known(&["range", "to"])?;
            let v = match (tok(toks, "range"), tok(toks, "to")) {
                (Some(r), None) => {
                    let (len, start) = p_len_at_start(r)?;
                    ExtXByteRange::from(start..start + len)
                }
                (None, Some(e)) => ExtXByteRange::from(..p_usize(e)?),
                _ => return Err(Fail::Bad),
            };
            value_response::<TExtXByteRange>(&v, Layout::Tag)
        }
        "ExtXProgramDateTime" => {
            known(&["t"])?;
            let v = ExtXProgramDateTime::new(p_text(need("t")?)?);
            value_response::<TExtXProgramDateTime>(&v, Layout::Tag)
        }
        _ => return Err(Fail::Bad),
    })
}
