//! stdin: one request per line; stdout: exactly one response line per request.
use std::io::{self, BufRead, BufWriter, Write};

fn main() {
    // nothing is printed on panic; panics are reported as the response `panic`
    std::panic::set_hook(Box::new(|_| {}));

    let stdin = io::stdin();
    let mut input = stdin.lock();
    let stdout = io::stdout();
    let mut out = BufWriter::new(stdout.lock());

    let mut line: Vec<u8> = Vec::new();
    loop {
        line.clear();
        match input.read_until(b'\n', &mut line) {
            Ok(0) => break,
            Ok(_) => {}
            Err(_) => break,
        }
        if line.last() == Some(&b'\n') {
            line.pop();
        }
        let response = harness::handle_line(&line);
        if out.write_all(response.as_bytes()).is_err() || out.write_all(b"\n").is_err() {
            break;
        }
    }
    let _ = out.flush();
}
