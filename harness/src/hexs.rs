//! Tiny lowercase hex codec (no external dependency).

const DIGITS: &[u8; 16] = b"0123456789abcdef";

/// Appends the lowercase hex of `bytes` to `out`.
pub fn push_hex(out: &mut String, bytes: &[u8]) {
    out.reserve(bytes.len() * 2);
    for b in bytes {
        out.push(DIGITS[(b >> 4) as usize] as char);
        out.push(DIGITS[(b & 0xf) as usize] as char);
    }
}

pub fn encode(bytes: &[u8]) -> String {
    let mut s = String::new();
    push_hex(&mut s, bytes);
    s
}

fn nibble(c: u8) -> Option<u8> {
    match c {
        b'0'..=b'9' => Some(c - b'0'),
        b'a'..=b'f' => Some(c - b'a' + 10),
        _ => None,
    }
}

/// Strict decoder: even length, digits `0-9a-f` only (uppercase is rejected).
pub fn decode(s: &str) -> Option<Vec<u8>> {
    let b = s.as_bytes();
    if b.len() % 2 != 0 {
        return None;
    }
    let mut out = Vec::with_capacity(b.len() / 2);
    for pair in b.chunks_exact(2) {
        out.push((nibble(pair[0])? << 4) | nibble(pair[1])?);
    }
    Some(out)
}

/// hex -> UTF-8 text
pub fn decode_text(s: &str) -> Option<String> {
    String::from_utf8(decode(s)?).ok()
}

/// Exactly 8 lowercase hex digits -> u32 (f32 bit pattern).
pub fn parse_bits(s: &str) -> Option<u32> {
    let b = s.as_bytes();
    if b.len() != 8 {
        return None;
    }
    let mut v: u32 = 0;
    for c in b {
        v = (v << 4) | u32::from(nibble(*c)?);
    }
    Some(v)
}
