//! Op implementations and the dispatcher. Everything here may panic (the
//! library is called unguarded); the per-request `catch_unwind` lives in
//! `handle_line`.

use std::cmp::Ordering;
use std::convert::TryFrom;
use std::panic::{catch_unwind, AssertUnwindSafe};
use std::time::{Duration, Instant};

use hls_m3u8::types::{DecryptionKey, Float, KeyFormatVersions, UFloat};
use hls_m3u8::{verif_hooks, Decryptable, MasterPlaylist, MediaPlaylist, RequiredVersion};

use crate::hexs;
use crate::kinds::{hash_of, Kind, OwnKind};
use crate::obs;
use crate::{with_kind, with_own_kind};

pub const BAD_OP: &str = "bad-op";
pub const PANIC: &str = "panic";
pub const ERR: &str = "err";

fn bad() -> String {
    BAD_OP.to_string()
}
fn err() -> String {
    ERR.to_string()
}

fn b(x: bool) -> char {
    if x {
        '1'
    } else {
        '0'
    }
}

/// ` E:<bool> C:<lt|eq|gt|-> H:<bool|->` (leading blank included).
fn push_ech(o: &mut String, e: bool, c: Option<Ordering>, h: Option<bool>) {
    o.push_str(" E:");
    o.push(b(e));
    o.push_str(" C:");
    o.push_str(match c {
        Some(Ordering::Less) => "lt",
        Some(Ordering::Equal) => "eq",
        Some(Ordering::Greater) => "gt",
        None => "-",
    });
    o.push_str(" H:");
    match h {
        Some(x) => o.push(b(x)),
        None => o.push('-'),
    }
}

pub(crate) fn push_ech_pub(o: &mut String, e: bool, c: Option<Ordering>, h: Option<bool>) {
    push_ech(o, e, c, h)
}

fn push_t(o: &mut String, text: &str) {
    o.push_str(" T:");
    hexs::push_hex(o, text.as_bytes());
}

// ------------------------------------------------------------ type: / tag:

#[derive(Clone, Copy, PartialEq)]
pub enum Layout {
    /// `ok obs T R [V]`
    Type,
    /// `ok obs T V R`
    Tag,
}

/// Re-parses `text` with the same entry point; returns the `R:` field and the
/// `F:` field (`F:` = text written from the re-parsed value equals `text`).
fn reparse<K: Kind>(text: &str, obs1: &str) -> (String, String) {
    let second = catch_unwind(AssertUnwindSafe(|| {
        K::parse(text).map(|v2| {
            let o2 = obs::to_s(|o| K::obs(&v2, o));
            (v2, o2)
        })
    }));
    match second {
        Err(_) => ("R:panic".to_string(), "F:-".to_string()),
        Ok(Err(())) => ("R:err".to_string(), "F:-".to_string()),
        Ok(Ok((v2, o2))) => {
            let r = if o2 == obs1 {
                "R:=".to_string()
            } else {
                format!("R:{}", o2)
            };
            let f = match catch_unwind(AssertUnwindSafe(|| v2.to_string())) {
                Ok(t2) => format!("F:{}", b(t2 == text)),
                Err(_) => "F:panic".to_string(),
            };
            (r, f)
        }
    }
}

fn op_parse<K: Kind>(text: &str, layout: Layout) -> String {
    match K::parse(text) {
        Ok(v) => value_response::<K>(&v, layout),
        Err(()) => err(),
    }
}

/// `ok <obs> T R [V]` / `ok <obs> T V R` for an already constructed value.
pub(crate) fn value_response<'a, K: Kind>(v: &K::Out<'a>, layout: Layout) -> String {
    let o1 = obs::to_s(|o| K::obs(v, o));
    let t1 = v.to_string();
    let ver = K::version(v);
    let (r, _f) = reparse::<K>(&t1, &o1);

    let mut out = String::from("ok ");
    out.push_str(&o1);
    push_t(&mut out, &t1);
    match layout {
        Layout::Type => {
            out.push(' ');
            out.push_str(&r);
            if let Some(n) = ver {
                out.push_str(&format!(" V:{}", n));
            }
        }
        Layout::Tag => {
            if let Some(n) = ver {
                out.push_str(&format!(" V:{}", n));
            }
            out.push(' ');
            out.push_str(&r);
        }
    }
    out
}

// -------------------------------------------------------------------- cmp:

fn op_cmp<K: Kind>(a: &str, b_text: &str) -> String {
    let va = match K::parse(a) {
        Ok(v) => v,
        Err(()) => return err(),
    };
    let vb = match K::parse(b_text) {
        Ok(v) => v,
        Err(()) => return err(),
    };
    let mut out = String::from("ok ");
    K::obs(&va, &mut out);
    out.push(' ');
    K::obs(&vb, &mut out);
    let e = va == vb;
    let c = K::cmp(&va, &vb);
    let h = match (K::hash(&va), K::hash(&vb)) {
        (Some(x), Some(y)) => Some(x == y),
        _ => None,
    };
    push_ech(&mut out, e, c, h);
    out
}

// ------------------------------------------------------------------ owned:

fn op_owned<K: OwnKind>(text: &str) -> String {
    let v = match K::parse(text) {
        Ok(v) => v,
        Err(()) => return err(),
    };
    owned_line::<K>(&v)
}

/// `into_owned()` and `clone()` of a value that is already there, against the value
pub(crate) fn owned_line<'a, K: OwnKind>(v: &K::Out<'a>) -> String {
    let o1 = obs::to_s(|o| K::obs(v, o));
    let t1 = v.to_string();

    let w = K::into_owned(v.clone());
    let ow = obs::to_s(|o| K::obs(&w, o));
    let tw = w.to_string();
    let ew = K::eq_owned(v, &w);

    let c = v.clone();
    let oc = obs::to_s(|o| K::obs(&c, o));
    let tc = c.to_string();
    let ec = *v == c;

    let mut out = String::from("ok ");
    out.push_str(&o1);
    out.push_str(" O:");
    out.push(b(ew));
    out.push(b(ow == o1));
    out.push(b(tw == t1));
    out.push_str(" C:");
    out.push(b(ec));
    out.push(b(oc == o1));
    out.push(b(tc == t1));
    out
}

// --------------------------------------------------------------- playlists

/// Positions (in `slice`) of the references in `refs`, by pointer identity.
/// A reference that does not point into `slice` prints as `x` (cannot happen
/// unless `Decryptable::keys` / `associated_with` return foreign references).
fn push_positions<T, U>(
    o: &mut String,
    refs: &[&U],
    slice: &[T],
    project: impl Fn(&T) -> Option<&U>,
) {
    o.push('[');
    let mut from = 0usize;
    for (k, r) in refs.iter().enumerate() {
        if k > 0 {
            o.push(',');
        }
        let mut found = None;
        // forward scan first (the usual case: order preserved), then anywhere
        for (i, item) in slice.iter().enumerate().skip(from) {
            if project(item).map_or(false, |p| std::ptr::eq(p, *r)) {
                found = Some(i);
                break;
            }
        }
        if found.is_none() {
            for (i, item) in slice.iter().enumerate() {
                if project(item).map_or(false, |p| std::ptr::eq(p, *r)) {
                    found = Some(i);
                    break;
                }
            }
        }
        match found {
            Some(i) => {
                obs::nat(o, i);
                from = i + 1;
            }
            None => o.push('x'),
        }
    }
    o.push(']');
}

/// `D:[<seg keys>/<map keys or ->,…]`
fn push_d(o: &mut String, p: &MediaPlaylist<'_>) {
    o.push_str(" D:[");
    let mut first = true;
    for seg in p.segments.values() {
        if !first {
            o.push(',');
        }
        first = false;
        let ks: Vec<&DecryptionKey<'_>> = Decryptable::keys(seg);
        push_positions(o, &ks, &seg.keys, |k| k.as_ref());
        o.push('/');
        match &seg.map {
            None => o.push('-'),
            Some(m) => {
                let mk: Vec<&DecryptionKey<'_>> = Decryptable::keys(m);
                push_positions(o, &mk, verif_hooks::map_keys(m), |k| k.as_ref());
            }
        }
    }
    o.push(']');
}

/// `A:[[i,…],…]`
fn push_a(o: &mut String, p: &MasterPlaylist<'_>) {
    o.push_str(" A:[");
    for (k, vs) in p.variant_streams.iter().enumerate() {
        if k > 0 {
            o.push(',');
        }
        let ms: Vec<_> = p.associated_with(vs).collect();
        push_positions(o, &ms, &p.media, |m| Some(m));
    }
    o.push(']');
}

/// `ok <media> T V D` (+ ` R F` when `roundtrip`); returns also nothing else.
pub(crate) fn media_response(p: &MediaPlaylist<'_>, roundtrip: bool) -> String {
    let o1 = obs::to_s(|o| obs::media(o, p));
    let t1 = p.to_string();
    let v = obs::pversion_u8(p.required_version());
    let mut out = String::from("ok ");
    out.push_str(&o1);
    push_t(&mut out, &t1);
    out.push_str(&format!(" V:{}", v));
    push_d(&mut out, p);
    if roundtrip {
        let (r, f) = reparse::<crate::kinds::PMedia>(&t1, &o1);
        out.push(' ');
        out.push_str(&r);
        out.push(' ');
        out.push_str(&f);
    }
    out
}

/// `S:[audio_streams]/[video_streams]/[unassociated_streams]` as positions in `variant_streams`
fn push_s(o: &mut String, p: &MasterPlaylist<'_>) {
    o.push_str(" S:");
    let a: Vec<_> = p.audio_streams().collect();
    push_positions(o, &a, &p.variant_streams, |v| Some(v));
    o.push('/');
    let v: Vec<_> = p.video_streams().collect();
    push_positions(o, &v, &p.variant_streams, |v| Some(v));
    o.push('/');
    let u: Vec<_> = p.unassociated_streams().collect();
    push_positions(o, &u, &p.variant_streams, |v| Some(v));
}

pub(crate) fn master_response(p: &MasterPlaylist<'_>, roundtrip: bool) -> String {
    let o1 = obs::to_s(|o| obs::master(o, p));
    let t1 = p.to_string();
    let v = obs::pversion_u8(p.required_version());
    let mut out = String::from("ok ");
    out.push_str(&o1);
    push_t(&mut out, &t1);
    out.push_str(&format!(" V:{}", v));
    push_a(&mut out, p);
    push_s(&mut out, p);
    if roundtrip {
        let (r, f) = reparse::<crate::kinds::PMaster>(&t1, &o1);
        out.push(' ');
        out.push_str(&r);
        out.push(' ');
        out.push_str(&f);
    }
    out
}

fn op_media(text: &str, roundtrip: bool) -> String {
    match MediaPlaylist::try_from(text) {
        Ok(p) => media_response(&p, roundtrip),
        Err(_) => err(),
    }
}

/// `cmp_entry`: the same text through `TryFrom<&str>`, `FromStr` and a default builder's `parse`: the three values must be `==`
/// to each other (E:), and so must their clones / owned forms (X:)
fn op_cmp_entry(text: &str) -> String {
    let a = match MediaPlaylist::try_from(text) {
        Ok(p) => p,
        Err(_) => return err(),
    };
    let b: MediaPlaylist<'static> = match text.parse() {
        Ok(p) => p,
        Err(_) => return err(),
    };
    let c = match MediaPlaylist::builder().parse(text) {
        Ok(p) => p,
        Err(_) => return err(),
    };
    let e = a == b && b == a && a == c && c == a && b == c;
    let x = a.clone().into_owned() == b && a.clone() == c.clone().into_owned() && b.clone() == a;
    let mut out = String::from("ok ");
    out.push_str(&obs::to_s(|o| obs::media(o, &a)));
    out.push_str(" E:");
    out.push(b_(e));
    out.push_str(" X:");
    out.push(b_(x));
    out
}

fn b_(x: bool) -> char {
    if x {
        '1'
    } else {
        '0'
    }
}

fn op_media_fromstr(text: &str) -> String {
    match text.parse::<MediaPlaylist<'static>>() {
        Ok(p) => media_response(&p, false),
        Err(_) => err(),
    }
}

fn op_media_builder(text: &str, args: &[&str]) -> String {
    let excess = match args.first() {
        None => return bad(),
        Some(&"-") => None,
        Some(a) => {
            if a.is_empty() || !a.bytes().all(|c| c.is_ascii_digit()) {
                return bad();
            }
            let ns: u128 = match a.parse() {
                Ok(n) => n,
                Err(_) => return bad(),
            };
            let secs = match u64::try_from(ns / 1_000_000_000) {
                Ok(s) => s,
                Err(_) => return bad(),
            };
            Some(Duration::new(secs, (ns % 1_000_000_000) as u32))
        }
    };
    let mut builder = MediaPlaylist::builder();
    if let Some(d) = excess {
        builder.allowable_excess_duration(d);
    }
    match builder.parse(text) {
        Ok(p) => media_response(&p, false),
        Err(_) => err(),
    }
}

fn op_master(text: &str, roundtrip: bool) -> String {
    match MasterPlaylist::try_from(text) {
        Ok(p) => master_response(&p, roundtrip),
        Err(_) => err(),
    }
}

// ------------------------------------------------------------------- hooks

fn op_lines(text: &str) -> String {
    let items = verif_hooks::lines(text);
    let mut out = String::from("ok ");
    obs::list(&mut out, items.iter(), obs::line_item);
    out
}

fn op_attrs(text: &str) -> String {
    let pairs = verif_hooks::attribute_pairs(text);
    let mut out = String::from("ok ");
    obs::list(&mut out, pairs.iter(), |o, (k, v)| {
        obs::str_(o, k);
        o.push('=');
        obs::str_(o, v);
    });
    out
}

fn op_unquote(text: &str) -> String {
    let r = verif_hooks::unquote(text);
    let mut out = String::from("ok ");
    obs::str_(&mut out, &r);
    out
}

fn op_quote(text: &str) -> String {
    let r = verif_hooks::quote(text);
    let mut out = String::from("ok ");
    obs::str_(&mut out, &r);
    out
}

fn op_striptag(text: &str, args: &[&str]) -> String {
    let tag = match args.first().and_then(|a| hexs::decode_text(a)) {
        Some(t) => t,
        None => return bad(),
    };
    match verif_hooks::strip_tag(text, &tag) {
        Ok(rest) => {
            let mut out = String::from("ok ");
            obs::str_(&mut out, rest);
            out
        }
        Err(_) => err(),
    }
}

// ------------------------------------------------------------------ cmpkfv

/// Runs a KeyFormatVersions script; `None` = malformed script.
fn run_kfv_script(script: &str) -> Option<KeyFormatVersions> {
    let mut v = KeyFormatVersions::new();
    let mut nums: Vec<u8> = Vec::new();
    if script.is_empty() {
        return Some(v);
    }
    for item in script.split(',') {
        if item == "p" {
            let _ = v.pop();
        } else if item == "x" {
            v = nums.iter().copied().collect::<KeyFormatVersions>();
        } else if let Some(n) = item.strip_prefix('t') {
            if n.is_empty() || !n.bytes().all(|c| c.is_ascii_digit()) {
                return None;
            }
            v.truncate(n.parse::<usize>().ok()?);
        } else {
            if item.is_empty() || !item.bytes().all(|c| c.is_ascii_digit()) {
                return None;
            }
            let n = item.parse::<u8>().ok()?;
            nums.push(n);
            if v.remaining() > 0 {
                v.push(n);
            }
        }
    }
    Some(v)
}

fn op_cmpkfv(script_a: &str, args: &[&str]) -> String {
    let script_b = match args.first().and_then(|a| hexs::decode_text(a)) {
        Some(t) => t,
        None => return bad(),
    };
    let (a, bb) = match (run_kfv_script(script_a), run_kfv_script(&script_b)) {
        (Some(a), Some(bb)) => (a, bb),
        _ => return bad(),
    };
    let mut out = String::from("ok ");
    obs::versions(&mut out, &a);
    out.push(' ');
    obs::versions(&mut out, &bb);
    push_ech(
        &mut out,
        a == bb,
        Some(a.cmp(&bb)),
        Some(hash_of(&a) == hash_of(&bb)),
    );
    out
}

// ------------------------------------------------------------ f32 wrappers

macro_rules! f32_ops {
    ($cmp_name:ident, $rt_name:ident, $ty:ty, $kind:ty) => {
        fn $cmp_name(bits_a: &str, args: &[&str]) -> String {
            let bits_b = match args.first().and_then(|a| hexs::decode_text(a)) {
                Some(t) => t,
                None => return bad(),
            };
            let (ba, bb) = match (hexs::parse_bits(bits_a), hexs::parse_bits(&bits_b)) {
                (Some(x), Some(y)) => (x, y),
                _ => return bad(),
            };
            let a = match <$ty>::try_from(f32::from_bits(ba)) {
                Ok(v) => v,
                Err(_) => return err(),
            };
            let bv = match <$ty>::try_from(f32::from_bits(bb)) {
                Ok(v) => v,
                Err(_) => return err(),
            };
            let mut out = String::from("ok ");
            obs::f32_(&mut out, a.as_f32());
            out.push(' ');
            obs::f32_(&mut out, bv.as_f32());
            push_ech(
                &mut out,
                a == bv,
                Some(a.cmp(&bv)),
                Some(hash_of(&a) == hash_of(&bv)),
            );
            out
        }

        fn $rt_name(bits: &str) -> String {
            let bits = match hexs::parse_bits(bits) {
                Some(x) => x,
                None => return bad(),
            };
            let v = match <$ty>::try_from(f32::from_bits(bits)) {
                Ok(v) => v,
                Err(_) => return err(),
            };
            let o1 = obs::to_s(|o| obs::f32_(o, v.as_f32()));
            let t1 = v.to_string();
            let (r, _f) = reparse::<$kind>(&t1, &o1);
            let mut out = String::from("ok ");
            out.push_str(&o1);
            push_t(&mut out, &t1);
            out.push(' ');
            out.push_str(&r);
            out
        }
    };
}

f32_ops!(op_cmpf32_float, op_f32_float, Float, crate::kinds::KFloat);
f32_ops!(op_cmpf32_ufloat, op_f32_ufloat, UFloat, crate::kinds::KUFloat);

// -------------------------------------------------------------------- time

fn op_time(payload: &str, args: &[&str]) -> String {
    let inner = match args.first() {
        Some(op) if !op.is_empty() && *op != "time" => *op,
        _ => return bad(),
    };
    let rest = &args[1..];
    let started = Instant::now();
    let result = catch_unwind(AssertUnwindSafe(|| dispatch(inner, payload, rest)));
    let elapsed = started.elapsed().as_micros();
    match result {
        Ok(r) if r == BAD_OP => bad(),
        _ => format!("ok {}", elapsed),
    }
}

// ---------------------------------------------------------------- dispatch

/// Runs one op. `payload` is the decoded text, `args` are the raw extra
/// tab-separated fields. May panic (caller catches).
/// `par` — arg1 = inner op, remaining args passed through: run the inner op on this thread and on
/// four fresh threads; answer the common response, or `nondeterministic <a> <b>` when two differ
/// (C11: same text, other thread, equal value and identical serialisation).
fn op_par(payload: &str, args: &[&str]) -> String {
    let inner = match args.first() {
        Some(i) if *i != "par" && *i != "time" => i.to_string(),
        _ => return bad(),
    };
    let rest: Vec<String> = args[1..].iter().map(|s| s.to_string()).collect();
    let run = move |payload: String, inner: String, rest: Vec<String>| -> String {
        let refs: Vec<&str> = rest.iter().map(String::as_str).collect();
        match catch_unwind(AssertUnwindSafe(|| dispatch(&inner, &payload, &refs))) {
            Ok(r) => r,
            Err(_) => PANIC.to_string(),
        }
    };
    let first = run(payload.to_string(), inner.clone(), rest.clone());
    let mut handles = Vec::new();
    for _ in 0..4 {
        let (p, i, r) = (payload.to_string(), inner.clone(), rest.clone());
        handles.push(std::thread::spawn(move || run(p, i, r)));
    }
    for h in handles {
        match h.join() {
            Ok(r) => {
                if r != first {
                    return format!("nondeterministic {} {}", first, r);
                }
            }
            Err(_) => return PANIC.to_string(),
        }
    }
    first
}

/// `sweepf32:<T>` — payload "<start> <count>" (decimal): for every bit pattern in the range check
/// (C18) that `TryFrom<f32>` accepts exactly the finite (UFloat: sign-bit-clear) values and that an
/// accepted value survives `to_string()` -> `parse` with identical bits, and that the `{:.3}`
/// rendering used for FRAME-RATE re-parses (UFloat only). Implementation-only oracle.
/// Answer: `ok <checked> <accepted> <failures> <first failing bits or ->`.
/// which value carries the float through its text form
#[derive(Clone, Copy, PartialEq)]
enum Carrier {
    Float,
    UFloat,
    /// `ExtXStart::new(Float)` -> `#EXT-X-START:TIME-OFFSET=…` -> `ExtXStart::try_from`
    Start,
    /// `Value::Float(Float)` (client attribute value) -> text -> `Value::try_from`
    Value,
}

fn op_sweep_f32(payload: &str, carrier: Carrier) -> String {
    use hls_m3u8::tags::ExtXStart;
    use hls_m3u8::types::{Float, UFloat, Value};
    let mut it = payload.split(' ');
    let (start, count) = match (it.next().and_then(|x| x.parse::<u64>().ok()), it.next().and_then(|x| x.parse::<u64>().ok())) {
        (Some(a), Some(b)) if a + b <= (1u64 << 32) => (a, b),
        _ => return bad(),
    };
    let unsigned = carrier == Carrier::UFloat;
    let (mut accepted, mut failures, mut first) = (0u64, 0u64, None);
    for bits in start..start + count {
        let bits = bits as u32;
        let x = f32::from_bits(bits);
        let should = x.is_finite() && !(unsigned && x.is_sign_negative());
        let (got, back) = match carrier {
            Carrier::UFloat => match UFloat::try_from(x) {
                Ok(v) => (true, v.to_string().parse::<UFloat>().ok().map(|w| w.as_f32().to_bits())),
                Err(_) => (false, None),
            },
            Carrier::Float => match Float::try_from(x) {
                Ok(v) => (true, v.to_string().parse::<Float>().ok().map(|w| w.as_f32().to_bits())),
                Err(_) => (false, None),
            },
            Carrier::Start => match Float::try_from(x) {
                Ok(v) => {
                    let text = ExtXStart::new(v).to_string();
                    (true, ExtXStart::try_from(text.as_str()).ok().map(|w| w.time_offset().as_f32().to_bits()))
                }
                Err(_) => (false, None),
            },
            Carrier::Value => match Float::try_from(x) {
                Ok(v) => {
                    let text = Value::Float(v).to_string();
                    let back = match Value::try_from(text.as_str()) {
                        Ok(Value::Float(w)) => Some(w.as_f32().to_bits()),
                        _ => None,
                    };
                    (true, back)
                }
                Err(_) => (false, None),
            },
        };
        let ok = got == should && (!got || back == Some(bits));
        if got {
            accepted += 1;
        }
        if !ok {
            failures += 1;
            if first.is_none() {
                first = Some(bits);
            }
        }
    }
    format!(
        "ok {} {} {} {}",
        count,
        accepted,
        failures,
        first.map_or("-".to_string(), |b| format!("{:08x}", b))
    )
}

pub fn dispatch(op: &str, payload: &str, args: &[&str]) -> String {
    match op {
        "lines" => return op_lines(payload),
        "attrs" => return op_attrs(payload),
        "unquote" => return op_unquote(payload),
        "quote" => return op_quote(payload),
        "striptag" => return op_striptag(payload, args),
        "media" => return op_media(payload, false),
        "media_fromstr" => return op_media_fromstr(payload),
        "cmp_entry" => return op_cmp_entry(payload),
        "media_builder" => return op_media_builder(payload, args),
        "rt_media" => return op_media(payload, true),
        "master" => return op_master(payload, false),
        "rt_master" => return op_master(payload, true),
        "cmpkfv" => return op_cmpkfv(payload, args),
        "cmpf32:Float" => return op_cmpf32_float(payload, args),
        "cmpf32:UFloat" => return op_cmpf32_ufloat(payload, args),
        "f32:Float" => return op_f32_float(payload),
        "f32:UFloat" => return op_f32_ufloat(payload),
        "sweepf32:Float" => return op_sweep_f32(payload, Carrier::Float),
        "sweepf32:ExtXStart" => return op_sweep_f32(payload, Carrier::Start),
        "sweepf32:Value" => return op_sweep_f32(payload, Carrier::Value),
        "sweepf32:UFloat" => return op_sweep_f32(payload, Carrier::UFloat),
        "time" => return op_time(payload, args),
        "par" => return op_par(payload, args),
        "build_media" => return crate::builders::op_build_media(payload),
        "build_master" => return crate::builders::op_build_master(payload),
        "owned_build_media" => return crate::builders::op_owned_build_media(payload),
        "cmp_holes" => {
            return match args.first() {
                Some(i) => crate::builders::op_cmp_holes(payload, i),
                None => bad(),
            }
        }
        "cmp_build_media" => {
            return match args.first().and_then(|a| hexs::decode_text(a)) {
                Some(other) => crate::builders::op_cmp_build_media(payload, &other),
                None => bad(),
            }
        }
        _ => {}
    }

    if op.starts_with("type:") {
        return with_kind!(op, op_parse, (payload, Layout::Type), bad());
    }
    if op.starts_with("tag:") {
        return with_kind!(op, op_parse, (payload, Layout::Tag), bad());
    }
    if let Some(what) = op.strip_prefix("build_tag:") {
        return crate::builders::op_build_tag(what, payload);
    }
    if let Some(what) = op.strip_prefix("ctor:") {
        return crate::builders::op_ctor(what, payload);
    }
    if let Some(what) = op.strip_prefix("owned:") {
        return with_own_kind!(what, op_owned, (payload), bad());
    }
    if let Some(what) = op.strip_prefix("cmp:") {
        let other = match args.first().and_then(|a| hexs::decode_text(a)) {
            Some(t) => t,
            None => return bad(),
        };
        // accepted spellings: cmp:type:<T>, cmp:tag:<T>, cmp:<T>, cmp:media, cmp:master
        let full: String;
        let name: &str = if what.starts_with("type:")
            || what.starts_with("tag:")
            || what == "media"
            || what == "master"
        {
            what
        } else {
            let as_type = format!("type:{}", what);
            full = if is_kind_name(&as_type) {
                as_type
            } else {
                format!("tag:{}", what)
            };
            &full
        };
        return with_kind!(name, op_cmp, (payload, &other), bad());
    }
    bad()
}

fn is_kind_name(name: &str) -> bool {
    fn yes<K: Kind>() -> bool {
        true
    }
    with_kind!(name, yes, (), false)
}

/// Handles one request line (without its trailing newline).
pub fn handle_line(line: &[u8]) -> String {
    let line = match std::str::from_utf8(line) {
        Ok(l) => l,
        Err(_) => return bad(),
    };
    let mut fields = line.split('\t');
    let op = match fields.next() {
        Some(op) => op,
        None => return bad(),
    };
    let payload = match fields.next().and_then(hexs::decode_text) {
        Some(p) => p,
        None => return bad(),
    };
    let args: Vec<&str> = fields.collect();
    match catch_unwind(AssertUnwindSafe(|| dispatch(op, &payload, &args))) {
        Ok(r) => r,
        Err(_) => PANIC.to_string(),
    }
}
