//! Test harness for `hls_m3u8`: line protocol of /verif/PROTOCOL.md executed
//! against the real library.
pub mod builders;
pub mod hexs;
pub mod kinds;
pub mod obs;
pub mod ops;

pub use ops::{dispatch, handle_line};
