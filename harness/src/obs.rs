//! Observation printers: one function per nonterminal of the grammar in
//! /verif/PROTOCOL.md. Every printer appends to `o`; no printer ever emits a
//! blank.

use std::fmt::{Display, Write};
use std::time::Duration;

use hls_m3u8::tags::{
    ExtInf, ExtXByteRange, ExtXDateRange, ExtXKey, ExtXMap, ExtXMedia, ExtXProgramDateTime,
    ExtXSessionData, ExtXSessionKey, ExtXStart, ExtXVersion, SessionData, VariantStream,
};
use hls_m3u8::types::{
    ByteRange, Channels, ClosedCaptions, Codecs, DecryptionKey, EncryptionMethod, Float, HdcpLevel,
    InStreamId, InitializationVector, KeyFormat, KeyFormatVersions, MediaType, PlaylistType,
    ProtocolVersion, Resolution, StreamData, UFloat, Value,
};
use hls_m3u8::verif_hooks::{self, HookLine};
use hls_m3u8::{MasterPlaylist, MediaPlaylist, MediaSegment};

use crate::hexs::push_hex;

// ---------------------------------------------------------------- primitives

/// str := "s" hex
pub fn str_(o: &mut String, s: &str) {
    o.push('s');
    push_hex(o, s.as_bytes());
}

/// opt X := "-" | X
pub fn opt<T>(o: &mut String, v: Option<T>, f: impl FnOnce(&mut String, T)) {
    match v {
        None => o.push('-'),
        Some(x) => f(o, x),
    }
}

/// opt(str)
pub fn ostr<S: AsRef<str>>(o: &mut String, v: Option<S>) {
    opt(o, v, |o, s| str_(o, s.as_ref()));
}

/// bool := "0" | "1"
pub fn bool_(o: &mut String, b: bool) {
    o.push(if b { '1' } else { '0' });
}

/// nat := decimal
pub fn nat<T: Display>(o: &mut String, n: T) {
    let _ = write!(o, "{}", n);
}

/// dur := total nanoseconds
pub fn dur(o: &mut String, d: Duration) {
    nat(o, d.as_nanos());
}

/// f32 := "f" 8 hex digits
pub fn f32_(o: &mut String, x: f32) {
    let _ = write!(o, "f{:08x}", x.to_bits());
}

/// list X := "[" X ("," X)* "]" | "[]"
pub fn list<T>(
    o: &mut String,
    items: impl IntoIterator<Item = T>,
    mut f: impl FnMut(&mut String, T),
) {
    o.push('[');
    let mut first = true;
    for x in items {
        if !first {
            o.push(',');
        }
        first = false;
        f(o, x);
    }
    o.push(']');
}

/// Runs a printer into a fresh string.
pub fn to_s(f: impl FnOnce(&mut String)) -> String {
    let mut s = String::new();
    f(&mut s);
    s
}

// -------------------------------------------------------------------- types

pub fn byterange(o: &mut String, v: &ByteRange) {
    o.push('r');
    opt(o, v.start(), |o, n| nat(o, n));
    o.push(':');
    nat(o, v.end());
}

pub fn channels(o: &mut String, v: &Channels) {
    o.push('c');
    nat(o, v.number());
    o.push('/');
    bool_(o, v.has_joc_content());
}

pub fn cc(o: &mut String, v: &ClosedCaptions<'_>) {
    match v {
        ClosedCaptions::None => o.push_str("ccN"),
        ClosedCaptions::GroupId(g) => {
            o.push_str("ccG");
            str_(o, g);
        }
        _ => o.push('?'),
    }
}

pub fn codecs(o: &mut String, v: &Codecs<'_>) {
    list(o, v.iter(), |o, c| str_(o, c));
}

pub fn method(o: &mut String, v: EncryptionMethod) {
    o.push_str(match v {
        EncryptionMethod::Aes128 => "aes",
        EncryptionMethod::SampleAes => "saes",
        _ => "?",
    });
}

pub fn hdcp(o: &mut String, v: HdcpLevel) {
    o.push_str(match v {
        HdcpLevel::Type0 => "t0",
        HdcpLevel::None => "none",
        _ => "?",
    });
}

pub fn mtype(o: &mut String, v: MediaType) {
    o.push_str(match v {
        MediaType::Audio => "audio",
        MediaType::Video => "video",
        MediaType::Subtitles => "subs",
        MediaType::ClosedCaptions => "cc",
        _ => "?",
    });
}

pub fn instream(o: &mut String, v: InStreamId) {
    let _ = write!(o, "{:?}", v);
}

pub fn iv(o: &mut String, v: &InitializationVector) {
    match v {
        InitializationVector::Aes128(bytes) => {
            o.push_str("ivA");
            push_hex(o, bytes);
        }
        InitializationVector::Number(n) => {
            o.push_str("ivN");
            nat(o, n);
        }
        InitializationVector::Missing => o.push_str("ivM"),
        _ => o.push('?'),
    }
}

pub fn keyformat(o: &mut String, v: &KeyFormat<'_>) {
    match v {
        KeyFormat::Identity => o.push_str("kfI"),
        KeyFormat::FairPlay => o.push_str("kfF"),
        KeyFormat::Widevine => o.push_str("kfW"),
        KeyFormat::PlayReady => o.push_str("kfP"),
        KeyFormat::Other(s) => {
            o.push_str("kfO");
            str_(o, s);
        }
        _ => o.push('?'),
    }
}

pub fn versions(o: &mut String, v: &KeyFormatVersions) {
    o.push('v');
    let slice: &[u8] = v.as_ref();
    list(o, slice.iter(), |o, n| nat(o, n));
}

pub fn deckey(o: &mut String, v: &DecryptionKey<'_>) {
    o.push('{');
    method(o, v.method);
    o.push(';');
    str_(o, v.uri());
    o.push(';');
    iv(o, &v.iv);
    o.push(';');
    opt(o, v.format.as_ref(), keyformat);
    o.push(';');
    opt(o, v.versions.as_ref(), versions);
    o.push('}');
}

pub fn xkey(o: &mut String, v: &ExtXKey<'_>) {
    match &v.0 {
        None => o.push_str("K0"),
        Some(k) => {
            o.push('K');
            deckey(o, k);
        }
    }
}

pub fn pversion_u8(v: ProtocolVersion) -> u8 {
    match v {
        ProtocolVersion::V1 => 1,
        ProtocolVersion::V2 => 2,
        ProtocolVersion::V3 => 3,
        ProtocolVersion::V4 => 4,
        ProtocolVersion::V5 => 5,
        ProtocolVersion::V6 => 6,
        ProtocolVersion::V7 => 7,
        _ => 0,
    }
}

pub fn pversion(o: &mut String, v: ProtocolVersion) {
    nat(o, pversion_u8(v));
}

pub fn ptype(o: &mut String, v: PlaylistType) {
    o.push_str(match v {
        PlaylistType::Event => "EVENT",
        PlaylistType::Vod => "VOD",
    });
}

pub fn resolution(o: &mut String, v: &Resolution) {
    nat(o, v.width());
    o.push('x');
    nat(o, v.height());
}

pub fn streamdata(o: &mut String, v: &StreamData<'_>) {
    o.push('{');
    nat(o, v.bandwidth());
    o.push(';');
    opt(o, v.average_bandwidth(), |o, n| nat(o, n));
    o.push(';');
    opt(o, v.codecs(), |o, c| codecs(o, c));
    o.push(';');
    opt(o, v.resolution(), |o, r| resolution(o, &r));
    o.push(';');
    opt(o, v.hdcp_level(), |o, h| hdcp(o, h));
    o.push(';');
    ostr(o, v.video());
    o.push('}');
}

pub fn value(o: &mut String, v: &Value<'_>) {
    match v {
        Value::String(s) => {
            o.push_str("vS");
            push_hex(o, s.as_bytes());
        }
        Value::Hex(b) => {
            o.push_str("vH");
            push_hex(o, b);
        }
        Value::Float(f) => {
            let _ = write!(o, "vF{:08x}", f.as_f32().to_bits());
        }
        _ => o.push('?'),
    }
}

pub fn float(o: &mut String, v: Float) {
    f32_(o, v.as_f32());
}

pub fn ufloat(o: &mut String, v: UFloat) {
    f32_(o, v.as_f32());
}

// --------------------------------------------------------------------- tags

pub fn xversion(o: &mut String, v: &ExtXVersion) {
    pversion(o, v.version());
}

pub fn start(o: &mut String, v: &ExtXStart) {
    o.push('{');
    float(o, v.time_offset());
    o.push(';');
    bool_(o, v.is_precise());
    o.push('}');
}

pub fn extinf(o: &mut String, v: &ExtInf<'_>) {
    o.push('{');
    dur(o, v.duration());
    o.push(';');
    ostr(o, v.title().as_ref());
    o.push('}');
}

pub fn xbyterange(o: &mut String, v: &ExtXByteRange) {
    let r: &ByteRange = v;
    byterange(o, r);
}

pub fn map(o: &mut String, v: &ExtXMap<'_>) {
    o.push('{');
    str_(o, v.uri());
    o.push(';');
    opt(o, v.range(), |o, r| byterange(o, &r));
    o.push(';');
    list(o, verif_hooks::map_keys(v).iter(), xkey);
    o.push('}');
}

pub fn pdt(o: &mut String, v: &ExtXProgramDateTime<'_>) {
    str_(o, &v.date_time);
}

pub fn daterange(o: &mut String, v: &ExtXDateRange<'_>) {
    o.push('{');
    str_(o, v.id());
    o.push(';');
    ostr(o, v.class());
    o.push(';');
    ostr(o, v.start_date());
    o.push(';');
    ostr(o, v.end_date());
    o.push(';');
    opt(o, v.duration, dur);
    o.push(';');
    opt(o, v.planned_duration, dur);
    o.push(';');
    ostr(o, v.scte35_cmd());
    o.push(';');
    ostr(o, v.scte35_out());
    o.push(';');
    ostr(o, v.scte35_in());
    o.push(';');
    bool_(o, v.end_on_next);
    o.push(';');
    list(o, v.client_attributes.iter(), |o, (k, val)| {
        str_(o, k);
        o.push('=');
        value(o, val);
    });
    o.push('}');
}

pub fn xmedia(o: &mut String, v: &ExtXMedia<'_>) {
    o.push('{');
    mtype(o, v.media_type);
    o.push(';');
    ostr(o, v.uri());
    o.push(';');
    str_(o, v.group_id());
    o.push(';');
    ostr(o, v.language());
    o.push(';');
    ostr(o, v.assoc_language());
    o.push(';');
    str_(o, v.name());
    o.push(';');
    bool_(o, v.is_default);
    o.push(';');
    bool_(o, v.is_autoselect);
    o.push(';');
    bool_(o, v.is_forced);
    o.push(';');
    opt(o, v.instream_id, instream);
    o.push(';');
    ostr(o, v.characteristics());
    o.push(';');
    opt(o, v.channels.as_ref(), channels);
    o.push('}');
}

pub fn sessiondata(o: &mut String, v: &ExtXSessionData<'_>) {
    o.push('{');
    str_(o, v.data_id());
    o.push(';');
    match &v.data {
        SessionData::Value(s) => {
            o.push('V');
            str_(o, s);
        }
        SessionData::Uri(s) => {
            o.push('U');
            str_(o, s);
        }
    }
    o.push(';');
    ostr(o, v.language());
    o.push('}');
}

pub fn sessionkey(o: &mut String, v: &ExtXSessionKey<'_>) {
    deckey(o, &v.0);
}

pub fn variant(o: &mut String, v: &VariantStream<'_>) {
    match v {
        VariantStream::ExtXIFrame { uri, stream_data } => {
            o.push_str("I{");
            str_(o, uri);
            o.push(';');
            streamdata(o, stream_data);
            o.push('}');
        }
        VariantStream::ExtXStreamInf {
            uri,
            frame_rate,
            audio,
            subtitles,
            closed_captions,
            stream_data,
        } => {
            o.push_str("S{");
            str_(o, uri);
            o.push(';');
            opt(o, *frame_rate, ufloat);
            o.push(';');
            ostr(o, audio.as_ref());
            o.push(';');
            ostr(o, subtitles.as_ref());
            o.push(';');
            opt(o, closed_captions.as_ref(), cc);
            o.push(';');
            streamdata(o, stream_data);
            o.push('}');
        }
    }
}

// ---------------------------------------------------------------- playlists

pub fn segment(o: &mut String, v: &MediaSegment<'_>) {
    o.push('{');
    nat(o, v.number());
    o.push(';');
    bool_(o, verif_hooks::segment_explicit_number(v));
    o.push(';');
    list(o, v.keys.iter(), xkey);
    o.push(';');
    opt(o, v.map.as_ref(), map);
    o.push(';');
    opt(o, v.byte_range.as_ref(), xbyterange);
    o.push(';');
    opt(o, v.date_range.as_ref(), daterange);
    o.push(';');
    bool_(o, v.has_discontinuity);
    o.push(';');
    opt(o, v.program_date_time.as_ref(), pdt);
    o.push(';');
    extinf(o, &v.duration);
    o.push(';');
    str_(o, v.uri());
    o.push('}');
}

pub fn media(o: &mut String, v: &MediaPlaylist<'_>) {
    o.push_str("M{");
    dur(o, v.target_duration);
    o.push(';');
    nat(o, v.media_sequence);
    o.push(';');
    nat(o, v.discontinuity_sequence);
    o.push(';');
    opt(o, v.playlist_type, ptype);
    o.push(';');
    bool_(o, v.has_i_frames_only);
    o.push(';');
    bool_(o, v.has_independent_segments);
    o.push(';');
    opt(o, v.start.as_ref(), start);
    o.push(';');
    bool_(o, v.has_end_list);
    o.push(';');
    dur(o, v.allowable_excess_duration);
    o.push(';');
    list(o, v.unknown.iter(), |o, s| str_(o, s));
    o.push(';');
    list(o, v.segments.values(), segment);
    o.push('}');
}

pub fn master(o: &mut String, v: &MasterPlaylist<'_>) {
    o.push_str("P{");
    bool_(o, v.has_independent_segments);
    o.push(';');
    opt(o, v.start.as_ref(), start);
    o.push(';');
    list(o, v.media.iter(), xmedia);
    o.push(';');
    list(o, v.variant_streams.iter(), variant);
    o.push(';');
    list(o, v.session_data.iter(), sessiondata);
    o.push(';');
    list(o, v.session_keys.iter(), sessionkey);
    o.push(';');
    list(o, v.unknown_tags.iter(), |o, s| str_(o, s));
    o.push('}');
}

// ---------------------------------------------------------------- line items

/// One item of the `lines` op.
pub fn line_item(o: &mut String, item: &Result<HookLine<'_>, hls_m3u8::Error>) {
    let line = match item {
        Err(_) => {
            o.push('E');
            return;
        }
        Ok(l) => l,
    };
    match line {
        HookLine::Version(v) => {
            o.push_str("Ver:");
            pversion(o, *v);
        }
        HookLine::Inf(t) => {
            o.push_str("Inf:");
            extinf(o, t);
        }
        HookLine::ByteRange(t) => {
            o.push_str("Br:");
            xbyterange(o, t);
        }
        HookLine::Discontinuity => o.push_str("Disc"),
        HookLine::Key(t) => {
            o.push_str("Key:");
            xkey(o, t);
        }
        HookLine::Map(t) => {
            o.push_str("Map:");
            map(o, t);
        }
        HookLine::ProgramDateTime(t) => {
            o.push_str("Pdt:");
            pdt(o, t);
        }
        HookLine::DateRange(t) => {
            o.push_str("Dr:");
            daterange(o, t);
        }
        HookLine::TargetDuration(d) => {
            o.push_str("Td:");
            dur(o, *d);
        }
        HookLine::MediaSequence(n) => {
            o.push_str("Ms:");
            nat(o, n);
        }
        HookLine::DiscontinuitySequence(n) => {
            o.push_str("Ds:");
            nat(o, n);
        }
        HookLine::EndList => o.push_str("End"),
        HookLine::PlaylistType(t) => {
            o.push_str("Pt:");
            ptype(o, *t);
        }
        HookLine::IFramesOnly => o.push_str("Ifo"),
        HookLine::Media(t) => {
            o.push_str("Med:");
            xmedia(o, t);
        }
        HookLine::SessionData(t) => {
            o.push_str("Sd:");
            sessiondata(o, t);
        }
        HookLine::SessionKey(k) => {
            o.push_str("Sk:");
            deckey(o, k);
        }
        HookLine::IndependentSegments => o.push_str("Ind"),
        HookLine::Start(t) => {
            o.push_str("St:");
            start(o, t);
        }
        HookLine::Variant(t) => {
            o.push_str("Vs:");
            variant(o, t);
        }
        HookLine::Unknown(s) => {
            o.push_str("Unk:");
            str_(o, s);
        }
        HookLine::Comment(s) => {
            o.push_str("Com:");
            str_(o, s);
        }
        HookLine::Uri(s) => {
            o.push_str("Uri:");
            str_(o, s);
        }
    }
}
