import Hls.Proofs.Render
import Hls.Proofs.KeySet
import Hls.Props.C11
import Hls.Proofs.KeyLine
/-!
# Helper file for C03: the writer's announced keys mirror the parser's keys in effect

The stateful part of the property is the writer's "keys already announced" set, which has to be
the mirror image of the parser's "keys in effect" set.  Both are shown to implement the same
specification (`C06.KeySpec`), hence — being sorted duplicate-free listings — they are *equal*
after every written key line (`key_lines_mirror`).

Status (see DESIGN.md §7 C03): the key mirror, the text-level reduction to typed lines and the
three recorded counterexamples (K2, K3, K4) are proved; the assembly of the full playlist round
trip over typed lines (`media_write_parse`) is in `Props/C03Full.lean` when present.
-/
namespace Hls.C03K
open Hls C06

theorem findReplaced_spec (k : DecryptionKey) (l : List ExtXKey) (hn : ∀ x ∈ l, x ≠ none) :
    (findReplaced k l = .ok none ∧ ∀ d, some d ∈ l → normFormat d = normFormat k → d = k) ∨
    (∃ d, findReplaced k l = .ok (some (some d)) ∧ some d ∈ l ∧ normFormat d = normFormat k ∧ d ≠ k) := by
  induction l with
  | nil => left; simp [findReplaced]
  | cons x xs ih =>
    cases x with
    | none => exact absurd rfl (hn none (by simp))
    | some o =>
      have hn' : ∀ x ∈ xs, x ≠ none := fun x hx => hn x (by simp [hx])
      simp only [findReplaced]
      by_cases hc : (normFormat o == normFormat k && some k != some o) = true
      · right
        simp only [Bool.and_eq_true, beq_iff_eq, bne_iff_ne, ne_eq, Option.some.injEq] at hc
        exact ⟨o, by simp [hc.1, hc.2], by simp, hc.1, fun e => hc.2 e.symm⟩
      · simp only [hc, Bool.false_eq_true, if_false]
        have hc' : normFormat o = normFormat k → o = k := by
          intro e
          simp only [Bool.and_eq_true, beq_iff_eq, bne_iff_ne, ne_eq, Option.some.injEq, not_and, Decidable.not_not] at hc
          exact (hc e).symm
        rcases ih hn' with ⟨h1, h2⟩ | ⟨d, h1, h2, h3, h4⟩
        · left
          refine ⟨h1, ?_⟩
          intro d hd e
          simp only [List.mem_cons, Option.some.injEq] at hd
          rcases hd with rfl | hd
          · exact hc' e
          · exact h2 d hd e
        · right; exact ⟨d, h1, by simp [h2], h3, h4⟩

theorem step_idem (m : KeyFormat → Option DecryptionKey) (k : DecryptionKey) (h : m (normFormat k) = some k) :
    (KeySpec.keys m).step (some k) = .keys m := by
  simp only [KeySpec.step]
  congr 1; funext f
  split
  · rename_i e; rw [e, h]
  · rfl

/-- **the writer refines the key specification**: handling one key of a segment moves the
announced set along the specification's step for the (IV-stripped) key, and emits either nothing
(the key is already in effect) or exactly that key line -/
theorem writer_refines (W : List ExtXKey) (s : KeySpec) (key : ExtXKey) (out : List Line)
    (ha : Abs W s) (hs : KSorted W) :
    ∃ W' em, writeKeyStep (W, out) key = .ok (W', out ++ em) ∧ Abs W' (s.step (stripKey key)) ∧ KSorted W' ∧
      ((em = [] ∧ s.step (stripKey key) = s) ∨ em = [Line.key (stripKey key)]) := by
  cases key with
  | none =>
    refine ⟨[none], [Line.key none], rfl, ?_, ?_, Or.inr rfl⟩
    · cases s <;> simp [KeySpec.step, stripKey, Abs]
    · simp [KSorted]
  | some dk =>
    simp only [writeKeyStep, stripKey]
    cases s with
    | marker =>
      simp only [Abs] at ha; subst ha
      have e1 : setRemove none [none] = [] := by
        simp [setRemove, ExtXKey.cmp, cmpOpt]
      simp only [e1, setContains, List.any_nil, Bool.false_eq_true, if_false, setInsert, findReplaced]
      have e2 : (normFormat (stripIv dk) == normFormat (stripIv dk) && some (stripIv dk) != some (stripIv dk)) = false := by simp
      simp only [e2, Bool.false_eq_true, if_false]
      refine ⟨_, [Line.key (some (stripIv dk))], rfl, ?_, by simp [KSorted], Or.inr rfl⟩
      simp only [KeySpec.step, Abs]
      refine ⟨by simp, ?_⟩
      intro k
      simp only [List.mem_singleton, Option.some.injEq]
      constructor
      · intro e; subst e; simp
      · intro e; split at e
        · exact (Option.some.inj e).symm
        · cases e
    | keys m =>
      obtain ⟨hnm, hmem⟩ := ha
      have e1 : setRemove none W = W := by
        simp only [setRemove]
        apply List.filter_eq_self.mpr
        intro x hx
        cases x with
        | none => exact absurd rfl (hnm none hx)
        | some _ => simp [ExtXKey.cmp, cmpOpt]
      simp only [e1]
      by_cases hc : setContains (some (stripIv dk)) W = true
      · simp only [hc, if_true]
        have hin : some (stripIv dk) ∈ W := (setContains_iff _ _).mp hc
        have := (hmem _).mp hin
        exact ⟨W, [], by simp, by rw [step_idem m _ this]; exact ⟨hnm, hmem⟩, hs, Or.inl ⟨rfl, step_idem m _ this⟩⟩
      · simp only [hc, Bool.false_eq_true, if_false]
        have hnin : some (stripIv dk) ∉ W := fun h => hc ((setContains_iff _ _).mpr h)
        have hs2 := KSorted_setInsert (some (stripIv dk)) W hs
        have hn2 : ∀ x ∈ setInsert (some (stripIv dk)) W, x ≠ none := by
          intro x hx
          rcases (mem_setInsert _ _ _).mp hx with rfl | hx
          · simp
          · exact hnm x hx
        rcases findReplaced_spec (stripIv dk) _ hn2 with ⟨h1, h2⟩ | ⟨d, h1, h2, h3, h4⟩
        · simp only [h1]
          refine ⟨_, [Line.key (some (stripIv dk))], rfl, ⟨hn2, ?_⟩, hs2, Or.inr rfl⟩
          intro x
          rw [mem_setInsert]
          simp only [Option.some.injEq]
          constructor
          · rintro (rfl | hx)
            · simp
            · have hne : normFormat x ≠ normFormat (stripIv dk) := by
                intro e
                have := h2 x ((mem_setInsert _ _ _).mpr (Or.inr hx)) e
                subst this; exact hnin hx
              simp only [hne, if_false]
              exact (hmem x).mp hx
          · intro e
            split at e
            · left; exact (Option.some.inj e).symm
            · right; exact (hmem x).mpr e
        · simp only [h1]
          have hdW : some d ∈ W := by
            rcases (mem_setInsert _ _ _).mp h2 with e | h
            · exact absurd (Option.some.inj e) h4
            · exact h
          have hmd : m (normFormat (stripIv dk)) = some d := by rw [← h3]; exact (hmem d).mp hdW
          refine ⟨_, [Line.key (some (stripIv dk))], rfl, ⟨?_, ?_⟩, KSorted_setRemove _ _ hs2, Or.inr rfl⟩
          · intro x hx
            exact hn2 x ((mem_setRemove _ _ _).mp hx).1
          · intro x
            rw [mem_setRemove, mem_setInsert]
            simp only [Option.some.injEq, ne_eq]
            constructor
            · rintro ⟨rfl | hx, hne⟩
              · simp
              · have hne' : normFormat x ≠ normFormat (stripIv dk) := by
                  intro e
                  have := (hmem x).mp hx
                  rw [e, hmd] at this
                  exact hne (Option.some.inj this).symm
                simp only [hne', if_false]
                exact (hmem x).mp hx
            · intro e
              split at e
              · rename_i ef
                have : x = stripIv dk := (Option.some.inj e).symm
                subst this
                exact ⟨Or.inl rfl, fun e' => h4 e'.symm⟩
              · rename_i ef
                refine ⟨Or.inr ((hmem x).mpr e), ?_⟩
                intro e'; subst e'; exact ef h3

/-- **the mirror**: after the lines the writer emits for one key, the parser's keys in effect
equal the writer's announced set, provided they were equal before -/
theorem key_lines_mirror (W : List ExtXKey) (s : KeySpec) (key : ExtXKey) (out : List Line)
    (ha : Abs W s) (hs : KSorted W) :
    ∃ W' em, writeKeyStep (W, out) key = .ok (W', out ++ em) ∧ em.foldl keyOfLine W = W' ∧
      Abs W' (s.step (stripKey key)) ∧ KSorted W' := by
  obtain ⟨W', em, h1, h2, h3, h4⟩ := writer_refines W s key out ha hs
  refine ⟨W', em, h1, ?_, h2, h3⟩
  rcases h4 with ⟨rfl, e⟩ | rfl
  · rw [e] at h2
    exact C11.listing_canonical _ _ s ha h2 hs h3
  · simp only [List.foldl_cons, List.foldl_nil, keyOfLine]
    exact C11.listing_canonical _ _ _ (abs_step W s _ ha) h2 (KSorted_updateKeys W _ hs) h3

/-! ## text level: `to_string()` then `try_from` is the state machine on the written lines -/

theorem media_text_reduction (b : MediaPlaylistBuilder) (p : MediaPlaylist) (ls : List Line) (text : Str)
    (hw : p.writeLines = .ok ls) (ht : p.show = .ok text) (hrt : ∀ l ∈ ls, LineRT l) :
    parseMediaWith b text = assembleMedia b ls := by
  simp only [MediaPlaylist.show, hw, Res.ok.injEq] at ht
  subst ht
  exact parseMedia_of_written b ls hrt

/-! ## the recorded counterexamples to the full statement (known findings K2, K3), on typed lines -/

def kA : DecryptionKey := ⟨.aes128, ['a'], .missing, none, none⟩
def kB : DecryptionKey := ⟨.aes128, ['b'], .missing, some (.other ['f']), none⟩
def inf1 : ExtInf := ⟨1000000000, none⟩

/-- K3: `KEY a, KEY b(f), segment, KEY NONE, KEY a, segment` -/
def k3Lines : List Line :=
  [.targetDuration 10000000000, .key (some kA), .key (some kB), .inf inf1, .uri ['s', '0'],
   .key none, .key (some kA), .inf inf1, .uri ['s', '1']]

/-- K2: `MAP, KEY a, segment` -/
def k2Lines : List Line :=
  [.targetDuration 10000000000, .map ⟨['m'], none, []⟩, .key (some kA), .inf inf1, .uri ['s', '0']]

/-- reading back what the writer produces for the parse of `ls` -/
def writeThenParse (ls : List Line) : Res MediaPlaylist :=
  match assembleMedia {} ls with
  | .ok p =>
    match p.writeLines with
    | .ok lines => assembleMedia {} lines
    | .err => .err
    | .panic => .panic
  | .err => .err
  | .panic => .panic

/-- the former finding K3 (the writer re-announced nothing after the reset): since the `fix:` that
makes the writer print the reset, this history round-trips -/
theorem k3_repaired : (assembleMedia {} k3Lines).isOk = true ∧ writeThenParse k3Lines = assembleMedia {} k3Lines := by decide +kernel

theorem k2_counterexample : (assembleMedia {} k2Lines).isOk = true ∧ (writeThenParse k2Lines).isOk = true ∧
    writeThenParse k2Lines ≠ assembleMedia {} k2Lines := by decide +kernel

/-- a control: the same shapes without the defect round-trip exactly -/
theorem control_roundtrip :
    writeThenParse [.targetDuration 10000000000, .key (some kA), .key (some kB), .map ⟨['m'], none, []⟩, .inf inf1, .uri ['s', '0'],
      .key none, .inf inf1, .uri ['s', '1'], .key (some kA), .key (some kB), .inf inf1, .uri ['s', '2']] =
    assembleMedia {} [.targetDuration 10000000000, .key (some kA), .key (some kB), .map ⟨['m'], none, []⟩, .inf inf1, .uri ['s', '0'],
      .key none, .inf inf1, .uri ['s', '1'], .key (some kA), .key (some kB), .inf inf1, .uri ['s', '2']] := by decide +kernel

end Hls.C03K
