import Hls.Proofs.VariantRT
import Hls.Proofs.WrittenRT
/-!
# Every line the master writer emits reads back (`LineRT`), from conditions on the value: `MasterWF`
-/
namespace Hls

def VariantWF : VariantStream → Prop
  | .extXIFrame uri d => Quotable uri ∧ d.WF
  | .extXStreamInf uri fr au su cc d => StreamInfWF uri fr au su cc d

/-- the master playlists for which the text form is faithful: every tag in the domain of its round trip
(`ExtXMedia.WF`, `StreamData.WF`, `DecryptionKey.WF` …); FL1 for the EXT-X-START offset, the three-decimal
FRAME-RATE reading back; unknown tags are single trimmed lines that classify as unknown again -/
structure MasterWF (p : MasterPlaylist) : Prop where
  media : ∀ m ∈ p.media, m.WF
  variants : ∀ v ∈ p.variant_streams, VariantWF v
  sessionData : ∀ t ∈ p.session_data, t.WF
  sessionKeys : ∀ k ∈ p.session_keys, k.WF
  start : ∀ s, p.start = some s → FloatRT s.time_offset
  unknown : ∀ u ∈ p.unknown_tags, LineRT (.unknown u)

theorem master_requiredVersion_range (p : MasterPlaylist) : p.requiredVersion ∈ [1, 2, 3, 4, 5, 6, 7] := by
  have h1 : 1 ≤ p.requiredVersion := C10.one_le_maxVersion _
  have h7 : p.requiredVersion ≤ 7 := by
    unfold MasterPlaylist.requiredVersion
    apply C10.maxVersion_le _ _ (by omega)
    intro x hx
    simp only [List.mem_cons, List.mem_nil_iff, or_false] at hx
    rcases hx with rfl | rfl | rfl | rfl | rfl | rfl
    any_goals omega
    · apply C10.maxVersion_le _ _ (by omega)
      intro y hy
      obtain ⟨m, _, rfl⟩ := List.mem_map.mp hy
      unfold ExtXMedia.requiredVersion
      split
      · unfold InStreamId.requiredVersion; split <;> omega
      · omega
    · apply C10.maxVersion_le _ _ (by omega)
      intro y hy
      obtain ⟨k, _, rfl⟩ := List.mem_map.mp hy
      exact key_rv_le5 (some k)
  have : p.requiredVersion = 1 ∨ p.requiredVersion = 2 ∨ p.requiredVersion = 3 ∨ p.requiredVersion = 4 ∨
      p.requiredVersion = 5 ∨ p.requiredVersion = 6 ∨ p.requiredVersion = 7 := by omega
  rcases this with e | e | e | e | e | e | e <;> rw [e] <;> decide

theorem lineRT_variant (v : VariantStream) (h : VariantWF v) : LineRT (.variant v) := by
  cases v with
  | extXIFrame uri d => exact lineRT_iframe uri d h.1 h.2
  | extXStreamInf uri fr au su cc d => exact lineRT_streamInf uri fr au su cc d h

/-- **every line the master writer emits reads back** -/
theorem master_written_lines_rt (p : MasterPlaylist) (wf : MasterWF p) : ∀ l ∈ p.writeLines, LineRT l := by
  intro l hl
  simp only [MasterPlaylist.writeLines, List.mem_append] at hl
  rcases hl with ((((((hl | hl) | hl) | hl) | hl) | hl) | hl) | hl
  · split at hl <;> simp at hl; subst hl; exact lineRT_version _ (master_requiredVersion_range p)
  · obtain ⟨m, hm, rfl⟩ := List.mem_map.mp hl; exact lineRT_media m (wf.media m hm)
  · obtain ⟨v, hv, rfl⟩ := List.mem_map.mp hl; exact lineRT_variant v (wf.variants v hv)
  · obtain ⟨t, ht, rfl⟩ := List.mem_map.mp hl; exact lineRT_sessionData t (wf.sessionData t ht)
  · obtain ⟨k, hk, rfl⟩ := List.mem_map.mp hl; exact lineRT_sessionKey k (wf.sessionKeys k hk)
  · split at hl <;> simp at hl; subst hl; exact lineRT_independentSegments
  · split at hl
    · rename_i s hs; simp at hl; subst hl; exact lineRT_start s (wf.start s hs)
    · simp at hl
  · obtain ⟨u, hu, rfl⟩ := List.mem_map.mp hl; exact wf.unknown u hu

end Hls
