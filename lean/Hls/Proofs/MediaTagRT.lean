import Hls.Proofs.LineRTAttr
/-!
# EXT-X-MEDIA: parse (write t) = t, and `LineRT`
-/
namespace Hls

/-! ## generic pieces -/

def optPiece (kv : Str × Option Str) : Str :=
  match kv.2 with
  | some v => ',' :: kv.1 ++ '=' :: v
  | none => []

theorem renderOpt_pieces (k0 v0 : Str) (rest : List (Str × Option Str)) :
    renderOpt k0 v0 rest = k0 ++ '=' :: v0 ++ rest.flatMap optPiece := rfl

theorem optPiece_opt {α} (name : String) (k : Str) (f : α → Str) (o : Option α) (h : name.toList = ',' :: k ++ ['=']) :
    optAttr name f o = optPiece (k, o.map f) := by
  cases o with
  | none => rfl
  | some x => simp [optAttr, optPiece, h]

theorem optPiece_flag (k lit : Str) (b : Bool) (h : lit = ',' :: k ++ '=' :: "YES".toList) :
    (if b then lit else []) = optPiece (k, if b then some "YES".toList else none) := by
  cases b
  · rfl
  · simp [optPiece, h]

theorem optPiece_req (k lit v r : Str) (h : lit = ',' :: k ++ ['=']) : lit ++ (v ++ r) = optPiece (k, some v) ++ r := by
  simp [optPiece, h]

theorem any_presentPairs (bad : Str × Str → Bool) (k0 v0 : Str) (rest : List (Str × Option Str)) (h0 : bad (k0, v0) = false)
    (hr : ∀ kv ∈ rest, ∀ v, kv.2 = some v → bad (kv.1, v) = false) :
    ((k0, v0) :: presentPairs rest).any bad = false := by
  rw [List.any_eq_false]
  intro kv hkv
  rcases List.mem_cons.mp hkv with rfl | hkv
  · simp [h0]
  · simp only [presentPairs, List.mem_filterMap] at hkv
    obtain ⟨e, he, hm⟩ := hkv
    cases h2 : e.2 with
    | none => rw [h2] at hm; cases hm
    | some v =>
      rw [h2] at hm
      simp only [Option.map_some, Option.some.injEq] at hm
      subst hm
      simp [hr e he v h2]

theorem lastVal_first (k0 v0 : Str) (rest : List (Str × Option Str)) (hn : (rest.map (·.1)).Nodup)
    (h0 : lookupOpt k0 rest = none) : lastVal k0 ((k0, v0) :: presentPairs rest) = some v0 := by
  apply lastVal_cons_eq
  rw [lastVal_present _ _ hn, h0]

theorem lastVal_rest (k k0 v0 : Str) (rest : List (Str × Option Str)) (hne : (k0 == k) = false)
    (hn : (rest.map (·.1)).Nodup) : lastVal k ((k0, v0) :: presentPairs rest) = lookupOpt k rest := by
  rw [lastVal_cons_ne _ _ _ _ hne, lastVal_present _ _ hn]

end Hls

namespace Hls

/-! ## EXT-X-MEDIA -/

def mediaRest (t : ExtXMedia) : List (Str × Option Str) :=
  [("URI".toList, t.uri.map quote), ("GROUP-ID".toList, some (quote t.group_id)), ("LANGUAGE".toList, t.language.map quote),
   ("ASSOC-LANGUAGE".toList, t.assoc_language.map quote), ("NAME".toList, some (quote t.name)),
   ("DEFAULT".toList, if t.is_default then some "YES".toList else none),
   ("AUTOSELECT".toList, if t.is_autoselect then some "YES".toList else none),
   ("FORCED".toList, if t.is_forced then some "YES".toList else none),
   ("INSTREAM-ID".toList, t.instream_id.map fun i => quote i.show),
   ("CHARACTERISTICS".toList, t.characteristics.map quote),
   ("CHANNELS".toList, t.channels.map fun c => quote c.show)]

theorem media_show_eq (t : ExtXMedia) : t.show = pfxMedia ++ renderOpt "TYPE".toList t.media_type.show (mediaRest t) := by
  unfold ExtXMedia.show
  rw [optPiece_opt ",URI=" "URI".toList quote t.uri rfl,
    optPiece_opt ",LANGUAGE=" "LANGUAGE".toList quote t.language rfl,
    optPiece_opt ",ASSOC-LANGUAGE=" "ASSOC-LANGUAGE".toList quote t.assoc_language rfl,
    optPiece_opt ",INSTREAM-ID=" "INSTREAM-ID".toList (fun i => quote i.show) t.instream_id rfl,
    optPiece_opt ",CHARACTERISTICS=" "CHARACTERISTICS".toList quote t.characteristics rfl,
    optPiece_opt ",CHANNELS=" "CHANNELS".toList (fun c => quote c.show) t.channels rfl,
    optPiece_flag "DEFAULT".toList ",DEFAULT=YES".toList t.is_default rfl,
    optPiece_flag "AUTOSELECT".toList ",AUTOSELECT=YES".toList t.is_autoselect rfl,
    optPiece_flag "FORCED".toList ",FORCED=YES".toList t.is_forced rfl]
  simp only [renderOpt_pieces, mediaRest, List.flatMap_cons, List.flatMap_nil, List.append_assoc, List.append_nil]
  rw [optPiece_req "GROUP-ID".toList ",GROUP-ID=".toList (quote t.group_id) _ rfl,
    optPiece_req "NAME".toList ",NAME=".toList (quote t.name) _ rfl]
  rfl

end Hls

namespace Hls

theorem attrVal_optQuote (o : Option Str) (h : ∀ x, o = some x → Quotable x) : ∀ v, o.map quote = some v → AttrVal v := by
  intro v e
  cases o with
  | none => cases e
  | some x => simp only [Option.map_some, Option.some.injEq] at e; subst e; exact attrVal_quote x (h x rfl)

theorem attrVal_flag (b : Bool) : ∀ v, (if b then some "YES".toList else none) = some v → AttrVal v := by
  intro v e
  cases b
  · cases e
  · simp only [if_true, Option.some.injEq] at e; subst e; exact attrVal_plain _ (by decide)

theorem inStreamId_plain : ∀ i ∈ List.range 67, plainVal (InStreamId.show ⟨i⟩) = true := by decide +kernel

theorem channels_plain (c : Channels) : plainVal c.show = true := by
  unfold Channels.show
  split
  · exact plain_append _ _ (plain_showNat _) (by decide)
  · exact plain_showNat _

/-- the builder state the parser reaches on the written form of `t` -/
def mediaBuilderOf (t : ExtXMedia) : ExtXMediaBuilder :=
  { media_type := some t.media_type, uri := t.uri, group_id := some t.group_id, language := t.language,
    assoc_language := t.assoc_language, name := some t.name,
    is_default := if t.is_default then some true else none,
    is_autoselect := if t.is_autoselect then some true else none,
    is_forced := if t.is_forced then some true else none,
    instream_id := t.instream_id, characteristics := t.characteristics, channels := t.channels }

/-- the values for which the text form of EXT-X-MEDIA is faithful: strings without quote / line end,
one of the 67 in-stream ids, a channel count below 2^64, and the tag's own rules (C14) -/
structure ExtXMedia.WF (t : ExtXMedia) : Prop where
  uri : ∀ x, t.uri = some x → Quotable x
  group : Quotable t.group_id
  lang : ∀ x, t.language = some x → Quotable x
  assoc : ∀ x, t.assoc_language = some x → Quotable x
  name : Quotable t.name
  instream : ∀ i, t.instream_id = some i → i.idx < 67
  chars : ∀ x, t.characteristics = some x → Quotable x
  channels : ∀ c, t.channels = some c → c.number < 2 ^ 64
  valid : (mediaBuilderOf t).validate = true

theorem mediaRest_ok (t : ExtXMedia) (h : t.WF) :
    ∀ kv ∈ mediaRest t, wfKey kv.1 ∧ '\n' ∉ kv.1 ∧ ∀ v, kv.2 = some v → AttrVal v := by
  have K0 : wfKey "URI".toList ∧ '\n' ∉ "URI".toList := ⟨wfKey_lit _ (by decide) (by decide), by decide⟩
  have K1 : wfKey "GROUP-ID".toList ∧ '\n' ∉ "GROUP-ID".toList := ⟨wfKey_lit _ (by decide) (by decide), by decide⟩
  have K2 : wfKey "LANGUAGE".toList ∧ '\n' ∉ "LANGUAGE".toList := ⟨wfKey_lit _ (by decide) (by decide), by decide⟩
  have K3 : wfKey "ASSOC-LANGUAGE".toList ∧ '\n' ∉ "ASSOC-LANGUAGE".toList := ⟨wfKey_lit _ (by decide) (by decide), by decide⟩
  have K4 : wfKey "NAME".toList ∧ '\n' ∉ "NAME".toList := ⟨wfKey_lit _ (by decide) (by decide), by decide⟩
  have K5 : wfKey "DEFAULT".toList ∧ '\n' ∉ "DEFAULT".toList := ⟨wfKey_lit _ (by decide) (by decide), by decide⟩
  have K6 : wfKey "AUTOSELECT".toList ∧ '\n' ∉ "AUTOSELECT".toList := ⟨wfKey_lit _ (by decide) (by decide), by decide⟩
  have K7 : wfKey "FORCED".toList ∧ '\n' ∉ "FORCED".toList := ⟨wfKey_lit _ (by decide) (by decide), by decide⟩
  have K8 : wfKey "INSTREAM-ID".toList ∧ '\n' ∉ "INSTREAM-ID".toList := ⟨wfKey_lit _ (by decide) (by decide), by decide⟩
  have K9 : wfKey "CHARACTERISTICS".toList ∧ '\n' ∉ "CHARACTERISTICS".toList := ⟨wfKey_lit _ (by decide) (by decide), by decide⟩
  have K10 : wfKey "CHANNELS".toList ∧ '\n' ∉ "CHANNELS".toList := ⟨wfKey_lit _ (by decide) (by decide), by decide⟩
  intro kv hkv
  simp only [mediaRest, List.mem_cons, List.mem_nil_iff, or_false] at hkv
  rcases hkv with rfl | rfl | rfl | rfl | rfl | rfl | rfl | rfl | rfl | rfl | rfl
  · exact ⟨(K0).1, (K0).2, attrVal_optQuote _ h.uri⟩
  · exact ⟨(K1).1, (K1).2,
      fun v e => by simp only [Option.some.injEq] at e; subst e; exact attrVal_quote _ h.group⟩
  · exact ⟨(K2).1, (K2).2, attrVal_optQuote _ h.lang⟩
  · exact ⟨(K3).1, (K3).2, attrVal_optQuote _ h.assoc⟩
  · exact ⟨(K4).1, (K4).2,
      fun v e => by simp only [Option.some.injEq] at e; subst e; exact attrVal_quote _ h.name⟩
  · exact ⟨(K5).1, (K5).2, attrVal_flag _⟩
  · exact ⟨(K6).1, (K6).2, attrVal_flag _⟩
  · exact ⟨(K7).1, (K7).2, attrVal_flag _⟩
  · refine ⟨(K8).1, (K8).2, ?_⟩
    intro v e
    cases hi : t.instream_id with
    | none => rw [hi] at e; cases e
    | some i =>
      rw [hi] at e; simp only [Option.map_some, Option.some.injEq] at e; subst e
      exact attrVal_quote _ (quotable_plain _ (inStreamId_plain i.idx (List.mem_range.mpr (h.instream i hi))))
  · exact ⟨(K9).1, (K9).2, attrVal_optQuote _ h.chars⟩
  · refine ⟨(K10).1, (K10).2, ?_⟩
    intro v e
    cases hc : t.channels with
    | none => rw [hc] at e; cases e
    | some c =>
      rw [hc] at e; simp only [Option.map_some, Option.some.injEq] at e; subst e
      exact attrVal_quote _ (quotable_plain _ (channels_plain c))

theorem mediaType_plain (m : MediaType) : plainVal m.show = true := by cases m <;> decide

theorem pfxMedia_ok : PfxOK pfxMedia := by unfold pfxMedia; exact pfxOK_of _ (by simp [isWs]) (by simp)

theorem mediaRest_nodup (t : ExtXMedia) : ((mediaRest t).map (·.1)).Nodup := by
  show (["URI".toList, "GROUP-ID".toList, "LANGUAGE".toList, "ASSOC-LANGUAGE".toList, "NAME".toList, "DEFAULT".toList,
    "AUTOSELECT".toList, "FORCED".toList, "INSTREAM-ID".toList, "CHARACTERISTICS".toList, "CHANNELS".toList] : List Str).Nodup
  decide

end Hls

namespace Hls

theorem optParse_yes (b : Bool) : optParse parseYesNo (if b then some "YES".toList else none) = if b then some true else none := by
  cases b
  · rfl
  · simp [optParse, parseYesNo, Res.toOption]

/-- **EXT-X-MEDIA: parse (write t) = t** -/
theorem media_rt (t : ExtXMedia) (h : t.WF) : ExtXMedia.parse t.show = .ok t := by
  have hok := mediaRest_ok t h
  have hn := mediaRest_nodup t
  have kT : wfKey "TYPE".toList := wfKey_lit _ (by decide) (by decide)
  rw [media_show_eq]
  obtain ⟨r1, r2⟩ := rendered_tokens pfxMedia "TYPE".toList t.media_type.show (mediaRest t) pfxMedia_ok kT
    (wfVal_plain _ (mediaType_plain _)) (fun kv hkv => ⟨(hok kv hkv).1, fun v e => ((hok kv hkv).2.2 v e).1⟩)
  simp only [ExtXMedia.parse, r1, Res.bind_ok, r2, ExtXMedia.fold_closed]
  have hbad : (("TYPE".toList, t.media_type.show) :: presentPairs (mediaRest t)).any ExtXMedia.bad = false := by
    apply any_presentPairs
    · simp [ExtXMedia.bad, badAt, C18.mediaType_rt, Res.isOk]
    · intro kv hkv v e
      simp only [mediaRest, List.mem_cons, List.mem_nil_iff, or_false] at hkv
      rcases hkv with rfl | rfl | rfl | rfl | rfl | rfl | rfl | rfl | rfl | rfl | rfl
      · simp [ExtXMedia.bad, badAt]
      · simp [ExtXMedia.bad, badAt]
      · simp [ExtXMedia.bad, badAt]
      · simp [ExtXMedia.bad, badAt]
      · simp [ExtXMedia.bad, badAt]
      · have : v = "YES".toList := by cases hd : t.is_default <;> simp [hd] at e; exact e.symm
        subst this; simp [ExtXMedia.bad, badAt, parseYesNo, Res.isOk]
      · have : v = "YES".toList := by cases hd : t.is_autoselect <;> simp [hd] at e; exact e.symm
        subst this; simp [ExtXMedia.bad, badAt, parseYesNo, Res.isOk]
      · have : v = "YES".toList := by cases hd : t.is_forced <;> simp [hd] at e; exact e.symm
        subst this; simp [ExtXMedia.bad, badAt, parseYesNo, Res.isOk]
      · cases hi : t.instream_id with
        | none => rw [hi] at e; cases e
        | some i =>
          rw [hi] at e; simp only [Option.map_some, Option.some.injEq] at e; subst e
          have hq := quotable_plain _ (inStreamId_plain i.idx (List.mem_range.mpr (h.instream i hi)))
          have := C18.inStreamId_rt i.idx (List.mem_range.mpr (h.instream i hi))
          simp [ExtXMedia.bad, badAt, unq _ hq, this, Res.isOk]
      · simp [ExtXMedia.bad, badAt]
      · cases hc : t.channels with
        | none => rw [hc] at e; cases e
        | some c =>
          rw [hc] at e; simp only [Option.map_some, Option.some.injEq] at e; subst e
          simp [ExtXMedia.bad, badAt, unq _ (quotable_plain _ (channels_plain c)), C18.channels_rt c (h.channels c hc), Res.isOk]
  have f0 : lastVal "TYPE".toList (("TYPE".toList, t.media_type.show) :: presentPairs (mediaRest t)) = some t.media_type.show :=
    lastVal_first _ _ _ hn (by simp [mediaRest, lookupOpt])
  have f1 : lastVal "URI".toList (("TYPE".toList, t.media_type.show) :: presentPairs (mediaRest t)) = t.uri.map quote := by
    rw [lastVal_rest _ _ _ _ (by decide) hn]; simp [mediaRest, lookupOpt]
  have f2 : lastVal "GROUP-ID".toList (("TYPE".toList, t.media_type.show) :: presentPairs (mediaRest t)) = some (quote t.group_id) := by
    rw [lastVal_rest _ _ _ _ (by decide) hn]; simp [mediaRest, lookupOpt]
  have f3 : lastVal "LANGUAGE".toList (("TYPE".toList, t.media_type.show) :: presentPairs (mediaRest t)) = t.language.map quote := by
    rw [lastVal_rest _ _ _ _ (by decide) hn]; simp [mediaRest, lookupOpt]
  have f4 : lastVal "ASSOC-LANGUAGE".toList (("TYPE".toList, t.media_type.show) :: presentPairs (mediaRest t)) = t.assoc_language.map quote := by
    rw [lastVal_rest _ _ _ _ (by decide) hn]; simp [mediaRest, lookupOpt]
  have f5 : lastVal "NAME".toList (("TYPE".toList, t.media_type.show) :: presentPairs (mediaRest t)) = some (quote t.name) := by
    rw [lastVal_rest _ _ _ _ (by decide) hn]; simp [mediaRest, lookupOpt]
  have f6 : lastVal "DEFAULT".toList (("TYPE".toList, t.media_type.show) :: presentPairs (mediaRest t)) = (if t.is_default then some "YES".toList else none) := by
    rw [lastVal_rest _ _ _ _ (by decide) hn]; simp [mediaRest, lookupOpt]
  have f7 : lastVal "AUTOSELECT".toList (("TYPE".toList, t.media_type.show) :: presentPairs (mediaRest t)) = (if t.is_autoselect then some "YES".toList else none) := by
    rw [lastVal_rest _ _ _ _ (by decide) hn]; simp [mediaRest, lookupOpt]
  have f8 : lastVal "FORCED".toList (("TYPE".toList, t.media_type.show) :: presentPairs (mediaRest t)) = (if t.is_forced then some "YES".toList else none) := by
    rw [lastVal_rest _ _ _ _ (by decide) hn]; simp [mediaRest, lookupOpt]
  have f9 : lastVal "INSTREAM-ID".toList (("TYPE".toList, t.media_type.show) :: presentPairs (mediaRest t)) = t.instream_id.map (fun i => quote i.show) := by
    rw [lastVal_rest _ _ _ _ (by decide) hn]; simp [mediaRest, lookupOpt]
  have f10 : lastVal "CHARACTERISTICS".toList (("TYPE".toList, t.media_type.show) :: presentPairs (mediaRest t)) = t.characteristics.map quote := by
    rw [lastVal_rest _ _ _ _ (by decide) hn]; simp [mediaRest, lookupOpt]
  have f11 : lastVal "CHANNELS".toList (("TYPE".toList, t.media_type.show) :: presentPairs (mediaRest t)) = t.channels.map (fun c => quote c.show) := by
    rw [lastVal_rest _ _ _ _ (by decide) hn]; simp [mediaRest, lookupOpt]
  simp only [ExtXMedia.closed, hbad, Bool.false_eq_true, if_false, f0, f1, f2, f3, f4, f5, f6, f7, f8, f9, f10, f11, Res.bind_ok]
  have g0 : optParse MediaType.parse (some t.media_type.show) = some t.media_type := by
    simp [optParse, C18.mediaType_rt, Res.toOption]
  have gq : ∀ (o : Option Str), (∀ x, o = some x → Quotable x) → (o.map quote).map unquote = o := by
    intro o ho
    cases o with
    | none => rfl
    | some x => simp [unq x (ho x rfl)]
  have g9 : optParse (fun v => InStreamId.parse (unquote v)) (t.instream_id.map fun i => quote i.show) = t.instream_id := by
    apply optParse_map (fun v => InStreamId.parse (unquote v)) (fun i => quote i.show)
    intro i hi
    have hq := quotable_plain _ (inStreamId_plain i.idx (List.mem_range.mpr (h.instream i hi)))
    simp only [unq _ hq]
    exact C18.inStreamId_rt i.idx (List.mem_range.mpr (h.instream i hi))
  have g11 : optParse (fun v => Channels.parse (unquote v)) (t.channels.map fun c => quote c.show) = t.channels := by
    apply optParse_map (fun v => Channels.parse (unquote v)) (fun c => quote c.show)
    intro c hc
    simp only [unq _ (quotable_plain _ (channels_plain c))]
    exact C18.channels_rt c (h.channels c hc)
  rw [g0, gq _ h.uri, gq _ h.lang, gq _ h.assoc, gq _ h.chars, g9, g11, optParse_yes, optParse_yes, optParse_yes]
  simp only [Option.map_some, unq _ h.group, unq _ h.name]
  change (mediaBuilderOf t).build = .ok t
  have hv := h.valid
  unfold ExtXMediaBuilder.build
  rw [hv]
  simp only [Bool.not_true, Bool.false_eq_true, if_false]
  obtain ⟨mt, u, g, l, al, n, d, au, fo, ins, ch, chn⟩ := t
  cases d <;> cases au <;> cases fo <;> rfl

end Hls

namespace Hls

theorem lineRT_media (t : ExtXMedia) (h : t.WF) : LineRT (.media t) := by
  have hrt := media_rt t h
  rw [media_show_eq] at hrt
  have hok := mediaRest_ok t h
  apply lineRT_attr (.media t) pfxMedia "TYPE".toList t.media_type.show (mediaRest t) (media_show_eq t) pfxMedia_ok
  · unfold pfxMedia; simp
  · decide
  · exact attrVal_plain _ (mediaType_plain _)
  · exact fun kv hkv => ⟨(hok kv hkv).2.1, (hok kv hkv).2.2⟩
  · unfold pfxMedia siPfx Generated.streamInfPrefix; simp [startsWith, List.isPrefixOf]
  · rw [classify1_ext _ (C12.ext_prefix _ _ (by unfold pfxMedia; simp [startsWith, List.isPrefixOf])), dispatch_media]
    simp only [hrt]; rfl
  · intros; simp

end Hls
