import Hls.Model.Media
/-!
# the effect of a (written) line on the parser's keys in effect
-/
namespace Hls

/-- the parser's reaction to a line, as far as the keys in effect are concerned -/
def keyOfLine (P : List ExtXKey) : Line → List ExtXKey
  | .key k => updateKeys P k
  | _ => P

/-- what the writer announces for a key: the derived IV removed -/
def stripKey : ExtXKey → ExtXKey
  | some k => some (stripIv k)
  | none => none

end Hls
