import Hls.Proofs.ParsedMedia
import Hls.Proofs.ExamplesMaster
/-! # the media playlist example (see `ExamplesMaster` for the description) -/
namespace Hls
open C03

def exSeg0 : MediaSegment := ⟨7, false, [some exKey], some ⟨"init.mp4".toList, some ⟨some 0, 720⟩, [some exKey]⟩, some ⟨some 720, 1720⟩, none, false,
  some ⟨"2010-02-19T14:54:23.031+08:00".toList⟩, ⟨9009000000, some "a, b".toList⟩, "s0.ts".toList⟩
def exSeg1 : MediaSegment := ⟨8, false, [some exKey], none, some ⟨some 1720, 2720⟩, none, true, none, ⟨10000000000, none⟩, "s1.ts".toList⟩
def exMedia : MediaPlaylist := ⟨10000000000, 7, 0, some .vod, false, false, some ⟨⟨0x41280000⟩, true⟩, true, [exSeg0, exSeg1], 0, ["#EXT-X-FOO:1".toList]⟩

theorem exSeg0_wf : SegWF exSeg0 := by
  refine ⟨?_, ?_, ?_, ?_, ?_, by decide +kernel, ?_, lineRT_verbatim_uri _ (by decide) (by decide) (by decide) (by decide)⟩
  · intro k hk; simp [exSeg0] at hk; subst hk; exact exKey_wf
  · intro m e; cases e; exact ⟨by unfold Quotable; decide, fun r e => by cases e; exact ⟨by decide, fun s e => by cases e; decide⟩⟩
  · intro r e; cases e; exact ⟨by decide, fun s e => by cases e; decide⟩
  · intro d e; cases e
  · intro t e; cases e; exact ⟨by decide, endsOk_of_trim _ (by decide)⟩
  · intro x e; cases e; exact ⟨by decide, by decide, by decide, endsOk_of_trim _ (by decide)⟩

theorem exSeg1_wf : SegWF exSeg1 := by
  refine ⟨?_, ?_, ?_, ?_, ?_, by decide +kernel, ?_, lineRT_verbatim_uri _ (by decide) (by decide) (by decide) (by decide)⟩
  · intro k hk; simp [exSeg1] at hk; subst hk; exact exKey_wf
  · intro m e; cases e
  · intro r e; cases e; exact ⟨by decide, fun s e => by cases e; decide⟩
  · intro d e; cases e
  · intro t e; cases e
  · intro x e; cases e

theorem exMedia_wf : MediaWF exMedia := by
  refine ⟨by decide, by decide, by decide, ?_, ?_, ?_⟩
  · intro s e; cases e; unfold FloatRT; decide +kernel
  · intro u hu
    simp [exMedia] at hu; subst hu
    exact ⟨by decide, by decide, by decide, by decide, by decide⟩
  · intro s hs
    simp [exMedia] at hs
    rcases hs with rfl | rfl
    · exact exSeg0_wf
    · exact exSeg1_wf

end Hls
namespace Hls
open C03
theorem exMedia_typed : (match exMedia.writeLines with
    | .ok lines => assembleMedia (bE none) lines
    | _ => .err) = .ok exMedia := by decide +kernel

/-- a concrete playlist (key with explicit IV, KEYFORMAT and KEYFORMATVERSIONS, a map with a byte range, chained
byte ranges, a title with a comma, program date time, discontinuity, EXT-X-START, an unknown tag) meets every hypothesis
and round-trips at string level -/
theorem exMedia_roundtrip : ∃ text, exMedia.show = .ok text ∧ parseMediaWith (bE none) text = .ok exMedia := by
  have h := exMedia_typed
  cases hw : exMedia.writeLines with
  | ok lines =>
    rw [hw] at h
    refine ⟨pfxM3u ++ ['\n'] ++ renderLines lines, by simp [MediaPlaylist.show, hw], ?_⟩
    rw [parseMedia_of_written (bE none) lines (written_lines_rt exMedia exMedia_wf lines hw)]
    exact h
  | err => rw [hw] at h; cases h
  | panic => rw [hw] at h; cases h
end Hls
