import Hls.Proofs.Order
/-!
# `BTreeMap::insert` on a key-sorted association list: insertions with distinct keys commute
-/
namespace Hls

theorem btreeInsert_comm (k k' : Str) (v v' : Value) (hne : k ≠ k') (l : List (Str × Value)) :
    btreeInsert k v (btreeInsert k' v' l) = btreeInsert k' v' (btreeInsert k v l) := by
  have L := cmpStr_lawful
  have hsw : cmpStr k' k = (cmpStr k k').swap := (L.swap k k').symm
  have hneq : cmpStr k k' ≠ .eq := fun e => hne ((L.eq_iff _ _).mp e)
  induction l with
  | nil =>
    simp only [btreeInsert]
    cases h : cmpStr k k' with
    | lt => simp [hsw, h, Ordering.swap, btreeInsert]
    | eq => exact absurd h hneq
    | gt => simp [hsw, h, Ordering.swap, btreeInsert]
  | cons x rest ih =>
    obtain ⟨a, va⟩ := x
    cases h1 : cmpStr k a with
    | lt =>
      cases h2 : cmpStr k' a with
      | lt =>
        cases h : cmpStr k k' with
        | lt => simp [btreeInsert, h1, h2, h, hsw, Ordering.swap]
        | eq => exact absurd h hneq
        | gt => simp [btreeInsert, h1, h2, h, hsw, Ordering.swap]
      | eq =>
        have e := (L.eq_iff _ _).mp h2; subst e
        simp [btreeInsert, h1, h2, hsw, Ordering.swap, L.refl]
      | gt =>
        have h3 : cmpStr a k' = .lt := (L.gt_iff _ _).mp h2
        have h : cmpStr k k' = .lt := L.trans_lt _ _ _ h1 h3
        simp [btreeInsert, h1, h2, h, hsw, Ordering.swap]
    | eq =>
      have e := (L.eq_iff _ _).mp h1; subst e
      cases h2 : cmpStr k' k with
      | lt =>
        have h : cmpStr k k' = .gt := (L.gt_iff _ _).mpr h2
        simp [btreeInsert, h2, h, L.refl]
      | eq => exact absurd ((L.eq_iff _ _).mp h2).symm hne
      | gt => simp [btreeInsert, h2, L.refl]
    | gt =>
      cases h2 : cmpStr k' a with
      | lt =>
        have h3 : cmpStr a k = .lt := (L.gt_iff _ _).mp h1
        have h4 : cmpStr k' k = .lt := L.trans_lt _ _ _ h2 h3
        have h : cmpStr k k' = .gt := (L.gt_iff _ _).mpr h4
        simp [btreeInsert, h1, h2, h, h4]
      | eq =>
        have e := (L.eq_iff _ _).mp h2; subst e
        simp [btreeInsert, h1, L.refl]
      | gt => simp [btreeInsert, h1, h2, ih]

end Hls
