import Hls.Model.Line
/-!
# Which arm of `Tag::try_from` a line takes (over the table regenerated from the source)
-/
namespace Hls

theorem classify1_ext (s : Str) (h : startsWith s "#EXT".toList = true) : classify1 s = dispatch s := by
  unfold classify1; rw [if_pos h]

theorem dispatchIn_skip (k p : String) (ex : Bool) (rest : List (String × String × Bool)) (s : Str)
    (h : armMatches ex p s = false) : dispatchIn ((k, p, ex) :: rest) s = dispatchIn rest s := by
  simp [dispatchIn, h]

theorem dispatchIn_hit (k p : String) (ex : Bool) (rest : List (String × String × Bool)) (s : Str)
    (h : armMatches ex p s = true) : dispatchIn ((k, p, ex) :: rest) s = tagParser k s := by
  simp [dispatchIn, h]

/-- walk down the generated table: skip the arms that do not match, stop at the one that does -/
syntax "dispatch_walk" : tactic
macro_rules
  | `(tactic| dispatch_walk) => `(tactic|
      (unfold dispatch Generated.dispatchOrder
       repeat (first
         | rw [dispatchIn_hit _ _ _ _ _ (by simp [armMatches, startsWith, List.isPrefixOf])]
         | rw [dispatchIn_skip _ _ _ _ _ (by simp [armMatches, startsWith, List.isPrefixOf])])))

theorem dispatch_version (r : Str) : dispatch (pfxVersion ++ r) = tagParser "ExtXVersion" (pfxVersion ++ r) := by
  unfold pfxVersion; dispatch_walk
theorem dispatch_map (r : Str) : dispatch (pfxMap ++ r) = tagParser "ExtXMap" (pfxMap ++ r) := by
  unfold pfxMap; dispatch_walk
theorem dispatch_start (r : Str) : dispatch (pfxStart ++ r) = tagParser "ExtXStart" (pfxStart ++ r) := by
  unfold pfxStart; dispatch_walk

theorem tagParser_map (s : Str) : tagParser "ExtXMap" s = (ExtXMap.parse s).map .map := by
  simp [tagParser, tagParsers, lookupParser]

end Hls
