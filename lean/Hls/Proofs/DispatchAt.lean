import Hls.Model.Line
/-!
# Which arm of `Tag::try_from` a line takes (over the table regenerated from the source)

One lemma per tag prefix: a line that starts with the prefix goes to that tag's parser (no earlier
arm of the generated table matches it), and `tagParser` for that arm is the tag's `parse`.
The proofs evaluate the table, so they are re-checked whenever the source changes it.
-/
namespace Hls

theorem classify1_ext (s : Str) (h : startsWith s "#EXT".toList = true) : classify1 s = dispatch s := by
  unfold classify1; rw [if_pos h]

/-- evaluate the generated table on a line that starts with a literal prefix -/
syntax "dispatch_eval" : tactic
macro_rules
  | `(tactic| dispatch_eval) => `(tactic|
      (unfold dispatch Generated.dispatchOrder
       simp [dispatchIn, armMatches, startsWith, List.isPrefixOf, tagParser, tagParsers, lookupParser]))

theorem dispatch_version (r : Str) :
    dispatch (pfxVersion ++ r) = (fun s => (ExtXVersion.parse s).map .version) (pfxVersion ++ r) := by
  unfold pfxVersion; dispatch_eval

theorem dispatch_inf (r : Str) :
    dispatch (pfxInf ++ r) = (fun s => (ExtInf.parse s).map .inf) (pfxInf ++ r) := by
  unfold pfxInf; dispatch_eval

theorem dispatch_byteRange (r : Str) :
    dispatch (pfxByteRange ++ r) = (fun s => (ExtXByteRange.parse s).map .byteRange) (pfxByteRange ++ r) := by
  unfold pfxByteRange; dispatch_eval

theorem dispatch_discontinuitySequence (r : Str) :
    dispatch (pfxDiscontinuitySequence ++ r) = (fun s => (ExtXDiscontinuitySequence.parse s).map .discontinuitySequence) (pfxDiscontinuitySequence ++ r) := by
  unfold pfxDiscontinuitySequence; dispatch_eval

theorem dispatch_key (r : Str) :
    dispatch (pfxKey ++ r) = (fun s => (ExtXKey.parse s).map .key) (pfxKey ++ r) := by
  unfold pfxKey; dispatch_eval

theorem dispatch_map (r : Str) :
    dispatch (pfxMap ++ r) = (fun s => (ExtXMap.parse s).map .map) (pfxMap ++ r) := by
  unfold pfxMap; dispatch_eval

theorem dispatch_programDateTime (r : Str) :
    dispatch (pfxProgramDateTime ++ r) = (fun s => (ExtXProgramDateTime.parse s).map .programDateTime) (pfxProgramDateTime ++ r) := by
  unfold pfxProgramDateTime; dispatch_eval

theorem dispatch_targetDuration (r : Str) :
    dispatch (pfxTargetDuration ++ r) = (fun s => (ExtXTargetDuration.parse s).map .targetDuration) (pfxTargetDuration ++ r) := by
  unfold pfxTargetDuration; dispatch_eval

theorem dispatch_dateRange (r : Str) :
    dispatch (pfxDateRange ++ r) = (fun s => (ExtXDateRange.parse s).map .dateRange) (pfxDateRange ++ r) := by
  unfold pfxDateRange; dispatch_eval

theorem dispatch_mediaSequence (r : Str) :
    dispatch (pfxMediaSequence ++ r) = (fun s => (ExtXMediaSequence.parse s).map .mediaSequence) (pfxMediaSequence ++ r) := by
  unfold pfxMediaSequence; dispatch_eval

theorem dispatch_media (r : Str) :
    dispatch (pfxMedia ++ r) = (fun s => (ExtXMedia.parse s).map .media) (pfxMedia ++ r) := by
  unfold pfxMedia; dispatch_eval

theorem dispatch_iFrameStreamInf (r : Str) :
    dispatch (pfxIFrameStreamInf ++ r) = (fun s => (VariantStream.parse s).map .variant) (pfxIFrameStreamInf ++ r) := by
  unfold pfxIFrameStreamInf; dispatch_eval

theorem dispatch_sessionData (r : Str) :
    dispatch (pfxSessionData ++ r) = (fun s => (ExtXSessionData.parse s).map .sessionData) (pfxSessionData ++ r) := by
  unfold pfxSessionData; dispatch_eval

theorem dispatch_sessionKey (r : Str) :
    dispatch (pfxSessionKey ++ r) = (fun s => (ExtXSessionKey.parse s).map .sessionKey) (pfxSessionKey ++ r) := by
  unfold pfxSessionKey; dispatch_eval

theorem dispatch_start (r : Str) :
    dispatch (pfxStart ++ r) = (fun s => (ExtXStart.parse s).map .start) (pfxStart ++ r) := by
  unfold pfxStart; dispatch_eval

theorem dispatch_discontinuity : dispatch pfxDiscontinuity = .ok .discontinuity := by
  unfold pfxDiscontinuity; dispatch_eval
  all_goals (first | rfl | decide)

theorem dispatch_endList : dispatch pfxEndList = .ok .endList := by
  unfold pfxEndList; dispatch_eval
  all_goals (first | rfl | decide)

theorem dispatch_iFramesOnly : dispatch pfxIFramesOnly = .ok .iFramesOnly := by
  unfold pfxIFramesOnly; dispatch_eval
  all_goals (first | rfl | decide)

theorem dispatch_independentSegments : dispatch pfxIndependentSegments = .ok .independentSegments := by
  unfold pfxIndependentSegments; dispatch_eval
  all_goals (first | rfl | decide)

theorem dispatch_playlistType (r : Str) :
    dispatch (playlistTypePrefix ++ r) = (PlaylistType.parse (playlistTypePrefix ++ r)).map .playlistType := by
  unfold playlistTypePrefix; dispatch_eval

end Hls
