import Hls.Model.Line
/-!
# Which arm of `Tag::try_from` a line takes (over the table regenerated from the source)
-/
namespace Hls

theorem classify1_ext (s : Str) (h : startsWith s "#EXT".toList = true) : classify1 s = dispatch s := by
  simp [classify1, h]

theorem dispatch_version (r : Str) : dispatch (pfxVersion ++ r) = (ExtXVersion.parse (pfxVersion ++ r)).map .version := by
  simp [dispatch, Generated.dispatchOrder, dispatchIn, armMatches, startsWith, pfxVersion, List.isPrefixOf, tagParser, tagParsers, lookupParser]

theorem dispatch_map (r : Str) : dispatch (pfxMap ++ r) = (ExtXMap.parse (pfxMap ++ r)).map .map := by
  simp [dispatch, Generated.dispatchOrder, dispatchIn, armMatches, startsWith, pfxMap, List.isPrefixOf, tagParser, tagParsers, lookupParser]

end Hls
