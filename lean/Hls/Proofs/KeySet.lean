import Hls.Proofs.Order
import Hls.Model.Media
/-!
# Helper lemmas: the sorted-list model of the `BTreeSet<ExtXKey>` of keys in effect
-/
namespace Hls

theorem xkey_cmp_eq (x y : ExtXKey) : ExtXKey.cmp x y = .eq ↔ x = y := extXKeyCmp_lawful.eq_iff x y

theorem mem_setInsert (x y : ExtXKey) (l : List ExtXKey) : y ∈ setInsert x l ↔ y = x ∨ y ∈ l := by
  induction l with
  | nil => simp [setInsert]
  | cons z zs ih =>
    simp only [setInsert]
    cases hc : ExtXKey.cmp x z with
    | lt => simp
    | eq =>
      have := (xkey_cmp_eq x z).mp hc; subst this
      simp only [List.mem_cons]
      constructor
      · intro h; exact Or.inr h
      · rintro (h | h)
        · exact Or.inl h
        · exact h
    | gt =>
      simp only [List.mem_cons, ih]
      constructor
      · rintro (h | h | h)
        · exact Or.inr (Or.inl h)
        · exact Or.inl h
        · exact Or.inr (Or.inr h)
      · rintro (h | h | h)
        · exact Or.inr (Or.inl h)
        · exact Or.inl h
        · exact Or.inr (Or.inr h)

theorem mem_setRemove (x y : ExtXKey) (l : List ExtXKey) : y ∈ setRemove x l ↔ y ∈ l ∧ y ≠ x := by
  unfold setRemove
  simp only [List.mem_filter, bne_iff_ne, ne_eq, xkey_cmp_eq]
  constructor
  · rintro ⟨h1, h2⟩; exact ⟨h1, fun e => h2 e.symm⟩
  · rintro ⟨h1, h2⟩; exact ⟨h1, fun e => h2 e.symm⟩

theorem setContains_iff (x : ExtXKey) (l : List ExtXKey) : setContains x l = true ↔ x ∈ l := by
  unfold setContains
  simp only [List.any_eq_true, beq_iff_eq, xkey_cmp_eq]
  constructor
  · rintro ⟨y, hy, e⟩; rw [e]; exact hy
  · intro h; exact ⟨x, h, rfl⟩

/-- strictly increasing in the set order (what a `BTreeSet` iteration yields) -/
def KSorted : List ExtXKey → Prop
  | [] => True
  | x :: xs => (∀ y ∈ xs, ExtXKey.cmp x y = .lt) ∧ KSorted xs

theorem KSorted.nodup {l : List ExtXKey} (h : KSorted l) : l.Nodup := by
  induction l with
  | nil => exact List.nodup_nil
  | cons x xs ih =>
    obtain ⟨h1, h2⟩ := h
    refine List.nodup_cons.mpr ⟨?_, ih h2⟩
    intro hx
    have := h1 x hx
    rw [(xkey_cmp_eq x x).mpr rfl] at this
    cases this

theorem KSorted_setInsert (x : ExtXKey) (l : List ExtXKey) (h : KSorted l) : KSorted (setInsert x l) := by
  induction l with
  | nil => simp [setInsert, KSorted]
  | cons z zs ih =>
    obtain ⟨h1, h2⟩ := h
    simp only [setInsert]
    cases hc : ExtXKey.cmp x z with
    | lt =>
      refine ⟨?_, h1, h2⟩
      intro y hy
      rcases List.mem_cons.mp hy with rfl | hy
      · exact hc
      · exact extXKeyCmp_lawful.trans_lt x z y hc (h1 y hy)
    | eq => exact ⟨h1, h2⟩
    | gt =>
      refine ⟨?_, ih h2⟩
      intro y hy
      rcases (mem_setInsert x y zs).mp hy with rfl | hy
      · exact (extXKeyCmp_lawful.gt_iff y z).mp hc
      · exact h1 y hy

theorem KSorted_filter (p : ExtXKey → Bool) (l : List ExtXKey) (h : KSorted l) : KSorted (l.filter p) := by
  induction l with
  | nil => simp [KSorted]
  | cons z zs ih =>
    obtain ⟨h1, h2⟩ := h
    simp only [List.filter]
    split
    · refine ⟨?_, ih h2⟩
      intro y hy
      exact h1 y (List.mem_filter.mp hy).1
    · exact ih h2

theorem KSorted_setRemove (x : ExtXKey) (l : List ExtXKey) (h : KSorted l) : KSorted (setRemove x l) :=
  KSorted_filter _ l h

/-- two sorted duplicate-free lists with the same members are equal: the listing of a set is
canonical (it does not depend on the history of insertions and removals) -/
theorem KSorted_ext {l1 l2 : List ExtXKey} (h1 : KSorted l1) (h2 : KSorted l2)
    (hm : ∀ x, x ∈ l1 ↔ x ∈ l2) : l1 = l2 := by
  induction l1 generalizing l2 with
  | nil =>
    cases l2 with
    | nil => rfl
    | cons y ys => have := (hm y).mpr (by simp); cases this
  | cons x xs ih =>
    cases l2 with
    | nil => have := (hm x).mp (by simp); cases this
    | cons y ys =>
      obtain ⟨hx1, hx2⟩ := h1
      obtain ⟨hy1, hy2⟩ := h2
      have hxy : x = y := by
        have hx : x ∈ y :: ys := (hm x).mp (by simp)
        have hy : y ∈ x :: xs := (hm y).mpr (by simp)
        rcases List.mem_cons.mp hx with e | hx'
        · exact e
        · rcases List.mem_cons.mp hy with e | hy'
          · exact e.symm
          · have a := hy1 x hx'
            have b := hx1 y hy'
            have c := extXKeyCmp_lawful.trans_lt x y x b a
            rw [(xkey_cmp_eq x x).mpr rfl] at c; cases c
      subst hxy
      congr 1
      apply ih hx2 hy2
      intro z
      constructor
      · intro hz
        have := (hm z).mp (List.mem_cons_of_mem _ hz)
        rcases List.mem_cons.mp this with e | h
        · subst e
          have := hx1 z hz
          rw [(xkey_cmp_eq z z).mpr rfl] at this; cases this
        · exact h
      · intro hz
        have := (hm z).mpr (List.mem_cons_of_mem _ hz)
        rcases List.mem_cons.mp this with e | h
        · subst e
          have := hy1 z hz
          rw [(xkey_cmp_eq z z).mpr rfl] at this; cases this
        · exact h

theorem KSorted_updateKeys (avail : List ExtXKey) (k : ExtXKey) (h : KSorted avail) :
    KSorted (updateKeys avail k) := by
  cases k with
  | none => simp [updateKeys, KSorted]
  | some k =>
    simp only [updateKeys]
    split
    · exact KSorted_setInsert _ _ (KSorted_setRemove _ _ h)
    · exact KSorted_setInsert _ _ h

end Hls
