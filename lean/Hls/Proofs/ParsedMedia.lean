import Hls.Proofs.ParsedWF
import Hls.Proofs.MediaRT
/-!
# A parsed media playlist is in the domain of the writer: `MediaWF` from the lines

`StGood` is an invariant of the parser's loop over good lines (`text_lines_good`); `build` keeps it
(IV completion is undone by `stripIv`, offset resolution stays inside 2^64).
-/
namespace Hls
open C03

def KeyGood (k : ExtXKey) : Prop := ∀ d, k = some d → d.WF

def TitleOK (t : ExtInf) : Prop := ∀ x, t.title = some x → trim x = x ∧ x ≠ [] ∧ '\n' ∉ x ∧ EndsOk x
def MapOK (m : ExtXMap) : Prop := Quotable m.uri ∧ ∀ r, m.range = some r → r.WF
def PdtOK (t : ExtXProgramDateTime) : Prop := '\n' ∉ t.date_time ∧ EndsOk t.date_time

/-- a segment as the parser's loop builds it (before `build`) -/
structure SegPre (s : MediaSegment) : Prop where
  keys : ∀ k ∈ s.keys, KeyGood k
  map : ∀ m, s.map = some m → MapOK m
  range : ∀ r, s.byte_range = some r → r.WF
  pdt : ∀ t, s.program_date_time = some t → PdtOK t
  dr : ∀ d, s.date_range = some d → DateRangePre d
  title : TitleOK s.duration
  uri : LineRT (.uri s.uri)

structure StGood (st : PState) : Prop where
  target : ∀ d, st.builder.target_duration = some d → d % nanosPerSec = 0 ∧ d / nanosPerSec < 2 ^ 64
  mseq : ∀ n, st.builder.media_sequence = some n → n < 2 ^ 64
  dseq : ∀ n, st.builder.discontinuity_sequence = some n → n < 2 ^ 64
  unknown : ∀ u ∈ st.unknown, LineRT (.unknown u)
  avail : ∀ k ∈ st.available_keys, KeyGood k
  bmap : ∀ m, st.segment.map = some m → MapOK m
  brange : ∀ r, st.segment.byte_range = some r → r.WF
  bpdt : ∀ t, st.segment.program_date_time = some t → PdtOK t
  btitle : ∀ t, st.segment.duration = some t → TitleOK t
  bdr : ∀ d, st.segment.date_range = some d → DateRangePre d
  segs : ∀ s ∈ st.segments, SegPre s

theorem stGood_step (st st' : PState) (l : Line) (hi : StGood st) (hl : LineGood l)
    (h : mediaStep st l = .ok st') : StGood st' := by
  obtain ⟨i1, i2, i3, i4, i5, i6, i7, i8, i9, i11, i10⟩ := hi
  cases l <;> simp only [mediaStep] at h
  case key k =>
    simp only [Res.ok.injEq] at h; subst h
    refine ⟨i1, i2, i3, i4, ?_, i6, i7, i8, i9, i11, i10⟩
    intro x hx
    rcases mem_updateKeys _ _ _ hx with rfl | hx
    · exact hl.1
    · exact i5 x hx
  case uri u =>
    split at h
    · rename_i seg hb
      simp only [Res.ok.injEq] at h; subst h
      simp only [MediaSegmentBuilder.build] at hb
      split at hb
      · rename_i d u' hd hu
        simp only [Res.ok.injEq] at hb; subst hb
        simp only [Option.some.injEq] at hu; subst hu
        refine ⟨i1, i2, i3, i4, i5, (fun m e => by cases e), (fun r e => by cases e), (fun t e => by cases e),
          (fun t e => by cases e), (fun t e => by cases e), ?_⟩
        intro s hs
        simp only [List.mem_append, List.mem_singleton] at hs
        rcases hs with hs | rfl
        · exact i10 s hs
        · exact ⟨by simpa using i5, i6, i7, i8, i11, i9 d hd, hl.2⟩
      · cases hb
    · cases h
    · cases h
  case discontinuitySequence n =>
    split at h
    · cases h
    · split at h
      · cases h
      · simp only [Res.ok.injEq] at h; subst h
        exact ⟨i1, i2, (fun m e => by simp only [Option.some.injEq] at e; subst e; exact hl.1), i4, i5, i6, i7, i8, i9, i11, i10⟩
  case inf t =>
    simp only [Res.ok.injEq] at h; subst h
    exact ⟨i1, i2, i3, i4, i5, i6, i7, i8, (fun t' e => by simp only [Option.some.injEq] at e; subst e; exact hl.1), i11, i10⟩
  case byteRange r =>
    simp only [Res.ok.injEq] at h; subst h
    exact ⟨i1, i2, i3, i4, i5, i6, (fun t' e => by simp only [Option.some.injEq] at e; subst e; exact hl.1), i8, i9, i11, i10⟩
  case map m =>
    simp only [Res.ok.injEq] at h; subst h
    exact ⟨i1, i2, i3, i4, i5, (fun t' e => by simp only [Option.some.injEq] at e; subst e; exact hl.1), i7, i8, i9, i11, i10⟩
  case programDateTime t =>
    simp only [Res.ok.injEq] at h; subst h
    exact ⟨i1, i2, i3, i4, i5, i6, i7, (fun t' e => by simp only [Option.some.injEq] at e; subst e; exact hl.1), i9, i11, i10⟩
  case targetDuration d =>
    simp only [Res.ok.injEq] at h; subst h
    exact ⟨(fun t' e => by simp only [Option.some.injEq] at e; subst e; exact hl.1), i2, i3, i4, i5, i6, i7, i8, i9, i11, i10⟩
  case mediaSequence n =>
    simp only [Res.ok.injEq] at h; subst h
    exact ⟨i1, (fun t' e => by simp only [Option.some.injEq] at e; subst e; exact hl.1), i3, i4, i5, i6, i7, i8, i9, i11, i10⟩
  case dateRange d =>
    simp only [Res.ok.injEq] at h; subst h
    exact ⟨i1, i2, i3, i4, i5, i6, i7, i8, i9, (fun t' e => by simp only [Option.some.injEq] at e; subst e; exact hl.1), i10⟩
  case unknown u =>
    simp only [Res.ok.injEq] at h; subst h
    refine ⟨i1, i2, i3, ?_, i5, i6, i7, i8, i9, i11, i10⟩
    intro x hx
    simp only [List.mem_append, List.mem_singleton] at hx
    rcases hx with hx | rfl
    · exact i4 x hx
    · exact hl.2
  all_goals first
    | (simp only [Res.ok.injEq] at h; subst h; exact ⟨i1, i2, i3, i4, i5, i6, i7, i8, i9, i11, i10⟩)
    | (cases h)

theorem stGood_fold (ls : List Line) (st st' : PState) (hi : StGood st) (hl : ∀ l ∈ ls, LineGood l)
    (h : foldRes mediaStep st ls = .ok st') : StGood st' := by
  induction ls generalizing st with
  | nil => simp only [foldRes, Res.ok.injEq] at h; subst h; exact hi
  | cons l rest ih =>
    simp only [foldRes] at h
    cases hs : mediaStep st l with
    | ok t =>
      rw [hs] at h
      exact ih t (stGood_step st t l hi (hl l (by simp)) hs) (fun k hk => hl k (by simp [hk])) h
    | err => rw [hs] at h; cases h
    | panic => rw [hs] at h; cases h

end Hls

namespace Hls
open C03

/-! ## `build` keeps the values inside the domain -/

theorem satAdd_none (e0 n : Nat) : ByteRange.saturatingAdd ⟨none, e0⟩ n = ⟨none, min (e0 + n) (2 ^ 64 - 1)⟩ := rfl
theorem setStart_some (r : ByteRange) (v : Nat) :
    r.setStart (some v) = if v > r.end_ then .panic else .ok ⟨some v, r.end_⟩ := rfl

theorem resolveRange_wf (prev : Option ByteRange) (o br : Option ByteRange) (ho : ∀ r, o = some r → r.WF)
    (h : resolveRange prev o = .ok br) : ∀ r, br = some r → r.WF := by
  cases o with
  | none => simp only [resolveRange, Res.ok.injEq] at h; subst h; intro r e; cases e
  | some r0 =>
    obtain ⟨st0, e0⟩ := r0
    have hw := ho _ rfl
    cases st0 with
    | some v =>
      simp only [resolveRange, Res.ok.injEq] at h; subst h
      intro r e; simp only [Option.some.injEq] at e; subst e; exact hw
    | none =>
      cases prev with
      | some p =>
        simp only [resolveRange] at h
        rw [satAdd_none, setStart_some] at h
        simp only at h
        by_cases hle : p.end_ > min (e0 + p.end_) (2 ^ 64 - 1)
        · rw [if_pos hle] at h; cases h
        · rw [if_neg hle] at h
          simp only [Res.map, Res.ok.injEq] at h; subst h
          intro r e
          simp only [Option.some.injEq] at e; subst e
          refine ⟨?_, ?_⟩
          · simp only; omega
          · intro s es; simp only [Option.some.injEq] at es; subst es; simp only at hle ⊢; omega
      | none =>
        simp only [resolveRange] at h
        rw [setStart_some] at h
        simp only at h
        by_cases hle : 0 > e0
        · omega
        · rw [if_neg hle] at h
          simp only [Res.map, Res.ok.injEq] at h; subst h
          intro r e
          simp only [Option.some.injEq] at e; subst e
          exact ⟨hw.1, fun s es => by simp only [Option.some.injEq] at es; subst es; simp⟩

theorem keys_built_wf (n : Nat) (ks : List ExtXKey) (h : ∀ k ∈ ks, KeyGood k) :
    ∀ k', some k' ∈ ks.map (completeIv n) → (stripIv k').WF := by
  intro k' hk'
  obtain ⟨k, hk, e⟩ := List.mem_map.mp hk'
  cases k with
  | none => simp [completeIv] at e
  | some d =>
    have hd := h _ hk d rfl
    have hnn : ∀ m, d.iv ≠ .number m := by
      intro m em
      have := hd.iv
      rw [em] at this
      exact this
    have := C07.stripIv_completeIv n d hnn
    rw [e] at this
    simp only [Option.map_some, Option.some.injEq] at this
    rw [this]; exact hd

/-- the part of `SegWF` that follows from the text alone -/
structure SegOut (s : MediaSegment) : Prop where
  keys : ∀ k, some k ∈ s.keys → (stripIv k).WF
  map : ∀ m, s.map = some m → MapOK m
  range : ∀ r, s.byte_range = some r → r.WF
  pdt : ∀ t, s.program_date_time = some t → PdtOK t
  dr : ∀ d, s.date_range = some d → DateRangePre d
  title : TitleOK s.duration
  uri : LineRT (.uri s.uri)

theorem built_out (seq : Nat) (a b : List MediaSegment) (i : Nat) (prev : Option ByteRange)
    (hb : Built seq i prev a b) (ha : ∀ s ∈ a, SegPre s) : ∀ s ∈ b, SegOut s := by
  induction a generalizing b i prev with
  | nil => cases b with
    | nil => intro s hs; cases hs
    | cons _ _ => cases hb
  | cons x xs ih =>
    cases b with
    | nil => cases hb
    | cons y ys =>
      obtain ⟨h1, h2⟩ := hb
      intro s hs
      rcases List.mem_cons.mp hs with rfl | hs
      · obtain ⟨number, br, _, hr, rfl⟩ := buildOne_ok seq i prev x _ h1
        have px := ha x (by simp)
        exact ⟨keys_built_wf number x.keys px.keys, px.map, resolveRange_wf prev x.byte_range br px.range hr, px.pdt, px.dr, px.title, px.uri⟩
      · exact ih ys _ _ h2 (fun s hs => ha s (by simp [hs])) s hs

/-- what the text cannot guarantee by itself: Rust's decimal formatting of each EXTINF duration parses
back to the same duration and the EXT-X-START offset reads back (facts about `f32`/`f64` `Display`: FL2, FL1 in
the trusted base); for EXT-X-DATERANGE the same two kinds of float facts and that SCTE35 values are plain
tokens (`DateRangeOpen`) -/
structure MediaOpen (p : MediaPlaylist) : Prop where
  secs : ∀ s ∈ p.segments, parseSecs (showSecs s.duration.duration) = .ok s.duration.duration ∧
    plainVal (showSecs s.duration.duration) = true
  dateRange : ∀ s ∈ p.segments, ∀ d, s.date_range = some d → DateRangeOpen d
  start : ∀ s, p.start = some s → FloatRT s.time_offset

/-- **every playlist assembled from good lines is in the writer's domain** -/
theorem assembled_mediaWF (e : Option Nat) (ls : List Line) (p : MediaPlaylist) (h : assembleMedia (bE e) ls = .ok p)
    (hg : ∀ l ∈ ls, LineGood l) (ho : MediaOpen p) : MediaWF p := by
  obtain ⟨st, hf, _, hb, hms, htd, _, hunk, _⟩ := assembleMedia_ok (bE e) ls p h
  have init : StGood { builder := bE e } :=
    ⟨fun d e => (by cases e), fun d e => (by cases e), fun d e => (by cases e), fun u hu => (by cases hu),
     fun k hk => (by cases hk), fun m e => (by cases e), fun m e => (by cases e), fun m e => (by cases e),
     fun m e => (by cases e), fun m e => (by cases e), fun s hs => (by cases hs)⟩
  have sg := stGood_fold ls _ st init hg hf
  have hfin : mediaFinish st = .ok p := by
    unfold assembleMedia at h; rw [hf] at h; exact h
  have ff := C01.finish_fields st p hfin
  have hout := built_out _ _ _ _ _ hb sg.segs
  refine ⟨sg.target _ htd, ?_, ?_, ho.start, ?_, ?_⟩
  · rw [hms]
    cases hm : st.builder.media_sequence with
    | none => simp
    | some n => simpa using sg.mseq n hm
  · rw [ff.2.2.1]
    cases hm : st.builder.discontinuity_sequence with
    | none => simp
    | some n => simpa using sg.dseq n hm
  · rw [hunk]; exact sg.unknown
  · intro s hs
    have o := hout s hs
    exact ⟨o.keys, o.map, o.range, fun d hd => dateRange_wf_of d (o.dr d hd) (ho.dateRange s hs d hd), o.pdt, ho.secs s hs, o.title, o.uri⟩

end Hls
