import Hls.Proofs.ParsedRT
/-!
# The values the tag parsers return are in the domain of the text round trip
-/
namespace Hls

theorem quotable_filter (v : Str) : Quotable (v.filter (fun c => !badQ c)) := by
  unfold Quotable
  rw [List.all_eq_true]
  intro c hc
  exact (List.mem_filter.mp hc).2

/-- whatever `unquote` returns contains no quote, CR or LF -/
theorem quotable_unquote (v : Str) : Quotable (unquote v) := by
  unfold unquote
  split
  · split
    · simp only []
      split
      · exact quotable_filter _
      · rename_i h
        unfold Quotable
        simpa [List.any_eq_false, List.all_eq_true] using h
    · exact quotable_filter _
  · exact quotable_filter _

theorem quotable_mapUnquote (o : Option Str) (x : Str) (h : o.map unquote = some x) : Quotable x := by
  cases o with
  | none => cases h
  | some v => simp only [Option.map_some, Option.some.injEq] at h; subst h; exact quotable_unquote v

theorem optParse_some {α} (f : Str → Res α) (o : Option Str) (x : α) (h : optParse f o = some x) : ∃ v, o = some v ∧ f v = .ok x := by
  cases o with
  | none => cases h
  | some v =>
    simp only [optParse, Option.bind_some] at h
    cases hf : f v with
    | ok y => rw [hf] at h; simp only [Res.toOption, Option.some.injEq] at h; subst h; exact ⟨v, rfl, hf⟩
    | err => rw [hf] at h; cases h
    | panic => rw [hf] at h; cases h

theorem lastValQ_sat (k : Str) (q : Str → Bool) (ps : List (Str × Str)) (v : Str) (h : lastValQ k q ps = some v) : q v = true := by
  induction ps using snoc_induction with
  | hnil => cases h
  | hsnoc l kv ih =>
    rw [lastValQ_snoc] at h
    split at h
    · rename_i hc
      simp only [Option.some.injEq] at h; subst h
      simp only [Bool.and_eq_true] at hc; exact hc.2
    · exact ih h

/-! ## hex -/

theorem hexDigitVal_lt (c : Char) (x : Nat) (h : hexDigitVal? c = some x) : x < 16 := by
  unfold hexDigitVal? at h
  have e0 : '0'.toNat = 48 := rfl
  have ea : 'a'.toNat = 97 := rfl
  have eA : 'A'.toNat = 65 := rfl
  have v9 : '9'.val.toNat = 57 := rfl
  have vf : 'f'.val.toNat = 102 := rfl
  have vF : 'F'.val.toNat = 70 := rfl
  have cv : c.toNat = c.val.toNat := rfl
  split at h
  · rename_i hd
    simp only [isDigit, Bool.and_eq_true, decide_eq_true_eq, UInt32.le_iff_toNat_le] at hd
    simp only [Option.some.injEq] at h; omega
  · split at h
    · rename_i hd
      simp only [Bool.and_eq_true, decide_eq_true_eq, UInt32.le_iff_toNat_le] at hd
      simp only [Option.some.injEq] at h; omega
    · split at h
      · rename_i hd
        simp only [Bool.and_eq_true, decide_eq_true_eq, UInt32.le_iff_toNat_le] at hd
        simp only [Option.some.injEq] at h; omega
      · cases h

theorem hexDecode_spec (s : Str) (bs : List Nat) (h : hexDecode? s = some bs) : 2 * bs.length = s.length ∧ ∀ b ∈ bs, b < 256 := by
  fun_induction hexDecode? s generalizing bs with
  | case1 => simp only [Option.some.injEq] at h; subst h; simp
  | case2 => cases h
  | case3 a b rest x y r hr hy hx ih =>
    simp only [Option.some.injEq] at h; subst h
    obtain ⟨i1, i2⟩ := ih r hr
    refine ⟨by simp; omega, ?_⟩
    intro z hz
    rcases List.mem_cons.mp hz with rfl | hz
    · have := hexDigitVal_lt a x hx; have := hexDigitVal_lt b y hy; omega
    · exact i2 z hz
  | case4 => cases h

theorem bytesToNat_lt (bs : List Nat) (h : ∀ b ∈ bs, b < 256) : bytesToNat bs < 256 ^ bs.length := by
  unfold bytesToNat
  induction bs using snoc_induction with
  | hnil => simp
  | hsnoc l b ih =>
    rw [List.foldl_append]
    simp only [List.foldl_cons, List.foldl_nil, List.length_append, List.length_cons, List.length_nil]
    have i := ih (fun x hx => h x (by simp [hx]))
    have hb := h b (by simp)
    rw [Nat.pow_succ]
    omega

theorem iv_parse_not_number (v : Str) (n : Nat) : InitializationVector.parse v ≠ .ok (.number n) := by
  intro h
  simp only [InitializationVector.parse] at h
  split at h
  · cases h
  · split at h
    · cases h
    · split at h <;> cases h

theorem iv_parse_lt (v : Str) (x : Nat) (h : InitializationVector.parse v = .ok (.aes128 x)) : x < 2 ^ 128 := by
  simp only [InitializationVector.parse] at h
  split at h
  · cases h
  · split at h
    · cases h
    · rename_i hlen
      split at h
      · rename_i bs hd
        simp only [Res.ok.injEq, InitializationVector.aes128.injEq] at h; subst h
        obtain ⟨h1, h2⟩ := hexDecode_spec _ bs hd
        have hl := utf8Len_ge_length (v.drop 2)
        have hlen : utf8Len (v.drop 2) = 32 := by simpa using hlen
        have : bs.length ≤ 16 := by omega
        have i := bytesToNat_lt bs h2
        have : 256 ^ bs.length ≤ 256 ^ 16 := Nat.pow_le_pow_right (by omega) this
        have e : (256 : Nat) ^ 16 = 2 ^ 128 := by decide
        omega
      · cases h

end Hls

namespace Hls

/-! ## KEYFORMATVERSIONS, KEYFORMAT -/

theorem mapRes_spec {α β} (f : α → Res β) (l : List α) (r : List β) (h : mapRes f l = .ok r) :
    r.length = l.length ∧ ∀ y ∈ r, ∃ x ∈ l, f x = .ok y := by
  induction l generalizing r with
  | nil => simp only [mapRes, Res.ok.injEq] at h; subst h; simp
  | cons a t ih =>
    simp only [mapRes] at h
    cases ha : f a with
    | ok y =>
      rw [ha] at h
      cases ht : mapRes f t with
      | ok ys =>
        rw [ht] at h
        simp only [Res.ok.injEq] at h; subst h
        obtain ⟨i1, i2⟩ := ih ys ht
        refine ⟨by simp [i1], ?_⟩
        intro z hz
        rcases List.mem_cons.mp hz with rfl | hz
        · exact ⟨a, by simp, ha⟩
        · obtain ⟨x, hx, e⟩ := i2 z hz; exact ⟨x, by simp [hx], e⟩
      | err => rw [ht] at h; cases h
      | panic => rw [ht] at h; cases h
    | err => rw [ha] at h; cases h
    | panic => rw [ha] at h; cases h

theorem splitAll_ne_nil (c : Char) (s : Str) : splitAll c s ≠ [] := by
  induction s with
  | nil => simp [splitAll]
  | cons x xs ih =>
    simp only [splitAll]
    split
    · simp
    · split <;> simp

theorem parseNat_lt (bits : Nat) (s : Str) (n : Nat) (h : parseNat bits s = .ok n) : n < 2 ^ bits := by
  simp only [parseNat, parseNat?] at h
  split at h
  · cases h
  · split at h
    · split at h
      · simp only [Res.ofOpt, Res.ok.injEq] at h; subst h; assumption
      · cases h
    · cases h

theorem kfv_parse_wf (s : Str) (v : KeyFormatVersions) (h : KeyFormatVersions.parse s = .ok v) :
    v.items ≠ [] ∧ v.items.length ≤ 9 ∧ ∀ n ∈ v.items, n < 256 := by
  simp only [KeyFormatVersions.parse] at h
  cases hm : mapRes (fun p => parseNat 8 p) (splitAll '/' (unquote s)) with
  | ok items =>
    rw [hm] at h
    simp only [Res.bind_ok] at h
    split at h
    · cases h
    · rename_i hlen
      simp only [Res.pure_eq, Res.ok.injEq] at h; subst h
      obtain ⟨h1, h2⟩ := mapRes_spec _ _ _ hm
      refine ⟨?_, by simpa using hlen, ?_⟩
      · intro e
        simp only at e
        rw [e] at h1
        exact splitAll_ne_nil '/' (unquote s) (List.eq_nil_of_length_eq_zero h1.symm)
      · intro n hn
        obtain ⟨x, _, hx⟩ := h2 n hn
        exact parseNat_lt 8 x n hx
  | err => rw [hm] at h; cases h
  | panic => rw [hm] at h; cases h

theorem keyFormat_parse_wf (s : Str) : Quotable (KeyFormat.parse s).text ∧ ∀ x, KeyFormat.parse s = .other x →
    x ≠ Generated.keyFormatIdentity.toList ∧ x ≠ Generated.keyFormatFairPlay.toList ∧
    x ≠ Generated.keyFormatWidevine.toList ∧ x ≠ Generated.keyFormatPlayReady.toList := by
  unfold KeyFormat.parse
  simp only []
  split
  · rename_i h; refine ⟨?_, fun x e => by cases e⟩
    have := quotable_unquote s; rw [eq_of_beq h] at this; exact this
  · split
    · rename_i h; refine ⟨?_, fun x e => by cases e⟩
      have := quotable_unquote s; rw [eq_of_beq h] at this; exact this
    · split
      · rename_i h; refine ⟨?_, fun x e => by cases e⟩
        have := quotable_unquote s; rw [eq_of_beq h] at this; exact this
      · split
        · rename_i h; refine ⟨?_, fun x e => by cases e⟩
          have := quotable_unquote s; rw [eq_of_beq h] at this; exact this
        · rename_i h1 h2 h3 h4
          refine ⟨quotable_unquote s, ?_⟩
          intro x e
          simp only [KeyFormat.other.injEq] at e; subst e
          exact ⟨fun e => h1 (by rw [e]; simp), fun e => h2 (by rw [e]; simp), fun e => h3 (by rw [e]; simp), fun e => h4 (by rw [e]; simp)⟩

/-! ## a parsed decryption key is in the domain of `decryptionKey_rt` -/

theorem decryptionKey_parse_wf (r : Str) (d : DecryptionKey) (h : DecryptionKey.parse r = .ok d) : d.WF := by
  simp only [DecryptionKey.parse, DecryptionKey.fold_closed] at h
  cases hc : DecryptionKey.closed (attrPairs r) with
  | ok a =>
    rw [hc] at h
    simp only [Res.bind_ok, DecryptionKey.finish] at h
    split at h
    · rename_i m u hm hu
      simp only [Res.ok.injEq] at h; subst h
      simp only [DecryptionKey.closed] at hc
      split at hc
      · cases hc
      · simp only [Res.ok.injEq] at hc; subst hc
        simp only at hu
        cases hq : lastValQ "URI".toList nonBlankUri (attrPairs r) with
        | none => rw [hq] at hu; cases hu
        | some v =>
          rw [hq] at hu
          simp only [Option.map_some, Option.some.injEq] at hu; subst hu
          have hnb := lastValQ_sat _ _ _ _ hq
          refine ⟨quotable_unquote v, by simpa [nonBlankUri] using hnb, ?_, ?_, ?_⟩
          · simp only [optParse]
            cases hl : lastVal "IV".toList (attrPairs r) with
            | none => simp
            | some w =>
              simp only [Option.bind_some]
              cases hp : InitializationVector.parse w with
              | ok x =>
                simp only [Res.toOption, Option.getD_some]
                cases x with
                | aes128 n => exact iv_parse_lt w n hp
                | number n => exact absurd hp (iv_parse_not_number w n)
                | missing => trivial
              | err => simp [Res.toOption]
              | panic => simp [Res.toOption]
          · intro f hf
            simp only at hf
            cases hl : lastVal "KEYFORMAT".toList (attrPairs r) with
            | none => rw [hl] at hf; cases hf
            | some w =>
              rw [hl] at hf
              simp only [Option.map_some, Option.some.injEq] at hf; subst hf
              exact keyFormat_parse_wf w
          · intro v' hv
            simp only [optParse] at hv
            cases hl : lastVal "KEYFORMATVERSIONS".toList (attrPairs r) with
            | none => rw [hl] at hv; cases hv
            | some w =>
              rw [hl] at hv
              simp only [Option.bind_some] at hv
              cases hp : KeyFormatVersions.parse w with
              | ok x => rw [hp] at hv; simp only [Res.toOption, Option.some.injEq] at hv; subst hv; exact kfv_parse_wf w x hp
              | err => rw [hp] at hv; cases hv
              | panic => rw [hp] at hv; cases hv
    · cases h
  | err => rw [hc] at h; cases h
  | panic => rw [hc] at h; cases h

end Hls

namespace Hls

/-! ## the remainder of a tag line -/

theorem endsOk_of_trim (s : Str) (h : trim s = s) : EndsOk s := by
  intro c r e
  have : s = trimEnd (trimStart s) := h.symm
  rw [this] at e
  unfold trimEnd at e
  rw [List.reverse_reverse] at e
  exact head_dropWhile isWs _ c r e

theorem endsOk_drop (s : Str) (n : Nat) (h : EndsOk s) : EndsOk (s.drop n) := by
  intro c r e
  have hs : s = s.take n ++ s.drop n := (List.take_append_drop n s).symm
  apply h c (r ++ (s.take n).reverse)
  rw [hs, List.reverse_append, List.take_append_drop, e]; rfl

theorem stripTag_raw (s pfx r : Str) (hs : RawOK s) (h : stripTag s pfx = .ok r) : r = s.drop pfx.length ∧ '\n' ∉ r ∧ EndsOk r := by
  simp only [stripTag, hs.2.1] at h
  split at h
  · simp only [Res.ok.injEq] at h
    refine ⟨h.symm, ?_, ?_⟩
    · rw [← h]; intro hc; exact hs.1 (List.mem_of_mem_drop hc)
    · rw [← h]; exact endsOk_drop s _ (endsOk_of_trim s hs.2.1)
  · cases h

theorem splitFirst_spec (c : Char) (s a b : Str) (h : splitFirst c s = some (a, b)) : s = a ++ c :: b := by
  induction s generalizing a with
  | nil => cases h
  | cons x xs ih =>
    simp only [splitFirst] at h
    split at h
    · rename_i hx
      simp only [Option.some.injEq, Prod.mk.injEq] at h
      obtain ⟨rfl, rfl⟩ := h
      rw [eq_of_beq hx]; rfl
    · cases hsp : splitFirst c xs with
      | none => rw [hsp] at h; cases h
      | some ab =>
        obtain ⟨a', b'⟩ := ab
        rw [hsp] at h
        simp only [Option.some.injEq, Prod.mk.injEq] at h
        obtain ⟨rfl, rfl⟩ := h
        rw [ih _ hsp]; rfl

/-! ## the conditions, per kind of line -/

/-- the value carried by a typed line is in the domain of its text round trip -/
def LineWF : Line → Prop
  | .key k => ∀ d, k = some d → d.WF
  | .map m => Quotable m.uri ∧ ∀ r, m.range = some r → r.WF
  | .byteRange r => r.WF
  | .programDateTime t => '\n' ∉ t.date_time ∧ EndsOk t.date_time
  | .inf t => ∀ x, t.title = some x → trim x = x ∧ x ≠ [] ∧ '\n' ∉ x ∧ EndsOk x
  | .targetDuration n => n % nanosPerSec = 0 ∧ n / nanosPerSec < 2 ^ 64
  | .mediaSequence n => n < 2 ^ 64
  | .discontinuitySequence n => n < 2 ^ 64
  | .dateRange d => DateRangePre d
  | _ => True

theorem byteRange_parse_wf (s : Str) (r : ByteRange) (h : ByteRange.parse s = .ok r) : r.WF := by
  simp only [ByteRange.parse] at h
  split at h
  · cases h
  · rename_i len hl
    have hlen : len < 2 ^ 64 := parseNat_lt 64 (splitN2 '@' s).fst len (by simp only [parseNat, hl, Res.ofOpt])
    split at h
    · simp only [Res.ok.injEq] at h; subst h
      exact ⟨hlen, fun s e => by cases e⟩
    · split at h
      · cases h
      · split at h
        · rename_i st _ hlt
          simp only [Res.ok.injEq] at h; subst h
          exact ⟨hlt, fun s e => by simp only [Option.some.injEq] at e; subst e; simp⟩
        · cases h

theorem map_parse_wf (s : Str) (m : ExtXMap) (h : ExtXMap.parse s = .ok m) : LineWF (.map m) := by
  simp only [ExtXMap.parse] at h
  cases hs : stripTag s pfxMap with
  | ok r =>
    rw [hs] at h
    simp only [Res.bind_ok, ExtXMap.fold_closed] at h
    cases hc : ExtXMap.closed (attrPairs r) with
    | ok a =>
      rw [hc] at h
      simp only [Res.bind_ok] at h
      split at h
      · rename_i u hu
        simp only [Res.pure_eq, Res.ok.injEq] at h; subst h
        simp only [ExtXMap.closed] at hc
        split at hc
        · cases hc
        · simp only [Res.ok.injEq] at hc; subst hc
          simp only at hu
          simp only [LineWF]
          constructor
          · cases hl : lastVal "URI".toList (attrPairs r) with
            | none => rw [hl] at hu; cases hu
            | some v => rw [hl] at hu; simp only [Option.map_some, Option.some.injEq] at hu; subst hu; exact quotable_unquote v
          · intro rg hr
            cases hl : lastVal "BYTERANGE".toList (attrPairs r) with
            | none => rw [hl] at hr; cases hr
            | some v =>
              rw [hl] at hr
              simp only [Option.bind_some] at hr
              cases hp : ByteRange.parse (unquote v) with
              | ok x => rw [hp] at hr; simp only [Res.toOption, Option.some.injEq] at hr; subst hr; exact byteRange_parse_wf _ x hp
              | err => rw [hp] at hr; cases hr
              | panic => rw [hp] at hr; cases hr
      · cases h
    | err => rw [hc] at h; cases h
    | panic => rw [hc] at h; cases h
  | err => rw [hs] at h; cases h
  | panic => rw [hs] at h; cases h

theorem key_parse_wf (s : Str) (k : ExtXKey) (h : ExtXKey.parse s = .ok k) : LineWF (.key k) := by
  simp only [ExtXKey.parse] at h
  cases hs : stripTag s pfxKey with
  | ok r =>
    rw [hs] at h
    simp only [Res.bind_ok] at h
    split at h
    · simp only [Res.pure_eq, Res.ok.injEq] at h; subst h; intro d e; cases e
    · cases hd : DecryptionKey.parse r with
      | ok d0 =>
        rw [hd] at h
        simp only [Res.bind_ok, Res.pure_eq, Res.ok.injEq] at h; subst h
        intro d e; cases e
        exact decryptionKey_parse_wf r d0 hd
      | err => rw [hd] at h; cases h
      | panic => rw [hd] at h; cases h
  | err => rw [hs] at h; cases h
  | panic => rw [hs] at h; cases h

theorem inf_parse_wf (s : Str) (t : ExtInf) (hs : RawOK s) (h : ExtInf.parse s = .ok t) : LineWF (.inf t) := by
  simp only [ExtInf.parse] at h
  cases hst : stripTag s pfxInf with
  | ok r =>
    rw [hst] at h
    obtain ⟨_, hnl, _⟩ := stripTag_raw s pfxInf r hs hst
    simp only [Res.bind_ok, splitN2] at h
    cases hsp : splitFirst ',' r with
    | none =>
      rw [hsp] at h
      simp only at h
      cases hp : parseSecs r with
      | ok d => rw [hp] at h; simp only [Res.bind_ok, Res.pure_eq, Res.ok.injEq] at h; subst h; intro x e; cases e
      | err => rw [hp] at h; cases h
      | panic => rw [hp] at h; cases h
    | some ab =>
      obtain ⟨a, b⟩ := ab
      rw [hsp] at h
      simp only at h
      have hr := splitFirst_spec ',' r a b hsp
      cases hp : parseSecs a with
      | ok d =>
        rw [hp] at h
        simp only [Res.bind_ok, Res.pure_eq, Res.ok.injEq] at h; subst h
        intro x e
        simp only at e
        split at e
        · cases e
        · rename_i hne
          simp only [Option.some.injEq] at e; subst e
          refine ⟨trim_trim b, ?_, ?_, endsOk_of_trim _ (trim_trim b)⟩
          · intro e; rw [e] at hne; simp at hne
          · intro hc
            apply hnl
            rw [hr]
            have := mem_trim b _ hc
            simp [this]
      | err => rw [hp] at h; cases h
      | panic => rw [hp] at h; cases h
  | err => rw [hst] at h; cases h
  | panic => rw [hst] at h; cases h

end Hls

namespace Hls

/-! ## EXT-X-DATERANGE -/

theorem mem_btreeInsert (k : Str) (v : Value) (l : List (Str × Value)) (e : Str × Value) (h : e ∈ btreeInsert k v l) :
    e = (k, v) ∨ e ∈ l := by
  induction l with
  | nil => simp only [btreeInsert, List.mem_singleton] at h; exact .inl h
  | cons x rest ih =>
    obtain ⟨k', v'⟩ := x
    simp only [btreeInsert] at h
    split at h
    · rcases List.mem_cons.mp h with h | h
      · exact .inl h
      · exact .inr h
    · rcases List.mem_cons.mp h with h | h
      · exact .inl h
      · exact .inr (List.mem_cons_of_mem _ h)
    · rcases List.mem_cons.mp h with h | h
      · exact .inr (by rw [h]; simp)
      · rcases ih h with h | h
        · exact .inl h
        · exact .inr (List.mem_cons_of_mem _ h)

theorem btreeInsert_keysLt (k : Str) (v : Value) (l : List (Str × Value)) (h : KeysLt l) : KeysLt (btreeInsert k v l) := by
  have L := cmpStr_lawful
  induction l with
  | nil => simp [btreeInsert, KeysLt]
  | cons x rest ih =>
    obtain ⟨k', v'⟩ := x
    have hp := List.pairwise_cons.mp h
    simp only [btreeInsert]
    split
    · rename_i hlt
      apply List.pairwise_cons.mpr
      refine ⟨?_, h⟩
      intro e he
      rcases List.mem_cons.mp he with rfl | he
      · exact hlt
      · exact L.trans_lt _ _ _ hlt (hp.1 e he)
    · rename_i heq
      have : k = k' := (L.eq_iff _ _).mp heq
      subst this
      exact List.pairwise_cons.mpr ⟨hp.1, hp.2⟩
    · rename_i hgt
      have hlt : cmpStr k' k = .lt := (L.gt_iff k k').mp hgt
      apply List.pairwise_cons.mpr
      refine ⟨?_, ih hp.2⟩
      intro e he
      rcases mem_btreeInsert k v rest e he with rfl | he
      · exact hlt
      · exact hp.1 e he

/-- what the client-attribute loop keeps true -/
def ClientInv (m : List (Str × Value)) : Prop :=
  KeysLt m ∧ ∀ e ∈ m, ClientKeyOK e.1 ∧ ClientValPre e.2

theorem value_parse_pre (s : Str) (v : Value) (h : Value.parse s = .ok v) : ClientValPre v := by
  simp only [Value.parse] at h
  split at h
  · split at h
    · rename_i bs hb
      simp only [Res.ok.injEq] at h; subst h
      exact (hexDecode_spec _ bs hb).2
    · cases h
  · split at h
    · simp only [Res.ok.injEq] at h; subst h; trivial
    · simp only [Res.ok.injEq] at h; subst h; exact quotable_unquote s

theorem client_fold_inv (ps : List (Str × Str)) (m : List (Str × Value)) (hm : ClientInv m)
    (hb : ps.any ExtXDateRange.bad = false) : ClientInv (ps.foldl clientStep m) := by
  induction ps generalizing m with
  | nil => exact hm
  | cons kv rest ih =>
    simp only [List.any_cons, Bool.or_eq_false_iff] at hb
    simp only [List.foldl_cons]
    apply ih _ _ hb.2
    obtain ⟨k, v⟩ := kv
    unfold clientStep
    split
    · rename_i hx
      have hbad := hb.1
      simp only [ExtXDateRange.bad, Bool.or_eq_false_iff, Bool.and_eq_false_iff] at hbad
      have h4 := hbad.2
      simp only at hx
      rcases h4 with h4 | h4
      · rw [hx] at h4; cases h4
      · simp only [Bool.or_eq_false_iff, Bool.not_eq_false'] at h4
        cases hp : Value.parse v with
        | ok val =>
          simp only
          refine ⟨btreeInsert_keysLt k val m hm.1, ?_⟩
          intro e he
          rcases mem_btreeInsert k val m e he with rfl | he
          · exact ⟨⟨hx, h4.1⟩, value_parse_pre v val hp⟩
          · exact hm.2 e he
        | err => exact hm
        | panic => exact hm
    · exact hm

theorem dateRange_parse_pre (s : Str) (t : ExtXDateRange) (h : ExtXDateRange.parse s = .ok t) : DateRangePre t := by
  simp only [ExtXDateRange.parse] at h
  cases hs : stripTag s pfxDateRange with
  | ok r =>
    rw [hs] at h
    simp only [Res.bind_ok, ExtXDateRange.fold_closed] at h
    cases hc : ExtXDateRange.closed (attrPairs r) with
    | ok a =>
      rw [hc] at h
      simp only [Res.bind_ok, ExtXDateRange.finish] at h
      simp only [ExtXDateRange.closed] at hc
      split at hc
      · cases hc
      · rename_i hnb
        simp only [Res.ok.injEq] at hc; subst hc
        have hinv := client_fold_inv (attrPairs r) [] ⟨by simp [KeysLt], fun e he => by cases he⟩ (by simpa using hnb)
        split at h
        · cases h
        · rename_i id hid
          split at h
          · cases h
          · split at h
            · cases h
            · split at h
              · cases h
              · rename_i n1 n2 n3
                simp only [Res.ok.injEq] at h; subst h
                refine ⟨quotable_mapUnquote _ _ hid, fun x e => quotable_mapUnquote _ x e, fun x e => quotable_mapUnquote _ x e,
                  fun x e => quotable_mapUnquote _ x e, fun e he => (hinv.2 e he).1, fun e he => (hinv.2 e he).2, hinv.1, ?_⟩
                intro heon
                simp only at heon n1 n2 n3
                simp only [heon, Bool.true_and, Bool.not_eq_true] at n1 n2 n3
                refine ⟨?_, ?_, ?_⟩
                · cases hcl : Option.map unquote (lastVal "CLASS".toList (attrPairs r)) with
                  | none => rw [hcl] at n1; simp at n1
                  | some x => rfl
                · cases hd : optParse parseSecs (lastVal "DURATION".toList (attrPairs r)) with
                  | none => rfl
                  | some x => rw [hd] at n2; simp at n2
                · cases hd : Option.map unquote (lastVal "END-DATE".toList (attrPairs r)) with
                  | none => rfl
                  | some x => rw [hd] at n3; simp at n3
    | err => rw [hc] at h; cases h
    | panic => rw [hc] at h; cases h
  | err => rw [hs] at h; cases h
  | panic => rw [hs] at h; cases h

theorem arm_map {α} (parse : Str → Res α) (ctor : α → Line)
    (h : ∀ s a, parse s = .ok a → RawOK s → LineWF (ctor a)) :
    ∀ s x, (parse s).map ctor = .ok x → RawOK s → LineWF x := by
  intro s x hx hs
  rw [C05.Res.map_eq_ok] at hx
  obtain ⟨a, ha, rfl⟩ := hx
  exact h s a ha hs

theorem nat_tag_lt (pfx s : Str) (n : Nat) (h : (do let r ← stripTag s pfx; parseNat 64 r) = Res.ok n) : n < 2 ^ 64 := by
  cases hs : stripTag s pfx with
  | ok r => rw [hs] at h; exact parseNat_lt 64 r n h
  | err => rw [hs] at h; cases h
  | panic => rw [hs] at h; cases h

/-- **every typed line that the classifier returns carries a value in the domain of its text round trip** -/
theorem classify1_lineWF (l : Str) (x : Line) (hl : RawOK l) (h : classify1 l = .ok x) : LineWF x := by
  refine classify1_ind (fun s x => RawOK s → LineWF x) ?_ (fun _ _ => trivial) (fun _ _ => trivial) (fun _ _ _ => trivial) l x h hl
  simp only [tagParsers, C05.AllArms]
  refine ⟨arm_map _ _ (fun _ _ _ _ => trivial), arm_map _ _ ?inf, arm_map _ _ ?br, arm_map _ _ ?ds,
    arm_map _ _ (fun _ _ _ _ => trivial), arm_map _ _ ?key, arm_map _ _ ?map, arm_map _ _ ?pdt, arm_map _ _ ?td,
    arm_map _ _ ?dr, arm_map _ _ ?ms, arm_map _ _ (fun _ _ _ _ => trivial),
    arm_map _ _ (fun _ _ _ _ => trivial), arm_map _ _ (fun _ _ _ _ => trivial), arm_map _ _ (fun _ _ _ _ => trivial),
    arm_map _ _ (fun _ _ _ _ => trivial), arm_map _ _ (fun _ _ _ _ => trivial), arm_map _ _ (fun _ _ _ _ => trivial),
    arm_map _ _ (fun _ _ _ _ => trivial), arm_map _ _ (fun _ _ _ _ => trivial), trivial⟩
  case inf => intro s a h hs; exact inf_parse_wf s a hs h
  case br =>
    intro s a h hs
    simp only [ExtXByteRange.parse] at h
    cases hst : stripTag s pfxByteRange with
    | ok r => rw [hst] at h; exact byteRange_parse_wf r a h
    | err => rw [hst] at h; cases h
    | panic => rw [hst] at h; cases h
  case ds => intro s a h hs; exact nat_tag_lt pfxDiscontinuitySequence s a h
  case key => intro s a h hs; exact key_parse_wf s a h
  case map => intro s a h hs; exact map_parse_wf s a h
  case pdt =>
    intro s a h hs
    simp only [ExtXProgramDateTime.parse] at h
    cases hst : stripTag s pfxProgramDateTime with
    | ok r =>
      rw [hst] at h
      simp only [Res.bind_ok, Res.pure_eq, Res.ok.injEq] at h; subst h
      obtain ⟨_, h1, h2⟩ := stripTag_raw s _ r hs hst
      exact ⟨h1, h2⟩
    | err => rw [hst] at h; cases h
    | panic => rw [hst] at h; cases h
  case td =>
    intro s a h hs
    simp only [ExtXTargetDuration.parse] at h
    cases hst : stripTag s pfxTargetDuration with
    | ok r =>
      rw [hst] at h
      simp only [Res.bind_ok] at h
      cases hp : parseNat 64 r with
      | ok n =>
        rw [hp] at h
        simp only [Res.bind_ok, Res.pure_eq, Res.ok.injEq] at h; subst h
        have := parseNat_lt 64 r n hp
        simp only [LineWF]
        have hpos : 0 < nanosPerSec := by decide
        exact ⟨Nat.mul_mod_left _ _, by rw [Nat.mul_div_cancel _ hpos]; exact this⟩
      | err => rw [hp] at h; cases h
      | panic => rw [hp] at h; cases h
    | err => rw [hst] at h; cases h
    | panic => rw [hst] at h; cases h
  case ms => intro s a h hs; exact nat_tag_lt pfxMediaSequence s a h
  case dr => intro s a h _; exact dateRange_parse_pre s a h

end Hls

namespace Hls

/-! ## verbatim lines read back -/

def VerbRT : Line → Prop
  | .uri u => LineRT (.uri u)
  | .unknown u => LineRT (.unknown u)
  | _ => True

theorem arm_verb {α} (parse : Str → Res α) (ctor : α → Line) (h : ∀ a, VerbRT (ctor a)) :
    ∀ s x, (parse s).map ctor = .ok x → RawOK s → startsWith s siPfx = false → classify1 s = .ok x → VerbRT x := by
  intro s x hx _ _ _
  rw [C05.Res.map_eq_ok] at hx
  obtain ⟨a, _, rfl⟩ := hx
  exact h a

/-- a URI line or an unknown tag that the classifier returned is classified the same way again -/
theorem classify1_verbatim (l : Str) (x : Line) (hl : RawOK l) (hsi : startsWith l siPfx = false)
    (h : classify1 l = .ok x) : VerbRT x := by
  refine classify1_ind (fun s x => RawOK s → startsWith s siPfx = false → classify1 s = .ok x → VerbRT x)
    ?_ ?_ (fun _ _ _ _ => trivial) ?_ l x h hl hsi h
  · simp only [tagParsers, C05.AllArms]
    exact ⟨arm_verb _ _ (fun _ => trivial), arm_verb _ _ (fun _ => trivial), arm_verb _ _ (fun _ => trivial),
      arm_verb _ _ (fun _ => trivial), arm_verb _ _ (fun _ => trivial), arm_verb _ _ (fun _ => trivial),
      arm_verb _ _ (fun _ => trivial), arm_verb _ _ (fun _ => trivial), arm_verb _ _ (fun _ => trivial),
      arm_verb _ _ (fun _ => trivial), arm_verb _ _ (fun _ => trivial), arm_verb _ _ (fun _ => trivial),
      arm_verb _ _ (fun _ => trivial), arm_verb _ _ (fun _ => trivial), arm_verb _ _ (fun _ => trivial),
      arm_verb _ _ (fun _ => trivial), arm_verb _ _ (fun _ => trivial), arm_verb _ _ (fun _ => trivial),
      arm_verb _ _ (fun _ => trivial), arm_verb _ _ (fun _ => trivial), trivial⟩
  · intro s hs hsi hc; exact ⟨hs.1, hs.2.1, hs.2.2, hsi, hc⟩
  · intro s _ hs hsi hc; exact ⟨hs.1, hs.2.1, hs.2.2, hsi, hc⟩

/-- what holds of every typed line of a parsed text -/
def LineGood (x : Line) : Prop := LineWF x ∧ VerbRT x

theorem items_good (raw : List Str) (hraw : ∀ l ∈ raw, RawOK l) (x : Line) (h : Res.ok x ∈ items raw) : LineGood x := by
  rcases items_origin raw x h with ⟨l, hm, hsi, hc⟩ | ⟨l, u, v, _, _, _, _, rfl⟩
  · exact ⟨classify1_lineWF l x (hraw l hm) hc, classify1_verbatim l x (hraw l hm) hsi hc⟩
  · exact ⟨trivial, trivial⟩

/-- **every typed line of any text is good** -/
theorem text_lines_good (s : Str) (ls : List Line) (h : lineItems s = ls.map Res.ok) : ∀ x ∈ ls, LineGood x := by
  intro x hx
  apply items_good (rawLines s) (rawLines_ok s) x
  unfold lineItems at h
  rw [h]
  exact List.mem_map.mpr ⟨_, hx, rfl⟩

end Hls
