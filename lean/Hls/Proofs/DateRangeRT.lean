import Hls.Proofs.VariantRT
import Hls.Proofs.BTree
/-!
# EXT-X-DATERANGE: parse (write t) = t, and `LineRT`
-/
namespace Hls

/-! ## look-ups in appended lists -/

theorem lookupOpt_append_left (k : Str) (a b : List (Str × Option Str)) (h : k ∈ a.map (·.1)) :
    lookupOpt k (a ++ b) = lookupOpt k a := by
  induction a with
  | nil => cases h
  | cons e rest ih =>
    obtain ⟨k', o⟩ := e
    simp only [List.cons_append, lookupOpt]
    split
    · rfl
    · rename_i hne
      apply ih
      simp only [List.map_cons, List.mem_cons] at h
      rcases h with e | h
      · subst e; simp at hne
      · exact h

theorem lookupOpt_append_right (k : Str) (a b : List (Str × Option Str)) (h : k ∉ a.map (·.1)) :
    lookupOpt k (a ++ b) = lookupOpt k b := by
  induction a with
  | nil => rfl
  | cons e rest ih =>
    obtain ⟨k', o⟩ := e
    simp only [List.map_cons, List.mem_cons, not_or] at h
    have : (k' == k) = false := beq_false_of_ne (fun e => h.1 e.symm)
    simp only [List.cons_append, lookupOpt, this, Bool.false_eq_true, if_false]
    exact ih h.2

theorem lookupOpt_none (k : Str) (a : List (Str × Option Str)) (h : k ∉ a.map (·.1)) : lookupOpt k a = none := by
  have := lookupOpt_append_right k a [] h
  simpa [lookupOpt] using this

theorem presentPairs_append (a b : List (Str × Option Str)) : presentPairs (a ++ b) = presentPairs a ++ presentPairs b := by
  simp [presentPairs, List.filterMap_append]

/-! ## client attributes: a sorted association list is rebuilt by successive inserts -/

def KeysLt (l : List (Str × Value)) : Prop := l.Pairwise fun a b => cmpStr a.1 b.1 = .lt

theorem btreeInsert_last (k : Str) (v : Value) (pre : List (Str × Value)) (h : ∀ e ∈ pre, cmpStr e.1 k = .lt) :
    btreeInsert k v pre = pre ++ [(k, v)] := by
  induction pre with
  | nil => rfl
  | cons e rest ih =>
    obtain ⟨k', v'⟩ := e
    have hlt := h (k', v') (by simp)
    have hgt : cmpStr k k' = .gt := (cmpStr_lawful.gt_iff k k').mpr hlt
    simp only [btreeInsert, hgt, List.cons_append]
    rw [ih (fun e he => h e (by simp [he]))]

/-- a client attribute value reads back -/
def ValueRT (v : Value) : Prop := Value.parse v.show = .ok v ∧ AttrVal v.show

theorem foldl_client (suf pre : List (Str × Value)) (hs : KeysLt (pre ++ suf))
    (hk : ∀ e ∈ suf, startsWith e.1 "X-".toList = true) (hv : ∀ e ∈ suf, ValueRT e.2) :
    (suf.map fun e => (e.1, e.2.show)).foldl clientStep pre = pre ++ suf := by
  induction suf generalizing pre with
  | nil => simp
  | cons e rest ih =>
    obtain ⟨k, v⟩ := e
    simp only [List.map_cons, List.foldl_cons]
    have hstep : clientStep pre (k, v.show) = pre ++ [(k, v)] := by
      simp only [clientStep, hk (k, v) (by simp), if_true, (hv (k, v) (by simp)).1]
      apply btreeInsert_last
      intro e he
      have := List.pairwise_append.mp hs
      exact this.2.2 e he (k, v) (by simp)
    rw [hstep]
    have := ih (pre ++ [(k, v)]) (by simpa using hs) (fun e he => hk e (by simp [he])) (fun e he => hv e (by simp [he]))
    simpa using this

theorem foldl_client_skip (ps : List (Str × Str)) (m : List (Str × Value)) (h : ∀ kv ∈ ps, startsWith kv.1 "X-".toList = false) :
    ps.foldl clientStep m = m := by
  induction ps generalizing m with
  | nil => rfl
  | cons kv rest ih =>
    simp only [List.foldl_cons]
    have : clientStep m kv = m := by
      have hh := h kv (by simp)
      unfold clientStep
      rw [if_neg (by rw [hh]; simp)]
    rw [this]
    exact ih m (fun kv hkv => h kv (by simp [hkv]))

/-! ## client attribute values -/

theorem parseFloatLit_quote (t : Str) : parseFloatLit ('"' :: t) = none := by
  have hu : isAsciiUpper '"' = false := by decide
  simp [parseFloatLit, parseFloatBody, isDigit, lowerStr, asciiLower, hu]

end Hls

namespace Hls

theorem value_string_rt (v : Str) (hq : Quotable v) : ValueRT (.string v) := by
  refine ⟨?_, attrVal_quote v hq⟩
  have hpf : Float32.parseFloat (quote v) = .err := by
    simp only [Float32.parseFloat, Hls.parseFloat, quote, List.cons_append, parseFloatLit_quote]
  simp only [Value.show, Value.parse, hpf, unq v hq]
  simp [quote, startsWith, List.isPrefixOf]

theorem tsm_go_no (p s : Str) (fuel : Nat) (h : startsWith s p = false) : trimStartMatches.go p fuel s = s := by
  cases fuel with
  | zero => rfl
  | succ n => simp [trimStartMatches.go, h]

theorem tsm_no (p s : Str) (h : startsWith s p = false) : trimStartMatches p s = s := tsm_go_no p s _ h

theorem tsm_once (p rest : Str) (hp : p ≠ []) (h : startsWith rest p = false) : trimStartMatches p (p ++ rest) = rest := by
  unfold trimStartMatches
  have hl : (p ++ rest).length = (p.length + rest.length - 1) + 1 := by
    cases p with
    | nil => exact absurd rfl hp
    | cons c r => simp
  rw [hl]
  have hs : startsWith (p ++ rest) p = true := by
    unfold startsWith; rw [List.isPrefixOf_iff_prefix]; exact List.prefix_append _ _
  have hne : p.isEmpty = false := by cases p <;> simp_all
  simp only [trimStartMatches.go, hne, hs, Bool.not_false, Bool.true_and, if_true, List.drop_left]
  exact tsm_go_no p rest _ h

theorem hexChar_not_x : ∀ n ∈ List.range 16, hexChar true n ≠ 'x' ∧ hexChar true n ≠ 'X' := by decide

theorem hexEncode_no_0x (bs : List Nat) (h : ∀ b ∈ bs, b < 256) :
    startsWith (hexEncode true bs) "0x".toList = false ∧ startsWith (hexEncode true bs) "0X".toList = false := by
  cases bs with
  | nil => exact ⟨rfl, rfl⟩
  | cons b rest =>
    have hb := h b (by simp)
    have := hexChar_not_x (b % 16) (List.mem_range.mpr (Nat.mod_lt _ (by omega)))
    simp only [hexEncode, List.flatMap_cons, List.cons_append, List.nil_append, startsWith]
    constructor
    · show List.isPrefixOf ['0', 'x'] _ = false
      simp only [List.isPrefixOf, Bool.and_eq_false_iff, beq_eq_false_iff_ne, ne_eq, Bool.and_true]
      right; exact fun e => this.1 e.symm
    · show List.isPrefixOf ['0', 'X'] _ = false
      simp only [List.isPrefixOf, Bool.and_eq_false_iff, beq_eq_false_iff_ne, ne_eq, Bool.and_true]
      right; exact fun e => this.2 e.symm

theorem value_hex_rt (bs : List Nat) (h : ∀ b ∈ bs, b < 256) : ValueRT (.hex bs) := by
  obtain ⟨n1, n2⟩ := hexEncode_no_0x bs h
  refine ⟨?_, attrVal_plain _ (plain_append _ _ (by decide) (plain_hexEncode true bs h))⟩
  have hs : startsWith ("0x".toList ++ hexEncode true bs) "0x".toList = true := by
    unfold startsWith; rw [List.isPrefixOf_iff_prefix]; exact List.prefix_append _ _
  simp only [Value.show, Value.parse, hs, Bool.true_or, if_true]
  rw [tsm_once "0x".toList _ (by decide) n1, tsm_no _ _ n2, C18.hexDecode_encode true bs h]

end Hls

namespace Hls

/-! ## the tag -/

def drFixed (t : ExtXDateRange) : List (Str × Option Str) :=
  [("CLASS".toList, t.«class».map quote), ("START-DATE".toList, t.start_date.map quote), ("END-DATE".toList, t.end_date.map quote),
   ("DURATION".toList, t.duration.map showSecs), ("PLANNED-DURATION".toList, t.planned_duration.map showSecs),
   ("SCTE35-CMD".toList, t.scte35_cmd.map fun x => x), ("SCTE35-OUT".toList, t.scte35_out.map fun x => x),
   ("SCTE35-IN".toList, t.scte35_in.map fun x => x)]

def drClient (t : ExtXDateRange) : List (Str × Option Str) := t.client_attributes.map fun kv => (kv.1, some kv.2.show)

def drEon (t : ExtXDateRange) : List (Str × Option Str) := [("END-ON-NEXT".toList, if t.end_on_next then some "YES".toList else none)]

def drRest (t : ExtXDateRange) : List (Str × Option Str) := drFixed t ++ (drClient t ++ drEon t)

theorem client_pieces (l : List (Str × Value)) :
    (l.flatMap fun kv => [','] ++ kv.1 ++ ['='] ++ kv.2.show) = (l.map fun kv => (kv.1, some kv.2.show)).flatMap optPiece := by
  induction l with
  | nil => rfl
  | cons e rest ih => simp only [List.flatMap_cons, List.map_cons, ih, optPiece]; simp

theorem dateRange_show_eq (t : ExtXDateRange) : t.show = pfxDateRange ++ renderOpt "ID".toList (quote t.id) (drRest t) := by
  unfold ExtXDateRange.show
  rw [optPiece_opt ",CLASS=" "CLASS".toList quote t.«class» rfl,
    optPiece_opt ",START-DATE=" "START-DATE".toList quote t.start_date rfl,
    optPiece_opt ",END-DATE=" "END-DATE".toList quote t.end_date rfl,
    optPiece_opt ",DURATION=" "DURATION".toList showSecs t.duration rfl,
    optPiece_opt ",PLANNED-DURATION=" "PLANNED-DURATION".toList showSecs t.planned_duration rfl,
    optPiece_opt ",SCTE35-CMD=" "SCTE35-CMD".toList (fun x => x) t.scte35_cmd rfl,
    optPiece_opt ",SCTE35-OUT=" "SCTE35-OUT".toList (fun x => x) t.scte35_out rfl,
    optPiece_opt ",SCTE35-IN=" "SCTE35-IN".toList (fun x => x) t.scte35_in rfl,
    optPiece_flag "END-ON-NEXT".toList ",END-ON-NEXT=YES".toList t.end_on_next rfl,
    client_pieces]
  rw [renderOpt_pieces]
  simp only [drRest, drFixed, drClient, drEon, List.flatMap_append, List.flatMap_cons, List.flatMap_nil, List.append_assoc, List.append_nil]
  rfl

/-- a client attribute name as the parser accepts it -/
def ClientKeyOK (k : Str) : Prop := startsWith k "X-".toList = true ∧ k.any badClientAttrChar = false

/-- the values for which the text form of EXT-X-DATERANGE is faithful -/
structure ExtXDateRange.WF (t : ExtXDateRange) : Prop where
  id : Quotable t.id
  cls : ∀ x, t.«class» = some x → Quotable x
  sd : ∀ x, t.start_date = some x → Quotable x
  ed : ∀ x, t.end_date = some x → Quotable x
  dur : ∀ n, t.duration = some n → parseSecs (showSecs n) = .ok n ∧ plainVal (showSecs n) = true
  pdur : ∀ n, t.planned_duration = some n → parseSecs (showSecs n) = .ok n ∧ plainVal (showSecs n) = true
  cmd : ∀ x, t.scte35_cmd = some x → plainVal x = true
  out : ∀ x, t.scte35_out = some x → plainVal x = true
  inn : ∀ x, t.scte35_in = some x → plainVal x = true
  ckeys : ∀ e ∈ t.client_attributes, ClientKeyOK e.1
  cvals : ∀ e ∈ t.client_attributes, ValueRT e.2
  sorted : KeysLt t.client_attributes
  rules : t.end_on_next = true → t.«class».isSome = true ∧ t.duration.isNone = true ∧ t.end_date.isNone = true

theorem clientKey_shape (k : Str) (h : ClientKeyOK k) : ∃ r, k = 'X' :: '-' :: r := by
  have := h.1
  unfold startsWith at this
  rw [List.isPrefixOf_iff_prefix] at this
  obtain ⟨r, e⟩ := this
  exact ⟨r, e.symm⟩

theorem ascii_name_table : ∀ n : Fin 128, (isAsciiAlnum (Char.ofNat n.val) || Char.ofNat n.val == '-') = true →
    (isWs (Char.ofNat n.val) = false ∧ Char.ofNat n.val ≠ '=' ∧ Char.ofNat n.val ≠ '\n') := by decide +kernel

theorem clientKey_wf (k : Str) (h : ClientKeyOK k) : wfKey k ∧ '\n' ∉ k := by
  have hall : ∀ c ∈ k, badClientAttrChar c = false := by
    intro c hc
    have := h.2
    rw [List.any_eq_false] at this
    simpa using this c hc
  have hgood : ∀ c ∈ k, (c != '=' && !isWs c) = true ∧ c ≠ '\n' := by
    intro c hc
    have hb := hall c hc
    simp only [badClientAttrChar, Bool.or_eq_false_iff, Bool.not_eq_false', Bool.not_eq_eq_eq_not, Bool.not_true] at hb
    obtain ⟨⟨_, hasc⟩, hal⟩ := hb
    have hlt : c.toNat < 128 := by
      have : isAscii c = true := by simpa using hasc
      simp only [isAscii, decide_eq_true_eq, UInt32.lt_iff_toNat_lt] at this
      exact this
    have hc' : Char.ofNat c.toNat = c := Char.ofNat_toNat c
    have := ascii_name_table ⟨c.toNat, hlt⟩ (by simp only [hc']; simpa using hal)
    simp only [hc'] at this
    exact ⟨by simp [this.1, this.2.1], this.2.2⟩
  obtain ⟨r, e⟩ := clientKey_shape k h
  refine ⟨wfKey_lit k ?_ (by rw [e]; simp), fun hc => (hgood _ hc).2 rfl⟩
  rw [List.all_eq_true]
  exact fun c hc => (hgood c hc).1

end Hls

namespace Hls

def drFixedKeys : List Str := ["CLASS".toList, "START-DATE".toList, "END-DATE".toList, "DURATION".toList,
  "PLANNED-DURATION".toList, "SCTE35-CMD".toList, "SCTE35-OUT".toList, "SCTE35-IN".toList]

theorem drFixed_keys (t : ExtXDateRange) : (drFixed t).map (·.1) = drFixedKeys := rfl
theorem drClient_keys (t : ExtXDateRange) : (drClient t).map (·.1) = t.client_attributes.map (·.1) := by
  simp [drClient, List.map_map, Function.comp_def]
theorem drEon_keys (t : ExtXDateRange) : (drEon t).map (·.1) = ["END-ON-NEXT".toList] := rfl

/-- names that are not client attribute names -/
def plainNames : List Str := "ID".toList :: "END-ON-NEXT".toList :: drFixedKeys

theorem plainNames_noX : ∀ k ∈ plainNames, startsWith k "X-".toList = false := by decide

theorem client_ne_plain (k : Str) (h : ClientKeyOK k) : k ∉ plainNames := by
  intro hm
  have := plainNames_noX k hm
  rw [h.1] at this; cases this

theorem keysLt_nodup (l : List (Str × Value)) (h : KeysLt l) : (l.map (·.1)).Nodup := by
  unfold List.Nodup
  rw [List.pairwise_map]
  apply List.Pairwise.imp _ h
  intro a b hlt e
  rw [e, cmpStr_lawful.refl] at hlt; cases hlt

theorem drRest_nodup (t : ExtXDateRange) (h : t.WF) : ((drRest t).map (·.1)).Nodup := by
  simp only [drRest, List.map_append, drFixed_keys, drClient_keys, drEon_keys]
  rw [List.nodup_append]
  refine ⟨by decide, ?_, ?_⟩
  · rw [List.nodup_append]
    refine ⟨keysLt_nodup _ h.sorted, by simp, ?_⟩
    intro a ha b hb e
    obtain ⟨x, hx, rfl⟩ := List.mem_map.mp ha
    simp only [List.mem_singleton] at hb
    subst hb
    exact client_ne_plain _ (h.ckeys x hx) (by rw [e]; simp [plainNames])
  · intro a ha b hb e
    rcases List.mem_append.mp hb with hb | hb
    · obtain ⟨x, hx, rfl⟩ := List.mem_map.mp hb
      exact client_ne_plain _ (h.ckeys x hx) (by rw [← e]; simp [plainNames, ha])
    · simp only [List.mem_singleton] at hb; subst hb; subst e
      revert ha; decide

theorem drRest_ok (t : ExtXDateRange) (h : t.WF) :
    ∀ kv ∈ drRest t, wfKey kv.1 ∧ '\n' ∉ kv.1 ∧ ∀ v, kv.2 = some v → AttrVal v := by
  have K0 : wfKey "CLASS".toList ∧ '\n' ∉ "CLASS".toList := ⟨wfKey_lit _ (by decide) (by decide), by decide⟩
  have K1 : wfKey "START-DATE".toList ∧ '\n' ∉ "START-DATE".toList := ⟨wfKey_lit _ (by decide) (by decide), by decide⟩
  have K2 : wfKey "END-DATE".toList ∧ '\n' ∉ "END-DATE".toList := ⟨wfKey_lit _ (by decide) (by decide), by decide⟩
  have K3 : wfKey "DURATION".toList ∧ '\n' ∉ "DURATION".toList := ⟨wfKey_lit _ (by decide) (by decide), by decide⟩
  have K4 : wfKey "PLANNED-DURATION".toList ∧ '\n' ∉ "PLANNED-DURATION".toList := ⟨wfKey_lit _ (by decide) (by decide), by decide⟩
  have K5 : wfKey "SCTE35-CMD".toList ∧ '\n' ∉ "SCTE35-CMD".toList := ⟨wfKey_lit _ (by decide) (by decide), by decide⟩
  have K6 : wfKey "SCTE35-OUT".toList ∧ '\n' ∉ "SCTE35-OUT".toList := ⟨wfKey_lit _ (by decide) (by decide), by decide⟩
  have K7 : wfKey "SCTE35-IN".toList ∧ '\n' ∉ "SCTE35-IN".toList := ⟨wfKey_lit _ (by decide) (by decide), by decide⟩
  have K8 : wfKey "END-ON-NEXT".toList ∧ '\n' ∉ "END-ON-NEXT".toList := ⟨wfKey_lit _ (by decide) (by decide), by decide⟩
  have hplain : ∀ (o : Option Str), (∀ x, o = some x → plainVal x = true) → ∀ v, (o.map fun x => x) = some v → AttrVal v := by
    intro o ho v e
    cases o with
    | none => cases e
    | some x => simp only [Option.map_some, Option.some.injEq] at e; subst e; exact attrVal_plain _ (ho _ rfl)
  have hsecs : ∀ (o : Option Nat), (∀ n, o = some n → parseSecs (showSecs n) = .ok n ∧ plainVal (showSecs n) = true) →
      ∀ v, o.map showSecs = some v → AttrVal v := by
    intro o ho v e
    cases o with
    | none => cases e
    | some x => simp only [Option.map_some, Option.some.injEq] at e; subst e; exact attrVal_plain _ (ho _ rfl).2
  intro kv hkv
  simp only [drRest, List.mem_append] at hkv
  rcases hkv with hkv | hkv | hkv
  · simp only [drFixed, List.mem_cons, List.mem_nil_iff, or_false] at hkv
    rcases hkv with rfl | rfl | rfl | rfl | rfl | rfl | rfl | rfl
    · exact ⟨K0.1, K0.2, attrVal_optQuote _ h.cls⟩
    · exact ⟨K1.1, K1.2, attrVal_optQuote _ h.sd⟩
    · exact ⟨K2.1, K2.2, attrVal_optQuote _ h.ed⟩
    · exact ⟨K3.1, K3.2, hsecs _ h.dur⟩
    · exact ⟨K4.1, K4.2, hsecs _ h.pdur⟩
    · exact ⟨K5.1, K5.2, hplain _ h.cmd⟩
    · exact ⟨K6.1, K6.2, hplain _ h.out⟩
    · exact ⟨K7.1, K7.2, hplain _ h.inn⟩
  · simp only [drClient, List.mem_map] at hkv
    obtain ⟨e, he, rfl⟩ := hkv
    obtain ⟨w1, w2⟩ := clientKey_wf e.1 (h.ckeys e he)
    exact ⟨w1, w2, fun v ev => by simp only [Option.some.injEq] at ev; subst ev; exact (h.cvals e he).2⟩
  · simp only [drEon, List.mem_singleton] at hkv; subst hkv
    exact ⟨K8.1, K8.2, attrVal_flag _⟩

end Hls

namespace Hls

theorem pfxDateRange_ok : PfxOK pfxDateRange := by unfold pfxDateRange; exact pfxOK_of _ (by simp [isWs]) (by simp)

theorem drLookup_fixed (t : ExtXDateRange) (k : Str) (hk : k ∈ drFixedKeys) : lookupOpt k (drRest t) = lookupOpt k (drFixed t) :=
  lookupOpt_append_left k _ _ (by rw [drFixed_keys]; exact hk)

theorem drLookup_eon (t : ExtXDateRange) (h : t.WF) :
    lookupOpt "END-ON-NEXT".toList (drRest t) = if t.end_on_next then some "YES".toList else none := by
  unfold drRest
  rw [lookupOpt_append_right _ _ _ (by rw [drFixed_keys]; decide), lookupOpt_append_right _ _ _ (by
    rw [drClient_keys]
    intro hm
    obtain ⟨x, hx, e⟩ := List.mem_map.mp hm
    exact client_ne_plain _ (h.ckeys x hx) (by rw [e]; simp [plainNames]))]
  simp [drEon, lookupOpt]

theorem presentPairs_client (t : ExtXDateRange) :
    presentPairs (drClient t) = t.client_attributes.map fun e => (e.1, e.2.show) := by
  simp [presentPairs, drClient, List.filterMap_map, Function.comp_def]

theorem present_noX (l : List (Str × Option Str)) (h : ∀ k ∈ l.map (·.1), startsWith k "X-".toList = false) :
    ∀ kv ∈ presentPairs l, startsWith kv.1 "X-".toList = false := by
  intro kv hkv
  obtain ⟨k, v⟩ := kv
  exact h k (List.mem_map.mpr ⟨_, mem_presentPairs k v l hkv, rfl⟩)

/-- the client-attribute map the parser builds from the written form is the map that was written -/
theorem dr_client_fold (t : ExtXDateRange) (h : t.WF) :
    (("ID".toList, quote t.id) :: presentPairs (drRest t)).foldl clientStep [] = t.client_attributes := by
  simp only [List.foldl_cons]
  have h0 : clientStep [] ("ID".toList, quote t.id) = [] := by
    unfold clientStep
    have : startsWith "ID".toList "X-".toList = false := by decide
    rw [if_neg (by simp only [this]; simp)]
  rw [h0]
  simp only [drRest, presentPairs_append, List.foldl_append]
  have s1 : (presentPairs (drFixed t)).foldl clientStep [] = [] :=
    foldl_client_skip _ _ (present_noX _ (by rw [drFixed_keys]; exact fun k hk => plainNames_noX k (by simp [plainNames, hk])))
  have s2 : (presentPairs (drClient t)).foldl clientStep [] = t.client_attributes := by
    rw [presentPairs_client]
    have := foldl_client t.client_attributes [] (by simpa using h.sorted) (fun e he => (h.ckeys e he).1) h.cvals
    simpa using this
  have s3 : ∀ m, (presentPairs (drEon t)).foldl clientStep m = m := fun m =>
    foldl_client_skip _ m (present_noX _ (by
      rw [drEon_keys]
      intro k hk
      simp only [List.mem_singleton] at hk; subst hk; decide))
  rw [s1, s2, s3]

theorem dr_bad (t : ExtXDateRange) (h : t.WF) : (("ID".toList, quote t.id) :: presentPairs (drRest t)).any ExtXDateRange.bad = false := by
  apply any_presentPairs
  · simp [ExtXDateRange.bad, badAt, startsWith, List.isPrefixOf]
  · intro kv hkv v e
    simp only [drRest, List.mem_append] at hkv
    rcases hkv with hkv | hkv | hkv
    · simp only [drFixed, List.mem_cons, List.mem_nil_iff, or_false] at hkv
      rcases hkv with rfl | rfl | rfl | rfl | rfl | rfl | rfl | rfl
      · simp [ExtXDateRange.bad, badAt, startsWith, List.isPrefixOf]
      · simp [ExtXDateRange.bad, badAt, startsWith, List.isPrefixOf]
      · simp [ExtXDateRange.bad, badAt, startsWith, List.isPrefixOf]
      · cases hd : t.duration with
        | none => rw [hd] at e; cases e
        | some n =>
          rw [hd] at e; simp only [Option.map_some, Option.some.injEq] at e; subst e
          simp [ExtXDateRange.bad, badAt, startsWith, List.isPrefixOf, (h.dur n hd).1, Res.isOk]
      · cases hd : t.planned_duration with
        | none => rw [hd] at e; cases e
        | some n =>
          rw [hd] at e; simp only [Option.map_some, Option.some.injEq] at e; subst e
          simp [ExtXDateRange.bad, badAt, startsWith, List.isPrefixOf, (h.pdur n hd).1, Res.isOk]
      · simp [ExtXDateRange.bad, badAt, startsWith, List.isPrefixOf]
      · simp [ExtXDateRange.bad, badAt, startsWith, List.isPrefixOf]
      · simp [ExtXDateRange.bad, badAt, startsWith, List.isPrefixOf]
    · simp only [drClient, List.mem_map] at hkv
      obtain ⟨x, hx, rfl⟩ := hkv
      simp only [Option.some.injEq] at e; subst e
      obtain ⟨r, er⟩ := clientKey_shape x.1 (h.ckeys x hx)
      have hany := (h.ckeys x hx).2
      have hst := (h.ckeys x hx).1
      have hv := (h.cvals x hx).1
      simp only [ExtXDateRange.bad, badAt, hst, hany, hv, Res.isOk]
      rw [er]
      simp
    · simp only [drEon, List.mem_singleton] at hkv; subst hkv
      have : v = "YES".toList := by cases hd : t.end_on_next <;> simp [hd] at e; exact e.symm
      subst this
      simp [ExtXDateRange.bad, badAt, startsWith, List.isPrefixOf]

end Hls

namespace Hls

/-- **EXT-X-DATERANGE: parse (write t) = t** -/
theorem dateRange_rt (t : ExtXDateRange) (h : t.WF) : ExtXDateRange.parse t.show = .ok t := by
  have hok := drRest_ok t h
  have hn := drRest_nodup t h
  have kI : wfKey "ID".toList := wfKey_lit _ (by decide) (by decide)
  rw [dateRange_show_eq]
  obtain ⟨r1, r2⟩ := rendered_tokens pfxDateRange "ID".toList (quote t.id) (drRest t) pfxDateRange_ok kI (wfVal_q _ h.id)
    (fun kv hkv => ⟨(hok kv hkv).1, fun v e => ((hok kv hkv).2.2 v e).1⟩)
  simp only [ExtXDateRange.parse, r1, Res.bind_ok, r2, ExtXDateRange.fold_closed]
  have hidn : lookupOpt "ID".toList (drRest t) = none := by
    apply lookupOpt_none
    simp only [drRest, List.map_append, drFixed_keys, drClient_keys, drEon_keys, List.mem_append, not_or]
    refine ⟨by decide, ?_, by decide⟩
    intro hm
    obtain ⟨x, hx, e⟩ := List.mem_map.mp hm
    exact client_ne_plain _ (h.ckeys x hx) (by rw [e]; simp [plainNames])
  have f0 : lastVal "ID".toList (("ID".toList, quote t.id) :: presentPairs (drRest t)) = some (quote t.id) :=
    lastVal_first _ _ _ hn hidn
  have ffix : ∀ k, k ∈ drFixedKeys → lastVal k (("ID".toList, quote t.id) :: presentPairs (drRest t)) = lookupOpt k (drFixed t) := by
    intro k hk
    rw [lastVal_rest _ _ _ _ (by
      apply beq_false_of_ne
      intro e; subst e; revert hk; decide) hn, drLookup_fixed t k hk]
  have f1 : lastVal "CLASS".toList (("ID".toList, quote t.id) :: presentPairs (drRest t)) = (t.«class».map quote) := by
    rw [ffix _ (by decide)]; simp [drFixed, lookupOpt]
  have f2 : lastVal "START-DATE".toList (("ID".toList, quote t.id) :: presentPairs (drRest t)) = (t.start_date.map quote) := by
    rw [ffix _ (by decide)]; simp [drFixed, lookupOpt]
  have f3 : lastVal "END-DATE".toList (("ID".toList, quote t.id) :: presentPairs (drRest t)) = (t.end_date.map quote) := by
    rw [ffix _ (by decide)]; simp [drFixed, lookupOpt]
  have f4 : lastVal "DURATION".toList (("ID".toList, quote t.id) :: presentPairs (drRest t)) = (t.duration.map showSecs) := by
    rw [ffix _ (by decide)]; simp [drFixed, lookupOpt]
  have f5 : lastVal "PLANNED-DURATION".toList (("ID".toList, quote t.id) :: presentPairs (drRest t)) = (t.planned_duration.map showSecs) := by
    rw [ffix _ (by decide)]; simp [drFixed, lookupOpt]
  have f6 : lastVal "SCTE35-CMD".toList (("ID".toList, quote t.id) :: presentPairs (drRest t)) = (t.scte35_cmd.map fun x => x) := by
    rw [ffix _ (by decide)]; simp [drFixed, lookupOpt]
  have f7 : lastVal "SCTE35-OUT".toList (("ID".toList, quote t.id) :: presentPairs (drRest t)) = (t.scte35_out.map fun x => x) := by
    rw [ffix _ (by decide)]; simp [drFixed, lookupOpt]
  have f8 : lastVal "SCTE35-IN".toList (("ID".toList, quote t.id) :: presentPairs (drRest t)) = (t.scte35_in.map fun x => x) := by
    rw [ffix _ (by decide)]; simp [drFixed, lookupOpt]
  have f9 : lastVal "END-ON-NEXT".toList (("ID".toList, quote t.id) :: presentPairs (drRest t)) =
      if t.end_on_next then some "YES".toList else none := by
    rw [lastVal_rest _ _ _ _ (by decide) hn, drLookup_eon t h]
  simp only [ExtXDateRange.closed, dr_bad t h, Bool.false_eq_true, if_false, f0, f9, dr_client_fold t h, Res.bind_ok]
  rw [f1, f2, f3, f4, f5, f6, f7, f8]
  have gq : ∀ (o : Option Str), (∀ x, o = some x → Quotable x) → (o.map quote).map unquote = o := by
    intro o ho
    cases o with
    | none => rfl
    | some x => simp [unq x (ho x rfl)]
  have gp : ∀ (o : Option Str), (∀ x, o = some x → plainVal x = true) → (o.map fun x => x).map unquote = o := by
    intro o ho
    cases o with
    | none => rfl
    | some x =>
      have := unq x (quotable_plain x (ho x rfl))
      have hq : unquote x = x := by
        have hp := ho x rfl
        have hnq : ∀ c ∈ x, badQ c = false := by
          intro c hc
          have := List.all_eq_true.mp (quotable_plain x hp) c hc
          simpa using this
        unfold unquote
        have hf : x.filter (fun c => !badQ c) = x := List.filter_eq_self.mpr (fun c hc => by simp [hnq c hc])
        cases x with
        | nil => rfl
        | cons c r =>
          have hc : c ≠ '"' := by
            intro e; subst e
            have := hnq '"' (by simp)
            simp [badQ] at this
          split
          · rename_i heq; simp only [List.cons.injEq] at heq; exact absurd heq.1 hc
          · exact hf
      simp [hq]
  have gs : ∀ (o : Option Nat), (∀ n, o = some n → parseSecs (showSecs n) = .ok n ∧ plainVal (showSecs n) = true) →
      optParse parseSecs (o.map showSecs) = o := fun o ho => optParse_map _ _ _ (fun n hn' => (ho n hn').1)
  rw [gq _ h.cls, gq _ h.sd, gq _ h.ed, gs _ h.dur, gs _ h.pdur, gp _ h.cmd, gp _ h.out, gp _ h.inn]
  simp only [Option.map_some, unq _ h.id, ExtXDateRange.finish]
  obtain ⟨id, cl, sd, ed, du, pd, c1, c2, c3, eon, ca⟩ := t
  have hr := h.rules
  simp only at hr
  cases eon
  · simp
  · obtain ⟨a, b, c⟩ := hr rfl
    cases cl with
    | none => cases a
    | some x =>
      cases du with
      | some y => cases b
      | none =>
        cases ed with
        | some z => cases c
        | none => simp

end Hls

namespace Hls

theorem lineRT_dateRange (t : ExtXDateRange) (h : t.WF) : LineRT (.dateRange t) := by
  have hrt := dateRange_rt t h
  rw [dateRange_show_eq] at hrt
  have hok := drRest_ok t h
  apply lineRT_attr (.dateRange t) pfxDateRange "ID".toList (quote t.id) (drRest t) (dateRange_show_eq t) pfxDateRange_ok
  · unfold pfxDateRange; simp
  · decide
  · exact attrVal_quote _ h.id
  · exact fun kv hkv => ⟨(hok kv hkv).2.1, (hok kv hkv).2.2⟩
  · unfold pfxDateRange siPfx Generated.streamInfPrefix; simp [startsWith, List.isPrefixOf]
  · rw [classify1_ext _ (C12.ext_prefix _ _ (by unfold pfxDateRange; simp [startsWith, List.isPrefixOf])), dispatch_dateRange]
    simp only [hrt]; rfl
  · intros; simp

end Hls

namespace Hls

/-! ## what the parser guarantees, what stays a fact about floats / the valid-text domain -/

def ClientValPre : Value → Prop
  | .string s => Quotable s
  | .hex bs => ∀ b ∈ bs, b < 256
  | .float _ => True

/-- guaranteed for every date range the parser returns (`dateRange_parse_pre`) -/
structure DateRangePre (t : ExtXDateRange) : Prop where
  id : Quotable t.id
  cls : ∀ x, t.«class» = some x → Quotable x
  sd : ∀ x, t.start_date = some x → Quotable x
  ed : ∀ x, t.end_date = some x → Quotable x
  ckeys : ∀ e ∈ t.client_attributes, ClientKeyOK e.1
  cvals : ∀ e ∈ t.client_attributes, ClientValPre e.2
  sorted : KeysLt t.client_attributes
  rules : t.end_on_next = true → t.«class».isSome = true ∧ t.duration.isNone = true ∧ t.end_date.isNone = true

/-- not guaranteed by parsing alone: the decimal renderings read back (FL2 for the two durations, FL1 for
float-valued client attributes), and the SCTE35 values are plain tokens (they are hexadecimal sequences in
valid text; the parser also accepts a quoted string, which the writer would print without quotes) -/
structure DateRangeOpen (t : ExtXDateRange) : Prop where
  dur : ∀ n, t.duration = some n → parseSecs (showSecs n) = .ok n ∧ plainVal (showSecs n) = true
  pdur : ∀ n, t.planned_duration = some n → parseSecs (showSecs n) = .ok n ∧ plainVal (showSecs n) = true
  cmd : ∀ x, t.scte35_cmd = some x → plainVal x = true
  out : ∀ x, t.scte35_out = some x → plainVal x = true
  inn : ∀ x, t.scte35_in = some x → plainVal x = true
  floats : ∀ e ∈ t.client_attributes, ∀ f, e.2 = .float f → ValueRT (.float f)

theorem dateRange_wf_of (t : ExtXDateRange) (hp : DateRangePre t) (ho : DateRangeOpen t) : t.WF := by
  refine ⟨hp.id, hp.cls, hp.sd, hp.ed, ho.dur, ho.pdur, ho.cmd, ho.out, ho.inn, hp.ckeys, ?_, hp.sorted, hp.rules⟩
  intro e he
  have := hp.cvals e he
  cases hv : e.2 with
  | string s => rw [hv] at this; exact value_string_rt s this
  | hex bs => rw [hv] at this; exact value_hex_rt bs this
  | float f => exact ho.floats e he f hv

end Hls
