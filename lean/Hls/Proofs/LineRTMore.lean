import Hls.Proofs.LineRTSimple
/-!
# `LineRT` for EXT-X-MAP, EXTINF and the lines that are kept verbatim
-/
namespace Hls

/-! ## EXT-X-MAP -/

theorem map_show_eq (m : ExtXMap) :
    m.show = pfxMap ++ renderOpt "URI".toList (quote m.uri) [("BYTERANGE".toList, m.range.map fun r => quote r.show)] := by
  obtain ⟨u, r, ks⟩ := m
  cases r <;> simp [ExtXMap.show, renderOpt]

theorem quotable_plain (v : Str) (h : plainVal v = true) : Quotable v := by
  unfold Quotable
  rw [List.all_eq_true]
  intro c hc
  have := List.all_eq_true.mp h c hc
  simp only [Bool.and_eq_true, bne_iff_ne, ne_eq, Bool.not_eq_true'] at this
  have hq : c ≠ '"' := this.1.2
  have hw : isWs c = false := this.2
  have hn : c ≠ '\n' := by intro e; subst e; simp [isWs] at hw
  have hr : c ≠ '\r' := by intro e; subst e; simp [isWs] at hw
  simp [badQ, hq, hn, hr]

theorem plain_byteRange (r : ByteRange) : plainVal r.show = true := by
  unfold ByteRange.show
  cases r.start with
  | none => simpa using plain_showNat r.len
  | some s => exact plain_append _ _ (plain_showNat _) (plain_append ['@'] _ (by decide) (plain_showNat s))

theorem pfxMap_ok : PfxOK pfxMap := by unfold pfxMap; exact pfxOK_of _ (by simp [isWs]) (by simp)

/-- **EXT-X-MAP**: the written tag classifies back to the map (its key coverage is not text) -/
theorem lineRT_map (m : ExtXMap) (hu : Quotable m.uri) (hr : ∀ r, m.range = some r → r.WF) : LineRT (.map m) := by
  show '\n' ∉ m.show ∧ trim m.show = m.show ∧ m.show ≠ [] ∧ startsWith m.show siPfx = false ∧
    classify1 m.show = .ok (.map { m with keys := [] })
  rw [map_show_eq]
  have kU : wfKey "URI".toList := wfKey_lit _ (by decide) (by decide)
  have kB : wfKey "BYTERANGE".toList := wfKey_lit _ (by decide) (by decide)
  have hq : ∀ r, Quotable (ByteRange.show r) := fun r => quotable_plain _ (plain_byteRange r)
  have hrest : ∀ kv ∈ [("BYTERANGE".toList, m.range.map fun r => quote r.show)], wfKey kv.1 ∧ ∀ v, kv.2 = some v → wfVal v := by
    intro kv hkv
    simp only [List.mem_singleton] at hkv; subst hkv
    refine ⟨kB, ?_⟩
    intro v e
    cases hrg : m.range with
    | none => rw [hrg] at e; cases e
    | some r => rw [hrg] at e; simp at e; subst e; exact wfVal_q _ (hq r)
  obtain ⟨r1, r2⟩ := rendered_tokens pfxMap _ _ _ pfxMap_ok kU (wfVal_q _ hu) hrest
  obtain ⟨a, b, c⟩ := lineRT_parts pfxMap _ pfxMap_ok
    (endsOk_renderOpt "URI".toList (quote m.uri) _ (endsOk_of_wfVal _ (wfVal_q _ hu))
      (fun kv hkv v e => endsOk_of_wfVal v ((hrest kv hkv).2 v e)))
    (by unfold pfxMap; simp)
    (nl_notin_renderOpt _ _ _ (by decide) (nl_notin_quote _ hu) (fun kv hkv => by
      simp only [List.mem_singleton] at hkv; subst hkv
      refine ⟨(by show '\n' ∉ "BYTERANGE".toList; decide), ?_⟩
      intro v e
      cases hrg : m.range with
      | none => rw [hrg] at e; cases e
      | some r => rw [hrg] at e; simp at e; subst e; exact nl_notin_quote _ (hq r)))
  refine ⟨a, b, c, ?_, ?_⟩
  · unfold pfxMap siPfx Generated.streamInfPrefix; simp [startsWith, List.isPrefixOf]
  · rw [classify1_ext _ (C12.ext_prefix _ _ (by unfold pfxMap; simp [startsWith, List.isPrefixOf])), dispatch_map]
    simp only [ExtXMap.parse, r1, Res.bind_ok, r2, ExtXMap.fold_closed]
    obtain ⟨u, rg, ks⟩ := m
    simp only at hu hr
    cases rg with
    | none =>
      simp [ExtXMap.closed, ExtXMap.bad, presentPairs, lastVal, lastValQ, unq u hu, Res.map]
    | some r =>
      have hb := byteRange_roundtrip r (hr r rfl)
      simp [ExtXMap.closed, ExtXMap.bad, presentPairs, lastVal, lastValQ, unq u hu, unq _ (hq r), hb, Res.map, Res.isOk, Res.toOption]

/-! ## EXTINF -/

theorem pfxInf_ok : PfxOK pfxInf := by unfold pfxInf; exact pfxOK_of _ (by simp [isWs]) (by simp)

/-- **EXTINF**: the decimal-seconds text is produced and read by `f64` formatting / parsing; the
numerical fact needed — the written text reads back to the same nanosecond count and is a plain
decimal — is the hypothesis `hsecs` (FL2, validated by the run for durations below 10^6 s). The
title is kept as written (it has been trimmed by the parser and is not empty). -/
theorem lineRT_inf (t : ExtInf) (hsecs : parseSecs (showSecs t.duration) = .ok t.duration ∧ plainVal (showSecs t.duration) = true)
    (htitle : ∀ x, t.title = some x → trim x = x ∧ x ≠ [] ∧ '\n' ∉ x ∧ EndsOk x) : LineRT (.inf t) := by
  show '\n' ∉ t.show ∧ trim t.show = t.show ∧ t.show ≠ [] ∧ startsWith t.show siPfx = false ∧ classify1 t.show = .ok (.inf t)
  obtain ⟨hs1, hs2⟩ := hsecs
  have hcomma : ',' ∉ showSecs t.duration := by
    intro hm
    have := List.all_eq_true.mp hs2 _ hm
    simp at this
  have hshow : t.show = pfxInf ++ (showSecs t.duration ++ ',' :: t.title.getD []) := by
    simp [ExtInf.show, List.append_assoc]
  have hends : EndsOk (showSecs t.duration ++ ',' :: t.title.getD []) := by
    cases ht : t.title with
    | none =>
      simp only [Option.getD_none]
      exact endsOk_append _ [','] (by intro c r e; simp at e; rw [← e.1]; decide) (by simp)
    | some x =>
      obtain ⟨tx, ne, _, hx⟩ := htitle x ht
      simp only [Option.getD_some]
      have : EndsOk ((showSecs t.duration ++ [',']) ++ x) := endsOk_append _ x hx ne
      simpa [List.append_assoc] using this
  have hnl : '\n' ∉ showSecs t.duration ++ ',' :: t.title.getD [] := by
    intro hm
    simp only [List.mem_append, List.mem_cons] at hm
    rcases hm with hm | hm | hm
    · exact nl_notin_plain _ hs2 hm
    · exact absurd hm (by decide)
    · cases ht : t.title with
      | none => rw [ht] at hm; simp at hm
      | some x => rw [ht] at hm; exact (htitle x ht).2.2.1 hm
  rw [hshow]
  obtain ⟨a, b, c⟩ := lineRT_parts pfxInf _ pfxInf_ok hends (by unfold pfxInf; simp) hnl
  refine ⟨a, b, c, ?_, ?_⟩
  · unfold pfxInf siPfx Generated.streamInfPrefix; simp [startsWith, List.isPrefixOf]
  · rw [classify1_ext _ (C12.ext_prefix _ _ (by unfold pfxInf; simp [startsWith, List.isPrefixOf])), dispatch_inf]
    simp only [ExtInf.parse, C12.stripTag_line _ _ b, Res.bind_ok, splitN2, splitFirst_append ',' _ _ hcomma, hs1]
    obtain ⟨d, ti⟩ := t
    cases ti with
    | none => simp [trim, trimStart, trimEnd, Res.map]
    | some x =>
      obtain ⟨tx, ne, _, _⟩ := htitle x rfl
      have hne : (x.isEmpty) = false := by cases x with
        | nil => exact absurd rfl ne
        | cons _ _ => rfl
      simp [tx, hne, Res.map]

end Hls
