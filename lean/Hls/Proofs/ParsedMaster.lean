import Hls.Proofs.ParsedWF
import Hls.Proofs.MasterWrittenRT
/-!
# A parsed master playlist is in the domain of the writer: `MasterWF` from the text
-/
namespace Hls

/-! ## EXT-X-MEDIA -/

theorem lookupIdx_go_lt (names : List String) (s : Str) (i j : Nat) (h : lookupIdx.go s names i = some j) : j < i + names.length := by
  induction names generalizing i with
  | nil => cases h
  | cons n ns ih =>
    simp only [lookupIdx.go] at h
    split at h
    · simp only [Option.some.injEq] at h; subst h; simp
    · have := ih (i + 1) h; simp only [List.length_cons]; omega

theorem inStreamId_parse_lt (s : Str) (i : InStreamId) (h : InStreamId.parse s = .ok i) : i.idx < 67 := by
  simp only [InStreamId.parse, lookupIdx] at h
  split at h
  · rename_i j hj
    simp only [Res.ok.injEq] at h; subst h
    have := lookupIdx_go_lt _ _ _ _ hj
    have hl : Generated.inStreamIdNames.length = 67 := C18.inStreamId_count.1
    simp only at this ⊢; omega
  · cases h

theorem channels_parse_lt (s : Str) (c : Channels) (h : Channels.parse s = .ok c) : c.number < 2 ^ 64 := by
  simp only [Channels.parse] at h
  split at h
  · cases hp : parseNat 64 s with
    | ok n => rw [hp] at h; simp only [Res.bind_ok, Res.pure_eq, Res.ok.injEq] at h; subst h; exact parseNat_lt 64 s n hp
    | err => rw [hp] at h; cases h
    | panic => rw [hp] at h; cases h
  · rename_i c0 j _
    cases hp : parseNat 64 c0 with
    | ok n =>
      rw [hp] at h; simp only [Res.bind_ok] at h
      split at h
      · simp only [Res.pure_eq, Res.ok.injEq] at h; subst h; exact parseNat_lt 64 c0 n hp
      · cases h
    | err => rw [hp] at h; cases h
    | panic => rw [hp] at h; cases h

/-- `build` only returns values that pass `validate` again when written and re-read -/
theorem validate_mediaBuilderOf (b : ExtXMediaBuilder) (t : ExtXMedia) (h : b.build = .ok t) : (mediaBuilderOf t).validate = true := by
  obtain ⟨mt, u, g, l, al, n, d, au, fo, ins, ch, chn⟩ := b
  simp only [ExtXMediaBuilder.build] at h
  split at h
  · cases h
  · rename_i hv
    split at h
    · rename_i _ _ _ mt0 g0 n0
      simp only [Res.ok.injEq] at h; subst h
      simp only [Bool.not_eq_true', Bool.not_eq_false] at hv
      simp only [mediaBuilderOf, ExtXMediaBuilder.validate] at hv ⊢
      rcases d with _ | _ | _ <;> rcases au with _ | _ | _ <;> rcases fo with _ | _ | _ <;> cases mt0 <;> cases u <;> cases ins <;>
        simp_all
    · cases h

theorem media_parse_wf (s : Str) (t : ExtXMedia) (h : ExtXMedia.parse s = .ok t) : t.WF := by
  simp only [ExtXMedia.parse] at h
  cases hs : stripTag s pfxMedia with
  | ok r =>
    rw [hs] at h
    simp only [Res.bind_ok, ExtXMedia.fold_closed] at h
    cases hc : ExtXMedia.closed (attrPairs r) with
    | ok b =>
      rw [hc] at h
      simp only [Res.bind_ok] at h
      have hval := validate_mediaBuilderOf b t h
      simp only [ExtXMedia.closed] at hc
      split at hc
      · cases hc
      · simp only [Res.ok.injEq] at hc; subst hc
        simp only [ExtXMediaBuilder.build] at h
        split at h
        · cases h
        · split at h
          · rename_i mt0 g0 n0 e1 e2 e3
            simp only [Res.ok.injEq] at h; subst h
            refine ⟨?_, ?_, ?_, ?_, ?_, ?_, ?_, ?_, hval⟩
            · intro x e; exact quotable_mapUnquote _ x e
            · exact quotable_mapUnquote _ _ e2
            · intro x e; exact quotable_mapUnquote _ x e
            · intro x e; exact quotable_mapUnquote _ x e
            · exact quotable_mapUnquote _ _ e3
            · intro i e
              obtain ⟨v, _, hv⟩ := optParse_some _ _ _ e
              exact inStreamId_parse_lt _ i hv
            · intro x e; exact quotable_mapUnquote _ x e
            · intro c e
              obtain ⟨v, _, hv⟩ := optParse_some _ _ _ e
              exact channels_parse_lt _ c hv
          · cases h
    | err => rw [hc] at h; cases h
    | panic => rw [hc] at h; cases h
  | err => rw [hs] at h; cases h
  | panic => rw [hs] at h; cases h

end Hls

namespace Hls

/-! ## stream data, session data -/

theorem splitAll_no_sep (c : Char) (s : Str) : ∀ p ∈ splitAll c s, c ∉ p := by
  induction s with
  | nil => intro p hp; simp only [splitAll, List.mem_singleton] at hp; subst hp; simp
  | cons x xs ih =>
    intro p hp
    simp only [splitAll] at hp
    split at hp
    · rcases List.mem_cons.mp hp with rfl | hp
      · simp
      · exact ih p hp
    · rename_i hx
      split at hp
      · simp only [List.mem_singleton] at hp; subst hp
        intro hc; simp only [List.mem_singleton] at hc; subst hc; simp at hx
      · rename_i q qs hq
        rcases List.mem_cons.mp hp with rfl | hp
        · intro hc
          rcases List.mem_cons.mp hc with e | hc
          · subst e; simp at hx
          · exact ih q (by rw [hq]; simp) hc
        · exact ih p (by rw [hq]; simp [hp])

theorem join_splitAll (c : Char) (s : Str) : joinWith [c] (splitAll c s) = s := by
  induction s with
  | nil => rfl
  | cons x xs ih =>
    simp only [splitAll]
    split
    · rename_i hx
      have hx := eq_of_beq hx; subst hx
      cases hsp : splitAll x xs with
      | nil => exact absurd hsp (splitAll_ne_nil x xs)
      | cons p ps => rw [hsp] at ih; simp only [joinWith, List.nil_append, List.singleton_append, ih]
    · cases hsp : splitAll c xs with
      | nil => exact absurd hsp (splitAll_ne_nil c xs)
      | cons p ps =>
        rw [hsp] at ih
        simp only
        cases ps with
        | nil => simp only [joinWith] at ih ⊢; rw [ih]
        | cons q qs => simp only [joinWith, List.cons_append] at ih ⊢; rw [ih]

theorem resolution_parse_lt (s : Str) (r : Resolution) (h : Resolution.parse s = .ok r) : r.width < 2 ^ 64 ∧ r.height < 2 ^ 64 := by
  simp only [Resolution.parse] at h
  split at h
  · rename_i wv hs hw _
    split at h
    · rename_i hv hh
      simp only [Res.ok.injEq] at h; subst h
      exact ⟨parseNat_lt 64 (splitN2 'x' s).fst wv (by simp only [parseNat, hw, Res.ofOpt]),
        parseNat_lt 64 hs hv (by simp only [parseNat, hh, Res.ofOpt])⟩
    · cases h
  · cases h

theorem streamData_parse_wf (r : Str) (d : StreamData) (h : StreamData.parse r = .ok d) : d.WF := by
  simp only [StreamData.parse, StreamData.fold_closed] at h
  cases hc : StreamData.closed (attrPairs r) with
  | ok a =>
    rw [hc] at h
    simp only [Res.bind_ok, StreamData.finish] at h
    split at h
    · rename_i b hb
      simp only [Res.ok.injEq] at h; subst h
      simp only [StreamData.closed] at hc
      split at hc
      · cases hc
      · simp only [Res.ok.injEq] at hc; subst hc
        simp only at hb
        refine ⟨?_, ?_, ?_, ?_, ?_⟩
        · obtain ⟨v, _, hv⟩ := optParse_some _ _ _ hb; exact parseNat_lt 64 v b hv
        · intro n e; obtain ⟨v, _, hv⟩ := optParse_some _ _ _ e; exact parseNat_lt 64 v n hv
        · intro c e
          simp only at e
          cases hl : lastVal "CODECS".toList (attrPairs r) with
          | none => rw [hl] at e; cases e
          | some v =>
            rw [hl] at e
            simp only [Option.map_some, Option.some.injEq] at e; subst e
            refine ⟨splitAll_ne_nil _ _, splitAll_no_sep _ _, ?_⟩
            simp only [Codecs.parse, Codecs.show, join_splitAll]
            exact quotable_unquote v
        · intro rs e; obtain ⟨v, _, hv⟩ := optParse_some _ _ _ e; exact resolution_parse_lt v rs hv
        · intro x e; exact quotable_mapUnquote _ x e
    · cases h
  | err => rw [hc] at h; cases h
  | panic => rw [hc] at h; cases h

theorem sessionData_parse_wf (s : Str) (t : ExtXSessionData) (h : ExtXSessionData.parse s = .ok t) : t.WF := by
  simp only [ExtXSessionData.parse] at h
  cases hs : stripTag s pfxSessionData with
  | ok r =>
    rw [hs] at h
    simp only [Res.bind_ok, ExtXSessionData.fold_closed] at h
    cases hc : ExtXSessionData.closed (attrPairs r) with
    | ok a =>
      rw [hc] at h
      simp only [Res.bind_ok, ExtXSessionData.finish] at h
      simp only [ExtXSessionData.closed] at hc
      split at hc
      · cases hc
      · simp only [Res.ok.injEq] at hc; subst hc
        split at h
        · cases h
        · rename_i id hid
          split at h
          · cases h
          · rename_i v hv hu
            simp only [Res.ok.injEq] at h; subst h
            exact ⟨quotable_mapUnquote _ _ hid, fun x e => (by cases e; exact quotable_mapUnquote _ _ hv), fun x e => (by cases e),
              fun l e => quotable_mapUnquote _ l e⟩
          · rename_i u hv hu
            simp only [Res.ok.injEq] at h; subst h
            exact ⟨quotable_mapUnquote _ _ hid, fun x e => (by cases e), fun x e => (by cases e; exact quotable_mapUnquote _ _ hu),
              fun l e => quotable_mapUnquote _ l e⟩
          · cases h
    | err => rw [hc] at h; cases h
    | panic => rw [hc] at h; cases h
  | err => rw [hs] at h; cases h
  | panic => rw [hs] at h; cases h

end Hls

namespace Hls

/-! ## the two STREAM-INF tags -/

def VariantPre : VariantStream → Prop
  | .extXIFrame uri d => Quotable uri ∧ d.WF
  | .extXStreamInf uri _ au su cc d => ('\n' ∉ uri ∧ trim uri = uri ∧ uri ≠ []) ∧ (∀ x, au = some x → Quotable x) ∧
      (∀ x, su = some x → Quotable x) ∧ (∀ g, cc = some (.groupId g) → Quotable g) ∧ d.WF

theorem firstUri_quotable (ps : List (Str × Str)) (u : Str) (h : firstUri ps = some u) : Quotable u := by
  induction ps with
  | nil => cases h
  | cons kv rest ih =>
    obtain ⟨k, v⟩ := kv
    simp only [firstUri] at h
    split at h
    · simp only [Option.some.injEq] at h; subst h; exact quotable_unquote v
    · exact ih h

theorem head_of_trimmed (l : Str) (h : trim l = l) : ∀ c r, l = c :: r → isWs c = false := by
  intro c r e
  obtain ⟨w, _, hw⟩ := trimEnd_split (trimStart l)
  have h' : trimEnd (trimStart l) = c :: r := by unfold trim at h; rw [h]; exact e
  rw [h'] at hw
  exact head_dropWhile isWs l c (r ++ w) (by unfold trimStart at hw; simpa using hw)

theorem lines_nonl_short (r : Str) (h : '\n' ∉ r) : ∀ a b rest, lines r ≠ a :: b :: rest := by
  intro a b rest e
  unfold lines at e
  rw [sil_nonl r h] at e
  split at e <;> simp at e

theorem variant_fields_pre (first uri : Str) (d : StreamData) (hd : StreamData.parse first = .ok d) (a : StreamInfAcc)
    (ha : foldRes StreamInf.step {} (attrPairs first) = .ok a) (hu : '\n' ∉ uri ∧ trim uri = uri ∧ uri ≠ []) :
    VariantPre (.extXStreamInf uri a.frame_rate a.audio a.subtitles a.closed_captions d) := by
  rw [StreamInf.fold_closed] at ha
  simp only [StreamInf.closed] at ha
  split at ha
  · cases ha
  · simp only [Res.ok.injEq] at ha; subst ha
    refine ⟨hu, fun x e => quotable_mapUnquote _ x e, fun x e => quotable_mapUnquote _ x e, ?_, streamData_parse_wf first d hd⟩
    intro g e
    simp only at e
    cases hl : lastVal "CLOSED-CAPTIONS".toList (attrPairs first) with
    | none => rw [hl] at e; cases e
    | some v =>
      rw [hl] at e
      simp only [Option.map_some, Option.some.injEq, ClosedCaptions.parse] at e
      split at e
      · cases e
      · simp only [ClosedCaptions.groupId.injEq] at e; subst e; exact quotable_unquote v

/-- a variant parsed from ONE raw line is an I-FRAME-STREAM-INF in the domain of its round trip -/
theorem variant_parse_single (s : Str) (v : VariantStream) (hs : RawOK s) (h : VariantStream.parse s = .ok v) : VariantPre v := by
  simp only [VariantStream.parse] at h
  split at h
  · rename_i r hr
    split at h
    · cases h
    · rename_i uri hu
      cases hd : StreamData.parse r with
      | ok d =>
        rw [hd] at h
        simp only [Res.bind_ok, Res.pure_eq, Res.ok.injEq] at h; subst h
        exact ⟨firstUri_quotable _ uri hu, streamData_parse_wf r d hd⟩
      | err => rw [hd] at h; cases h
      | panic => rw [hd] at h; cases h
  · split at h
    · rename_i r hr
      obtain ⟨_, hnl, _⟩ := stripTag_raw s pfxStreamInf r hs hr
      split at h
      · rename_i first uri rest hl
        exact absurd hl (lines_nonl_short r hnl first uri rest)
      · cases h
    · cases h

theorem siPfx_eq : siPfx = pfxStreamInf := rfl

/-- a variant parsed from a STREAM-INF line and the raw line behind it -/
theorem variant_parse_pair (l u : Str) (v : VariantStream) (hl : RawOK l) (hu : RawOK u) (hsi : startsWith l siPfx = true)
    (h : VariantStream.parse (l ++ ['\n'] ++ u) = .ok v) : VariantPre v := by
  -- l = prefix ++ l'
  have hp : pfxStreamInf <+: l := by rw [← List.isPrefixOf_iff_prefix, ← siPfx_eq]; exact hsi
  obtain ⟨l', rfl⟩ := hp
  have hnl' : '\n' ∉ l' := fun hc => hl.1 (List.mem_append_right _ hc)
  have hel' : EndsOk l' := by
    have := endsOk_drop _ pfxStreamInf.length (endsOk_of_trim _ hl.2.1)
    simpa using this
  have hs : pfxStreamInf ++ l' ++ ['\n'] ++ u = pfxStreamInf ++ (l' ++ '\n' :: u) := by simp
  rw [hs] at h
  have htrim : trim (pfxStreamInf ++ (l' ++ '\n' :: u)) = pfxStreamInf ++ (l' ++ '\n' :: u) := by
    apply trim_tag_line pfxStreamInf _ pfxStreamInf_ok.1 pfxStreamInf_ok.2.1 _ pfxStreamInf_ok.2.2
    have : l' ++ '\n' :: u = (l' ++ ['\n']) ++ u := by simp
    rw [this]
    exact endsOk_append _ _ (endsOk_of_trim u hu.2.1) hu.2.2
  have hif : stripTag (pfxStreamInf ++ (l' ++ '\n' :: u)) pfxIFrameStreamInf = .err := by
    simp only [stripTag, htrim]
    unfold pfxStreamInf pfxIFrameStreamInf
    simp [startsWith, List.isPrefixOf]
  have hst := C12.stripTag_line pfxStreamInf (l' ++ '\n' :: u) htrim
  have hlines := lines_two l' u hnl' hel' hu.1 hu.2.2
  simp only [VariantStream.parse, hif, hst, hlines] at h
  cases ha : foldRes StreamInf.step {} (attrPairs l') with
  | ok a =>
    rw [ha] at h
    simp only [Res.bind_ok] at h
    cases hd : StreamData.parse l' with
    | ok d =>
      rw [hd] at h
      simp only [Res.bind_ok, Res.pure_eq, Res.ok.injEq] at h; subst h
      exact variant_fields_pre l' u d hd a ha hu
    | err => rw [hd] at h; cases h
    | panic => rw [hd] at h; cases h
  | err => rw [ha] at h; cases h
  | panic => rw [ha] at h; cases h

end Hls

namespace Hls

/-! ## every typed line of a text, master kinds -/

def MLineWF : Line → Prop
  | .media m => m.WF
  | .variant v => VariantPre v
  | .sessionData t => t.WF
  | .sessionKey k => k.WF
  | _ => True

theorem arm_mmap {α} (parse : Str → Res α) (ctor : α → Line)
    (h : ∀ s a, parse s = .ok a → RawOK s → MLineWF (ctor a)) :
    ∀ s x, (parse s).map ctor = .ok x → RawOK s → MLineWF x := by
  intro s x hx hs
  rw [C05.Res.map_eq_ok] at hx
  obtain ⟨a, ha, rfl⟩ := hx
  exact h s a ha hs

theorem classify1_mlineWF (l : Str) (x : Line) (hl : RawOK l) (h : classify1 l = .ok x) : MLineWF x := by
  refine classify1_ind (fun s x => RawOK s → MLineWF x) ?_ (fun _ _ => trivial) (fun _ _ => trivial) (fun _ _ _ => trivial) l x h hl
  simp only [tagParsers, C05.AllArms]
  refine ⟨arm_mmap _ _ (fun _ _ _ _ => trivial), arm_mmap _ _ (fun _ _ _ _ => trivial), arm_mmap _ _ (fun _ _ _ _ => trivial),
    arm_mmap _ _ (fun _ _ _ _ => trivial), arm_mmap _ _ (fun _ _ _ _ => trivial), arm_mmap _ _ (fun _ _ _ _ => trivial),
    arm_mmap _ _ (fun _ _ _ _ => trivial), arm_mmap _ _ (fun _ _ _ _ => trivial), arm_mmap _ _ (fun _ _ _ _ => trivial),
    arm_mmap _ _ (fun _ _ _ _ => trivial), arm_mmap _ _ (fun _ _ _ _ => trivial), arm_mmap _ _ (fun _ _ _ _ => trivial),
    arm_mmap _ _ (fun _ _ _ _ => trivial), arm_mmap _ _ (fun _ _ _ _ => trivial), arm_mmap _ _ ?media, arm_mmap _ _ ?variant,
    arm_mmap _ _ ?sd, arm_mmap _ _ ?sk, arm_mmap _ _ (fun _ _ _ _ => trivial), arm_mmap _ _ (fun _ _ _ _ => trivial), trivial⟩
  case media => intro s a h _; exact media_parse_wf s a h
  case variant => intro s a h hs; exact variant_parse_single s a hs h
  case sd => intro s a h _; exact sessionData_parse_wf s a h
  case sk =>
    intro s a h _
    simp only [ExtXSessionKey.parse] at h
    cases hst : stripTag s pfxSessionKey with
    | ok r => rw [hst] at h; exact decryptionKey_parse_wf r a h
    | err => rw [hst] at h; cases h
    | panic => rw [hst] at h; cases h

theorem text_lines_mgood (s : Str) (ls : List Line) (h : lineItems s = ls.map Res.ok) : ∀ x ∈ ls, MLineWF x ∧ VerbRT x := by
  intro x hx
  have hraw := rawLines_ok s
  have hm : Res.ok x ∈ items (rawLines s) := by
    unfold lineItems at h; rw [h]; exact List.mem_map.mpr ⟨_, hx, rfl⟩
  rcases items_origin (rawLines s) x hm with ⟨l, hl, hsi, hc⟩ | ⟨l, u, v, hl, hu, hsi, hp, rfl⟩
  · exact ⟨classify1_mlineWF l x (hraw l hl) hc, classify1_verbatim l x (hraw l hl) hsi hc⟩
  · exact ⟨variant_parse_pair l u v (hraw l hl) (hraw u hu) hsi hp, trivial⟩

/-- what the text cannot guarantee by itself: two facts about Rust's float formatting — the
EXT-X-START offset reads back (FL1) and the three-decimal FRAME-RATE reads back -/
structure MasterOpen (p : MasterPlaylist) : Prop where
  start : ∀ s, p.start = some s → FloatRT s.time_offset
  frame : ∀ uri fr au su cc d, VariantStream.extXStreamInf uri fr au su cc d ∈ p.variant_streams → ∀ f, fr = some f → FrameRateRT f

/-- everything the master state holds was carried by a line of `L` -/
def MSub (L : List Line) (st : MState) : Prop :=
  (∀ m ∈ st.media, Line.media m ∈ L) ∧ (∀ v ∈ st.variant_streams, Line.variant v ∈ L) ∧
  (∀ t ∈ st.session_data, Line.sessionData t ∈ L) ∧ (∀ k ∈ st.session_keys, Line.sessionKey k ∈ L) ∧
  (∀ u ∈ st.unknown_tags, Line.unknown u ∈ L)

theorem msub_step (L : List Line) (st st' : MState) (l : Line) (hl : l ∈ L) (hi : MSub L st) (h : masterStep st l = .ok st') :
    MSub L st' := by
  obtain ⟨i1, i2, i3, i4, i5⟩ := hi
  cases l <;> simp only [masterStep] at h
  case media m =>
    simp only [Res.ok.injEq] at h; subst h
    exact ⟨fun x hx => by rcases List.mem_append.mp hx with hx | hx
                          · exact i1 x hx
                          · simp only [List.mem_singleton] at hx; subst hx; exact hl, i2, i3, i4, i5⟩
  case variant v =>
    simp only [Res.ok.injEq] at h; subst h
    exact ⟨i1, fun x hx => by rcases List.mem_append.mp hx with hx | hx
                              · exact i2 x hx
                              · simp only [List.mem_singleton] at hx; subst hx; exact hl, i3, i4, i5⟩
  case sessionData t =>
    simp only [Res.ok.injEq] at h; subst h
    exact ⟨i1, i2, fun x hx => by rcases List.mem_append.mp hx with hx | hx
                                  · exact i3 x hx
                                  · simp only [List.mem_singleton] at hx; subst hx; exact hl, i4, i5⟩
  case sessionKey k =>
    simp only [Res.ok.injEq] at h; subst h
    exact ⟨i1, i2, i3, fun x hx => by rcases List.mem_append.mp hx with hx | hx
                                      · exact i4 x hx
                                      · simp only [List.mem_singleton] at hx; subst hx; exact hl, i5⟩
  case unknown u =>
    simp only [Res.ok.injEq] at h; subst h
    exact ⟨i1, i2, i3, i4, fun x hx => by rcases List.mem_append.mp hx with hx | hx
                                          · exact i5 x hx
                                          · simp only [List.mem_singleton] at hx; subst hx; exact hl⟩
  all_goals first
    | (simp only [Res.ok.injEq] at h; subst h; exact ⟨i1, i2, i3, i4, i5⟩)
    | (cases h)

theorem msub_fold (L : List Line) (ls : List Line) (st st' : MState) (hs : ∀ l ∈ ls, l ∈ L) (hi : MSub L st)
    (h : foldRes masterStep st ls = .ok st') : MSub L st' := by
  induction ls generalizing st with
  | nil => simp only [foldRes, Res.ok.injEq] at h; subst h; exact hi
  | cons l rest ih =>
    simp only [foldRes] at h
    cases hst : masterStep st l with
    | ok t =>
      rw [hst] at h
      exact ih t (fun x hx => hs x (by simp [hx])) (msub_step L st t l (hs l (by simp)) hi hst) h
    | err => rw [hst] at h; cases h
    | panic => rw [hst] at h; cases h

theorem assembled_members (ls : List Line) (p : MasterPlaylist) (h : assembleMaster ls = .ok p) :
    (∀ m ∈ p.media, Line.media m ∈ ls) ∧ (∀ v ∈ p.variant_streams, Line.variant v ∈ ls) ∧
    (∀ t ∈ p.session_data, Line.sessionData t ∈ ls) ∧ (∀ k ∈ p.session_keys, Line.sessionKey k ∈ ls) ∧
    (∀ u ∈ p.unknown_tags, Line.unknown u ∈ ls) := by
  unfold assembleMaster at h
  cases hf : foldRes masterStep {} ls with
  | ok st =>
    rw [hf] at h
    have hi := msub_fold ls ls {} st (fun _ hx => hx)
      ⟨fun _ hx => (by cases hx), fun _ hx => (by cases hx), fun _ hx => (by cases hx), fun _ hx => (by cases hx),
       fun _ hx => (by cases hx)⟩ hf
    simp only [masterFinish, MasterPlaylistBuilder.build] at h
    split at h
    · cases h
    · simp only [Res.ok.injEq] at h; subst h
      exact hi
  | err => rw [hf] at h; cases h
  | panic => rw [hf] at h; cases h

/-- **every master playlist assembled from the lines of a text is in the writer's domain** -/
theorem assembled_masterWF (ls : List Line) (p : MasterPlaylist) (h : assembleMaster ls = .ok p)
    (hg : ∀ x ∈ ls, MLineWF x ∧ VerbRT x) (ho : MasterOpen p) : MasterWF p := by
  obtain ⟨e1, e2, e3, e4, e5⟩ := assembled_members ls p h
  refine ⟨fun m hm => (hg _ (e1 m hm)).1, ?_, fun t ht => (hg _ (e3 t ht)).1, fun k hk => (hg _ (e4 k hk)).1, ho.start,
    fun u hu => (hg _ (e5 u hu)).2⟩
  intro v hv
  have pre := (hg _ (e2 v hv)).1
  cases v with
  | extXIFrame uri d => exact pre
  | extXStreamInf uri fr au su cc d =>
    obtain ⟨a, b, c, d', e'⟩ := pre
    exact ⟨a, ho.frame uri fr au su cc d hv, b, c, d', e'⟩

end Hls
