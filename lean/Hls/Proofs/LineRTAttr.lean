import Hls.Proofs.LineRTMore
/-!
# `LineRT` for attribute-list tags, generically; EXT-X-START
-/
namespace Hls

/-- a value that can stand in a written attribute list -/
def AttrVal (v : Str) : Prop := wfVal v ∧ '\n' ∉ v

theorem attrVal_plain (v : Str) (h : plainVal v = true) : AttrVal v := ⟨wfVal_plain v h, nl_notin_plain v h⟩
theorem attrVal_quote (x : Str) (h : Quotable x) : AttrVal (quote x) := ⟨wfVal_q x h, nl_notin_quote x h⟩

/-- the line-shape part of `LineRT` for `pfx ++ k0=v0,k=v,…` -/
theorem lineRT_attr (l : Line) (pfx k0 v0 : Str) (rest : List (Str × Option Str))
    (hr : l.render = pfx ++ renderOpt k0 v0 rest) (hp : PfxOK pfx) (hnp : '\n' ∉ pfx) (hk0 : '\n' ∉ k0)
    (hv0 : AttrVal v0) (hrest : ∀ kv ∈ rest, '\n' ∉ kv.1 ∧ ∀ v, kv.2 = some v → AttrVal v)
    (hsi : startsWith (pfx ++ renderOpt k0 v0 rest) siPfx = false)
    (hc : classify1 (pfx ++ renderOpt k0 v0 rest) = .ok l.norm)
    (hnv : ∀ uri fr au su cc d, l ≠ .variant (.extXStreamInf uri fr au su cc d)) : LineRT l := by
  obtain ⟨a, b, c⟩ := lineRT_parts pfx (renderOpt k0 v0 rest) hp
    (endsOk_renderOpt k0 v0 rest (endsOk_of_wfVal _ hv0.1) (fun kv hkv v e => endsOk_of_wfVal v ((hrest kv hkv).2 v e).1))
    hnp (nl_notin_renderOpt k0 v0 rest hk0 hv0.2 (fun kv hkv => ⟨(hrest kv hkv).1, fun v e => ((hrest kv hkv).2 v e).2⟩))
  have core : '\n' ∉ l.render ∧ trim l.render = l.render ∧ l.render ≠ [] ∧ startsWith l.render siPfx = false ∧
      classify1 l.render = .ok l.norm := by
    rw [hr]; exact ⟨a, b, c, hsi, hc⟩
  cases l with
  | variant v =>
    cases v with
    | extXIFrame u d => exact core
    | extXStreamInf uri fr au su cc d => exact absurd rfl (hnv uri fr au su cc d)
  | _ => exact core

/-! ## EXT-X-START -/

theorem pfxStart_ok : PfxOK pfxStart := by unfold pfxStart; exact pfxOK_of _ (by simp [isWs]) (by simp)

theorem start_show_eq (t : ExtXStart) :
    t.show = pfxStart ++ renderOpt "TIME-OFFSET".toList t.time_offset.show
      [("PRECISE".toList, if t.is_precise then some "YES".toList else none)] := by
  obtain ⟨f, p⟩ := t
  cases p <;> simp [ExtXStart.show, renderOpt]

/-- what is needed of Rust's `f32` formatting: the written decimal is an unquoted token that `f32::from_str`
reads back to the same bits (FL1 in the trusted base; validated over all 2^32 patterns by the C18 sweep) -/
def FloatRT (f : Float32) : Prop := Float32.parseFloat f.show = .ok f ∧ plainVal f.show = true

theorem start_tokens (t : ExtXStart) (hf : FloatRT t.time_offset) :
    stripTag t.show pfxStart = .ok (renderOpt "TIME-OFFSET".toList t.time_offset.show
      [("PRECISE".toList, if t.is_precise then some "YES".toList else none)]) ∧
    attrPairs (renderOpt "TIME-OFFSET".toList t.time_offset.show
      [("PRECISE".toList, if t.is_precise then some "YES".toList else none)]) =
      ("TIME-OFFSET".toList, t.time_offset.show) ::
        presentPairs [("PRECISE".toList, if t.is_precise then some "YES".toList else none)] := by
  rw [start_show_eq]
  have kT : wfKey "TIME-OFFSET".toList := wfKey_lit _ (by decide) (by decide)
  have kP : wfKey "PRECISE".toList := wfKey_lit _ (by decide) (by decide)
  apply rendered_tokens pfxStart _ _ _ pfxStart_ok kT (wfVal_plain _ hf.2)
  intro kv hkv
  simp only [List.mem_singleton] at hkv; subst hkv
  refine ⟨kP, ?_⟩
  intro v e
  split at e
  · simp only [Option.some.injEq] at e; subst e; exact wfVal_plain _ (by decide)
  · cases e

/-- **EXT-X-START: parse (write t) = t** -/
theorem start_rt (t : ExtXStart) (hf : FloatRT t.time_offset) : ExtXStart.parse t.show = .ok t := by
  obtain ⟨r1, r2⟩ := start_tokens t hf
  simp only [ExtXStart.parse, r1, Res.bind_ok, r2, ExtXStart.fold_closed]
  obtain ⟨f, p⟩ := t
  simp only at hf
  cases p
  · simp [ExtXStart.closed, ExtXStart.bad, badAt, presentPairs, lastVal, lastValQ, optParse, hf.1, Res.isOk, Res.toOption]
  · simp [ExtXStart.closed, ExtXStart.bad, badAt, presentPairs, lastVal, lastValQ, optParse, hf.1, Res.isOk, Res.toOption, parseYesNo]

theorem lineRT_start (t : ExtXStart) (hf : FloatRT t.time_offset) : LineRT (.start t) := by
  have hrt := start_rt t hf
  rw [start_show_eq] at hrt
  apply lineRT_attr (.start t) pfxStart "TIME-OFFSET".toList t.time_offset.show
    [("PRECISE".toList, if t.is_precise then some "YES".toList else none)] (start_show_eq t) pfxStart_ok
  · unfold pfxStart; simp
  · decide
  · exact attrVal_plain _ hf.2
  · intro kv hkv
    simp only [List.mem_singleton] at hkv; subst hkv
    refine ⟨(by show '\n' ∉ "PRECISE".toList; decide), ?_⟩
    intro v e
    split at e
    · simp only [Option.some.injEq] at e; subst e; exact attrVal_plain _ (by decide)
    · cases e
  · unfold pfxStart siPfx Generated.streamInfPrefix; simp [startsWith, List.isPrefixOf]
  · rw [classify1_ext _ (C12.ext_prefix _ _ (by unfold pfxStart; simp [startsWith, List.isPrefixOf])), dispatch_start]
    simp only [hrt]; rfl
  · intros; simp

end Hls
