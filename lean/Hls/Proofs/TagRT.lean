import Hls.Proofs.AttrFold
import Hls.Proofs.Attr
import Hls.Proofs.DispatchAt
import Hls.Proofs.Render
import Hls.Props.C12
import Hls.Props.C18
/-!
# Writing a tag and reading it back: generic machinery for attribute-list tags

The writers print `NAME=value` pairs separated by commas: a first attribute that is always
present, then optional ones (`renderOpt`).  The tokenizer returns exactly the present pairs
(`attrPairs_renderOpt`), and since every name occurs once the closed forms of
`Proofs/AttrFold.lean` reduce to a table look-up (`lastVal_present`).
-/
namespace Hls

/-- text of an attribute list: first attribute always present, the others optional -/
def renderOpt (k0 v0 : Str) (rest : List (Str × Option Str)) : Str :=
  k0 ++ '=' :: v0 ++ rest.flatMap fun kv => match kv.2 with
    | some v => ',' :: kv.1 ++ '=' :: v
    | none => []

def presentPairs (rest : List (Str × Option Str)) : List (Str × Str) :=
  rest.filterMap fun kv => kv.2.map fun v => (kv.1, v)

def plainPair (kv : Str × Str) : PaddedPair := { k := kv.1, v := kv.2 }

theorem plain_render (kv : Str × Str) : (plainPair kv).render = kv.1 ++ '=' :: kv.2 := by
  simp [plainPair, PaddedPair.render]

theorem renderPadded_cons' (p : PaddedPair) (ps : List PaddedPair) :
    renderPadded (p :: ps) = p.render ++ ps.flatMap fun q => ',' :: q.render := by
  induction ps generalizing p with
  | nil => simp [renderPadded]
  | cons q rest ih => simp only [renderPadded, ih q, List.flatMap_cons, List.cons_append]

theorem renderOpt_eq (k0 v0 : Str) (rest : List (Str × Option Str)) :
    renderOpt k0 v0 rest = renderPadded (plainPair (k0, v0) :: (presentPairs rest).map plainPair) := by
  rw [renderPadded_cons', plain_render]
  simp only [renderOpt, List.append_assoc, List.cons_append]
  congr 2
  induction rest with
  | nil => rfl
  | cons kv r ih =>
    obtain ⟨k, o⟩ := kv
    cases o with
    | none => simpa [presentPairs, List.filterMap_cons] using ih
    | some v =>
      simp only [List.flatMap_cons, presentPairs, List.filterMap_cons, Option.map_some, List.map_cons, plain_render] at ih ⊢
      have ih2 := List.append_cancel_left ih
      rw [ih2]

/-- **the tokenizer on a written attribute list** -/
theorem attrPairs_renderOpt (k0 v0 : Str) (rest : List (Str × Option Str)) (hk0 : wfKey k0) (hv0 : wfVal v0)
    (hrest : ∀ kv ∈ rest, wfKey kv.1 ∧ ∀ v, kv.2 = some v → wfVal v) :
    attrPairs (renderOpt k0 v0 rest) = (k0, v0) :: presentPairs rest := by
  rw [renderOpt_eq, attrPairs_render]
  · simp [plainPair, List.map_map, Function.comp_def]
  · intro p hp
    simp only [List.mem_cons, List.mem_map] at hp
    rcases hp with rfl | ⟨kv, hkv, rfl⟩
    · exact ⟨hk0, hv0, rfl, rfl, rfl, rfl⟩
    · simp only [presentPairs, List.mem_filterMap] at hkv
      obtain ⟨kv0, h0, e⟩ := hkv
      obtain ⟨a, b⟩ := hrest kv0 h0
      cases ho : kv0.2 with
      | none => rw [ho] at e; cases e
      | some v =>
        rw [ho] at e; simp only [Option.map_some, Option.some.injEq] at e; subst e
        exact ⟨a, b v ho, rfl, rfl, rfl, rfl⟩

/-- the optional value written for name `k` -/
def lookupOpt (k : Str) : List (Str × Option Str) → Option Str
  | [] => none
  | (k', o) :: r => if k' == k then o else lookupOpt k r

theorem lastValQ_cons (k : Str) (q : Str → Bool) (kv : Str × Str) (ps : List (Str × Str)) :
    lastValQ k q (kv :: ps) = (lastValQ k q ps).or (if kv.1 == k && q kv.2 then some kv.2 else none) := by
  simp only [lastValQ, List.foldl_cons]
  exact lastValQ_acc k q ps _

theorem lastValQ_absent (k : Str) (q : Str → Bool) (ps : List (Str × Str)) (h : ∀ kv ∈ ps, kv.1 ≠ k) : lastValQ k q ps = none := by
  induction ps with
  | nil => rfl
  | cons kv r ih =>
    rw [lastValQ_cons, ih (fun kv' h' => h kv' (by simp [h']))]
    have : (kv.1 == k) = false := by simpa using h kv (by simp)
    simp [this]

/-- with every name written once, "the last value for `k`" is the table entry for `k` -/
theorem lastValQ_present (k : Str) (q : Str → Bool) (rest : List (Str × Option Str)) (hn : (rest.map (·.1)).Nodup) :
    lastValQ k q (presentPairs rest) = (lookupOpt k rest).filter q := by
  induction rest with
  | nil => rfl
  | cons kv r ih =>
    obtain ⟨k', o⟩ := kv
    simp only [List.map_cons, List.nodup_cons, List.mem_map, not_exists, not_and] at hn
    have ih' := ih hn.2
    by_cases hk : (k' == k) = true
    · have e := eq_of_beq hk; subst e
      have habs : lastValQ k' q (presentPairs r) = none := by
        apply lastValQ_absent
        intro kv hkv e
        simp only [presentPairs, List.mem_filterMap] at hkv
        obtain ⟨kv0, h0, e0⟩ := hkv
        cases ho : kv0.2 with
        | none => rw [ho] at e0; cases e0
        | some v =>
          rw [ho] at e0; simp only [Option.map_some, Option.some.injEq] at e0; subst e0
          exact hn.1 kv0 h0 e
      cases o with
      | none =>
        simp only [presentPairs, List.filterMap_cons, Option.map_none, lookupOpt, beq_self_eq_true, if_true]
        exact habs
      | some v =>
        simp only [presentPairs, List.filterMap_cons, Option.map_some, lookupOpt, beq_self_eq_true, if_true]
        rw [lastValQ_cons]
        have habs' : lastValQ k' q (List.filterMap (fun kv => Option.map (fun v => (kv.fst, v)) kv.snd) r) = none := habs
        rw [habs']
        simp [Option.filter]
    · have hk' : (k' == k) = false := by simpa using hk
      cases o with
      | none => simpa [presentPairs, List.filterMap_cons, lookupOpt, hk'] using ih'
      | some v =>
        simp only [presentPairs, List.filterMap_cons, Option.map_some, lookupOpt, hk', Bool.false_eq_true, if_false]
        rw [lastValQ_cons]
        simp only [hk', Bool.false_and, Bool.false_eq_true, if_false, Option.or_none]
        exact ih'

theorem lastVal_present (k : Str) (rest : List (Str × Option Str)) (hn : (rest.map (·.1)).Nodup) :
    lastVal k (presentPairs rest) = lookupOpt k rest := by
  unfold lastVal
  rw [lastValQ_present k _ rest hn]
  cases lookupOpt k rest <;> rfl

theorem lastVal_cons_ne (k k0 v0 : Str) (ps : List (Str × Str)) (h : (k0 == k) = false) :
    lastVal k ((k0, v0) :: ps) = lastVal k ps := by
  unfold lastVal; rw [lastValQ_cons]; simp [h]

theorem lastVal_cons_eq (k v0 : Str) (ps : List (Str × Str)) (h : lastVal k ps = none) :
    lastVal k ((k, v0) :: ps) = some v0 := by
  unfold lastVal at h ⊢; rw [lastValQ_cons, h]; simp

/-- a field parsed from what was written for it -/
theorem optParse_map {α} (f : Str → Res α) (g : α → Str) (o : Option α) (h : ∀ x, o = some x → f (g x) = .ok x) :
    optParse f (o.map g) = o := by
  cases o with
  | none => rfl
  | some x => simp [optParse, h x rfl, Res.toOption]

/-! ## no line break, no blank at either end -/

theorem nl_notin_quote (s : Str) (h : s.all (fun c => !badQ c) = true) : '\n' ∉ quote s := by
  unfold quote
  intro hm
  simp only [List.mem_cons, List.mem_append, List.mem_filter] at hm
  rcases hm with (e | ⟨hm, _⟩) | e
  · exact absurd e (by decide)
  · have := List.all_eq_true.mp h _ hm
    simp [badQ] at this
  · simp at e

/-- does not end in white space (vacuous for the empty string) -/
def EndsOk (s : Str) : Prop := ∀ c r, s.reverse = c :: r → isWs c = false

theorem endsOk_append (a b : Str) (hb : EndsOk b) (hne : b ≠ []) : EndsOk (a ++ b) := by
  intro c r e
  rw [List.reverse_append] at e
  cases hr : b.reverse with
  | nil => exact absurd (by simpa using hr) hne
  | cons c' r' => rw [hr] at e; simp only [List.cons_append, List.cons.injEq] at e; rw [← e.1]; exact hb c' r' hr

theorem endsOk_append_nil (a b : Str) (ha : EndsOk a) (hb : b = []) : EndsOk (a ++ b) := by
  subst hb; simpa using ha

theorem endsOk_eq_val (v : Str) (hv : EndsOk v) : EndsOk ('=' :: v) := by
  cases v with
  | nil => intro c r e; simp at e; rw [← e.1]; decide
  | cons x xs =>
    have : EndsOk ([ '=' ] ++ (x :: xs)) := endsOk_append _ _ hv (by simp)
    simpa using this

theorem endsOk_renderOpt (k0 v0 : Str) (rest : List (Str × Option Str)) (hv0 : EndsOk v0)
    (hrest : ∀ kv ∈ rest, ∀ v, kv.2 = some v → EndsOk v) : EndsOk (renderOpt k0 v0 rest) := by
  unfold renderOpt
  have key : ∀ (base : Str), EndsOk base → base ≠ [] →
      EndsOk (base ++ rest.flatMap fun kv => match kv.2 with
        | some v => ',' :: kv.1 ++ '=' :: v
        | none => []) := by
    induction rest with
    | nil => intro base hb _; simpa using hb
    | cons kv r ih =>
      intro base hb hne
      obtain ⟨k, o⟩ := kv
      have ihr := ih (fun kv' h' => hrest kv' (by simp [h']))
      cases o with
      | none => simpa using ihr base hb hne
      | some v =>
        simp only [List.flatMap_cons]
        rw [← List.append_assoc]
        apply ihr
        · have hv := hrest (k, some v) (by simp) v rfl
          have : EndsOk ((base ++ ',' :: k) ++ ('=' :: v)) := endsOk_append _ _ (endsOk_eq_val v hv) (by simp)
          simpa [List.append_assoc] using this
        · simp
  have hb : EndsOk (k0 ++ '=' :: v0) := endsOk_append _ _ (endsOk_eq_val v0 hv0) (by simp)
  have := key (k0 ++ '=' :: v0) hb (by simp)
  simpa [List.append_assoc] using this

theorem endsOk_of_wfVal (v : Str) (h : wfVal v) : EndsOk v := h.2.2.2

/-- a written tag line is already trimmed -/
theorem trim_tag_line (pfx x : Str) (hp : ∀ c r, pfx = c :: r → isWs c = false) (hne : pfx ≠ []) (hx : EndsOk x)
    (hlast : ∀ c r, pfx.reverse = c :: r → isWs c = false) : trim (pfx ++ x) = pfx ++ x := by
  apply trim_id
  · intro c r e
    cases pfx with
    | nil => exact absurd rfl hne
    | cons c' r' => simp only [List.cons_append, List.cons.injEq] at e; rw [← e.1]; exact hp c' r' rfl
  · cases x with
    | nil => simpa using hlast
    | cons a b => exact endsOk_append pfx (a :: b) hx (by simp)

theorem wfKey_of (k : Str) (h : k.all (fun c => c != '=' && !isWs c) = true) (hne : k ≠ []) : wfKey k := by
  refine ⟨?_, hne, ?_, ?_⟩
  · intro hm; have := List.all_eq_true.mp h _ hm; simp at this
  · intro c r e; have := List.all_eq_true.mp h c (by rw [e]; simp); simp at this; simpa using this.2
  · intro c r e
    have hm : c ∈ k := by
      have : c ∈ k.reverse := by rw [e]; simp
      simpa using this
    have := List.all_eq_true.mp h c hm; simp at this; simpa using this.2

theorem nl_notin_renderOpt (k0 v0 : Str) (rest : List (Str × Option Str)) (h0 : '\n' ∉ k0) (hv0 : '\n' ∉ v0)
    (hrest : ∀ kv ∈ rest, '\n' ∉ kv.1 ∧ ∀ v, kv.2 = some v → '\n' ∉ v) : '\n' ∉ renderOpt k0 v0 rest := by
  unfold renderOpt
  intro hm
  simp only [List.mem_append, List.mem_cons, List.mem_flatMap] at hm
  rcases hm with (hm | hm | hm) | ⟨kv, hkv, hm⟩
  · exact h0 hm
  · exact absurd hm (by decide)
  · exact hv0 hm
  · obtain ⟨a, b⟩ := hrest kv hkv
    cases ho : kv.2 with
    | none => rw [ho] at hm; cases hm
    | some v =>
      rw [ho] at hm
      have hm' : '\n' ∈ ',' :: (kv.1 ++ '=' :: v) := by simpa using hm
      simp only [List.mem_cons, List.mem_append] at hm'
      rcases hm' with hm' | hm' | hm' | hm'
      · exact absurd hm' (by decide)
      · exact a hm'
      · exact absurd hm' (by decide)
      · exact b v ho hm'

/-! ## EXT-X-SESSION-DATA -/

def SessionData.valueOf : SessionData → Option Str
  | .value v => some v
  | .uri _ => none
def SessionData.uriOf : SessionData → Option Str
  | .uri v => some v
  | .value _ => none

theorem sessionData_show_eq (t : ExtXSessionData) :
    t.show = pfxSessionData ++ renderOpt "DATA-ID".toList (quote t.data_id)
      [("VALUE".toList, (SessionData.valueOf t.data).map quote), ("URI".toList, (SessionData.uriOf t.data).map quote),
       ("LANGUAGE".toList, t.language.map quote)] := by
  obtain ⟨id, d, l⟩ := t
  cases d <;> cases l <;>
    simp [ExtXSessionData.show, renderOpt, optAttr, SessionData.valueOf, SessionData.uriOf]

/-- a string the quoted form can carry -/
def Quotable (s : Str) : Prop := s.all (fun c => !badQ c) = true

theorem wfVal_q (s : Str) (h : Quotable s) : wfVal (quote s) := wfVal_quote s h
theorem unq (s : Str) (h : Quotable s) : unquote (quote s) = s := unquote_quote s h

/-- a tag prefix: starts and ends with a non-blank character -/
def PfxOK (p : Str) : Prop :=
  (∀ c r, p = c :: r → isWs c = false) ∧ p ≠ [] ∧ (∀ c r, p.reverse = c :: r → isWs c = false)

theorem pfxOK_of (p : Str) (h : p.all (fun c => !isWs c) = true) (hne : p ≠ []) : PfxOK p := by
  refine ⟨?_, hne, ?_⟩
  · intro c r e; have := List.all_eq_true.mp h c (by rw [e]; simp); simpa using this
  · intro c r e
    have hm : c ∈ p := by
      have : c ∈ p.reverse := by rw [e]; simp
      simpa using this
    have := List.all_eq_true.mp h c hm; simpa using this

theorem pfxSessionData_ok : PfxOK pfxSessionData := by
  unfold pfxSessionData; exact pfxOK_of _ (by simp [isWs]) (by simp)

/-- **what the tag parsers see of a written attribute-list tag**: the remainder after the prefix,
and its tokens -/
theorem rendered_tokens (pfx k0 v0 : Str) (rest : List (Str × Option Str)) (hp : PfxOK pfx) (hk0 : wfKey k0) (hv0 : wfVal v0)
    (hrest : ∀ kv ∈ rest, wfKey kv.1 ∧ ∀ v, kv.2 = some v → wfVal v) :
    stripTag (pfx ++ renderOpt k0 v0 rest) pfx = .ok (renderOpt k0 v0 rest) ∧
    attrPairs (renderOpt k0 v0 rest) = (k0, v0) :: presentPairs rest := by
  refine ⟨?_, attrPairs_renderOpt k0 v0 rest hk0 hv0 hrest⟩
  apply C12.stripTag_line
  exact trim_tag_line pfx _ hp.1 hp.2.1
    (endsOk_renderOpt _ _ _ (endsOk_of_wfVal _ hv0) (fun kv hkv v e => endsOk_of_wfVal v ((hrest kv hkv).2 v e))) hp.2.2

theorem wfKey_lit (k : Str) (h : k.all (fun c => c != '=' && !isWs c) = true) (hne : k ≠ []) : wfKey k := wfKey_of k h hne

def ExtXSessionData.WF (t : ExtXSessionData) : Prop :=
  Quotable t.data_id ∧ (∀ v, t.data = .value v → Quotable v) ∧ (∀ v, t.data = .uri v → Quotable v) ∧
  ∀ l, t.language = some l → Quotable l

theorem wfOpt_quote (o : Option Str) (h : ∀ x, o = some x → Quotable x) : ∀ v, o.map quote = some v → wfVal v := by
  intro v e
  cases o with
  | none => cases e
  | some x => simp at e; subst e; exact wfVal_q x (h x rfl)

/-- **EXT-X-SESSION-DATA: parse (write t) = t** -/
theorem sessionData_rt (t : ExtXSessionData) (h : t.WF) : ExtXSessionData.parse t.show = .ok t := by
  obtain ⟨id, d, l⟩ := t
  obtain ⟨hid, hv, hu, hl⟩ := h
  simp only at hid hv hu hl
  rw [sessionData_show_eq]
  have kV : wfKey "VALUE".toList := wfKey_lit _ (by decide) (by decide)
  have kU : wfKey "URI".toList := wfKey_lit _ (by decide) (by decide)
  have kL : wfKey "LANGUAGE".toList := wfKey_lit _ (by decide) (by decide)
  have kD : wfKey "DATA-ID".toList := wfKey_lit _ (by decide) (by decide)
  have hrest : ∀ kv ∈ [("VALUE".toList, (SessionData.valueOf d).map quote), ("URI".toList, (SessionData.uriOf d).map quote),
      ("LANGUAGE".toList, l.map quote)], wfKey kv.1 ∧ ∀ v, kv.2 = some v → wfVal v := by
    intro kv hkv
    simp only [List.mem_cons, List.mem_nil_iff, or_false] at hkv
    rcases hkv with rfl | rfl | rfl
    · exact ⟨kV, wfOpt_quote _ (by intro x e; cases d <;> simp [SessionData.valueOf] at e; subst e; exact hv _ rfl)⟩
    · exact ⟨kU, wfOpt_quote _ (by intro x e; cases d <;> simp [SessionData.uriOf] at e; subst e; exact hu _ rfl)⟩
    · exact ⟨kL, wfOpt_quote _ hl⟩
  obtain ⟨r1, r2⟩ := rendered_tokens pfxSessionData _ _ _ pfxSessionData_ok kD (wfVal_q _ hid) hrest
  simp only [ExtXSessionData.parse, r1, Res.bind_ok, r2, ExtXSessionData.fold_closed]
  have hn : (List.map (·.1) [("VALUE".toList, (SessionData.valueOf d).map quote), ("URI".toList, (SessionData.uriOf d).map quote),
      ("LANGUAGE".toList, l.map quote)]).Nodup := by
    show (["VALUE".toList, "URI".toList, "LANGUAGE".toList] : List Str).Nodup
    decide
  have hbad : ∀ ps : List (Str × Str), ps.any ExtXSessionData.bad = false := by
    intro ps; simp [ExtXSessionData.bad]
  simp only [ExtXSessionData.closed, hbad, Bool.false_eq_true, if_false, Res.bind_ok]
  cases d with
  | value x =>
    have hx := hv x rfl
    cases l with
    | none =>
      simp [ExtXSessionData.finish, lastVal, lastValQ, presentPairs, SessionData.valueOf,
        SessionData.uriOf, unq _ hid, unq _ hx]
    | some y =>
      have hy := hl y rfl
      simp [ExtXSessionData.finish, lastVal, lastValQ, presentPairs, SessionData.valueOf,
        SessionData.uriOf, unq _ hid, unq _ hx, unq _ hy]
  | uri x =>
    have hx := hu x rfl
    cases l with
    | none =>
      simp [ExtXSessionData.finish, lastVal, lastValQ, presentPairs, SessionData.valueOf,
        SessionData.uriOf, unq _ hid, unq _ hx]
    | some y =>
      have hy := hl y rfl
      simp [ExtXSessionData.finish, lastVal, lastValQ, presentPairs, SessionData.valueOf,
        SessionData.uriOf, unq _ hid, unq _ hx, unq _ hy]

/-! ## plain (unquoted) attribute values -/

/-- no comma, no quote, no white space anywhere: digits, enumerated names, hex, `WxH`, decimals -/
def plainVal (v : Str) : Bool := v.all fun c => c != ',' && c != '"' && !isWs c

theorem wfVal_plain (v : Str) (h : plainVal v = true) : wfVal v := by
  have hc : ∀ c ∈ v, (c == '"') = false ∧ (c == ',') = false ∧ isWs c = false := by
    intro c hc
    have := List.all_eq_true.mp h c hc
    simp only [Bool.and_eq_true, bne_iff_ne, ne_eq, Bool.not_eq_true'] at this
    exact ⟨by simpa using this.1.2, by simpa using this.1.1, this.2⟩
  have key : ∀ (t : Str), (∀ c ∈ t, (c == '"') = false ∧ (c == ',') = false ∧ isWs c = false) →
      noTopComma t false = true ∧ qstate t false = false := by
    intro t ht
    induction t with
    | nil => simp [noTopComma, qstate]
    | cons c cs ih =>
      obtain ⟨a, b, _⟩ := ht c (by simp)
      simp only [noTopComma, qstate, a, b, Bool.false_eq_true, if_false, Bool.false_and]
      exact ih (fun d hd => ht d (by simp [hd]))
  refine ⟨(key v hc).1, (key v hc).2, ?_, ?_⟩
  · intro c r e; exact (hc c (by rw [e]; simp)).2.2
  · intro c r e
    have : c ∈ v := by
      have : c ∈ v.reverse := by rw [e]; simp
      simpa using this
    exact (hc c this).2.2

theorem plain_append (a b : Str) (ha : plainVal a = true) (hb : plainVal b = true) : plainVal (a ++ b) = true := by
  simp only [plainVal, List.all_append, Bool.and_eq_true] at *; exact ⟨ha, hb⟩

theorem plain_showNat (n : Nat) : plainVal (showNat n) = true := by
  simp only [plainVal, List.all_eq_true]
  intro c hc
  obtain ⟨d, hd, rfl⟩ := showNat_digits n c hc
  have : ∀ d, d < 10 → ((digitChar d != ',') && (digitChar d != '"') && !isWs (digitChar d)) = true := by decide
  exact this d hd

theorem nl_notin_plain (v : Str) (h : plainVal v = true) : '\n' ∉ v := by
  intro hm
  have := List.all_eq_true.mp h _ hm
  simp [isWs] at this

theorem plain_hexEncode (u : Bool) (bs : List Nat) (h : ∀ b ∈ bs, b < 256) : plainVal (hexEncode u bs) = true := by
  induction bs with
  | nil => rfl
  | cons b rest ih =>
    have hb := h b (by simp)
    have hx : ∀ n, n < 16 → ((hexChar u n != ',') && (hexChar u n != '"') && !isWs (hexChar u n)) = true := by
      cases u <;> decide
    have h1 := hx (b / 16) (by omega)
    have h2 := hx (b % 16) (by omega)
    have ih' := ih (fun b' hb' => h b' (by simp [hb']))
    simp only [hexEncode, List.flatMap_cons, plainVal, List.all_append, List.all_cons, List.all_nil, Bool.and_true] at ih' ⊢
    rw [h1, h2, ih']; rfl

/-! ## DecryptionKey (the attribute list of EXT-X-KEY and EXT-X-SESSION-KEY) -/

def ivText : InitializationVector → Option Str
  | .aes128 v => some (InitializationVector.show (.aes128 v))
  | _ => none

theorem decryptionKey_show_eq (k : DecryptionKey) :
    k.show = renderOpt "METHOD".toList k.method.show
      [("URI".toList, some (quote k.uri)), ("IV".toList, ivText k.iv),
       ("KEYFORMAT".toList, k.format.map fun f => quote f.show), ("KEYFORMATVERSIONS".toList, k.versions.map (·.show))] := by
  obtain ⟨m, u, iv, f, v⟩ := k
  unfold DecryptionKey.show
  cases iv with
  | aes128 n =>
    unfold ivText
    cases f <;> cases v <;> simp [renderOpt]
  | number n => unfold ivText; cases f <;> cases v <;> simp [renderOpt]
  | missing => unfold ivText; cases f <;> cases v <;> simp [renderOpt]

theorem quote_quote (t : Str) (h : Quotable t) : quote (quote t) = quote t := by
  have hf : t.filter (· != '"') = t := by
    apply List.filter_eq_self.mpr
    intro c hc
    have := List.all_eq_true.mp h c hc
    simp [badQ] at this ⊢
    exact this.1.1
  simp [quote, hf, List.filter_append]

/-- the values for which the text form is faithful (C18's domain) -/
structure DecryptionKey.WF (k : DecryptionKey) : Prop where
  uri : Quotable k.uri
  uriNonBlank : (trim k.uri).isEmpty = false
  iv : match k.iv with
    | .aes128 v => v < 2 ^ 128
    | .number _ => False
    | .missing => True
  format : ∀ f, k.format = some f → Quotable f.text ∧ ∀ s, f = .other s →
    s ≠ Generated.keyFormatIdentity.toList ∧ s ≠ Generated.keyFormatFairPlay.toList ∧
    s ≠ Generated.keyFormatWidevine.toList ∧ s ≠ Generated.keyFormatPlayReady.toList
  versions : ∀ v, k.versions = some v → v.items ≠ [] ∧ v.items.length ≤ 9 ∧ ∀ n ∈ v.items, n < 256

theorem plain_method (m : EncryptionMethod) : plainVal m.show = true := by cases m <;> decide

theorem plain_ivText (v : Nat) : plainVal (InitializationVector.show (.aes128 v)) = true := by
  have hs : InitializationVector.show (.aes128 v) = "0x".toList ++ hexEncode false (natToBytes 16 v) := by
    unfold InitializationVector.show; rfl
  rw [hs]
  exact plain_append _ _ (by decide) (plain_hexEncode false _ (C18.natToBytes_spec 16 v).2.1)

theorem quotable_join (l : List Nat) : Quotable (joinWith ['/'] (l.map showNat)) := by
  have hd : ∀ x c, c ∈ showNat x → (!badQ c) = true := by
    intro x c hc
    obtain ⟨d, hd, rfl⟩ := showNat_digits x c hc
    have : ∀ d, d < 10 → (!badQ (digitChar d)) = true := by decide
    exact this d hd
  induction l with
  | nil => rfl
  | cons x xs ih =>
    cases xs with
    | nil =>
      simp only [List.map_cons, List.map_nil, joinWith, Quotable, List.all_eq_true]
      exact hd x
    | cons y ys =>
      simp only [List.map_cons, joinWith, Quotable, List.all_append, Bool.and_eq_true] at ih ⊢
      refine ⟨⟨?_, by decide⟩, ih⟩
      rw [List.all_eq_true]; exact hd x

theorem kfv_show_quoted (v : KeyFormatVersions) : ∃ t, v.show = quote t ∧ Quotable t := by
  unfold KeyFormatVersions.show
  split
  · exact ⟨['1'], rfl, by unfold Quotable; decide⟩
  · refine ⟨joinWith ['/'] (v.items.map showNat), ?_, quotable_join v.items⟩
    have hq := quotable_join v.items
    have hf : (joinWith ['/'] (v.items.map showNat)).filter (· != '"') = joinWith ['/'] (v.items.map showNat) := by
      apply List.filter_eq_self.mpr
      intro c hc
      have := List.all_eq_true.mp hq c hc
      simp [badQ] at this ⊢
      exact this.1.1
    simp [quote, hf]

theorem wfVal_kfv (v : KeyFormatVersions) : wfVal v.show := by
  obtain ⟨t, e, hq⟩ := kfv_show_quoted v
  rw [e]; exact wfVal_q t hq

theorem keyFormat_text_quotable_show (f : KeyFormat) (h : Quotable f.text) : quote f.show = quote f.text := by
  unfold KeyFormat.show; exact quote_quote _ h

def dkRest (k : DecryptionKey) : List (Str × Option Str) :=
  [("URI".toList, some (quote k.uri)), ("IV".toList, ivText k.iv),
   ("KEYFORMAT".toList, k.format.map fun f => quote f.show), ("KEYFORMATVERSIONS".toList, k.versions.map (·.show))]

theorem dkRest_wf (k : DecryptionKey) (h : k.WF) : ∀ kv ∈ dkRest k, wfKey kv.1 ∧ ∀ x, kv.2 = some x → wfVal x := by
  obtain ⟨m, u, iv, f, v⟩ := k
  obtain ⟨hu, hnb, hiv, hf, hv⟩ := h
  simp only at hu hnb hiv hf hv
  have kU : wfKey "URI".toList := wfKey_lit _ (by decide) (by decide)
  have kI : wfKey "IV".toList := wfKey_lit _ (by decide) (by decide)
  have kF : wfKey "KEYFORMAT".toList := wfKey_lit _ (by decide) (by decide)
  have kV : wfKey "KEYFORMATVERSIONS".toList := wfKey_lit _ (by decide) (by decide)
  intro kv hkv
  simp only [dkRest, List.mem_cons, List.mem_nil_iff, or_false] at hkv
  rcases hkv with rfl | rfl | rfl | rfl
  · exact ⟨kU, by intro x e; simp at e; subst e; exact wfVal_q u hu⟩
  · refine ⟨kI, ?_⟩
    intro x e
    cases iv with
    | aes128 n => simp [ivText] at e; subst e; exact wfVal_plain _ (plain_ivText n)
    | number n => simp [ivText] at e
    | missing => simp [ivText] at e
  · refine ⟨kF, ?_⟩
    intro x e
    cases f with
    | none => cases e
    | some f0 =>
      simp at e; subst e
      rw [keyFormat_text_quotable_show f0 (hf f0 rfl).1]
      exact wfVal_q _ (hf f0 rfl).1
  · refine ⟨kV, ?_⟩
    intro x e
    cases v with
    | none => cases e
    | some v0 => simp at e; subst e; exact wfVal_kfv v0

theorem decryptionKey_tokens (k : DecryptionKey) (h : k.WF) :
    attrPairs k.show = ("METHOD".toList, k.method.show) :: presentPairs (dkRest k) := by
  rw [decryptionKey_show_eq]
  exact attrPairs_renderOpt _ _ _ (wfKey_lit _ (by decide) (by decide)) (wfVal_plain _ (plain_method k.method)) (dkRest_wf k h)

theorem decryptionKey_lastMethod (k : DecryptionKey) (h : k.WF) : lastMethod (attrPairs k.show) = some k.method.show := by
  rw [decryptionKey_tokens k h, C12.lastMethod_eq]
  apply lastVal_cons_eq
  have hn : (List.map (·.1) (dkRest k)).Nodup := by
    show (["URI".toList, "IV".toList, "KEYFORMAT".toList, "KEYFORMATVERSIONS".toList] : List Str).Nodup
    decide
  rw [lastVal_present _ _ hn]; simp [dkRest, lookupOpt]

/-- **DecryptionKey: parse (write k) = k** -/
theorem decryptionKey_rt (k : DecryptionKey) (h : k.WF) : DecryptionKey.parse k.show = .ok k := by
  obtain ⟨m, u, iv, f, v⟩ := k
  obtain ⟨hu, hnb, hiv, hf, hv⟩ := h
  simp only at hu hnb hiv hf hv
  rw [decryptionKey_show_eq]
  have kM : wfKey "METHOD".toList := wfKey_lit _ (by decide) (by decide)
  have kU : wfKey "URI".toList := wfKey_lit _ (by decide) (by decide)
  have kI : wfKey "IV".toList := wfKey_lit _ (by decide) (by decide)
  have kF : wfKey "KEYFORMAT".toList := wfKey_lit _ (by decide) (by decide)
  have kV : wfKey "KEYFORMATVERSIONS".toList := wfKey_lit _ (by decide) (by decide)
  have hrest : ∀ kv ∈ [("URI".toList, some (quote u)), ("IV".toList, ivText iv),
      ("KEYFORMAT".toList, f.map fun f => quote f.show), ("KEYFORMATVERSIONS".toList, v.map (·.show))],
      wfKey kv.1 ∧ ∀ x, kv.2 = some x → wfVal x := by
    intro kv hkv
    simp only [List.mem_cons, List.mem_nil_iff, or_false] at hkv
    rcases hkv with rfl | rfl | rfl | rfl
    · exact ⟨kU, by intro x e; simp at e; subst e; exact wfVal_q u hu⟩
    · refine ⟨kI, ?_⟩
      intro x e
      cases iv with
      | aes128 n => simp [ivText] at e; subst e; exact wfVal_plain _ (plain_ivText n)
      | number n => simp [ivText] at e
      | missing => simp [ivText] at e
    · refine ⟨kF, ?_⟩
      intro x e
      cases f with
      | none => cases e
      | some f0 =>
        simp at e; subst e
        rw [keyFormat_text_quotable_show f0 (hf f0 rfl).1]
        exact wfVal_q _ (hf f0 rfl).1
    · refine ⟨kV, ?_⟩
      intro x e
      cases v with
      | none => cases e
      | some v0 => simp at e; subst e; exact wfVal_kfv v0
  simp only [DecryptionKey.parse, attrPairs_renderOpt _ _ _ kM (wfVal_plain _ (plain_method m)) hrest, DecryptionKey.fold_closed]
  -- no pair is bad
  have hm : EncryptionMethod.parse m.show = .ok m := C18.encryptionMethod_rt m
  have hbad : (("METHOD".toList, m.show) :: presentPairs [("URI".toList, some (quote u)), ("IV".toList, ivText iv),
      ("KEYFORMAT".toList, f.map fun f => quote f.show), ("KEYFORMATVERSIONS".toList, v.map (·.show))]).any DecryptionKey.bad = false := by
    rw [List.any_eq_false]
    intro kv hkv
    simp only [List.mem_cons, presentPairs, List.filterMap_cons, List.filterMap_nil] at hkv
    cases iv with
    | aes128 n =>
      have hn := C18.iv_rt n hiv
      cases f <;> cases v <;> simp [ivText] at hkv <;>
        (rcases hkv with rfl | hkv) <;> (try (rcases hkv with rfl | hkv)) <;> (try (rcases hkv with rfl | hkv)) <;>
        (try (rcases hkv with rfl | hkv)) <;> (try subst hkv) <;>
        simp_all [DecryptionKey.bad, badAt, Res.isOk, C18.keyFormatVersions_rt]
    | number n => exact absurd hiv (by simp)
    | missing =>
      cases f <;> cases v <;> simp [ivText] at hkv <;>
        (rcases hkv with rfl | hkv) <;> (try (rcases hkv with rfl | hkv)) <;> (try (rcases hkv with rfl | hkv)) <;>
        (try subst hkv) <;>
        simp_all [DecryptionKey.bad, badAt, Res.isOk, C18.keyFormatVersions_rt]
  have hn : (List.map (·.1) [("URI".toList, some (quote u)), ("IV".toList, ivText iv),
      ("KEYFORMAT".toList, f.map fun f => quote f.show), ("KEYFORMATVERSIONS".toList, v.map (·.show))]).Nodup := by
    show (["URI".toList, "IV".toList, "KEYFORMAT".toList, "KEYFORMATVERSIONS".toList] : List Str).Nodup
    decide
  have f1 : lastVal "METHOD".toList (("METHOD".toList, m.show) :: presentPairs [("URI".toList, some (quote u)), ("IV".toList, ivText iv),
      ("KEYFORMAT".toList, f.map fun f => quote f.show), ("KEYFORMATVERSIONS".toList, v.map (·.show))]) = some m.show := by
    apply lastVal_cons_eq
    rw [lastVal_present _ _ hn]; simp [lookupOpt]
  have f2 : lastValQ "URI".toList nonBlankUri (("METHOD".toList, m.show) :: presentPairs [("URI".toList, some (quote u)), ("IV".toList, ivText iv),
      ("KEYFORMAT".toList, f.map fun f => quote f.show), ("KEYFORMATVERSIONS".toList, v.map (·.show))]) = some (quote u) := by
    rw [lastValQ_cons, lastValQ_present _ _ _ hn]
    have : nonBlankUri (quote u) = true := by simp [nonBlankUri, unq u hu, hnb]
    simp [lookupOpt, Option.filter, this]
  have f3 : lastVal "IV".toList (("METHOD".toList, m.show) :: presentPairs [("URI".toList, some (quote u)), ("IV".toList, ivText iv),
      ("KEYFORMAT".toList, f.map fun f => quote f.show), ("KEYFORMATVERSIONS".toList, v.map (·.show))]) = ivText iv := by
    rw [lastVal_cons_ne _ _ _ _ (by decide), lastVal_present _ _ hn]; simp [lookupOpt]
  have f4 : lastVal "KEYFORMAT".toList (("METHOD".toList, m.show) :: presentPairs [("URI".toList, some (quote u)), ("IV".toList, ivText iv),
      ("KEYFORMAT".toList, f.map fun f => quote f.show), ("KEYFORMATVERSIONS".toList, v.map (·.show))]) = f.map fun f => quote f.show := by
    rw [lastVal_cons_ne _ _ _ _ (by decide), lastVal_present _ _ hn]; simp [lookupOpt]
  have f5 : lastVal "KEYFORMATVERSIONS".toList (("METHOD".toList, m.show) :: presentPairs [("URI".toList, some (quote u)), ("IV".toList, ivText iv),
      ("KEYFORMAT".toList, f.map fun f => quote f.show), ("KEYFORMATVERSIONS".toList, v.map (·.show))]) = v.map (·.show) := by
    rw [lastVal_cons_ne _ _ _ _ (by decide), lastVal_present _ _ hn]; simp [lookupOpt]
  simp only [DecryptionKey.closed, hbad, Bool.false_eq_true, if_false, f1, f2, f3, f4, f5]
  -- the fields
  have g1 : optParse EncryptionMethod.parse (some m.show) = some m := by simp [optParse, hm, Res.toOption]
  have g3 : (optParse InitializationVector.parse (ivText iv)).getD .missing = iv := by
    cases iv with
    | aes128 n => simp [ivText, optParse, C18.iv_rt n hiv, Res.toOption]
    | number n => exact absurd hiv (by simp)
    | missing => rfl
  have g4 : (f.map fun f => quote f.show).map KeyFormat.parse = f := by
    cases f with
    | none => rfl
    | some f0 =>
      obtain ⟨hq, hne⟩ := hf f0 rfl
      simp only [Option.map_some, keyFormat_text_quotable_show f0 hq]
      congr 1
      have := C18.keyFormat_rt f0 (by
        intro s e
        refine ⟨?_, hne s e⟩
        subst e; exact hq)
      unfold KeyFormat.show at this; exact this
  have g5 : optParse KeyFormatVersions.parse (v.map (·.show)) = v := by
    apply optParse_map
    intro x e
    obtain ⟨a, b, c⟩ := hv x e
    exact C18.keyFormatVersions_rt x a b c
  show (do let a ← Res.ok _; DecryptionKey.finish a) = _
  simp only [Res.bind_ok, DecryptionKey.finish, g1, Option.map_some, unq u hu, g3, g4, g5]


/-! ## `LineRT` for the key lines and EXT-X-SESSION-DATA -/

theorem pfxKey_ok : PfxOK pfxKey := by unfold pfxKey; exact pfxOK_of _ (by simp [isWs]) (by simp)
theorem pfxSessionKey_ok : PfxOK pfxSessionKey := by unfold pfxSessionKey; exact pfxOK_of _ (by simp [isWs]) (by simp)

theorem endsOk_plain (v : Str) (h : plainVal v = true) : EndsOk v := endsOk_of_wfVal v (wfVal_plain v h)

/-- the pieces of `LineRT` for a tag line `pfx ++ x` -/
theorem lineRT_parts (pfx x : Str) (hp : PfxOK pfx) (hx : EndsOk x) (hn1 : '\n' ∉ pfx) (hn2 : '\n' ∉ x) :
    '\n' ∉ pfx ++ x ∧ trim (pfx ++ x) = pfx ++ x ∧ pfx ++ x ≠ [] := by
  refine ⟨by simp [hn1, hn2], trim_tag_line pfx x hp.1 hp.2.1 hx hp.2.2, ?_⟩
  intro e
  have := hp.2.1
  cases pfx with
  | nil => exact this rfl
  | cons c r => simp at e

theorem nl_notin_decryptionKey (k : DecryptionKey) (h : k.WF) : '\n' ∉ k.show := by
  rw [decryptionKey_show_eq]
  apply nl_notin_renderOpt
  · decide
  · exact nl_notin_plain _ (plain_method k.method)
  · intro kv hkv
    simp only [List.mem_cons, List.mem_nil_iff, or_false] at hkv
    rcases hkv with rfl | rfl | rfl | rfl
    · exact ⟨(by show '\n' ∉ "URI".toList; decide), by intro v e; simp at e; subst e; exact nl_notin_quote _ h.uri⟩
    · refine ⟨(by show '\n' ∉ "IV".toList; decide), ?_⟩
      intro v e
      cases hiv : k.iv with
      | aes128 n => rw [hiv] at e; simp [ivText] at e; subst e; exact nl_notin_plain _ (plain_ivText n)
      | number n => rw [hiv] at e; simp [ivText] at e
      | missing => rw [hiv] at e; simp [ivText] at e
    · refine ⟨(by show '\n' ∉ "KEYFORMAT".toList; decide), ?_⟩
      intro v e
      cases hf : k.format with
      | none => rw [hf] at e; cases e
      | some f0 =>
        rw [hf] at e; simp at e; subst e
        rw [keyFormat_text_quotable_show f0 (h.format f0 hf).1]
        exact nl_notin_quote _ (h.format f0 hf).1
    · refine ⟨(by show '\n' ∉ "KEYFORMATVERSIONS".toList; decide), ?_⟩
      intro v e
      cases hv : k.versions with
      | none => rw [hv] at e; cases e
      | some v0 =>
        rw [hv] at e; simp at e; subst e
        obtain ⟨t, e2, hq⟩ := kfv_show_quoted v0
        rw [e2]; exact nl_notin_quote _ hq

theorem endsOk_decryptionKey (k : DecryptionKey) (h : k.WF) : EndsOk k.show := by
  rw [decryptionKey_show_eq]
  apply endsOk_renderOpt
  · exact endsOk_plain _ (plain_method k.method)
  · intro kv hkv v e
    simp only [List.mem_cons, List.mem_nil_iff, or_false] at hkv
    rcases hkv with rfl | rfl | rfl | rfl
    · simp at e; subst e; exact endsOk_of_wfVal _ (wfVal_q _ h.uri)
    · cases hiv : k.iv with
      | aes128 n => rw [hiv] at e; simp [ivText] at e; subst e; exact endsOk_plain _ (plain_ivText n)
      | number n => rw [hiv] at e; simp [ivText] at e
      | missing => rw [hiv] at e; simp [ivText] at e
    · cases hf : k.format with
      | none => rw [hf] at e; cases e
      | some f0 =>
        rw [hf] at e; simp at e; subst e
        rw [keyFormat_text_quotable_show f0 (h.format f0 hf).1]
        exact endsOk_of_wfVal _ (wfVal_q _ (h.format f0 hf).1)
    · cases hv : k.versions with
      | none => rw [hv] at e; cases e
      | some v0 => rw [hv] at e; simp at e; subst e; exact endsOk_of_wfVal _ (wfVal_kfv v0)

theorem lineRT_sessionKey (k : DecryptionKey) (h : k.WF) : LineRT (.sessionKey k) := by
  show '\n' ∉ ExtXSessionKey.show k ∧ trim (ExtXSessionKey.show k) = ExtXSessionKey.show k ∧ ExtXSessionKey.show k ≠ [] ∧
    startsWith (ExtXSessionKey.show k) siPfx = false ∧ classify1 (ExtXSessionKey.show k) = .ok (.sessionKey k)
  unfold ExtXSessionKey.show
  obtain ⟨a, b, c⟩ := lineRT_parts pfxSessionKey k.show pfxSessionKey_ok (endsOk_decryptionKey k h)
    (by unfold pfxSessionKey; simp) (nl_notin_decryptionKey k h)
  refine ⟨a, b, c, ?_, ?_⟩
  · unfold pfxSessionKey siPfx Generated.streamInfPrefix; simp [startsWith, List.isPrefixOf]
  · rw [classify1_ext _ (C12.ext_prefix _ _ (by unfold pfxSessionKey; simp [startsWith, List.isPrefixOf])), dispatch_sessionKey]
    simp only [ExtXSessionKey.parse, C12.stripTag_line _ _ b, Res.bind_ok, decryptionKey_rt k h, Res.map]

theorem lineRT_key_some (k : DecryptionKey) (h : k.WF) : LineRT (.key (some k)) := by
  show '\n' ∉ ExtXKey.show (some k) ∧ trim (ExtXKey.show (some k)) = ExtXKey.show (some k) ∧ ExtXKey.show (some k) ≠ [] ∧
    startsWith (ExtXKey.show (some k)) siPfx = false ∧ classify1 (ExtXKey.show (some k)) = .ok (.key (some k))
  simp only [ExtXKey.show]
  obtain ⟨a, b, c⟩ := lineRT_parts pfxKey k.show pfxKey_ok (endsOk_decryptionKey k h)
    (by unfold pfxKey; simp) (nl_notin_decryptionKey k h)
  refine ⟨a, b, c, ?_, ?_⟩
  · unfold pfxKey siPfx Generated.streamInfPrefix; simp [startsWith, List.isPrefixOf]
  · rw [classify1_ext _ (C12.ext_prefix _ _ (by unfold pfxKey; simp [startsWith, List.isPrefixOf])), dispatch_key]
    have hm : (lastMethod (attrPairs k.show) == some "NONE".toList) = false := by
      rw [decryptionKey_lastMethod k h]
      cases k.method <;> decide
    simp only [ExtXKey.parse, C12.stripTag_line _ _ b, Res.bind_ok, hm, Bool.false_eq_true, if_false, decryptionKey_rt k h]
    rfl

theorem lineRT_key_none : LineRT (.key none) := by
  show '\n' ∉ ExtXKey.show none ∧ trim (ExtXKey.show none) = ExtXKey.show none ∧ ExtXKey.show none ≠ [] ∧
    startsWith (ExtXKey.show none) siPfx = false ∧ classify1 (ExtXKey.show none) = .ok (.key none)
  simp only [ExtXKey.show]
  have hx : "METHOD=NONE".toList = renderOpt "METHOD".toList "NONE".toList [] := by simp [renderOpt]
  obtain ⟨a, b, c⟩ := lineRT_parts pfxKey "METHOD=NONE".toList pfxKey_ok (endsOk_plain _ (by decide)) (by unfold pfxKey; simp) (by decide)
  refine ⟨a, b, c, ?_, ?_⟩
  · unfold pfxKey siPfx Generated.streamInfPrefix; simp [startsWith, List.isPrefixOf]
  · rw [classify1_ext _ (C12.ext_prefix _ _ (by unfold pfxKey; simp [startsWith, List.isPrefixOf])), dispatch_key]
    have ht : attrPairs "METHOD=NONE".toList = [("METHOD".toList, "NONE".toList)] := by
      rw [hx, attrPairs_renderOpt _ _ _ (wfKey_lit _ (by decide) (by decide)) (wfVal_plain _ (by decide)) (by intro kv hkv; cases hkv)]
      rfl
    have hm : (lastMethod (attrPairs "METHOD=NONE".toList) == some "NONE".toList) = true := by
      rw [ht]; decide
    simp only [ExtXKey.parse, C12.stripTag_line _ _ b, Res.bind_ok, hm, if_true]
    rfl

theorem pfxSessionData_nl : '\n' ∉ pfxSessionData := by unfold pfxSessionData; simp

theorem lineRT_sessionData (t : ExtXSessionData) (h : t.WF) : LineRT (.sessionData t) := by
  show '\n' ∉ t.show ∧ trim t.show = t.show ∧ t.show ≠ [] ∧ startsWith t.show siPfx = false ∧ classify1 t.show = .ok (.sessionData t)
  have hrt := sessionData_rt t h
  obtain ⟨hid, hv, hu, hl⟩ := h
  rw [sessionData_show_eq] at hrt ⊢
  have hvals : ∀ kv ∈ [("VALUE".toList, (SessionData.valueOf t.data).map quote), ("URI".toList, (SessionData.uriOf t.data).map quote),
      ("LANGUAGE".toList, t.language.map quote)], ∀ v, kv.2 = some v → ∃ x, v = quote x ∧ Quotable x := by
    intro kv hkv v e
    simp only [List.mem_cons, List.mem_nil_iff, or_false] at hkv
    rcases hkv with rfl | rfl | rfl
    · cases hd : t.data with
      | value x => rw [hd] at e; simp [SessionData.valueOf] at e; exact ⟨x, e.symm, hv x hd⟩
      | uri x => rw [hd] at e; simp [SessionData.valueOf] at e
    · cases hd : t.data with
      | value x => rw [hd] at e; simp [SessionData.uriOf] at e
      | uri x => rw [hd] at e; simp [SessionData.uriOf] at e; exact ⟨x, e.symm, hu x hd⟩
    · cases hlg : t.language with
      | none => rw [hlg] at e; cases e
      | some x => rw [hlg] at e; simp at e; exact ⟨x, e.symm, hl x hlg⟩
  obtain ⟨a, b, c⟩ := lineRT_parts pfxSessionData _ pfxSessionData_ok
    (endsOk_renderOpt "DATA-ID".toList (quote t.data_id) _ (endsOk_of_wfVal _ (wfVal_q _ hid))
      (fun kv hkv v e => by obtain ⟨x, rfl, hx⟩ := hvals kv hkv v e; exact endsOk_of_wfVal _ (wfVal_q _ hx)))
    pfxSessionData_nl
    (nl_notin_renderOpt _ _ _ (by decide) (nl_notin_quote _ hid) (fun kv hkv => by
      refine ⟨?_, fun v e => by obtain ⟨x, rfl, hx⟩ := hvals kv hkv v e; exact nl_notin_quote _ hx⟩
      simp only [List.mem_cons, List.mem_nil_iff, or_false] at hkv
      rcases hkv with rfl | rfl | rfl
      · show '\n' ∉ "VALUE".toList; decide
      · show '\n' ∉ "URI".toList; decide
      · show '\n' ∉ "LANGUAGE".toList; decide))
  refine ⟨a, b, c, ?_, ?_⟩
  · unfold pfxSessionData siPfx Generated.streamInfPrefix; simp [startsWith, List.isPrefixOf]
  · rw [classify1_ext _ (C12.ext_prefix _ _ (by unfold pfxSessionData; simp [startsWith, List.isPrefixOf])), dispatch_sessionData]
    simp only [hrt]; rfl

end Hls
