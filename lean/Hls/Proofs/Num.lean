import Hls.Model.Basic
/-!
# Helper lemmas: decimal print/parse round trip, trimming
-/
namespace Hls

theorem charDigit_digitChar (d : Nat) (h : d < 10) : charDigit? (digitChar d) = some d := by
  have : d = 0 ∨ d = 1 ∨ d = 2 ∨ d = 3 ∨ d = 4 ∨ d = 5 ∨ d = 6 ∨ d = 7 ∨ d = 8 ∨ d = 9 := by omega
  rcases this with rfl|rfl|rfl|rfl|rfl|rfl|rfl|rfl|rfl|rfl <;> decide

theorem digitChar_ne_plus (d : Nat) (h : d < 10) : digitChar d ≠ '+' := by
  have : d = 0 ∨ d = 1 ∨ d = 2 ∨ d = 3 ∨ d = 4 ∨ d = 5 ∨ d = 6 ∨ d = 7 ∨ d = 8 ∨ d = 9 := by omega
  rcases this with rfl|rfl|rfl|rfl|rfl|rfl|rfl|rfl|rfl|rfl <;> decide

theorem parseDigits_append (a b : List Char) (acc : Nat) :
    parseDigits (a ++ b) acc = (parseDigits a acc).bind (parseDigits b) := by
  induction a generalizing acc with
  | nil => simp [parseDigits]
  | cons c cs ih =>
    simp only [List.cons_append, parseDigits]
    cases charDigit? c with
    | none => simp
    | some d => simp [ih]

theorem parseDigits_showNat (n a : Nat) :
    parseDigits (showNat n) a = some (a * 10 ^ (showNat n).length + n) := by
  induction n using Nat.strongRecOn generalizing a with
  | _ n ih =>
    rw [showNat]
    split
    · rename_i h; simp [parseDigits, charDigit_digitChar n h]
    · rename_i h
      have hd : n % 10 < 10 := Nat.mod_lt _ (by omega)
      rw [parseDigits_append, ih (n / 10) (by omega)]
      simp only [Option.bind_some, parseDigits, charDigit_digitChar _ hd, List.length_append,
        List.length_cons, List.length_nil]
      congr 1
      rw [Nat.pow_succ, ← Nat.mul_assoc]
      generalize a * 10 ^ (showNat (n / 10)).length = y
      omega

theorem showNat_ne_nil (n : Nat) : showNat n ≠ [] := by
  rw [showNat]; split <;> simp

theorem showNat_head_ne_plus (n : Nat) : ∀ r, showNat n ≠ '+' :: r := by
  induction n using Nat.strongRecOn with
  | _ n ih =>
    intro r
    rw [showNat]
    split
    · rename_i h; intro e; simp at e; exact digitChar_ne_plus n h e.1
    · rename_i h
      intro e
      have := ih (n / 10) (by omega)
      cases hs : showNat (n / 10) with
      | nil => exact showNat_ne_nil _ hs
      | cons c cs => rw [hs] at e this; simp at e; exact this cs (by rw [e.1])

/-- printing then parsing an unsigned integer gives it back, for every value below the type limit -/
theorem parseNat?_showNat (bits n : Nat) (h : n < 2 ^ bits) : parseNat? bits (showNat n) = some n := by
  unfold parseNat?
  have hb : stripPlus (showNat n) = showNat n := by
    unfold stripPlus
    split
    · rename_i r heq; exact absurd heq (showNat_head_ne_plus n r)
    · rfl
  simp only [hb]
  have hne : (showNat n).isEmpty = false := by
    cases hs : showNat n with
    | nil => exact absurd hs (showNat_ne_nil n)
    | cons _ _ => rfl
  simp [hne, parseDigits_showNat, h]

theorem parseNat_showNat (bits n : Nat) (h : n < 2 ^ bits) : parseNat bits (showNat n) = .ok n := by
  simp [parseNat, parseNat?_showNat bits n h, Res.ofOpt]

/-- a rendered number contains only digits -/
theorem showNat_digits (n : Nat) : ∀ c ∈ showNat n, ∃ d, d < 10 ∧ c = digitChar d := by
  induction n using Nat.strongRecOn with
  | _ n ih =>
    intro c hc
    rw [showNat] at hc
    split at hc
    · rename_i h; simp at hc; exact ⟨n, h, hc⟩
    · rename_i h
      rcases List.mem_append.mp hc with hc | hc
      · exact ih (n / 10) (by omega) c hc
      · simp at hc; exact ⟨n % 10, Nat.mod_lt _ (by omega), hc⟩

/-! trim lemmas -/
theorem trimStart_append_ws (w s : Str) (hw : w.all isWs = true) : trimStart (w ++ s) = trimStart s := by
  induction w with
  | nil => rfl
  | cons c cs ih =>
    simp only [List.all_cons, Bool.and_eq_true] at hw
    simp [trimStart, List.dropWhile, hw.1]
    exact ih hw.2

theorem trimStart_id (s : Str) (h : ∀ c r, s = c :: r → isWs c = false) : trimStart s = s := by
  cases s with
  | nil => rfl
  | cons c r => simp [trimStart, List.dropWhile, h c r rfl]

theorem trimEnd_eq (s : Str) : trimEnd s = (trimStart s.reverse).reverse := rfl

/-- blanks around a token whose ends are not blank are trimmed away -/
theorem trim_pad (w1 w2 s : Str) (hw1 : w1.all isWs = true) (hw2 : w2.all isWs = true)
    (hs : ∀ c r, s = c :: r → isWs c = false) (he : ∀ c r, s.reverse = c :: r → isWs c = false) :
    trim (w1 ++ s ++ w2) = s := by
  unfold trim
  rw [List.append_assoc, trimStart_append_ws _ _ hw1]
  cases s with
  | nil =>
    simp only [List.nil_append]
    have : trimStart w2 = [] := by
      have := trimStart_append_ws w2 [] hw2
      simpa [trimStart] using this
    rw [this]; rfl
  | cons c r =>
    rw [trimStart_id ((c :: r) ++ w2) (by intro c' r' h; simp at h; rw [← h.1]; exact hs c r rfl)]
    rw [trimEnd_eq, List.reverse_append]
    rw [trimStart_append_ws _ _ (by simpa using hw2)]
    rw [trimStart_id _ he, List.reverse_reverse]

theorem trim_id (s : Str) (hs : ∀ c r, s = c :: r → isWs c = false)
    (he : ∀ c r, s.reverse = c :: r → isWs c = false) : trim s = s := by
  have := trim_pad [] [] s rfl rfl hs he
  simpa using this

end Hls
