import Hls.Model.Media
import Hls.Model.Master
/-!
# Helper lemmas about the short-circuit fold and the two parsers' outer structure
-/
namespace Hls

theorem foldRes_append {σ α} (f : σ → α → Res σ) (s : σ) (a b : List α) :
    foldRes f s (a ++ b) = (match foldRes f s a with
      | .ok s' => foldRes f s' b
      | .err => .err
      | .panic => .panic) := by
  induction a generalizing s with
  | nil => simp [foldRes]
  | cons x xs ih =>
    simp only [List.cons_append, foldRes]
    cases f s x <;> simp [ih]

/-- a successful run over iterator items means every item was `Ok`, and equals the run over the
typed lines -/
theorem foldRes_liftItem_ok {σ α} (step : σ → α → Res σ) (its : List (Res α)) (s t : σ)
    (h : foldRes (liftItem step) s its = .ok t) :
    ∃ ls, its = ls.map Res.ok ∧ foldRes step s ls = .ok t := by
  induction its generalizing s with
  | nil => exact ⟨[], rfl, by simpa [foldRes] using h⟩
  | cons it its ih =>
    cases it with
    | ok l =>
      simp only [foldRes, liftItem] at h
      cases hs : step s l with
      | ok s' =>
        rw [hs] at h
        obtain ⟨ls, h1, h2⟩ := ih s' h
        exact ⟨l :: ls, by simp [h1], by simp [foldRes, hs, h2]⟩
      | err => rw [hs] at h; cases h
      | panic => rw [hs] at h; cases h
    | err => simp [foldRes, liftItem] at h
    | panic => simp [foldRes, liftItem] at h

theorem foldRes_liftItem_map_ok {σ α} (step : σ → α → Res σ) (ls : List α) (s : σ) :
    foldRes (liftItem step) s (ls.map Res.ok) = foldRes step s ls := by
  induction ls generalizing s with
  | nil => rfl
  | cons l ls ih => simp only [List.map_cons, foldRes, liftItem]; cases step s l <;> simp [ih]

/-- **Outer structure of the media parser.** An accepted text has the `#EXTM3U` header, all of its
line items classify, and the result is the one of the typed-line state machine. -/
theorem parseMediaWith_ok (b : MediaPlaylistBuilder) (s : Str) (p : MediaPlaylist)
    (h : parseMediaWith b s = .ok p) :
    ∃ rest ls, stripTag s pfxM3u = .ok rest ∧ lineItems rest = ls.map Res.ok ∧ assembleMedia b ls = .ok p := by
  unfold parseMediaWith at h
  split at h
  · rename_i rest hr
    split at h
    · rename_i st hst
      obtain ⟨ls, h1, h2⟩ := foldRes_liftItem_ok mediaStep _ _ _ hst
      exact ⟨rest, ls, hr, h1, by simp [assembleMedia, h2, h]⟩
    · cases h
    · cases h
  · cases h
  · cases h

theorem parseMediaWith_of_lines (b : MediaPlaylistBuilder) (s rest : Str) (ls : List Line)
    (h1 : stripTag s pfxM3u = .ok rest) (h2 : lineItems rest = ls.map Res.ok) :
    parseMediaWith b s = assembleMedia b ls := by
  unfold parseMediaWith assembleMedia
  rw [h1]; simp only []; rw [h2, foldRes_liftItem_map_ok]

theorem parseMaster_ok (s : Str) (p : MasterPlaylist) (h : parseMaster s = .ok p) :
    ∃ rest ls, stripTag s pfxM3u = .ok rest ∧ lineItems rest = ls.map Res.ok ∧ assembleMaster ls = .ok p := by
  unfold parseMaster at h
  split at h
  · rename_i rest hr
    split at h
    · rename_i st hst
      obtain ⟨ls, h1, h2⟩ := foldRes_liftItem_ok masterStep _ _ _ hst
      exact ⟨rest, ls, hr, h1, by simp [assembleMaster, h2, h]⟩
    · cases h
    · cases h
  · cases h
  · cases h

theorem parseMaster_of_lines (s rest : Str) (ls : List Line)
    (h1 : stripTag s pfxM3u = .ok rest) (h2 : lineItems rest = ls.map Res.ok) :
    parseMaster s = assembleMaster ls := by
  unfold parseMaster assembleMaster
  rw [h1]; simp only []; rw [h2, foldRes_liftItem_map_ok]

end Hls
