import Hls.Proofs.Lines
import Hls.Proofs.Fold
/-!
# Writing typed lines and reading them back: `lineItems (renderLines ls) = ls.map ok`
when every line's text classifies back to the line (`LineRT`)
-/
namespace Hls

def siPfx : Str := Generated.streamInfPrefix.toList

/-- what the classifier can give back for a written line: everything except the key coverage of an
`EXT-X-MAP`, which is not part of the tag's text (the parser's state machine fills it in and ignores
whatever the line carries: `mediaStep_norm`) -/
def Line.norm : Line → Line
  | .map m => .map { m with keys := [] }
  | l => l

/-- the text of a line re-classifies to the line. A `STREAM-INF` variant is written as two
physical lines (tag, URI) which the iterator pairs again. -/
def LineRT (l : Line) : Prop :=
  match l with
  | .variant (.extXStreamInf uri fr au su cc d) =>
    ∃ first, l.render = first ++ '\n' :: uri ∧ '\n' ∉ first ∧ '\n' ∉ uri ∧ trim first = first ∧ first ≠ [] ∧
      trim uri = uri ∧ uri ≠ [] ∧ startsWith first siPfx = true ∧
      VariantStream.parse (first ++ ['\n'] ++ uri) = .ok (.extXStreamInf uri fr au su cc d)
  | _ => '\n' ∉ l.render ∧ trim l.render = l.render ∧ l.render ≠ [] ∧ startsWith l.render siPfx = false ∧
      classify1 l.render = .ok l.norm

/-- the trimmed non-empty raw lines a written line contributes -/
def rawOf (l : Line) : List Str :=
  match l with
  | .variant (.extXStreamInf uri _ _ _ _ _) => [(l.render.take (l.render.length - uri.length - 1)), uri]
  | _ => [l.render]

theorem items_cons_plain (l : Str) (rest : List Str) (h : startsWith l siPfx = false) :
    items (l :: rest) = classify1 l :: items rest := by
  cases rest with
  | nil => rw [items]; simp [siPfx] at h; simp [h, items]
  | cons u r => rw [items]; simp [siPfx] at h; simp [h]

theorem items_cons_si (l u : Str) (rest : List Str) (h : startsWith l siPfx = true) :
    items (l :: u :: rest) = (VariantStream.parse (l ++ ['\n'] ++ u)).map Line.variant :: items rest := by
  rw [items]; simp [siPfx] at h; simp [h]

theorem keepLine_id (a : Str) (h1 : trim a = a) (h2 : a ≠ []) : keepLine a = [a] := by
  simp only [keepLine, h1]
  cases a with
  | nil => exact absurd rfl h2
  | cons _ _ => rfl

/-- **reading back what was written, line by line** -/
theorem lineItems_renderLines (ls : List Line) (h : ∀ l ∈ ls, LineRT l) :
    lineItems (renderLines ls) = (ls.map Line.norm).map Res.ok := by
  unfold lineItems
  induction ls with
  | nil =>
    have : rawLines (renderLines []) = [] := rfl
    rw [this, items]; rfl
  | cons l rest ih =>
    have ih' := ih (fun l' hl' => h l' (by simp [hl']))
    have hl := h l (by simp)
    have hsplit : renderLines (l :: rest) = l.render ++ '\n' :: renderLines rest := by
      simp [renderLines]
    rw [hsplit]
    -- two shapes
    by_cases hv : ∃ uri fr au su cc d, l = .variant (.extXStreamInf uri fr au su cc d)
    · obtain ⟨uri, fr, au, su, cc, d, rfl⟩ := hv
      obtain ⟨first, e, n1, n2, t1, ne1, t2, ne2, hsi, hp⟩ := hl
      rw [e, List.append_assoc, List.cons_append, rawLines_append_nl first _ n1, rawLines_append_nl uri _ n2,
        keepLine_id first t1 ne1, keepLine_id uri t2 ne2]
      simp only [List.cons_append, List.nil_append]
      rw [items_cons_si first uri _ hsi, hp, ih']
      rfl
    · have hl' : '\n' ∉ l.render ∧ trim l.render = l.render ∧ l.render ≠ [] ∧ startsWith l.render siPfx = false ∧
          classify1 l.render = .ok l.norm := by
        cases l with
        | variant v =>
          cases v with
          | extXIFrame u d => exact hl
          | extXStreamInf uri fr au su cc d => exact absurd ⟨uri, fr, au, su, cc, d, rfl⟩ hv
        | _ => exact hl
      obtain ⟨n1, t1, ne1, hsi, hc⟩ := hl'
      rw [rawLines_append_nl _ _ n1, keepLine_id _ t1 ne1]
      simp only [List.cons_append, List.nil_append]
      rw [items_cons_plain _ _ hsi, hc, ih']
      rfl

/-- `#EXTM3U\n` + written lines parses as the typed-line machine run on those lines — media -/
theorem mediaStep_norm (st : PState) (l : Line) : mediaStep st l.norm = mediaStep st l := by
  cases l <;> rfl

theorem masterStep_norm (st : MState) (l : Line) : masterStep st l.norm = masterStep st l := by
  cases l <;> rfl

theorem foldRes_norm {σ} (step : σ → Line → Res σ) (hn : ∀ s l, step s l.norm = step s l) (ls : List Line) (s : σ) :
    foldRes step s (ls.map Line.norm) = foldRes step s ls := by
  induction ls generalizing s with
  | nil => rfl
  | cons l rest ih =>
    simp only [List.map_cons, foldRes, hn]
    cases step s l <;> simp [ih]

theorem parseMedia_of_written (b : MediaPlaylistBuilder) (ls : List Line) (h : ∀ l ∈ ls, LineRT l) :
    parseMediaWith b (pfxM3u ++ ['\n'] ++ renderLines ls) = assembleMedia b ls := by
  have hx := header_strip ('\n' :: renderLines ls)
  obtain ⟨r, hs, hr⟩ := hx
  have e : pfxM3u ++ ['\n'] ++ renderLines ls = pfxM3u ++ '\n' :: renderLines ls := by simp
  rw [e]
  unfold parseMediaWith assembleMedia
  rw [hs]; simp only []
  have : lineItems r = (ls.map Line.norm).map Res.ok := by
    unfold lineItems
    rw [hr]
    have := rawLines_append_nl [] (renderLines ls) (by simp)
    simp only [List.nil_append] at this
    rw [this]
    have hk : keepLine [] = [] := rfl
    rw [hk, List.nil_append]
    exact lineItems_renderLines ls h
  rw [this, foldRes_liftItem_map_ok, foldRes_norm mediaStep mediaStep_norm]

/-- … — master -/
theorem parseMaster_of_written (ls : List Line) (h : ∀ l ∈ ls, LineRT l) :
    parseMaster (pfxM3u ++ ['\n'] ++ renderLines ls) = assembleMaster ls := by
  have hx := header_strip ('\n' :: renderLines ls)
  obtain ⟨r, hs, hr⟩ := hx
  have e : pfxM3u ++ ['\n'] ++ renderLines ls = pfxM3u ++ '\n' :: renderLines ls := by simp
  rw [e]
  unfold parseMaster assembleMaster
  rw [hs]; simp only []
  have : lineItems r = (ls.map Line.norm).map Res.ok := by
    unfold lineItems
    rw [hr]
    have := rawLines_append_nl [] (renderLines ls) (by simp)
    simp only [List.nil_append] at this
    rw [this]
    have hk : keepLine [] = [] := rfl
    rw [hk, List.nil_append]
    exact lineItems_renderLines ls h
  rw [this, foldRes_liftItem_map_ok, foldRes_norm masterStep masterStep_norm]

end Hls
