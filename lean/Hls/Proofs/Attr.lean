import Hls.Proofs.Num
import Hls.Proofs.RoundTrip
/-!
# Helper lemmas: the attribute-list tokenizer returns what a renderer wrote

`attrPairs_render`: for every list of well-formed pairs (key without `=` and not blank at its ends,
value with balanced quotes, no comma outside quotes, not blank at its ends), each optionally padded
with blanks around the key and around the value, the tokenizer returns exactly the pairs.
-/
namespace Hls

/-- final quote state -/
def qstate : Str → Bool → Bool
  | [], q => q
  | x :: xs, q => if x == '"' then qstate xs (!q) else qstate xs q

/-- no comma outside quotes -/
def noTopComma : Str → Bool → Bool
  | [], _ => true
  | x :: xs, q => if x == '"' then noTopComma xs (!q) else if x == ',' && !q then false else noTopComma xs q

theorem scanValue_append (v rest : Str) (q : Bool) (h : noTopComma v q = true) :
    scanValue (v ++ rest) q = ((v ++ (scanValue rest (qstate v q)).1), (scanValue rest (qstate v q)).2) := by
  induction v generalizing q with
  | nil => simp [qstate]
  | cons x xs ih =>
    simp only [noTopComma] at h
    simp only [List.cons_append, scanValue, qstate]
    split
    · rename_i hq
      simp only [hq, if_true] at h
      rw [ih (!q) h]
    · rename_i hq
      simp only [hq] at h
      split
      · rename_i hc; simp [hc] at h
      · rename_i hc
        simp only [hc] at h
        rw [ih q (by simpa using h)]

theorem qstate_append (a b : Str) (q : Bool) : qstate (a ++ b) q = qstate b (qstate a q) := by
  induction a generalizing q with
  | nil => rfl
  | cons x xs ih => simp only [List.cons_append, qstate]; split <;> exact ih _

theorem noTopComma_append (a b : Str) (q : Bool) :
    noTopComma (a ++ b) q = (noTopComma a q && noTopComma b (qstate a q)) := by
  induction a generalizing q with
  | nil => simp [noTopComma, qstate]
  | cons x xs ih =>
    simp only [List.cons_append, noTopComma, qstate]
    split
    · exact ih _
    · split
      · simp
      · exact ih _

/-- blanks are neither quotes nor commas -/
theorem ws_neutral (w : Str) (hw : w.all isWs = true) (q : Bool) : qstate w q = q ∧ noTopComma w q = true := by
  induction w generalizing q with
  | nil => exact ⟨rfl, rfl⟩
  | cons c cs ih =>
    simp only [List.all_cons, Bool.and_eq_true] at hw
    have hq : (c == '"') = false := by
      cases h : c == '"'
      · rfl
      · have := eq_of_beq h; subst this; have := hw.1; revert this; decide
    have hc : (c == ',') = false := by
      cases h : c == ','
      · rfl
      · have := eq_of_beq h; subst this; have := hw.1; revert this; decide
    simp only [qstate, noTopComma, hq, hc, Bool.false_and, Bool.false_eq_true, if_false]
    exact ih hw.2 q

theorem ws_no_eq (w : Str) (hw : w.all isWs = true) : '=' ∉ w := by
  intro h
  have := List.all_eq_true.mp hw '=' h
  revert this; decide

def notWsEnds (s : Str) : Prop :=
  (∀ c r, s = c :: r → isWs c = false) ∧ (∀ c r, s.reverse = c :: r → isWs c = false)

/-- a key as the tokenizer returns it -/
def wfKey (k : Str) : Prop := '=' ∉ k ∧ k ≠ [] ∧ notWsEnds k
/-- a value as the tokenizer returns it -/
def wfVal (v : Str) : Prop := noTopComma v false = true ∧ qstate v false = false ∧ notWsEnds v

/-- one pair with blanks around key and value -/
structure PaddedPair where
  k : Str
  v : Str
  w1 : Str := []
  w2 : Str := []
  w3 : Str := []
  w4 : Str := []

def PaddedPair.WF (p : PaddedPair) : Prop :=
  wfKey p.k ∧ wfVal p.v ∧ p.w1.all isWs = true ∧ p.w2.all isWs = true ∧ p.w3.all isWs = true ∧ p.w4.all isWs = true

def PaddedPair.render (p : PaddedPair) : Str := p.w1 ++ p.k ++ p.w2 ++ '=' :: (p.w3 ++ p.v ++ p.w4)

def renderPadded : List PaddedPair → Str
  | [] => []
  | [p] => p.render
  | p :: rest => p.render ++ ',' :: renderPadded rest

theorem utf8Len_ge_length (s : Str) : s.length ≤ utf8Len s := by
  induction s with
  | nil => simp [utf8Len]
  | cons x xs ih =>
    have : 1 ≤ x.utf8Size := by
      have := Char.utf8Size_pos x; omega
    simp only [utf8Len, List.map_cons, List.sum_cons, List.length_cons] at *
    omega

theorem render_len (p : PaddedPair) (h : p.WF) : 2 ≤ p.render.length := by
  obtain ⟨⟨_, hk, _⟩, _⟩ := h
  simp only [PaddedPair.render, List.length_append, List.length_cons]
  cases hk' : p.k with
  | nil => exact absurd hk' hk
  | cons a b => simp; omega

theorem keypart (p : PaddedPair) (h : p.WF) : '=' ∉ p.w1 ++ p.k ++ p.w2 ∧ trim (p.w1 ++ p.k ++ p.w2) = p.k := by
  obtain ⟨⟨hk1, _, hk3⟩, _, h1, h2, _, _⟩ := h
  refine ⟨?_, trim_pad _ _ _ h1 h2 hk3.1 hk3.2⟩
  intro hm
  simp only [List.mem_append] at hm
  rcases hm with (hm | hm) | hm
  · exact ws_no_eq _ h1 hm
  · exact hk1 hm
  · exact ws_no_eq _ h2 hm

theorem valpart (p : PaddedPair) (h : p.WF) :
    noTopComma (p.w3 ++ p.v ++ p.w4) false = true ∧ qstate (p.w3 ++ p.v ++ p.w4) false = false ∧
    trim (p.w3 ++ p.v ++ p.w4) = p.v := by
  obtain ⟨_, ⟨hv1, hv2, hv3⟩, _, _, h3, h4⟩ := h
  have a3 := ws_neutral p.w3 h3
  have a4 := ws_neutral p.w4 h4
  refine ⟨?_, ?_, trim_pad _ _ _ h3 h4 hv3.1 hv3.2⟩
  · simp [noTopComma_append, qstate_append, (a3 false).1, (a3 false).2, hv1, hv2, (a4 false).2]
  · simp [qstate_append, (a3 false).1, hv2, (a4 false).1]

/-- **the tokenizer inverts the renderer** -/
theorem attrPairs_render (ps : List PaddedPair) (h : ∀ p ∈ ps, p.WF) :
    attrPairs (renderPadded ps) = ps.map fun p => (p.k, p.v) := by
  induction ps with
  | nil => unfold attrPairs; simp [renderPadded, utf8Len]
  | cons p rest ih =>
    have hp := h p (by simp)
    obtain ⟨hkn, hkt⟩ := keypart p hp
    obtain ⟨hv1, hv2, hvt⟩ := valpart p hp
    cases rest with
    | nil =>
      unfold attrPairs
      have hlen : ¬ utf8Len (renderPadded [p]) < 2 := by
        have := utf8Len_ge_length (renderPadded [p])
        have := render_len p hp
        simp only [renderPadded] at *; omega
      simp only [hlen, if_false]
      have hs : splitFirst '=' (renderPadded [p]) = some (p.w1 ++ p.k ++ p.w2, p.w3 ++ p.v ++ p.w4) := by
        simp only [renderPadded, PaddedPair.render]
        exact splitFirst_append '=' _ _ hkn
      have hsv : scanValue (p.w3 ++ p.v ++ p.w4) false = (p.w3 ++ p.v ++ p.w4, none) := by
        have := scanValue_append (p.w3 ++ p.v ++ p.w4) [] false hv1
        simpa [scanValue] using this
      split
      · rename_i heq; rw [hs] at heq; cases heq
      · rename_i k' r' heq
        rw [hs] at heq; cases heq
        split
        · rename_i v' heq2; rw [hsv] at heq2; cases heq2
          simp only [List.append_assoc] at hkt hvt
          simp [hkt, hvt]
        · rename_i v' rem heq2; rw [hsv] at heq2; cases heq2
    | cons p2 rest2 =>
      have ih' := ih (fun q hq => h q (by simp [hq]))
      unfold attrPairs
      have hlen : ¬ utf8Len (renderPadded (p :: p2 :: rest2)) < 2 := by
        have := utf8Len_ge_length (renderPadded (p :: p2 :: rest2))
        have := render_len p hp
        simp only [renderPadded, List.length_append, List.length_cons] at *; omega
      simp only [hlen, if_false]
      have hs : splitFirst '=' (renderPadded (p :: p2 :: rest2)) =
          some (p.w1 ++ p.k ++ p.w2, (p.w3 ++ p.v ++ p.w4) ++ ',' :: renderPadded (p2 :: rest2)) := by
        simp only [renderPadded, PaddedPair.render, List.append_assoc, List.cons_append]
        have := splitFirst_append '=' (p.w1 ++ p.k ++ p.w2) (p.w3 ++ (p.v ++ (p.w4 ++ ',' :: renderPadded (p2 :: rest2)))) hkn
        simpa [List.append_assoc] using this
      have hsv : scanValue ((p.w3 ++ p.v ++ p.w4) ++ ',' :: renderPadded (p2 :: rest2)) false =
          (p.w3 ++ p.v ++ p.w4, some (renderPadded (p2 :: rest2))) := by
        have := scanValue_append (p.w3 ++ p.v ++ p.w4) (',' :: renderPadded (p2 :: rest2)) false hv1
        rw [this, hv2]; simp [scanValue]
      split
      · rename_i heq; rw [hs] at heq; cases heq
      · rename_i k' r' heq
        rw [hs] at heq; cases heq
        split
        · rename_i v' heq2; rw [hsv] at heq2; cases heq2
        · rename_i v' rem heq2; rw [hsv] at heq2; cases heq2
          simp only [List.append_assoc] at hkt hvt
          simp [hkt, hvt, ih']

/-! ## quoting -/

theorem unquote_quote (s : Str) (h : s.all (fun c => !badQ c) = true) : unquote (quote s) = s := by
  have hf : s.filter (· != '"') = s := by
    apply List.filter_eq_self.mpr
    intro c hc
    have := List.all_eq_true.mp h c hc
    simp [badQ] at this ⊢
    exact this.1.1
  unfold quote
  rw [hf]
  simp only [unquote, List.reverse_append, List.reverse_cons, List.reverse_nil, List.nil_append, List.cons_append, List.reverse_reverse]
  have : s.any badQ = false := by
    rw [List.any_eq_false]
    intro c hc
    have := List.all_eq_true.mp h c hc
    simpa using this
  simp [this]

/-- a quoted string is a well-formed attribute value (commas and `=` inside do not split it) -/
theorem wfVal_quote (s : Str) (h : s.all (fun c => !badQ c) = true) : wfVal (quote s) := by
  have hf : s.filter (· != '"') = s := by
    apply List.filter_eq_self.mpr
    intro c hc
    have := List.all_eq_true.mp h c hc
    simp [badQ] at this ⊢
    exact this.1.1
  have hnq : ∀ c ∈ s, (c == '"') = false := by
    intro c hc
    have := List.all_eq_true.mp h c hc
    simp [badQ] at this
    simp [this.1.1]
  have key : ∀ (t : Str), (∀ c ∈ t, (c == '"') = false) → noTopComma (t ++ ['"']) true = true ∧ qstate (t ++ ['"']) true = false := by
    intro t ht
    induction t with
    | nil => simp [noTopComma, qstate]
    | cons c cs ih =>
      have hc := ht c (by simp)
      simp only [List.cons_append, noTopComma, qstate, hc, Bool.false_eq_true, if_false, Bool.not_true, Bool.and_false]
      exact ih (fun d hd => ht d (by simp [hd]))
  unfold quote; rw [hf]
  refine ⟨?_, ?_, ?_, ?_⟩
  · simp only [List.cons_append, noTopComma, beq_self_eq_true, if_true, Bool.not_false]; exact (key s hnq).1
  · simp only [List.cons_append, qstate, beq_self_eq_true, if_true, Bool.not_false]; exact (key s hnq).2
  · intro c r e; simp only [List.cons_append, List.cons.injEq] at e; rw [← e.1]; decide
  · intro c r e; simp only [List.cons_append, List.reverse_cons, List.reverse_append, List.reverse_nil, List.nil_append,
      List.cons_append, List.cons.injEq] at e; rw [← e.1]; decide

end Hls
