import Hls.Model.Flt
import Hls.Model.Types
import Hls.Proofs.Num
/-!
# Printing a float and reading it back (FL1 as a theorem)

`displayFV` prints the digits found by `shortestTry`, a search whose acceptance test (`readsBack`) is the
model's own `ofDec` — the definition of "shortest digits that round-trip". This file proves that the text
`displayFV` makes from those digits is read by `parseFloat` as exactly those digits, hence as the same
float, for every format, sign, mantissa and exponent for which the search finds digits at all
(`(shortest f m e).1 ≠ 0`; the search has fuel for 20 significant digits, 17 are enough for binary64).
-/
namespace Hls

/-! ## digits -/

theorem digit10_cases (d : Nat) (h : d < 10) :
    d = 0 ∨ d = 1 ∨ d = 2 ∨ d = 3 ∨ d = 4 ∨ d = 5 ∨ d = 6 ∨ d = 7 ∨ d = 8 ∨ d = 9 := by omega

theorem isDigit_digitChar (d : Nat) (h : d < 10) : isDigit (digitChar d) = true := by
  rcases digit10_cases d h with rfl|rfl|rfl|rfl|rfl|rfl|rfl|rfl|rfl|rfl <;> decide

theorem digitVal_digitChar (d : Nat) (h : d < 10) : digitVal (digitChar d) = d := by
  rcases digit10_cases d h with rfl|rfl|rfl|rfl|rfl|rfl|rfl|rfl|rfl|rfl <;> decide

theorem showNat_allDigits (n : Nat) : (showNat n).all isDigit = true := by
  rw [List.all_eq_true]
  intro c hc
  obtain ⟨d, hd, rfl⟩ := showNat_digits n c hc
  exact isDigit_digitChar d hd

theorem foldl_digits (l : Str) (acc : Nat) :
    l.foldl (fun acc c => acc * 10 + digitVal c) acc = acc * 10 ^ l.length + digitsToNat l := by
  induction l generalizing acc with
  | nil => simp [digitsToNat]
  | cons c cs ih =>
    simp only [List.foldl_cons, digitsToNat, List.length_cons]
    rw [ih (acc * 10 + digitVal c), ih (0 * 10 + digitVal c)]
    simp only [Nat.zero_mul, Nat.zero_add, Nat.pow_succ]
    rw [Nat.add_mul, Nat.add_assoc]
    congr 1
    rw [Nat.mul_assoc, Nat.mul_comm 10]

theorem digitsToNat_append (a b : Str) :
    digitsToNat (a ++ b) = digitsToNat a * 10 ^ b.length + digitsToNat b := by
  unfold digitsToNat
  rw [List.foldl_append, foldl_digits]
  rfl

theorem digitsToNat_showNat (n : Nat) : digitsToNat (showNat n) = n := by
  induction n using Nat.strongRecOn with
  | _ n ih =>
    rw [showNat]
    split
    · rename_i h; simp [digitsToNat, digitVal_digitChar n h]
    · rename_i h
      rw [digitsToNat_append, ih (n / 10) (by omega)]
      have hd : n % 10 < 10 := Nat.mod_lt _ (by omega)
      simp [digitsToNat, digitVal_digitChar _ hd]
      omega

theorem digitsToNat_zeros (k : Nat) : digitsToNat (List.replicate k '0') = 0 := by
  induction k with
  | zero => rfl
  | succ k ih =>
    rw [List.replicate_succ, ← List.singleton_append, digitsToNat_append, ih]
    have : digitsToNat ['0'] = 0 := by decide
    rw [this]; simp

theorem zeros_allDigits (k : Nat) : (List.replicate k '0').all isDigit = true := by
  rw [List.all_eq_true]; intro c hc; rw [List.mem_replicate] at hc; rw [hc.2]; decide

theorem takeWhile_digits_append (a b : Str) (ha : a.all isDigit = true) :
    (a ++ b).takeWhile isDigit = a ++ b.takeWhile isDigit := by
  induction a with
  | nil => rfl
  | cons c cs ih =>
    simp only [List.all_cons, Bool.and_eq_true] at ha
    simp [List.takeWhile, ha.1, ih ha.2]

theorem dropWhile_digits_append (a b : Str) (ha : a.all isDigit = true) :
    (a ++ b).dropWhile isDigit = b.dropWhile isDigit := by
  induction a with
  | nil => rfl
  | cons c cs ih =>
    simp only [List.all_cons, Bool.and_eq_true] at ha
    simp [List.dropWhile, ha.1, ih ha.2]

theorem takeWhile_all (a : Str) (ha : a.all isDigit = true) : a.takeWhile isDigit = a := by
  have := takeWhile_digits_append a [] ha; simpa using this

theorem dropWhile_all (a : Str) (ha : a.all isDigit = true) : a.dropWhile isDigit = [] := by
  have := dropWhile_digits_append a [] ha; simpa using this

theorem showNat_mul_ten (n : Nat) (h : n ≠ 0) : showNat (n * 10) = showNat n ++ ['0'] := by
  rw [showNat]
  have h1 : ¬ n * 10 < 10 := by omega
  have h2 : n * 10 / 10 = n := by omega
  have h3 : n * 10 % 10 = 0 := by omega
  simp only [h1, if_false, h2, h3]
  rfl

theorem showNat_mul_pow (n k : Nat) (h : n ≠ 0) : showNat (n * 10 ^ k) = showNat n ++ List.replicate k '0' := by
  induction k with
  | zero => simp
  | succ k ih =>
    have hne : n * 10 ^ k ≠ 0 := Nat.mul_ne_zero h (Nat.pos_iff_ne_zero.mp (Nat.pow_pos (by decide)))
    rw [Nat.pow_succ, ← Nat.mul_assoc, showNat_mul_ten _ hne, ih, List.append_assoc]
    congr 1
    rw [List.replicate_succ']

theorem numDigits_mul_pow (n k : Nat) (h : n ≠ 0) : numDigits (n * 10 ^ k) = numDigits n + k := by
  unfold numDigits; rw [showNat_mul_pow n k h]; simp

/-! ## the three layouts of `displayFV` -/

/-- the unsigned text of the digits `c · 10^sx` -/
def layout (c : Nat) (sx : Int) : Str :=
  let ds := showNat c
  if sx ≥ 0 then ds ++ List.replicate sx.toNat '0'
  else
    let fr := (-sx).toNat
    if ds.length > fr then ds.take (ds.length - fr) ++ ['.'] ++ ds.drop (ds.length - fr)
    else "0.".toList ++ List.replicate (fr - ds.length) '0' ++ ds

theorem displayFV_fin (f : Fmt) (neg : Bool) (m : Nat) (e : Int) (c : Nat) (sx : Int)
    (h : shortest f m e = (c, sx)) :
    displayFV f (.fin neg m e) =
      (if neg then ['-'] else []) ++ (if c = 0 then ['0'] else layout c sx) := by
  simp only [displayFV, layout, h]
  by_cases hc : c = 0
  · simp [hc]
  · simp only [beq_iff_eq, hc, if_false]
    by_cases hs : sx ≥ 0
    · simp [hs]
    · simp only [hs, if_false]
      split <;> simp

theorem take_all (l : Str) (k : Nat) (h : l.all isDigit = true) : (l.take k).all isDigit = true := by
  rw [List.all_eq_true] at *; intro c hc; exact h c (List.mem_of_mem_take hc)
theorem drop_all (l : Str) (k : Nat) (h : l.all isDigit = true) : (l.drop k).all isDigit = true := by
  rw [List.all_eq_true] at *; intro c hc; exact h c (List.mem_of_mem_drop hc)

/-- what `parseFloatBody` reads from a layout: digits `D`, exponent `x` with `ofDec D x = ofDec c sx` -/
theorem parseFloatBody_layout (f : Fmt) (neg : Bool) (c : Nat) (sx : Int) (hc : c ≠ 0) :
    ∃ D x, parseFloatBody neg (layout c sx) = some (.num neg D x) ∧ ofDec f neg D x = ofDec f neg c sx := by
  have hds := showNat_allDigits c
  have hne := showNat_ne_nil c
  unfold layout
  by_cases hs : sx ≥ 0
  · simp only [hs, if_true]
    have hall : (showNat c ++ List.replicate sx.toNat '0').all isDigit = true := by
      rw [List.all_append, hds, zeros_allDigits]; rfl
    refine ⟨c * 10 ^ sx.toNat, 0, ?_, ?_⟩
    · unfold parseFloatBody
      have hemp : (showNat c ++ List.replicate sx.toNat '0').isEmpty = false := by
        cases h : showNat c with
        | nil => exact absurd h hne
        | cons _ _ => rfl
      simp only [hemp, Bool.false_eq_true, if_false, takeWhile_all _ hall, dropWhile_all _ hall]
      simp only [hemp, Bool.false_and, Bool.false_eq_true, if_false, List.append_nil, List.length_nil]
      rw [digitsToNat_append, digitsToNat_showNat, digitsToNat_zeros]
      simp
    · unfold ofDec
      have hD : c * 10 ^ sx.toNat ≠ 0 :=
        Nat.mul_ne_zero hc (Nat.pos_iff_ne_zero.mp (Nat.pow_pos (by decide)))
      have hsx : (sx.toNat : Int) = sx := Int.toNat_of_nonneg hs
      simp only [beq_iff_eq, hD, hc, if_false, numDigits_mul_pow c _ hc]
      have e1 : (0 : Int) + Int.ofNat (numDigits c + sx.toNat) = sx + Int.ofNat (numDigits c) := by
        simp only [Int.ofNat_eq_natCast, Int.natCast_add, hsx]; omega
      rw [e1]
      simp [hs]
  · simp only [hs, if_false]
    have hsx : ((-sx).toNat : Int) = -sx := Int.toNat_of_nonneg (by omega)
    by_cases hl : (showNat c).length > (-sx).toNat
    · simp only [hl, if_true]
      refine ⟨c, sx, ?_, rfl⟩
      generalize hk : (showNat c).length - (-sx).toNat = k
      have hkpos : 0 < k := by omega
      have htake := take_all (showNat c) k hds
      have hdrop := drop_all (showNat c) k hds
      unfold parseFloatBody
      have hemp : (List.take k (showNat c) ++ ['.'] ++ List.drop k (showNat c)).isEmpty = false := by
        cases h : List.take k (showNat c) with
        | nil =>
          have := congrArg List.length h
          rw [List.length_take, List.length_nil] at this; omega
        | cons _ _ => rfl
      have htne : (List.take k (showNat c)).isEmpty = false := by
        cases h : List.take k (showNat c) with
        | nil =>
          have := congrArg List.length h
          rw [List.length_take, List.length_nil] at this; omega
        | cons _ _ => rfl
      simp only [hemp, Bool.false_eq_true, if_false, List.append_assoc, List.singleton_append]
      rw [takeWhile_digits_append _ _ htake, dropWhile_digits_append _ _ htake]
      simp only [List.takeWhile, List.dropWhile, show isDigit '.' = false by decide, List.append_nil,
        takeWhile_all _ hdrop, dropWhile_all _ hdrop, htne, Bool.false_and, Bool.false_eq_true, if_false,
        List.take_append_drop, digitsToNat_showNat]
      have : ((List.drop k (showNat c)).length : Int) = -sx := by
        rw [List.length_drop]; omega
      simp only [Int.ofNat_eq_natCast, this]
      simp
    · simp only [hl, if_false]
      refine ⟨c, sx, ?_, rfl⟩
      have hz := zeros_allDigits ((-sx).toNat - (showNat c).length)
      have hfp : (List.replicate ((-sx).toNat - (showNat c).length) '0' ++ showNat c).all isDigit = true := by
        rw [List.all_append, hz, hds]; rfl
      have hb : "0.".toList ++ List.replicate ((-sx).toNat - (showNat c).length) '0' ++ showNat c =
          '0' :: '.' :: (List.replicate ((-sx).toNat - (showNat c).length) '0' ++ showNat c) := rfl
      rw [hb]
      unfold parseFloatBody
      simp only [List.isEmpty_cons, Bool.false_eq_true, if_false,
        List.takeWhile, List.dropWhile, show isDigit '0' = true by decide, show isDigit '.' = false by decide,
        takeWhile_all _ hfp, dropWhile_all _ hfp, Bool.false_and]
      have hD : digitsToNat ('0' :: (List.replicate ((-sx).toNat - (showNat c).length) '0' ++ showNat c)) = c := by
        rw [← List.singleton_append, digitsToNat_append, digitsToNat_append, digitsToNat_zeros, digitsToNat_showNat]
        simp [digitsToNat, digitVal]
      simp only [List.singleton_append, hD]
      have : ((List.replicate ((-sx).toNat - (showNat c).length) '0' ++ showNat c).length : Int) = -sx := by
        rw [List.length_append, List.length_replicate]; omega
      simp only [Int.ofNat_eq_natCast, this]
      simp

/-! ## the search returns digits that read back -/

theorem readsBack_ok (f : Fmt) (m : Nat) (e : Int) (c : Nat) (sx : Int) (h : readsBack f m e c sx = true) :
    ofDec f false (stripZeros c sx 40).1 (stripZeros c sx 40).2 = .fin false m e := by
  unfold readsBack at h; simpa using h

theorem pickDigits_ok (f : Fmt) (m : Nat) (e : Int) (num den : Nat) (sx : Int) (r : Nat × Int)
    (h : pickDigits f m e num den sx = some r) : ofDec f false r.1 r.2 = .fin false m e := by
  unfold pickDigits at h
  simp only at h
  split at h
  · rename_i h1 h2
    injection h with h; subst h
    split
    · exact readsBack_ok _ _ _ _ _ h2
    · exact readsBack_ok _ _ _ _ _ h1
  · rename_i h1 h2; injection h with h; subst h; exact readsBack_ok _ _ _ _ _ h1
  · rename_i h1 h2; injection h with h; subst h; exact readsBack_ok _ _ _ _ _ h2
  · exact absurd h (by simp)

theorem shortestTry_ok (f : Fmt) (m : Nat) (e : Int) (n d : Nat) (k : Int) (fuel nd : Nat) :
    (shortestTry f m e n d k nd fuel).1 ≠ 0 →
    ofDec f false (shortestTry f m e n d k nd fuel).1 (shortestTry f m e n d k nd fuel).2 = .fin false m e := by
  induction fuel generalizing nd with
  | zero => intro h; exact absurd rfl h
  | succ fuel ih =>
    intro h
    unfold shortestTry at h ⊢
    simp only at h ⊢
    split
    · rename_i r hr; exact pickDigits_ok _ _ _ _ _ _ _ hr
    · rename_i hr
      rw [hr] at h
      exact ih (nd + 1) h

theorem shortest_ok (f : Fmt) (m : Nat) (e : Int) (h : (shortest f m e).1 ≠ 0) :
    ofDec f false (shortest f m e).1 (shortest f m e).2 = .fin false m e := by
  unfold shortest at h ⊢
  split at h
  · exact absurd rfl h
  · rename_i hm
    simp only [hm, if_false] at ⊢
    exact shortestTry_ok _ _ _ _ _ _ _ _ h

/-! ## the sign is carried through unchanged -/

def FV.withSign (neg : Bool) : FV → FV
  | .fin _ m e => .fin neg m e
  | .inf _ => .inf neg
  | .nan => .nan

theorem roundRat_sign (f : Fmt) (neg : Bool) (n d : Nat) :
    roundRat f neg n d = (roundRat f false n d).withSign neg := by
  unfold roundRat
  simp only
  repeat' split
  all_goals rfl

theorem ofDec_sign (f : Fmt) (neg : Bool) (D : Nat) (x : Int) :
    ofDec f neg D x = (ofDec f false D x).withSign neg := by
  unfold ofDec
  repeat' split
  all_goals first | rfl | exact roundRat_sign ..

/-! ## `parseFloat (display v) = v` -/

theorem parseFloatLit_signed (neg : Bool) (body : Str) (hb : ∀ r, body ≠ '-' :: r ∧ body ≠ '+' :: r) :
    parseFloatLit ((if neg then ['-'] else []) ++ body) = parseFloatBody neg body := by
  cases neg with
  | true => rfl
  | false =>
    simp only [Bool.false_eq_true, if_false, List.nil_append]
    unfold parseFloatLit
    split
    · rename_i r; exact absurd rfl (hb r).1
    · rename_i r; exact absurd rfl (hb r).2
    · rfl

theorem showNat_head_digit (n : Nat) : ∃ c r, showNat n = c :: r ∧ isDigit c = true := by
  cases h : showNat n with
  | nil => exact absurd h (showNat_ne_nil n)
  | cons c r =>
    refine ⟨c, r, rfl, ?_⟩
    have := showNat_allDigits n
    rw [h] at this
    simp only [List.all_cons, Bool.and_eq_true] at this
    exact this.1

theorem layout_head (c : Nat) (sx : Int) : ∀ r, layout c sx ≠ '-' :: r ∧ layout c sx ≠ '+' :: r := by
  obtain ⟨h, t, hs, hd⟩ := showNat_head_digit c
  have hm : h ≠ '-' := by intro e; rw [e] at hd; revert hd; decide
  have hp : h ≠ '+' := by intro e; rw [e] at hd; revert hd; decide
  intro r
  unfold layout
  simp only
  split
  · rw [hs]; simp [hm, hp]
  · split
    · rename_i hl
      have hk : (showNat c).length - (-sx).toNat = (showNat c).length - (-sx).toNat - 1 + 1 := by omega
      rw [hk, hs, List.take_succ_cons]
      simp [hm, hp]
    · constructor <;> (intro e; injection e with e1 _; revert e1; decide)

/-- **FL1, for every format**: the text printed for a finite value is read back as that value,
whenever the digit search succeeded. -/
theorem parseFloat_display (f : Fmt) (neg : Bool) (m : Nat) (e : Int) (h : (shortest f m e).1 ≠ 0) :
    parseFloat f (displayFV f (.fin neg m e)) = some (.fin neg m e) := by
  have hok := shortest_ok f m e h
  cases hs : shortest f m e with
  | mk c sx =>
    rw [hs] at hok h
    simp only at hok h
    rw [displayFV_fin f neg m e c sx hs]
    simp only [h, if_false]
    unfold parseFloat
    rw [parseFloatLit_signed neg _ (layout_head c sx)]
    obtain ⟨D, x, hp, hd⟩ := parseFloatBody_layout f neg c sx h
    rw [hp]
    simp only
    rw [hd, ofDec_sign, hok]
    rfl

/-- zero: printed as `0` / `-0`, read back as the zero of that sign -/
theorem parseFloat_display_zero (f : Fmt) (neg : Bool) (e : Int) :
    parseFloat f (displayFV f (.fin neg 0 e)) = some (.fin neg 0 f.emin) := by
  have hs : shortest f 0 e = (0, 0) := by unfold shortest; simp
  rw [displayFV_fin f neg 0 e 0 0 hs]
  cases neg <;> rfl

/-- a decimal digit character -/
def IsDig (ch : Char) : Prop := ∃ d, d < 10 ∧ ch = digitChar d

theorem isDig_zero : IsDig '0' := ⟨0, by decide, by decide⟩

/-- the characters of a printed finite value: digits, at most one `.`, a leading `-` -/
theorem displayFV_chars (f : Fmt) (neg : Bool) (m : Nat) (e : Int) :
    ∀ ch ∈ displayFV f (.fin neg m e), IsDig ch ∨ ch = '.' ∨ ch = '-' := by
  cases hs : shortest f m e with
  | mk c sx =>
    rw [displayFV_fin f neg m e c sx hs]
    intro ch hch
    have hd : ∀ ch ∈ showNat c, IsDig ch := showNat_digits c
    rcases List.mem_append.mp hch with h1 | h1
    · cases neg with
      | true => simp at h1; exact Or.inr (Or.inr h1)
      | false => simp at h1
    · split at h1
      · simp at h1; left; rw [h1]; exact isDig_zero
      · unfold layout at h1
        simp only at h1
        split at h1
        · rcases List.mem_append.mp h1 with h2 | h2
          · exact Or.inl (hd _ h2)
          · rw [List.mem_replicate] at h2; left; rw [h2.2]; exact isDig_zero
        · split at h1
          · simp only [List.append_assoc, List.mem_append, List.mem_singleton, List.mem_cons, List.not_mem_nil, or_false] at h1
            rcases h1 with h2 | h2 | h2
            · exact Or.inl (hd _ (List.mem_of_mem_take h2))
            · exact Or.inr (Or.inl h2)
            · exact Or.inl (hd _ (List.mem_of_mem_drop h2))
          · simp only [List.mem_append] at h1
            rcases h1 with (h2 | h2) | h2
            · have : ch = '0' ∨ ch = '.' := by simpa using h2
              rcases this with rfl | rfl
              · left; exact isDig_zero
              · exact Or.inr (Or.inl rfl)
            · rw [List.mem_replicate] at h2; left; rw [h2.2]; exact isDig_zero
            · exact Or.inl (hd _ h2)

end Hls

namespace Hls

/-! ## binary32 bit patterns -/

theorem f32Bits_ofBits (b : Nat) (hb : b < 2 ^ 32) (hfin : b / 2 ^ 23 % 256 ≠ 255) :
    f32Bits (f32OfBits b) = b := by
  have p31 : (2:Nat) ^ 31 = 2147483648 := by decide
  have p23 : (2:Nat) ^ 23 = 8388608 := by decide
  have p32 : (2:Nat) ^ 32 = 4294967296 := by decide
  rw [p32] at hb
  rw [p23] at hfin
  unfold f32OfBits
  simp only [p31, p23, beq_iff_eq, hfin, if_false]
  by_cases hex : b / 8388608 % 256 = 0
  · simp only [hex, if_true]
    by_cases hfr : b % 8388608 = 0
    · simp only [hfr, if_true]
      unfold f32Bits
      simp only [beq_self_eq_true, if_true, p31]
      by_cases hn : b / 2147483648 % 2 = 1
      · simp [hn]; omega
      · simp [hn]; omega
    · simp only [hfr, if_false]
      unfold f32Bits
      simp only [beq_iff_eq, hfr, if_false, p31, p23]
      have : b % 8388608 < 8388608 := Nat.mod_lt _ (by decide)
      simp only [this, if_true]
      by_cases hn : b / 2147483648 % 2 = 1
      · simp [hn]; omega
      · simp [hn]; omega
  · simp only [hex, if_false]
    unfold f32Bits
    simp only [beq_iff_eq, p31, p23]
    have h1 : ¬ (b % 8388608 + 8388608 = 0) := by omega
    have h2 : ¬ (b % 8388608 + 8388608 < 8388608) := by omega
    simp only [h1, h2, if_false]
    have h3 : (Int.ofNat (b / 8388608 % 256) - 150 + 150).toNat = b / 8388608 % 256 := by
      have : Int.ofNat (b / 8388608 % 256) - 150 + 150 = ((b / 8388608 % 256 : Nat) : Int) := by
        simp only [Int.ofNat_eq_natCast]; omega
      rw [this]; exact Int.toNat_natCast _
    rw [h3]
    by_cases hn : b / 2147483648 % 2 = 1
    · simp [hn]; omega
    · simp [hn]; omega

end Hls
