import Hls.Proofs.TagRT
/-!
# `LineRT` for the tags without an attribute list
-/
namespace Hls

theorem siPfx_false (pfx x : Str) (h : ∀ r, startsWith (pfx ++ r) siPfx = false) : startsWith (pfx ++ x) siPfx = false := h x

theorem lineRT_flag (l : Line) (pfx : Str) (hr : l.render = pfx) (hp : PfxOK pfx) (hnl : '\n' ∉ pfx)
    (hsi : startsWith pfx siPfx = false) (hc : classify1 pfx = .ok l) (hnm : l.norm = l)
    (hnv : ∀ uri fr au su cc d, l ≠ .variant (.extXStreamInf uri fr au su cc d)) : LineRT l := by
  have core : '\n' ∉ l.render ∧ trim l.render = l.render ∧ l.render ≠ [] ∧ startsWith l.render siPfx = false ∧
      classify1 l.render = .ok l.norm := by
    rw [hr, hnm]
    exact ⟨hnl, trim_id pfx hp.1 hp.2.2, hp.2.1, hsi, hc⟩
  cases l with
  | variant v =>
    cases v with
    | extXIFrame u d => exact core
    | extXStreamInf uri fr au su cc d => exact absurd rfl (hnv uri fr au su cc d)
  | _ => exact core

theorem lineRT_endList : LineRT .endList := by
  apply lineRT_flag _ pfxEndList rfl
  · unfold pfxEndList; exact pfxOK_of _ (by simp [isWs]) (by simp)
  · unfold pfxEndList; simp
  · unfold pfxEndList siPfx Generated.streamInfPrefix; simp [startsWith, List.isPrefixOf]
  · rw [classify1_ext _ (by unfold pfxEndList; simp [startsWith, List.isPrefixOf]), dispatch_endList]
  · rfl
  · intros; simp

theorem lineRT_iFramesOnly : LineRT .iFramesOnly := by
  apply lineRT_flag _ pfxIFramesOnly rfl
  · unfold pfxIFramesOnly; exact pfxOK_of _ (by simp [isWs]) (by simp)
  · unfold pfxIFramesOnly; simp
  · unfold pfxIFramesOnly siPfx Generated.streamInfPrefix; simp [startsWith, List.isPrefixOf]
  · rw [classify1_ext _ (by unfold pfxIFramesOnly; simp [startsWith, List.isPrefixOf]), dispatch_iFramesOnly]
  · rfl
  · intros; simp

theorem lineRT_independentSegments : LineRT .independentSegments := by
  apply lineRT_flag _ pfxIndependentSegments rfl
  · unfold pfxIndependentSegments; exact pfxOK_of _ (by simp [isWs]) (by simp)
  · unfold pfxIndependentSegments; simp
  · unfold pfxIndependentSegments siPfx Generated.streamInfPrefix; simp [startsWith, List.isPrefixOf]
  · rw [classify1_ext _ (by unfold pfxIndependentSegments; simp [startsWith, List.isPrefixOf]), dispatch_independentSegments]
  · rfl
  · intros; simp

theorem lineRT_discontinuity : LineRT .discontinuity := by
  apply lineRT_flag _ pfxDiscontinuity rfl
  · unfold pfxDiscontinuity; exact pfxOK_of _ (by simp [isWs]) (by simp)
  · unfold pfxDiscontinuity; simp
  · unfold pfxDiscontinuity siPfx Generated.streamInfPrefix; simp [startsWith, List.isPrefixOf]
  · rw [classify1_ext _ (by unfold pfxDiscontinuity; simp [startsWith, List.isPrefixOf]), dispatch_discontinuity]
  · rfl
  · intros; simp

/-- a tag line `pfx ++ x` with a plain (unquoted, blank-free) value -/
theorem lineRT_value (l : Line) (pfx x : Str) (hr : l.render = pfx ++ x) (hp : PfxOK pfx) (hnl : '\n' ∉ pfx) (hx : plainVal x = true)
    (hsi : startsWith (pfx ++ x) siPfx = false) (hc : trim (pfx ++ x) = pfx ++ x → classify1 (pfx ++ x) = .ok l) (hnm : l.norm = l)
    (hnv : ∀ uri fr au su cc d, l ≠ .variant (.extXStreamInf uri fr au su cc d)) : LineRT l := by
  obtain ⟨a, b, c⟩ := lineRT_parts pfx x hp (endsOk_plain x hx) hnl (nl_notin_plain x hx)
  have core : '\n' ∉ l.render ∧ trim l.render = l.render ∧ l.render ≠ [] ∧ startsWith l.render siPfx = false ∧
      classify1 l.render = .ok l.norm := by
    rw [hr, hnm]; exact ⟨a, b, c, hsi, hc b⟩
  cases l with
  | variant v =>
    cases v with
    | extXIFrame u d => exact core
    | extXStreamInf uri fr au su cc d => exact absurd rfl (hnv uri fr au su cc d)
  | _ => exact core

theorem lineRT_mediaSequence (n : Nat) (h : n < 2 ^ 64) : LineRT (.mediaSequence n) := by
  apply lineRT_value _ pfxMediaSequence (showNat n) rfl
  · unfold pfxMediaSequence; exact pfxOK_of _ (by simp [isWs]) (by simp)
  · unfold pfxMediaSequence; simp
  · exact plain_showNat n
  · unfold pfxMediaSequence siPfx Generated.streamInfPrefix; simp [startsWith, List.isPrefixOf]
  · intro ht
    rw [classify1_ext _ (C12.ext_prefix _ _ (by unfold pfxMediaSequence; simp [startsWith, List.isPrefixOf])), dispatch_mediaSequence]
    simp only [ExtXMediaSequence.parse, C12.stripTag_line _ _ ht, Res.bind_ok, parseNat_showNat 64 n h, Res.map]
  · rfl
  · intros; simp

theorem lineRT_discontinuitySequence (n : Nat) (h : n < 2 ^ 64) : LineRT (.discontinuitySequence n) := by
  apply lineRT_value _ pfxDiscontinuitySequence (showNat n) rfl
  · unfold pfxDiscontinuitySequence; exact pfxOK_of _ (by simp [isWs]) (by simp)
  · unfold pfxDiscontinuitySequence; simp
  · exact plain_showNat n
  · unfold pfxDiscontinuitySequence siPfx Generated.streamInfPrefix; simp [startsWith, List.isPrefixOf]
  · intro ht
    rw [classify1_ext _ (C12.ext_prefix _ _ (by unfold pfxDiscontinuitySequence; simp [startsWith, List.isPrefixOf])),
      dispatch_discontinuitySequence]
    simp only [ExtXDiscontinuitySequence.parse, C12.stripTag_line _ _ ht, Res.bind_ok, parseNat_showNat 64 n h, Res.map]
  · rfl
  · intros; simp

/-- target durations are whole seconds that fit in 64 bits (what the tag can carry) -/
theorem lineRT_targetDuration (d : Nat) (hw : d % nanosPerSec = 0) (h : d / nanosPerSec < 2 ^ 64) : LineRT (.targetDuration d) := by
  apply lineRT_value _ pfxTargetDuration (showNat (d / nanosPerSec)) rfl
  · unfold pfxTargetDuration; exact pfxOK_of _ (by simp [isWs]) (by simp)
  · unfold pfxTargetDuration; simp
  · exact plain_showNat _
  · unfold pfxTargetDuration siPfx Generated.streamInfPrefix; simp [startsWith, List.isPrefixOf]
  · intro ht
    rw [classify1_ext _ (C12.ext_prefix _ _ (by unfold pfxTargetDuration; simp [startsWith, List.isPrefixOf])), dispatch_targetDuration]
    simp only [ExtXTargetDuration.parse, C12.stripTag_line _ _ ht, Res.bind_ok, parseNat_showNat 64 _ h, Res.map, Res.pure_eq]
    have : d / nanosPerSec * nanosPerSec = d := by
      have := Nat.div_add_mod d nanosPerSec
      rw [hw] at this; rw [Nat.mul_comm]; omega
    rw [this]
  · rfl
  · intros; simp

theorem lineRT_byteRange (r : ByteRange) (h : r.WF) : LineRT (.byteRange r) := by
  have hplain : plainVal r.show = true := by
    unfold ByteRange.show
    cases r.start with
    | none => simpa using plain_showNat r.len
    | some s => exact plain_append _ _ (plain_showNat _) (plain_append ['@'] _ (by decide) (plain_showNat s))
  apply lineRT_value _ pfxByteRange r.show rfl
  · unfold pfxByteRange; exact pfxOK_of _ (by simp [isWs]) (by simp)
  · unfold pfxByteRange; simp
  · exact hplain
  · unfold pfxByteRange siPfx Generated.streamInfPrefix; simp [startsWith, List.isPrefixOf]
  · intro ht
    rw [classify1_ext _ (C12.ext_prefix _ _ (by unfold pfxByteRange; simp [startsWith, List.isPrefixOf])), dispatch_byteRange]
    simp only [ExtXByteRange.parse, C12.stripTag_line _ _ ht, Res.bind_ok, byteRange_roundtrip r h, Res.map]
  · rfl
  · intros; simp

theorem lineRT_playlistType (p : PlaylistType) : LineRT (.playlistType p) := by
  apply lineRT_value _ playlistTypePrefix p.name rfl
  · unfold playlistTypePrefix; exact pfxOK_of _ (by simp [isWs]) (by simp)
  · unfold playlistTypePrefix; simp
  · cases p <;> decide
  · unfold playlistTypePrefix siPfx Generated.streamInfPrefix; simp [startsWith, List.isPrefixOf]
  · intro ht
    rw [classify1_ext _ (C12.ext_prefix _ _ (by unfold playlistTypePrefix; simp [startsWith, List.isPrefixOf])), dispatch_playlistType]
    simp only [PlaylistType.parse, C12.stripTag_line _ _ ht, Res.bind_ok]
    cases p <;> simp [PlaylistType.name, Res.map]
  · rfl
  · intros; simp

theorem lineRT_version (v : Nat) (h : v ∈ [1, 2, 3, 4, 5, 6, 7]) : LineRT (.version v) := by
  apply lineRT_value _ pfxVersion (ProtocolVersion.show v) rfl
  · unfold pfxVersion; exact pfxOK_of _ (by simp [isWs]) (by simp)
  · unfold pfxVersion; simp
  · revert v; decide
  · unfold pfxVersion siPfx Generated.streamInfPrefix; simp [startsWith, List.isPrefixOf]
  · intro ht
    rw [classify1_ext _ (C12.ext_prefix _ _ (by unfold pfxVersion; simp [startsWith, List.isPrefixOf])), dispatch_version]
    simp only [ExtXVersion.parse, C12.stripTag_line _ _ ht, Res.bind_ok, C18.protocolVersion_rt v h, Res.map]
  · rfl
  · intros; simp

/-- the program date-time is kept as text: any text without line break that does not end in a blank -/
theorem lineRT_programDateTime (t : ExtXProgramDateTime) (h1 : '\n' ∉ t.date_time) (h2 : EndsOk t.date_time) :
    LineRT (.programDateTime t) := by
  have hp : PfxOK pfxProgramDateTime := by unfold pfxProgramDateTime; exact pfxOK_of _ (by simp [isWs]) (by simp)
  obtain ⟨a, b, c⟩ := lineRT_parts pfxProgramDateTime t.date_time hp h2 (by unfold pfxProgramDateTime; simp) h1
  refine ⟨a, b, c, ?_, ?_⟩
  · show startsWith (pfxProgramDateTime ++ t.date_time) siPfx = false
    unfold pfxProgramDateTime siPfx Generated.streamInfPrefix; simp [startsWith, List.isPrefixOf]
  · show classify1 (pfxProgramDateTime ++ t.date_time) = _
    rw [classify1_ext _ (C12.ext_prefix _ _ (by unfold pfxProgramDateTime; simp [startsWith, List.isPrefixOf])), dispatch_programDateTime]
    simp only [ExtXProgramDateTime.parse, C12.stripTag_line _ _ b, Res.bind_ok, Res.map, Res.pure_eq]
    rfl

end Hls
