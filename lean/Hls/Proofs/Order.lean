import Hls.Model.Tags
/-!
# Helper lemmas: the comparison combinators are lawful orders
-/
namespace Hls

/-- a lawful comparison: `.eq` exactly on equal values, antisymmetric, transitive -/
structure LawfulCmp {α} (c : α → α → Ordering) : Prop where
  eq_iff : ∀ x y, c x y = .eq ↔ x = y
  swap : ∀ x y, (c x y).swap = c y x
  trans_lt : ∀ x y z, c x y = .lt → c y z = .lt → c x z = .lt

theorem LawfulCmp.refl {α} {c : α → α → Ordering} (h : LawfulCmp c) (x : α) : c x x = .eq :=
  (h.eq_iff x x).mpr rfl

theorem LawfulCmp.gt_iff {α} {c : α → α → Ordering} (h : LawfulCmp c) (x y : α) : c x y = .gt ↔ c y x = .lt := by
  have := h.swap x y
  constructor
  · intro e; rw [e] at this; simpa [Ordering.swap] using this.symm
  · intro e; rw [e] at this
    cases hc : c x y <;> simp [hc, Ordering.swap] at this ⊢

theorem cmpNat_lawful : LawfulCmp cmpNat := by
  refine ⟨?_, ?_, ?_⟩
  · intro x y; unfold cmpNat
    split
    · simp; omega
    · split <;> simp_all
  · intro x y; unfold cmpNat
    by_cases h1 : x < y
    · have h2 : ¬ y < x := by omega
      have h3 : ¬ y = x := by omega
      simp [h1, h2, h3, Ordering.swap]
    · by_cases h2 : x = y
      · subst h2; simp [Ordering.swap]
      · have h3 : y < x := by omega
        have h4 : ¬ y = x := by omega
        simp [h1, h2, h3, h4, Ordering.swap]
  · intro x y z; unfold cmpNat
    intro h1 h2
    have h1' : x < y := by
      by_cases h : x < y
      · exact h
      · simp [h] at h1; split at h1 <;> simp at h1
    have h2' : y < z := by
      by_cases h : y < z
      · exact h
      · simp [h] at h2; split at h2 <;> simp at h2
    have : x < z := by omega
    simp [this]

theorem cmpList_lawful {α} {c : α → α → Ordering} (h : LawfulCmp c) : LawfulCmp (cmpList c) := by
  refine ⟨?_, ?_, ?_⟩
  · intro a
    induction a with
    | nil => intro b; cases b <;> simp [cmpList]
    | cons x xs ih =>
      intro b
      cases b with
      | nil => simp [cmpList]
      | cons y ys =>
        simp only [cmpList]
        cases hc : c x y with
        | eq =>
          have := (h.eq_iff x y).mp hc
          subst this; simp [ih]
        | lt =>
          have : x ≠ y := fun e => by rw [(h.eq_iff x y).mpr e] at hc; cases hc
          simp [this]
        | gt =>
          have : x ≠ y := fun e => by rw [(h.eq_iff x y).mpr e] at hc; cases hc
          simp [this]
  · intro a
    induction a with
    | nil => intro b; cases b <;> simp [cmpList, Ordering.swap]
    | cons x xs ih =>
      intro b
      cases b with
      | nil => simp [cmpList, Ordering.swap]
      | cons y ys =>
        simp only [cmpList]
        have hs := h.swap x y
        cases hc : c x y with
        | eq => rw [hc] at hs; simp [Ordering.swap] at hs; rw [← hs]; exact ih ys
        | lt => rw [hc] at hs; simp [Ordering.swap] at hs; rw [← hs]; simp [Ordering.swap]
        | gt => rw [hc] at hs; simp [Ordering.swap] at hs; rw [← hs]; simp [Ordering.swap]
  · intro a
    induction a with
    | nil =>
      intro b d
      cases b with
      | nil => simp [cmpList]
      | cons y ys => cases d <;> simp [cmpList]
    | cons x xs ih =>
      intro b d
      cases b with
      | nil => simp [cmpList]
      | cons y ys =>
        cases d with
        | nil => simp [cmpList]
        | cons z zs =>
          simp only [cmpList]
          intro h1 h2
          cases hxy : c x y with
          | gt => rw [hxy] at h1; simp at h1
          | lt =>
            cases hyz : c y z with
            | gt => rw [hyz] at h2; simp at h2
            | lt => rw [h.trans_lt x y z hxy hyz]
            | eq => have := (h.eq_iff y z).mp hyz; subst this; rw [hxy]
          | eq =>
            have := (h.eq_iff x y).mp hxy; subst this
            rw [hxy] at h1; simp only at h1
            cases hyz : c x z with
            | gt => rw [hyz] at h2; simp at h2
            | lt => rfl
            | eq => rw [hyz] at h2; simp only at h2 ⊢; exact ih ys zs h1 h2

theorem cmpOpt_lawful {α} {c : α → α → Ordering} (h : LawfulCmp c) : LawfulCmp (cmpOpt c) := by
  refine ⟨?_, ?_, ?_⟩
  · intro x y; cases x <;> cases y <;> simp [cmpOpt, h.eq_iff]
  · intro x y; cases x <;> cases y <;> simp [cmpOpt, Ordering.swap]
    exact h.swap _ _
  · intro x y z; cases x <;> cases y <;> cases z <;> simp [cmpOpt]; exact h.trans_lt _ _ _

/-- comparison through an injective key -/
theorem cmpKey_lawful {α β} {c : β → β → Ordering} (h : LawfulCmp c) (f : α → β)
    (hf : ∀ x y, f x = f y → x = y) : LawfulCmp (fun x y => c (f x) (f y)) := by
  refine ⟨?_, ?_, ?_⟩
  · intro x y; simp only [h.eq_iff]; exact ⟨hf x y, fun e => by rw [e]⟩
  · intro x y; exact h.swap _ _
  · intro x y z; exact h.trans_lt _ _ _

theorem cmpStr_lawful : LawfulCmp cmpStr := by
  unfold cmpStr
  apply cmpList_lawful
  exact cmpKey_lawful cmpNat_lawful Char.toNat (fun x y e => Char.ext (by
    have : x.val.toNat = y.val.toNat := e
    exact UInt32.toNat_inj.mp this))

/-- lexicographic chaining of a lawful comparison on a projection with a continuation -/
theorem ordThen_eq_iff (a : Ordering) (b : Unit → Ordering) :
    ordThen a b = .eq ↔ a = .eq ∧ b () = .eq := by
  cases a <;> simp [ordThen]

end Hls

namespace Hls

/-- lexicographic product of two comparisons -/
def cmpProd {α β} (c1 : α → α → Ordering) (c2 : β → β → Ordering) (x y : α × β) : Ordering :=
  ordThen (c1 x.1 y.1) fun _ => c2 x.2 y.2

theorem cmpProd_lawful {α β} {c1 : α → α → Ordering} {c2 : β → β → Ordering}
    (h1 : LawfulCmp c1) (h2 : LawfulCmp c2) : LawfulCmp (cmpProd c1 c2) := by
  refine ⟨?_, ?_, ?_⟩
  · rintro ⟨a, b⟩ ⟨a', b'⟩
    simp only [cmpProd, ordThen_eq_iff, h1.eq_iff, h2.eq_iff, Prod.mk.injEq]
  · rintro ⟨a, b⟩ ⟨a', b'⟩
    simp only [cmpProd]
    have hs := h1.swap a a'
    cases hc : c1 a a' with
    | eq => rw [hc] at hs; simp [Ordering.swap] at hs; rw [← hs]; simp only [ordThen]; exact h2.swap b b'
    | lt => rw [hc] at hs; simp [Ordering.swap] at hs; rw [← hs]; simp [ordThen, Ordering.swap]
    | gt => rw [hc] at hs; simp [Ordering.swap] at hs; rw [← hs]; simp [ordThen, Ordering.swap]
  · rintro ⟨a, b⟩ ⟨a', b'⟩ ⟨a'', b''⟩
    simp only [cmpProd]
    intro hx hy
    cases hxy : c1 a a' with
    | gt => rw [hxy] at hx; simp [ordThen] at hx
    | lt =>
      cases hyz : c1 a' a'' with
      | gt => rw [hyz] at hy; simp [ordThen] at hy
      | lt => rw [h1.trans_lt a a' a'' hxy hyz]; rfl
      | eq => have := (h1.eq_iff a' a'').mp hyz; subst this; rw [hxy]; rfl
    | eq =>
      have := (h1.eq_iff a a').mp hxy; subst this
      rw [hxy] at hx; simp only [ordThen] at hx
      cases hyz : c1 a a'' with
      | gt => rw [hyz] at hy; simp [ordThen] at hy
      | lt => rfl
      | eq => rw [hyz] at hy; simp only [ordThen] at hy ⊢; exact h2.trans_lt b b' b'' hx hy

theorem ivCmp_lawful : LawfulCmp InitializationVector.cmp := by
  have hn := cmpNat_lawful
  refine ⟨?_, ?_, ?_⟩
  · intro x y; cases x <;> cases y <;> simp [InitializationVector.cmp, hn.eq_iff]
  · intro x y; cases x <;> cases y <;> simp [InitializationVector.cmp, Ordering.swap]
    all_goals exact hn.swap _ _
  · intro x y z; cases x <;> cases y <;> cases z <;> simp [InitializationVector.cmp]
    all_goals exact hn.trans_lt _ _ _

theorem keyFormatCmp_lawful : LawfulCmp KeyFormat.cmp := by
  have hs := cmpStr_lawful
  refine ⟨?_, ?_, ?_⟩
  · intro x y
    cases x <;> cases y <;> simp [KeyFormat.cmp, KeyFormat.rank, hs.eq_iff, cmpNat]
  · intro x y
    cases x <;> cases y <;> simp [KeyFormat.cmp, KeyFormat.rank, cmpNat, Ordering.swap]
    exact hs.swap _ _
  · intro x y z
    cases x <;> cases y <;> cases z <;> simp [KeyFormat.cmp, KeyFormat.rank, cmpNat]
    exact hs.trans_lt _ _ _

theorem kfvCmp_lawful : LawfulCmp KeyFormatVersions.cmp := by
  have hl := cmpList_lawful cmpNat_lawful
  refine ⟨?_, ?_, ?_⟩
  · intro x y; cases x; cases y; simp [KeyFormatVersions.cmp, hl.eq_iff]
  · intro x y; exact hl.swap _ _
  · intro x y z; exact hl.trans_lt _ _ _

/-- the fields of a key in declaration order -/
def DecryptionKey.tuple (k : DecryptionKey) :
    Nat × Str × InitializationVector × Option KeyFormat × Option KeyFormatVersions :=
  (k.method.idx, k.uri, k.iv, k.format, k.versions)

theorem DecryptionKey.tuple_inj (a b : DecryptionKey) (h : a.tuple = b.tuple) : a = b := by
  cases a; cases b
  simp only [DecryptionKey.tuple, Prod.mk.injEq] at h
  obtain ⟨h1, h2, h3, h4, h5⟩ := h
  have : ∀ m m' : EncryptionMethod, m.idx = m'.idx → m = m' := by
    intro m m'; cases m <;> cases m' <;> simp [EncryptionMethod.idx]
  simp [this _ _ h1, h2, h3, h4, h5]

/-- `derive(Ord)` on `DecryptionKey` is a lawful total order -/
theorem decryptionKeyCmp_lawful : LawfulCmp DecryptionKey.cmp := by
  have hp := cmpProd_lawful cmpNat_lawful (cmpProd_lawful cmpStr_lawful (cmpProd_lawful ivCmp_lawful
    (cmpProd_lawful (cmpOpt_lawful keyFormatCmp_lawful) (cmpOpt_lawful kfvCmp_lawful))))
  have := cmpKey_lawful hp DecryptionKey.tuple DecryptionKey.tuple_inj
  have he : DecryptionKey.cmp = fun x y => cmpProd cmpNat (cmpProd cmpStr (cmpProd InitializationVector.cmp
      (cmpProd (cmpOpt KeyFormat.cmp) (cmpOpt KeyFormatVersions.cmp)))) x.tuple y.tuple := by
    funext x y; rfl
  rw [he]; exact this

/-- the order of the keys-in-effect set (`Option<DecryptionKey>`, `None` first) is lawful -/
theorem extXKeyCmp_lawful : LawfulCmp ExtXKey.cmp := cmpOpt_lawful decryptionKeyCmp_lawful

end Hls
