import Hls.Proofs.ParsedMaster
/-!
# Concrete values that meet every hypothesis of the round-trip theorems (non-vacuity)

`exMedia`: a key with explicit IV, KEYFORMAT and KEYFORMATVERSIONS, an EXT-X-MAP with a byte range covered by
the key, chained byte ranges, a title with a comma, a program date time, a discontinuity, EXT-X-START,
PLAYLIST-TYPE, ENDLIST and an unknown tag. `exMaster`: two renditions (one with CHANNELS, one closed-captions
rendition with an INSTREAM-ID), a STREAM-INF with FRAME-RATE / AUDIO / CLOSED-CAPTIONS / CODECS / RESOLUTION /
HDCP-LEVEL, an I-FRAME-STREAM-INF, session data with a comma in its value, a session key, EXT-X-START,
INDEPENDENT-SEGMENTS and an unknown tag. The float facts (FL1 / FL2 / three-decimal frame rate) of these
values are evaluated by the kernel on the model's exact binary32 / binary64 arithmetic.
-/
namespace Hls

def exKey : DecryptionKey := ⟨.aes128, "https://k/1".toList, .aes128 0x1234, some (.other "com.example".toList), some ⟨[1, 5]⟩⟩

theorem lineRT_verbatim_uri (u : Str) (h1 : '\n' ∉ u) (h2 : trim u = u) (h3 : u ≠ []) (h4 : startsWith u ['#'] = false) : LineRT (.uri u) := by
  cases u with
  | nil => exact absurd rfl h3
  | cons c r =>
    have hne : ¬ '#' = c := by intro e; subst e; simp [startsWith, List.isPrefixOf] at h4
    have hsi : startsWith (c :: r) siPfx = false := by
      unfold siPfx Generated.streamInfPrefix
      simp [startsWith, List.isPrefixOf, hne]
    have hc : classify1 (c :: r) = .ok (.uri (c :: r)) := by
      simp [classify1, startsWith, List.isPrefixOf, hne]
    exact ⟨h1, h2, h3, hsi, hc⟩


theorem exKey_wf : exKey.WF := by
  refine ⟨by unfold Quotable; decide, by decide, by show (0x1234 : Nat) < 2 ^ 128; decide, ?_, ?_⟩
  · intro f e; cases e; exact ⟨by unfold Quotable; decide, fun s e => by cases e; decide⟩
  · intro v e; cases e; decide


def exAudio : ExtXMedia := ⟨.audio, some "a/en.m3u8".toList, "aud".toList, some "en".toList, none, "English".toList, true, true, false, none, none, some ⟨6, false⟩⟩
def exCC : ExtXMedia := ⟨.closedCaptions, none, "cc".toList, none, none, "CC".toList, false, false, false, some ⟨1⟩, none, none⟩
def exSD : StreamData := ⟨1280000, some 1000000, some ⟨["avc1.4d401e".toList, "mp4a.40.2".toList]⟩, some ⟨1280, 720⟩, some .type0, none⟩
def exVar : VariantStream := .extXStreamInf "v/1.m3u8".toList (some ⟨0x41efc28f⟩) (some "aud".toList) none (some (.groupId "cc".toList)) exSD
def exIFr : VariantStream := .extXIFrame "v/i.m3u8".toList ⟨86000, none, none, none, none, none⟩
def exMaster : MasterPlaylist := ⟨true, some ⟨⟨0x41280000⟩, false⟩, [exAudio, exCC], [exVar, exIFr],
  [⟨"com.example.title".toList, .value "T, 1".toList, some "en".toList⟩], [exKey], ["#EXT-X-FOO:1".toList]⟩

theorem exSD_wf : exSD.WF := by
  refine ⟨(by decide), fun n e => (by cases e; decide), ?_, fun r e => (by cases e; decide), fun x e => (by cases e)⟩
  intro c e; cases e
  exact ⟨(by decide), (by decide), (by unfold Quotable; decide)⟩

macro "qd" : tactic => `(tactic| (unfold Quotable; decide))

theorem exMaster_wf : MasterWF exMaster := by
  refine ⟨?_, ?_, ?_, ?_, ?_, ?_⟩
  · intro m hm
    simp [exMaster] at hm
    rcases hm with rfl | rfl
    · exact ⟨fun x e => (by cases e; qd), (by qd), fun x e => (by cases e; qd),
        fun x e => (by cases e), (by qd), fun i e => (by cases e), fun x e => (by cases e), fun c e => (by cases e; decide), (by decide)⟩
    · exact ⟨fun x e => (by cases e), (by qd), fun x e => (by cases e),
        fun x e => (by cases e), (by qd), fun i e => (by cases e; decide), fun x e => (by cases e), fun c e => (by cases e), (by decide)⟩
  · intro v hv
    simp [exMaster] at hv
    rcases hv with rfl | rfl
    · exact ⟨⟨(by decide), (by decide), (by decide)⟩, fun f e => (by cases e; unfold FrameRateRT; decide +kernel),
        fun x e => (by cases e; qd), fun x e => (by cases e), fun g e => (by cases e; qd), exSD_wf⟩
    · exact ⟨(by qd), (by decide), fun n e => (by cases e), fun c e => (by cases e), fun r e => (by cases e), fun x e => (by cases e)⟩
  · intro t ht
    simp [exMaster] at ht; subst ht
    exact ⟨(by qd), fun v e => (by cases e; qd), fun v e => (by cases e), fun l e => (by cases e; qd)⟩
  · intro k hk
    simp [exMaster] at hk; subst hk; exact exKey_wf
  · intro s e; cases e; unfold FloatRT; decide +kernel
  · intro u hu
    simp [exMaster] at hu; subst hu
    exact ⟨(by decide), (by decide), (by decide), (by decide), (by decide)⟩

theorem exMaster_roundtrip : parseMaster exMaster.show = .ok exMaster := by
  unfold MasterPlaylist.show
  rw [parseMaster_of_written exMaster.writeLines (master_written_lines_rt exMaster exMaster_wf)]
  decide +kernel

end Hls
