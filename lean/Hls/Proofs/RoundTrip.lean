import Hls.Proofs.Num
import Hls.Model.Tags
/-!
# Helper lemmas: text round trips of the simple value types
-/
namespace Hls

theorem splitFirst_append (c : Char) (k rest : Str) (h : c ∉ k) :
    splitFirst c (k ++ c :: rest) = some (k, rest) := by
  induction k with
  | nil => simp [splitFirst]
  | cons x xs ih =>
    have hx : (x == c) = false := by
      have : x ≠ c := fun e => h (by simp [e])
      simpa using this
    have hxs : c ∉ xs := fun e => h (by simp [e])
    simp [splitFirst, hx, ih hxs]

theorem splitFirst_none (c : Char) (s : Str) (h : c ∉ s) : splitFirst c s = none := by
  induction s with
  | nil => rfl
  | cons x xs ih =>
    have hx : (x == c) = false := by
      have : x ≠ c := fun e => h (by simp [e])
      simpa using this
    simp [splitFirst, hx, ih (fun e => h (by simp [e]))]

theorem digitChar_ne (c : Char) (hc : ∀ d, d < 10 → digitChar d ≠ c) (n : Nat) : c ∉ showNat n := by
  intro h
  obtain ⟨d, hd, e⟩ := showNat_digits n c h
  exact hc d hd e.symm

theorem digit_cases (P : Nat → Prop) (h : ∀ d, d < 10 → P d) : ∀ d, d < 10 → P d := h

theorem at_notin_showNat (n : Nat) : '@' ∉ showNat n := by
  apply digitChar_ne
  intro d hd
  have : d = 0 ∨ d = 1 ∨ d = 2 ∨ d = 3 ∨ d = 4 ∨ d = 5 ∨ d = 6 ∨ d = 7 ∨ d = 8 ∨ d = 9 := by omega
  rcases this with rfl|rfl|rfl|rfl|rfl|rfl|rfl|rfl|rfl|rfl <;> decide

theorem x_notin_showNat (n : Nat) : 'x' ∉ showNat n := by
  apply digitChar_ne
  intro d hd
  have : d = 0 ∨ d = 1 ∨ d = 2 ∨ d = 3 ∨ d = 4 ∨ d = 5 ∨ d = 6 ∨ d = 7 ∨ d = 8 ∨ d = 9 := by omega
  rcases this with rfl|rfl|rfl|rfl|rfl|rfl|rfl|rfl|rfl|rfl <;> decide

theorem slash_notin_showNat (n : Nat) : '/' ∉ showNat n := by
  apply digitChar_ne
  intro d hd
  have : d = 0 ∨ d = 1 ∨ d = 2 ∨ d = 3 ∨ d = 4 ∨ d = 5 ∨ d = 6 ∨ d = 7 ∨ d = 8 ∨ d = 9 := by omega
  rcases this with rfl|rfl|rfl|rfl|rfl|rfl|rfl|rfl|rfl|rfl <;> decide

/-- a byte range that the text form can express: `start ≤ end < 2^64` -/
def ByteRange.WF (r : ByteRange) : Prop :=
  r.end_ < 2 ^ 64 ∧ ∀ s, r.start = some s → s ≤ r.end_

/-- **byte range text round trip**: parsing the written form gives the value back -/
theorem byteRange_roundtrip (r : ByteRange) (h : r.WF) : ByteRange.parse r.show = .ok r := by
  obtain ⟨start, e⟩ := r
  obtain ⟨h1, h2⟩ := h
  simp only at h1 h2
  cases start with
  | none =>
    simp only [ByteRange.show, ByteRange.len, Option.getD_none, Nat.sub_zero, List.append_nil, ByteRange.parse, splitN2]
    rw [splitFirst_none _ _ (at_notin_showNat e)]
    simp [parseNat?_showNat 64 e h1]
  | some s =>
    have hs := h2 s rfl
    simp only [ByteRange.show, ByteRange.len, Option.getD_some, ByteRange.parse, splitN2]
    rw [splitFirst_append _ _ _ (at_notin_showNat (e - s))]
    have hl : e - s < 2 ^ 64 := by omega
    have hs' : s < 2 ^ 64 := by omega
    simp only [parseNat?_showNat 64 _ hl, parseNat?_showNat 64 _ hs']
    have : s + (e - s) = e := by omega
    simp [this, h1]

end Hls
