import Hls.Proofs.NoPanic
import Hls.Proofs.Fold
import Hls.Proofs.BTree
/-!
# Closed forms of the attribute loops

Every attribute-list parser of the library is `for (key, value) in AttributePairs::new(..) { match key {..} }`.
Here each loop is given its closed form: the result is an error as soon as one pair has an
unparsable value for a known key, and otherwise every field is a function of the **last** value
written for its key (`lastVal`).  This is the "attribute by attribute, exactly as written"
specification of C01/C02, and it makes the invariances of C12 (order of attributes, unknown
attributes) one-line corollaries.
-/
namespace Hls

/-- value of the last pair with key `k` whose value satisfies `q` -/
def lastValQ (k : Str) (q : Str → Bool) (ps : List (Str × Str)) : Option Str :=
  ps.foldl (fun acc kv => if kv.1 == k && q kv.2 then some kv.2 else acc) none

/-- value of the last pair with key `k` -/
def lastVal (k : Str) (ps : List (Str × Str)) : Option Str := lastValQ k (fun _ => true) ps

theorem lastValQ_snoc (k : Str) (q : Str → Bool) (ps : List (Str × Str)) (kv : Str × Str) :
    lastValQ k q (ps ++ [kv]) = if kv.1 == k && q kv.2 then some kv.2 else lastValQ k q ps := by
  simp [lastValQ, List.foldl_append]

theorem lastVal_snoc (k : Str) (ps : List (Str × Str)) (kv : Str × Str) :
    lastVal k (ps ++ [kv]) = if kv.1 == k then some kv.2 else lastVal k ps := by
  simp [lastVal, lastValQ_snoc]

@[simp] theorem lastValQ_nil (k : Str) (q : Str → Bool) : lastValQ k q [] = none := rfl
@[simp] theorem lastVal_nil (k : Str) : lastVal k [] = none := rfl

theorem snoc_induction {α} {P : List α → Prop} (hnil : P []) (hsnoc : ∀ l a, P l → P (l ++ [a])) : ∀ l, P l := by
  intro l
  rw [← List.reverse_reverse l]
  induction l.reverse with
  | nil => simpa using hnil
  | cons a t ih => simpa using hsnoc _ a ih

theorem foldRes_snoc {σ α} (f : σ → α → Res σ) (s : σ) (l : List α) (x : α) :
    foldRes f s (l ++ [x]) = (match foldRes f s l with
      | .ok t => f t x
      | .err => .err
      | .panic => .panic) := by
  rw [foldRes_append]
  cases foldRes f s l with
  | ok t => simp only [foldRes]; cases f t x <;> rfl
  | err => rfl
  | panic => rfl

/-- the fold with foldl-style accumulator over a generic "fails / updates" step -/
theorem lastValQ_acc (k : Str) (q : Str → Bool) (ps : List (Str × Str)) (acc : Option Str) :
    ps.foldl (fun acc kv => if kv.1 == k && q kv.2 then some kv.2 else acc) acc =
      (lastValQ k q ps).or acc := by
  induction ps using snoc_induction generalizing acc with
  | hnil => simp
  | hsnoc l a ih =>
    simp only [List.foldl_append, List.foldl_cons, List.foldl_nil, lastValQ_snoc]
    split
    · simp
    · exact ih acc

/-! ## permutation invariance of `lastValQ` when no key occurs twice -/

theorem foldl_lastVal_perm (k : Str) (q : Str → Bool) {ps qs : List (Str × Str)} (hp : ps.Perm qs)
    (hn : (ps.map Prod.fst).Nodup) (acc : Option Str) :
    ps.foldl (fun acc kv => if kv.1 == k && q kv.2 then some kv.2 else acc) acc =
    qs.foldl (fun acc kv => if kv.1 == k && q kv.2 then some kv.2 else acc) acc := by
  induction hp generalizing acc with
  | nil => rfl
  | cons x _ ih =>
    simp only [List.foldl_cons]
    exact ih (by simp only [List.map_cons, List.nodup_cons] at hn; exact hn.2) _
  | swap x y l =>
    simp only [List.foldl_cons]
    congr 1
    simp only [List.map_cons, List.nodup_cons, List.mem_cons, not_or] at hn
    have hne : y.1 ≠ x.1 := hn.1.1
    by_cases hx : x.1 = k
    · have hy : ¬ y.1 = k := fun h => hne (h.trans hx.symm)
      simp [hx, hy]
    · simp [hx]
  | trans h1 _ ih1 ih2 =>
    rw [ih1 hn, ih2 ((h1.map Prod.fst).nodup_iff.mp hn)]

theorem lastValQ_perm (k : Str) (q : Str → Bool) {ps qs : List (Str × Str)} (hp : ps.Perm qs)
    (hn : (ps.map Prod.fst).Nodup) : lastValQ k q ps = lastValQ k q qs :=
  foldl_lastVal_perm k q hp hn none

theorem lastVal_perm (k : Str) {ps qs : List (Str × Str)} (hp : ps.Perm qs)
    (hn : (ps.map Prod.fst).Nodup) : lastVal k ps = lastVal k qs := lastValQ_perm k _ hp hn

/-- pairs whose key is not `k` do not matter -/
theorem lastValQ_filter (k : Str) (q : Str → Bool) (keep : Str × Str → Bool) (ps : List (Str × Str))
    (h : ∀ kv ∈ ps, kv.1 = k → keep kv = true) : lastValQ k q (ps.filter keep) = lastValQ k q ps := by
  induction ps using snoc_induction with
  | hnil => rfl
  | hsnoc l a ih =>
    have ih' := ih (fun kv hkv => h kv (by simp [hkv]))
    rw [List.filter_append]
    by_cases hk : keep a = true
    · simp only [List.filter_cons, hk, if_true, List.filter_nil, lastValQ_snoc, ih']
    · have : ¬ a.1 = k := fun e => hk (h a (by simp) e)
      simp [List.filter_cons, hk, lastValQ_snoc, ih', this]

/-! ## EXT-X-MAP -/

def ExtXMap.bad (kv : Str × Str) : Bool :=
  kv.1 == "BYTERANGE".toList && !(ByteRange.parse (unquote kv.2)).isOk

def Res.toOption {α} : Res α → Option α
  | .ok a => some a
  | _ => none

def ExtXMap.closed (ps : List (Str × Str)) : Res ExtXMapAcc :=
  if ps.any ExtXMap.bad then .err
  else .ok { uri := (lastVal "URI".toList ps).map unquote,
             range := (lastVal "BYTERANGE".toList ps).bind fun v => (ByteRange.parse (unquote v)).toOption }

theorem ExtXMap.fold_closed (ps : List (Str × Str)) : foldRes ExtXMap.step {} ps = ExtXMap.closed ps := by
  induction ps using snoc_induction with
  | hnil => rfl
  | hsnoc l kv ih =>
    obtain ⟨k, v⟩ := kv
    rw [foldRes_snoc, ih]
    simp only [ExtXMap.closed, List.any_append, List.any_cons, List.any_nil, Bool.or_false, lastVal_snoc]
    by_cases hb : l.any ExtXMap.bad = true
    · simp [hb]
    · simp only [hb, Bool.false_or, if_false, ExtXMap.step, ExtXMap.bad]
      by_cases h1 : (k == "URI".toList) = true
      · have e := eq_of_beq h1; subst e; simp
      · by_cases h2 : (k == "BYTERANGE".toList) = true
        · have e := eq_of_beq h2; subst e
          have := ByteRange.parse_np (unquote v)
          cases hr : ByteRange.parse (unquote v) <;> simp_all [Res.isOk, Res.toOption]
        · have h1' : (k == "URI".toList) = false := by simpa using h1
          have h2' : (k == "BYTERANGE".toList) = false := by simpa using h2
          simp only [h1', h2', Bool.false_eq_true, if_false, Bool.false_and]; rfl

/-- field parsed from the last value of a key -/
def optParse {α} (f : Str → Res α) (o : Option Str) : Option α := o.bind fun v => (f v).toOption

/-- `key == c && value does not parse` -/
def badAt {α} (c : String) (f : Str → Res α) (kv : Str × Str) : Bool := kv.1 == c.toList && !(f kv.2).isOk

syntax "attr_pos" : tactic
macro_rules
  | `(tactic| attr_pos) => `(tactic|
      first
      | (simp [Res.isOk, Res.toOption, optParse, badAt]; done)
      | (simp only [Res.isOk, Res.toOption, optParse, badAt]; split <;> simp_all [Res.isOk, Res.toOption, optParse, badAt]; done))

/-! ## EXT-X-START -/

def ExtXStart.bad (kv : Str × Str) : Bool :=
  badAt "TIME-OFFSET" Float32.parseFloat kv || badAt "PRECISE" parseYesNo kv

def ExtXStart.closed (ps : List (Str × Str)) : Res ExtXStartAcc :=
  if ps.any ExtXStart.bad then .err
  else .ok { time_offset := optParse Float32.parseFloat (lastVal "TIME-OFFSET".toList ps),
             is_precise := (optParse parseYesNo (lastVal "PRECISE".toList ps)).getD false }

theorem ExtXStart.fold_closed (ps : List (Str × Str)) : foldRes ExtXStart.step {} ps = ExtXStart.closed ps := by
  induction ps using snoc_induction with
  | hnil => rfl
  | hsnoc l kv ih =>
    obtain ⟨k, v⟩ := kv
    rw [foldRes_snoc, ih]
    simp only [ExtXStart.closed, List.any_append, List.any_cons, List.any_nil, Bool.or_false, lastVal_snoc, lastValQ_snoc]
    by_cases hb : l.any ExtXStart.bad = true
    · simp [hb]
    · simp only [hb, Bool.false_or, if_false, ExtXStart.step, ExtXStart.bad, badAt]
      by_cases h0 : (k == "TIME-OFFSET".toList) = true
      · have e := eq_of_beq h0; subst e
        cases hr : Float32.parseFloat v <;> simp_all [Res.isOk, Res.toOption, optParse, badAt]
      have h0 : (k == "TIME-OFFSET".toList) = false := by simpa using h0
      by_cases h1 : (k == "PRECISE".toList) = true
      · have e := eq_of_beq h1; subst e
        cases hr : parseYesNo v <;> simp_all [Res.isOk, Res.toOption, optParse, badAt]
      have h1 : (k == "PRECISE".toList) = false := by simpa using h1
      simp only [*, Bool.false_eq_true, if_false, Bool.false_and, Bool.or_false]; rfl

/-! ## EXT-X-SESSION-DATA -/

def ExtXSessionData.bad (_ : Str × Str) : Bool := false

def ExtXSessionData.closed (ps : List (Str × Str)) : Res ExtXSessionDataAcc :=
  if ps.any ExtXSessionData.bad then .err
  else .ok { data_id := (lastVal "DATA-ID".toList ps).map unquote,
             session_value := (lastVal "VALUE".toList ps).map unquote,
             uri := (lastVal "URI".toList ps).map unquote,
             language := (lastVal "LANGUAGE".toList ps).map unquote }

theorem ExtXSessionData.fold_closed (ps : List (Str × Str)) : foldRes ExtXSessionData.step {} ps = ExtXSessionData.closed ps := by
  induction ps using snoc_induction with
  | hnil => rfl
  | hsnoc l kv ih =>
    obtain ⟨k, v⟩ := kv
    rw [foldRes_snoc, ih]
    simp only [ExtXSessionData.closed, List.any_append, List.any_cons, List.any_nil, Bool.or_false, lastVal_snoc, lastValQ_snoc]
    by_cases hb : l.any ExtXSessionData.bad = true
    · simp [hb]
    · simp only [hb, Bool.false_or, if_false, ExtXSessionData.step, ExtXSessionData.bad, badAt]
      by_cases h0 : (k == "DATA-ID".toList) = true
      · have e := eq_of_beq h0; subst e; simp [optParse, Res.toOption, Res.isOk]
      have h0 : (k == "DATA-ID".toList) = false := by simpa using h0
      by_cases h1 : (k == "VALUE".toList) = true
      · have e := eq_of_beq h1; subst e; simp [optParse, Res.toOption, Res.isOk]
      have h1 : (k == "VALUE".toList) = false := by simpa using h1
      by_cases h2 : (k == "URI".toList) = true
      · have e := eq_of_beq h2; subst e; simp [optParse, Res.toOption, Res.isOk]
      have h2 : (k == "URI".toList) = false := by simpa using h2
      by_cases h3 : (k == "LANGUAGE".toList) = true
      · have e := eq_of_beq h3; subst e; simp [optParse, Res.toOption, Res.isOk]
      have h3 : (k == "LANGUAGE".toList) = false := by simpa using h3
      simp only [*, Bool.false_eq_true, if_false, Bool.false_and, Bool.or_false]; rfl

/-! ## the EXT-X-STREAM-INF-only attributes -/

def StreamInf.bad (kv : Str × Str) : Bool := badAt "FRAME-RATE" Float32.parseUFloat kv

def StreamInf.closed (ps : List (Str × Str)) : Res StreamInfAcc :=
  if ps.any StreamInf.bad then .err
  else .ok { frame_rate := optParse Float32.parseUFloat (lastVal "FRAME-RATE".toList ps),
             audio := (lastVal "AUDIO".toList ps).map unquote,
             subtitles := (lastVal "SUBTITLES".toList ps).map unquote,
             closed_captions := (lastVal "CLOSED-CAPTIONS".toList ps).map ClosedCaptions.parse }

theorem StreamInf.fold_closed (ps : List (Str × Str)) : foldRes StreamInf.step {} ps = StreamInf.closed ps := by
  induction ps using snoc_induction with
  | hnil => rfl
  | hsnoc l kv ih =>
    obtain ⟨k, v⟩ := kv
    rw [foldRes_snoc, ih]
    simp only [StreamInf.closed, List.any_append, List.any_cons, List.any_nil, Bool.or_false, lastVal_snoc, lastValQ_snoc]
    by_cases hb : l.any StreamInf.bad = true
    · simp [hb]
    · simp only [hb, Bool.false_or, if_false, StreamInf.step, StreamInf.bad, badAt]
      by_cases h0 : (k == "FRAME-RATE".toList) = true
      · have e := eq_of_beq h0; subst e
        cases hr : Float32.parseUFloat v <;> simp_all [Res.isOk, Res.toOption, optParse, badAt]
      have h0 : (k == "FRAME-RATE".toList) = false := by simpa using h0
      by_cases h1 : (k == "AUDIO".toList) = true
      · have e := eq_of_beq h1; subst e; simp [optParse, Res.toOption, Res.isOk]
      have h1 : (k == "AUDIO".toList) = false := by simpa using h1
      by_cases h2 : (k == "SUBTITLES".toList) = true
      · have e := eq_of_beq h2; subst e; simp [optParse, Res.toOption, Res.isOk]
      have h2 : (k == "SUBTITLES".toList) = false := by simpa using h2
      by_cases h3 : (k == "CLOSED-CAPTIONS".toList) = true
      · have e := eq_of_beq h3; subst e; simp [optParse, Res.toOption, Res.isOk]
      have h3 : (k == "CLOSED-CAPTIONS".toList) = false := by simpa using h3
      simp only [*, Bool.false_eq_true, if_false, Bool.false_and, Bool.or_false]; rfl

/-! ## StreamData -/

def StreamData.bad (kv : Str × Str) : Bool :=
  badAt "BANDWIDTH" (parseNat 64) kv || badAt "AVERAGE-BANDWIDTH" (parseNat 64) kv
  || badAt "RESOLUTION" Resolution.parse kv || badAt "HDCP-LEVEL" HdcpLevel.parse kv

def StreamData.closed (ps : List (Str × Str)) : Res StreamDataAcc :=
  if ps.any StreamData.bad then .err
  else .ok { bandwidth := optParse (parseNat 64) (lastVal "BANDWIDTH".toList ps),
             average_bandwidth := optParse (parseNat 64) (lastVal "AVERAGE-BANDWIDTH".toList ps),
             codecs := (lastVal "CODECS".toList ps).map fun v => Codecs.parse (unquote v),
             resolution := optParse Resolution.parse (lastVal "RESOLUTION".toList ps),
             hdcp_level := optParse HdcpLevel.parse (lastVal "HDCP-LEVEL".toList ps),
             video := (lastVal "VIDEO".toList ps).map unquote }

theorem StreamData.fold_closed (ps : List (Str × Str)) : foldRes StreamData.step {} ps = StreamData.closed ps := by
  induction ps using snoc_induction with
  | hnil => rfl
  | hsnoc l kv ih =>
    obtain ⟨k, v⟩ := kv
    rw [foldRes_snoc, ih]
    simp only [StreamData.closed, List.any_append, List.any_cons, List.any_nil, Bool.or_false, lastVal_snoc, lastValQ_snoc]
    by_cases hb : l.any StreamData.bad = true
    · simp [hb]
    · simp only [hb, Bool.false_or, if_false, StreamData.step, StreamData.bad, badAt]
      by_cases h0 : (k == "BANDWIDTH".toList) = true
      · have e := eq_of_beq h0; subst e
        cases hr : parseNat 64 v <;> simp_all [Res.isOk, Res.toOption, optParse, badAt]
      have h0 : (k == "BANDWIDTH".toList) = false := by simpa using h0
      by_cases h1 : (k == "AVERAGE-BANDWIDTH".toList) = true
      · have e := eq_of_beq h1; subst e
        cases hr : parseNat 64 v <;> simp_all [Res.isOk, Res.toOption, optParse, badAt]
      have h1 : (k == "AVERAGE-BANDWIDTH".toList) = false := by simpa using h1
      by_cases h2 : (k == "CODECS".toList) = true
      · have e := eq_of_beq h2; subst e; simp [optParse, Res.toOption, Res.isOk]
      have h2 : (k == "CODECS".toList) = false := by simpa using h2
      by_cases h3 : (k == "RESOLUTION".toList) = true
      · have e := eq_of_beq h3; subst e
        cases hr : Resolution.parse v <;> simp_all [Res.isOk, Res.toOption, optParse, badAt]
      have h3 : (k == "RESOLUTION".toList) = false := by simpa using h3
      by_cases h4 : (k == "HDCP-LEVEL".toList) = true
      · have e := eq_of_beq h4; subst e
        cases hr : HdcpLevel.parse v <;> simp_all [Res.isOk, Res.toOption, optParse, badAt]
      have h4 : (k == "HDCP-LEVEL".toList) = false := by simpa using h4
      by_cases h5 : (k == "VIDEO".toList) = true
      · have e := eq_of_beq h5; subst e; simp [optParse, Res.toOption, Res.isOk]
      have h5 : (k == "VIDEO".toList) = false := by simpa using h5
      simp only [*, Bool.false_eq_true, if_false, Bool.false_and, Bool.or_false]; rfl

/-! ## DecryptionKey (EXT-X-KEY, EXT-X-SESSION-KEY) -/

def DecryptionKey.bad (kv : Str × Str) : Bool :=
  badAt "METHOD" EncryptionMethod.parse kv || badAt "IV" InitializationVector.parse kv
  || badAt "KEYFORMATVERSIONS" KeyFormatVersions.parse kv

/-- a `URI` attribute only counts when its unquoted value is not blank -/
def nonBlankUri (v : Str) : Bool := !(trim (unquote v)).isEmpty

def DecryptionKey.closed (ps : List (Str × Str)) : Res DecryptionKeyAcc :=
  if ps.any DecryptionKey.bad then .err
  else .ok { method := optParse EncryptionMethod.parse (lastVal "METHOD".toList ps),
             uri := (lastValQ "URI".toList nonBlankUri ps).map unquote,
             iv := optParse InitializationVector.parse (lastVal "IV".toList ps),
             format := (lastVal "KEYFORMAT".toList ps).map KeyFormat.parse,
             versions := optParse KeyFormatVersions.parse (lastVal "KEYFORMATVERSIONS".toList ps) }

theorem DecryptionKey.fold_closed (ps : List (Str × Str)) : foldRes DecryptionKey.step {} ps = DecryptionKey.closed ps := by
  induction ps using snoc_induction with
  | hnil => rfl
  | hsnoc l kv ih =>
    obtain ⟨k, v⟩ := kv
    rw [foldRes_snoc, ih]
    simp only [DecryptionKey.closed, List.any_append, List.any_cons, List.any_nil, Bool.or_false, lastVal_snoc, lastValQ_snoc]
    by_cases hb : l.any DecryptionKey.bad = true
    · simp [hb]
    · simp only [hb, Bool.false_or, if_false, DecryptionKey.step, DecryptionKey.bad, badAt, nonBlankUri]
      by_cases h0 : (k == "METHOD".toList) = true
      · have e := eq_of_beq h0; subst e
        cases hr : EncryptionMethod.parse v <;> simp_all [Res.isOk, Res.toOption, optParse, badAt]
      have h0 : (k == "METHOD".toList) = false := by simpa using h0
      by_cases h1 : (k == "URI".toList) = true
      · have e := eq_of_beq h1; subst e
        by_cases hq : (trim (unquote v)).isEmpty = true <;> simp [hq, optParse, Res.toOption, Res.isOk]
      have h1 : (k == "URI".toList) = false := by simpa using h1
      by_cases h2 : (k == "IV".toList) = true
      · have e := eq_of_beq h2; subst e
        cases hr : InitializationVector.parse v <;> simp_all [Res.isOk, Res.toOption, optParse, badAt]
      have h2 : (k == "IV".toList) = false := by simpa using h2
      by_cases h3 : (k == "KEYFORMAT".toList) = true
      · have e := eq_of_beq h3; subst e; simp [optParse, Res.toOption, Res.isOk]
      have h3 : (k == "KEYFORMAT".toList) = false := by simpa using h3
      by_cases h4 : (k == "KEYFORMATVERSIONS".toList) = true
      · have e := eq_of_beq h4; subst e
        cases hr : KeyFormatVersions.parse v <;> simp_all [Res.isOk, Res.toOption, optParse, badAt]
      have h4 : (k == "KEYFORMATVERSIONS".toList) = false := by simpa using h4
      simp only [*, Bool.false_eq_true, if_false, Bool.false_and, Bool.or_false]; rfl

/-! ## EXT-X-MEDIA -/

def ExtXMedia.bad (kv : Str × Str) : Bool :=
  badAt "TYPE" MediaType.parse kv || badAt "DEFAULT" parseYesNo kv || badAt "AUTOSELECT" parseYesNo kv
  || badAt "FORCED" parseYesNo kv || badAt "INSTREAM-ID" (fun v => InStreamId.parse (unquote v)) kv
  || badAt "CHANNELS" (fun v => Channels.parse (unquote v)) kv

def ExtXMedia.closed (ps : List (Str × Str)) : Res ExtXMediaBuilder :=
  if ps.any ExtXMedia.bad then .err
  else .ok { media_type := optParse MediaType.parse (lastVal "TYPE".toList ps),
             uri := (lastVal "URI".toList ps).map unquote,
             group_id := (lastVal "GROUP-ID".toList ps).map unquote,
             language := (lastVal "LANGUAGE".toList ps).map unquote,
             assoc_language := (lastVal "ASSOC-LANGUAGE".toList ps).map unquote,
             name := (lastVal "NAME".toList ps).map unquote,
             is_default := optParse parseYesNo (lastVal "DEFAULT".toList ps),
             is_autoselect := optParse parseYesNo (lastVal "AUTOSELECT".toList ps),
             is_forced := optParse parseYesNo (lastVal "FORCED".toList ps),
             instream_id := optParse (fun v => InStreamId.parse (unquote v)) (lastVal "INSTREAM-ID".toList ps),
             characteristics := (lastVal "CHARACTERISTICS".toList ps).map unquote,
             channels := optParse (fun v => Channels.parse (unquote v)) (lastVal "CHANNELS".toList ps) }

theorem ExtXMedia.fold_closed (ps : List (Str × Str)) : foldRes ExtXMedia.step {} ps = ExtXMedia.closed ps := by
  induction ps using snoc_induction with
  | hnil => rfl
  | hsnoc l kv ih =>
    obtain ⟨k, v⟩ := kv
    rw [foldRes_snoc, ih]
    simp only [ExtXMedia.closed, List.any_append, List.any_cons, List.any_nil, Bool.or_false, lastVal_snoc, lastValQ_snoc]
    by_cases hb : l.any ExtXMedia.bad = true
    · simp [hb]
    · simp only [hb, Bool.false_or, if_false, ExtXMedia.step, ExtXMedia.bad, badAt]
      by_cases h0 : (k == "TYPE".toList) = true
      · have e := eq_of_beq h0; subst e
        cases hr : MediaType.parse v <;> simp_all [Res.isOk, Res.toOption, optParse, badAt]
      have h0 : (k == "TYPE".toList) = false := by simpa using h0
      by_cases h1 : (k == "URI".toList) = true
      · have e := eq_of_beq h1; subst e; simp [optParse, Res.toOption, Res.isOk]
      have h1 : (k == "URI".toList) = false := by simpa using h1
      by_cases h2 : (k == "GROUP-ID".toList) = true
      · have e := eq_of_beq h2; subst e; simp [optParse, Res.toOption, Res.isOk]
      have h2 : (k == "GROUP-ID".toList) = false := by simpa using h2
      by_cases h3 : (k == "LANGUAGE".toList) = true
      · have e := eq_of_beq h3; subst e; simp [optParse, Res.toOption, Res.isOk]
      have h3 : (k == "LANGUAGE".toList) = false := by simpa using h3
      by_cases h4 : (k == "ASSOC-LANGUAGE".toList) = true
      · have e := eq_of_beq h4; subst e; simp [optParse, Res.toOption, Res.isOk]
      have h4 : (k == "ASSOC-LANGUAGE".toList) = false := by simpa using h4
      by_cases h5 : (k == "NAME".toList) = true
      · have e := eq_of_beq h5; subst e; simp [optParse, Res.toOption, Res.isOk]
      have h5 : (k == "NAME".toList) = false := by simpa using h5
      by_cases h6 : (k == "DEFAULT".toList) = true
      · have e := eq_of_beq h6; subst e
        cases hr : parseYesNo v <;> simp_all [Res.isOk, Res.toOption, optParse, badAt]
      have h6 : (k == "DEFAULT".toList) = false := by simpa using h6
      by_cases h7 : (k == "AUTOSELECT".toList) = true
      · have e := eq_of_beq h7; subst e
        cases hr : parseYesNo v <;> simp_all [Res.isOk, Res.toOption, optParse, badAt]
      have h7 : (k == "AUTOSELECT".toList) = false := by simpa using h7
      by_cases h8 : (k == "FORCED".toList) = true
      · have e := eq_of_beq h8; subst e
        cases hr : parseYesNo v <;> simp_all [Res.isOk, Res.toOption, optParse, badAt]
      have h8 : (k == "FORCED".toList) = false := by simpa using h8
      by_cases h9 : (k == "INSTREAM-ID".toList) = true
      · have e := eq_of_beq h9; subst e
        cases hr : InStreamId.parse (unquote v) <;> simp_all [Res.isOk, Res.toOption, optParse, badAt]
      have h9 : (k == "INSTREAM-ID".toList) = false := by simpa using h9
      by_cases h10 : (k == "CHARACTERISTICS".toList) = true
      · have e := eq_of_beq h10; subst e; simp [optParse, Res.toOption, Res.isOk]
      have h10 : (k == "CHARACTERISTICS".toList) = false := by simpa using h10
      by_cases h11 : (k == "CHANNELS".toList) = true
      · have e := eq_of_beq h11; subst e
        cases hr : Channels.parse (unquote v) <;> simp_all [Res.isOk, Res.toOption, optParse, badAt]
      have h11 : (k == "CHANNELS".toList) = false := by simpa using h11
      simp only [*, Bool.false_eq_true, if_false, Bool.false_and, Bool.or_false]; rfl

/-! ## EXT-X-DATERANGE -/

/-- the client-attribute (`X-…`) part of the loop -/
def clientStep (m : List (Str × Value)) (kv : Str × Str) : List (Str × Value) :=
  if startsWith kv.1 "X-".toList then
    match Value.parse kv.2 with
    | .ok v => btreeInsert kv.1 v m
    | _ => m
  else m

def ExtXDateRange.bad (kv : Str × Str) : Bool :=
  badAt "DURATION" parseSecs kv || badAt "PLANNED-DURATION" parseSecs kv
  || (kv.1 == "END-ON-NEXT".toList && kv.2 != "YES".toList)
  || (startsWith kv.1 "X-".toList && (kv.1.any badClientAttrChar || !(Value.parse kv.2).isOk))

def ExtXDateRange.closed (ps : List (Str × Str)) : Res ExtXDateRangeAcc :=
  if ps.any ExtXDateRange.bad then .err
  else .ok { id := (lastVal "ID".toList ps).map unquote,
             «class» := (lastVal "CLASS".toList ps).map unquote,
             start_date := (lastVal "START-DATE".toList ps).map unquote,
             end_date := (lastVal "END-DATE".toList ps).map unquote,
             duration := optParse parseSecs (lastVal "DURATION".toList ps),
             planned_duration := optParse parseSecs (lastVal "PLANNED-DURATION".toList ps),
             scte35_cmd := (lastVal "SCTE35-CMD".toList ps).map unquote,
             scte35_out := (lastVal "SCTE35-OUT".toList ps).map unquote,
             scte35_in := (lastVal "SCTE35-IN".toList ps).map unquote,
             end_on_next := (lastVal "END-ON-NEXT".toList ps).isSome,
             client_attributes := ps.foldl clientStep [] }

theorem ExtXDateRange.fold_closed (ps : List (Str × Str)) : foldRes ExtXDateRange.step {} ps = ExtXDateRange.closed ps := by
  induction ps using snoc_induction with
  | hnil => rfl
  | hsnoc l kv ih =>
    obtain ⟨k, v⟩ := kv
    rw [foldRes_snoc, ih]
    simp only [ExtXDateRange.closed, List.any_append, List.any_cons, List.any_nil, Bool.or_false, lastVal_snoc, lastValQ_snoc]
    by_cases hb : l.any ExtXDateRange.bad = true
    · simp [hb]
    · simp only [hb, Bool.false_or, if_false, ExtXDateRange.step, ExtXDateRange.bad, badAt, clientStep, List.foldl_append, List.foldl_cons, List.foldl_nil]
      by_cases h0 : (k == "ID".toList) = true
      · have e := eq_of_beq h0; subst e; simp [optParse, Res.toOption, Res.isOk, startsWith]
      have h0 : (k == "ID".toList) = false := by simpa using h0
      by_cases h1 : (k == "CLASS".toList) = true
      · have e := eq_of_beq h1; subst e; simp [optParse, Res.toOption, Res.isOk, startsWith]
      have h1 : (k == "CLASS".toList) = false := by simpa using h1
      by_cases h2 : (k == "START-DATE".toList) = true
      · have e := eq_of_beq h2; subst e; simp [optParse, Res.toOption, Res.isOk, startsWith]
      have h2 : (k == "START-DATE".toList) = false := by simpa using h2
      by_cases h3 : (k == "END-DATE".toList) = true
      · have e := eq_of_beq h3; subst e; simp [optParse, Res.toOption, Res.isOk, startsWith]
      have h3 : (k == "END-DATE".toList) = false := by simpa using h3
      by_cases h4 : (k == "DURATION".toList) = true
      · have e := eq_of_beq h4; subst e
        cases hr : parseSecs v <;> simp_all [Res.isOk, Res.toOption, optParse, badAt, startsWith]
      have h4 : (k == "DURATION".toList) = false := by simpa using h4
      by_cases h5 : (k == "PLANNED-DURATION".toList) = true
      · have e := eq_of_beq h5; subst e
        cases hr : parseSecs v <;> simp_all [Res.isOk, Res.toOption, optParse, badAt, startsWith]
      have h5 : (k == "PLANNED-DURATION".toList) = false := by simpa using h5
      by_cases h6 : (k == "SCTE35-CMD".toList) = true
      · have e := eq_of_beq h6; subst e; simp [optParse, Res.toOption, Res.isOk, startsWith]
      have h6 : (k == "SCTE35-CMD".toList) = false := by simpa using h6
      by_cases h7 : (k == "SCTE35-OUT".toList) = true
      · have e := eq_of_beq h7; subst e; simp [optParse, Res.toOption, Res.isOk, startsWith]
      have h7 : (k == "SCTE35-OUT".toList) = false := by simpa using h7
      by_cases h8 : (k == "SCTE35-IN".toList) = true
      · have e := eq_of_beq h8; subst e; simp [optParse, Res.toOption, Res.isOk, startsWith]
      have h8 : (k == "SCTE35-IN".toList) = false := by simpa using h8
      by_cases h9 : (k == "END-ON-NEXT".toList) = true
      · have e := eq_of_beq h9; subst e; simp [optParse, Res.toOption, Res.isOk, startsWith]
      have h9 : (k == "END-ON-NEXT".toList) = false := by simpa using h9
      by_cases hx : startsWith k "X-".toList = true
      · by_cases hc : k.any badClientAttrChar = true
        · simp only [*, Bool.false_eq_true, if_false, if_true, Bool.false_and, Bool.or_false, Bool.true_and, Bool.true_or, Bool.or_true, Bool.false_or]
        · have hc : k.any badClientAttrChar = false := by simpa using hc
          cases hr : Value.parse v <;> simp_all [Res.isOk, Res.toOption]
      · have hx : startsWith k "X-".toList = false := by simpa using hx
        simp only [*, Bool.false_eq_true, if_false, Bool.false_and, Bool.or_false]; rfl

/-! ## which attribute names each loop looks at; all other pairs are skipped -/

theorem foldRes_filter_neutral {σ α} (step : σ → α → Res σ) (keep : α → Bool)
    (h : ∀ s a, keep a = false → step s a = .ok s) (s : σ) (ls : List α) :
    foldRes step s (ls.filter keep) = foldRes step s ls := by
  induction ls generalizing s with
  | nil => rfl
  | cons a rest ih =>
    by_cases hk : keep a = true
    · simp only [List.filter_cons, hk, if_true, foldRes]
      cases step s a <;> simp [ih]
    · have hk' : keep a = false := by simpa using hk
      simp only [List.filter_cons, hk', Bool.false_eq_true, if_false, foldRes, h s a hk']
      exact ih s

/-- "the same attributes, possibly in another order, no name twice" (restricted to the names the
tag looks at; everything else is free) -/
def AttrEquiv (known : Str × Str → Bool) (ps qs : List (Str × Str)) : Prop :=
  (ps.filter known).Perm (qs.filter known) ∧ ((ps.filter known).map Prod.fst).Nodup

def ExtXMap.known (kv : Str × Str) : Bool := kv.1 == "URI".toList || kv.1 == "BYTERANGE".toList

theorem ExtXMap.step_neutral (a) (kv : Str × Str) (h : ExtXMap.known kv = false) : ExtXMap.step a kv = .ok a := by
  obtain ⟨k, v⟩ := kv
  simp only [ExtXMap.known, Bool.or_eq_false_iff] at h
  simp only [ExtXMap.step, h, Bool.false_eq_true, if_false]; rfl

theorem ExtXMap.closed_perm {ps qs : List (Str × Str)} (hp : ps.Perm qs) (hn : (ps.map Prod.fst).Nodup) :
    ExtXMap.closed ps = ExtXMap.closed qs := by
  simp only [ExtXMap.closed, lastVal_perm _ hp hn, lastValQ_perm _ _ hp hn, hp.any_eq]

/-- **the `ExtXMap` attribute loop: order of the attributes and unknown attributes are irrelevant** -/
theorem ExtXMap.fold_equiv {ps qs : List (Str × Str)} (h : AttrEquiv ExtXMap.known ps qs) :
    foldRes ExtXMap.step {} ps = foldRes ExtXMap.step {} qs := by
  rw [← foldRes_filter_neutral ExtXMap.step ExtXMap.known ExtXMap.step_neutral _ ps,
      ← foldRes_filter_neutral ExtXMap.step ExtXMap.known ExtXMap.step_neutral _ qs,
      ExtXMap.fold_closed, ExtXMap.fold_closed, ExtXMap.closed_perm h.1 h.2]

def ExtXStart.known (kv : Str × Str) : Bool := kv.1 == "TIME-OFFSET".toList || kv.1 == "PRECISE".toList

theorem ExtXStart.step_neutral (a) (kv : Str × Str) (h : ExtXStart.known kv = false) : ExtXStart.step a kv = .ok a := by
  obtain ⟨k, v⟩ := kv
  simp only [ExtXStart.known, Bool.or_eq_false_iff] at h
  simp only [ExtXStart.step, h, Bool.false_eq_true, if_false]; rfl

theorem ExtXStart.closed_perm {ps qs : List (Str × Str)} (hp : ps.Perm qs) (hn : (ps.map Prod.fst).Nodup) :
    ExtXStart.closed ps = ExtXStart.closed qs := by
  simp only [ExtXStart.closed, lastVal_perm _ hp hn, lastValQ_perm _ _ hp hn, hp.any_eq]

/-- **the `ExtXStart` attribute loop: order of the attributes and unknown attributes are irrelevant** -/
theorem ExtXStart.fold_equiv {ps qs : List (Str × Str)} (h : AttrEquiv ExtXStart.known ps qs) :
    foldRes ExtXStart.step {} ps = foldRes ExtXStart.step {} qs := by
  rw [← foldRes_filter_neutral ExtXStart.step ExtXStart.known ExtXStart.step_neutral _ ps,
      ← foldRes_filter_neutral ExtXStart.step ExtXStart.known ExtXStart.step_neutral _ qs,
      ExtXStart.fold_closed, ExtXStart.fold_closed, ExtXStart.closed_perm h.1 h.2]

def ExtXSessionData.known (kv : Str × Str) : Bool := kv.1 == "DATA-ID".toList || kv.1 == "VALUE".toList || kv.1 == "URI".toList || kv.1 == "LANGUAGE".toList

theorem ExtXSessionData.step_neutral (a) (kv : Str × Str) (h : ExtXSessionData.known kv = false) : ExtXSessionData.step a kv = .ok a := by
  obtain ⟨k, v⟩ := kv
  simp only [ExtXSessionData.known, Bool.or_eq_false_iff] at h
  simp only [ExtXSessionData.step, h, Bool.false_eq_true, if_false]; rfl

theorem ExtXSessionData.closed_perm {ps qs : List (Str × Str)} (hp : ps.Perm qs) (hn : (ps.map Prod.fst).Nodup) :
    ExtXSessionData.closed ps = ExtXSessionData.closed qs := by
  simp only [ExtXSessionData.closed, lastVal_perm _ hp hn, lastValQ_perm _ _ hp hn, hp.any_eq]

/-- **the `ExtXSessionData` attribute loop: order of the attributes and unknown attributes are irrelevant** -/
theorem ExtXSessionData.fold_equiv {ps qs : List (Str × Str)} (h : AttrEquiv ExtXSessionData.known ps qs) :
    foldRes ExtXSessionData.step {} ps = foldRes ExtXSessionData.step {} qs := by
  rw [← foldRes_filter_neutral ExtXSessionData.step ExtXSessionData.known ExtXSessionData.step_neutral _ ps,
      ← foldRes_filter_neutral ExtXSessionData.step ExtXSessionData.known ExtXSessionData.step_neutral _ qs,
      ExtXSessionData.fold_closed, ExtXSessionData.fold_closed, ExtXSessionData.closed_perm h.1 h.2]

def StreamInf.known (kv : Str × Str) : Bool := kv.1 == "FRAME-RATE".toList || kv.1 == "AUDIO".toList || kv.1 == "SUBTITLES".toList || kv.1 == "CLOSED-CAPTIONS".toList

theorem StreamInf.step_neutral (a) (kv : Str × Str) (h : StreamInf.known kv = false) : StreamInf.step a kv = .ok a := by
  obtain ⟨k, v⟩ := kv
  simp only [StreamInf.known, Bool.or_eq_false_iff] at h
  simp only [StreamInf.step, h, Bool.false_eq_true, if_false]; rfl

theorem StreamInf.closed_perm {ps qs : List (Str × Str)} (hp : ps.Perm qs) (hn : (ps.map Prod.fst).Nodup) :
    StreamInf.closed ps = StreamInf.closed qs := by
  simp only [StreamInf.closed, lastVal_perm _ hp hn, lastValQ_perm _ _ hp hn, hp.any_eq]

/-- **the `StreamInf` attribute loop: order of the attributes and unknown attributes are irrelevant** -/
theorem StreamInf.fold_equiv {ps qs : List (Str × Str)} (h : AttrEquiv StreamInf.known ps qs) :
    foldRes StreamInf.step {} ps = foldRes StreamInf.step {} qs := by
  rw [← foldRes_filter_neutral StreamInf.step StreamInf.known StreamInf.step_neutral _ ps,
      ← foldRes_filter_neutral StreamInf.step StreamInf.known StreamInf.step_neutral _ qs,
      StreamInf.fold_closed, StreamInf.fold_closed, StreamInf.closed_perm h.1 h.2]

def StreamData.known (kv : Str × Str) : Bool := kv.1 == "BANDWIDTH".toList || kv.1 == "AVERAGE-BANDWIDTH".toList || kv.1 == "CODECS".toList || kv.1 == "RESOLUTION".toList || kv.1 == "HDCP-LEVEL".toList || kv.1 == "VIDEO".toList

theorem StreamData.step_neutral (a) (kv : Str × Str) (h : StreamData.known kv = false) : StreamData.step a kv = .ok a := by
  obtain ⟨k, v⟩ := kv
  simp only [StreamData.known, Bool.or_eq_false_iff] at h
  simp only [StreamData.step, h, Bool.false_eq_true, if_false]; rfl

theorem StreamData.closed_perm {ps qs : List (Str × Str)} (hp : ps.Perm qs) (hn : (ps.map Prod.fst).Nodup) :
    StreamData.closed ps = StreamData.closed qs := by
  simp only [StreamData.closed, lastVal_perm _ hp hn, lastValQ_perm _ _ hp hn, hp.any_eq]

/-- **the `StreamData` attribute loop: order of the attributes and unknown attributes are irrelevant** -/
theorem StreamData.fold_equiv {ps qs : List (Str × Str)} (h : AttrEquiv StreamData.known ps qs) :
    foldRes StreamData.step {} ps = foldRes StreamData.step {} qs := by
  rw [← foldRes_filter_neutral StreamData.step StreamData.known StreamData.step_neutral _ ps,
      ← foldRes_filter_neutral StreamData.step StreamData.known StreamData.step_neutral _ qs,
      StreamData.fold_closed, StreamData.fold_closed, StreamData.closed_perm h.1 h.2]

def DecryptionKey.known (kv : Str × Str) : Bool := kv.1 == "METHOD".toList || kv.1 == "URI".toList || kv.1 == "IV".toList || kv.1 == "KEYFORMAT".toList || kv.1 == "KEYFORMATVERSIONS".toList

theorem DecryptionKey.step_neutral (a) (kv : Str × Str) (h : DecryptionKey.known kv = false) : DecryptionKey.step a kv = .ok a := by
  obtain ⟨k, v⟩ := kv
  simp only [DecryptionKey.known, Bool.or_eq_false_iff] at h
  simp only [DecryptionKey.step, h, Bool.false_eq_true, if_false]; rfl

theorem DecryptionKey.closed_perm {ps qs : List (Str × Str)} (hp : ps.Perm qs) (hn : (ps.map Prod.fst).Nodup) :
    DecryptionKey.closed ps = DecryptionKey.closed qs := by
  simp only [DecryptionKey.closed, lastVal_perm _ hp hn, lastValQ_perm _ _ hp hn, hp.any_eq]

/-- **the `DecryptionKey` attribute loop: order of the attributes and unknown attributes are irrelevant** -/
theorem DecryptionKey.fold_equiv {ps qs : List (Str × Str)} (h : AttrEquiv DecryptionKey.known ps qs) :
    foldRes DecryptionKey.step {} ps = foldRes DecryptionKey.step {} qs := by
  rw [← foldRes_filter_neutral DecryptionKey.step DecryptionKey.known DecryptionKey.step_neutral _ ps,
      ← foldRes_filter_neutral DecryptionKey.step DecryptionKey.known DecryptionKey.step_neutral _ qs,
      DecryptionKey.fold_closed, DecryptionKey.fold_closed, DecryptionKey.closed_perm h.1 h.2]

def ExtXMedia.known (kv : Str × Str) : Bool := kv.1 == "TYPE".toList || kv.1 == "URI".toList || kv.1 == "GROUP-ID".toList || kv.1 == "LANGUAGE".toList || kv.1 == "ASSOC-LANGUAGE".toList || kv.1 == "NAME".toList || kv.1 == "DEFAULT".toList || kv.1 == "AUTOSELECT".toList || kv.1 == "FORCED".toList || kv.1 == "INSTREAM-ID".toList || kv.1 == "CHARACTERISTICS".toList || kv.1 == "CHANNELS".toList

theorem ExtXMedia.step_neutral (a) (kv : Str × Str) (h : ExtXMedia.known kv = false) : ExtXMedia.step a kv = .ok a := by
  obtain ⟨k, v⟩ := kv
  simp only [ExtXMedia.known, Bool.or_eq_false_iff] at h
  simp only [ExtXMedia.step, h, Bool.false_eq_true, if_false]; rfl

theorem ExtXMedia.closed_perm {ps qs : List (Str × Str)} (hp : ps.Perm qs) (hn : (ps.map Prod.fst).Nodup) :
    ExtXMedia.closed ps = ExtXMedia.closed qs := by
  simp only [ExtXMedia.closed, lastVal_perm _ hp hn, lastValQ_perm _ _ hp hn, hp.any_eq]

/-- **the `ExtXMedia` attribute loop: order of the attributes and unknown attributes are irrelevant** -/
theorem ExtXMedia.fold_equiv {ps qs : List (Str × Str)} (h : AttrEquiv ExtXMedia.known ps qs) :
    foldRes ExtXMedia.step {} ps = foldRes ExtXMedia.step {} qs := by
  rw [← foldRes_filter_neutral ExtXMedia.step ExtXMedia.known ExtXMedia.step_neutral _ ps,
      ← foldRes_filter_neutral ExtXMedia.step ExtXMedia.known ExtXMedia.step_neutral _ qs,
      ExtXMedia.fold_closed, ExtXMedia.fold_closed, ExtXMedia.closed_perm h.1 h.2]

def ExtXDateRange.known (kv : Str × Str) : Bool := kv.1 == "ID".toList || kv.1 == "CLASS".toList || kv.1 == "START-DATE".toList || kv.1 == "END-DATE".toList || kv.1 == "DURATION".toList || kv.1 == "PLANNED-DURATION".toList || kv.1 == "SCTE35-CMD".toList || kv.1 == "SCTE35-OUT".toList || kv.1 == "SCTE35-IN".toList || kv.1 == "END-ON-NEXT".toList || startsWith kv.1 "X-".toList

theorem ExtXDateRange.step_neutral (a) (kv : Str × Str) (h : ExtXDateRange.known kv = false) : ExtXDateRange.step a kv = .ok a := by
  obtain ⟨k, v⟩ := kv
  simp only [ExtXDateRange.known, Bool.or_eq_false_iff] at h
  simp only [ExtXDateRange.step, h, Bool.false_eq_true, if_false]; rfl

theorem clientStep_comm (m : List (Str × Value)) (x y : Str × Str) (h : x.1 ≠ y.1) :
    clientStep (clientStep m x) y = clientStep (clientStep m y) x := by
  simp only [clientStep]
  by_cases hx : startsWith x.1 "X-".toList = true
  · by_cases hy : startsWith y.1 "X-".toList = true
    · simp only [hx, hy, if_true]
      cases Value.parse x.2 <;> cases Value.parse y.2 <;> simp only []
      exact btreeInsert_comm _ _ _ _ (fun e => h e.symm) _
    · have hy' : startsWith y.1 "X-".toList = false := by simpa using hy
      simp only [hx, hy', if_true, Bool.false_eq_true, if_false]
  · have hx' : startsWith x.1 "X-".toList = false := by simpa using hx
    simp only [hx', Bool.false_eq_true, if_false]

theorem nodup_map_inj {α β} (f : α → β) {l : List α} (hn : (l.map f).Nodup) {x y : α} (hx : x ∈ l) (hy : y ∈ l)
    (e : f x = f y) : x = y := by
  induction l with
  | nil => cases hx
  | cons a rest ih =>
    simp only [List.map_cons, List.nodup_cons, List.mem_map, not_exists, not_and] at hn
    simp only [List.mem_cons] at hx hy
    rcases hx with rfl | hx <;> rcases hy with rfl | hy
    · rfl
    · exact absurd e.symm (hn.1 y hy)
    · exact absurd e (hn.1 x hx)
    · exact ih hn.2 hx hy

theorem ExtXDateRange.closed_perm {ps qs : List (Str × Str)} (hp : ps.Perm qs) (hn : (ps.map Prod.fst).Nodup) :
    ExtXDateRange.closed ps = ExtXDateRange.closed qs := by
  have hc : ps.foldl clientStep [] = qs.foldl clientStep [] := by
    apply hp.foldl_eq'
    intro x hx y hy z
    by_cases e : x = y
    · subst e; rfl
    · apply clientStep_comm
      intro e1
      exact e (nodup_map_inj Prod.fst hn hx hy e1)
  simp only [ExtXDateRange.closed, lastVal_perm _ hp hn, lastValQ_perm _ _ hp hn, hp.any_eq, hc]

/-- **the `ExtXDateRange` attribute loop: order of the attributes and unknown attributes are irrelevant** -/
theorem ExtXDateRange.fold_equiv {ps qs : List (Str × Str)} (h : AttrEquiv ExtXDateRange.known ps qs) :
    foldRes ExtXDateRange.step {} ps = foldRes ExtXDateRange.step {} qs := by
  rw [← foldRes_filter_neutral ExtXDateRange.step ExtXDateRange.known ExtXDateRange.step_neutral _ ps,
      ← foldRes_filter_neutral ExtXDateRange.step ExtXDateRange.known ExtXDateRange.step_neutral _ qs,
      ExtXDateRange.fold_closed, ExtXDateRange.fold_closed, ExtXDateRange.closed_perm h.1 h.2]


end Hls
