import Hls.Model.Obs
/-!
# Helper lemmas: no text-level function of the model can return `panic`
(the model has a `panic` result at every place where the Rust code can unwind; after the `fix:`
commits the only remaining ones are `ByteRange::set_start` inside `build` and the writer's
`unreachable!`, both shown unreachable in `Props/C05.lean`)
-/
namespace Hls

@[simp] theorem Res.bind_eq_panic {α β} (x : Res α) (f : α → Res β) :
    (x >>= f) = .panic ↔ x = .panic ∨ ∃ a, x = .ok a ∧ f a = .panic := by
  cases x <;> simp [bind, Res.bind]

@[simp] theorem Res.map_eq_panic {α β} (f : α → β) (x : Res α) : Res.map f x = .panic ↔ x = .panic := by
  cases x <;> simp [Res.map]

@[simp] theorem Res.ofOpt_eq_panic {α} (o : Option α) : Res.ofOpt o = .panic ↔ False := by
  cases o <;> simp [Res.ofOpt]

theorem foldRes_ne_panic {σ α} (f : σ → α → Res σ) (h : ∀ s a, f s a ≠ .panic) (s : σ) (l : List α) :
    foldRes f s l ≠ .panic := by
  induction l generalizing s with
  | nil => simp [foldRes]
  | cons x xs ih =>
    simp only [foldRes]
    cases hx : f s x with
    | ok s' => exact ih s'
    | err => simp
    | panic => exact absurd hx (h s x)

theorem foldRes_ne_panic_mem {σ α} (f : σ → α → Res σ) (l : List α) (h : ∀ s, ∀ a ∈ l, f s a ≠ .panic) (s : σ) :
    foldRes f s l ≠ .panic := by
  induction l generalizing s with
  | nil => simp [foldRes]
  | cons x xs ih =>
    simp only [foldRes]
    cases hx : f s x with
    | ok s' => exact ih (fun s a ha => h s a (List.mem_cons_of_mem _ ha)) s'
    | err => simp
    | panic => exact absurd hx (h s x (by simp))

theorem mapRes_ne_panic {α β} (f : α → Res β) (h : ∀ a, f a ≠ .panic) (l : List α) : mapRes f l ≠ .panic := by
  induction l with
  | nil => simp [mapRes]
  | cons x xs ih =>
    simp only [mapRes]
    cases hx : f x with
    | ok y => cases hr : mapRes f xs with
      | ok ys => simp
      | err => simp
      | panic => exact absurd hr ih
    | err => simp
    | panic => exact absurd hx (h x)

theorem ite_np {α} {c : Prop} [Decidable c] {a b : Res α} (ha : a ≠ .panic) (hb : b ≠ .panic) :
    (if c then a else b) ≠ .panic := by
  split <;> assumption

/-- closes `(if … then … else if … ) ≠ panic` goals whose leaves are `pure`/`err`/binds of
functions already known not to panic -/
syntax "np_chain" : tactic
macro_rules
  | `(tactic| np_chain) => `(tactic| first | (apply ite_np <;> np_chain) | (simp; done))

/-! ## L0 / types -/

@[simp] theorem stripTag_np (a b : Str) : stripTag a b = .panic ↔ False := by
  simp only [stripTag]; split <;> simp
@[simp] theorem parseYesNo_np (s : Str) : parseYesNo s = .panic ↔ False := by
  simp only [parseYesNo]; split <;> (try split) <;> simp
@[simp] theorem parseNat_np (b : Nat) (s : Str) : parseNat b s = .panic ↔ False := by simp [parseNat]
@[simp] theorem parseSecs_np (s : Str) : parseSecs s = .panic ↔ False := by
  simp only [parseSecs]; repeat' split
  all_goals simp
@[simp] theorem ProtocolVersion.parse_np (s : Str) : ProtocolVersion.parse s = .panic ↔ False := by
  simp only [ProtocolVersion.parse]; split <;> simp
@[simp] theorem ByteRange.parse_np (s : Str) : ByteRange.parse s = .panic ↔ False := by
  simp only [ByteRange.parse]; repeat' split
  all_goals simp
@[simp] theorem Channels.parse_np (s : Str) : Channels.parse s = .panic ↔ False := by
  simp only [Channels.parse]; split
  · simp
  · simp; intro a _; split <;> simp
@[simp] theorem EncryptionMethod.parse_np (s : Str) : EncryptionMethod.parse s = .panic ↔ False := by
  simp [EncryptionMethod.parse]
@[simp] theorem HdcpLevel.parse_np (s : Str) : HdcpLevel.parse s = .panic ↔ False := by simp [HdcpLevel.parse]
@[simp] theorem MediaType.parse_np (s : Str) : MediaType.parse s = .panic ↔ False := by simp [MediaType.parse]
@[simp] theorem InStreamId.parse_np (s : Str) : InStreamId.parse s = .panic ↔ False := by
  simp only [InStreamId.parse]; split <;> simp
@[simp] theorem PlaylistType.parse_np (s : Str) : PlaylistType.parse s = .panic ↔ False := by
  simp [PlaylistType.parse]; intro a _; split <;> (try split) <;> simp
@[simp] theorem Float32.parseFloat_np (s : Str) : Float32.parseFloat s = .panic ↔ False := by
  simp only [Float32.parseFloat]; split <;> simp
@[simp] theorem Float32.parseUFloat_np (s : Str) : Float32.parseUFloat s = .panic ↔ False := by
  simp only [Float32.parseUFloat]; split <;> (try split) <;> simp
@[simp] theorem InitializationVector.parse_np (s : Str) : InitializationVector.parse s = .panic ↔ False := by
  simp only [InitializationVector.parse]; repeat' split
  all_goals simp
@[simp] theorem KeyFormatVersions.parse_np (s : Str) : KeyFormatVersions.parse s = .panic ↔ False := by
  simp only [KeyFormatVersions.parse, Res.bind_eq_panic, iff_false]
  intro h
  rcases h with h | ⟨a, _, h⟩
  · exact mapRes_ne_panic _ (fun p => by simp) _ h
  · split at h <;> simp at h
@[simp] theorem Resolution.parse_np (s : Str) : Resolution.parse s = .panic ↔ False := by
  simp only [Resolution.parse]; repeat' split
  all_goals simp
@[simp] theorem Value.parse_np (s : Str) : Value.parse s = .panic ↔ False := by
  simp only [Value.parse]; repeat' split
  all_goals simp

theorem DecryptionKey.step_np (a : DecryptionKeyAcc) (kv : Str × Str) : DecryptionKey.step a kv ≠ .panic := by
  obtain ⟨k, v⟩ := kv
  simp only [DecryptionKey.step]
  np_chain
@[simp] theorem DecryptionKey.parse_np (s : Str) : DecryptionKey.parse s = .panic ↔ False := by
  simp only [DecryptionKey.parse, Res.bind_eq_panic, iff_false, not_or, not_exists, not_and]
  refine ⟨foldRes_ne_panic _ DecryptionKey.step_np _ _, ?_⟩
  intro a _; simp only [DecryptionKey.finish]; split <;> simp

theorem StreamData.step_np (a : StreamDataAcc) (kv : Str × Str) : StreamData.step a kv ≠ .panic := by
  obtain ⟨k, v⟩ := kv
  simp only [StreamData.step]
  np_chain
@[simp] theorem StreamData.parse_np (s : Str) : StreamData.parse s = .panic ↔ False := by
  simp only [StreamData.parse, Res.bind_eq_panic, iff_false, not_or, not_exists, not_and]
  refine ⟨foldRes_ne_panic _ StreamData.step_np _ _, ?_⟩
  intro a _; simp only [StreamData.finish]; split <;> simp

/-! ## tags -/

@[simp] theorem ExtXVersion.parse_np (s : Str) : ExtXVersion.parse s = .panic ↔ False := by simp [ExtXVersion.parse]
@[simp] theorem ExtInf.parse_np (s : Str) : ExtInf.parse s = .panic ↔ False := by simp [ExtInf.parse]
@[simp] theorem ExtXByteRange.parse_np (s : Str) : ExtXByteRange.parse s = .panic ↔ False := by simp [ExtXByteRange.parse]
@[simp] theorem ExtXKey.parse_np (s : Str) : ExtXKey.parse s = .panic ↔ False := by
  simp [ExtXKey.parse]; intro a _; split <;> simp

theorem ExtXMap.step_np (a : ExtXMapAcc) (kv : Str × Str) : ExtXMap.step a kv ≠ .panic := by
  obtain ⟨k, v⟩ := kv
  simp only [ExtXMap.step]
  np_chain
@[simp] theorem ExtXMap.parse_np (s : Str) : ExtXMap.parse s = .panic ↔ False := by
  simp only [ExtXMap.parse, Res.bind_eq_panic, iff_false, not_or, not_exists, not_and, stripTag_np, not_false_eq_true, true_and]
  intro r _
  refine ⟨foldRes_ne_panic _ ExtXMap.step_np _ _, ?_⟩
  intro a _; split <;> simp
@[simp] theorem ExtXProgramDateTime.parse_np (s : Str) : ExtXProgramDateTime.parse s = .panic ↔ False := by
  simp [ExtXProgramDateTime.parse]

theorem ExtXDateRange.step_np (a : ExtXDateRangeAcc) (kv : Str × Str) : ExtXDateRange.step a kv ≠ .panic := by
  obtain ⟨k, v⟩ := kv
  simp only [ExtXDateRange.step]
  np_chain
@[simp] theorem ExtXDateRange.parse_np (s : Str) : ExtXDateRange.parse s = .panic ↔ False := by
  simp only [ExtXDateRange.parse, Res.bind_eq_panic, iff_false, not_or, not_exists, not_and, stripTag_np, not_false_eq_true, true_and]
  intro r _
  refine ⟨foldRes_ne_panic _ ExtXDateRange.step_np _ _, ?_⟩
  intro a _; simp only [ExtXDateRange.finish]; repeat' split
  all_goals simp
@[simp] theorem ExtXTargetDuration.parse_np (s : Str) : ExtXTargetDuration.parse s = .panic ↔ False := by simp [ExtXTargetDuration.parse]
@[simp] theorem ExtXMediaSequence.parse_np (s : Str) : ExtXMediaSequence.parse s = .panic ↔ False := by simp [ExtXMediaSequence.parse]
@[simp] theorem ExtXDiscontinuitySequence.parse_np (s : Str) : ExtXDiscontinuitySequence.parse s = .panic ↔ False := by
  simp [ExtXDiscontinuitySequence.parse]
@[simp] theorem flagTag.parse_np (p s : Str) : flagTag.parse p s = .panic ↔ False := by simp [flagTag.parse]
@[simp] theorem ExtXDiscontinuity.parse_np (s : Str) : ExtXDiscontinuity.parse s = .panic ↔ False := by
  simp only [ExtXDiscontinuity.parse]; split <;> simp

theorem ExtXStart.step_np (a : ExtXStartAcc) (kv : Str × Str) : ExtXStart.step a kv ≠ .panic := by
  obtain ⟨k, v⟩ := kv
  simp only [ExtXStart.step]
  np_chain
@[simp] theorem ExtXStart.parse_np (s : Str) : ExtXStart.parse s = .panic ↔ False := by
  simp only [ExtXStart.parse, Res.bind_eq_panic, iff_false, not_or, not_exists, not_and, stripTag_np, not_false_eq_true, true_and]
  intro r _
  refine ⟨foldRes_ne_panic _ ExtXStart.step_np _ _, ?_⟩
  intro a _; split <;> simp

theorem ExtXMedia.step_np (a : ExtXMediaBuilder) (kv : Str × Str) : ExtXMedia.step a kv ≠ .panic := by
  obtain ⟨k, v⟩ := kv
  simp only [ExtXMedia.step]
  np_chain
theorem ExtXMediaBuilder.build_np (b : ExtXMediaBuilder) : b.build ≠ .panic := by
  simp only [ExtXMediaBuilder.build]; repeat' split
  all_goals simp
@[simp] theorem ExtXMedia.parse_np (s : Str) : ExtXMedia.parse s = .panic ↔ False := by
  simp only [ExtXMedia.parse, Res.bind_eq_panic, iff_false, not_or, not_exists, not_and, stripTag_np, not_false_eq_true, true_and]
  intro r _
  exact ⟨foldRes_ne_panic _ ExtXMedia.step_np _ _, fun a _ => ExtXMediaBuilder.build_np a⟩

theorem ExtXSessionData.step_np (a : ExtXSessionDataAcc) (kv : Str × Str) : ExtXSessionData.step a kv ≠ .panic := by
  obtain ⟨k, v⟩ := kv
  simp only [ExtXSessionData.step]
  np_chain
@[simp] theorem ExtXSessionData.parse_np (s : Str) : ExtXSessionData.parse s = .panic ↔ False := by
  simp only [ExtXSessionData.parse, Res.bind_eq_panic, iff_false, not_or, not_exists, not_and, stripTag_np, not_false_eq_true, true_and]
  intro r _
  refine ⟨foldRes_ne_panic _ ExtXSessionData.step_np _ _, ?_⟩
  intro a _; simp only [ExtXSessionData.finish]; repeat' split
  all_goals simp
@[simp] theorem ExtXSessionKey.parse_np (s : Str) : ExtXSessionKey.parse s = .panic ↔ False := by simp [ExtXSessionKey.parse]

theorem StreamInf.step_np (a : StreamInfAcc) (kv : Str × Str) : StreamInf.step a kv ≠ .panic := by
  obtain ⟨k, v⟩ := kv
  simp only [StreamInf.step]
  np_chain
@[simp] theorem VariantStream.parse_np (s : Str) : VariantStream.parse s = .panic ↔ False := by
  simp only [VariantStream.parse]
  repeat' split
  all_goals (simp only [Res.bind_eq_panic, iff_false, not_or, not_exists, not_and, reduceCtorEq, not_false_eq_true]; try simp)
  · intro a; exact foldRes_ne_panic _ StreamInf.step_np _ _ a

end Hls
