import Hls.Proofs.Num
import Hls.Model.Line
/-!
# `str::lines` + trim + drop-empty (`Lines::from`): what the line splitter sees of a text
-/
namespace Hls

theorem sil_append (a rest : Str) (h : '\n' ∉ a) :
    splitInclusiveNl (a ++ '\n' :: rest) = (a ++ ['\n']) :: splitInclusiveNl rest := by
  induction a with
  | nil => simp [splitInclusiveNl]
  | cons x xs ih =>
    have hx : (x == '\n') = false := by
      simp only [List.mem_cons, not_or] at h
      simpa using fun e => h.1 e.symm
    have := ih (fun hm => h (List.mem_cons_of_mem _ hm))
    simp only [List.cons_append, splitInclusiveNl, hx, Bool.false_eq_true, if_false, this]

theorem sil_nonl (a : Str) (h : '\n' ∉ a) : splitInclusiveNl a = if a.isEmpty then [] else [a] := by
  induction a with
  | nil => rfl
  | cons x xs ih =>
    have hx : (x == '\n') = false := by
      simp only [List.mem_cons, not_or] at h
      simpa using fun e => h.1 e.symm
    have := ih (fun hm => h (List.mem_cons_of_mem _ hm))
    simp only [splitInclusiveNl, hx, Bool.false_eq_true, if_false, this]
    cases xs <;> simp

theorem dropWhile_append_all {α} (p : α → Bool) (s w : List α) (h : s.all p = true) :
    (s ++ w).dropWhile p = w.dropWhile p := by
  induction s with
  | nil => rfl
  | cons c cs ih =>
    simp only [List.all_cons, Bool.and_eq_true] at h
    simp [List.dropWhile, h.1, ih h.2]

theorem dropWhile_append_not_all {α} (p : α → Bool) (s w : List α) (h : s.all p = false) :
    (s ++ w).dropWhile p = s.dropWhile p ++ w := by
  induction s with
  | nil => simp at h
  | cons c cs ih =>
    by_cases hc : p c = true
    · simp only [List.all_cons, hc, Bool.true_and] at h
      simp [List.dropWhile, hc, ih h]
    · simp [List.dropWhile, hc]

theorem dropWhile_all_nil {α} (p : α → Bool) (s : List α) (h : s.all p = true) : s.dropWhile p = [] := by
  have := dropWhile_append_all p s [] h
  simpa using this

theorem trimEnd_append_ws (s w : Str) (hw : w.all isWs = true) : trimEnd (s ++ w) = trimEnd s := by
  simp only [trimEnd, List.reverse_append]
  rw [dropWhile_append_all isWs w.reverse s.reverse (by simpa using hw)]

theorem trim_ws (w : Str) (hw : w.all isWs = true) : trim w = [] := by
  simp [trim, trimStart, trimEnd, dropWhile_all_nil isWs w hw]

theorem trim_append_ws (s w : Str) (hw : w.all isWs = true) : trim (s ++ w) = trim s := by
  unfold trim trimStart
  cases hs : s.all isWs with
  | true =>
    rw [dropWhile_append_all isWs s w hs, dropWhile_all_nil isWs w hw, dropWhile_all_nil isWs s hs]
  | false =>
    rw [dropWhile_append_not_all isWs s w hs, trimEnd_append_ws _ _ hw]

theorem cr_ws : ['\r'].all isWs = true := by decide

theorem stripLineEnd_nl (a : Str) : trim (stripLineEnd (a ++ ['\n'])) = trim a := by
  simp only [stripLineEnd, List.reverse_append, List.reverse_cons, List.reverse_nil, List.nil_append, List.cons_append]
  cases hr : a.reverse with
  | nil =>
    have : a = [] := by simpa using hr
    subst this; rfl
  | cons c r =>
    have ha : a = r.reverse ++ [c] := by
      have := congrArg List.reverse hr
      simpa using this
    by_cases hc : c = '\r'
    · subst hc
      simp only []
      rw [ha, trim_append_ws _ _ cr_ws]
    · split
      · rename_i r' heq; simp only [List.cons.injEq] at heq; exact absurd heq.1 hc
      · rw [← hr]; simp

theorem stripLineEnd_nonl (a : Str) (h : '\n' ∉ a) : stripLineEnd a = a := by
  simp only [stripLineEnd]
  split
  · rename_i r heq
    have : '\n' ∈ a := by
      have : '\n' ∈ a.reverse := by rw [heq]; simp
      simpa using this
    exact absurd this h
  · rfl

def keepLine (a : Str) : List Str := if (trim a).isEmpty then [] else [trim a]

theorem rawLines_append_nl (a rest : Str) (h : '\n' ∉ a) :
    rawLines (a ++ '\n' :: rest) = keepLine a ++ rawLines rest := by
  simp only [rawLines, lines, sil_append a rest h, List.map_cons, List.filterMap_cons, stripLineEnd_nl, keepLine]
  cases (trim a).isEmpty <;> simp

theorem rawLines_nonl (a : Str) (h : '\n' ∉ a) : rawLines a = keepLine a := by
  simp only [rawLines, lines, sil_nonl a h, keepLine]
  cases a with
  | nil => rfl
  | cons c cs =>
    simp only [List.isEmpty_cons, Bool.false_eq_true, if_false, List.map_cons, List.map_nil, List.filterMap_cons,
      List.filterMap_nil, stripLineEnd_nonl _ h]
    cases (trim (c :: cs)).isEmpty <;> simp

theorem nl_split (s : Str) : '\n' ∉ s ∨ ∃ a rest, s = a ++ '\n' :: rest ∧ '\n' ∉ a := by
  induction s with
  | nil => left; simp
  | cons c cs ih =>
    by_cases hc : c = '\n'
    · right; exact ⟨[], cs, by simp [hc], by simp⟩
    · rcases ih with h | ⟨a, rest, e, h⟩
      · left; simp only [List.mem_cons, not_or]; exact ⟨fun e => hc e.symm, h⟩
      · right; refine ⟨c :: a, rest, by simp [e], ?_⟩
        simp only [List.mem_cons, not_or]; exact ⟨fun e => hc e.symm, h⟩

theorem keepLine_ws (w : Str) (hw : w.all isWs = true) : keepLine w = [] := by
  simp [keepLine, trim_ws w hw]

theorem keepLine_append_ws (s w : Str) (hw : w.all isWs = true) : keepLine (s ++ w) = keepLine s := by
  simp [keepLine, trim_append_ws s w hw]

theorem rawLines_ws_aux (n : Nat) : ∀ (w : Str), w.length ≤ n → w.all isWs = true → rawLines w = [] := by
  induction n with
  | zero =>
    intro w hn _
    have : w = [] := List.eq_nil_of_length_eq_zero (by omega)
    subst this; rfl
  | succ n ih =>
    intro w hn hw
    rcases nl_split w with h | ⟨a, rest, e, h⟩
    · rw [rawLines_nonl w h, keepLine_ws w hw]
    · subst e
      have ha : a.all isWs = true := by
        simp only [List.all_append, Bool.and_eq_true] at hw; exact hw.1
      have hr : rest.all isWs = true := by
        simp only [List.all_append, List.all_cons, Bool.and_eq_true] at hw; exact hw.2.2
      have hl : rest.length ≤ n := by simp at hn; omega
      rw [rawLines_append_nl a rest h, keepLine_ws a ha, ih rest hl hr]
      rfl

theorem rawLines_ws (w : Str) (hw : w.all isWs = true) : rawLines w = [] := rawLines_ws_aux w.length w (Nat.le_refl _) hw

theorem rawLines_append_ws_aux (w : Str) (hw : w.all isWs = true) (n : Nat) :
    ∀ (s : Str), s.length ≤ n → rawLines (s ++ w) = rawLines s := by
  have base : ∀ s : Str, '\n' ∉ s → rawLines (s ++ w) = rawLines s := by
    intro s h
    rw [rawLines_nonl s h]
    rcases nl_split w with hw' | ⟨w1, w2, e, hw'⟩
    · have : '\n' ∉ s ++ w := by simp [h, hw']
      rw [rawLines_nonl _ this, keepLine_append_ws s w hw]
    · subst e
      have h1 : w1.all isWs = true := by
        simp only [List.all_append, Bool.and_eq_true] at hw; exact hw.1
      have h2 : w2.all isWs = true := by
        simp only [List.all_append, List.all_cons, Bool.and_eq_true] at hw; exact hw.2.2
      have : '\n' ∉ s ++ w1 := by simp [h, hw']
      rw [← List.append_assoc, rawLines_append_nl _ _ this, keepLine_append_ws s w1 h1, rawLines_ws w2 h2]
      simp
  induction n with
  | zero =>
    intro s hn
    have : s = [] := List.eq_nil_of_length_eq_zero (by omega)
    subst this; exact base [] (by simp)
  | succ n ih =>
    intro s hn
    rcases nl_split s with h | ⟨a, rest, e, h⟩
    · exact base s h
    · subst e
      have hl : rest.length ≤ n := by simp at hn; omega
      rw [List.append_assoc, List.cons_append, rawLines_append_nl a _ h, rawLines_append_nl a _ h, ih rest hl]

theorem rawLines_append_ws (s w : Str) (hw : w.all isWs = true) : rawLines (s ++ w) = rawLines s :=
  rawLines_append_ws_aux w hw s.length s (Nat.le_refl _)

/-- a text made of physical lines, each terminated by `\n` -/
def physText (ls : List Str) : Str := ls.flatMap fun l => l ++ ['\n']

/-- **what the line splitter sees**: the trimmed non-empty lines, in order -/
theorem rawLines_phys (ls : List Str) (h : ∀ l ∈ ls, '\n' ∉ l) :
    rawLines (physText ls) = ls.flatMap keepLine := by
  induction ls with
  | nil => rfl
  | cons l rest ih =>
    have := rawLines_append_nl l (physText rest) (h l (by simp))
    simp only [physText, List.flatMap_cons, List.append_assoc, List.cons_append, List.nil_append] at this ⊢
    rw [this]
    congr 1
    exact ih (fun l' hl' => h l' (by simp [hl']))

theorem trimEnd_split (s : Str) : ∃ w, w.all isWs = true ∧ s = trimEnd s ++ w := by
  have key : ∀ (r : Str), ∃ w, w.all isWs = true ∧ r = w ++ r.dropWhile isWs := by
    intro r
    induction r with
    | nil => exact ⟨[], rfl, rfl⟩
    | cons c cs ih =>
      by_cases hc : isWs c = true
      · obtain ⟨w, hw, e⟩ := ih
        refine ⟨c :: w, by simp [hc, hw], ?_⟩
        simp only [List.dropWhile, hc, List.cons_append]
        rw [← e]
      · exact ⟨[], rfl, by simp [List.dropWhile, hc]⟩
  obtain ⟨w, hw, e⟩ := key s.reverse
  refine ⟨w.reverse, by simpa using hw, ?_⟩
  have := congrArg List.reverse e
  simp only [List.reverse_reverse, List.reverse_append] at this
  exact this

theorem trimEnd_prefix (p x : Str) (hp : ∀ c r, p.reverse = c :: r → isWs c = false) (hne : p ≠ []) :
    trimEnd (p ++ x) = p ++ trimEnd x := by
  simp only [trimEnd, List.reverse_append]
  cases hx : x.reverse.all isWs with
  | true =>
    rw [dropWhile_append_all isWs _ _ hx, dropWhile_all_nil isWs _ hx]
    cases hr : p.reverse with
    | nil => simp at hr; exact absurd hr hne
    | cons c r =>
      have := hp c r hr
      simp only [List.dropWhile, this]
      rw [← hr]; simp
  | false =>
    rw [dropWhile_append_not_all isWs _ _ hx]; simp

/-- **the header line**: after `#EXTM3U` the parser works on a text with the same line items -/
theorem header_strip (x : Str) : ∃ r, stripTag (pfxM3u ++ x) pfxM3u = .ok r ∧ rawLines r = rawLines x := by
  have hts : trimStart (pfxM3u ++ x) = pfxM3u ++ x := by
    apply trimStart_id
    intro c r e
    simp only [pfxM3u] at e
    have : c = '#' := by
      have := congrArg List.head? e
      simpa using this.symm
    subst this; decide
  have hte : trimEnd (pfxM3u ++ x) = pfxM3u ++ trimEnd x := by
    apply trimEnd_prefix
    · intro c r e
      have : c = 'U' := by
        have := congrArg List.head? e
        simpa [pfxM3u] using this.symm
      subst this; decide
    · decide
  refine ⟨trimEnd x, ?_, ?_⟩
  · simp only [stripTag, trim, hts, hte, startsWith]
    have : pfxM3u.isPrefixOf (pfxM3u ++ trimEnd x) = true := by
      rw [List.isPrefixOf_iff_prefix]; exact List.prefix_append _ _
    simp [this]
  · obtain ⟨w, hw, e⟩ := trimEnd_split x
    conv => rhs; rw [e]
    rw [rawLines_append_ws _ _ hw]

end Hls

namespace Hls

/-- `str::lines` on `a\nb` when `a` has no newline and does not end in `\r`, `b` has no newline and is not empty -/
theorem lines_pair (a b : Str) (ha : '\n' ∉ a) (hcr : ∀ r, a.reverse ≠ '\r' :: r) (hb : '\n' ∉ b) (hbn : b ≠ []) :
    lines (a ++ '\n' :: b) = [a, b] := by
  unfold lines
  rw [sil_append a b ha, sil_nonl b hb]
  have hbe : b.isEmpty = false := by cases b <;> simp_all
  have h1 : stripLineEnd (a ++ ['\n']) = a := by
    simp only [stripLineEnd, List.reverse_append, List.reverse_cons, List.reverse_nil, List.nil_append, List.cons_append]
    cases hr : a.reverse with
    | nil => have : a = [] := by simpa using hr
             subst this; rfl
    | cons c r =>
      by_cases e : c = '\r'
      · subst e; exact absurd hr (hcr r)
      · rw [← hr]; simp
  simp only [hbe, Bool.false_eq_true, if_false, List.map_cons, List.map_nil, h1, stripLineEnd_nonl b hb]

end Hls
