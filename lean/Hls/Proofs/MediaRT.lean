import Hls.Props.C01
import Hls.Proofs.KeyMirror
import Hls.Props.C16
import Hls.Props.C07
import Hls.Props.C05
/-!
# Assembly of the media round trip over typed lines (helper lemmas for `Props/C03.lean`)
-/
namespace Hls.C03
open Hls C06 C03K

/-- the public entry points start from an empty builder, possibly with `allowable_excess_duration` -/
def bE (e : Option Nat) : MediaPlaylistBuilder := { allowable_excess_duration := e }

/-! ## part 1: the header lines -/

def isHdr : Line → Bool
  | .version _ | .targetDuration _ | .mediaSequence _ | .discontinuitySequence _ | .playlistType _
  | .iFramesOnly | .independentSegments | .start _ => true
  | _ => false

theorem hdr_step (st : PState) (l : Line) (h : isHdr l = true) (hs : st.segments = []) (hd : st.has_discontinuity_tag = false) :
    mediaStep st l = .ok { st with builder := C01.hdrUpd st.builder l } := by
  cases l <;> simp [isHdr] at h <;> first | rfl | (simp [mediaStep, C01.hdrUpd, hs, hd])

theorem fold_hdr (ls : List Line) (st : PState) (h : ∀ l ∈ ls, isHdr l = true) (hs : st.segments = [])
    (hd : st.has_discontinuity_tag = false) :
    foldRes mediaStep st ls = .ok { st with builder := ls.foldl C01.hdrUpd st.builder } := by
  induction ls generalizing st with
  | nil => rfl
  | cons l rest ih =>
    simp only [foldRes, hdr_step st l (h l (by simp)) hs hd, List.foldl_cons]
    exact ih _ (fun l' hl' => h l' (by simp [hl'])) hs hd

theorem headerLines_isHdr (p : MediaPlaylist) : ∀ l ∈ p.headerLines, isHdr l = true := by
  intro l hl
  simp only [MediaPlaylist.headerLines, List.mem_append] at hl
  rcases hl with ((((((hl | hl) | hl) | hl) | hl) | hl) | hl) | hl
  · split at hl <;> simp at hl; subst hl; rfl
  · simp at hl; subst hl; rfl
  · split at hl <;> simp at hl; subst hl; rfl
  · split at hl <;> simp at hl; subst hl; rfl
  · split at hl <;> simp at hl; subst hl; rfl
  · split at hl <;> simp at hl; subst hl; rfl
  · split at hl <;> simp at hl; subst hl; rfl
  · split at hl <;> simp at hl; subst hl; rfl

/-- what the header lines make of the builder -/
theorem hdr_builder (p : MediaPlaylist) (e : Option Nat) :
    let b := p.headerLines.foldl C01.hdrUpd (bE e)
    b.target_duration = some p.target_duration ∧
    b.media_sequence.getD 0 = p.media_sequence ∧
    b.discontinuity_sequence.getD 0 = p.discontinuity_sequence ∧
    b.playlist_type.getD none = p.playlist_type ∧
    b.has_i_frames_only.getD false = p.has_i_frames_only ∧
    b.has_independent_segments.getD false = p.has_independent_segments ∧
    b.start.getD none = p.start ∧
    b.has_end_list = none ∧ b.allowable_excess_duration = e ∧ b.segments = none ∧ b.unknown = none := by
  obtain ⟨td, ms, ds, pt, ifo, ind, st, el, segs, ex, unk⟩ := p
  simp only [MediaPlaylist.headerLines, List.foldl_append, bE]
  generalize (MediaPlaylist.requiredVersion _) = v
  by_cases h0 : (v != 1) = true <;> by_cases h1 : (ms != 0) = true <;> by_cases h2 : (ds != 0) = true <;>
    cases pt <;> cases ifo <;> cases ind <;> cases st <;>
    simp [h0, h1, h2, C01.hdrUpd] <;> simp_all

/-! ## part 2: the keys of one segment — writer state, emitted lines, parser state -/

def isKeyLine : Line → Bool
  | .key _ => true
  | _ => false

theorem key_step (W : List ExtXKey) (s : KeySpec) (key : ExtXKey) (out : List Line) (ha : Abs W s) (hs : KSorted W) :
    ∃ W' em, writeKeyStep (W, out) key = .ok (W', out ++ em) ∧ em.foldl keyOfLine W = W' ∧
      Abs W' (s.step (stripKey key)) ∧ KSorted W' ∧ ∀ l ∈ em, isKeyLine l = true := by
  obtain ⟨W', em, h1, h2, h3, h4⟩ := writer_refines W s key out ha hs
  refine ⟨W', em, h1, ?_, h2, h3, ?_⟩
  · rcases h4 with ⟨rfl, e⟩ | rfl
    · rw [e] at h2
      exact C11.listing_canonical _ _ s ha h2 hs h3
    · simp only [List.foldl_cons, List.foldl_nil, keyOfLine]
      exact C11.listing_canonical _ _ _ (abs_step W s _ ha) h2 (KSorted_updateKeys W _ hs) h3
  · rcases h4 with ⟨rfl, _⟩ | rfl
    · intro l hl; cases hl
    · intro l hl; simp only [List.mem_singleton] at hl; subst hl; rfl

theorem writer_fold (keys : List ExtXKey) (W : List ExtXKey) (s : KeySpec) (out : List Line) (ha : Abs W s) (hs : KSorted W) :
    ∃ W' em, foldRes writeKeyStep (W, out) keys = .ok (W', out ++ em) ∧ em.foldl keyOfLine W = W' ∧
      Abs W' ((keys.map stripKey).foldl KeySpec.step s) ∧ KSorted W' ∧ ∀ l ∈ em, isKeyLine l = true := by
  induction keys generalizing W s out with
  | nil => exact ⟨W, [], by simp [foldRes], rfl, ha, hs, by intro l hl; cases hl⟩
  | cons k rest ih =>
    obtain ⟨W1, em1, a1, a2, a3, a4, a5⟩ := key_step W s k out ha hs
    obtain ⟨W2, em2, b1, b2, b3, b4, b5⟩ := ih W1 (s.step (stripKey k)) (out ++ em1) a3 a4
    refine ⟨W2, em1 ++ em2, ?_, ?_, ?_, b4, ?_⟩
    · simp only [foldRes, a1]; rw [b1]; simp
    · rw [List.foldl_append, a2, b2]
    · simpa using b3
    · intro l hl
      simp only [List.mem_append] at hl
      rcases hl with hl | hl
      · exact a5 l hl
      · exact b5 l hl

/-- last key of a given (normalised) format in a key list -/
def lastFmt (f : KeyFormat) (K : List ExtXKey) : Option DecryptionKey :=
  K.foldl (fun acc x => match x with
    | some k => if normFormat k = f then some k else acc
    | none => acc) none

theorem lastFmt_acc (f : KeyFormat) (K : List ExtXKey) (acc : Option DecryptionKey) :
    K.foldl (fun acc x => match x with
      | some k => if normFormat k = f then some k else acc
      | none => acc) acc = (lastFmt f K).or acc := by
  induction K using snoc_induction generalizing acc with
  | hnil => simp [lastFmt]
  | hsnoc l a ih =>
    simp only [lastFmt, List.foldl_append, List.foldl_cons, List.foldl_nil]
    cases a with
    | none => exact ih acc
    | some k =>
      simp only []
      split
      · simp
      · exact ih acc

theorem lastFmt_cons (f : KeyFormat) (x : ExtXKey) (K : List ExtXKey) :
    lastFmt f (x :: K) = (lastFmt f K).or (match x with
      | some k => if normFormat k = f then some k else none
      | none => none) := by
  simp only [lastFmt, List.foldl_cons]
  rw [lastFmt_acc]
  cases x <;> rfl

theorem lastFmt_some (f : KeyFormat) (K : List ExtXKey) (k : DecryptionKey) (h : lastFmt f K = some k) :
    some k ∈ K ∧ normFormat k = f := by
  induction K with
  | nil => simp [lastFmt] at h
  | cons x rest ih =>
    rw [lastFmt_cons] at h
    cases hr : lastFmt f rest with
    | some k' =>
      rw [hr] at h
      have h : some k' = some k := by simpa using h
      cases h
      obtain ⟨a, b⟩ := ih hr
      exact ⟨by simp [a], b⟩
    | none =>
      rw [hr] at h; simp only [Option.none_or] at h
      cases x with
      | none => cases h
      | some k0 =>
        simp only at h
        split at h
        · rename_i e; cases h; exact ⟨by simp, e⟩
        · cases h

theorem lastFmt_none (f : KeyFormat) (K : List ExtXKey) (h : lastFmt f K = none) :
    ∀ k, some k ∈ K → normFormat k ≠ f := by
  induction K with
  | nil => intro k hk; cases hk
  | cons x rest ih =>
    rw [lastFmt_cons] at h
    cases hr : lastFmt f rest with
    | some k' => rw [hr] at h; simp at h
    | none =>
      rw [hr] at h; simp only [Option.none_or] at h
      intro k hk
      simp only [List.mem_cons] at hk
      rcases hk with rfl | hk
      · simp only at h
        split at h
        · cases h
        · assumption
      · exact ih hr k hk

theorem fold_step_keys (K : List ExtXKey) (hK : ∀ x ∈ K, x ≠ none) (m0 : KeyFormat → Option DecryptionKey) :
    K.foldl KeySpec.step (.keys m0) = .keys (fun f => (lastFmt f K).or (m0 f)) := by
  induction K generalizing m0 with
  | nil => simp [lastFmt]
  | cons x rest ih =>
    cases x with
    | none => exact absurd rfl (hK none (by simp))
    | some k =>
      simp only [List.foldl_cons, KeySpec.step]
      rw [ih (fun x hx => hK x (by simp [hx]))]
      congr 1; funext f
      rw [lastFmt_cons]
      cases lastFmt f rest with
      | some _ => simp
      | none =>
        simp only [Option.none_or]
        by_cases e : normFormat k = f
        · simp [e]
        · have e' : ¬ f = normFormat k := fun h => e h.symm
          simp [e, e']

/-- the next segment's key list is the marker, or covers every key format that was in effect
(and is not empty right after a marker): otherwise the writer's announced set keeps a key the
segment no longer has (finding K3) -/
def Follows (K K' : List ExtXKey) : Prop :=
  K' = [none] ∨ ((K = [none] → K' ≠ []) ∧ ∀ k, some k ∈ K → ∃ k', some k' ∈ K' ∧ normFormat k' = normFormat k)

theorem abs_marker_or (K : List ExtXKey) (s : KeySpec) (h : Abs K s) :
    K = [none] ∨ ∃ m, s = .keys m ∧ (∀ x ∈ K, x ≠ none) ∧ ∀ k, some k ∈ K ↔ m (normFormat k) = some k := by
  cases s with
  | marker => left; exact h
  | keys m => right; exact ⟨m, rfl, h.1, h.2⟩

/-- the specification state after the keys of `K` is a state that `K` lists -/
theorem abs_after (W K : List ExtXKey) (sW sK : KeySpec) (haW : Abs W sW) (haK : Abs K sK) (hf : Follows W K) :
    Abs K (K.foldl KeySpec.step sW) := by
  rcases hf with rfl | ⟨hne, hcov⟩
  · cases sW <;> simp [KeySpec.step, Abs]
  · rcases abs_marker_or K sK haK with rfl | ⟨mK, rfl, hnm, hmem⟩
    · cases sW <;> simp [KeySpec.step, Abs]
    · have huniq : ∀ k, some k ∈ K → lastFmt (normFormat k) K = some k := by
        intro k hk
        cases hl : lastFmt (normFormat k) K with
        | none => exact absurd rfl (lastFmt_none _ _ hl k hk)
        | some k' =>
          obtain ⟨a, b⟩ := lastFmt_some _ _ _ hl
          have h1 := (hmem k).mp hk
          have h2 := (hmem k').mp a
          rw [b, h1] at h2
          exact h2.symm
      have key : ∀ m0 : KeyFormat → Option DecryptionKey,
          (∀ k, m0 (normFormat k) = some k → ∃ k', some k' ∈ K ∧ normFormat k' = normFormat k) →
          Abs K (K.foldl KeySpec.step (.keys m0)) := by
        intro m0 hm0
        rw [fold_step_keys K hnm]
        refine ⟨hnm, ?_⟩
        intro k
        constructor
        · intro hk; simp [huniq k hk]
        · intro e
          simp only [] at e
          cases hl : lastFmt (normFormat k) K with
          | some k' =>
            rw [hl] at e
            have e : k' = k := by simpa using e
            subst e; exact (lastFmt_some _ _ _ hl).1
          | none =>
            rw [hl] at e
            have e : m0 (normFormat k) = some k := by simpa using e
            obtain ⟨k', a, b⟩ := hm0 k e
            exact absurd b (lastFmt_none _ _ hl k' a)
      cases sW with
      | marker =>
        simp only [Abs] at haW
        have hK := hne haW
        cases K with
        | nil => exact absurd rfl hK
        | cons x rest =>
          cases x with
          | none => exact absurd rfl (hnm none (by simp))
          | some k =>
            have e : (some k :: rest).foldl KeySpec.step .marker = (some k :: rest).foldl KeySpec.step (.keys fun _ => none) := by
              simp [List.foldl_cons, KeySpec.step]
            rw [e]
            exact key _ (by intro k h; cases h)
      | keys mW =>
        apply key
        intro k e
        exact hcov k ((haW.2 k).mpr e)

/-- **the keys of one segment**: from an announced set `W` that the next key list `K` follows,
the writer ends with `K`, and the emitted lines drive the parser's keys in effect from `W` to `K` -/
theorem segment_keys (bkeys : List ExtXKey) (W K : List ExtXKey) (sW sK : KeySpec) (out : List Line)
    (haW : Abs W sW) (hsW : KSorted W) (haK : Abs K sK) (hsK : KSorted K) (hstrip : bkeys.map stripKey = K)
    (hf : Follows W K) :
    ∃ em, foldRes writeKeyStep (W, out) bkeys = .ok (K, out ++ em) ∧ em.foldl keyOfLine W = K ∧
      ∀ l ∈ em, isKeyLine l = true := by
  obtain ⟨W', em, h1, h2, h3, h4, h5⟩ := writer_fold bkeys W sW out haW hsW
  rw [hstrip] at h3
  have hK := abs_after W K sW sK haW haK hf
  have e : W' = K := C11.listing_canonical _ _ _ h3 hK h4 hsK
  subst e
  exact ⟨em, h1, h2, h5⟩

/-! ## part 3: one segment through the writer and back through the parser -/

/-- the tag lines the writer prints for a segment (everything but its keys and the URI line) -/
def tagsOf (s : MediaSegment) : List Line :=
  (match s.map with
   | some m => [Line.map m]
   | none => [])
  ++ (match s.byte_range with
      | some r => [Line.byteRange r]
      | none => [])
  ++ (match s.date_range with
      | some d => [Line.dateRange d]
      | none => [])
  ++ (if s.has_discontinuity then [Line.discontinuity] else [])
  ++ (match s.program_date_time with
      | some p => [Line.programDateTime p]
      | none => [])
  ++ [Line.inf s.duration]

theorem writeLines_eq (s : MediaSegment) : s.writeLines = tagsOf s ++ [.uri s.uri] := by
  obtain ⟨num, ex, keys, map, br, dr, disc, pdt, dur, uri⟩ := s
  cases map <;> cases br <;> cases dr <;> cases disc <;> cases pdt <;> rfl

/-- the segment as the re-parse sees it before `build`: number and IV completion undone, the
(resolved) byte range as written, the map covered by the keys in effect -/
def reparsed (s : MediaSegment) (K : List ExtXKey) : MediaSegment :=
  ⟨0, false, K, s.map.map (fun m => { m with keys := K }), s.byte_range, s.date_range, s.has_discontinuity,
   s.program_date_time, s.duration, s.uri⟩

theorem lastOf_acc {α} (f : Line → Option α) (tags : List Line) (acc : Option α) :
    tags.foldl (fun acc l => match f l with
      | some x => some x
      | none => acc) acc = (C01.lastOf f tags).or acc := by
  induction tags using snoc_induction generalizing acc with
  | hnil => simp [C01.lastOf]
  | hsnoc l a ih =>
    simp only [C01.lastOf, List.foldl_append, List.foldl_cons, List.foldl_nil]
    cases f a with
    | some x => simp
    | none => exact ih acc

theorem lastOf_append {α} (f : Line → Option α) (a b : List Line) :
    C01.lastOf f (a ++ b) = (C01.lastOf f b).or (C01.lastOf f a) := by
  simp only [C01.lastOf, List.foldl_append]
  exact lastOf_acc f b _

theorem lastOf_keys {α} (f : Line → Option α) (hf : ∀ l, isKeyLine l = true → f l = none) (em : List Line)
    (hem : ∀ l ∈ em, isKeyLine l = true) : C01.lastOf f em = none := by
  induction em using snoc_induction with
  | hnil => rfl
  | hsnoc l a ih =>
    rw [lastOf_append, ih (fun l' hl' => hem l' (by simp [hl']))]
    simp [C01.lastOf, hf a (hem a (by simp))]

theorem groupFold_append (acc : MediaSegmentBuilder × List ExtXKey) (a b : List Line) :
    C01.groupFold acc (a ++ b) = C01.groupFold (C01.groupFold acc a) b := by
  simp [C01.groupFold, List.foldl_append]

theorem groupFold_keys (acc : MediaSegmentBuilder × List ExtXKey) (em : List Line) (hem : ∀ l ∈ em, isKeyLine l = true) :
    C01.groupFold acc em = (acc.1, em.foldl keyOfLine acc.2) := by
  induction em generalizing acc with
  | nil => rfl
  | cons l rest ih =>
    have hl := hem l (by simp)
    simp only [C01.groupFold, List.foldl_cons] at ih ⊢
    rw [ih _ (fun l' hl' => hem l' (by simp [hl']))]
    cases l <;> simp [isKeyLine] at hl
    rfl

theorem any_disc_keys (em : List Line) (hem : ∀ l ∈ em, isKeyLine l = true) : em.any C01.isDisc = false := by
  rw [List.any_eq_false]
  intro l hl
  have := hem l hl
  cases l <;> simp [isKeyLine] at this
  simp [C01.isDisc]

theorem segment_lines (st : PState) (s : MediaSegment) (em : List Line) (K : List ExtXKey) (hfresh : st.segment = {})
    (hem : ∀ l ∈ em, isKeyLine l = true) (hK : em.foldl keyOfLine st.available_keys = K) :
    ∃ st', foldRes mediaStep st (em ++ s.writeLines) = .ok st' ∧ st'.segments = st.segments ++ [reparsed s K] ∧
      st'.segment = {} ∧ st'.has_partial_segment = false ∧ st'.available_keys = K ∧ st'.builder = st.builder ∧
      st'.unknown = st.unknown := by
  have htags : ∀ l ∈ em ++ tagsOf s, C01.isSegTag l = true := by
    intro l hl
    simp only [List.mem_append] at hl
    rcases hl with hl | hl
    · have := hem l hl
      cases l <;> simp [isKeyLine] at this
      rfl
    · obtain ⟨num, ex, keys, map, br, dr, disc, pdt, dur, uri⟩ := s
      cases map <;> cases br <;> cases dr <;> cases disc <;> cases pdt <;>
        simp [tagsOf] at hl <;> (try rcases hl with rfl | hl) <;> (try rcases hl with rfl | hl) <;>
        (try rcases hl with rfl | hl) <;> (try rcases hl with rfl | hl) <;> (try rcases hl with rfl | hl) <;>
        first | rfl | (subst hl; rfl)
  have hinf : C01.lastOf C01.infOf (em ++ tagsOf s) = some s.duration := by
    rw [lastOf_append]
    obtain ⟨num, ex, keys, map, br, dr, disc, pdt, dur, uri⟩ := s
    cases map <;> cases br <;> cases dr <;> cases disc <;> cases pdt <;> rfl
  have e : em ++ s.writeLines = (em ++ tagsOf s) ++ [.uri s.uri] := by
    rw [writeLines_eq, List.append_assoc]
  rw [e]
  obtain ⟨st', seg, h1, h2, h3, h4, h5, g1, g2, g3, g4, g5, g6, g7, g8, g9, g10, g11, g12, _⟩ :=
    C01.segment_faithful st (em ++ tagsOf s) s.uri hfresh htags s.duration hinf
  have hkeys : (em ++ tagsOf s).foldl keyOfLine st.available_keys = K := by
    rw [List.foldl_append, hK]
    obtain ⟨num, ex, keys, map, br, dr, disc, pdt, dur, uri⟩ := s
    cases map <;> cases br <;> cases dr <;> cases disc <;> cases pdt <;> rfl
  refine ⟨st', h1, ?_, h3, h4, by rw [h5, hkeys], g11, g12⟩
  rw [h2]
  congr 2
  have hnk : ∀ {α} (f : Line → Option α), (∀ l, isKeyLine l = true → f l = none) → C01.lastOf f em = none :=
    fun f hf => lastOf_keys f hf em hem
  have q1 : seg.byte_range = s.byte_range := by
    rw [g3, lastOf_append, hnk C01.rangeOf (by intro l hl; cases l <;> simp [isKeyLine] at hl; rfl)]
    obtain ⟨num, ex, keys, map, br, dr, disc, pdt, dur, uri⟩ := s
    cases map <;> cases br <;> cases dr <;> cases disc <;> cases pdt <;> rfl
  have q2 : seg.program_date_time = s.program_date_time := by
    rw [g4, lastOf_append, hnk C01.pdtOf (by intro l hl; cases l <;> simp [isKeyLine] at hl; rfl)]
    obtain ⟨num, ex, keys, map, br, dr, disc, pdt, dur, uri⟩ := s
    cases map <;> cases br <;> cases dr <;> cases disc <;> cases pdt <;> rfl
  have q3 : seg.date_range = s.date_range := by
    rw [g5, lastOf_append, hnk C01.dateRangeOf (by intro l hl; cases l <;> simp [isKeyLine] at hl; rfl)]
    obtain ⟨num, ex, keys, map, br, dr, disc, pdt, dur, uri⟩ := s
    cases map <;> cases br <;> cases dr <;> cases disc <;> cases pdt <;> rfl
  have q4 : seg.has_discontinuity = s.has_discontinuity := by
    rw [g6, List.any_append, any_disc_keys em hem]
    obtain ⟨num, ex, keys, map, br, dr, disc, pdt, dur, uri⟩ := s
    cases map <;> cases br <;> cases dr <;> cases disc <;> cases pdt <;> rfl
  have q5 : seg.map = s.map.map (fun m => { m with keys := K }) := by
    rw [g10, groupFold_append, groupFold_keys _ em hem]
    simp only [hK]
    obtain ⟨num, ex, keys, map, br, dr, disc, pdt, dur, uri⟩ := s
    cases map <;> cases br <;> cases dr <;> cases disc <;> cases pdt <;> rfl
  obtain ⟨n', e', k', m', b', d', di', p', du', u'⟩ := seg
  simp only at g1 g2 g7 g8 g9 q1 q2 q3 q4 q5
  subst g1 g2 g8 g9 q1 q2 q3 q4 q5
  simp only [reparsed, MediaSegment.mk.injEq, true_and, and_true]
  rw [g7, hkeys]

/-! ## part 4: all segments -/

/-- the key list of a written segment as the writer announces it (derived IVs removed) -/
def preKeys (s : MediaSegment) : List ExtXKey := s.keys.map stripKey

/-- per segment: the announced keys are a sorted listing of a key state, and an initialization
section, if present, is covered by exactly these keys (the negation is finding K2) -/
def SegGood (s : MediaSegment) : Prop :=
  KSorted (preKeys s) ∧ (∃ sp, Abs (preKeys s) sp) ∧ ∀ m, s.map = some m → m.keys = preKeys s

/-- keys never vanish: once a segment has keys (or the marker), the following segments have keys
(or the marker) — true of every parsed playlist (`parsed_persist`), since `EXT-X-KEY` lines only
replace or reset -/
def Persist : List ExtXKey → List MediaSegment → Prop
  | _, [] => True
  | K, s :: rest => (K ≠ [] → preKeys s ≠ []) ∧ Persist (preKeys s) rest

theorem normFormat_stripIv (k : DecryptionKey) : normFormat (stripIv k) = normFormat k := by
  unfold stripIv normFormat
  cases k.iv <;> rfl

theorem any_isNone_strip (ks : List ExtXKey) : (ks.map stripKey).any (·.isNone) = ks.any (·.isNone) := by
  induction ks with
  | nil => rfl
  | cons k rest ih => cases k <;> simp [stripKey, ih]

/-- **the explicit reset**: what the writer does in front of a segment's keys, and why the key
list then follows the announced set -/
theorem reset_follows (W K bkeys : List ExtXKey) (sW sK : KeySpec) (out : List Line)
    (haW : Abs W sW) (hsW : KSorted W) (haK : Abs K sK) (hK : bkeys.map stripKey = K) (hp : W ≠ [] → K ≠ []) :
    ∃ W1 em0 sW1, resetStep (W, out) bkeys = (W1, out ++ em0) ∧ em0.foldl keyOfLine W = W1 ∧
      (∀ l ∈ em0, isKeyLine l = true) ∧ Abs W1 sW1 ∧ KSorted W1 ∧ Follows W1 K := by
  have hmark : K.any (·.isNone) = bkeys.any (·.isNone) := by rw [← hK]; exact any_isNone_strip bkeys
  unfold resetStep
  by_cases hc : (droppedKey W bkeys && !(bkeys.any (·.isNone))) = true
  · simp only [hc, if_true]
    simp only [Bool.and_eq_true, Bool.not_eq_true'] at hc
    obtain ⟨hd, hnm⟩ := hc
    refine ⟨[none], [Line.key none], .marker, rfl, (by simp [keyOfLine, updateKeys]), (by intro l hl; simp at hl; subst hl; rfl),
      rfl, (by simp [KSorted]), Or.inr ⟨?_, (by intro k hk; simp at hk)⟩⟩
    intro _
    apply hp
    intro e
    subst e
    simp [droppedKey] at hd
  · have hc' : (droppedKey W bkeys && !(bkeys.any (·.isNone))) = false := by simpa using hc
    simp only [hc', Bool.false_eq_true, if_false]
    refine ⟨W, [], sW, (by simp), rfl, (by intro l hl; cases hl), haW, hsW, ?_⟩
    rcases abs_marker_or K sK haK with rfl | ⟨mK, rfl, hnmK, _⟩
    · exact Or.inl rfl
    · right
      have hnm : bkeys.any (·.isNone) = false := by
        rw [← hmark, List.any_eq_false]
        intro x hx
        cases x with
        | none => exact absurd rfl (hnmK none hx)
        | some _ => simp
      have hd : droppedKey W bkeys = false := by
        cases hdd : droppedKey W bkeys with
        | false => rfl
        | true => simp [hdd, hnm] at hc'
      refine ⟨fun e => hp (by rw [e]; simp), ?_⟩
      intro k hk
      simp only [droppedKey, List.any_eq_false] at hd
      have h0 := hd (some k) hk
      have h1 : hasFormat bkeys k = true := by
        cases hb : hasFormat bkeys k with
        | true => rfl
        | false => exact absurd (by show (!hasFormat bkeys k) = true; rw [hb]; rfl) h0
      unfold hasFormat at h1
      obtain ⟨x, hx, hxe⟩ := List.any_eq_true.mp h1
      cases x with
      | none => simp at hxe
      | some new =>
        simp only [beq_iff_eq] at hxe
        refine ⟨stripIv new, ?_, by rw [normFormat_stripIv]; exact hxe⟩
        rw [← hK]
        exact List.mem_map.mpr ⟨some new, hx, rfl⟩

theorem segments_loop (bs : List MediaSegment) (W : List ExtXKey) (out : List Line) (st : PState)
    (hW : ∃ sW, Abs W sW) (hsW : KSorted W) (hgood : ∀ s ∈ bs, SegGood s) (hchain : Persist W bs)
    (hfresh : st.segment = {}) (havail : st.available_keys = W) :
    ∃ W' body st', foldRes writeSegStep (W, out) bs = .ok (W', out ++ body) ∧
      foldRes mediaStep st body = .ok st' ∧
      st'.segments = st.segments ++ bs.map (fun s => reparsed s (preKeys s)) ∧ st'.segment = {} ∧
      st'.has_partial_segment = (if bs.isEmpty then st.has_partial_segment else false) ∧
      st'.builder = st.builder ∧ st'.unknown = st.unknown := by
  induction bs generalizing W out st with
  | nil => exact ⟨W, [], st, by simp [foldRes], rfl, by simp, hfresh, rfl, rfl, rfl⟩
  | cons s rest ih =>
    obtain ⟨sW, haW⟩ := hW
    obtain ⟨hsK, ⟨sK, haK⟩, _⟩ := hgood s (by simp)
    obtain ⟨hper, hch⟩ := hchain
    obtain ⟨W1, em0, sW1, r1, r2, r3, r4, r5, hfol⟩ := reset_follows W (preKeys s) s.keys sW sK out haW hsW haK rfl hper
    obtain ⟨em, w1, w2, w3⟩ := segment_keys s.keys W1 (preKeys s) sW1 sK (out ++ em0) r4 r5 haK hsK rfl hfol
    have hK : (em0 ++ em).foldl keyOfLine st.available_keys = preKeys s := by
      rw [havail, List.foldl_append, r2]; exact w2
    have hem : ∀ l ∈ em0 ++ em, isKeyLine l = true := by
      intro l hl
      rcases List.mem_append.mp hl with hl | hl
      · exact r3 l hl
      · exact w3 l hl
    obtain ⟨st1, p1, p2, p3, p4, p5, p6, p7⟩ := segment_lines st s (em0 ++ em) (preKeys s) hfresh hem hK
    obtain ⟨W', body, st', q1, q2, q3, q4, q5, q6, q7⟩ :=
      ih (preKeys s) (out ++ em0 ++ em ++ s.writeLines) st1 ⟨sK, haK⟩ hsK (fun s' hs' => hgood s' (by simp [hs'])) hch p3 p5
    refine ⟨W', em0 ++ em ++ s.writeLines ++ body, st', ?_, ?_, ?_, q4, ?_, by rw [q6, p6], by rw [q7, p7]⟩
    · simp only [foldRes, writeSegStep, r1, w1]
      rw [q1]; simp [List.append_assoc]
    · rw [foldRes_append, p1]; exact q2
    · rw [q3, p2]; simp
    · simp only [List.isEmpty_cons, Bool.false_eq_true, if_false]
      rw [q5]; split
      · exact p4
      · rfl

/-! ## part 5: unknown tags and ENDLIST behind the segments -/

theorem fold_unknown_lines (us : List Str) (st : PState) :
    foldRes mediaStep st (us.map Line.unknown) = .ok { st with unknown := st.unknown ++ us } := by
  induction us generalizing st with
  | nil => simp [foldRes]
  | cons u rest ih => simp only [List.map_cons, foldRes, mediaStep]; rw [ih]; simp

/-! ## part 6: `build` on the re-parsed segments -/

/-- what `build` established about the segments of a value (slot `i`, media sequence `seq`) -/
def SegsBuilt (seq : Nat) : Nat → List MediaSegment → Prop
  | _, [] => True
  | i, s :: rest =>
    (s.explicit_number = false ∧ s.number = i + seq ∧ i + seq ≤ u64Max ∧
      s.keys = (preKeys s).map (completeIv s.number) ∧ C16.Resolved s.byte_range) ∧ SegsBuilt seq (i + 1) rest

theorem built_reparsed (seq : Nat) (bs : List MediaSegment) (i : Nat) (prev : Option ByteRange)
    (hb : SegsBuilt seq i bs) (hg : ∀ s ∈ bs, SegGood s) :
    Built seq i prev (bs.map fun s => reparsed s (preKeys s)) bs := by
  induction bs generalizing i prev with
  | nil => trivial
  | cons s rest ih =>
    obtain ⟨⟨h1, h2, h3, h4, h5⟩, hrest⟩ := hb
    obtain ⟨_, _, hmap⟩ := hg s (by simp)
    refine ⟨?_, ih _ _ hrest (fun s' hs' => hg s' (by simp [hs']))⟩
    simp only [buildOne, segNumber, reparsed, Bool.not_false, if_true, h3]
    rw [C16.resolveRange_of_resolved _ _ h5]
    obtain ⟨num, ex, keys, map, br, dr, disc, pdt, dur, uri⟩ := s
    simp only at h1 h2 h4 hmap
    subst h1 h2
    simp only [Res.ok.injEq, MediaSegment.mk.injEq, true_and, and_true]
    refine ⟨h4.symm, ?_⟩
    cases map with
    | none => rfl
    | some m =>
      have := hmap m rfl
      simp only [Option.map_some, Option.some.injEq]
      obtain ⟨u, r, ks⟩ := m
      simp only [preKeys] at this ⊢
      rw [← this]

theorem buildLoop_of_built (seq : Nat) (a b : List MediaSegment) (i : Nat) (prev : Option ByteRange)
    (h : Built seq i prev a b) : buildLoop seq i prev (a.map some) = .ok (b.map some) := by
  induction a generalizing b i prev with
  | nil => cases b with
    | nil => rfl
    | cons _ _ => cases h
  | cons x xs ih =>
    cases b with
    | nil => cases h
    | cons y ys =>
      obtain ⟨h1, h2⟩ := h
      simp only [List.map_cons, buildLoop, h1, ih _ _ _ h2]

theorem checkRanges_resolved (segs : List MediaSegment) (last : Option Str) (h : ∀ s ∈ segs, C16.Resolved s.byte_range) :
    checkRanges last segs = true := by
  induction segs generalizing last with
  | nil => rfl
  | cons s rest ih =>
    have hs := h s (by simp)
    have hr := fun l => ih l (fun s' hs' => h s' (by simp [hs']))
    simp only [checkRanges]
    cases hb : s.byte_range with
    | none => exact hr _
    | some r =>
      rw [hb] at hs
      simp only [C16.Resolved] at hs
      cases hst : r.start with
      | none => rw [hst] at hs; cases hs
      | some _ => simp only [hst]; exact hr _

/-- the validation of `build` as a function of what it reads -/
def validOf (indep : Bool) (excess : Option Nat) (target : Nat) (segs : List MediaSegment) : Bool :=
  ({ has_independent_segments := some indep, allowable_excess_duration := excess, segments := some (segs.map some) } :
    MediaPlaylistBuilder).validateSegments target

theorem validateSegments_eq (b : MediaPlaylistBuilder) (target : Nat) (segs : List MediaSegment)
    (hs : b.segments = some (segs.map some)) :
    b.validateSegments target = validOf (b.has_independent_segments.getD false) b.allowable_excess_duration target segs := by
  simp only [MediaPlaylistBuilder.validateSegments, validOf, hs, Option.getD_some]

theorem validOf_transfer (indep : Bool) (excess : Option Nat) (target : Nat) (a a' : List MediaSegment)
    (hk : a'.flatMap (·.keys) = a.flatMap (·.keys)) (hd : a'.map (·.duration) = a.map (·.duration))
    (hr : ∀ s ∈ a', C16.Resolved s.byte_range) (h : validOf indep excess target a = true) :
    validOf indep excess target a' = true := by
  simp only [validOf, MediaPlaylistBuilder.validateSegments, slotValues_map_some, Option.getD_some, Bool.and_eq_true] at h ⊢
  obtain ⟨⟨h1, h2⟩, _⟩ := h
  refine ⟨⟨by rw [hk]; exact h1, ?_⟩, checkRanges_resolved _ _ hr⟩
  have e : ∀ (l : List MediaSegment) (f : ExtInf → Bool), l.all (fun s => f s.duration) = (l.map (·.duration)).all f := by
    intro l f; simp [List.all_map, Function.comp_def]
  rw [e a' (fun d => !decide (roundedSecs d.duration * nanosPerSec > _))]
  rw [e a (fun d => !decide (roundedSecs d.duration * nanosPerSec > _))] at h2
  rw [hd]; exact h2

/-! ## part 7: the whole playlist -/

/-- facts about a media playlist value that `build` guarantees (proved for every parsed value in
part 8), plus the absence of the K2 shape (inside `SegGood`) -/
structure WF (p : MediaPlaylist) (e : Option Nat) : Prop where
  excess : p.allowable_excess_duration = e.getD 0
  built : SegsBuilt p.media_sequence 0 p.segments
  good : ∀ s ∈ p.segments, SegGood s
  valid : validOf p.has_independent_segments e p.target_duration (p.segments.map fun s => reparsed s (preKeys s)) = true

theorem firstBad_implicit (seq : Nat) (segs : List MediaSegment) (h : ∀ s ∈ segs, s.explicit_number = false) :
    firstBad seq (segs.map some) = false := by
  cases segs with
  | nil => rfl
  | cons s rest => simp [firstBad, firstFilled, h s (by simp)]

/-- **write, then run the parser's state machine on the written lines** -/
theorem write_parse_wf (p : MediaPlaylist) (e : Option Nat) (wf : WF p e) (hk3 : Persist [] p.segments) :
    ∃ lines, p.writeLines = .ok lines ∧ assembleMedia (bE e) lines = .ok p := by
  let st0 : PState := { builder := bE e }
  have hh := fold_hdr p.headerLines st0 (headerLines_isHdr p) rfl rfl
  obtain ⟨W', body, sts, l1, l2, l3, l4, l5, l6, l7⟩ :=
    segments_loop p.segments [] p.headerLines { st0 with builder := p.headerLines.foldl C01.hdrUpd st0.builder }
      ⟨.keys fun _ => none, by simp [Abs]⟩ (by simp [KSorted]) wf.good hk3 rfl rfl
  refine ⟨p.headerLines ++ body ++ p.unknown.map Line.unknown ++ (if p.has_end_list then [Line.endList] else []), ?_, ?_⟩
  · simp only [MediaPlaylist.writeLines, l1]
  · unfold assembleMedia
    rw [foldRes_append, foldRes_append, foldRes_append, hh]
    simp only []
    rw [l2]
    simp only []
    rw [fold_unknown_lines]
    simp only []
    obtain ⟨b1, b2, b3, b4, b5, b6, b7, b8, b9, b10, b11⟩ := hdr_builder p e
    have himp : ∀ s ∈ (p.segments.map fun s => reparsed s (preKeys s)), s.explicit_number = false := by
      intro s hs; simp only [List.mem_map] at hs; obtain ⟨s0, _, rfl⟩ := hs; rfl
    have hbuilt := buildLoop_of_built _ _ _ 0 none (built_reparsed p.media_sequence p.segments 0 none wf.built wf.good)
    have hres : ∀ s ∈ (p.segments.map fun s => reparsed s (preKeys s)), C16.Resolved s.byte_range := by
      intro s hs; simp only [List.mem_map] at hs; obtain ⟨s0, hs0, rfl⟩ := hs
      simp only [reparsed]
      -- from SegsBuilt
      have : ∀ (i : Nat) (l : List MediaSegment), SegsBuilt p.media_sequence i l → ∀ x ∈ l, C16.Resolved x.byte_range := by
        intro i l
        induction l generalizing i with
        | nil => intro _ x hx; cases hx
        | cons y ys ih =>
          intro h x hx
          simp only [List.mem_cons] at hx
          rcases hx with rfl | hx
          · exact h.1.2.2.2.2
          · exact ih _ h.2 x hx
      exact this 0 _ wf.built s0 hs0
    -- the state before `mediaFinish`
    have fin : ∀ (stf : PState), stf.segments = (p.segments.map fun s => reparsed s (preKeys s)) →
        stf.has_partial_segment = false → stf.unknown = p.unknown →
        stf.builder.target_duration = some p.target_duration →
        stf.builder.media_sequence.getD 0 = p.media_sequence →
        stf.builder.discontinuity_sequence.getD 0 = p.discontinuity_sequence →
        stf.builder.playlist_type.getD none = p.playlist_type →
        stf.builder.has_i_frames_only.getD false = p.has_i_frames_only →
        stf.builder.has_independent_segments.getD false = p.has_independent_segments →
        stf.builder.start.getD none = p.start →
        stf.builder.has_end_list.getD false = p.has_end_list →
        stf.builder.allowable_excess_duration = e →
        mediaFinish stf = .ok p := by
      intro stf f1 f2 f3 f4 f5 f6 f7 f8 f9 f10 f11 f12
      simp only [mediaFinish, f2, Bool.false_eq_true, if_false]
      have hsegs := setSegments_implicit stf.builder stf.segments (by rw [f1]; exact himp)
      have hB : ∀ (B : MediaPlaylistBuilder), B.segments = some (stf.segments.map some) →
          B.target_duration = some p.target_duration → B.media_sequence.getD 0 = p.media_sequence →
          B.discontinuity_sequence.getD 0 = p.discontinuity_sequence → B.playlist_type.getD none = p.playlist_type →
          B.has_i_frames_only.getD false = p.has_i_frames_only →
          B.has_independent_segments.getD false = p.has_independent_segments → B.start.getD none = p.start →
          B.has_end_list.getD false = p.has_end_list → B.allowable_excess_duration = e → B.unknown = some p.unknown →
          B.build = .ok p := by
        intro B g1 g2 g3 g4 g5 g6 g7 g8 g9 g10 g11
        have hv : B.validate = true := by
          simp only [MediaPlaylistBuilder.validate, g2]
          rw [validateSegments_eq B _ _ g1, g7, g10, f1]
          exact wf.valid
        simp only [MediaPlaylistBuilder.build, hv, Bool.not_true, Bool.false_eq_true, if_false, g1, g3]
        rw [f1, firstBad_implicit _ _ himp]
        simp only [Bool.false_eq_true, if_false, hbuilt]
        have hnone : (p.segments.map some).any (·.isNone) = false := by
          rw [List.any_eq_false]; intro x hx; simp only [List.mem_map] at hx; obtain ⟨y, _, rfl⟩ := hx; simp
        simp only [finishBuild, hnone, Bool.false_eq_true, if_false, g2, g3, g4, g5, g6, g7, g8, g9, g10, g11,
          slotValues_map_some, Option.getD_some, wf.excess.symm]
      have hs' : ({ stf.builder.setSegments stf.segments with unknown := some stf.unknown } : MediaPlaylistBuilder).segments =
          some (stf.segments.map some) := hsegs
      exact hB _ hs' f4 f5 f6 f7 f8 f9 f10 f11 f12 (by rw [← f3])
    have c1 : sts.segments = (p.segments.map fun s => reparsed s (preKeys s)) := l3.trans (by simp [st0])
    have c2 : sts.has_partial_segment = false := by rw [l5]; split <;> rfl
    have c3 : sts.unknown ++ p.unknown = p.unknown := by rw [l7]; simp [st0]
    have d1 : sts.builder.target_duration = some p.target_duration := by rw [l6]; exact b1
    have d2 : sts.builder.media_sequence.getD 0 = p.media_sequence := by rw [l6]; exact b2
    have d3 : sts.builder.discontinuity_sequence.getD 0 = p.discontinuity_sequence := by rw [l6]; exact b3
    have d4 : sts.builder.playlist_type.getD none = p.playlist_type := by rw [l6]; exact b4
    have d5 : sts.builder.has_i_frames_only.getD false = p.has_i_frames_only := by rw [l6]; exact b5
    have d6 : sts.builder.has_independent_segments.getD false = p.has_independent_segments := by rw [l6]; exact b6
    have d7 : sts.builder.start.getD none = p.start := by rw [l6]; exact b7
    have d8 : sts.builder.has_end_list = none := by rw [l6]; exact b8
    have d9 : sts.builder.allowable_excess_duration = e := by rw [l6]; exact b9
    cases hel : p.has_end_list with
    | true =>
      simp only [if_true, foldRes, mediaStep]
      exact fin _ c1 c2 c3 d1 d2 d3 d4 d5 d6 d7 (by rw [hel]; rfl) d9
    | false =>
      simp only [Bool.false_eq_true, if_false, foldRes]
      exact fin _ c1 c2 c3 d1 d2 d3 d4 d5 d6 d7 (by rw [hel]; show sts.builder.has_end_list.getD false = false; rw [d8]; rfl) d9

/-! ## part 8: every parsed value is well-formed -/

/-- a key as text can give it: its IV is explicit or missing, never "derived" -/
def NoNum (k : ExtXKey) : Prop := ∀ d, k = some d → ∀ n, d.iv ≠ .number n

def LinesNoNum (ls : List Line) : Prop := ∀ k, Line.key k ∈ ls → NoNum k

def StNoNum (st : PState) : Prop :=
  (∀ k ∈ st.available_keys, NoNum k) ∧ ∀ s ∈ st.segments, ∀ k ∈ s.keys, NoNum k

theorem mem_updateKeys (avail : List ExtXKey) (k x : ExtXKey) (h : x ∈ updateKeys avail k) : x = k ∨ x ∈ avail := by
  cases k with
  | none => simp only [updateKeys, List.mem_singleton] at h; left; exact h
  | some d =>
    simp only [updateKeys] at h
    rcases (mem_setInsert _ _ _).mp h with h | h
    · left; exact h
    · right
      split at h
      · exact ((mem_setRemove _ _ _).mp h).1
      · exact h

theorem stNoNum_step (st st' : PState) (l : Line) (hi : StNoNum st) (hl : ∀ k, l = .key k → NoNum k)
    (h : mediaStep st l = .ok st') : StNoNum st' := by
  cases l <;> simp only [mediaStep] at h
  case key k =>
    simp only [Res.ok.injEq] at h; subst h
    refine ⟨?_, hi.2⟩
    intro x hx
    rcases mem_updateKeys _ _ _ hx with rfl | hx
    · exact hl _ rfl
    · exact hi.1 x hx
  case uri u =>
    split at h
    · rename_i seg hb
      simp only [Res.ok.injEq] at h; subst h
      simp only [MediaSegmentBuilder.build] at hb
      split at hb
      · simp only [Res.ok.injEq] at hb; subst hb
        refine ⟨hi.1, ?_⟩
        intro s hs
        simp only [List.mem_append, List.mem_singleton] at hs
        rcases hs with hs | rfl
        · exact hi.2 s hs
        · simpa using hi.1
      · cases hb
    · cases h
    · cases h
  case discontinuitySequence n =>
    split at h
    · cases h
    · split at h
      · cases h
      · simp only [Res.ok.injEq] at h; subst h; exact hi
  all_goals first
    | (simp only [Res.ok.injEq] at h; subst h; exact hi)
    | (cases h)

theorem stNoNum_fold (ls : List Line) (st st' : PState) (hi : StNoNum st) (hl : LinesNoNum ls)
    (h : foldRes mediaStep st ls = .ok st') : StNoNum st' := by
  induction ls generalizing st with
  | nil => simp only [foldRes, Res.ok.injEq] at h; subst h; exact hi
  | cons l rest ih =>
    simp only [foldRes] at h
    cases hs : mediaStep st l with
    | ok t =>
      rw [hs] at h
      exact ih t (stNoNum_step st t l hi (fun k e => hl k (by simp [e])) hs) (fun k hk => hl k (by simp [hk])) h
    | err => rw [hs] at h; cases h
    | panic => rw [hs] at h; cases h

theorem stripKey_completeIv (n : Nat) (k : ExtXKey) (h : NoNum k) : stripKey (completeIv n k) = k := by
  cases k with
  | none => rfl
  | some d =>
    have := C07.stripIv_completeIv n d (h d rfl)
    cases hc : completeIv n (some d) with
    | none => rw [hc] at this; cases this
    | some d' => rw [hc] at this; simpa [stripKey] using this

theorem preKeys_built (n : Nat) (ks : List ExtXKey) (h : ∀ k ∈ ks, NoNum k) :
    (ks.map (completeIv n)).map stripKey = ks := by
  induction ks with
  | nil => rfl
  | cons k rest ih =>
    simp only [List.map_cons, stripKey_completeIv n k (h k (by simp)), ih (fun k' hk' => h k' (by simp [hk']))]

/-- what `Built` says about the output, for implicit input segments with text-level keys -/
theorem segsBuilt_of_built (seq : Nat) (a b : List MediaSegment) (i : Nat) (prev : Option ByteRange)
    (hb : Built seq i prev a b) (himp : ∀ s ∈ a, s.explicit_number = false) (hnn : ∀ s ∈ a, ∀ k ∈ s.keys, NoNum k) :
    SegsBuilt seq i b ∧ b.map preKeys = a.map (·.keys) := by
  induction a generalizing b i prev with
  | nil => cases b with
    | nil => exact ⟨trivial, rfl⟩
    | cons _ _ => cases hb
  | cons x xs ih =>
    cases b with
    | nil => cases hb
    | cons y ys =>
      obtain ⟨h1, h2⟩ := hb
      obtain ⟨n, br, e1, e2, e3⟩ := buildOne_ok _ _ _ _ _ h1
      have hx := himp x (by simp)
      simp only [segNumber, hx, Bool.not_false, if_true] at e1
      have hle : i + seq ≤ u64Max := by
        by_cases hle : i + seq ≤ u64Max
        · exact hle
        · simp [hle] at e1
      simp only [hle, if_true, Res.ok.injEq] at e1
      obtain ⟨r1, r2⟩ := ih ys _ _ h2 (fun s hs => himp s (by simp [hs])) (fun s hs => hnn s (by simp [hs]))
      have hpk : preKeys y = x.keys := by
        rw [e3]; simp only [preKeys]; exact preKeys_built n x.keys (hnn x (by simp))
      refine ⟨⟨⟨?_, ?_, hle, ?_, ?_⟩, r1⟩, ?_⟩
      · rw [e3]; exact hx
      · rw [e3]; exact e1.symm
      · rw [hpk, e3]
      · rw [e3]; exact C16.resolveRange_resolved _ _ _ e2
      · simp only [List.map_cons, hpk, r2]

theorem hdrUpd_excess (b : MediaPlaylistBuilder) (l : Line) :
    (C01.hdrUpd b l).allowable_excess_duration = b.allowable_excess_duration := by
  cases l <;> rfl

theorem fold_hdrUpd_excess (ls : List Line) (b : MediaPlaylistBuilder) :
    (ls.foldl C01.hdrUpd b).allowable_excess_duration = b.allowable_excess_duration := by
  induction ls generalizing b with
  | nil => rfl
  | cons l rest ih => simp only [List.foldl_cons]; rw [ih, hdrUpd_excess]

theorem segsRel_facts (a : List MediaSegment) (sps : List (KeySpec × Option KeySpec)) (h : SegsRel a sps) :
    ∀ s ∈ a, KSorted s.keys ∧ ∃ sp, Abs s.keys sp := by
  induction a generalizing sps with
  | nil => intro s hs; cases hs
  | cons x xs ih =>
    cases sps with
    | nil => cases h
    | cons sp rest =>
      intro s hs
      simp only [List.mem_cons] at hs
      rcases hs with rfl | hs
      · exact ⟨h.1.2.1, sp.1, h.1.1⟩
      · exact ih rest h.2 s hs

/-- no key line between a segment's map and its URI (otherwise: finding K2) -/
def NoK2 (p : MediaPlaylist) : Prop := ∀ s ∈ p.segments, ∀ m, s.map = some m → m.keys = preKeys s


/-- `WF` without the K2 clause (which keys cover a map): what holds of EVERY parsed value -/
structure WF0 (p : MediaPlaylist) (e : Option Nat) : Prop where
  excess : p.allowable_excess_duration = e.getD 0
  built : SegsBuilt p.media_sequence 0 p.segments
  good : ∀ s ∈ p.segments, KSorted (preKeys s) ∧ ∃ sp, Abs (preKeys s) sp
  valid : validOf p.has_independent_segments e p.target_duration (p.segments.map fun s => reparsed s (preKeys s)) = true

theorem parsed_wf0 (e : Option Nat) (ls : List Line) (p : MediaPlaylist) (h : assembleMedia (bE e) ls = .ok p)
    (hiv : LinesNoNum ls) : WF0 p e := by
  obtain ⟨st, hf, hpart, hb, hms, htd, hex, hunk, hval⟩ := assembleMedia_ok (bE e) ls p h
  have hinv := pinv_fold ls _ st (pinv_init (bE e)) hf
  have hnn := stNoNum_fold ls _ st ⟨(by intro k hk; cases hk), (by intro s hs; cases hs)⟩ hiv hf
  have hrel := rel_fold ls _ st {} (rel_init (bE e)) hf
  have hbld := C01.fold_builder ls _ st hf
  have hexc : st.builder.allowable_excess_duration = e := by
    rw [hbld]; exact fold_hdrUpd_excess ls (bE e)
  rw [← hms] at hb
  obtain ⟨sb, hpk⟩ := segsBuilt_of_built p.media_sequence st.segments p.segments 0 none hb hinv.2.2 hnn.2
  have hfacts := segsRel_facts _ _ hrel.2.2.2
  have hmem : ∀ s ∈ p.segments, ∃ x ∈ st.segments, preKeys s = x.keys := by
    intro s hs
    have : preKeys s ∈ p.segments.map preKeys := List.mem_map.mpr ⟨s, hs, rfl⟩
    rw [hpk] at this
    obtain ⟨x, hx, e⟩ := List.mem_map.mp this
    exact ⟨x, hx, e.symm⟩
  have hfin : p.has_independent_segments = st.builder.has_independent_segments.getD false := by
    unfold assembleMedia at h
    rw [hf] at h
    exact (C01.finish_fields st p h).2.2.2.2.2.1
  refine ⟨by rw [hex, hexc], sb, ?_, ?_⟩
  · intro s hs
    obtain ⟨x, hx, e⟩ := hmem s hs
    obtain ⟨k1, k2⟩ := hfacts x hx
    rw [← e] at k1 k2
    exact ⟨k1, k2⟩
  · -- validation
    have hsegs := setSegments_implicit st.builder st.segments hinv.2.2
    have hv0 : validOf p.has_independent_segments e p.target_duration st.segments = true := by
      have ht : ({ st.builder.setSegments st.segments with unknown := some st.unknown } : MediaPlaylistBuilder).target_duration
          = some p.target_duration := htd
      have hs' : ({ st.builder.setSegments st.segments with unknown := some st.unknown } : MediaPlaylistBuilder).segments
          = some (st.segments.map some) := hsegs
      have hv1 : ({ st.builder.setSegments st.segments with unknown := some st.unknown } : MediaPlaylistBuilder).validateSegments
          p.target_duration = true := by
        have := hval
        simp only [MediaPlaylistBuilder.validate] at this
        rw [ht] at this
        exact this
      rw [validateSegments_eq _ _ st.segments hs'] at hv1
      have e1 : ({ st.builder.setSegments st.segments with unknown := some st.unknown } : MediaPlaylistBuilder).has_independent_segments
          = st.builder.has_independent_segments := rfl
      have e2 : ({ st.builder.setSegments st.segments with unknown := some st.unknown } : MediaPlaylistBuilder).allowable_excess_duration
          = st.builder.allowable_excess_duration := rfl
      rw [e1, e2, ← hfin, hexc] at hv1
      exact hv1
    apply validOf_transfer _ _ _ st.segments _ _ _ _ hv0
    · have : (p.segments.map fun s => reparsed s (preKeys s)).map (·.keys) = st.segments.map (·.keys) := by
        rw [← hpk]; simp [List.map_map, Function.comp_def, reparsed]
      rw [List.flatMap_def, List.flatMap_def, this]
    · have hk := C01.built_keeps _ _ _ _ _ hb
      have : p.segments.map (·.duration) = st.segments.map (·.duration) := by
        have := congrArg (List.map (fun t : Str × ExtInf × Bool × Option ExtXProgramDateTime × Option ExtXDateRange × Option ExtXMap × Bool => t.2.1)) hk
        simpa [List.map_map, Function.comp_def] using this
      rw [← this]; simp [List.map_map, Function.comp_def, reparsed]
    · intro s hs
      simp only [List.mem_map] at hs
      obtain ⟨s0, hs0, rfl⟩ := hs
      simp only [reparsed]
      have : ∀ (i : Nat) (l : List MediaSegment), SegsBuilt p.media_sequence i l → ∀ x ∈ l, C16.Resolved x.byte_range := by
        intro i l
        induction l generalizing i with
        | nil => intro _ x hx; cases hx
        | cons y ys ih =>
          intro h x hx
          simp only [List.mem_cons] at hx
          rcases hx with rfl | hx
          · exact h.1.2.2.2.2
          · exact ih _ h.2 x hx
      exact this 0 _ sb s0 hs0

theorem parsed_wf (e : Option Nat) (ls : List Line) (p : MediaPlaylist) (h : assembleMedia (bE e) ls = .ok p)
    (hiv : LinesNoNum ls) (hk2 : NoK2 p) : WF p e := by
  obtain ⟨a, b, c, d⟩ := parsed_wf0 e ls p h hiv
  exact ⟨a, b, fun s hs => ⟨(c s hs).1, (c s hs).2, hk2 s hs⟩, d⟩

/-! ## part 9: keys that come from text never carry a derived IV -/

theorem iv_parse_aes (v : Str) (x : InitializationVector) (h : InitializationVector.parse v = .ok x) : ∀ n, x ≠ .number n := by
  simp only [InitializationVector.parse] at h
  split at h
  · cases h
  · split at h
    · cases h
    · split at h
      · simp only [Res.ok.injEq] at h; subst h; intro n e; cases e
      · cases h

theorem decryptionKey_parse_noNum (r : Str) (d : DecryptionKey) (h : DecryptionKey.parse r = .ok d) : ∀ n, d.iv ≠ .number n := by
  simp only [DecryptionKey.parse, DecryptionKey.fold_closed] at h
  cases hc : DecryptionKey.closed (attrPairs r) with
  | ok a =>
    rw [hc] at h
    simp only [Res.bind_ok, DecryptionKey.finish] at h
    split at h
    · simp only [Res.ok.injEq] at h; subst h
      simp only [DecryptionKey.closed] at hc
      split at hc
      · cases hc
      · simp only [Res.ok.injEq] at hc; subst hc
        simp only [optParse]
        cases hl : lastVal "IV".toList (attrPairs r) with
        | none => intro n e; simp at e
        | some v =>
          simp only [Option.bind_some]
          cases hp : InitializationVector.parse v with
          | ok x => simp only [Res.toOption, Option.getD_some]; exact iv_parse_aes v x hp
          | err => intro n e; simp [Res.toOption] at e
          | panic => intro n e; simp [Res.toOption] at e
    · cases h
  | err => rw [hc] at h; cases h
  | panic => rw [hc] at h; cases h

theorem extXKey_parse_noNum (s : Str) (k : ExtXKey) (h : ExtXKey.parse s = .ok k) : NoNum k := by
  simp only [ExtXKey.parse] at h
  cases hs : stripTag s pfxKey with
  | ok r =>
    rw [hs] at h
    simp only [Res.bind_ok] at h
    split at h
    · simp only [Res.pure_eq, Res.ok.injEq] at h; subst h; intro d e; cases e
    · cases hd : DecryptionKey.parse r with
      | ok d0 =>
        rw [hd] at h
        simp only [Res.bind_ok, Res.pure_eq, Res.ok.injEq] at h; subst h
        intro d e; cases e
        exact decryptionKey_parse_noNum r d0 hd
      | err => rw [hd] at h; cases h
      | panic => rw [hd] at h; cases h
  | err => rw [hs] at h; cases h
  | panic => rw [hs] at h; cases h

theorem tagParser_noNum (kind : String) (s : Str) (k : ExtXKey) (h : tagParser kind s = .ok (.key k)) : NoNum k := by
  unfold tagParser at h
  cases hl : lookupParser kind tagParsers with
  | none => rw [hl] at h; cases h
  | some p =>
    rw [hl] at h
    refine C05.AllArms_lookup (fun p => ∀ s k, p s = .ok (.key k) → NoNum k) kind tagParsers ?_ p hl s k h
    simp only [tagParsers, C05.AllArms]
    simp only [C05.Res.map_eq_ok, reduceCtorEq, and_false, exists_false, false_imp_iff, implies_true, true_and, and_true,
      Line.key.injEq, exists_eq_right]
    intro s k h
    exact extXKey_parse_noNum s k h

theorem dispatchIn_noNum (tbl : List (String × String × Bool)) (s : Str) (k : ExtXKey)
    (h : dispatchIn tbl s = .ok (.key k)) : NoNum k := by
  induction tbl with
  | nil => simp [dispatchIn] at h
  | cons e rest ih =>
    obtain ⟨kd, p, ex⟩ := e
    simp only [dispatchIn] at h
    split at h
    · exact tagParser_noNum kd s k h
    · exact ih h

theorem classify1_noNum (l : Str) (k : ExtXKey) (h : classify1 l = .ok (.key k)) : NoNum k := by
  simp only [classify1] at h
  split at h
  · exact dispatchIn_noNum _ l k h
  · split at h <;> simp at h

theorem items_noNum (raw : List Str) (k : ExtXKey) (h : Res.ok (Line.key k) ∈ items raw) : NoNum k := by
  fun_induction items raw with
  | case1 => cases h
  | case2 l hl => simp at h
  | case3 l hl => simp only [List.mem_singleton] at h; exact classify1_noNum l k h.symm
  | case4 l u rest hl ih =>
    rcases List.mem_cons.mp h with e | h
    · exfalso
      have e' := e.symm
      rw [C05.Res.map_eq_ok] at e'
      obtain ⟨a, _, ha⟩ := e'
      cases ha
    · exact ih h
  | case5 l u rest hl ih =>
    rcases List.mem_cons.mp h with e | h
    · exact classify1_noNum l k e.symm
    · exact ih h

/-- **text cannot express a derived IV** -/
theorem text_lines_noNum (s : Str) (ls : List Line) (h : lineItems s = ls.map Res.ok) : LinesNoNum ls := by
  intro k hk
  apply items_noNum (rawLines s) k
  unfold lineItems at h
  rw [h]
  exact List.mem_map.mpr ⟨_, hk, rfl⟩

/-! ## part 10: keys never vanish in a parsed playlist -/

def Mono : List (List ExtXKey) → Prop
  | [] => True
  | [_] => True
  | x :: y :: r => (x ≠ [] → y ≠ []) ∧ Mono (y :: r)

theorem mono_snoc (l : List (List ExtXKey)) (z : List ExtXKey) :
    Mono (l ++ [z]) ↔ Mono l ∧ ∀ x, l.getLast? = some x → x ≠ [] → z ≠ [] := by
  induction l with
  | nil => simp [Mono]
  | cons a rest ih =>
    cases rest with
    | nil => simp [Mono]
    | cons b r =>
      simp only [List.cons_append, Mono] at ih ⊢
      rw [ih]
      simp only [List.getLast?_cons_cons]
      constructor
      · rintro ⟨h1, h2, h3⟩; exact ⟨⟨h1, h2⟩, h3⟩
      · rintro ⟨⟨h1, h2⟩, h3⟩; exact ⟨h1, h2, h3⟩

def KeysMono (st : PState) : Prop :=
  Mono (st.segments.map (·.keys)) ∧
  ∀ x, (st.segments.map (·.keys)).getLast? = some x → x ≠ [] → st.available_keys ≠ []

theorem setInsert_ne_nil (x : ExtXKey) (l : List ExtXKey) : setInsert x l ≠ [] := by
  intro e
  have : x ∈ setInsert x l := (mem_setInsert x x l).mpr (Or.inl rfl)
  rw [e] at this; cases this

theorem updateKeys_ne_nil (avail : List ExtXKey) (k : ExtXKey) : updateKeys avail k ≠ [] := by
  cases k with
  | none => simp [updateKeys]
  | some d => simp only [updateKeys]; exact setInsert_ne_nil _ _

theorem keysMono_step (st st' : PState) (l : Line) (hi : KeysMono st) (h : mediaStep st l = .ok st') : KeysMono st' := by
  cases l <;> simp only [mediaStep] at h
  case key k =>
    simp only [Res.ok.injEq] at h; subst h
    exact ⟨hi.1, fun _ _ _ => updateKeys_ne_nil _ _⟩
  case uri u =>
    split at h
    · rename_i seg hb
      simp only [Res.ok.injEq] at h; subst h
      simp only [MediaSegmentBuilder.build] at hb
      split at hb
      · simp only [Res.ok.injEq] at hb; subst hb
        simp only [KeysMono, List.map_append, List.map_cons, List.map_nil, Option.getD_some]
        refine ⟨(mono_snoc _ _).mpr ⟨hi.1, hi.2⟩, ?_⟩
        intro x hx hne
        simp only [List.getLast?_append, List.getLast?_singleton, Option.some_or, Option.some.injEq] at hx
        subst hx; exact hne
      · cases hb
    · cases h
    · cases h
  case discontinuitySequence n =>
    split at h
    · cases h
    · split at h
      · cases h
      · simp only [Res.ok.injEq] at h; subst h; exact hi
  all_goals first
    | (simp only [Res.ok.injEq] at h; subst h; exact hi)
    | (cases h)

theorem keysMono_fold (ls : List Line) (st st' : PState) (hi : KeysMono st)
    (h : foldRes mediaStep st ls = .ok st') : KeysMono st' := by
  induction ls generalizing st with
  | nil => simp only [foldRes, Res.ok.injEq] at h; subst h; exact hi
  | cons l rest ih =>
    simp only [foldRes] at h
    cases hs : mediaStep st l with
    | ok t => rw [hs] at h; exact ih t (keysMono_step st t l hi hs) h
    | err => rw [hs] at h; cases h
    | panic => rw [hs] at h; cases h

theorem persist_of_mono (bs : List MediaSegment) (K : List ExtXKey) (h : Mono (K :: bs.map preKeys)) : Persist K bs := by
  induction bs generalizing K with
  | nil => trivial
  | cons s rest ih =>
    simp only [List.map_cons, Mono] at h
    exact ⟨h.1, ih _ h.2⟩

/-- **keys never vanish in a parsed playlist** -/
theorem parsed_persist (e : Option Nat) (ls : List Line) (p : MediaPlaylist) (h : assembleMedia (bE e) ls = .ok p)
    (hiv : LinesNoNum ls) : Persist [] p.segments := by
  obtain ⟨st, hf, _, hb, hms, _⟩ := assembleMedia_ok (bE e) ls p h
  have hinv := pinv_fold ls _ st (pinv_init (bE e)) hf
  have hnn := stNoNum_fold ls _ st ⟨(by intro k hk; cases hk), (by intro s hs; cases hs)⟩ hiv hf
  have hinit : KeysMono ({ builder := bE e } : PState) := ⟨(by simp [Mono]), (by intro x hx; simp at hx)⟩
  have hm := keysMono_fold ls _ st hinit hf
  rw [← hms] at hb
  obtain ⟨_, hpk⟩ := segsBuilt_of_built p.media_sequence st.segments p.segments 0 none hb hinv.2.2 hnn.2
  apply persist_of_mono
  rw [hpk]
  cases hl : st.segments.map (·.keys) with
  | nil => trivial
  | cons x r =>
    have := hm.1
    rw [hl] at this
    exact ⟨fun hne => absurd rfl hne, this⟩

end Hls.C03
