import Hls.Proofs.WrittenRT
import Hls.Props.C05
/-!
# What parsing hands out can be written and read back: `MediaWF` for every parsed playlist

Part 1: the raw lines of any text are trimmed, non-empty and newline-free; where each typed line
comes from (`items_origin`); verbatim lines (URI, unknown tag, comment) read back.
-/
namespace Hls

/-! ## part 1: raw lines -/

def RawOK (l : Str) : Prop := '\n' ∉ l ∧ trim l = l ∧ l ≠ []

theorem dropWhile_idem {α} (p : α → Bool) (l : List α) : (l.dropWhile p).dropWhile p = l.dropWhile p := by
  induction l with
  | nil => rfl
  | cons a r ih =>
    simp only [List.dropWhile]
    cases h : p a
    · simp [List.dropWhile, h]
    · simpa using ih

theorem head_dropWhile {α} (p : α → Bool) (l : List α) (c : α) (r : List α) (h : l.dropWhile p = c :: r) : p c = false := by
  induction l with
  | nil => cases h
  | cons a t ih =>
    simp only [List.dropWhile] at h
    cases hp : p a
    · rw [hp] at h; simp only [List.cons.injEq] at h; rw [← h.1]; exact hp
    · rw [hp] at h; exact ih h

theorem mem_trim (s : Str) (c : Char) (h : c ∈ trim s) : c ∈ s := by
  unfold trim trimEnd trimStart at h
  rw [List.mem_reverse] at h
  have := (List.dropWhile_sublist isWs).subset h
  rw [List.mem_reverse] at this
  exact (List.dropWhile_sublist isWs).subset this

theorem trimEnd_idem (t : Str) : trimEnd (trimEnd t) = trimEnd t := by
  unfold trimEnd
  rw [List.reverse_reverse, dropWhile_idem]

theorem trim_trim (s : Str) : trim (trim s) = trim s := by
  unfold trim
  obtain ⟨w, hw, e⟩ := trimEnd_split (trimStart s)
  have hhead : ∀ c r, trimEnd (trimStart s) = c :: r → isWs c = false := by
    intro c r hc
    rw [hc] at e
    exact head_dropWhile isWs s c (r ++ w) (by unfold trimStart at e; simpa using e)
  rw [trimStart_id _ hhead, trimEnd_idem]

theorem keepLine_ok (a : Str) (h : '\n' ∉ a) : ∀ l ∈ keepLine a, RawOK l := by
  intro l hl
  unfold keepLine at hl
  split at hl
  · cases hl
  · rename_i hne
    simp only [List.mem_singleton] at hl; subst hl
    refine ⟨fun hc => h (mem_trim a _ hc), trim_trim a, ?_⟩
    intro e; rw [e] at hne; simp at hne

theorem rawLines_ok_aux (n : Nat) : ∀ s : Str, s.length ≤ n → ∀ l ∈ rawLines s, RawOK l := by
  induction n with
  | zero =>
    intro s hn l hl
    have : s = [] := List.eq_nil_of_length_eq_zero (by omega)
    subst this
    rw [rawLines_nonl [] (by simp)] at hl
    exact keepLine_ok [] (by simp) l hl
  | succ n ih =>
    intro s hn l hl
    rcases nl_split s with h | ⟨a, rest, e, ha⟩
    · rw [rawLines_nonl s h] at hl; exact keepLine_ok s h l hl
    · subst e
      rw [rawLines_append_nl a rest ha] at hl
      rcases List.mem_append.mp hl with hl | hl
      · exact keepLine_ok a ha l hl
      · exact ih rest (by simp at hn; omega) l hl

/-- every raw line is trimmed, non-empty and free of newlines -/
theorem rawLines_ok (s : Str) : ∀ l ∈ rawLines s, RawOK l := rawLines_ok_aux s.length s (Nat.le_refl _)

/-! ## where a typed line comes from -/

/-- a property of (raw line, typed line) holds for whatever `classify1` returns when it holds for every
arm of `Tag::try_from` and for the three verbatim kinds -/
theorem classify1_ind (Q : Str → Line → Prop)
    (harms : C05.AllArms (fun p => ∀ s x, p s = .ok x → Q s x) tagParsers)
    (hunk : ∀ s, Q s (.unknown s)) (hcom : ∀ s, Q s (.comment s))
    (huri : ∀ s, startsWith s ['#'] = false → Q s (.uri s))
    (l : Str) (x : Line) (h : classify1 l = .ok x) : Q l x := by
  have hd : ∀ tbl : List (String × String × Bool), dispatchIn tbl l = .ok x → Q l x := by
    intro tbl
    induction tbl with
    | nil => intro h; simp only [dispatchIn, Res.ok.injEq] at h; subst h; exact hunk l
    | cons e rest ih =>
      obtain ⟨kd, p, ex⟩ := e
      intro h
      simp only [dispatchIn] at h
      split at h
      · unfold tagParser at h
        cases hl : lookupParser kd tagParsers with
        | none => rw [hl] at h; cases h
        | some q => rw [hl] at h; exact C05.AllArms_lookup _ kd tagParsers harms q hl l x h
      · exact ih h
  simp only [classify1] at h
  split at h
  · exact hd _ h
  · split at h
    · simp only [Res.ok.injEq] at h; subst h; exact hcom l
    · rename_i hh
      simp only [Res.ok.injEq] at h; subst h; exact huri l (by simpa using hh)

/-- every typed line of `items raw` is the classification of one raw line, or a STREAM-INF pair -/
theorem items_origin (raw : List Str) (x : Line) (h : Res.ok x ∈ items raw) :
    (∃ l ∈ raw, startsWith l siPfx = false ∧ classify1 l = .ok x) ∨
    (∃ l u v, l ∈ raw ∧ u ∈ raw ∧ startsWith l siPfx = true ∧ VariantStream.parse (l ++ ['\n'] ++ u) = .ok v ∧ x = .variant v) := by
  fun_induction items raw with
  | case1 => cases h
  | case2 l hl => simp at h
  | case3 l hl =>
    simp only [List.mem_singleton] at h
    exact .inl ⟨l, by simp, by simpa [siPfx] using hl, h.symm⟩
  | case4 l u rest hl ih =>
    rcases List.mem_cons.mp h with e | h
    · have e' := e.symm
      rw [C05.Res.map_eq_ok] at e'
      obtain ⟨v, hv, ha⟩ := e'
      exact .inr ⟨l, u, v, by simp, by simp, by simpa [siPfx] using hl, hv, ha.symm⟩
    · rcases ih h with ⟨l', hm, a, b⟩ | ⟨l', u', v, hm1, hm2, a, b, c⟩
      · exact .inl ⟨l', by simp [hm], a, b⟩
      · exact .inr ⟨l', u', v, by simp [hm1], by simp [hm2], a, b, c⟩
  | case5 l u rest hl ih =>
    rcases List.mem_cons.mp h with e | h
    · exact .inl ⟨l, by simp, by simpa [siPfx] using hl, e.symm⟩
    · rcases ih h with ⟨l', hm, a, b⟩ | ⟨l', u', v, hm1, hm2, a, b, c⟩
      · exact .inl ⟨l', by simp [hm], a, b⟩
      · exact .inr ⟨l', u', v, by simp [hm1], by simp [hm2], a, b, c⟩

end Hls
