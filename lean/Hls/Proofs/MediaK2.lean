import Hls.Proofs.MediaRT
/-!
# What exactly changes across write → parse when a key stands between a map and the URI (finding K2)

`fixMaps p` is `p` with every map covered by the keys of its segment. The writer does not look at a map's
key list, and the parser fills it in from the keys in effect; so for EVERY parsed playlist, writing it and
running the parser on the lines returns `fixMaps p` — which is `p` itself exactly when `NoK2 p`.
-/
namespace Hls.C03
open Hls C06 C03K

def fixSeg (s : MediaSegment) : MediaSegment := { s with map := s.map.map fun m => { m with keys := preKeys s } }
def fixMaps (p : MediaPlaylist) : MediaPlaylist := { p with segments := p.segments.map fixSeg }

theorem preKeys_fixSeg (s : MediaSegment) : preKeys (fixSeg s) = preKeys s := rfl

theorem reparsed_fixSeg (s : MediaSegment) (K : List ExtXKey) : reparsed (fixSeg s) K = reparsed s K := by
  obtain ⟨num, ex, keys, map, br, dr, disc, pdt, dur, uri⟩ := s
  cases map <;> rfl

theorem segsBuilt_fix (seq : Nat) (segs : List MediaSegment) (i : Nat) (h : SegsBuilt seq i segs) :
    SegsBuilt seq i (segs.map fixSeg) := by
  induction segs generalizing i with
  | nil => trivial
  | cons s rest ih => exact ⟨h.1, ih (i + 1) h.2⟩

theorem persist_fix (K : List ExtXKey) (segs : List MediaSegment) (h : Persist K segs) : Persist K (segs.map fixSeg) := by
  induction segs generalizing K with
  | nil => trivial
  | cons s rest ih => exact ⟨h.1, ih (preKeys s) h.2⟩

theorem wf_fix (p : MediaPlaylist) (e : Option Nat) (w : WF0 p e) : WF (fixMaps p) e := by
  obtain ⟨a, b, c, d⟩ := w
  refine ⟨a, segsBuilt_fix _ _ _ b, ?_, ?_⟩
  · intro s hs
    obtain ⟨s0, hs0, rfl⟩ := List.mem_map.mp hs
    refine ⟨(c s0 hs0).1, (c s0 hs0).2, ?_⟩
    intro m hm
    simp only [fixSeg] at hm
    cases hmap : s0.map with
    | none => rw [hmap] at hm; cases hm
    | some m0 => rw [hmap] at hm; simp only [Option.map_some, Option.some.injEq] at hm; subst hm; rfl
  · have : (fixMaps p).segments.map (fun s => reparsed s (preKeys s)) = p.segments.map (fun s => reparsed s (preKeys s)) := by
      simp only [fixMaps, List.map_map]
      apply List.map_congr_left
      intro s _
      simp only [Function.comp, preKeys_fixSeg, reparsed_fixSeg]
    rw [this]; exact d

/-! ## the writer does not look at a map's key list -/

theorem fixSeg_keys (s : MediaSegment) : (fixSeg s).keys = s.keys := rfl

theorem writeLines_fixSeg (s : MediaSegment) : (fixSeg s).writeLines.map Line.norm = s.writeLines.map Line.norm := by
  obtain ⟨num, ex, keys, map, br, dr, disc, pdt, dur, uri⟩ := s
  cases map <;> rfl

theorem norm_idem (l : Line) : l.norm.norm = l.norm := by cases l <;> rfl

/-- the writer state up to the key lists carried by emitted map lines -/
def nSt (x : List ExtXKey × List Line) : List ExtXKey × List Line := (x.1, x.2.map Line.norm)

theorem writeKeyStep_n (x y : List ExtXKey × List Line) (k : ExtXKey) (h : nSt y = nSt x) :
    (writeKeyStep y k).map nSt = (writeKeyStep x k).map nSt := by
  obtain ⟨xa, xo⟩ := x
  obtain ⟨ya, yo⟩ := y
  simp only [nSt, Prod.mk.injEq] at h
  obtain ⟨rfl, h2⟩ := h
  cases k with
  | none => simp [writeKeyStep, Res.map, nSt, h2]
  | some dk =>
    simp only [writeKeyStep]
    split
    · simp [Res.map, nSt, h2]
    · cases hf : findReplaced (stripIv dk) (setInsert (some (stripIv dk)) (setRemove none ya)) with
      | ok r => cases r <;> simp [Res.map, nSt, h2]
      | err => rfl
      | panic => rfl

theorem foldKeys_n (keys : List ExtXKey) (x y : List ExtXKey × List Line) (h : nSt y = nSt x) :
    (foldRes writeKeyStep y keys).map nSt = (foldRes writeKeyStep x keys).map nSt := by
  induction keys generalizing x y with
  | nil => simp [foldRes, Res.map, h]
  | cons k rest ih =>
    have hk := writeKeyStep_n x y k h
    simp only [foldRes]
    cases hx : writeKeyStep x k with
    | ok x1 =>
      rw [hx] at hk
      cases hy : writeKeyStep y k with
      | ok y1 =>
        rw [hy] at hk
        simp only [Res.map, Res.ok.injEq] at hk
        exact ih x1 y1 hk
      | err => rw [hy] at hk; cases hk
      | panic => rw [hy] at hk; cases hk
    | err =>
      rw [hx] at hk
      cases hy : writeKeyStep y k with
      | ok y1 => rw [hy] at hk; cases hk
      | err => rfl
      | panic => rw [hy] at hk; cases hk
    | panic =>
      rw [hx] at hk
      cases hy : writeKeyStep y k with
      | ok y1 => rw [hy] at hk; cases hk
      | err => rw [hy] at hk; cases hk
      | panic => rfl

theorem resetStep_n (x y : List ExtXKey × List Line) (keys : List ExtXKey) (h : nSt y = nSt x) :
    nSt (resetStep y keys) = nSt (resetStep x keys) := by
  obtain ⟨xa, xo⟩ := x
  obtain ⟨ya, yo⟩ := y
  simp only [nSt, Prod.mk.injEq] at h
  obtain ⟨rfl, h2⟩ := h
  simp only [resetStep]
  split <;> simp [nSt, h2]

theorem writeSegStep_fix (x y : List ExtXKey × List Line) (s : MediaSegment) (h : nSt y = nSt x) :
    (writeSegStep y (fixSeg s)).map nSt = (writeSegStep x s).map nSt := by
  have hk := foldKeys_n s.keys (resetStep x s.keys) (resetStep y s.keys) (resetStep_n x y s.keys h)
  simp only [writeSegStep, fixSeg_keys]
  cases hx : foldRes writeKeyStep (resetStep x s.keys) s.keys with
  | ok x1 =>
    rw [hx] at hk
    cases hy : foldRes writeKeyStep (resetStep y s.keys) s.keys with
    | ok y1 =>
      rw [hy] at hk
      simp only [Res.map, Res.ok.injEq, nSt, Prod.mk.injEq] at hk ⊢
      exact ⟨hk.1, by simp [List.map_append, hk.2, writeLines_fixSeg]⟩
    | err => rw [hy] at hk; cases hk
    | panic => rw [hy] at hk; cases hk
  | err =>
    rw [hx] at hk
    cases hy : foldRes writeKeyStep (resetStep y s.keys) s.keys with
    | ok y1 => rw [hy] at hk; cases hk
    | err => rfl
    | panic => rw [hy] at hk; cases hk
  | panic =>
    rw [hx] at hk
    cases hy : foldRes writeKeyStep (resetStep y s.keys) s.keys with
    | ok y1 => rw [hy] at hk; cases hk
    | err => rw [hy] at hk; cases hk
    | panic => rfl

theorem writeSegs_fix (segs : List MediaSegment) (x y : List ExtXKey × List Line) (h : nSt y = nSt x) :
    (foldRes writeSegStep y (segs.map fixSeg)).map nSt = (foldRes writeSegStep x segs).map nSt := by
  induction segs generalizing x y with
  | nil => simp [foldRes, Res.map, h]
  | cons s rest ih =>
    have hk := writeSegStep_fix x y s h
    simp only [List.map_cons, foldRes]
    cases hx : writeSegStep x s with
    | ok x1 =>
      rw [hx] at hk
      cases hy : writeSegStep y (fixSeg s) with
      | ok y1 =>
        rw [hy] at hk
        simp only [Res.map, Res.ok.injEq] at hk
        exact ih x1 y1 hk
      | err => rw [hy] at hk; cases hk
      | panic => rw [hy] at hk; cases hk
    | err =>
      rw [hx] at hk
      cases hy : writeSegStep y (fixSeg s) with
      | ok y1 => rw [hy] at hk; cases hk
      | err => rfl
      | panic => rw [hy] at hk; cases hk
    | panic =>
      rw [hx] at hk
      cases hy : writeSegStep y (fixSeg s) with
      | ok y1 => rw [hy] at hk; cases hk
      | err => rw [hy] at hk; cases hk
      | panic => rfl

end Hls.C03

namespace Hls.C03
open Hls C06 C03K

theorem requiredVersion_fixSeg (s : MediaSegment) : (fixSeg s).requiredVersion = s.requiredVersion := by
  obtain ⟨num, ex, keys, map, br, dr, disc, pdt, dur, uri⟩ := s
  cases map <;> rfl

theorem requiredVersion_fixMaps (p : MediaPlaylist) : (fixMaps p).requiredVersion = p.requiredVersion := by
  have e : ∀ segs : List MediaSegment, (segs.map fixSeg).map MediaSegment.requiredVersion = segs.map MediaSegment.requiredVersion := by
    intro segs
    induction segs with
    | nil => rfl
    | cons s rest ih => rw [List.map_cons, List.map_cons, List.map_cons, ih, requiredVersion_fixSeg]
  have e' := e p.segments
  obtain ⟨a, b, c, d, e0, f, g, hh, segs, i, j⟩ := p
  show maxVersion [1, 1, 1, 1, (if e0 then 4 else 1), 1, 1, 1, maxVersion ((segs.map fixSeg).map MediaSegment.requiredVersion)] =
    maxVersion [1, 1, 1, 1, (if e0 then 4 else 1), 1, 1, 1, maxVersion (segs.map MediaSegment.requiredVersion)]
  rw [e']

theorem headerLines_fixMaps (p : MediaPlaylist) : (fixMaps p).headerLines = p.headerLines := by
  have hv := requiredVersion_fixMaps p
  unfold MediaPlaylist.headerLines
  rw [hv]
  rfl

theorem assembleMedia_norm (b : MediaPlaylistBuilder) (ls : List Line) : assembleMedia b (ls.map Line.norm) = assembleMedia b ls := by
  unfold assembleMedia
  rw [foldRes_norm mediaStep mediaStep_norm]

/-- the lines written for `p` and for `fixMaps p` differ at most in the key lists carried by map lines -/
theorem writeLines_fixMaps (p : MediaPlaylist) :
    (fixMaps p).writeLines.map (List.map Line.norm) = p.writeLines.map (List.map Line.norm) := by
  have h := writeSegs_fix p.segments ([], p.headerLines) ([], p.headerLines) rfl
  simp only [MediaPlaylist.writeLines, headerLines_fixMaps]
  have e1 : (fixMaps p).segments = p.segments.map fixSeg := rfl
  have e2 : (fixMaps p).unknown = p.unknown := rfl
  have e3 : (fixMaps p).has_end_list = p.has_end_list := rfl
  rw [e1, e2, e3]
  cases hx : foldRes writeSegStep ([], p.headerLines) p.segments with
  | ok x1 =>
    rw [hx] at h
    cases hy : foldRes writeSegStep ([], p.headerLines) (p.segments.map fixSeg) with
    | ok y1 =>
      rw [hy] at h
      simp only [Res.map, Res.ok.injEq, nSt, Prod.mk.injEq] at h ⊢
      simp only [List.map_append, h.2]
    | err => rw [hy] at h; cases h
    | panic => rw [hy] at h; cases h
  | err =>
    rw [hx] at h
    cases hy : foldRes writeSegStep ([], p.headerLines) (p.segments.map fixSeg) with
    | ok y1 => rw [hy] at h; cases h
    | err => rfl
    | panic => rw [hy] at h; cases h
  | panic =>
    rw [hx] at h
    cases hy : foldRes writeSegStep ([], p.headerLines) (p.segments.map fixSeg) with
    | ok y1 => rw [hy] at h; cases h
    | err => rw [hy] at h; cases h
    | panic => rfl

/-- **what write → parse does to EVERY parsed playlist** (no `NoK2`): the writer produces lines, and the parser's
state machine on them returns `fixMaps p` — `p` with every map covered by the keys of its segment -/
theorem write_parse_k2 (e : Option Nat) (ls : List Line) (p : MediaPlaylist) (h : assembleMedia (bE e) ls = .ok p)
    (hiv : LinesNoNum ls) :
    ∃ lines, p.writeLines = .ok lines ∧ assembleMedia (bE e) lines = .ok (fixMaps p) := by
  have w := wf_fix p e (parsed_wf0 e ls p h hiv)
  have hp := persist_fix [] p.segments (parsed_persist e ls p h hiv)
  obtain ⟨lq, q1, q2⟩ := write_parse_wf (fixMaps p) e w hp
  have hrel := writeLines_fixMaps p
  rw [q1] at hrel
  cases hw : p.writeLines with
  | ok lp =>
    rw [hw] at hrel
    simp only [Res.map, Res.ok.injEq] at hrel
    refine ⟨lp, rfl, ?_⟩
    rw [← assembleMedia_norm, ← hrel, assembleMedia_norm]
    exact q2
  | err => rw [hw] at hrel; cases hrel
  | panic => rw [hw] at hrel; cases hrel

theorem fixMaps_noK2 (p : MediaPlaylist) : NoK2 (fixMaps p) := by
  intro s hs m hm
  obtain ⟨s0, _, rfl⟩ := List.mem_map.mp hs
  simp only [fixSeg] at hm
  cases hmap : s0.map with
  | none => rw [hmap] at hm; cases hm
  | some m0 => rw [hmap] at hm; simp only [Option.map_some, Option.some.injEq] at hm; subst hm; rfl

theorem fixSeg_id (s : MediaSegment) (h : ∀ m, s.map = some m → m.keys = preKeys s) : fixSeg s = s := by
  obtain ⟨num, ex, keys, map, br, dr, disc, pdt, dur, uri⟩ := s
  cases map with
  | none => rfl
  | some m =>
    have hm := h m rfl
    obtain ⟨mu, mr, mk⟩ := m
    have hm' : mk = keys.map stripKey := hm
    subst hm'
    rfl

theorem fixMaps_id (p : MediaPlaylist) (h : NoK2 p) : fixMaps p = p := by
  have hs : p.segments.map fixSeg = p.segments := by
    calc p.segments.map fixSeg = p.segments.map id := List.map_congr_left (fun s hs => fixSeg_id s (h s hs))
      _ = p.segments := by simp
  obtain ⟨a, b, c, d, e, f, g, hh, segs, i, j⟩ := p
  simp only [fixMaps] at hs ⊢
  rw [hs]

end Hls.C03
