import Hls.Proofs.LineRTMore
import Hls.Proofs.LineRTAttr
import Hls.Proofs.DateRangeRT
import Hls.Props.C10
/-!
# Every line the media writer emits reads back (`LineRT`), from conditions on the VALUE

`MediaWF p` lists, field by field, the values for which the text form is faithful (C18's domain):
quotable strings, integers below 2^64, well-formed ranges, keys in `DecryptionKey.WF`, and — as
explicit hypotheses — the facts about Rust's float formatting (FL2 for decimal seconds, FL1 for the
EXT-X-START offset and float-valued client attributes) and the verbatim lines (URI, unknown tags; derived
for parsed values in `ParsedWF`).
-/
namespace Hls

structure SegWF (s : MediaSegment) : Prop where
  keys : ∀ k, some k ∈ s.keys → (stripIv k).WF
  map : ∀ m, s.map = some m → Quotable m.uri ∧ ∀ r, m.range = some r → r.WF
  range : ∀ r, s.byte_range = some r → r.WF
  dateRange : ∀ d, s.date_range = some d → d.WF
  pdt : ∀ t, s.program_date_time = some t → '\n' ∉ t.date_time ∧ EndsOk t.date_time
  secs : parseSecs (showSecs s.duration.duration) = .ok s.duration.duration ∧ plainVal (showSecs s.duration.duration) = true
  title : ∀ x, s.duration.title = some x → trim x = x ∧ x ≠ [] ∧ '\n' ∉ x ∧ EndsOk x
  uri : LineRT (.uri s.uri)

structure MediaWF (p : MediaPlaylist) : Prop where
  target : p.target_duration % nanosPerSec = 0 ∧ p.target_duration / nanosPerSec < 2 ^ 64
  mseq : p.media_sequence < 2 ^ 64
  dseq : p.discontinuity_sequence < 2 ^ 64
  start : ∀ s, p.start = some s → FloatRT s.time_offset
  unknown : ∀ u ∈ p.unknown, LineRT (.unknown u)
  segs : ∀ s ∈ p.segments, SegWF s

theorem key_rv_le5 (k : ExtXKey) : ExtXKey.requiredVersion k ≤ 7 := by
  cases k with
  | none => simp [ExtXKey.requiredVersion]
  | some d => simp only [ExtXKey.requiredVersion, DecryptionKey.requiredVersion]; split <;> (try split) <;> omega

theorem requiredVersion_range (p : MediaPlaylist) : p.requiredVersion ∈ [1, 2, 3, 4, 5, 6, 7] := by
  have h1 : 1 ≤ p.requiredVersion := C10.one_le_maxVersion _
  have h7 : p.requiredVersion ≤ 7 := by
    unfold MediaPlaylist.requiredVersion
    apply C10.maxVersion_le _ _ (by omega)
    intro x hx
    simp only [List.mem_cons, List.mem_nil_iff, or_false] at hx
    rcases hx with rfl | rfl | rfl | rfl | rfl | rfl | rfl | rfl | rfl
    any_goals omega
    · split <;> omega
    · apply C10.maxVersion_le _ _ (by omega)
      intro y hy
      obtain ⟨s, _, rfl⟩ := List.mem_map.mp hy
      unfold MediaSegment.requiredVersion
      apply C10.maxVersion_le _ _ (by omega)
      intro z hz
      simp only [List.mem_cons, List.mem_nil_iff, or_false] at hz
      rcases hz with rfl | rfl | rfl | rfl | rfl | rfl | rfl
      any_goals omega
      · apply C10.maxVersion_le _ _ (by omega)
        intro w hw
        obtain ⟨k, _, rfl⟩ := List.mem_map.mp hw
        exact key_rv_le5 k
      · split <;> omega
      · split <;> omega
      · unfold ExtInf.requiredVersion; split <;> omega
  have : p.requiredVersion = 1 ∨ p.requiredVersion = 2 ∨ p.requiredVersion = 3 ∨ p.requiredVersion = 4 ∨
      p.requiredVersion = 5 ∨ p.requiredVersion = 6 ∨ p.requiredVersion = 7 := by omega
  rcases this with e | e | e | e | e | e | e <;> rw [e] <;> decide

theorem header_lineRT (p : MediaPlaylist) (wf : MediaWF p) : ∀ l ∈ p.headerLines, LineRT l := by
  intro l hl
  simp only [MediaPlaylist.headerLines, List.mem_append] at hl
  rcases hl with ((((((hl | hl) | hl) | hl) | hl) | hl) | hl) | hl
  · split at hl <;> simp at hl; subst hl; exact lineRT_version _ (requiredVersion_range p)
  · simp at hl; subst hl; exact lineRT_targetDuration _ wf.target.1 wf.target.2
  · split at hl <;> simp at hl; subst hl; exact lineRT_mediaSequence _ wf.mseq
  · split at hl <;> simp at hl; subst hl; exact lineRT_discontinuitySequence _ wf.dseq
  · split at hl <;> simp at hl; subst hl; exact lineRT_playlistType _
  · split at hl <;> simp at hl; subst hl; exact lineRT_iFramesOnly
  · split at hl <;> simp at hl; subst hl; exact lineRT_independentSegments
  · split at hl
    · rename_i s hs; simp at hl; subst hl; exact lineRT_start s (wf.start s hs)
    · simp at hl

theorem segment_lineRT (s : MediaSegment) (wf : SegWF s) : ∀ l ∈ s.writeLines, LineRT l := by
  intro l hl
  simp only [MediaSegment.writeLines, List.mem_append, List.mem_cons, List.mem_nil_iff, or_false] at hl
  rcases hl with ((((hl | hl) | hl) | hl) | hl) | hl | hl
  · split at hl
    · rename_i m hm; simp at hl; subst hl; exact lineRT_map m (wf.map m hm).1 (wf.map m hm).2
    · simp at hl
  · split at hl
    · rename_i r hr; simp at hl; subst hl; exact lineRT_byteRange r (wf.range r hr)
    · simp at hl
  · split at hl
    · rename_i d hd; simp at hl; subst hl; exact lineRT_dateRange d (wf.dateRange d hd)
    · simp at hl
  · split at hl <;> simp at hl; subst hl; exact lineRT_discontinuity
  · split at hl
    · rename_i t ht; simp at hl; subst hl; exact lineRT_programDateTime t (wf.pdt t ht).1 (wf.pdt t ht).2
    · simp at hl
  · subst hl; exact lineRT_inf _ wf.secs wf.title
  · subst hl; exact wf.uri

/-- **every line the media writer emits reads back** -/
theorem written_lines_rt (p : MediaPlaylist) (wf : MediaWF p) (lines : List Line) (h : p.writeLines = .ok lines) :
    ∀ l ∈ lines, LineRT l := by
  unfold MediaPlaylist.writeLines at h
  cases hf : foldRes writeSegStep ([], p.headerLines) p.segments with
  | ok r =>
    rw [hf] at h
    obtain ⟨avail, out⟩ := r
    simp only [Res.ok.injEq] at h; subst h
    obtain ⟨a1, _, _, _⟩ := C10.writeSegs_fold p.segments _ _ hf (by intro x hx; cases hx)
    intro l hl
    rcases List.mem_append.mp hl with hl | hl
    · rcases List.mem_append.mp hl with hl | hl
      · rcases a1 l hl with hl | ⟨s, hs, hfs⟩
        · exact header_lineRT p wf l hl
        · have swf := wf.segs s hs
          rcases hfs with ⟨k, hk, rfl⟩ | rfl | hfs
          · exact lineRT_key_some _ (swf.keys k hk)
          · exact lineRT_key_none
          · exact segment_lineRT s swf l hfs
      · obtain ⟨u, hu, rfl⟩ := List.mem_map.mp hl
        exact wf.unknown u hu
    · split at hl
      · simp only [List.mem_singleton] at hl; subst hl; exact lineRT_endList
      · cases hl
  | err => rw [hf] at h; cases h
  | panic => rw [hf] at h; cases h

end Hls
