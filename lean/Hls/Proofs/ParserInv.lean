import Hls.Proofs.Fold
/-!
# Helper lemmas: invariants of the media parser state and the shape of `build` on parsed segments
-/
namespace Hls

/-- what is true of every parser state: segments are implicitly numbered -/
def PInv (st : PState) : Prop :=
  st.segment.number = none ∧ st.segment.explicit_number = none ∧
  ∀ s ∈ st.segments, s.explicit_number = false

theorem pinv_init (b : MediaPlaylistBuilder) : PInv { builder := b } := ⟨rfl, rfl, by simp⟩

theorem pinv_step (st st' : PState) (l : Line) (hi : PInv st) (h : mediaStep st l = .ok st') : PInv st' := by
  obtain ⟨a, b, c⟩ := hi
  cases l
  case uri u =>
    simp only [mediaStep] at h
    split at h
    · rename_i seg hseg
      simp only [Res.ok.injEq] at h; subst h
      unfold MediaSegmentBuilder.build at hseg
      split at hseg
      · simp only [Res.ok.injEq] at hseg
        subst hseg
        refine ⟨rfl, rfl, ?_⟩
        intro s hs
        rcases List.mem_append.mp hs with hs | hs
        · exact c s hs
        · simp only [List.mem_singleton] at hs; subst hs; simp [b]
      · cases hseg
    · cases h
    · cases h
  case discontinuitySequence n =>
    simp only [mediaStep] at h
    split at h
    · cases h
    · split at h
      · cases h
      · simp only [Res.ok.injEq] at h; subst h; exact ⟨a, b, c⟩
  all_goals (first
    | (simp only [mediaStep, Res.ok.injEq] at h; subst h; exact ⟨a, b, c⟩)
    | (simp [mediaStep] at h))

theorem pinv_fold (ls : List Line) (st st' : PState) (hi : PInv st)
    (h : foldRes mediaStep st ls = .ok st') : PInv st' := by
  induction ls generalizing st with
  | nil => simp only [foldRes, Res.ok.injEq] at h; subst h; exact hi
  | cons l ls ih =>
    simp only [foldRes] at h
    cases hs : mediaStep st l with
    | ok s1 => rw [hs] at h; exact ih s1 (pinv_step st s1 l hi hs) h
    | err => rw [hs] at h; cases h
    | panic => rw [hs] at h; cases h

theorem filter_explicit_nil (segs : List MediaSegment) (h : ∀ s ∈ segs, s.explicit_number = false) :
    segs.filter (·.explicit_number) = [] ∧ segs.filter (!·.explicit_number) = segs := by
  constructor
  · apply List.filter_eq_nil_iff.mpr
    intro s hs; simp [h s hs]
  · apply List.filter_eq_self.mpr
    intro s hs; simp [h s hs]

theorem setSegments_implicit (b : MediaPlaylistBuilder) (segs : List MediaSegment)
    (h : ∀ s ∈ segs, s.explicit_number = false) :
    (b.setSegments segs).segments = some (segs.map some) := by
  unfold MediaPlaylistBuilder.setSegments
  obtain ⟨h1, h2⟩ := filter_explicit_nil segs h
  simp [h1, h2]

theorem slotValues_map_some (segs : List MediaSegment) : slotValues (segs.map some) = segs := by
  induction segs with
  | nil => rfl
  | cons s ss ih => simp [slotValues] at ih ⊢; exact ih

/-- output segments of the `build` loop, slot by slot: each is `buildOne` of the input segment in
slot `i` for the `previous_range` reached there -/
def Built (seq : Nat) : Nat → Option ByteRange → List MediaSegment → List MediaSegment → Prop
  | _, _, [], [] => True
  | i, prev, s :: ss, s' :: ss' =>
    buildOne seq i prev s = .ok s' ∧ Built seq (i + 1) (nextPrev prev s'.byte_range) ss ss'
  | _, _, _, _ => False

theorem buildLoop_map_some (seq : Nat) (segs : List MediaSegment) (i : Nat) (prev : Option ByteRange)
    (out : List (Option MediaSegment)) (h : buildLoop seq i prev (segs.map some) = .ok out) :
    ∃ segs', out = segs'.map some ∧ Built seq i prev segs segs' := by
  induction segs generalizing i prev out with
  | nil => simp only [List.map_nil, buildLoop, Res.ok.injEq] at h; subst h; exact ⟨[], rfl, trivial⟩
  | cons s ss ih =>
    simp only [List.map_cons, buildLoop] at h
    cases h1 : buildOne seq i prev s with
    | ok s' =>
      rw [h1] at h; simp only at h
      cases h2 : buildLoop seq (i + 1) (nextPrev prev s'.byte_range) (ss.map some) with
      | ok r =>
        rw [h2] at h; simp only [Res.ok.injEq] at h; subst h
        obtain ⟨segs', e, hb⟩ := ih _ _ _ h2
        exact ⟨s' :: segs', by simp [e], ⟨h1, hb⟩⟩
      | err => rw [h2] at h; cases h
      | panic => rw [h2] at h; cases h
    | err => rw [h1] at h; cases h
    | panic => rw [h1] at h; cases h

theorem Built_length {seq i prev} {a b : List MediaSegment} (h : Built seq i prev a b) : a.length = b.length := by
  induction a generalizing i prev b with
  | nil => cases b with
    | nil => rfl
    | cons _ _ => cases h
  | cons x xs ih => cases b with
    | nil => cases h
    | cons y ys => simp [ih h.2]

/-- what `buildOne` leaves unchanged and what it sets -/
theorem buildOne_ok (seq i : Nat) (prev : Option ByteRange) (s s' : MediaSegment) (h : buildOne seq i prev s = .ok s') :
    ∃ number br, segNumber seq i s = .ok number ∧ resolveRange prev s.byte_range = .ok br ∧
      s' = { s with number := number, keys := s.keys.map (completeIv number), byte_range := br } := by
  unfold buildOne at h
  cases h1 : segNumber seq i s with
  | ok n =>
    rw [h1] at h; simp only at h
    cases h2 : resolveRange prev s.byte_range with
    | ok br => rw [h2] at h; simp only [Res.ok.injEq] at h; exact ⟨n, br, rfl, rfl, h.symm⟩
    | err => rw [h2] at h; cases h
    | panic => rw [h2] at h; cases h
  | err => rw [h1] at h; cases h
  | panic => rw [h1] at h; cases h

/-- decomposition of a successful `build` -/
theorem build_ok (b : MediaPlaylistBuilder) (p : MediaPlaylist) (h : b.build = .ok p) :
    b.validate = true ∧ ∃ slots slots', b.segments = some slots ∧
      firstBad (b.media_sequence.getD 0) slots = false ∧
      buildLoop (b.media_sequence.getD 0) 0 none slots = .ok slots' ∧
      finishBuild b slots' = .ok p := by
  unfold MediaPlaylistBuilder.build at h
  cases hv : b.validate with
  | false => simp [hv] at h
  | true =>
    simp only [hv, Bool.not_true, Bool.false_eq_true, if_false] at h
    cases hs : b.segments with
    | none => simp [hs] at h
    | some slots =>
      simp only [hs] at h
      cases hf : firstBad (b.media_sequence.getD 0) slots with
      | true => simp [hf] at h
      | false =>
        simp only [hf, Bool.false_eq_true, if_false] at h
        cases hb : buildLoop (b.media_sequence.getD 0) 0 none slots with
        | ok slots' => rw [hb] at h; exact ⟨rfl, slots, slots', rfl, hf, hb, h⟩
        | err => rw [hb] at h; cases h
        | panic => rw [hb] at h; cases h

theorem finishBuild_ok (b : MediaPlaylistBuilder) (slots' : List (Option MediaSegment)) (p : MediaPlaylist)
    (h : finishBuild b slots' = .ok p) :
    slots'.any (·.isNone) = false ∧ b.target_duration = some p.target_duration ∧
    p.segments = slotValues slots' ∧ p.media_sequence = b.media_sequence.getD 0 ∧
    p.allowable_excess_duration = b.allowable_excess_duration.getD 0 ∧
    p.unknown = b.unknown.getD [] ∧ p.has_independent_segments = b.has_independent_segments.getD false := by
  unfold finishBuild at h
  cases ha : slots'.any (·.isNone) with
  | true => simp [ha] at h
  | false =>
    simp only [ha, Bool.false_eq_true, if_false] at h
    cases ht : b.target_duration with
    | none => simp [ht] at h
    | some td =>
      simp only [ht, Res.ok.injEq] at h
      subst h
      exact ⟨rfl, rfl, rfl, rfl, rfl, rfl, rfl⟩

/-- **decomposition of a successful parse at the typed-line level** -/
theorem assembleMedia_ok (b : MediaPlaylistBuilder) (ls : List Line) (p : MediaPlaylist)
    (h : assembleMedia b ls = .ok p) :
    ∃ st, foldRes mediaStep { builder := b } ls = .ok st ∧ st.has_partial_segment = false ∧
      Built (st.builder.media_sequence.getD 0) 0 none st.segments p.segments ∧
      p.media_sequence = st.builder.media_sequence.getD 0 ∧
      st.builder.target_duration = some p.target_duration ∧
      p.allowable_excess_duration = st.builder.allowable_excess_duration.getD 0 ∧
      p.unknown = st.unknown ∧
      ({ st.builder.setSegments st.segments with unknown := some st.unknown } : MediaPlaylistBuilder).validate = true := by
  unfold assembleMedia at h
  cases hf : foldRes mediaStep { builder := b } ls with
  | ok st =>
    rw [hf] at h; simp only at h
    have hinv := pinv_fold ls _ st (pinv_init b) hf
    unfold mediaFinish at h
    cases hp : st.has_partial_segment with
    | true => simp [hp] at h
    | false =>
      simp only [hp, Bool.false_eq_true, if_false] at h
      obtain ⟨hval, slots, slots', hs, _, hbl, hfin⟩ := build_ok _ _ h
      have hseg : slots = st.segments.map some := by
        have := setSegments_implicit st.builder st.segments hinv.2.2
        have e : ({ st.builder.setSegments st.segments with unknown := some st.unknown } : MediaPlaylistBuilder).segments
            = (st.builder.setSegments st.segments).segments := rfl
        rw [e, this] at hs
        exact (Option.some.inj hs).symm
      subst hseg
      obtain ⟨segs', e, hb⟩ := buildLoop_map_some _ _ _ _ _ hbl
      obtain ⟨_, f2, f3, f4, f5, f6, _⟩ := finishBuild_ok _ _ _ hfin
      refine ⟨st, rfl, hp, ?_, f4, f2, f5, f6, hval⟩
      rw [f3, e, slotValues_map_some]
      exact hb
  | err => rw [hf] at h; cases h
  | panic => rw [hf] at h; cases h

end Hls
