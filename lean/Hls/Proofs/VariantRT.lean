import Hls.Proofs.MediaTagRT
/-!
# EXT-X-STREAM-INF / EXT-X-I-FRAME-STREAM-INF: parse (write v) = v, and `LineRT`
-/
namespace Hls

/-! ## look-ups in a written attribute list -/

theorem lookupOpt_mem (k v : Str) (all : List (Str × Option Str)) (hn : (all.map (·.1)).Nodup) (h : (k, some v) ∈ all) :
    lookupOpt k all = some v := by
  induction all with
  | nil => cases h
  | cons e rest ih =>
    obtain ⟨k', o⟩ := e
    simp only [List.map_cons, List.nodup_cons] at hn
    rcases List.mem_cons.mp h with e | h
    · simp only [Prod.mk.injEq] at e; obtain ⟨rfl, rfl⟩ := e; simp [lookupOpt]
    · have : (k' == k) = false := by
        apply beq_false_of_ne
        intro e; subst e
        exact hn.1 (List.mem_map.mpr ⟨_, h, rfl⟩)
      simp only [lookupOpt, this, Bool.false_eq_true, if_false]
      exact ih hn.2 h

theorem mem_presentPairs (k v : Str) (all : List (Str × Option Str)) (h : (k, v) ∈ presentPairs all) : (k, some v) ∈ all := by
  simp only [presentPairs, List.mem_filterMap] at h
  obtain ⟨e, he, hm⟩ := h
  obtain ⟨k', o⟩ := e
  cases o with
  | none => cases hm
  | some v' => simp only [Option.map_some, Option.some.injEq, Prod.mk.injEq] at hm; obtain ⟨rfl, rfl⟩ := hm; exact he

/-! ## StreamData -/

def sdRest (d : StreamData) : List (Str × Option Str) :=
  [("AVERAGE-BANDWIDTH".toList, d.average_bandwidth.map showNat), ("CODECS".toList, d.codecs.map fun c => quote c.show),
   ("RESOLUTION".toList, d.resolution.map Resolution.show), ("HDCP-LEVEL".toList, d.hdcp_level.map HdcpLevel.show),
   ("VIDEO".toList, d.video.map quote)]

theorem matchPiece {α} (k lit : Str) (f : α → Str) (o : Option α) (h : lit = ',' :: k ++ ['=']) :
    (match o with | some v => lit ++ f v | none => []) = optPiece (k, o.map f) := by
  cases o with
  | none => rfl
  | some x => simp [optPiece, h]

theorem streamData_show_eq (d : StreamData) : d.show = renderOpt "BANDWIDTH".toList (showNat d.bandwidth) (sdRest d) := by
  obtain ⟨b, a, c, r, h, v⟩ := d
  unfold StreamData.show renderOpt sdRest
  cases a <;> cases c <;> cases r <;> cases h <;> cases v <;>
    (simp only [List.flatMap_cons, List.flatMap_nil, Option.map_some, Option.map_none,
      List.append_assoc, List.append_nil, List.nil_append]; rfl)

/-- the stream data for which the text form is faithful -/
structure StreamData.WF (d : StreamData) : Prop where
  bandwidth : d.bandwidth < 2 ^ 64
  average : ∀ n, d.average_bandwidth = some n → n < 2 ^ 64
  codecs : ∀ c, d.codecs = some c → c.list ≠ [] ∧ (∀ s ∈ c.list, ',' ∉ s) ∧ Quotable c.show
  resolution : ∀ r, d.resolution = some r → r.width < 2 ^ 64 ∧ r.height < 2 ^ 64
  video : ∀ x, d.video = some x → Quotable x

theorem resolution_plain (r : Resolution) : plainVal r.show = true := by
  unfold Resolution.show
  exact plain_append _ _ (plain_append _ _ (plain_showNat _) (by decide)) (plain_showNat _)

theorem hdcp_plain (h : HdcpLevel) : plainVal h.show = true := by cases h <;> decide

theorem sdRest_ok (d : StreamData) (h : d.WF) :
    ∀ kv ∈ sdRest d, wfKey kv.1 ∧ '\n' ∉ kv.1 ∧ ∀ v, kv.2 = some v → AttrVal v := by
  have K0 : wfKey "AVERAGE-BANDWIDTH".toList ∧ '\n' ∉ "AVERAGE-BANDWIDTH".toList := ⟨wfKey_lit _ (by decide) (by decide), by decide⟩
  have K1 : wfKey "CODECS".toList ∧ '\n' ∉ "CODECS".toList := ⟨wfKey_lit _ (by decide) (by decide), by decide⟩
  have K2 : wfKey "RESOLUTION".toList ∧ '\n' ∉ "RESOLUTION".toList := ⟨wfKey_lit _ (by decide) (by decide), by decide⟩
  have K3 : wfKey "HDCP-LEVEL".toList ∧ '\n' ∉ "HDCP-LEVEL".toList := ⟨wfKey_lit _ (by decide) (by decide), by decide⟩
  have K4 : wfKey "VIDEO".toList ∧ '\n' ∉ "VIDEO".toList := ⟨wfKey_lit _ (by decide) (by decide), by decide⟩
  intro kv hkv
  simp only [sdRest, List.mem_cons, List.mem_nil_iff, or_false] at hkv
  rcases hkv with rfl | rfl | rfl | rfl | rfl
  · refine ⟨K0.1, K0.2, ?_⟩
    intro v e
    cases ha : d.average_bandwidth with
    | none => rw [ha] at e; cases e
    | some n => rw [ha] at e; simp only [Option.map_some, Option.some.injEq] at e; subst e; exact attrVal_plain _ (plain_showNat n)
  · refine ⟨K1.1, K1.2, ?_⟩
    intro v e
    cases ha : d.codecs with
    | none => rw [ha] at e; cases e
    | some c => rw [ha] at e; simp only [Option.map_some, Option.some.injEq] at e; subst e; exact attrVal_quote _ (h.codecs c ha).2.2
  · refine ⟨K2.1, K2.2, ?_⟩
    intro v e
    cases ha : d.resolution with
    | none => rw [ha] at e; cases e
    | some r => rw [ha] at e; simp only [Option.map_some, Option.some.injEq] at e; subst e; exact attrVal_plain _ (resolution_plain r)
  · refine ⟨K3.1, K3.2, ?_⟩
    intro v e
    cases ha : d.hdcp_level with
    | none => rw [ha] at e; cases e
    | some r => rw [ha] at e; simp only [Option.map_some, Option.some.injEq] at e; subst e; exact attrVal_plain _ (hdcp_plain r)
  · exact ⟨K4.1, K4.2, attrVal_optQuote _ h.video⟩

/-- **the stream-data loop on any written attribute list that carries the stream data** -/
theorem streamData_of_written (all : List (Str × Option Str)) (hn : (all.map (·.1)).Nodup) (d : StreamData) (hd : d.WF)
    (l1 : lookupOpt "BANDWIDTH".toList all = some (showNat d.bandwidth))
    (l2 : lookupOpt "AVERAGE-BANDWIDTH".toList all = d.average_bandwidth.map showNat)
    (l3 : lookupOpt "CODECS".toList all = d.codecs.map fun c => quote c.show)
    (l4 : lookupOpt "RESOLUTION".toList all = d.resolution.map Resolution.show)
    (l5 : lookupOpt "HDCP-LEVEL".toList all = d.hdcp_level.map HdcpLevel.show)
    (l6 : lookupOpt "VIDEO".toList all = d.video.map quote) :
    (do let a ← StreamData.closed (presentPairs all); StreamData.finish a) = .ok d := by
  have hbad : (presentPairs all).any StreamData.bad = false := by
    rw [List.any_eq_false]
    intro kv hkv
    obtain ⟨k, v⟩ := kv
    have hl := lookupOpt_mem k v all hn (mem_presentPairs k v all hkv)
    simp only [StreamData.bad, badAt, Bool.or_eq_true, Bool.and_eq_true, Bool.not_eq_true', not_or, not_and, Bool.not_eq_false]
    refine ⟨⟨⟨?_, ?_⟩, ?_⟩, ?_⟩
    · intro e; have e := eq_of_beq e; subst e; rw [l1] at hl; simp only [Option.some.injEq] at hl; subst hl
      simp [parseNat_showNat 64 _ hd.bandwidth, Res.isOk]
    · intro e; have e := eq_of_beq e; subst e; rw [l2] at hl
      cases ha : d.average_bandwidth with
      | none => rw [ha] at hl; cases hl
      | some n => rw [ha] at hl; simp only [Option.map_some, Option.some.injEq] at hl; subst hl; simp [parseNat_showNat 64 _ (hd.average n ha), Res.isOk]
    · intro e; have e := eq_of_beq e; subst e; rw [l4] at hl
      cases ha : d.resolution with
      | none => rw [ha] at hl; cases hl
      | some r => rw [ha] at hl; simp only [Option.map_some, Option.some.injEq] at hl; subst hl; simp [C18.resolution_rt r (hd.resolution r ha).1 (hd.resolution r ha).2, Res.isOk]
    · intro e; have e := eq_of_beq e; subst e; rw [l5] at hl
      cases ha : d.hdcp_level with
      | none => rw [ha] at hl; cases hl
      | some r => rw [ha] at hl; simp only [Option.map_some, Option.some.injEq] at hl; subst hl; simp [C18.hdcpLevel_rt r, Res.isOk]
  simp only [StreamData.closed, hbad, Bool.false_eq_true, if_false, lastVal_present _ _ hn, l1, l2, l3, l4, l5, l6, Res.bind_ok]
  have g1 : optParse (parseNat 64) (some (showNat d.bandwidth)) = some d.bandwidth := by
    simp [optParse, parseNat_showNat 64 _ hd.bandwidth, Res.toOption]
  have g2 : optParse (parseNat 64) (d.average_bandwidth.map showNat) = d.average_bandwidth :=
    optParse_map _ _ _ (fun n hn' => parseNat_showNat 64 n (hd.average n hn'))
  have g3 : (d.codecs.map fun c => quote c.show).map (fun v => Codecs.parse (unquote v)) = d.codecs := by
    cases hc : d.codecs with
    | none => rfl
    | some c =>
      obtain ⟨a, b, q⟩ := hd.codecs c hc
      simp [unq _ q, C18.codecs_rt c a b]
  have g4 : optParse Resolution.parse (d.resolution.map Resolution.show) = d.resolution :=
    optParse_map _ _ _ (fun r hr => C18.resolution_rt r (hd.resolution r hr).1 (hd.resolution r hr).2)
  have g5 : optParse HdcpLevel.parse (d.hdcp_level.map HdcpLevel.show) = d.hdcp_level :=
    optParse_map _ _ _ (fun r _ => C18.hdcpLevel_rt r)
  have g6 : (d.video.map quote).map unquote = d.video := by
    cases hv : d.video with
    | none => rfl
    | some x => simp [unq x (hd.video x hv)]
  rw [g1, g2, g3, g4, g5, g6]
  rfl

end Hls

namespace Hls

/-! ## EXT-X-I-FRAME-STREAM-INF -/

def iframeRest (d : StreamData) : List (Str × Option Str) := ("BANDWIDTH".toList, some (showNat d.bandwidth)) :: sdRest d

theorem iframe_show_eq (uri : Str) (d : StreamData) :
    (VariantStream.extXIFrame uri d).show = pfxIFrameStreamInf ++ renderOpt "URI".toList (quote uri) (iframeRest d) := by
  have e : (VariantStream.extXIFrame uri d).show = pfxIFrameStreamInf ++ "URI=".toList ++ quote uri ++ [','] ++ d.show := rfl
  rw [e, streamData_show_eq]
  unfold renderOpt iframeRest
  simp only [List.flatMap_cons, List.append_assoc]
  rfl

theorem pfxIFrame_ok : PfxOK pfxIFrameStreamInf := by unfold pfxIFrameStreamInf; exact pfxOK_of _ (by simp [isWs]) (by simp)

theorem iframeRest_ok (d : StreamData) (h : d.WF) :
    ∀ kv ∈ iframeRest d, wfKey kv.1 ∧ '\n' ∉ kv.1 ∧ ∀ v, kv.2 = some v → AttrVal v := by
  have K0 : wfKey "BANDWIDTH".toList ∧ '\n' ∉ "BANDWIDTH".toList := ⟨wfKey_lit _ (by decide) (by decide), by decide⟩
  intro kv hkv
  rcases List.mem_cons.mp hkv with rfl | hkv
  · exact ⟨K0.1, K0.2, fun v e => by simp only [Option.some.injEq] at e; subst e; exact attrVal_plain _ (plain_showNat _)⟩
  · exact sdRest_ok d h kv hkv

theorem iframeAll_nodup (uri : Str) (d : StreamData) :
    ((("URI".toList, some (quote uri)) :: iframeRest d).map (·.1)).Nodup := by
  show (["URI".toList, "BANDWIDTH".toList, "AVERAGE-BANDWIDTH".toList, "CODECS".toList, "RESOLUTION".toList, "HDCP-LEVEL".toList,
    "VIDEO".toList] : List Str).Nodup
  decide

/-- **EXT-X-I-FRAME-STREAM-INF: parse (write v) = v** -/
theorem iframe_rt (uri : Str) (d : StreamData) (hu : Quotable uri) (hd : d.WF) :
    VariantStream.parse (VariantStream.extXIFrame uri d).show = .ok (.extXIFrame uri d) := by
  have hok := iframeRest_ok d hd
  have kU : wfKey "URI".toList := wfKey_lit _ (by decide) (by decide)
  rw [iframe_show_eq]
  obtain ⟨r1, r2⟩ := rendered_tokens pfxIFrameStreamInf "URI".toList (quote uri) (iframeRest d) pfxIFrame_ok kU
    (wfVal_q _ hu) (fun kv hkv => ⟨(hok kv hkv).1, fun v e => ((hok kv hkv).2.2 v e).1⟩)
  have hall : presentPairs (("URI".toList, some (quote uri)) :: iframeRest d) = ("URI".toList, quote uri) :: presentPairs (iframeRest d) := by
    simp [presentPairs]
  have hsd := streamData_of_written (("URI".toList, some (quote uri)) :: iframeRest d) (iframeAll_nodup uri d) d hd
    (by simp [iframeRest, sdRest, lookupOpt]) (by simp [iframeRest, sdRest, lookupOpt]) (by simp [iframeRest, sdRest, lookupOpt])
    (by simp [iframeRest, sdRest, lookupOpt]) (by simp [iframeRest, sdRest, lookupOpt]) (by simp [iframeRest, sdRest, lookupOpt])
  rw [hall] at hsd
  simp only [VariantStream.parse, r1, r2, firstUri, beq_self_eq_true, if_true, unq uri hu, StreamData.parse, StreamData.fold_closed]
  rw [hsd]
  rfl

theorem lineRT_iframe (uri : Str) (d : StreamData) (hu : Quotable uri) (hd : d.WF) : LineRT (.variant (.extXIFrame uri d)) := by
  have hrt := iframe_rt uri d hu hd
  rw [iframe_show_eq] at hrt
  have hok := iframeRest_ok d hd
  apply lineRT_attr (.variant (.extXIFrame uri d)) pfxIFrameStreamInf "URI".toList (quote uri) (iframeRest d) (iframe_show_eq uri d) pfxIFrame_ok
  · unfold pfxIFrameStreamInf; simp
  · decide
  · exact attrVal_quote _ hu
  · exact fun kv hkv => ⟨(hok kv hkv).2.1, (hok kv hkv).2.2⟩
  · unfold pfxIFrameStreamInf siPfx Generated.streamInfPrefix; simp [startsWith, List.isPrefixOf]
  · rw [classify1_ext _ (C12.ext_prefix _ _ (by unfold pfxIFrameStreamInf; simp [startsWith, List.isPrefixOf])), dispatch_iFrameStreamInf]
    simp only [hrt]; rfl
  · intros; simp

end Hls

namespace Hls

/-! ## EXT-X-STREAM-INF (two physical lines) -/

def siRest (fr : Option Float32) (au su : Option Str) (cc : Option ClosedCaptions) : List (Str × Option Str) :=
  [("FRAME-RATE".toList, fr.map Float32.show3), ("AUDIO".toList, au.map quote), ("SUBTITLES".toList, su.map quote),
   ("CLOSED-CAPTIONS".toList, cc.map ClosedCaptions.show)]

def siAttrs (fr : Option Float32) (au su : Option Str) (cc : Option ClosedCaptions) (d : StreamData) : Str :=
  renderOpt "BANDWIDTH".toList (showNat d.bandwidth) (sdRest d ++ siRest fr au su cc)

theorem streamInf_show_eq (uri : Str) (fr : Option Float32) (au su : Option Str) (cc : Option ClosedCaptions) (d : StreamData) :
    (VariantStream.extXStreamInf uri fr au su cc d).show = (pfxStreamInf ++ siAttrs fr au su cc d) ++ '\n' :: uri := by
  have e : (VariantStream.extXStreamInf uri fr au su cc d).show = pfxStreamInf ++ d.show
      ++ optAttr ",FRAME-RATE=" Float32.show3 fr ++ optAttr ",AUDIO=" quote au ++ optAttr ",SUBTITLES=" quote su
      ++ optAttr ",CLOSED-CAPTIONS=" ClosedCaptions.show cc ++ ['\n'] ++ uri := rfl
  rw [e, streamData_show_eq,
    optPiece_opt ",FRAME-RATE=" "FRAME-RATE".toList Float32.show3 fr rfl,
    optPiece_opt ",AUDIO=" "AUDIO".toList quote au rfl,
    optPiece_opt ",SUBTITLES=" "SUBTITLES".toList quote su rfl,
    optPiece_opt ",CLOSED-CAPTIONS=" "CLOSED-CAPTIONS".toList ClosedCaptions.show cc rfl]
  unfold siAttrs
  rw [renderOpt_pieces, renderOpt_pieces]
  simp only [siRest, List.flatMap_append, List.flatMap_cons, List.flatMap_nil, List.append_assoc, List.append_nil,
    List.cons_append, List.nil_append]

/-- what is needed of the three-decimal rendering of FRAME-RATE: it reads back to the same value (true for the
values the RFC allows, which have at most three decimals; a fact about `format!("{:.3}")` / `f32::from_str`) -/
def FrameRateRT (f : Float32) : Prop := Float32.parseUFloat f.show3 = .ok f ∧ plainVal f.show3 = true

structure StreamInfWF (uri : Str) (fr : Option Float32) (au su : Option Str) (cc : Option ClosedCaptions) (d : StreamData) : Prop where
  uri : '\n' ∉ uri ∧ trim uri = uri ∧ uri ≠ []
  frame : ∀ f, fr = some f → FrameRateRT f
  audio : ∀ x, au = some x → Quotable x
  subs : ∀ x, su = some x → Quotable x
  cc : ∀ g, cc = some (.groupId g) → Quotable g
  data : d.WF

theorem cc_attrVal (c : ClosedCaptions) (h : ∀ g, c = .groupId g → Quotable g) : AttrVal c.show := by
  cases c with
  | none => exact attrVal_plain _ (by decide)
  | groupId g => exact attrVal_quote g (h g rfl)

theorem siAll_ok (fr : Option Float32) (au su : Option Str) (cc : Option ClosedCaptions) (d : StreamData) (uri : Str)
    (h : StreamInfWF uri fr au su cc d) :
    ∀ kv ∈ sdRest d ++ siRest fr au su cc, wfKey kv.1 ∧ '\n' ∉ kv.1 ∧ ∀ v, kv.2 = some v → AttrVal v := by
  have K0 : wfKey "FRAME-RATE".toList ∧ '\n' ∉ "FRAME-RATE".toList := ⟨wfKey_lit _ (by decide) (by decide), by decide⟩
  have K1 : wfKey "AUDIO".toList ∧ '\n' ∉ "AUDIO".toList := ⟨wfKey_lit _ (by decide) (by decide), by decide⟩
  have K2 : wfKey "SUBTITLES".toList ∧ '\n' ∉ "SUBTITLES".toList := ⟨wfKey_lit _ (by decide) (by decide), by decide⟩
  have K3 : wfKey "CLOSED-CAPTIONS".toList ∧ '\n' ∉ "CLOSED-CAPTIONS".toList := ⟨wfKey_lit _ (by decide) (by decide), by decide⟩
  intro kv hkv
  rcases List.mem_append.mp hkv with hkv | hkv
  · exact sdRest_ok d h.data kv hkv
  · simp only [siRest, List.mem_cons, List.mem_nil_iff, or_false] at hkv
    rcases hkv with rfl | rfl | rfl | rfl
    · refine ⟨K0.1, K0.2, ?_⟩
      intro v e
      cases hf : fr with
      | none => rw [hf] at e; cases e
      | some f => rw [hf] at e; simp only [Option.map_some, Option.some.injEq] at e; subst e; exact attrVal_plain _ (h.frame f hf).2
    · exact ⟨K1.1, K1.2, attrVal_optQuote _ h.audio⟩
    · exact ⟨K2.1, K2.2, attrVal_optQuote _ h.subs⟩
    · refine ⟨K3.1, K3.2, ?_⟩
      intro v e
      cases hc : cc with
      | none => rw [hc] at e; cases e
      | some c =>
        rw [hc] at e; simp only [Option.map_some, Option.some.injEq] at e; subst e
        exact cc_attrVal c (fun g eg => h.cc g (by rw [hc, eg]))

theorem siAll_nodup (fr : Option Float32) (au su : Option Str) (cc : Option ClosedCaptions) (d : StreamData) :
    ((("BANDWIDTH".toList, some (showNat d.bandwidth)) :: (sdRest d ++ siRest fr au su cc)).map (·.1)).Nodup := by
  show (["BANDWIDTH".toList, "AVERAGE-BANDWIDTH".toList, "CODECS".toList, "RESOLUTION".toList, "HDCP-LEVEL".toList,
    "VIDEO".toList, "FRAME-RATE".toList, "AUDIO".toList, "SUBTITLES".toList, "CLOSED-CAPTIONS".toList] : List Str).Nodup
  decide

theorem stripLineEnd_nl_exact (a : Str) (h : EndsOk a) : stripLineEnd (a ++ ['\n']) = a := by
  simp only [stripLineEnd, List.reverse_append, List.reverse_cons, List.reverse_nil, List.nil_append, List.cons_append]
  cases hr : a.reverse with
  | nil => have : a = [] := by simpa using hr
           subst this; rfl
  | cons c r =>
    have hc := h c r hr
    by_cases e : c = '\r'
    · subst e; simp [isWs] at hc
    · split
      · rename_i r' heq; simp only [List.cons.injEq] at heq; exact absurd heq.1 e
      · rw [← hr]; simp

theorem lines_two (a b : Str) (ha : '\n' ∉ a) (hae : EndsOk a) (hb : '\n' ∉ b) (hbn : b ≠ []) :
    lines (a ++ '\n' :: b) = [a, b] := by
  unfold lines
  rw [sil_append a b ha, sil_nonl b hb]
  have : b.isEmpty = false := by cases b <;> simp_all
  simp only [this, Bool.false_eq_true, if_false, List.map_cons, List.map_nil, stripLineEnd_nl_exact a hae, stripLineEnd_nonl b hb]

end Hls

namespace Hls

theorem head_dropWhile' {α} (p : α → Bool) (l : List α) (c : α) (r : List α) (h : l.dropWhile p = c :: r) : p c = false := by
  induction l with
  | nil => cases h
  | cons a t ih =>
    simp only [List.dropWhile] at h
    cases hp : p a
    · rw [hp] at h; simp only [List.cons.injEq] at h; rw [← h.1]; exact hp
    · rw [hp] at h; exact ih h

theorem endsOk_trimmed (s : Str) (h : trim s = s) : EndsOk s := by
  intro c r e
  have : s = trimEnd (trimStart s) := h.symm
  rw [this] at e
  unfold trimEnd at e
  rw [List.reverse_reverse] at e
  exact head_dropWhile' isWs _ c r e

theorem pfxStreamInf_ok : PfxOK pfxStreamInf := by unfold pfxStreamInf; exact pfxOK_of _ (by simp [isWs]) (by simp)

theorem siFirst_facts (fr : Option Float32) (au su : Option Str) (cc : Option ClosedCaptions) (d : StreamData) (uri : Str)
    (h : StreamInfWF uri fr au su cc d) :
    '\n' ∉ siAttrs fr au su cc d ∧ EndsOk (siAttrs fr au su cc d) ∧
    attrPairs (siAttrs fr au su cc d) = ("BANDWIDTH".toList, showNat d.bandwidth) :: presentPairs (sdRest d ++ siRest fr au su cc) := by
  have hok := siAll_ok fr au su cc d uri h
  have kB : wfKey "BANDWIDTH".toList := wfKey_lit _ (by decide) (by decide)
  have vB := attrVal_plain _ (plain_showNat d.bandwidth)
  refine ⟨?_, ?_, ?_⟩
  · exact nl_notin_renderOpt _ _ _ (by decide) vB.2 (fun kv hkv => ⟨(hok kv hkv).2.1, fun v e => ((hok kv hkv).2.2 v e).2⟩)
  · exact endsOk_renderOpt _ _ _ (endsOk_of_wfVal _ vB.1) (fun kv hkv v e => endsOk_of_wfVal v ((hok kv hkv).2.2 v e).1)
  · exact attrPairs_renderOpt _ _ _ kB vB.1 (fun kv hkv => ⟨(hok kv hkv).1, fun v e => ((hok kv hkv).2.2 v e).1⟩)

/-- **EXT-X-STREAM-INF: parse (write v) = v** (tag line, newline, URI line) -/
theorem streamInf_rt (uri : Str) (fr : Option Float32) (au su : Option Str) (cc : Option ClosedCaptions) (d : StreamData)
    (h : StreamInfWF uri fr au su cc d) :
    VariantStream.parse ((pfxStreamInf ++ siAttrs fr au su cc d) ++ ['\n'] ++ uri) = .ok (.extXStreamInf uri fr au su cc d) := by
  obtain ⟨n1, e1, p1⟩ := siFirst_facts fr au su cc d uri h
  obtain ⟨un, ut, une⟩ := h.uri
  have hue : EndsOk uri := endsOk_trimmed uri ut
  -- the whole text is trimmed
  have htrim : trim (pfxStreamInf ++ (siAttrs fr au su cc d ++ '\n' :: uri)) = pfxStreamInf ++ (siAttrs fr au su cc d ++ '\n' :: uri) := by
    apply trim_tag_line pfxStreamInf _ pfxStreamInf_ok.1 pfxStreamInf_ok.2.1 _ pfxStreamInf_ok.2.2
    have : siAttrs fr au su cc d ++ '\n' :: uri = (siAttrs fr au su cc d ++ ['\n']) ++ uri := by simp
    rw [this]
    exact endsOk_append _ _ hue une
  have hs : (pfxStreamInf ++ siAttrs fr au su cc d) ++ ['\n'] ++ uri = pfxStreamInf ++ (siAttrs fr au su cc d ++ '\n' :: uri) := by simp
  rw [hs]
  have hif : stripTag (pfxStreamInf ++ (siAttrs fr au su cc d ++ '\n' :: uri)) pfxIFrameStreamInf = .err := by
    simp only [stripTag, htrim]
    unfold pfxStreamInf pfxIFrameStreamInf
    simp [startsWith, List.isPrefixOf]
  have hst := C12.stripTag_line pfxStreamInf (siAttrs fr au su cc d ++ '\n' :: uri) htrim
  have hlines := lines_two (siAttrs fr au su cc d) uri n1 e1 un une
  -- the two attribute loops
  have hn := siAll_nodup fr au su cc d
  have hall : presentPairs (("BANDWIDTH".toList, some (showNat d.bandwidth)) :: (sdRest d ++ siRest fr au su cc)) =
      ("BANDWIDTH".toList, showNat d.bandwidth) :: presentPairs (sdRest d ++ siRest fr au su cc) := by
    simp [presentPairs]
  have hsd := streamData_of_written (("BANDWIDTH".toList, some (showNat d.bandwidth)) :: (sdRest d ++ siRest fr au su cc)) hn d h.data
    (by simp [sdRest, siRest, lookupOpt]) (by simp [sdRest, siRest, lookupOpt]) (by simp [sdRest, siRest, lookupOpt])
    (by simp [sdRest, siRest, lookupOpt]) (by simp [sdRest, siRest, lookupOpt]) (by simp [sdRest, siRest, lookupOpt])
  rw [hall] at hsd
  have lk : ∀ k, lastVal k (("BANDWIDTH".toList, showNat d.bandwidth) :: presentPairs (sdRest d ++ siRest fr au su cc)) =
      lookupOpt k (("BANDWIDTH".toList, some (showNat d.bandwidth)) :: (sdRest d ++ siRest fr au su cc)) := by
    intro k; rw [← hall, lastVal_present _ _ hn]
  have hbad : (("BANDWIDTH".toList, showNat d.bandwidth) :: presentPairs (sdRest d ++ siRest fr au su cc)).any StreamInf.bad = false := by
    rw [← hall, List.any_eq_false]
    intro kv hkv
    obtain ⟨k, v⟩ := kv
    have hl := lookupOpt_mem k v _ hn (mem_presentPairs k v _ hkv)
    simp only [StreamInf.bad, badAt, Bool.and_eq_true, Bool.not_eq_true', not_and, Bool.not_eq_false]
    intro e
    have e := eq_of_beq e; subst e
    have : lookupOpt "FRAME-RATE".toList (("BANDWIDTH".toList, some (showNat d.bandwidth)) :: (sdRest d ++ siRest fr au su cc)) = fr.map Float32.show3 := by
      simp [sdRest, siRest, lookupOpt]
    rw [this] at hl
    cases hf : fr with
    | none => rw [hf] at hl; cases hl
    | some f => rw [hf] at hl; simp only [Option.map_some, Option.some.injEq] at hl; subst hl; simp [(h.frame f hf).1, Res.isOk]
  have q1 : lookupOpt "FRAME-RATE".toList (("BANDWIDTH".toList, some (showNat d.bandwidth)) :: (sdRest d ++ siRest fr au su cc)) = fr.map Float32.show3 := by
    simp [sdRest, siRest, lookupOpt]
  have q2 : lookupOpt "AUDIO".toList (("BANDWIDTH".toList, some (showNat d.bandwidth)) :: (sdRest d ++ siRest fr au su cc)) = au.map quote := by
    simp [sdRest, siRest, lookupOpt]
  have q3 : lookupOpt "SUBTITLES".toList (("BANDWIDTH".toList, some (showNat d.bandwidth)) :: (sdRest d ++ siRest fr au su cc)) = su.map quote := by
    simp [sdRest, siRest, lookupOpt]
  have q4 : lookupOpt "CLOSED-CAPTIONS".toList (("BANDWIDTH".toList, some (showNat d.bandwidth)) :: (sdRest d ++ siRest fr au su cc)) = cc.map ClosedCaptions.show := by
    simp [sdRest, siRest, lookupOpt]
  have g1 : optParse Float32.parseUFloat (fr.map Float32.show3) = fr := optParse_map _ _ _ (fun f hf => (h.frame f hf).1)
  have gq : ∀ (o : Option Str), (∀ x, o = some x → Quotable x) → (o.map quote).map unquote = o := by
    intro o ho
    cases o with
    | none => rfl
    | some x => simp [unq x (ho x rfl)]
  have g4 : (cc.map ClosedCaptions.show).map ClosedCaptions.parse = cc := by
    cases hc : cc with
    | none => rfl
    | some c => simp [C18.closedCaptions_rt c (fun g eg => h.cc g (by rw [hc, eg]))]
  simp only [VariantStream.parse, hif, hst, hlines, StreamInf.fold_closed, StreamInf.closed, p1, hbad, Bool.false_eq_true, if_false,
    Res.bind_ok, lk, q1, q2, q3, q4, g1, gq _ h.audio, gq _ h.subs, g4, StreamData.parse, StreamData.fold_closed]
  rw [hsd]
  rfl

theorem lineRT_streamInf (uri : Str) (fr : Option Float32) (au su : Option Str) (cc : Option ClosedCaptions) (d : StreamData)
    (h : StreamInfWF uri fr au su cc d) : LineRT (.variant (.extXStreamInf uri fr au su cc d)) := by
  obtain ⟨n1, e1, _⟩ := siFirst_facts fr au su cc d uri h
  obtain ⟨un, ut, une⟩ := h.uri
  obtain ⟨a, b, c⟩ := lineRT_parts pfxStreamInf (siAttrs fr au su cc d) pfxStreamInf_ok e1 (by unfold pfxStreamInf; simp) n1
  refine ⟨pfxStreamInf ++ siAttrs fr au su cc d, streamInf_show_eq uri fr au su cc d, a, un, b, c, ut, une, ?_, streamInf_rt uri fr au su cc d h⟩
  unfold pfxStreamInf siPfx Generated.streamInfPrefix
  simp [startsWith, List.isPrefixOf]

end Hls
