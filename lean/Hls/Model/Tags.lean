import Hls.Model.Types
/-!
# L1 — tags (`src/tags/**`): `parse`, `show`, `requiredVersion`, builder validation
-/
namespace Hls

def pfxM3u : Str := "#EXTM3U".toList
def pfxVersion : Str := "#EXT-X-VERSION:".toList
def pfxInf : Str := "#EXTINF:".toList
def pfxByteRange : Str := "#EXT-X-BYTERANGE:".toList
def pfxDiscontinuity : Str := "#EXT-X-DISCONTINUITY".toList
def pfxKey : Str := "#EXT-X-KEY:".toList
def pfxMap : Str := "#EXT-X-MAP:".toList
def pfxProgramDateTime : Str := "#EXT-X-PROGRAM-DATE-TIME:".toList
def pfxDateRange : Str := "#EXT-X-DATERANGE:".toList
def pfxTargetDuration : Str := "#EXT-X-TARGETDURATION:".toList
def pfxMediaSequence : Str := "#EXT-X-MEDIA-SEQUENCE:".toList
def pfxDiscontinuitySequence : Str := "#EXT-X-DISCONTINUITY-SEQUENCE:".toList
def pfxEndList : Str := "#EXT-X-ENDLIST".toList
def pfxIFramesOnly : Str := "#EXT-X-I-FRAMES-ONLY".toList
def pfxMedia : Str := "#EXT-X-MEDIA:".toList
def pfxIFrameStreamInf : Str := "#EXT-X-I-FRAME-STREAM-INF:".toList
def pfxStreamInf : Str := "#EXT-X-STREAM-INF:".toList
def pfxSessionData : Str := "#EXT-X-SESSION-DATA:".toList
def pfxSessionKey : Str := "#EXT-X-SESSION-KEY:".toList
def pfxIndependentSegments : Str := "#EXT-X-INDEPENDENT-SEGMENTS".toList
def pfxStart : Str := "#EXT-X-START:".toList

def nanosPerSec : Nat := 1000000000

/-! ## EXT-X-VERSION -/

def ExtXVersion.parse (s : Str) : Res Nat := do
  let r ← stripTag s pfxVersion
  ProtocolVersion.parse r

def ExtXVersion.show (v : Nat) : Str := pfxVersion ++ ProtocolVersion.show v

/-! ## EXTINF -/

structure ExtInf where
  duration : Nat          -- nanoseconds
  title : Option Str
deriving Repr, DecidableEq

def ExtInf.parse (s : Str) : Res ExtInf := do
  let r ← stripTag s pfxInf
  let (d, t) := splitN2 ',' r
  let dur ← parseSecs d
  let title := match t with
    | some x => let y := trim x; if y.isEmpty then none else some y
    | none => none
  pure ⟨dur, title⟩

def ExtInf.show (t : ExtInf) : Str :=
  pfxInf ++ showSecs t.duration ++ [','] ++ t.title.getD []

/-- is the duration written with a fraction (`as_secs_f64().fract() != 0`: the printed number has a decimal point) -/
def ExtInf.writtenFraction (t : ExtInf) : Bool := (showSecs t.duration).contains '.'

def ExtInf.requiredVersion (t : ExtInf) : Nat :=
  if t.writtenFraction then 3 else 1

/-! ## EXT-X-BYTERANGE -/

def ExtXByteRange.parse (s : Str) : Res ByteRange := do
  let r ← stripTag s pfxByteRange
  ByteRange.parse r

def ExtXByteRange.show (r : ByteRange) : Str := pfxByteRange ++ r.show

/-! ## EXT-X-KEY -/

/-- `ExtXKey(Option<DecryptionKey>)`: `none` is the explicit `METHOD=NONE` marker -/
abbrev ExtXKey := Option DecryptionKey

/-- value of the last `METHOD` attribute -/
def lastMethod (ps : List (Str × Str)) : Option Str :=
  ps.foldl (fun acc kv => if kv.1 == "METHOD".toList then some kv.2 else acc) none

/-- `TryFrom<&str>` (after the `fix:` that recognises `METHOD=NONE` through the attribute
iterator instead of comparing the whole remainder with the literal text). -/
def ExtXKey.parse (s : Str) : Res ExtXKey := do
  let r ← stripTag s pfxKey
  if lastMethod (attrPairs r) == some "NONE".toList then pure none
  else do
    let k ← DecryptionKey.parse r
    pure (some k)

def ExtXKey.show : ExtXKey → Str
  | some k => pfxKey ++ k.show
  | none => pfxKey ++ "METHOD=NONE".toList

def ExtXKey.requiredVersion : ExtXKey → Nat
  | some k => k.requiredVersion
  | none => 1

/-- derived `Ord` on `Option<DecryptionKey>` -/
def ExtXKey.cmp (a b : ExtXKey) : Ordering := cmpOpt DecryptionKey.cmp a b

/-! ## EXT-X-MAP -/

structure ExtXMap where
  uri : Str
  range : Option ByteRange
  keys : List ExtXKey
deriving Repr, DecidableEq

structure ExtXMapAcc where
  uri : Option Str := none
  range : Option ByteRange := none

def ExtXMap.step (a : ExtXMapAcc) (kv : Str × Str) : Res ExtXMapAcc :=
  let (key, value) := kv
  if key == "URI".toList then pure { a with uri := some (unquote value) }
  else if key == "BYTERANGE".toList then do
    let r ← ByteRange.parse (unquote value)
    pure { a with range := some r }
  else pure a

def ExtXMap.parse (s : Str) : Res ExtXMap := do
  let r ← stripTag s pfxMap
  let a ← foldRes ExtXMap.step {} (attrPairs r)
  match a.uri with
  | some u => pure ⟨u, a.range, []⟩
  | none => .err

def ExtXMap.show (m : ExtXMap) : Str :=
  pfxMap ++ "URI=".toList ++ quote m.uri
  ++ (match m.range with
      | some r => ",BYTERANGE=".toList ++ quote r.show
      | none => [])

/-! ## EXT-X-PROGRAM-DATE-TIME (chrono feature off: the text is kept) -/

structure ExtXProgramDateTime where
  date_time : Str
deriving Repr, DecidableEq

def ExtXProgramDateTime.parse (s : Str) : Res ExtXProgramDateTime := do
  let r ← stripTag s pfxProgramDateTime
  pure ⟨r⟩

def ExtXProgramDateTime.show (t : ExtXProgramDateTime) : Str := pfxProgramDateTime ++ t.date_time

/-! ## EXT-X-DATERANGE -/

structure ExtXDateRange where
  id : Str
  «class» : Option Str
  start_date : Option Str
  end_date : Option Str
  duration : Option Nat
  planned_duration : Option Nat
  scte35_cmd : Option Str
  scte35_out : Option Str
  scte35_in : Option Str
  end_on_next : Bool
  client_attributes : List (Str × Value)     -- `BTreeMap`: sorted by key, keys unique
deriving Repr, DecidableEq

/-- `BTreeMap::insert` on a key-sorted association list -/
def btreeInsert (k : Str) (v : Value) : List (Str × Value) → List (Str × Value)
  | [] => [(k, v)]
  | (k', v') :: rest =>
    match cmpStr k k' with
    | .lt => (k, v) :: (k', v') :: rest
    | .eq => (k, v) :: rest
    | .gt => (k', v') :: btreeInsert k v rest

structure ExtXDateRangeAcc where
  id : Option Str := none
  «class» : Option Str := none
  start_date : Option Str := none
  end_date : Option Str := none
  duration : Option Nat := none
  planned_duration : Option Nat := none
  scte35_cmd : Option Str := none
  scte35_out : Option Str := none
  scte35_in : Option Str := none
  end_on_next : Bool := false
  client_attributes : List (Str × Value) := []

def isAsciiAlnum (c : Char) : Bool := isDigit c || isAsciiLower c || isAsciiUpper c

/-- a client attribute name is rejected when it has a lowercase, non-ASCII or non `[A-Z0-9-]` char -/
def badClientAttrChar (c : Char) : Bool :=
  isAsciiLower c || !isAscii c || !(isAsciiAlnum c || c == '-')

def ExtXDateRange.step (a : ExtXDateRangeAcc) (kv : Str × Str) : Res ExtXDateRangeAcc :=
  let (key, value) := kv
  if key == "ID".toList then pure { a with id := some (unquote value) }
  else if key == "CLASS".toList then pure { a with «class» := some (unquote value) }
  else if key == "START-DATE".toList then pure { a with start_date := some (unquote value) }
  else if key == "END-DATE".toList then pure { a with end_date := some (unquote value) }
  else if key == "DURATION".toList then do
    let d ← parseSecs value
    pure { a with duration := some d }
  else if key == "PLANNED-DURATION".toList then do
    let d ← parseSecs value
    pure { a with planned_duration := some d }
  else if key == "SCTE35-CMD".toList then pure { a with scte35_cmd := some (unquote value) }
  else if key == "SCTE35-OUT".toList then pure { a with scte35_out := some (unquote value) }
  else if key == "SCTE35-IN".toList then pure { a with scte35_in := some (unquote value) }
  else if key == "END-ON-NEXT".toList then
    if value != "YES".toList then .err else pure { a with end_on_next := true }
  else if startsWith key "X-".toList then
    if key.any badClientAttrChar then .err
    else do
      let v ← Value.parse value
      pure { a with client_attributes := btreeInsert key v a.client_attributes }
  else pure a

def ExtXDateRange.finish (a : ExtXDateRangeAcc) : Res ExtXDateRange :=
  match a.id with
  | none => .err
  | some id =>
    if a.end_on_next && a.«class».isNone then .err
    else if a.end_on_next && a.duration.isSome then .err
    else if a.end_on_next && a.end_date.isSome then .err
    else .ok ⟨id, a.«class», a.start_date, a.end_date, a.duration, a.planned_duration,
              a.scte35_cmd, a.scte35_out, a.scte35_in, a.end_on_next, a.client_attributes⟩

def ExtXDateRange.parse (s : Str) : Res ExtXDateRange := do
  let r ← stripTag s pfxDateRange
  let a ← foldRes ExtXDateRange.step {} (attrPairs r)
  ExtXDateRange.finish a

def optAttr (name : String) (f : α → Str) : Option α → Str
  | some v => name.toList ++ f v
  | none => []

def ExtXDateRange.show (t : ExtXDateRange) : Str :=
  pfxDateRange ++ "ID=".toList ++ quote t.id
  ++ optAttr ",CLASS=" quote t.«class»
  ++ optAttr ",START-DATE=" quote t.start_date
  ++ optAttr ",END-DATE=" quote t.end_date
  ++ optAttr ",DURATION=" showSecs t.duration
  ++ optAttr ",PLANNED-DURATION=" showSecs t.planned_duration
  ++ optAttr ",SCTE35-CMD=" (fun x => x) t.scte35_cmd
  ++ optAttr ",SCTE35-OUT=" (fun x => x) t.scte35_out
  ++ optAttr ",SCTE35-IN=" (fun x => x) t.scte35_in
  ++ (t.client_attributes.flatMap fun kv => [','] ++ kv.1 ++ ['='] ++ kv.2.show)
  ++ (if t.end_on_next then ",END-ON-NEXT=YES".toList else [])

/-! ## playlist-level media tags -/

/-- `#EXT-X-TARGETDURATION:<u64 seconds>` → nanoseconds -/
def ExtXTargetDuration.parse (s : Str) : Res Nat := do
  let r ← stripTag s pfxTargetDuration
  let n ← parseNat 64 r
  pure (n * nanosPerSec)

def ExtXTargetDuration.show (d : Nat) : Str := pfxTargetDuration ++ showNat (d / nanosPerSec)

def ExtXMediaSequence.parse (s : Str) : Res Nat := do
  let r ← stripTag s pfxMediaSequence
  parseNat 64 r
def ExtXMediaSequence.show (n : Nat) : Str := pfxMediaSequence ++ showNat n

def ExtXDiscontinuitySequence.parse (s : Str) : Res Nat := do
  let r ← stripTag s pfxDiscontinuitySequence
  parseNat 64 r
def ExtXDiscontinuitySequence.show (n : Nat) : Str := pfxDiscontinuitySequence ++ showNat n

/-- tags without a value: only the prefix is tested (`tag(input, PREFIX)?`) -/
def flagTag.parse (pfx : Str) (s : Str) : Res Unit := do
  let _ ← stripTag s pfx
  pure ()

def ExtXDiscontinuity.parse (s : Str) : Res Unit :=
  if s == pfxDiscontinuity then .ok () else .err

/-! ## EXT-X-START -/

structure ExtXStart where
  time_offset : Float32
  is_precise : Bool
deriving Repr, DecidableEq

structure ExtXStartAcc where
  time_offset : Option Float32 := none
  is_precise : Bool := false

def ExtXStart.step (a : ExtXStartAcc) (kv : Str × Str) : Res ExtXStartAcc :=
  let (key, value) := kv
  if key == "TIME-OFFSET".toList then do
    let f ← Float32.parseFloat value
    pure { a with time_offset := some f }
  else if key == "PRECISE".toList then do
    let b ← parseYesNo value
    pure { a with is_precise := b }
  else pure a

def ExtXStart.parse (s : Str) : Res ExtXStart := do
  let r ← stripTag s pfxStart
  let a ← foldRes ExtXStart.step {} (attrPairs r)
  match a.time_offset with
  | some t => pure ⟨t, a.is_precise⟩
  | none => .err

def ExtXStart.show (t : ExtXStart) : Str :=
  pfxStart ++ "TIME-OFFSET=".toList ++ t.time_offset.show
  ++ (if t.is_precise then ",PRECISE=YES".toList else [])

/-! ## EXT-X-MEDIA -/

structure ExtXMedia where
  media_type : MediaType
  uri : Option Str
  group_id : Str
  language : Option Str
  assoc_language : Option Str
  name : Str
  is_default : Bool
  is_autoselect : Bool
  is_forced : Bool
  instream_id : Option InStreamId
  characteristics : Option Str
  channels : Option Channels
deriving Repr, DecidableEq

/-- the `derive_builder` state of `ExtXMediaBuilder` -/
structure ExtXMediaBuilder where
  media_type : Option MediaType := none
  uri : Option Str := none
  group_id : Option Str := none
  language : Option Str := none
  assoc_language : Option Str := none
  name : Option Str := none
  is_default : Option Bool := none
  is_autoselect : Option Bool := none
  is_forced : Option Bool := none
  instream_id : Option InStreamId := none
  characteristics : Option Str := none
  channels : Option Channels := none
deriving Repr, DecidableEq

/-- `ExtXMediaBuilder::validate` (true = accepted) -/
def ExtXMediaBuilder.validate (b : ExtXMediaBuilder) : Bool :=
  match b.media_type with
  | none => false
  | some mt =>
    if mt == .subtitles && b.uri.isNone then false
    else if mt == .closedCaptions && b.uri.isSome then false
    else if mt == .closedCaptions && b.instream_id.isNone then false
    else if mt != .closedCaptions && b.instream_id.isSome then false
    else if b.is_default.getD false && b.is_autoselect == some false then false
    else if mt != .subtitles && b.is_forced.getD false then false
    else true

/-- `build()`: validate, then the required fields -/
def ExtXMediaBuilder.build (b : ExtXMediaBuilder) : Res ExtXMedia :=
  if !b.validate then .err
  else match b.media_type, b.group_id, b.name with
    | some mt, some g, some n =>
      .ok ⟨mt, b.uri, g, b.language, b.assoc_language, n, b.is_default.getD false,
           b.is_autoselect.getD false, b.is_forced.getD false, b.instream_id, b.characteristics, b.channels⟩
    | _, _, _ => .err

def ExtXMedia.step (b : ExtXMediaBuilder) (kv : Str × Str) : Res ExtXMediaBuilder :=
  let (key, value) := kv
  if key == "TYPE".toList then do
    let t ← MediaType.parse value
    pure { b with media_type := some t }
  else if key == "URI".toList then pure { b with uri := some (unquote value) }
  else if key == "GROUP-ID".toList then pure { b with group_id := some (unquote value) }
  else if key == "LANGUAGE".toList then pure { b with language := some (unquote value) }
  else if key == "ASSOC-LANGUAGE".toList then pure { b with assoc_language := some (unquote value) }
  else if key == "NAME".toList then pure { b with name := some (unquote value) }
  else if key == "DEFAULT".toList then do
    let v ← parseYesNo value
    pure { b with is_default := some v }
  else if key == "AUTOSELECT".toList then do
    let v ← parseYesNo value
    pure { b with is_autoselect := some v }
  else if key == "FORCED".toList then do
    let v ← parseYesNo value
    pure { b with is_forced := some v }
  else if key == "INSTREAM-ID".toList then do
    let v ← InStreamId.parse (unquote value)
    pure { b with instream_id := some v }
  else if key == "CHARACTERISTICS".toList then pure { b with characteristics := some (unquote value) }
  else if key == "CHANNELS".toList then do
    let v ← Channels.parse (unquote value)
    pure { b with channels := some v }
  else pure b

def ExtXMedia.parse (s : Str) : Res ExtXMedia := do
  let r ← stripTag s pfxMedia
  let b ← foldRes ExtXMedia.step {} (attrPairs r)
  b.build

def ExtXMedia.show (t : ExtXMedia) : Str :=
  pfxMedia ++ "TYPE=".toList ++ t.media_type.show
  ++ optAttr ",URI=" quote t.uri
  ++ ",GROUP-ID=".toList ++ quote t.group_id
  ++ optAttr ",LANGUAGE=" quote t.language
  ++ optAttr ",ASSOC-LANGUAGE=" quote t.assoc_language
  ++ ",NAME=".toList ++ quote t.name
  ++ (if t.is_default then ",DEFAULT=YES".toList else [])
  ++ (if t.is_autoselect then ",AUTOSELECT=YES".toList else [])
  ++ (if t.is_forced then ",FORCED=YES".toList else [])
  ++ optAttr ",INSTREAM-ID=" (fun i => quote i.show) t.instream_id
  ++ optAttr ",CHARACTERISTICS=" quote t.characteristics
  ++ optAttr ",CHANNELS=" (fun c => quote c.show) t.channels

def ExtXMedia.requiredVersion (t : ExtXMedia) : Nat :=
  match t.instream_id with
  | some i => i.requiredVersion
  | none => 1

/-! ## EXT-X-SESSION-DATA -/

inductive SessionData where
  | value (v : Str)
  | uri (v : Str)
deriving Repr, DecidableEq

structure ExtXSessionData where
  data_id : Str
  data : SessionData
  language : Option Str
deriving Repr, DecidableEq

structure ExtXSessionDataAcc where
  data_id : Option Str := none
  session_value : Option Str := none
  uri : Option Str := none
  language : Option Str := none

def ExtXSessionData.step (a : ExtXSessionDataAcc) (kv : Str × Str) : Res ExtXSessionDataAcc :=
  let (key, value) := kv
  if key == "DATA-ID".toList then pure { a with data_id := some (unquote value) }
  else if key == "VALUE".toList then pure { a with session_value := some (unquote value) }
  else if key == "URI".toList then pure { a with uri := some (unquote value) }
  else if key == "LANGUAGE".toList then pure { a with language := some (unquote value) }
  else pure a

def ExtXSessionData.finish (a : ExtXSessionDataAcc) : Res ExtXSessionData :=
  match a.data_id with
  | none => .err
  | some id =>
    match a.session_value, a.uri with
    | some _, some _ => .err
    | some v, none => .ok ⟨id, .value v, a.language⟩
    | none, some u => .ok ⟨id, .uri u, a.language⟩
    | none, none => .err

def ExtXSessionData.parse (s : Str) : Res ExtXSessionData := do
  let r ← stripTag s pfxSessionData
  let a ← foldRes ExtXSessionData.step {} (attrPairs r)
  ExtXSessionData.finish a

def ExtXSessionData.show (t : ExtXSessionData) : Str :=
  pfxSessionData ++ "DATA-ID=".toList ++ quote t.data_id
  ++ (match t.data with
      | .value v => ",VALUE=".toList ++ quote v
      | .uri v => ",URI=".toList ++ quote v)
  ++ optAttr ",LANGUAGE=" quote t.language

/-! ## EXT-X-SESSION-KEY -/

def ExtXSessionKey.parse (s : Str) : Res DecryptionKey := do
  let r ← stripTag s pfxSessionKey
  DecryptionKey.parse r

def ExtXSessionKey.show (k : DecryptionKey) : Str := pfxSessionKey ++ k.show

/-! ## EXT-X-STREAM-INF / EXT-X-I-FRAME-STREAM-INF -/

inductive VariantStream where
  | extXIFrame (uri : Str) (stream_data : StreamData)
  | extXStreamInf (uri : Str) (frame_rate : Option Float32) (audio : Option Str) (subtitles : Option Str)
      (closed_captions : Option ClosedCaptions) (stream_data : StreamData)
deriving Repr, DecidableEq

structure StreamInfAcc where
  frame_rate : Option Float32 := none
  audio : Option Str := none
  subtitles : Option Str := none
  closed_captions : Option ClosedCaptions := none

def StreamInf.step (a : StreamInfAcc) (kv : Str × Str) : Res StreamInfAcc :=
  let (key, value) := kv
  if key == "FRAME-RATE".toList then do
    let f ← Float32.parseUFloat value
    pure { a with frame_rate := some f }
  else if key == "AUDIO".toList then pure { a with audio := some (unquote value) }
  else if key == "SUBTITLES".toList then pure { a with subtitles := some (unquote value) }
  else if key == "CLOSED-CAPTIONS".toList then pure { a with closed_captions := some (ClosedCaptions.parse value) }
  else pure a

/-- first `URI` attribute (`find_map`) -/
def firstUri : List (Str × Str) → Option Str
  | [] => none
  | (k, v) :: rest => if k == "URI".toList then some (unquote v) else firstUri rest

def VariantStream.parse (s : Str) : Res VariantStream :=
  match stripTag s pfxIFrameStreamInf with
  | .ok r =>
    match firstUri (attrPairs r) with
    | none => .err
    | some uri => do
      let d ← StreamData.parse r
      pure (.extXIFrame uri d)
  | _ =>
    match stripTag s pfxStreamInf with
    | .ok r =>
      match lines r with
      | first :: uri :: _ => do
        let a ← foldRes StreamInf.step {} (attrPairs first)
        let d ← StreamData.parse first
        pure (.extXStreamInf uri a.frame_rate a.audio a.subtitles a.closed_captions d)
      | _ => .err
    | _ => .err

def VariantStream.show : VariantStream → Str
  | .extXIFrame uri d => pfxIFrameStreamInf ++ "URI=".toList ++ quote uri ++ [','] ++ d.show
  | .extXStreamInf uri fr au su cc d =>
    pfxStreamInf ++ d.show
    ++ optAttr ",FRAME-RATE=" Float32.show3 fr
    ++ optAttr ",AUDIO=" quote au
    ++ optAttr ",SUBTITLES=" quote su
    ++ optAttr ",CLOSED-CAPTIONS=" ClosedCaptions.show cc
    ++ ['\n'] ++ uri

def VariantStream.streamData : VariantStream → StreamData
  | .extXIFrame _ d => d
  | .extXStreamInf _ _ _ _ _ d => d

/-- `is_associated` -/
def VariantStream.isAssociated (v : VariantStream) (m : ExtXMedia) : Bool :=
  match v with
  | .extXIFrame _ d =>
    if m.media_type == .video then
      match d.video with
      | some g => g == m.group_id
      | none => false
    else false
  | .extXStreamInf _ _ au su cc d =>
    match m.media_type with
    | .audio => au == some m.group_id
    | .video => d.video == some m.group_id
    | .subtitles => su == some m.group_id
    | .closedCaptions =>
      match cc with
      | some (.groupId g) => g == m.group_id
      | some .none => m.group_id == "NONE".toList     -- `PartialEq<str>` of `ClosedCaptions::None`
      | none => false

end Hls
