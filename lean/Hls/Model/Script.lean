import Hls.Model.Media
import Hls.Model.Master
/-!
# Builder scripts (PROTOCOL.md "Builder scripts"): the public builders driven by call sequences

The `derive_builder` structs are modelled as records of `Option` fields; a setter stores, `build()`
= validate → required fields → construct. Used by the driver (`build_media`, `build_master`,
`build_tag:*`) and by the C20 theorems.
-/
namespace Hls

def Res.toOption' {α} : Res α → Option α
  | .ok a => some a
  | _ => none

/-! ## small tag/type builders -/

/-- `ExtXDateRangeBuilder`: no validation, `id` required -/
structure ExtXDateRangeBuilder where
  id : Option Str := none
  «class» : Option Str := none
  start_date : Option Str := none
  end_date : Option Str := none
  duration : Option Nat := none
  planned_duration : Option Nat := none
  scte35_cmd : Option Str := none
  scte35_out : Option Str := none
  scte35_in : Option Str := none
  end_on_next : Option Bool := none
  client_attributes : Option (List (Str × Value)) := none
deriving Repr, DecidableEq

def ExtXDateRangeBuilder.build (b : ExtXDateRangeBuilder) : Res ExtXDateRange :=
  match b.id with
  | some id => .ok ⟨id, b.«class», b.start_date, b.end_date, b.duration, b.planned_duration, b.scte35_cmd,
                    b.scte35_out, b.scte35_in, b.end_on_next.getD false, b.client_attributes.getD []⟩
  | none => .err

structure ExtXSessionDataBuilder where
  data_id : Option Str := none
  data : Option SessionData := none
  language : Option Str := none
deriving Repr, DecidableEq

def ExtXSessionDataBuilder.build (b : ExtXSessionDataBuilder) : Res ExtXSessionData :=
  match b.data_id, b.data with
  | some i, some d => .ok ⟨i, d, b.language⟩
  | _, _ => .err

structure StreamDataBuilder where
  bandwidth : Option Nat := none
  average_bandwidth : Option Nat := none
  codecs : Option Codecs := none
  resolution : Option Resolution := none
  hdcp_level : Option HdcpLevel := none
  video : Option Str := none
deriving Repr, DecidableEq

def StreamDataBuilder.build (b : StreamDataBuilder) : Res StreamData :=
  match b.bandwidth with
  | some bw => .ok ⟨bw, b.average_bandwidth, b.codecs, b.resolution, b.hdcp_level, b.video⟩
  | none => .err

/-- `DecryptionKeyBuilder`: `validate` demands `method` and a `uri` that is not blank (after the `fix:` that makes
the builder reject what the parser rejects; before it an empty URI built: former finding K6b) -/
structure DecryptionKeyBuilder where
  method : Option EncryptionMethod := none
  uri : Option Str := none
  iv : Option InitializationVector := none
  format : Option KeyFormat := none
  versions : Option KeyFormatVersions := none
deriving Repr, DecidableEq

def DecryptionKeyBuilder.build (b : DecryptionKeyBuilder) : Res DecryptionKey :=
  match b.method, b.uri with
  | some m, some u => if (trim u).isEmpty then .err else .ok ⟨m, u, b.iv.getD .missing, b.format, b.versions⟩
  | _, _ => .err

/-- `KeyFormatVersions::from_iter` -/
def KeyFormatVersions.fromIter (items : List Nat) : KeyFormatVersions :=
  if (items.take 10).all (· == 0) then ⟨[]⟩ else ⟨items.take 9⟩

/-! ## script syntax helpers -/

def hexNibble? (c : Char) : Option Nat :=
  if '0' ≤ c ∧ c ≤ '9' then some (c.toNat - '0'.toNat)
  else if 'a' ≤ c ∧ c ≤ 'f' then some (c.toNat - 'a'.toNat + 10) else none

def hexBytes? : Str → Option (List Nat)
  | [] => some []
  | [_] => none
  | a :: b :: rest =>
    match hexNibble? a, hexNibble? b, hexBytes? rest with
    | some x, some y, some r => some ((x * 16 + y) :: r)
    | _, _, _ => none

/-- hex-encoded UTF-8 argument → text -/
def hexArg? (s : Str) : Option Str :=
  match hexBytes? s with
  | some bs => (String.fromUTF8? (ByteArray.mk (bs.map UInt8.ofNat).toArray)).map String.toList
  | none => none

def bits8? (s : Str) : Option Nat :=
  if s.length != 8 then none else
  s.foldl (fun acc c => match acc, hexNibble? c with
    | some a, some v => some (a * 16 + v)
    | _, _ => none) (some 0)

def bool01? (s : Str) : Option Bool :=
  if s == ['0'] then some false else if s == ['1'] then some true else none

def tokens (s : Str) : List Str := splitAll ' ' s

def startOf? (a b : Str) : Option ExtXStart :=
  match bits8? a, bool01? b with
  | some bits, some p =>
    match Float32.ofBitsFloat bits with
    | .ok f => some ⟨f, p⟩
    | _ => none
  | _, _ => none

/-- `len@start` → range with start, `len` → range without -/
def scriptRange? (s : Str) : Option ByteRange :=
  match splitFirst '@' s with
  | some (l, st) =>
    match parseNat? 64 l, parseNat? 64 st with
    | some len, some start => if start + len < 2 ^ 64 then some ⟨some start, start + len⟩ else none
    | _, _ => none
  | none => (parseNat? 64 s).map fun len => ⟨none, len⟩

def optHex? (s : Str) : Option (Option Str) :=
  if s == ['-'] then some none else (hexArg? s).map some

/-- `key=<m>:<hexuri>:<iv>:<fmt>:<vers>` / `key=none`; outer `none` = malformed, inner `Res` = builder result -/
def scriptKey? (s : Str) : Option (Res ExtXKey) :=
  if s == "none".toList then some (.ok none) else
  match splitAll ':' s with
  | [m, u, iv, f, v] =>
    let method? : Option EncryptionMethod :=
      if m == "aes".toList then some .aes128 else if m == "saes".toList then some .sampleAes else none
    let iv? : Option (Option InitializationVector) :=
      if iv == ['-'] then some none
      else if iv.length == 32 then (hexBytes? iv).map fun bs => some (.aes128 (bytesToNat bs)) else none
    let vers? : Option (Option KeyFormatVersions) :=
      if v == ['-'] then some none
      else if v == "empty".toList then some (some (KeyFormatVersions.fromIter []))
      else
        let items := (splitAll '/' v).map (parseNat? 8)
        if items.all Option.isSome then some (some (KeyFormatVersions.fromIter (items.filterMap fun x => x))) else none
    match method?, hexArg? u, iv?, optHex? f, vers? with
    | some method, some uri, some ivv, some fmt, some vers =>
      let b : DecryptionKeyBuilder :=
        { method := some method, uri := some uri, iv := ivv, format := fmt.map KeyFormat.parse, versions := vers }
      some (b.build.map some)
    | _, _, _, _, _ => none
  | _ => none

/-- one `k=v` token of a segment script applied to the `MediaSegmentBuilder` -/
def segToken (sb : MediaSegmentBuilder) (tok : Str) : Option (Res MediaSegmentBuilder) :=
  match splitFirst '=' tok with
  | none => none
  | some (k, v) =>
    if k == "dur".toList then (parseNat? 128 v).map fun ns => .ok { sb with duration := some ⟨ns, none⟩ }
    else if k == "title".toList then
      match sb.duration, hexArg? v with
      | some d, some t => some (.ok { sb with duration := some { d with title := some t } })
      | _, _ => none
    else if k == "uri".toList then (hexArg? v).map fun u => .ok { sb with uri := some u }
    else if k == "num".toList then
      if v == "none".toList then some (.ok (sb.setNumber none))
      else (parseNat? 64 v).map fun n => .ok (sb.setNumber (some n))
    else if k == "br".toList then (scriptRange? v).map fun r => .ok { sb with byte_range := some r }
    else if k == "disc".toList then (if v == ['1'] then some (.ok { sb with has_discontinuity := some true }) else none)
    else if k == "pdt".toList then (hexArg? v).map fun t => .ok { sb with program_date_time := some ⟨t⟩ }
    else if k == "dr".toList then
      match hexArg? v with
      | some t =>
        match ExtXDateRange.parse t with
        | .ok d => some (.ok { sb with date_range := some d })
        | _ => none
      | none => none
    else if k == "map".toList then
      match splitFirst ':' v with
      | none => (hexArg? v).map fun u => .ok { sb with map := some ⟨u, none, []⟩ }
      | some (hu, r) =>
        match hexArg? hu, scriptRange? r with
        | some u, some rg => some (.ok { sb with map := some ⟨u, some rg, []⟩ })
        | _, _ => none
    else if k == "key".toList then
      match scriptKey? v with
      | some (.ok key) => some (.ok { sb with keys := some (sb.keys.getD [] ++ [key]) })
      | some .err => some .err
      | some .panic => some .panic
      | none => none
    else none

/-- a `<seg>` script → `MediaSegment::builder()…build()` -/
def scriptSegment (toks : List Str) : Option (Res MediaSegment) :=
  let rec go : List Str → MediaSegmentBuilder → Option (Res MediaSegment)
    | [], sb => some sb.build
    | t :: ts, sb =>
      match segToken sb t with
      | some (.ok sb') => go ts sb'
      | some .err => some .err
      | some .panic => some .panic
      | none => none
  go toks {}

/-- split on a lone `|` token -/
def splitBar : List Str → List (List Str)
  | [] => [[]]
  | t :: ts =>
    if t == ['|'] then [] :: splitBar ts
    else match splitBar ts with
      | [] => [[t]]
      | g :: gs => (t :: g) :: gs

def allSome {α} : List (Option α) → Option (List α)
  | [] => some []
  | none :: _ => none
  | some a :: rest => (allSome rest).map (a :: ·)

/-- first error/panic of a list of results, else the values -/
def allOk {α} : List (Res α) → Res (List α)
  | [] => .ok []
  | .ok a :: rest =>
    match allOk rest with
    | .ok r => .ok (a :: r)
    | .err => .err
    | .panic => .panic
  | .err :: _ => .err
  | .panic :: _ => .panic

/-- one call of a `build_media` script; outer `none` = malformed -/
def mediaCall (b : MediaPlaylistBuilder) (call : Str) : Option (Res MediaPlaylistBuilder) :=
  match tokens call with
  | [] => none
  | name :: args =>
    if name == "td".toList then
      match args with
      | [a] => (parseNat? 128 a).map fun ns => .ok { b with target_duration := some ns }
      | _ => none
    else if name == "ms".toList then
      match args with
      | [a] => (parseNat? 64 a).map fun n => .ok { b with media_sequence := some n }
      | _ => none
    else if name == "ds".toList then
      match args with
      | [a] => (parseNat? 64 a).map fun n => .ok { b with discontinuity_sequence := some n }
      | _ => none
    else if name == "pt".toList then
      match args with
      | [a] => if a == "VOD".toList then some (.ok { b with playlist_type := some (some .vod) })
               else if a == "EVENT".toList then some (.ok { b with playlist_type := some (some .event) }) else none
      | _ => none
    else if name == "ifo".toList then
      match args with
      | [a] => (bool01? a).map fun v => .ok { b with has_i_frames_only := some v }
      | _ => none
    else if name == "ind".toList then
      match args with
      | [a] => (bool01? a).map fun v => .ok { b with has_independent_segments := some v }
      | _ => none
    else if name == "end".toList then
      match args with
      | [a] => (bool01? a).map fun v => .ok { b with has_end_list := some v }
      | _ => none
    else if name == "start".toList then
      match args with
      | [a, c] => (startOf? a c).map fun s => .ok { b with start := some (some s) }
      | _ => none
    else if name == "ex".toList then
      match args with
      | [a] => (parseNat? 128 a).map fun ns => .ok { b with allowable_excess_duration := some ns }
      | _ => none
    else if name == "unk".toList then
      (allSome (args.map hexArg?)).map fun us => .ok { b with unknown := some us }
    else if name == "push".toList then
      match scriptSegment args with
      | some (.ok s) => some (.ok (b.pushSegment s))
      | some .err => some .err
      | some .panic => some .panic
      | none => none
    else if name == "segs".toList then
      if args.isEmpty then some (.ok (b.setSegments [])) else
      match allSome ((splitBar args).map scriptSegment) with
      | some rs =>
        match allOk rs with
        | .ok segs => some (.ok (b.setSegments segs))
        | .err => some .err
        | .panic => some .panic
      | none => none
    else none

/-- a `parse <text>` call (only allowed as the last call of a script) -/
def isParseCall (c : Str) : Bool :=
  match tokens c with
  | name :: _ => name == "parse".toList
  | [] => false

def parseCallText? (c : Str) : Option Str :=
  match tokens c with
  | [_, a] => hexArg? a
  | _ => none

def buildMediaGo : List Str → MediaPlaylistBuilder → Option (Res MediaPlaylist)
  | [], b => some b.build
  | c :: cs, b =>
    if isParseCall c then
      -- `builder.parse(text)` on the builder as configured so far, instead of `builder.build()`
      match cs, parseCallText? c with
      | [], some t => some (parseMediaWith b t)
      | _, _ => none
    else
      match mediaCall b c with
      | some (.ok b') => buildMediaGo cs b'
      | some .err =>
        -- the rest of the script must still be well formed (the runner validates the whole script first)
        match buildMediaGo cs b with
        | some _ => some .err
        | none => none
      | some .panic =>
        match buildMediaGo cs b with
        | some _ => some .panic
        | none => none
      | none => none

/-- `build_media`: outer `none` = `bad-op` -/
def buildMediaScript (script : Str) : Option (Res MediaPlaylist) :=
  let calls := if script.isEmpty then [] else splitAll '\n' script
  buildMediaGo calls {}

def parseAll {α} (p : Str → Res α) (args : List Str) : Option (List α) :=
  allSome (args.map fun a =>
    match hexArg? a with
    | some t =>
      match p t with
      | .ok v => some v
      | _ => none
    | none => none)

def foldTokens {β} (f : β → Str → Str → Option β) (init : β) (script : Str) : Option β :=
  let toks := if script.isEmpty then [] else tokens script
  toks.foldl (fun acc t =>
    match acc, splitFirst '=' t with
    | some b, some (k, v) => f b k v
    | _, _ => none) (some init)

def mediaTagToken (b : ExtXMediaBuilder) (k v : Str) : Option ExtXMediaBuilder :=
  if k == "type".toList then
    match MediaType.parse v with
    | .ok t => some { b with media_type := some t }
    | _ => none
  else if k == "uri".toList then (hexArg? v).map fun x => { b with uri := some x }
  else if k == "group".toList then (hexArg? v).map fun x => { b with group_id := some x }
  else if k == "lang".toList then (hexArg? v).map fun x => { b with language := some x }
  else if k == "assoc".toList then (hexArg? v).map fun x => { b with assoc_language := some x }
  else if k == "name".toList then (hexArg? v).map fun x => { b with name := some x }
  else if k == "default".toList then (bool01? v).map fun x => { b with is_default := some x }
  else if k == "autoselect".toList then (bool01? v).map fun x => { b with is_autoselect := some x }
  else if k == "forced".toList then (bool01? v).map fun x => { b with is_forced := some x }
  else if k == "instream".toList then
    match InStreamId.parse v with
    | .ok i => some { b with instream_id := some i }
    | _ => none
  else if k == "chars".toList then (hexArg? v).map fun x => { b with characteristics := some x }
  else if k == "channels".toList then
    match Channels.parse v with
    | .ok c => some { b with channels := some c }
    | _ => none
  else none

/-- `ExtXMedia::new(type, group, name)` followed by assignments to the public fields -/
def mediaFromFields (script : Str) : Option ExtXMedia :=
  let toks := (if script.isEmpty then [] else tokens script).map (splitFirst '=')
  match allSome toks with
  | none => none
  | some kvs =>
    let get (k : String) : Option Str := (kvs.find? fun kv => kv.1 == k.toList).map (·.2)
    match (get "type").bind (fun v => (MediaType.parse v).toOption'), (get "group").bind hexArg?, (get "name").bind hexArg? with
    | some ty, some g, some n =>
      kvs.foldl (fun acc kv =>
        match acc with
        | none => none
        | some (m : ExtXMedia) =>
          let (k, v) := kv
          if k == "type".toList || k == "group".toList || k == "name".toList then some m
          else if k == "settype".toList then ((MediaType.parse v).toOption').map fun t => { m with media_type := t }
          else if k == "default".toList then (bool01? v).map fun x => { m with is_default := x }
          else if k == "autoselect".toList then (bool01? v).map fun x => { m with is_autoselect := x }
          else if k == "forced".toList then (bool01? v).map fun x => { m with is_forced := x }
          else if k == "instream".toList then ((InStreamId.parse v).toOption').map fun x => { m with instream_id := some x }
          else if k == "channels".toList then ((Channels.parse v).toOption').map fun x => { m with channels := some x }
          else none)
        (some ⟨ty, none, g, none, none, n, false, false, false, none, none, none⟩)
    | _, _, _ => none

def masterCall (b : MasterPlaylistBuilder) (call : Str) : Option MasterPlaylistBuilder :=
  match tokens call with
  | [] => none
  | name :: args =>
    if name == "ind".toList then
      match args with
      | [a] => (bool01? a).map fun v => { b with has_independent_segments := some v }
      | _ => none
    else if name == "start".toList then
      match args with
      | [a, c] => (startOf? a c).map fun s => { b with start := some (some s) }
      | _ => none
    else if name == "media".toList then (parseAll ExtXMedia.parse args).map fun v => { b with media := some v }
    else if name == "mediab".toList then
      -- renditions made with the tag builder: one argument per rendition, its `k=v` tokens joined by `+`
      (allSome (args.map fun a =>
        match foldTokens mediaTagToken {} (a.map fun c => if c == '+' then ' ' else c) with
        | some mb => (match mb.build with
          | .ok m => some m
          | _ => none)
        | none => none)).map fun v => { b with media := some v }
    else if name == "mediaf".toList then
      -- renditions made with `ExtXMedia::new` and then changed through their public fields: no validation in between
      (allSome (args.map fun a => mediaFromFields (a.map fun c => if c == '+' then ' ' else c))).map fun v => { b with media := some v }
    else if name == "variants".toList then (parseAll VariantStream.parse args).map fun v => { b with variant_streams := some v }
    else if name == "sdata".toList then (parseAll ExtXSessionData.parse args).map fun v => { b with session_data := some v }
    else if name == "skeys".toList then (parseAll ExtXSessionKey.parse args).map fun v => { b with session_keys := some v }
    else if name == "unk".toList then (allSome (args.map hexArg?)).map fun v => { b with unknown_tags := some v }
    else none

def buildMasterScript (script : Str) : Option (Res MasterPlaylist) :=
  let calls := if script.isEmpty then [] else splitAll '\n' script
  let rec go : List Str → MasterPlaylistBuilder → Option (Res MasterPlaylist)
    | [], b => some b.build
    | c :: cs, b =>
      match masterCall b c with
      | some b' => go cs b'
      | none => none
  go calls {}

/-! ## `build_tag:*` -/

def dateRangeToken (b : ExtXDateRangeBuilder) (k v : Str) : Option ExtXDateRangeBuilder :=
  if k == "id".toList then (hexArg? v).map fun x => { b with id := some x }
  else if k == "class".toList then (hexArg? v).map fun x => { b with «class» := some x }
  else if k == "start".toList then (hexArg? v).map fun x => { b with start_date := some x }
  else if k == "end".toList then (hexArg? v).map fun x => { b with end_date := some x }
  else if k == "dur".toList then (parseNat? 128 v).map fun x => { b with duration := some x }
  else if k == "planned".toList then (parseNat? 128 v).map fun x => { b with planned_duration := some x }
  else if k == "cmd".toList then (hexArg? v).map fun x => { b with scte35_cmd := some x }
  else if k == "out".toList then (hexArg? v).map fun x => { b with scte35_out := some x }
  else if k == "in".toList then (hexArg? v).map fun x => { b with scte35_in := some x }
  else if k == "eon".toList then (bool01? v).map fun x => { b with end_on_next := some x }
  else if k == "attr".toList then
    match splitFirst ':' v with
    | some (hk, tv) =>
      match hexArg? hk, tv with
      | some key, 'S' :: h => (hexArg? h).map fun x => { b with client_attributes := some (btreeInsert key (.string x) (b.client_attributes.getD [])) }
      | some key, 'H' :: h => (hexBytes? h).map fun x => { b with client_attributes := some (btreeInsert key (.hex x) (b.client_attributes.getD [])) }
      | some key, 'F' :: h =>
        match (bits8? h).map Float32.ofBitsFloat with
        | some (.ok f) => some { b with client_attributes := some (btreeInsert key (.float f) (b.client_attributes.getD [])) }
        | _ => none
      | _, _ => none
    | none => none
  else none

def sessionDataToken (b : ExtXSessionDataBuilder) (k v : Str) : Option ExtXSessionDataBuilder :=
  if k == "id".toList then (hexArg? v).map fun x => { b with data_id := some x }
  else if k == "value".toList then (hexArg? v).map fun x => { b with data := some (.value x) }
  else if k == "uri".toList then (hexArg? v).map fun x => { b with data := some (.uri x) }
  else if k == "lang".toList then (hexArg? v).map fun x => { b with language := some x }
  else none

def streamDataToken (b : StreamDataBuilder) (k v : Str) : Option StreamDataBuilder :=
  if k == "bw".toList then (parseNat? 64 v).map fun x => { b with bandwidth := some x }
  else if k == "avg".toList then (parseNat? 64 v).map fun x => { b with average_bandwidth := some x }
  else if k == "codecs".toList then (hexArg? v).map fun x => { b with codecs := some ⟨splitAll ',' x⟩ }
  else if k == "res".toList then
    match Resolution.parse v with
    | .ok r => some { b with resolution := some r }
    | _ => none
  else if k == "hdcp".toList then
    match HdcpLevel.parse v with
    | .ok h => some { b with hdcp_level := some h }
    | _ => none
  else if k == "video".toList then (hexArg? v).map fun x => { b with video := some x }
  else none

def decryptionKeyToken (b : DecryptionKeyBuilder) (k v : Str) : Option DecryptionKeyBuilder :=
  if k == "method".toList then
    (if v == "aes".toList then some { b with method := some .aes128 }
     else if v == "saes".toList then some { b with method := some .sampleAes } else none)
  else if k == "uri".toList then (hexArg? v).map fun x => { b with uri := some x }
  else if k == "iv".toList then
    (if v.length == 32 then (hexBytes? v).map fun bs => { b with iv := some (.aes128 (bytesToNat bs)) } else none)
  else if k == "format".toList then (hexArg? v).map fun x => { b with format := some (KeyFormat.parse x) }
  else if k == "versions".toList then
    if v == "empty".toList then some { b with versions := some (KeyFormatVersions.fromIter []) } else
    let items := (splitAll '/' v).map (parseNat? 8)
    if items.all Option.isSome then some { b with versions := some (KeyFormatVersions.fromIter (items.filterMap fun x => x)) } else none
  else none

end Hls
