/-!
# L0 — text primitives (model of the `str` operations the library uses)

One text representation everywhere: `Str := List Char` (a Rust `&str` is valid UTF-8 and a Lean
`Char` is a Unicode scalar value, so `List Char` is exactly the set of Rust strings).
This file is import-free so that the driver links as a `lean_exe`.
-/
namespace Hls

abbrev Str := List Char

/-- Result of a fallible library call: `ok`, the single class of all `Err(_)` values, or an unwind. -/
inductive Res (α : Type) where
  | ok (a : α)
  | err
  | panic
deriving Repr, DecidableEq

namespace Res
@[inline] def bind {α β} (x : Res α) (f : α → Res β) : Res β :=
  match x with
  | .ok a => f a
  | .err => .err
  | .panic => .panic

@[inline] def map {α β} (f : α → β) (x : Res α) : Res β :=
  match x with
  | .ok a => .ok (f a)
  | .err => .err
  | .panic => .panic

instance : Monad Res where
  pure := .ok
  bind := Res.bind

def isOk {α} : Res α → Bool
  | .ok _ => true
  | _ => false

def isPanic {α} : Res α → Bool
  | .panic => true
  | _ => false

/-- `Option` to `Res` (`ok_or_else(Error::…)`). -/
def ofOpt {α} : Option α → Res α
  | some a => .ok a
  | none => .err

@[simp] theorem bind_ok {α β} (a : α) (f : α → Res β) : (Res.ok a >>= f) = f a := rfl
@[simp] theorem bind_err {α β} (f : α → Res β) : ((Res.err : Res α) >>= f) = .err := rfl
@[simp] theorem bind_panic {α β} (f : α → Res β) : ((Res.panic : Res α) >>= f) = .panic := rfl
@[simp] theorem pure_eq {α} (a : α) : (pure a : Res α) = .ok a := rfl
@[simp] theorem bind_ok' {α β} (a : α) (f : α → Res β) : Res.bind (Res.ok a) f = f a := rfl
@[simp] theorem bind_err' {α β} (f : α → Res β) : Res.bind (Res.err : Res α) f = .err := rfl
@[simp] theorem bind_panic' {α β} (f : α → Res β) : Res.bind (Res.panic : Res α) f = .panic := rfl
end Res

/-- Short-circuit left fold (a Rust `for` loop whose body may `return Err` / unwind). -/
def foldRes {σ α} (f : σ → α → Res σ) : σ → List α → Res σ
  | s, [] => .ok s
  | s, x :: xs =>
    match f s x with
    | .ok s' => foldRes f s' xs
    | .err => .err
    | .panic => .panic

/-- a loop body applied to an iterator item that may itself be an error (`line?`) -/
def liftItem {σ α} (step : σ → α → Res σ) (s : σ) : Res α → Res σ
  | .ok a => step s a
  | .err => .err
  | .panic => .panic

/-- `mapM` with short-circuit. -/
def mapRes {α β} (f : α → Res β) : List α → Res (List β)
  | [] => .ok []
  | x :: xs =>
    match f x with
    | .ok y =>
      match mapRes f xs with
      | .ok ys => .ok (y :: ys)
      | .err => .err
      | .panic => .panic
    | .err => .err
    | .panic => .panic

/-! ## Characters -/

/-- Rust `char::is_whitespace` (Unicode `White_Space`). -/
def isWs (c : Char) : Bool :=
  c == ' ' || ('\t'.val ≤ c.val && c.val ≤ '\r'.val) || c.val == 0x85 || c.val == 0xA0 || c.val == 0x1680 ||
  (0x2000 ≤ c.val && c.val ≤ 0x200A) || c.val == 0x2028 || c.val == 0x2029 || c.val == 0x202F ||
  c.val == 0x205F || c.val == 0x3000

def isDigit (c : Char) : Bool := '0'.val ≤ c.val && c.val ≤ '9'.val
def isAsciiLower (c : Char) : Bool := 'a'.val ≤ c.val && c.val ≤ 'z'.val
def isAsciiUpper (c : Char) : Bool := 'A'.val ≤ c.val && c.val ≤ 'Z'.val
def isAscii (c : Char) : Bool := c.val < 128
def asciiLower (c : Char) : Char := if isAsciiUpper c then Char.ofNat (c.toNat + 32) else c

/-! ## Trimming, prefixes, splitting -/

def trimStart (s : Str) : Str := s.dropWhile isWs
def trimEnd (s : Str) : Str := (s.reverse.dropWhile isWs).reverse
def trim (s : Str) : Str := trimEnd (trimStart s)

def startsWith (s p : Str) : Bool := p.isPrefixOf s

/-- split at first occurrence of `c` (`str::split_once`) -/
def splitFirst (c : Char) : Str → Option (Str × Str)
  | [] => none
  | x :: xs => if x == c then some ([], xs) else
      match splitFirst c xs with
      | none => none
      | some (a, b) => some (x :: a, b)

/-- `str::splitn(2, c)`: first piece and optional rest. -/
def splitN2 (c : Char) (s : Str) : Str × Option Str :=
  match splitFirst c s with
  | none => (s, none)
  | some (a, b) => (a, some b)

/-- `str::split(c)`: always at least one piece. -/
def splitAll (c : Char) : Str → List Str
  | [] => [[]]
  | x :: xs =>
    if x == c then [] :: splitAll c xs
    else match splitAll c xs with
      | [] => [[x]]
      | p :: ps => (x :: p) :: ps

/-- `str::split_inclusive('\n')` pieces (each keeps its terminator). -/
def splitInclusiveNl : Str → List Str
  | [] => []
  | x :: xs =>
    if x == '\n' then [x] :: splitInclusiveNl xs
    else match splitInclusiveNl xs with
      | [] => [[x]]
      | p :: ps => (x :: p) :: ps

/-- one piece of `split_inclusive('\n')` mapped as `str::lines` does: strip `\n`, then one `\r` -/
def stripLineEnd (p : Str) : Str :=
  match p.reverse with
  | '\n' :: r =>
    match r with
    | '\r' :: r' => r'.reverse
    | _ => r.reverse
  | _ => p

/-- Rust `str::lines`. -/
def lines (s : Str) : List Str := (splitInclusiveNl s).map stripLineEnd

/-- `utils::tag(input, tag)`: trim, test the prefix, return the remainder. -/
def stripTag (input tag : Str) : Res Str :=
  let t := trim input
  if startsWith t tag then .ok (t.drop tag.length) else .err

/-! ## Quoting -/

def quote (s : Str) : Str := '"' :: (s.filter (· != '"')) ++ ['"']

def badQ (c : Char) : Bool := c == '"' || c == '\n' || c == '\r'

/-- `utils::unquote` (after the `fix:` that requires two quote characters before slicing). -/
def unquote (v : Str) : Str :=
  match v with
  | '"' :: rest =>
    match rest.reverse with
    | '"' :: innerRev =>
        let inner := innerRev.reverse
        if inner.any badQ then v.filter (fun c => !badQ c) else inner
    | _ => v.filter (fun c => !badQ c)
  | _ => v.filter (fun c => !badQ c)

def parseYesNo (s : Str) : Res Bool :=
  if s == "YES".toList then .ok true else if s == "NO".toList then .ok false else .err

/-! ## The attribute-list tokenizer (`AttributePairs`) -/

/-- scan a value: up to the first comma outside double quotes -/
def scanValue : Str → Bool → Str × Option Str
  | [], _ => ([], none)
  | x :: xs, q =>
    if x == '"' then let (a, b) := scanValue xs (!q); (x :: a, b)
    else if x == ',' && !q then ([], some xs)
    else let (a, b) := scanValue xs q; (x :: a, b)

theorem scanValue_len (s : Str) (q : Bool) : ∀ r, (scanValue s q).2 = some r → r.length < s.length := by
  induction s generalizing q with
  | nil => intro r h; simp [scanValue] at h
  | cons x xs ih =>
    intro r h
    simp only [scanValue] at h
    split at h
    · have := ih (!q) r (by simpa using h); simp; omega
    · split at h
      · simp at h; subst h; simp
      · have := ih q r (by simpa using h); simp; omega

theorem splitFirst_len (c : Char) (s : Str) : ∀ a b, splitFirst c s = some (a, b) → b.length < s.length := by
  induction s with
  | nil => intro a b h; simp [splitFirst] at h
  | cons x xs ih =>
    intro a b h
    simp only [splitFirst] at h
    split at h
    · simp at h; obtain ⟨_, rfl⟩ := h; simp
    · split at h
      · simp at h
      · rename_i a' b' heq
        simp at h; obtain ⟨_, rfl⟩ := h
        have := ih a' b' heq; simp; omega

/-- length in UTF-8 bytes (`str::len`) -/
def utf8Len (s : Str) : Nat := (s.map Char.utf8Size).sum

/-- All items of `AttributePairs::new(s)`: stop when fewer than two bytes are left or no `=`
follows; key = trimmed text before `=`, value = trimmed text up to the next top-level comma. -/
def attrPairs (s : Str) : List (Str × Str) :=
  if utf8Len s < 2 then [] else
  match h : splitFirst '=' s with
  | none => []
  | some (k, rest) =>
    match h2 : scanValue rest false with
    | (v, none) => [(trim k, trim v)]
    | (v, some rem) => (trim k, trim v) :: attrPairs rem
termination_by s.length
decreasing_by
  have h1 := splitFirst_len '=' s k rest h
  have h3 := scanValue_len rest false rem (by rw [h2])
  omega

/-! ## Integers -/

def digitVal (c : Char) : Nat := c.toNat - '0'.toNat

def digitsToNat (ds : Str) : Nat := ds.foldl (fun acc c => acc * 10 + digitVal c) 0

def charDigit? (c : Char) : Option Nat := if '0' ≤ c ∧ c ≤ '9' then some (c.toNat - 48) else none

/-- Horner parse of an all-digit string with accumulator; `none` on a non-digit -/
def parseDigits : List Char → Nat → Option Nat
  | [], acc => some acc
  | c :: cs, acc =>
    match charDigit? c with
    | some d => parseDigits cs (acc * 10 + d)
    | none => none

def stripPlus : Str → Str
  | '+' :: r => r
  | s => s

/-- `str::parse::<uN>` with `N = bits`: optional `+`, at least one ASCII digit, value `< 2^bits`. -/
def parseNat? (bits : Nat) (s : Str) : Option Nat :=
  let body := stripPlus s
  if body.isEmpty then none else
  match parseDigits body 0 with
  | some v => if v < 2 ^ bits then some v else none
  | none => none

def parseNat (bits : Nat) (s : Str) : Res Nat := Res.ofOpt (parseNat? bits s)

def digitChar (d : Nat) : Char := Char.ofNat (48 + d)

/-- decimal rendering (`Display` for unsigned integers) -/
def showNat (n : Nat) : Str :=
  if n < 10 then [digitChar n] else showNat (n / 10) ++ [digitChar (n % 10)]
termination_by n
decreasing_by omega

/-! ## Hex -/

def hexDigitVal? (c : Char) : Option Nat :=
  if isDigit c then some (c.toNat - '0'.toNat)
  else if 'a'.val ≤ c.val && c.val ≤ 'f'.val then some (c.toNat - 'a'.toNat + 10)
  else if 'A'.val ≤ c.val && c.val ≤ 'F'.val then some (c.toNat - 'A'.toNat + 10)
  else none

/-- `hex::decode`: even number of hex digits (either case) → bytes. -/
def hexDecode? : Str → Option (List Nat)
  | [] => some []
  | [_] => none
  | a :: b :: rest =>
    match hexDigitVal? a, hexDigitVal? b, hexDecode? rest with
    | some x, some y, some r => some ((x * 16 + y) :: r)
    | _, _, _ => none

def hexChar (upper : Bool) (n : Nat) : Char :=
  if n < 10 then Char.ofNat ('0'.toNat + n)
  else if upper then Char.ofNat ('A'.toNat + (n - 10)) else Char.ofNat ('a'.toNat + (n - 10))

def hexEncode (upper : Bool) (bs : List Nat) : Str :=
  bs.flatMap (fun b => [hexChar upper (b / 16), hexChar upper (b % 16)])

/-- big-endian bytes → number -/
def bytesToNat (bs : List Nat) : Nat := bs.foldl (fun acc b => acc * 256 + b) 0

/-- number → `n` big-endian bytes -/
def natToBytes : Nat → Nat → List Nat
  | 0, _ => []
  | n + 1, v => natToBytes n (v / 256) ++ [v % 256]

end Hls
