import Hls.Model.Tags
import Hls.Generated.Dispatch
/-!
# L1 — line classification (`src/line.rs`): `Lines::next`, `Tag::try_from`
-/
namespace Hls

/-- a classified line (`Line` with `Tag` flattened) -/
inductive Line where
  | version (v : Nat)
  | inf (t : ExtInf)
  | byteRange (r : ByteRange)
  | discontinuity
  | key (k : ExtXKey)
  | map (m : ExtXMap)
  | programDateTime (t : ExtXProgramDateTime)
  | dateRange (t : ExtXDateRange)
  | targetDuration (ns : Nat)
  | mediaSequence (n : Nat)
  | discontinuitySequence (n : Nat)
  | endList
  | playlistType (p : PlaylistType)
  | iFramesOnly
  | media (m : ExtXMedia)
  | sessionData (d : ExtXSessionData)
  | sessionKey (k : DecryptionKey)
  | independentSegments
  | start (s : ExtXStart)
  | variant (v : VariantStream)
  | unknown (s : Str)
  | comment (s : Str)
  | uri (s : Str)
deriving Repr, DecidableEq

/-- the text the library writes for a line (`Display` of the tag; URI / comment / unknown lines verbatim) -/
def Line.render : Line → Str
  | .version v => ExtXVersion.show v
  | .inf t => t.show
  | .byteRange r => ExtXByteRange.show r
  | .discontinuity => pfxDiscontinuity
  | .key k => ExtXKey.show k
  | .map m => m.show
  | .programDateTime t => t.show
  | .dateRange t => t.show
  | .targetDuration d => ExtXTargetDuration.show d
  | .mediaSequence n => ExtXMediaSequence.show n
  | .discontinuitySequence n => ExtXDiscontinuitySequence.show n
  | .endList => pfxEndList
  | .playlistType p => p.show
  | .iFramesOnly => pfxIFramesOnly
  | .media m => m.show
  | .sessionData d => d.show
  | .sessionKey k => ExtXSessionKey.show k
  | .independentSegments => pfxIndependentSegments
  | .start s => s.show
  | .variant v => v.show
  | .unknown s => s
  | .comment s => s
  | .uri s => s

/-- lines → text: every line terminated by `\n` (`writeln!`) -/
def renderLines (ls : List Line) : Str := ls.flatMap fun l => l.render ++ ['\n']

/-- name of the `Tag` variant (as in `Generated.dispatchOrder`), `none` for comment / URI lines -/
def Line.kind : Line → Option String
  | .version _ => some "ExtXVersion"
  | .inf _ => some "ExtInf"
  | .byteRange _ => some "ExtXByteRange"
  | .discontinuity => some "ExtXDiscontinuity"
  | .key _ => some "ExtXKey"
  | .map _ => some "ExtXMap"
  | .programDateTime _ => some "ExtXProgramDateTime"
  | .dateRange _ => some "ExtXDateRange"
  | .targetDuration _ => some "ExtXTargetDuration"
  | .mediaSequence _ => some "ExtXMediaSequence"
  | .discontinuitySequence _ => some "ExtXDiscontinuitySequence"
  | .endList => some "ExtXEndList"
  | .playlistType _ => some "PlaylistType"
  | .iFramesOnly => some "ExtXIFramesOnly"
  | .media _ => some "ExtXMedia"
  | .sessionData _ => some "ExtXSessionData"
  | .sessionKey _ => some "ExtXSessionKey"
  | .independentSegments => some "ExtXIndependentSegments"
  | .start _ => some "ExtXStart"
  | .variant _ => some "VariantStream"
  | .unknown _ => some "Unknown"
  | .comment _ => none
  | .uri _ => none

/-- the parser behind each arm of `Tag::try_from`, by `Tag` variant name -/
def tagParsers : List (String × (Str → Res Line)) := [
  ("ExtXVersion", fun s => (ExtXVersion.parse s).map .version),
  ("ExtInf", fun s => (ExtInf.parse s).map .inf),
  ("ExtXByteRange", fun s => (ExtXByteRange.parse s).map .byteRange),
  ("ExtXDiscontinuitySequence", fun s => (ExtXDiscontinuitySequence.parse s).map .discontinuitySequence),
  ("ExtXDiscontinuity", fun s => (ExtXDiscontinuity.parse s).map fun _ => .discontinuity),
  ("ExtXKey", fun s => (ExtXKey.parse s).map .key),
  ("ExtXMap", fun s => (ExtXMap.parse s).map .map),
  ("ExtXProgramDateTime", fun s => (ExtXProgramDateTime.parse s).map .programDateTime),
  ("ExtXTargetDuration", fun s => (ExtXTargetDuration.parse s).map .targetDuration),
  ("ExtXDateRange", fun s => (ExtXDateRange.parse s).map .dateRange),
  ("ExtXMediaSequence", fun s => (ExtXMediaSequence.parse s).map .mediaSequence),
  ("ExtXEndList", fun s => (flagTag.parse pfxEndList s).map fun _ => .endList),
  ("PlaylistType", fun s => (PlaylistType.parse s).map .playlistType),
  ("ExtXIFramesOnly", fun s => (flagTag.parse pfxIFramesOnly s).map fun _ => .iFramesOnly),
  ("ExtXMedia", fun s => (ExtXMedia.parse s).map .media),
  ("VariantStream", fun s => (VariantStream.parse s).map .variant),
  ("ExtXSessionData", fun s => (ExtXSessionData.parse s).map .sessionData),
  ("ExtXSessionKey", fun s => (ExtXSessionKey.parse s).map .sessionKey),
  ("ExtXIndependentSegments", fun s => (flagTag.parse pfxIndependentSegments s).map fun _ => .independentSegments),
  ("ExtXStart", fun s => (ExtXStart.parse s).map .start)]

def lookupParser (kind : String) : List (String × (Str → Res Line)) → Option (Str → Res Line)
  | [] => none
  | (k, p) :: rest => if k == kind then some p else lookupParser kind rest

def tagParser (kind : String) (s : Str) : Res Line :=
  match lookupParser kind tagParsers with
  | some p => p s
  | none => .err

/-- one test of the chain: `input == PREFIX` for the tags without a value (after the `fix:` that
stopped look-alikes such as `#EXT-X-ENDLISTX` from being taken for the tag), `starts_with` otherwise -/
def armMatches (exact : Bool) (pfx : String) (s : Str) : Bool :=
  if exact then s == pfx.toList else startsWith s pfx.toList

/-- `Tag::try_from`: first matching arm in source order, else `Unknown` -/
def dispatchIn : List (String × String × Bool) → Str → Res Line
  | [], s => .ok (.unknown s)
  | (kind, pfx, exact) :: rest, s => if armMatches exact pfx s then tagParser kind s else dispatchIn rest s

def dispatch (s : Str) : Res Line := dispatchIn Generated.dispatchOrder s

/-- `Lines::from`: `str::lines`, trim each, drop the empty ones -/
def rawLines (s : Str) : List Str :=
  (lines s).filterMap fun l => let t := trim l; if t.isEmpty then none else some t

def classify1 (l : Str) : Res Line :=
  if startsWith l "#EXT".toList then dispatch l
  else if startsWith l ['#'] then .ok (.comment l)
  else .ok (.uri l)

/-- all items of the `Lines` iterator. A `#EXT-X-STREAM-INF` line consumes the next line as its
URI; when there is none the iterator yields an error item (after the `fix:`; it used to end). -/
def items : List Str → List (Res Line)
  | [] => []
  | [l] => if startsWith l Generated.streamInfPrefix.toList then [.err] else [classify1 l]
  | l :: u :: rest =>
    if startsWith l Generated.streamInfPrefix.toList then
      (VariantStream.parse (l ++ ['\n'] ++ u)).map .variant :: items rest
    else classify1 l :: items (u :: rest)
termination_by l => l.length

def lineItems (s : Str) : List (Res Line) := items (rawLines s)

end Hls
