import Hls.Model.Tags
import Hls.Generated.Dispatch
/-!
# L1 — line classification (`src/line.rs`): `Lines::next`, `Tag::try_from`
-/
namespace Hls

/-- a classified line (`Line` with `Tag` flattened) -/
inductive Line where
  | version (v : ProtocolVersion)
  | inf (t : ExtInf)
  | byteRange (r : ByteRange)
  | discontinuity
  | key (k : ExtXKey)
  | map (m : ExtXMap)
  | programDateTime (t : ExtXProgramDateTime)
  | dateRange (t : ExtXDateRange)
  | targetDuration (ns : Nat)
  | mediaSequence (n : Nat)
  | discontinuitySequence (n : Nat)
  | endList
  | playlistType (p : PlaylistType)
  | iFramesOnly
  | media (m : ExtXMedia)
  | sessionData (d : ExtXSessionData)
  | sessionKey (k : DecryptionKey)
  | independentSegments
  | start (s : ExtXStart)
  | variant (v : VariantStream)
  | unknown (s : Str)
  | comment (s : Str)
  | uri (s : Str)
deriving Repr, DecidableEq

/-- name of the `Tag` variant (as in `Generated.dispatchOrder`), `none` for comment / URI lines -/
def Line.kind : Line → Option String
  | .version _ => some "ExtXVersion"
  | .inf _ => some "ExtInf"
  | .byteRange _ => some "ExtXByteRange"
  | .discontinuity => some "ExtXDiscontinuity"
  | .key _ => some "ExtXKey"
  | .map _ => some "ExtXMap"
  | .programDateTime _ => some "ExtXProgramDateTime"
  | .dateRange _ => some "ExtXDateRange"
  | .targetDuration _ => some "ExtXTargetDuration"
  | .mediaSequence _ => some "ExtXMediaSequence"
  | .discontinuitySequence _ => some "ExtXDiscontinuitySequence"
  | .endList => some "ExtXEndList"
  | .playlistType _ => some "PlaylistType"
  | .iFramesOnly => some "ExtXIFramesOnly"
  | .media _ => some "ExtXMedia"
  | .sessionData _ => some "ExtXSessionData"
  | .sessionKey _ => some "ExtXSessionKey"
  | .independentSegments => some "ExtXIndependentSegments"
  | .start _ => some "ExtXStart"
  | .variant _ => some "VariantStream"
  | .unknown _ => some "Unknown"
  | .comment _ => none
  | .uri _ => none

/-- the parser behind each arm of `Tag::try_from` -/
def tagParser (kind : String) (s : Str) : Res Line :=
  if kind == "ExtXVersion" then (ExtXVersion.parse s).map .version
  else if kind == "ExtInf" then (ExtInf.parse s).map .inf
  else if kind == "ExtXByteRange" then (ExtXByteRange.parse s).map .byteRange
  else if kind == "ExtXDiscontinuitySequence" then (ExtXDiscontinuitySequence.parse s).map .discontinuitySequence
  else if kind == "ExtXDiscontinuity" then (ExtXDiscontinuity.parse s).map fun _ => .discontinuity
  else if kind == "ExtXKey" then (ExtXKey.parse s).map .key
  else if kind == "ExtXMap" then (ExtXMap.parse s).map .map
  else if kind == "ExtXProgramDateTime" then (ExtXProgramDateTime.parse s).map .programDateTime
  else if kind == "ExtXTargetDuration" then (ExtXTargetDuration.parse s).map .targetDuration
  else if kind == "ExtXDateRange" then (ExtXDateRange.parse s).map .dateRange
  else if kind == "ExtXMediaSequence" then (ExtXMediaSequence.parse s).map .mediaSequence
  else if kind == "ExtXEndList" then (flagTag.parse pfxEndList s).map fun _ => .endList
  else if kind == "PlaylistType" then (PlaylistType.parse s).map .playlistType
  else if kind == "ExtXIFramesOnly" then (flagTag.parse pfxIFramesOnly s).map fun _ => .iFramesOnly
  else if kind == "ExtXMedia" then (ExtXMedia.parse s).map .media
  else if kind == "VariantStream" then (VariantStream.parse s).map .variant
  else if kind == "ExtXSessionData" then (ExtXSessionData.parse s).map .sessionData
  else if kind == "ExtXSessionKey" then (ExtXSessionKey.parse s).map .sessionKey
  else if kind == "ExtXIndependentSegments" then (flagTag.parse pfxIndependentSegments s).map fun _ => .independentSegments
  else if kind == "ExtXStart" then (ExtXStart.parse s).map .start
  else .err

/-- `Tag::try_from`: first matching prefix in source order, else `Unknown` -/
def dispatchIn : List (String × String) → Str → Res Line
  | [], s => .ok (.unknown s)
  | (kind, pfx) :: rest, s => if startsWith s pfx.toList then tagParser kind s else dispatchIn rest s

def dispatch (s : Str) : Res Line := dispatchIn Generated.dispatchOrder s

/-- `Lines::from`: `str::lines`, trim each, drop the empty ones -/
def rawLines (s : Str) : List Str :=
  (lines s).filterMap fun l => let t := trim l; if t.isEmpty then none else some t

def classify1 (l : Str) : Res Line :=
  if startsWith l "#EXT".toList then dispatch l
  else if startsWith l ['#'] then .ok (.comment l)
  else .ok (.uri l)

/-- all items of the `Lines` iterator. A `#EXT-X-STREAM-INF` line consumes the next line as its
URI; when there is none the iterator yields an error item (after the `fix:`; it used to end). -/
def items : List Str → List (Res Line)
  | [] => []
  | [l] => if startsWith l Generated.streamInfPrefix.toList then [.err] else [classify1 l]
  | l :: u :: rest =>
    if startsWith l Generated.streamInfPrefix.toList then
      (VariantStream.parse (l ++ ['\n'] ++ u)).map .variant :: items rest
    else classify1 l :: items (u :: rest)
termination_by l => l.length

def lineItems (s : Str) : List (Res Line) := items (rawLines s)

end Hls
