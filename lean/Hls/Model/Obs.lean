import Hls.Model.Media
import Hls.Model.Master
/-!
# Observation printers (PROTOCOL.md) — the canonical rendering both runners must agree on
-/
namespace Hls.Obs
open Hls

def hexNibble (n : Nat) : Char := hexChar false n

def hexOfBytes (bs : ByteArray) : String :=
  String.ofList (bs.toList.flatMap fun b => [hexNibble (b.toNat / 16), hexNibble (b.toNat % 16)])

def hexOfStr (s : Str) : String := hexOfBytes (String.ofList s).toUTF8

def str (s : Str) : String := "s" ++ hexOfStr s
def opt {α} (f : α → String) : Option α → String
  | some a => f a
  | none => "-"
def bool (b : Bool) : String := if b then "1" else "0"
def nat (n : Nat) : String := toString n
def list {α} (f : α → String) (l : List α) : String := "[" ++ ",".intercalate (l.map f) ++ "]"

def hexFixed (digits : Nat) (n : Nat) : String :=
  String.ofList ((List.range digits).reverse.map fun i => hexNibble (n / 16 ^ i % 16))

def f32 (f : Float32) : String := "f" ++ hexFixed 8 f.bits

def byterange (r : ByteRange) : String := "r" ++ opt nat r.start ++ ":" ++ nat r.end_
def channels (c : Channels) : String := "c" ++ nat c.number ++ "/" ++ bool c.has_joc_content
def cc : ClosedCaptions → String
  | .none => "ccN"
  | .groupId g => "ccG" ++ str g
def codecs (c : Codecs) : String := list str c.list
def method : EncryptionMethod → String
  | .aes128 => "aes"
  | .sampleAes => "saes"
def hdcp : HdcpLevel → String
  | .type0 => "t0"
  | .none => "none"
def mtype : MediaType → String
  | .audio => "audio" | .video => "video" | .subtitles => "subs" | .closedCaptions => "cc"
def instream (i : InStreamId) : String := String.ofList i.variant
def iv : InitializationVector → String
  | .aes128 v => "ivA" ++ hexFixed 32 v
  | .number n => "ivN" ++ nat n
  | .missing => "ivM"
def keyformat : KeyFormat → String
  | .identity => "kfI" | .fairPlay => "kfF" | .widevine => "kfW" | .playReady => "kfP"
  | .other s => "kfO" ++ str s
def versions (v : KeyFormatVersions) : String := "v" ++ list nat v.items
def deckey (k : DecryptionKey) : String :=
  "{" ++ method k.method ++ ";" ++ str k.uri ++ ";" ++ iv k.iv ++ ";" ++ opt keyformat k.format ++ ";"
  ++ opt versions k.versions ++ "}"
def xkey : ExtXKey → String
  | none => "K0"
  | some k => "K" ++ deckey k
def ptype (p : PlaylistType) : String := String.ofList p.name
def resolution (r : Resolution) : String := nat r.width ++ "x" ++ nat r.height
def streamdata (d : StreamData) : String :=
  "{" ++ nat d.bandwidth ++ ";" ++ opt nat d.average_bandwidth ++ ";" ++ opt codecs d.codecs ++ ";"
  ++ opt resolution d.resolution ++ ";" ++ opt hdcp d.hdcp_level ++ ";" ++ opt str d.video ++ "}"
def value : Value → String
  | .string s => "vS" ++ hexOfStr s
  | .hex bs => "vH" ++ String.ofList (hexEncode false bs)
  | .float f => "vF" ++ hexFixed 8 f.bits
def start (s : ExtXStart) : String := "{" ++ f32 s.time_offset ++ ";" ++ bool s.is_precise ++ "}"
def extinf (t : ExtInf) : String := "{" ++ nat t.duration ++ ";" ++ opt str t.title ++ "}"
def map (m : ExtXMap) : String := "{" ++ str m.uri ++ ";" ++ opt byterange m.range ++ ";" ++ list xkey m.keys ++ "}"
def pdt (t : ExtXProgramDateTime) : String := str t.date_time
def daterange (t : ExtXDateRange) : String :=
  "{" ++ str t.id ++ ";" ++ opt str t.«class» ++ ";" ++ opt str t.start_date ++ ";" ++ opt str t.end_date ++ ";"
  ++ opt nat t.duration ++ ";" ++ opt nat t.planned_duration ++ ";" ++ opt str t.scte35_cmd ++ ";"
  ++ opt str t.scte35_out ++ ";" ++ opt str t.scte35_in ++ ";" ++ bool t.end_on_next ++ ";"
  ++ list (fun kv => str kv.1 ++ "=" ++ value kv.2) t.client_attributes ++ "}"
def xmedia (m : ExtXMedia) : String :=
  "{" ++ mtype m.media_type ++ ";" ++ opt str m.uri ++ ";" ++ str m.group_id ++ ";" ++ opt str m.language ++ ";"
  ++ opt str m.assoc_language ++ ";" ++ str m.name ++ ";" ++ bool m.is_default ++ ";" ++ bool m.is_autoselect ++ ";"
  ++ bool m.is_forced ++ ";" ++ opt instream m.instream_id ++ ";" ++ opt str m.characteristics ++ ";"
  ++ opt channels m.channels ++ "}"
def sessiondata (d : ExtXSessionData) : String :=
  "{" ++ str d.data_id ++ ";" ++ (match d.data with
    | .value v => "V" ++ str v
    | .uri v => "U" ++ str v) ++ ";" ++ opt str d.language ++ "}"
def variant : VariantStream → String
  | .extXIFrame uri d => "I{" ++ str uri ++ ";" ++ streamdata d ++ "}"
  | .extXStreamInf uri fr au su c d =>
    "S{" ++ str uri ++ ";" ++ opt f32 fr ++ ";" ++ opt str au ++ ";" ++ opt str su ++ ";" ++ opt cc c ++ ";"
    ++ streamdata d ++ "}"
def segment (s : MediaSegment) : String :=
  "{" ++ nat s.number ++ ";" ++ bool s.explicit_number ++ ";" ++ list xkey s.keys ++ ";" ++ opt map s.map ++ ";"
  ++ opt byterange s.byte_range ++ ";" ++ opt daterange s.date_range ++ ";" ++ bool s.has_discontinuity ++ ";"
  ++ opt pdt s.program_date_time ++ ";" ++ extinf s.duration ++ ";" ++ str s.uri ++ "}"
def media (p : MediaPlaylist) : String :=
  "M{" ++ nat p.target_duration ++ ";" ++ nat p.media_sequence ++ ";" ++ nat p.discontinuity_sequence ++ ";"
  ++ opt ptype p.playlist_type ++ ";" ++ bool p.has_i_frames_only ++ ";" ++ bool p.has_independent_segments ++ ";"
  ++ opt start p.start ++ ";" ++ bool p.has_end_list ++ ";" ++ nat p.allowable_excess_duration ++ ";"
  ++ list str p.unknown ++ ";" ++ list segment p.segments ++ "}"
def master (p : MasterPlaylist) : String :=
  "P{" ++ bool p.has_independent_segments ++ ";" ++ opt start p.start ++ ";" ++ list xmedia p.media ++ ";"
  ++ list variant p.variant_streams ++ ";" ++ list sessiondata p.session_data ++ ";"
  ++ list deckey p.session_keys ++ ";" ++ list str p.unknown_tags ++ "}"

def lineItem : Res Line → String
  | .err => "E"
  | .panic => "PANIC"
  | .ok l =>
    match l with
    | .version v => "Ver:" ++ nat v
    | .inf t => "Inf:" ++ extinf t
    | .byteRange r => "Br:" ++ byterange r
    | .discontinuity => "Disc"
    | .key k => "Key:" ++ xkey k
    | .map m => "Map:" ++ map m
    | .programDateTime t => "Pdt:" ++ pdt t
    | .dateRange t => "Dr:" ++ daterange t
    | .targetDuration d => "Td:" ++ nat d
    | .mediaSequence n => "Ms:" ++ nat n
    | .discontinuitySequence n => "Ds:" ++ nat n
    | .endList => "End"
    | .playlistType p => "Pt:" ++ ptype p
    | .iFramesOnly => "Ifo"
    | .media m => "Med:" ++ xmedia m
    | .sessionData d => "Sd:" ++ sessiondata d
    | .sessionKey k => "Sk:" ++ deckey k
    | .independentSegments => "Ind"
    | .start s => "St:" ++ start s
    | .variant v => "Vs:" ++ variant v
    | .unknown s => "Unk:" ++ str s
    | .comment s => "Com:" ++ str s
    | .uri s => "Uri:" ++ str s

/-- positions of the non-marker keys -/
def keyIdx (ks : List ExtXKey) : List Nat :=
  let rec go : List ExtXKey → Nat → List Nat
    | [], _ => []
    | k :: rest, i => if k.isSome then i :: go rest (i + 1) else go rest (i + 1)
  go ks 0

def dField (p : MediaPlaylist) : String :=
  "D:" ++ list (fun (s : MediaSegment) => list nat (keyIdx s.keys) ++ "/" ++
    (match s.map with
     | some m => list nat (keyIdx m.keys)
     | none => "-")) p.segments

def aField (p : MasterPlaylist) : String :=
  "A:" ++ list (fun v => list nat (p.associatedWith v)) p.variant_streams

def sField (p : MasterPlaylist) : String :=
  "S:" ++ list nat p.audioStreams ++ "/" ++ list nat p.videoStreams ++ "/" ++ list nat p.unassociatedStreams

end Hls.Obs
