import Hls.Model.Basic
/-!
# L0 — exact binary32/binary64 emulation with `Nat` arithmetic

Models what the library delegates to `core`: `f32::from_str`, `f64::from_str`, `Display` for floats
(shortest round-trip digits, plain notation), `{:.3}`, `Duration::try_from_secs_f64`,
`Duration::as_secs_f64`. All values are exact rationals `m * 2^e`; rounding is nearest-even.
-/
namespace Hls

/-- binary format: precision `p`, minimum exponent of the unit in the last place, maximum one -/
structure Fmt where
  p : Nat
  emin : Int
  emax : Int

def fmt64 : Fmt := ⟨53, -1074, 971⟩
def fmt32 : Fmt := ⟨24, -149, 104⟩

/-- a float value: finite `(-1)^neg * m * 2^e`, infinity, or NaN -/
inductive FV where
  | fin (neg : Bool) (m : Nat) (e : Int)
  | inf (neg : Bool)
  | nan
deriving Repr, DecidableEq

def divRoundEven (n d : Nat) : Nat :=
  let q := n / d; let r := n % d
  if 2 * r < d then q else if 2 * r > d then q + 1 else if q % 2 == 0 then q else q + 1

def scaledRound (n d : Nat) (e : Int) : Nat :=
  if e ≥ 0 then divRoundEven n (d <<< e.toNat) else divRoundEven (n <<< (-e).toNat) d
def scaledFloor (n d : Nat) (e : Int) : Nat :=
  if e ≥ 0 then n / (d <<< e.toNat) else (n <<< (-e).toNat) / d

/-- nearest-even rounding of the positive rational `n/d` into format `f` (magnitude only) -/
def roundRat (f : Fmt) (neg : Bool) (n d : Nat) : FV :=
  if n == 0 then .fin neg 0 f.emin else
  let e0 : Int := (Int.ofNat n.log2) - (Int.ofNat d.log2) - (Int.ofNat f.p)
  let pick (e : Int) : Int :=
    if scaledFloor n d e < 2 ^ f.p then e else if scaledFloor n d (e+1) < 2 ^ f.p then e + 1 else e + 2
  let e1 := pick e0
  let e := if e1 < f.emin then f.emin else e1
  let m := scaledRound n d e
  let (m, e) := if m == 2 ^ f.p then (2 ^ (f.p - 1), e + 1) else (m, e)
  if e > f.emax then .inf neg else if m == 0 then .fin neg 0 f.emin else .fin neg m e

def numDigits (n : Nat) : Nat := (showNat n).length

/-- decimal `D * 10^x` to float, with early exits so that absurd exponents cost nothing -/
def ofDec (f : Fmt) (neg : Bool) (D : Nat) (x : Int) : FV :=
  if D == 0 then .fin neg 0 f.emin
  else if x + Int.ofNat (numDigits D) > 400 then .inf neg
  else if x + Int.ofNat (numDigits D) < -400 then .fin neg 0 f.emin
  else if x ≥ 0 then roundRat f neg (D * 10 ^ x.toNat) 1 else roundRat f neg D (10 ^ (-x).toNat)

/-- a parsed decimal literal -/
inductive DecLit where
  | num (neg : Bool) (D : Nat) (x : Int)
  | inf (neg : Bool)
  | nan
deriving Repr, DecidableEq

def lowerStr (s : Str) : Str := s.map asciiLower

/-- the grammar of `f32::from_str` / `f64::from_str` after the optional sign -/
def parseFloatBody (neg : Bool) (r : Str) : Option DecLit :=
  if r.isEmpty then none else
  let ip := r.takeWhile isDigit
  let r1 := r.dropWhile isDigit
  let (fp, r2) := match r1 with
    | '.' :: t => (t.takeWhile isDigit, t.dropWhile isDigit)
    | _ => ([], r1)
  if ip.isEmpty && fp.isEmpty then
    let l := lowerStr r
    if l == "nan".toList then some .nan
    else if l == "inf".toList || l == "infinity".toList then some (.inf neg)
    else none
  else
    let D := digitsToNat (ip ++ fp)
    let fl : Int := Int.ofNat fp.length
    match r2 with
    | [] => some (.num neg D (- fl))
    | c :: t =>
      if c == 'e' || c == 'E' then
        let (eneg, ds) := match t with
          | '-' :: ds => (true, ds)
          | '+' :: ds => (false, ds)
          | _ => (false, t)
        if ds.isEmpty || !ds.all isDigit then none
        else
          let ex : Int := Int.ofNat (digitsToNat ds)
          some (.num neg D ((if eneg then - ex else ex) - fl))
      else none

/-- the grammar of `f32::from_str` / `f64::from_str` -/
def parseFloatLit (s : Str) : Option DecLit :=
  match s with
  | '-' :: r => parseFloatBody true r
  | '+' :: r => parseFloatBody false r
  | _ => parseFloatBody false s

def parseFloat (f : Fmt) (s : Str) : Option FV :=
  match parseFloatLit s with
  | none => none
  | some (.num neg D x) => some (ofDec f neg D x)
  | some (.inf neg) => some (.inf neg)
  | some .nan => some .nan

/-- exact rational of a finite magnitude -/
def toRat (m : Nat) (e : Int) : Nat × Nat :=
  if e ≥ 0 then (m <<< e.toNat, 1) else (m, 1 <<< (-e).toNat)

/-! ## binary32 bit patterns -/

def f32Bits : FV → Nat
  | .fin neg m e =>
    let s := if neg then 2 ^ 31 else 0
    if m == 0 then s
    else if m < 2 ^ 23 then s + m
    else s + ((e + 150).toNat) * 2 ^ 23 + (m - 2 ^ 23)
  | .inf neg => (if neg then 2 ^ 31 else 0) + 0x7f800000
  | .nan => 0x7fc00000

def f32OfBits (b : Nat) : FV :=
  let neg := b / 2 ^ 31 % 2 == 1
  let ex := b / 2 ^ 23 % 256
  let fr := b % 2 ^ 23
  if ex == 255 then (if fr == 0 then .inf neg else .nan)
  else if ex == 0 then (if fr == 0 then .fin neg 0 (-149) else .fin neg fr (-149))
  else .fin neg (fr + 2 ^ 23) (Int.ofNat ex - 150)

/-! ## `Duration` ↔ `f64` -/

/-- `Duration::try_from_secs_f64` on a finite magnitude: total nanoseconds (round half even),
`none` when the value does not fit (`secs ≥ 2^64`). -/
def toNanos (m : Nat) (e : Int) : Option Nat :=
  let (n, d) := toRat m e
  if n / d ≥ 2 ^ 64 then none else some (divRoundEven (n * 1000000000) d)

/-- `Duration::as_secs_f64`: `(secs as f64) + (nanos as f64) / 1e9`, three roundings -/
def asSecsF64 (ns : Nat) : FV :=
  let secs := ns / 1000000000; let sub := ns % 1000000000
  match roundRat fmt64 false secs 1, roundRat fmt64 false sub 1000000000 with
  | .fin _ m1 e1, .fin _ m2 e2 =>
    let (n1, d1) := toRat m1 e1; let (n2, d2) := toRat m2 e2
    roundRat fmt64 false (n1 * d2 + n2 * d1) (d1 * d2)
  | _, _ => .inf false

/-! ## Printing -/

def shortestGo (n d : Nat) : Nat → Nat → Nat
  | j, 0 => j
  | j, fuel + 1 => if n * 10 ^ j / d ≥ 1 then j else shortestGo n d (j + 1) fuel

/-- drop trailing zeros of the digit string `c`, adjusting the decimal exponent -/
def stripZeros : Nat → Int → Nat → Nat × Int
  | c, sx, 0 => (c, sx)
  | c, sx, fuel + 1 => if c != 0 && c % 10 == 0 then stripZeros (c / 10) (sx + 1) fuel else (c, sx)

/-- does the digit string `c · 10^sx` (as it will be printed, without trailing zeros) read back as `m · 2^e`? -/
def readsBack (f : Fmt) (m : Nat) (e : Int) (c : Nat) (sx : Int) : Bool :=
  let p := stripZeros c sx 40
  ofDec f false p.1 p.2 == .fin false m e

/-- one step of the search: the two neighbours `lo ≤ num/den ≤ hi` of the exact value at this number of
digits; if one of them reads back as the same float it is the answer (the closer one when both do) -/
def pickDigits (f : Fmt) (m : Nat) (e : Int) (num den : Nat) (sx : Int) : Option (Nat × Int) :=
  let lo := num / den
  let hi := if num % den == 0 then lo else lo + 1
  match readsBack f m e lo sx, readsBack f m e hi sx with
  | true, true => some (stripZeros (if 2 * (num % den) ≥ den then hi else lo) sx 40)
  | true, false => some (stripZeros lo sx 40)
  | false, true => some (stripZeros hi sx 40)
  | false, false => none

/-- the search that DEFINES shortest round-trip printing: for 1, 2, 3, … significant digits try
`pickDigits`; the first length that succeeds wins. `(0, 0)` when the fuel runs out. -/
def shortestTry (f : Fmt) (m : Nat) (e : Int) (n d : Nat) (k : Int) : Nat → Nat → Nat × Int
  | _, 0 => (0, 0)
  | nd, fuel + 1 =>
    let sx : Int := k - Int.ofNat nd
    let q : Nat × Nat := if sx ≥ 0 then (n, d * 10 ^ sx.toNat) else (n * 10 ^ (-sx).toNat, d)
    match pickDigits f m e q.1 q.2 sx with
    | some r => r
    | none => shortestTry f m e n d k (nd + 1) fuel

/-- shortest round-trip digits of a finite non-zero magnitude: `(digits, exp10)` -/
def shortest (f : Fmt) (m : Nat) (e : Int) : Nat × Int :=
  if m == 0 then (0, 0) else
  let (n, d) := toRat m e
  let ip := n / d
  let k : Int := if ip > 0 then Int.ofNat (numDigits ip) else 1 - Int.ofNat (shortestGo n d 1 400)
  shortestTry f m e n d k 1 20

/-- Rust `Display` for a float: plain decimal notation, shortest round-trip digits -/
def displayFV (f : Fmt) : FV → Str
  | .nan => "NaN".toList
  | .inf neg => (if neg then ['-'] else []) ++ "inf".toList
  | .fin neg m e =>
    let sgn : Str := if neg then ['-'] else []
    let (c, sx) := shortest f m e
    if c == 0 then sgn ++ ['0'] else
    let ds := showNat c
    if sx ≥ 0 then sgn ++ ds ++ List.replicate sx.toNat '0'
    else
      let fr := (-sx).toNat
      if ds.length > fr then sgn ++ ds.take (ds.length - fr) ++ ['.'] ++ ds.drop (ds.length - fr)
      else sgn ++ "0.".toList ++ List.replicate (fr - ds.length) '0' ++ ds

/-- `{:.3}`: the exact value rounded half-even to three decimals -/
def display3 : FV → Str
  | .nan => "NaN".toList
  | .inf neg => (if neg then ['-'] else []) ++ "inf".toList
  | .fin neg m e =>
    let (n, d) := toRat m e
    let N := divRoundEven (n * 1000) d
    let fr := showNat (N % 1000)
    (if neg then ['-'] else []) ++ showNat (N / 1000) ++ ['.'] ++ List.replicate (3 - fr.length) '0' ++ fr

/-- text of a duration written through `as_secs_f64` -/
def showSecs (ns : Nat) : Str := displayFV fmt64 (asSecsF64 ns)

/-- decimal seconds text → `Duration` (nanoseconds): `f64::from_str` then
`Duration::try_from_secs_f64` (negative, NaN, infinite, too large ⇒ error). -/
def parseSecs (s : Str) : Res Nat :=
  match parseFloat fmt64 s with
  | none => .err
  | some (.fin neg m e) =>
    if neg && m != 0 then .err
    else match toNanos m e with
      | some n => .ok n
      | none => .err
  | some _ => .err

end Hls
