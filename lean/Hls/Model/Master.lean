import Hls.Model.Line
/-!
# L2 — master playlists (`src/master_playlist.rs`)
-/
namespace Hls

structure MasterPlaylist where
  has_independent_segments : Bool
  start : Option ExtXStart
  media : List ExtXMedia
  variant_streams : List VariantStream
  session_data : List ExtXSessionData
  session_keys : List DecryptionKey
  unknown_tags : List Str
deriving Repr, DecidableEq

structure MasterPlaylistBuilder where
  has_independent_segments : Option Bool := none
  start : Option (Option ExtXStart) := none
  media : Option (List ExtXMedia) := none
  variant_streams : Option (List VariantStream) := none
  session_data : Option (List ExtXSessionData) := none
  session_keys : Option (List DecryptionKey) := none
  unknown_tags : Option (List Str) := none
deriving Repr, DecidableEq

/-- `check_media_group` -/
def checkMediaGroup (media : Option (List ExtXMedia)) (t : MediaType) (g : Str) : Bool :=
  match media with
  | some ms => ms.any fun m => m.media_type == t && m.group_id == g
  | none => false

def optGroupOk (media : Option (List ExtXMedia)) (t : MediaType) : Option Str → Bool
  | some g => checkMediaGroup media t g
  | none => true

/-- state of the closed-captions flags: (`NONE` seen, group reference seen) -/
abbrev CcFlags := Bool × Bool

/-- one iteration of `validate_variants` (after the `fix:` that makes the NONE / group conflict
independent of the order of the variants): `none` = rejected -/
def validateVariantStep (media : Option (List ExtXMedia)) (fl : CcFlags) : VariantStream → Option CcFlags
  | .extXStreamInf _ _ au su cc d =>
    if !optGroupOk media .audio au then none
    else if !optGroupOk media .video d.video then none
    else if !optGroupOk media .subtitles su then none
    else match cc with
      | some (.groupId g) =>
        if fl.1 then none
        else if !checkMediaGroup media .closedCaptions g then none
        else some (fl.1, true)
      | some .none => if fl.2 then none else some (true, fl.2)
      | none => some fl
  | .extXIFrame _ d =>
    if !optGroupOk media .video d.video then none else some fl

def validateVariants (media : Option (List ExtXMedia)) : CcFlags → List VariantStream → Bool
  | _, [] => true
  | fl, v :: vs =>
    match validateVariantStep media fl v with
    | some fl' => validateVariants media fl' vs
    | none => false

/-- `validate_session_data_tags`: `(DATA-ID, LANGUAGE)` pairwise distinct -/
def validateSessionData : List (Str × Option Str) → List ExtXSessionData → Bool
  | _, [] => true
  | seen, d :: ds =>
    if seen.contains (d.data_id, d.language) then false
    else validateSessionData ((d.data_id, d.language) :: seen) ds

def MasterPlaylistBuilder.validate (b : MasterPlaylistBuilder) : Bool :=
  (match b.variant_streams with
   | some vs => validateVariants b.media (false, false) vs
   | none => true)
  && validateSessionData [] (b.session_data.getD [])

def MasterPlaylistBuilder.build (b : MasterPlaylistBuilder) : Res MasterPlaylist :=
  if !b.validate then .err
  else .ok ⟨b.has_independent_segments.getD false, b.start.getD none, b.media.getD [],
            b.variant_streams.getD [], b.session_data.getD [], b.session_keys.getD [], b.unknown_tags.getD []⟩

structure MState where
  builder : MasterPlaylistBuilder := {}
  media : List ExtXMedia := []
  variant_streams : List VariantStream := []
  session_data : List ExtXSessionData := []
  session_keys : List DecryptionKey := []
  unknown_tags : List Str := []
deriving Repr, DecidableEq

def masterStep (st : MState) : Line → Res MState
  | .version _ => .ok st
  | .inf _ => .err
  | .byteRange _ => .err
  | .discontinuity => .err
  | .key _ => .err
  | .map _ => .err
  | .programDateTime _ => .err
  | .dateRange _ => .err
  | .targetDuration _ => .err
  | .mediaSequence _ => .err
  | .discontinuitySequence _ => .err
  | .endList => .err
  | .playlistType _ => .err
  | .iFramesOnly => .err
  | .media m => .ok { st with media := st.media ++ [m] }
  | .variant v => .ok { st with variant_streams := st.variant_streams ++ [v] }
  | .sessionData d => .ok { st with session_data := st.session_data ++ [d] }
  | .sessionKey k => .ok { st with session_keys := st.session_keys ++ [k] }
  | .independentSegments => .ok { st with builder := { st.builder with has_independent_segments := some true } }
  | .start s => .ok { st with builder := { st.builder with start := some (some s) } }
  | .unknown s => .ok { st with unknown_tags := st.unknown_tags ++ [s] }
  | .uri _ => .err
  | .comment _ => .ok st

def masterFinish (st : MState) : Res MasterPlaylist :=
  ({ st.builder with media := some st.media, variant_streams := some st.variant_streams,
                     session_data := some st.session_data, session_keys := some st.session_keys,
                     unknown_tags := some st.unknown_tags } : MasterPlaylistBuilder).build

def assembleMaster (ls : List Line) : Res MasterPlaylist :=
  match foldRes masterStep {} ls with
  | .ok st => masterFinish st
  | .err => .err
  | .panic => .panic

/-- `MasterPlaylist::try_from(&str)` -/
def parseMaster (input : Str) : Res MasterPlaylist :=
  match stripTag input pfxM3u with
  | .ok rest =>
    match foldRes (liftItem masterStep) {} (lineItems rest) with
    | .ok st => masterFinish st
    | .err => .err
    | .panic => .panic
  | .err => .err
  | .panic => .panic

def MasterPlaylist.requiredVersion (p : MasterPlaylist) : Nat :=
  maxVersion [1, 1, maxVersion (p.media.map ExtXMedia.requiredVersion), 1, 1,
    maxVersion (p.session_keys.map DecryptionKey.requiredVersion)]

/-- `Display for MasterPlaylist` as typed lines (everything after the `#EXTM3U` line) -/
def MasterPlaylist.writeLines (p : MasterPlaylist) : List Line :=
  (if p.requiredVersion != 1 then [Line.version p.requiredVersion] else [])
  ++ p.media.map Line.media
  ++ p.variant_streams.map Line.variant
  ++ p.session_data.map Line.sessionData
  ++ p.session_keys.map Line.sessionKey
  ++ (if p.has_independent_segments then [Line.independentSegments] else [])
  ++ (match p.start with
      | some s => [Line.start s]
      | none => [])
  ++ p.unknown_tags.map Line.unknown

/-- `to_string()` -/
def MasterPlaylist.show (p : MasterPlaylist) : Str := pfxM3u ++ ['\n'] ++ renderLines p.writeLines

/-- `associated_with`: indices of the renditions the variant references -/
def MasterPlaylist.associatedWith (p : MasterPlaylist) (v : VariantStream) : List Nat :=
  let rec go : List ExtXMedia → Nat → List Nat
    | [], _ => []
    | m :: ms, i => if v.isAssociated m then i :: go ms (i + 1) else go ms (i + 1)
  go p.media 0

/-- `audio_streams`, `video_streams`, `unassociated_streams` as positions in `variant_streams` -/
def VariantStream.hasAudio : VariantStream → Bool
  | .extXStreamInf _ _ (some _) _ _ _ => true
  | _ => false

def VariantStream.hasVideo (v : VariantStream) : Bool := v.streamData.video.isSome

def VariantStream.isUnassociated : VariantStream → Bool
  | .extXStreamInf _ _ none none none d => d.video.isNone
  | .extXIFrame _ d => d.video.isNone
  | _ => false

def positionsWhere {α} (f : α → Bool) (l : List α) : List Nat :=
  let rec go : List α → Nat → List Nat
    | [], _ => []
    | x :: xs, i => if f x then i :: go xs (i + 1) else go xs (i + 1)
  go l 0

def MasterPlaylist.audioStreams (p : MasterPlaylist) : List Nat := positionsWhere VariantStream.hasAudio p.variant_streams
def MasterPlaylist.videoStreams (p : MasterPlaylist) : List Nat := positionsWhere VariantStream.hasVideo p.variant_streams
def MasterPlaylist.unassociatedStreams (p : MasterPlaylist) : List Nat := positionsWhere VariantStream.isUnassociated p.variant_streams

end Hls
