import Hls.Model.Flt
import Hls.Generated.Enums
/-!
# L1 — attribute value types (`src/types/*.rs`): `parse`, `show`, `requiredVersion`

Each `parse` is written in the shape of the Rust code. Structures use the Rust field names.
-/
namespace Hls

/-! ## generic helpers -/

/-- position of `s` in a table of names -/
def lookupIdx (names : List String) (s : Str) : Option Nat :=
  let rec go : List String → Nat → Option Nat
    | [], _ => none
    | n :: ns, i => if n.toList == s then some i else go ns (i + 1)
  go names 0

def nameAt (names : List String) (i : Nat) : Str := (names.getD i "").toList

/-- `Ordering` of two naturals -/
def cmpNat (a b : Nat) : Ordering := if a < b then .lt else if a == b then .eq else .gt

/-- lexicographic comparison of lists (Rust slice / `str` ordering) -/
def cmpList {α} (c : α → α → Ordering) : List α → List α → Ordering
  | [], [] => .eq
  | [], _ :: _ => .lt
  | _ :: _, [] => .gt
  | x :: xs, y :: ys =>
    match c x y with
    | .eq => cmpList c xs ys
    | o => o

def cmpStr (a b : Str) : Ordering := cmpList (fun x y => cmpNat x.toNat y.toNat) a b

/-- derived `Ord` on `Option`: `None < Some` -/
def cmpOpt {α} (c : α → α → Ordering) : Option α → Option α → Ordering
  | none, none => .eq
  | none, some _ => .lt
  | some _, none => .gt
  | some a, some b => c a b

/-- lexicographic chaining (`derive(Ord)` on a struct) -/
def ordThen (a : Ordering) (b : Unit → Ordering) : Ordering :=
  match a with
  | .eq => b ()
  | o => o

/-! ## ProtocolVersion -/

/-- `ProtocolVersion::V1 … V7` as the number 1 … 7 -/
abbrev ProtocolVersion := Nat

def ProtocolVersion.parse (s : Str) : Res Nat :=
  match lookupIdx Generated.protocolVersionNames (trim s) with
  | some i => .ok (i + 1)
  | none => .err

def ProtocolVersion.show (v : Nat) : Str := nameAt Generated.protocolVersionNames (v - 1)

/-- `required_version![…]`: maximum, `V1` for the empty list -/
def maxVersion (vs : List Nat) : Nat := vs.foldl max 1

/-! ## ByteRange -/

structure ByteRange where
  start : Option Nat
  end_ : Nat
deriving Repr, DecidableEq

def ByteRange.len (r : ByteRange) : Nat := r.end_ - r.start.getD 0

def ByteRange.show (r : ByteRange) : Str :=
  showNat r.len ++ (match r.start with
    | some s => '@' :: showNat s
    | none => [])

/-- `TryFrom<&str>`: `length[@start]`; `end = start + length` must fit in 64 bits
(after the `fix:` replacing the unchecked `+`). -/
def ByteRange.parse (s : Str) : Res ByteRange :=
  let (l, o) := splitN2 '@' s
  match parseNat? 64 l with
  | none => .err
  | some length =>
    match o with
    | none => .ok ⟨none, length⟩
    | some os =>
      match parseNat? 64 os with
      | none => .err
      | some st => if st + length < 2 ^ 64 then .ok ⟨some st, st + length⟩ else .err

/-- `saturating_add` for a range without start (the only case `build` uses) and with start -/
def ByteRange.saturatingAdd (r : ByteRange) (num : Nat) : ByteRange :=
  let max := 2 ^ 64 - 1
  match r.start with
  | some st =>
    if st + num ≤ max ∧ r.end_ + num ≤ max then ⟨some (st + num), r.end_ + num⟩
    else if st + (max - r.end_) ≤ max then ⟨some (st + (max - r.end_)), max⟩
    else r
  | none => ⟨none, min (r.end_ + num) max⟩

/-- `set_start`: panics when the new start exceeds the end -/
def ByteRange.setStart (r : ByteRange) (s : Option Nat) : Res ByteRange :=
  match s with
  | some v => if v > r.end_ then .panic else .ok ⟨some v, r.end_⟩
  | none => .ok ⟨none, r.end_⟩

/-! ## Channels -/

structure Channels where
  number : Nat
  has_joc_content : Bool
deriving Repr, DecidableEq

def Channels.parse (s : Str) : Res Channels :=
  match splitFirst '/' s with
  | none => do
    let n ← parseNat 64 s
    pure ⟨n, false⟩
  | some (c, j) => do
    let n ← parseNat 64 c
    if j == "JOC".toList then pure ⟨n, true⟩ else .err

def Channels.show (c : Channels) : Str :=
  if c.has_joc_content then showNat c.number ++ "/JOC".toList else showNat c.number

/-! ## ClosedCaptions -/

inductive ClosedCaptions where
  | groupId (id : Str)
  | none
deriving Repr, DecidableEq

def ClosedCaptions.parse (s : Str) : ClosedCaptions :=
  if trim s == "NONE".toList then .none else .groupId (unquote s)

def ClosedCaptions.show : ClosedCaptions → Str
  | .groupId v => quote v
  | .none => "NONE".toList

/-! ## Codecs -/

structure Codecs where
  list : List Str
deriving Repr, DecidableEq

def Codecs.parse (s : Str) : Codecs := ⟨splitAll ',' s⟩

def joinWith (sep : Str) : List Str → Str
  | [] => []
  | [x] => x
  | x :: xs => x ++ sep ++ joinWith sep xs

def Codecs.show (c : Codecs) : Str := joinWith [','] c.list

/-! ## strum enums (name tables regenerated from the source) -/

inductive EncryptionMethod where
  | aes128 | sampleAes
deriving Repr, DecidableEq

def EncryptionMethod.idx : EncryptionMethod → Nat
  | .aes128 => 0 | .sampleAes => 1
def EncryptionMethod.ofIdx : Nat → Option EncryptionMethod
  | 0 => some .aes128 | 1 => some .sampleAes | _ => none
def EncryptionMethod.parse (s : Str) : Res EncryptionMethod :=
  Res.ofOpt ((lookupIdx Generated.encryptionMethodNames s).bind EncryptionMethod.ofIdx)
def EncryptionMethod.show (m : EncryptionMethod) : Str := nameAt Generated.encryptionMethodNames m.idx

inductive HdcpLevel where
  | type0 | none
deriving Repr, DecidableEq

def HdcpLevel.idx : HdcpLevel → Nat
  | .type0 => 0 | .none => 1
def HdcpLevel.ofIdx : Nat → Option HdcpLevel
  | 0 => some .type0 | 1 => some .none | _ => Option.none
def HdcpLevel.parse (s : Str) : Res HdcpLevel :=
  Res.ofOpt ((lookupIdx Generated.hdcpLevelNames s).bind HdcpLevel.ofIdx)
def HdcpLevel.show (m : HdcpLevel) : Str := nameAt Generated.hdcpLevelNames m.idx

inductive MediaType where
  | audio | video | subtitles | closedCaptions
deriving Repr, DecidableEq

def MediaType.idx : MediaType → Nat
  | .audio => 0 | .video => 1 | .subtitles => 2 | .closedCaptions => 3
def MediaType.ofIdx : Nat → Option MediaType
  | 0 => some .audio | 1 => some .video | 2 => some .subtitles | 3 => some .closedCaptions | _ => none
def MediaType.parse (s : Str) : Res MediaType :=
  Res.ofOpt ((lookupIdx Generated.mediaTypeNames s).bind MediaType.ofIdx)
def MediaType.show (m : MediaType) : Str := nameAt Generated.mediaTypeNames m.idx

/-- `InStreamId` as the index of the variant in declaration order (0 … 66) -/
structure InStreamId where
  idx : Nat
deriving Repr, DecidableEq

def InStreamId.parse (s : Str) : Res InStreamId :=
  match lookupIdx Generated.inStreamIdNames s with
  | some i => .ok ⟨i⟩
  | none => .err
def InStreamId.show (i : InStreamId) : Str := nameAt Generated.inStreamIdNames i.idx
def InStreamId.variant (i : InStreamId) : Str := nameAt Generated.inStreamIdVariants i.idx
def InStreamId.requiredVersion (i : InStreamId) : Nat :=
  if Generated.inStreamIdV1Variants.contains (Generated.inStreamIdVariants.getD i.idx "") then 1 else 7

inductive PlaylistType where
  | event | vod
deriving Repr, DecidableEq

def playlistTypePrefix : Str := "#EXT-X-PLAYLIST-TYPE:".toList

def PlaylistType.parse (s : Str) : Res PlaylistType := do
  let r ← stripTag s playlistTypePrefix
  if r == "EVENT".toList then pure .event else if r == "VOD".toList then pure .vod else .err

def PlaylistType.name : PlaylistType → Str
  | .event => "EVENT".toList | .vod => "VOD".toList
def PlaylistType.show (p : PlaylistType) : Str := playlistTypePrefix ++ p.name

/-! ## Float / UFloat (the value is the binary32 bit pattern) -/

structure Float32 where
  bits : Nat
deriving Repr, DecidableEq

def Float32.fv (f : Float32) : FV := f32OfBits f.bits

/-- `Float::from_str`: `f32::from_str`, then reject infinite and NaN -/
def Float32.parseFloat (s : Str) : Res Float32 :=
  match Hls.parseFloat fmt32 s with
  | some (.fin neg m e) => .ok ⟨f32Bits (.fin neg m e)⟩
  | _ => .err

/-- `UFloat::from_str`: additionally reject a set sign bit (including `-0`) -/
def Float32.parseUFloat (s : Str) : Res Float32 :=
  match Hls.parseFloat fmt32 s with
  | some (.fin neg m e) => if neg then .err else .ok ⟨f32Bits (.fin neg m e)⟩
  | _ => .err

/-- `TryFrom<f32>` for `Float` -/
def Float32.ofBitsFloat (b : Nat) : Res Float32 :=
  match f32OfBits b with
  | .fin _ _ _ => .ok ⟨b⟩
  | _ => .err

/-- `TryFrom<f32>` for `UFloat` -/
def Float32.ofBitsUFloat (b : Nat) : Res Float32 :=
  match f32OfBits b with
  | .fin neg _ _ => if neg then .err else .ok ⟨b⟩
  | _ => .err

def Float32.show (f : Float32) : Str := displayFV fmt32 f.fv
def Float32.show3 (f : Float32) : Str := display3 f.fv

/-- order key of a finite binary32: IEEE order is the order of this integer -/
def Float32.key (f : Float32) : Int :=
  let mag : Int := Int.ofNat (f.bits % 2 ^ 31)
  if f.bits / 2 ^ 31 % 2 == 1 then - mag else mag

/-- hand-written `PartialEq`: IEEE equality (`+0 == -0`) -/
def Float32.eq (a b : Float32) : Bool := a.key == b.key
/-- hand-written `Ord::cmp` -/
def Float32.cmp (a b : Float32) : Ordering :=
  if a.key < b.key then .lt else if Float32.eq a b then .eq else .gt
/-- bytes fed to the `Hasher` by `Float` (`±0` hash as `+0`) -/
def Float32.hashBytesFloat (a : Float32) : List Nat :=
  if a.key == 0 then natToBytes 4 0 else natToBytes 4 a.bits
/-- bytes fed to the `Hasher` by `UFloat` -/
def Float32.hashBytesUFloat (a : Float32) : List Nat := natToBytes 4 a.bits

/-! ## InitializationVector -/

inductive InitializationVector where
  | aes128 (v : Nat)      -- the 16 bytes as a big-endian number
  | number (n : Nat)
  | missing
deriving Repr, DecidableEq

def InitializationVector.parse (s : Str) : Res InitializationVector :=
  if !(startsWith s "0x".toList || startsWith s "0X".toList) then .err
  else
    let rest := s.drop 2
    if utf8Len rest != 32 then .err
    else match hexDecode? rest with
      | some bs => .ok (.aes128 (bytesToNat bs))
      | none => .err

def InitializationVector.show : InitializationVector → Str
  | .aes128 v => "0x".toList ++ hexEncode false (natToBytes 16 v)
  | .number n => "InitializationVector::Number(".toList ++ showNat n ++ [')']
  | .missing => "InitializationVector::Missing".toList

def InitializationVector.isSome : InitializationVector → Bool
  | .missing => false
  | _ => true

def InitializationVector.toU128 : InitializationVector → Option Nat
  | .aes128 v => some v
  | .number n => some n
  | .missing => none

def InitializationVector.cmp : InitializationVector → InitializationVector → Ordering
  | .aes128 a, .aes128 b => cmpNat a b
  | .aes128 _, _ => .lt
  | .number _, .aes128 _ => .gt
  | .number a, .number b => cmpNat a b
  | .number _, .missing => .lt
  | .missing, .missing => .eq
  | .missing, _ => .gt

/-! ## KeyFormat -/

inductive KeyFormat where
  | identity | fairPlay | widevine | playReady
  | other (s : Str)
deriving Repr, DecidableEq

def KeyFormat.parse (s : Str) : KeyFormat :=
  let f := unquote s
  if f == Generated.keyFormatIdentity.toList then .identity
  else if f == Generated.keyFormatFairPlay.toList then .fairPlay
  else if f == Generated.keyFormatWidevine.toList then .widevine
  else if f == Generated.keyFormatPlayReady.toList then .playReady
  else .other f

def KeyFormat.text : KeyFormat → Str
  | .identity => Generated.keyFormatIdentity.toList
  | .fairPlay => Generated.keyFormatFairPlay.toList
  | .widevine => Generated.keyFormatWidevine.toList
  | .playReady => Generated.keyFormatPlayReady.toList
  | .other v => v

def KeyFormat.show (k : KeyFormat) : Str := quote k.text

def KeyFormat.rank : KeyFormat → Nat
  | .identity => 0 | .fairPlay => 1 | .widevine => 2 | .playReady => 3 | .other _ => 4

def KeyFormat.cmp (a b : KeyFormat) : Ordering :=
  match a, b with
  | .other x, .other y => cmpStr x y
  | _, _ => cmpNat a.rank b.rank

/-! ## KeyFormatVersions (the used part of the fixed buffer) -/

structure KeyFormatVersions where
  items : List Nat
deriving Repr, DecidableEq

def KeyFormatVersions.isDefault (v : KeyFormatVersions) : Bool :=
  v.items.isEmpty || v.items == [1]

def KeyFormatVersions.parse (s : Str) : Res KeyFormatVersions := do
  let items ← mapRes (fun p => parseNat 8 p) (splitAll '/' (unquote s))
  if items.length > 9 then .err else pure ⟨items⟩

def KeyFormatVersions.show (v : KeyFormatVersions) : Str :=
  if v.isDefault then quote ['1']
  else ['"'] ++ joinWith ['/'] (v.items.map showNat) ++ ['"']

/-- hand-written `PartialEq` (after the `fix:` that compares with `other`) -/
def KeyFormatVersions.eq (a b : KeyFormatVersions) : Bool :=
  if a.items.length == b.items.length then a.items == b.items else false
/-- hand-written `Ord::cmp`: slice comparison -/
def KeyFormatVersions.cmp (a b : KeyFormatVersions) : Ordering := cmpList cmpNat a.items b.items
/-- what is fed to the `Hasher`: the length, then the slice (length prefix + bytes) -/
def KeyFormatVersions.hashBytes (a : KeyFormatVersions) : List Nat :=
  a.items.length :: a.items.length :: a.items

/-! ## DecryptionKey -/

structure DecryptionKey where
  method : EncryptionMethod
  uri : Str
  iv : InitializationVector
  format : Option KeyFormat
  versions : Option KeyFormatVersions
deriving Repr, DecidableEq

structure DecryptionKeyAcc where
  method : Option EncryptionMethod := none
  uri : Option Str := none
  iv : Option InitializationVector := none
  format : Option KeyFormat := none
  versions : Option KeyFormatVersions := none

def DecryptionKey.step (a : DecryptionKeyAcc) (kv : Str × Str) : Res DecryptionKeyAcc :=
  let (key, value) := kv
  if key == "METHOD".toList then do
    let m ← EncryptionMethod.parse value
    pure { a with method := some m }
  else if key == "URI".toList then
    let u := unquote value
    if !(trim u).isEmpty then pure { a with uri := some u } else pure a
  else if key == "IV".toList then do
    let v ← InitializationVector.parse value
    pure { a with iv := some v }
  else if key == "KEYFORMAT".toList then pure { a with format := some (KeyFormat.parse value) }
  else if key == "KEYFORMATVERSIONS".toList then do
    let v ← KeyFormatVersions.parse value
    pure { a with versions := some v }
  else pure a

def DecryptionKey.finish (a : DecryptionKeyAcc) : Res DecryptionKey :=
  match a.method, a.uri with
  | some m, some u => .ok ⟨m, u, a.iv.getD .missing, a.format, a.versions⟩
  | _, _ => .err

def DecryptionKey.parse (s : Str) : Res DecryptionKey := do
  let a ← foldRes DecryptionKey.step {} (attrPairs s)
  DecryptionKey.finish a

def DecryptionKey.show (k : DecryptionKey) : Str :=
  "METHOD=".toList ++ k.method.show ++ ",URI=".toList ++ quote k.uri
  ++ (match k.iv with
      | .aes128 _ => ",IV=".toList ++ k.iv.show
      | _ => [])
  ++ (match k.format with
      | some f => ",KEYFORMAT=".toList ++ quote f.show
      | none => [])
  ++ (match k.versions with
      | some v => ",KEYFORMATVERSIONS=".toList ++ v.show
      | none => [])

def DecryptionKey.requiredVersion (k : DecryptionKey) : Nat :=
  if k.format.isSome || k.versions.isSome then 5
  else if k.iv.isSome then 2 else 1

/-- derived `Ord` (field order: method, uri, iv, format, versions) -/
def DecryptionKey.cmp (a b : DecryptionKey) : Ordering :=
  ordThen (cmpNat a.method.idx b.method.idx) fun _ =>
  ordThen (cmpStr a.uri b.uri) fun _ =>
  ordThen (InitializationVector.cmp a.iv b.iv) fun _ =>
  ordThen (cmpOpt KeyFormat.cmp a.format b.format) fun _ =>
  cmpOpt KeyFormatVersions.cmp a.versions b.versions

/-! ## Resolution -/

structure Resolution where
  width : Nat
  height : Nat
deriving Repr, DecidableEq

def Resolution.parse (s : Str) : Res Resolution :=
  let (w, h) := splitN2 'x' s
  match parseNat? 64 w, h with
  | some wv, some hs =>
    match parseNat? 64 hs with
    | some hv => .ok ⟨wv, hv⟩
    | none => .err
  | _, _ => .err

def Resolution.show (r : Resolution) : Str := showNat r.width ++ ['x'] ++ showNat r.height

/-! ## StreamData -/

structure StreamData where
  bandwidth : Nat
  average_bandwidth : Option Nat
  codecs : Option Codecs
  resolution : Option Resolution
  hdcp_level : Option HdcpLevel
  video : Option Str
deriving Repr, DecidableEq

structure StreamDataAcc where
  bandwidth : Option Nat := none
  average_bandwidth : Option Nat := none
  codecs : Option Codecs := none
  resolution : Option Resolution := none
  hdcp_level : Option HdcpLevel := none
  video : Option Str := none

def StreamData.step (a : StreamDataAcc) (kv : Str × Str) : Res StreamDataAcc :=
  let (key, value) := kv
  if key == "BANDWIDTH".toList then do
    let n ← parseNat 64 value
    pure { a with bandwidth := some n }
  else if key == "AVERAGE-BANDWIDTH".toList then do
    let n ← parseNat 64 value
    pure { a with average_bandwidth := some n }
  else if key == "CODECS".toList then pure { a with codecs := some (Codecs.parse (unquote value)) }
  else if key == "RESOLUTION".toList then do
    let r ← Resolution.parse value
    pure { a with resolution := some r }
  else if key == "HDCP-LEVEL".toList then do
    let h ← HdcpLevel.parse value
    pure { a with hdcp_level := some h }
  else if key == "VIDEO".toList then pure { a with video := some (unquote value) }
  else pure a

def StreamData.finish (a : StreamDataAcc) : Res StreamData :=
  match a.bandwidth with
  | some b => .ok ⟨b, a.average_bandwidth, a.codecs, a.resolution, a.hdcp_level, a.video⟩
  | none => .err

def StreamData.parse (s : Str) : Res StreamData := do
  let a ← foldRes StreamData.step {} (attrPairs s)
  StreamData.finish a

def StreamData.show (d : StreamData) : Str :=
  "BANDWIDTH=".toList ++ showNat d.bandwidth
  ++ (match d.average_bandwidth with
      | some v => ",AVERAGE-BANDWIDTH=".toList ++ showNat v
      | none => [])
  ++ (match d.codecs with
      | some v => ",CODECS=".toList ++ quote v.show
      | none => [])
  ++ (match d.resolution with
      | some v => ",RESOLUTION=".toList ++ v.show
      | none => [])
  ++ (match d.hdcp_level with
      | some v => ",HDCP-LEVEL=".toList ++ v.show
      | none => [])
  ++ (match d.video with
      | some v => ",VIDEO=".toList ++ quote v
      | none => [])

/-! ## Value (client attribute of EXT-X-DATERANGE) -/

inductive Value where
  | string (s : Str)
  | hex (bytes : List Nat)
  | float (f : Float32)
deriving Repr, DecidableEq

/-- `str::trim_start_matches(p)`: remove every leading repetition of `p` -/
def trimStartMatches (p : Str) (s : Str) : Str :=
  let rec go : Nat → Str → Str
    | 0, s => s
    | fuel + 1, s => if !p.isEmpty && startsWith s p then go fuel (s.drop p.length) else s
  go s.length s

def Value.parse (s : Str) : Res Value :=
  if startsWith s "0x".toList || startsWith s "0X".toList then
    match hexDecode? (trimStartMatches "0X".toList (trimStartMatches "0x".toList s)) with
    | some bs => .ok (.hex bs)
    | none => .err
  else
    match Float32.parseFloat s with
    | .ok f => .ok (.float f)
    | _ => .ok (.string (unquote s))

def Value.show : Value → Str
  | .string v => quote v
  | .hex v => "0x".toList ++ hexEncode true v
  | .float f => f.show

end Hls
