import Hls.Model.Line
/-!
# L2 — media playlists (`src/media_playlist.rs`, `src/media_segment.rs`)

`parse_media_playlist` as `init`/`step`/`finish` over the line stream with short-circuit on the
first `err`/`panic`; the builder (`push_segment`, `segments`, `validate`, `build`) with the slot
vector as `List (Option MediaSegment)`; the `Display` impl with its "announced keys" state.
The model mirrors the tree after the `fix:` commits listed in DESIGN.md §9.
-/
namespace Hls

/-! ## MediaSegment -/

structure MediaSegment where
  number : Nat
  explicit_number : Bool
  keys : List ExtXKey
  map : Option ExtXMap
  byte_range : Option ByteRange
  date_range : Option ExtXDateRange
  has_discontinuity : Bool
  program_date_time : Option ExtXProgramDateTime
  duration : ExtInf
  uri : Str
deriving Repr, DecidableEq

/-- `derive_builder` state of `MediaSegmentBuilder` -/
structure MediaSegmentBuilder where
  number : Option Nat := none
  explicit_number : Option Bool := none
  keys : Option (List ExtXKey) := none
  map : Option ExtXMap := none
  byte_range : Option ByteRange := none
  date_range : Option ExtXDateRange := none
  has_discontinuity : Option Bool := none
  program_date_time : Option ExtXProgramDateTime := none
  duration : Option ExtInf := none
  uri : Option Str := none
deriving Repr, DecidableEq

def MediaSegmentBuilder.build (b : MediaSegmentBuilder) : Res MediaSegment :=
  match b.duration, b.uri with
  | some d, some u =>
    .ok ⟨b.number.getD 0, b.explicit_number.getD false, b.keys.getD [], b.map, b.byte_range, b.date_range,
         b.has_discontinuity.getD false, b.program_date_time, d, u⟩
  | _, _ => .err

/-- `MediaSegmentBuilder::number(Option<usize>)`: stores the value and whether a number was given -/
def MediaSegmentBuilder.setNumber (b : MediaSegmentBuilder) (v : Option Nat) : MediaSegmentBuilder :=
  { b with number := v, explicit_number := some v.isSome }

/-- `Display for MediaSegment` as typed lines (keys are printed by the playlist) -/
def MediaSegment.writeLines (s : MediaSegment) : List Line :=
  (match s.map with
   | some m => [Line.map m]
   | none => [])
  ++ (match s.byte_range with
      | some r => [Line.byteRange r]
      | none => [])
  ++ (match s.date_range with
      | some d => [Line.dateRange d]
      | none => [])
  ++ (if s.has_discontinuity then [Line.discontinuity] else [])
  ++ (match s.program_date_time with
      | some p => [Line.programDateTime p]
      | none => [])
  ++ [Line.inf s.duration, Line.uri s.uri]

def MediaSegment.show (s : MediaSegment) : Str := renderLines s.writeLines

def MediaSegment.requiredVersion (s : MediaSegment) : Nat :=
  maxVersion [maxVersion (s.keys.map ExtXKey.requiredVersion),
    (match s.map with
     | some _ => 6
     | none => 1),
    (match s.byte_range with
     | some _ => 4
     | none => 1),
    1, 1, 1, s.duration.requiredVersion]

/-- `Decryptable::keys`: the entries that are not the explicit-none marker -/
def decryptableKeys (ks : List ExtXKey) : List DecryptionKey := ks.filterMap fun k => k

/-! ## the set of keys in effect (a `BTreeSet<ExtXKey>`: sorted by the derived order, no duplicates) -/

def setInsert (x : ExtXKey) : List ExtXKey → List ExtXKey
  | [] => [x]
  | y :: ys =>
    match ExtXKey.cmp x y with
    | .lt => x :: y :: ys
    | .eq => y :: ys
    | .gt => y :: setInsert x ys

def setContains (x : ExtXKey) (l : List ExtXKey) : Bool := l.any fun y => ExtXKey.cmp x y == .eq

def setRemove (x : ExtXKey) (l : List ExtXKey) : List ExtXKey := l.filter fun y => ExtXKey.cmp x y != .eq

/-- KEYFORMAT with the default made explicit (absent ≡ identity) -/
def normFormat (k : DecryptionKey) : KeyFormat := k.format.getD .identity

/-- the parser's search for the entry to remove: first entry (in set order) that is the marker
or has the same (normalised) key format -/
def findRemove (k : DecryptionKey) : List ExtXKey → Option ExtXKey
  | [] => none
  | none :: _ => some none
  | some o :: rest => if normFormat o == normFormat k then some (some o) else findRemove k rest

/-- update of the keys in effect on an `EXT-X-KEY` line -/
def updateKeys (avail : List ExtXKey) : ExtXKey → List ExtXKey
  | none => [none]
  | some k =>
    let avail' := match findRemove k avail with
      | some r => setRemove r avail
      | none => avail
    setInsert (some k) avail'

/-! ## MediaPlaylist and its builder -/

structure MediaPlaylist where
  target_duration : Nat
  media_sequence : Nat
  discontinuity_sequence : Nat
  playlist_type : Option PlaylistType
  has_i_frames_only : Bool
  has_independent_segments : Bool
  start : Option ExtXStart
  has_end_list : Bool
  segments : List MediaSegment           -- a compact `StableVec`
  allowable_excess_duration : Nat
  unknown : List Str
deriving Repr, DecidableEq

structure MediaPlaylistBuilder where
  target_duration : Option Nat := none
  media_sequence : Option Nat := none
  discontinuity_sequence : Option Nat := none
  playlist_type : Option (Option PlaylistType) := none
  has_i_frames_only : Option Bool := none
  has_independent_segments : Option Bool := none
  start : Option (Option ExtXStart) := none
  has_end_list : Option Bool := none
  segments : Option (List (Option MediaSegment)) := none     -- `StableVec` slots
  allowable_excess_duration : Option Nat := none
  unknown : Option (List Str) := none
deriving Repr, DecidableEq

def u64Max : Nat := 2 ^ 64 - 1
/-- `Duration::MAX` in nanoseconds -/
def durationMax : Nat := u64Max * nanosPerSec + 999999999

/-- the filled slots in index order (`StableVec::values`) -/
def slotValues (slots : List (Option MediaSegment)) : List MediaSegment := slots.filterMap fun s => s

/-- `StableVec::insert(index, elem)` after `reserve_for(index)` -/
def slotInsert : List (Option MediaSegment) → Nat → MediaSegment → List (Option MediaSegment)
  | [], 0, s => [some s]
  | [], n + 1, s => none :: slotInsert [] n s
  | _ :: rest, 0, s => some s :: rest
  | x :: rest, n + 1, s => x :: slotInsert rest n s

/-- `push_segment` -/
def MediaPlaylistBuilder.pushSegment (b : MediaPlaylistBuilder) (s : MediaSegment) : MediaPlaylistBuilder :=
  let slots := b.segments.getD []
  if s.explicit_number then { b with segments := some (slotInsert slots s.number s) }
  else { b with segments := some (slots ++ [some s]) }

/-- `segments(vec)`: explicit numbers first, then the others pushed behind the last used slot -/
def MediaPlaylistBuilder.setSegments (b : MediaPlaylistBuilder) (segs : List MediaSegment) : MediaPlaylistBuilder :=
  let v := (segs.filter (·.explicit_number)).foldl (fun acc s => slotInsert acc s.number s) []
  let v := v ++ (segs.filter (!·.explicit_number)).map some
  { b with segments := some v }

/-- rounded duration in whole seconds (halves round up), saturating at `u64::MAX` -/
def roundedSecs (ns : Nat) : Nat := min ((ns + 500000000) / nanosPerSec) u64Max

def isAes128Key : ExtXKey → Bool
  | some k => k.method == .aes128
  | none => false

/-- the byte-range continuity loop (`last_range_uri`) -/
def checkRanges : Option Str → List MediaSegment → Bool
  | _, [] => true
  | last, s :: rest =>
    match s.byte_range with
    | some r =>
      match r.start with
      | none =>
        match last with
        | none => false
        | some u => if u != s.uri then false else checkRanges last rest
      | some _ => checkRanges (some s.uri) rest
    | none => checkRanges none rest

/-- `validate_media_segments` (true = accepted) -/
def MediaPlaylistBuilder.validateSegments (b : MediaPlaylistBuilder) (target : Nat) : Bool :=
  match b.segments with
  | none => true
  | some slots =>
    let segs := slotValues slots
    let allKeys := segs.flatMap (·.keys)
    let indepOk :=
      if b.has_independent_segments.getD false then
        if allKeys.any isAes128Key then allKeys.all isAes128Key else true
      else true
    let maxDur := match b.allowable_excess_duration with
      | some e => min (target + e) durationMax
      | none => target
    indepOk
    && segs.all (fun s => !(roundedSecs s.duration.duration * nanosPerSec > maxDur))
    && checkRanges none segs

/-- interleaved validation, exactly as the Rust loop orders its checks (duration, then range, per
segment); equal to `validateSegments` as a Boolean — kept only for the correspondence run -/
def MediaPlaylistBuilder.validate (b : MediaPlaylistBuilder) : Bool :=
  match b.target_duration with
  | some t => b.validateSegments t
  | none => true

/-- the IV completion of `build` for one key -/
def completeIv (number : Nat) : ExtXKey → ExtXKey
  | some k =>
    if k.method == .aes128 && k.iv == .missing && (k.format.isNone || k.format == some .identity)
    then some { k with iv := .number number } else some k
  | none => none

/-- offset resolution of `build` for one segment (`previous_range` = `prev`) -/
def resolveRange (prev : Option ByteRange) : Option ByteRange → Res (Option ByteRange)
  | some r =>
    match r.start with
    | none =>
      match prev with
      | some p => ((r.saturatingAdd p.end_).setStart (some p.end_)).map some
      | none => (r.setStart (some 0)).map some
    | some _ => .ok (some r)
  | none => .ok none

/-- number of the segment in slot `i`: implicit numbers are `i + sequence_number`
(overflow is an error after the `fix:`), explicit ones are kept -/
def segNumber (seq i : Nat) (s : MediaSegment) : Res Nat :=
  if !s.explicit_number then (if i + seq ≤ u64Max then .ok (i + seq) else .err) else .ok s.number

/-- one iteration of the numbering / IV / byte-range loop of `build` -/
def buildOne (seq i : Nat) (prev : Option ByteRange) (s : MediaSegment) : Res MediaSegment :=
  match segNumber seq i s with
  | .ok number =>
    match resolveRange prev s.byte_range with
    | .ok br => .ok { s with number := number, keys := s.keys.map (completeIv number), byte_range := br }
    | .err => .err
    | .panic => .panic
  | .err => .err
  | .panic => .panic

def nextPrev (prev : Option ByteRange) : Option ByteRange → Option ByteRange
  | some r => some r
  | none => prev

/-- the loop of `build` over the slots; `i` = slot index, `prev` = `previous_range` -/
def buildLoop (seq : Nat) : Nat → Option ByteRange → List (Option MediaSegment) → Res (List (Option MediaSegment))
  | _, _, [] => .ok []
  | i, prev, none :: rest =>
    match buildLoop seq (i + 1) prev rest with
    | .ok r => .ok (none :: r)
    | .err => .err
    | .panic => .panic
  | i, prev, some s :: rest =>
    match buildOne seq i prev s with
    | .ok s' =>
      match buildLoop seq (i + 1) (nextPrev prev s'.byte_range) rest with
      | .ok r => .ok (some s' :: r)
      | .err => .err
      | .panic => .panic
    | .err => .err
    | .panic => .panic

def firstFilled : List (Option MediaSegment) → Option MediaSegment
  | [] => none
  | some s :: _ => some s
  | none :: rest => firstFilled rest

/-- "no segment should exist before the sequence_number" -/
def firstBad (seq : Nat) (slots : List (Option MediaSegment)) : Bool :=
  match firstFilled slots with
  | some f => decide (seq > f.number) && f.explicit_number
  | none => false

/-- the tail of `build`: compactness, required `target_duration`, construction -/
def finishBuild (b : MediaPlaylistBuilder) (slots' : List (Option MediaSegment)) : Res MediaPlaylist :=
  if slots'.any (·.isNone) then .err else
  match b.target_duration with
  | none => .err
  | some td =>
    .ok ⟨td, b.media_sequence.getD 0, b.discontinuity_sequence.getD 0, (b.playlist_type.getD none),
         b.has_i_frames_only.getD false, b.has_independent_segments.getD false, (b.start.getD none),
         b.has_end_list.getD false, slotValues slots', b.allowable_excess_duration.getD 0,
         b.unknown.getD []⟩

/-- `MediaPlaylistBuilder::build` -/
def MediaPlaylistBuilder.build (b : MediaPlaylistBuilder) : Res MediaPlaylist :=
  if !b.validate then .err else
  match b.segments with
  | none => .err
  | some slots =>
    if firstBad (b.media_sequence.getD 0) slots then .err else
    match buildLoop (b.media_sequence.getD 0) 0 none slots with
    | .err => .err
    | .panic => .panic
    | .ok slots' => finishBuild b slots'

/-! ## the parser -/

structure PState where
  builder : MediaPlaylistBuilder
  segment : MediaSegmentBuilder := {}
  segments : List MediaSegment := []          -- in order
  has_partial_segment : Bool := false
  has_discontinuity_tag : Bool := false
  unknown : List Str := []
  available_keys : List ExtXKey := []
deriving Repr, DecidableEq

/-- one iteration of the `for line in Lines::from(input)` loop on a successfully classified line -/
def mediaStep (st : PState) : Line → Res PState
  | .inf t => .ok { st with has_partial_segment := true, segment := { st.segment with duration := some t } }
  | .byteRange t => .ok { st with has_partial_segment := true, segment := { st.segment with byte_range := some t } }
  | .discontinuity => .ok { st with has_discontinuity_tag := true, has_partial_segment := true,
                                     segment := { st.segment with has_discontinuity := some true } }
  | .key k => .ok { st with has_partial_segment := true, available_keys := updateKeys st.available_keys k }
  | .map m => .ok { st with has_partial_segment := true,
                            segment := { st.segment with map := some { m with keys := st.available_keys } } }
  | .programDateTime t => .ok { st with has_partial_segment := true, segment := { st.segment with program_date_time := some t } }
  | .dateRange t => .ok { st with has_partial_segment := true, segment := { st.segment with date_range := some t } }
  | .targetDuration d => .ok { st with builder := { st.builder with target_duration := some d } }
  | .mediaSequence n => .ok { st with builder := { st.builder with media_sequence := some n } }
  | .discontinuitySequence n =>
    if !st.segments.isEmpty then .err
    else if st.has_discontinuity_tag then .err
    else .ok { st with builder := { st.builder with discontinuity_sequence := some n } }
  | .endList => .ok { st with builder := { st.builder with has_end_list := some true } }
  | .playlistType p => .ok { st with builder := { st.builder with playlist_type := some (some p) } }
  | .iFramesOnly => .ok { st with builder := { st.builder with has_i_frames_only := some true } }
  | .media _ => .err
  | .variant _ => .err
  | .sessionData _ => .err
  | .sessionKey _ => .err
  | .independentSegments => .ok { st with builder := { st.builder with has_independent_segments := some true } }
  | .start s => .ok { st with builder := { st.builder with start := some (some s) } }
  | .version _ => .ok st
  | .unknown s => .ok { st with unknown := st.unknown ++ [s] }
  | .uri u =>
    match ({ st.segment with uri := some u, keys := some st.available_keys } : MediaSegmentBuilder).build with
    | .ok seg => .ok { st with segments := st.segments ++ [seg], segment := {}, has_partial_segment := false }
    | .err => .err
    | .panic => .panic
  | .comment _ => .ok st

/-- after the loop -/
def mediaFinish (st : PState) : Res MediaPlaylist :=
  if st.has_partial_segment then .err
  else
    let b := st.builder.setSegments st.segments
    ({ b with unknown := some st.unknown } : MediaPlaylistBuilder).build

/-- the loop over *typed* lines (what the L2 theorems talk about) -/
def assembleMedia (b : MediaPlaylistBuilder) (ls : List Line) : Res MediaPlaylist :=
  match foldRes mediaStep { builder := b } ls with
  | .ok st => mediaFinish st
  | .err => .err
  | .panic => .panic

/-- `parse_media_playlist(input, builder)` -/
def parseMediaWith (b : MediaPlaylistBuilder) (input : Str) : Res MediaPlaylist :=
  match stripTag input pfxM3u with
  | .ok rest =>
    match foldRes (liftItem mediaStep) { builder := b } (lineItems rest) with
    | .ok st => mediaFinish st
    | .err => .err
    | .panic => .panic
  | .err => .err
  | .panic => .panic

/-- `MediaPlaylist::try_from(&str)` -/
def parseMedia (input : Str) : Res MediaPlaylist := parseMediaWith {} input
/-- `FromStr` (`parse + into_owned`; `into_owned` is the identity on observable content) -/
def parseMediaFromStr (input : Str) : Res MediaPlaylist := parseMediaWith {} input
/-- `MediaPlaylist::builder().allowable_excess_duration(e).parse(input)` -/
def builderParse (excess : Option Nat) (input : Str) : Res MediaPlaylist :=
  parseMediaWith { allowable_excess_duration := excess } input

/-! ## required version and `Display` -/

def MediaPlaylist.requiredVersion (p : MediaPlaylist) : Nat :=
  maxVersion [1, 1, 1, 1, (if p.has_i_frames_only then 4 else 1), 1, 1, 1,
    maxVersion (p.segments.map MediaSegment.requiredVersion)]

/-- writer: strip a derived IV -/
def stripIv (k : DecryptionKey) : DecryptionKey :=
  match k.iv with
  | .number _ => { k with iv := .missing }
  | _ => k

/-- the writer's scan for an announced key of the same format that is replaced;
`panic` models the `unreachable!` on a marker inside the announced set -/
def findReplaced (key : DecryptionKey) : List ExtXKey → Res (Option ExtXKey)
  | [] => .ok none
  | none :: _ => .panic
  | some d :: rest =>
    if normFormat d == normFormat key && some key != some d then .ok (some (some d)) else findReplaced key rest

/-- handle one key of a segment: new announced set and emitted lines -/
def writeKeyStep (st : List ExtXKey × List Line) (key : ExtXKey) : Res (List ExtXKey × List Line) :=
  let (avail, out) := st
  match key with
  | some dk =>
    let avail := setRemove none avail
    let k := stripIv dk
    if setContains (some k) avail then .ok (avail, out)
    else
      let avail := setInsert (some k) avail
      match findReplaced k avail with
      | .ok (some r) => .ok (setRemove r avail, out ++ [Line.key (some k)])
      | .ok none => .ok (avail, out ++ [Line.key (some k)])
      | .err => .err
      | .panic => .panic
  | none => .ok ([none], out ++ [Line.key none])

/-- some announced key is neither kept nor replaced (same key format) by the keys of the segment -/
def hasFormat (keys : List ExtXKey) (old : DecryptionKey) : Bool :=
  keys.any fun k => match k with
    | some new => normFormat new == normFormat old
    | none => false

def droppedKey (avail keys : List ExtXKey) : Bool :=
  avail.any fun a => match a with
    | some old => !hasFormat keys old
    | none => false

/-- the explicit reset the writer prints in that case (after the `fix:` for the history
`KEY f1, KEY f2, segment, KEY NONE, KEY f1, segment`); not needed when the segment carries the
marker itself -/
def resetStep (st : List ExtXKey × List Line) (keys : List ExtXKey) : List ExtXKey × List Line :=
  if droppedKey st.1 keys && !(keys.any (·.isNone)) then ([none], st.2 ++ [Line.key none]) else st

def writeSegStep (st : List ExtXKey × List Line) (s : MediaSegment) : Res (List ExtXKey × List Line) :=
  match foldRes writeKeyStep (resetStep st s.keys) s.keys with
  | .ok (avail, out) => .ok (avail, out ++ s.writeLines)
  | .err => .err
  | .panic => .panic

/-- the header lines of `Display for MediaPlaylist` (after `#EXTM3U`) -/
def MediaPlaylist.headerLines (p : MediaPlaylist) : List Line :=
  (if p.requiredVersion != 1 then [Line.version p.requiredVersion] else [])
  ++ [Line.targetDuration p.target_duration]
  ++ (if p.media_sequence != 0 then [Line.mediaSequence p.media_sequence] else [])
  ++ (if p.discontinuity_sequence != 0 then [Line.discontinuitySequence p.discontinuity_sequence] else [])
  ++ (match p.playlist_type with
      | some t => [Line.playlistType t]
      | none => [])
  ++ (if p.has_i_frames_only then [Line.iFramesOnly] else [])
  ++ (if p.has_independent_segments then [Line.independentSegments] else [])
  ++ (match p.start with
      | some s => [Line.start s]
      | none => [])

/-- `Display for MediaPlaylist` as typed lines (everything after the `#EXTM3U` line);
`panic` only through the writer's `unreachable!` -/
def MediaPlaylist.writeLines (p : MediaPlaylist) : Res (List Line) :=
  match foldRes writeSegStep ([], p.headerLines) p.segments with
  | .ok (_, out) => .ok (out ++ p.unknown.map Line.unknown ++ (if p.has_end_list then [Line.endList] else []))
  | .err => .err
  | .panic => .panic

/-- `to_string()` -/
def MediaPlaylist.show (p : MediaPlaylist) : Res Str :=
  match p.writeLines with
  | .ok ls => .ok (pfxM3u ++ ['\n'] ++ renderLines ls)
  | .err => .err
  | .panic => .panic

end Hls
