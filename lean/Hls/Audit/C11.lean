import Hls.Props.C11
#print axioms Hls.C11.listing_canonical
#print axioms Hls.C11.insert_comm
#print axioms Hls.C11.same_state_same_listing
#print axioms Hls.C11.segment_keys_sorted
#print axioms Hls.C11.parse_is_a_function
