import Hls.Props.C06
#print axioms Hls.C06.findRemove_none
#print axioms Hls.C06.findRemove_some
#print axioms Hls.C06.abs_step
#print axioms Hls.C06.abs_unique
#print axioms Hls.C06.decryptable_abs
#print axioms Hls.C06.decryptable_marker
#print axioms Hls.C06.SegsRel_append
#print axioms Hls.C06.rel_init
#print axioms Hls.C06.rel_step
#print axioms Hls.C06.rel_fold
#print axioms Hls.C06.finals_of_built
#print axioms Hls.C06.keys_in_effect_lines
#print axioms Hls.C06.keys_in_effect
#print axioms Hls.C06.normFormat_completeIv
#print axioms Hls.C06.finals_mem
#print axioms Hls.C06.no_two_keys_same_format
