import Hls.Props.C16
import Hls.Props.C16Text
#print axioms Hls.C16.built_functional
#print axioms Hls.C16.built_prefix
#print axioms Hls.C16.segments_grow_step
#print axioms Hls.C16.segments_grow
#print axioms Hls.C16.mseqOf_noSeq
#print axioms Hls.C16.append_stable
#print axioms Hls.C16.partial_after_tag
#print axioms Hls.C16.partial_persists
#print axioms Hls.C16.cut_inside_item_rejected
#print axioms Hls.C16.trailing_error_item_rejected
#print axioms Hls.C16.segNumber_shift
#print axioms Hls.C16.buildOne_shift
#print axioms Hls.C16.built_shift
#print axioms Hls.C16.built_drop
#print axioms Hls.C16.resolveRange_resolved
#print axioms Hls.C16.resolveRange_of_resolved
#print axioms Hls.C16.built_prev_irrelevant
#print axioms Hls.C16.slide_stable
#print axioms Hls.C16T.rawLines_append_aux
#print axioms Hls.C16T.rawLines_append
#print axioms Hls.C16T.items_append_ok
#print axioms Hls.C16T.map_ok_split
#print axioms Hls.C16T.append_stable_text
#print axioms Hls.C16T.cut_inside_item_rejected_text
