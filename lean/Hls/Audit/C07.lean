import Hls.Props.C07
#print axioms Hls.C07.mseq_step
#print axioms Hls.C07.mseq_fold
#print axioms Hls.C07.built_numbers
#print axioms Hls.C07.numbering_lines
#print axioms Hls.C07.numbering
#print axioms Hls.C07.completeIv_spec
#print axioms Hls.C07.completeIv_none
#print axioms Hls.C07.completeIv_explicit
#print axioms Hls.C07.derived_iv_value
#print axioms Hls.C07.built_keys
#print axioms Hls.C07.effective_ivs_lines
#print axioms Hls.C07.effective_ivs
#print axioms Hls.C07.show_iv_free
#print axioms Hls.C07.stripIv_spec
#print axioms Hls.C07.stripIv_completeIv
#print axioms Hls.C07.k7_counterexample
