import Hls.Props.C02
#print axioms Hls.C02.masterStep_spec
#print axioms Hls.C02.master_fold_spec
#print axioms Hls.C02.master_lists_in_order
#print axioms Hls.C02.masterStep_ok_iff
#print axioms Hls.C02.fold_ok_of_lines
#print axioms Hls.C02.master_accepted_iff
#print axioms Hls.C02.xmedia_faithful
#print axioms Hls.C02.sessionData_faithful
#print axioms Hls.C02.sessionKey_faithful
#print axioms Hls.C02.start_faithful
#print axioms Hls.C02.streamData_faithful
#print axioms Hls.C02.streamInf_attrs_faithful
#print axioms Hls.C02.quoted_values_exact
