import Hls.Props.C19
#print axioms Hls.C19.kfv_laws
#print axioms Hls.C19.kfv_distinct_example
#print axioms Hls.C19.key_determines_bits
#print axioms Hls.C19.f32_laws
#print axioms Hls.C19.decryptionKey_cmp_laws
#print axioms Hls.C19.extXKey_cmp_laws
