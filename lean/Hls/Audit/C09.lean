import Hls.Props.C09
import Hls.Props.C08Text
#print axioms Hls.C09.roundedSecs_spec
#print axioms Hls.C09.validateSegments_iff
#print axioms Hls.C09.built_durations
#print axioms Hls.C09.accepted_durations
#print axioms Hls.C09.too_long_rejected
#print axioms Hls.C09.rule_whole_seconds
#print axioms Hls.C08T.ranges_text
#print axioms Hls.C08T.durations_text
