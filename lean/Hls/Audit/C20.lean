import Hls.Props.C20
import Hls.Props.C20Text
#print axioms Hls.C20.setters_commute
#print axioms Hls.C20.setter_last_wins
#print axioms Hls.C20.setter_push_commute
#print axioms Hls.C20.setter_pushes_commute
#print axioms Hls.C20.setters_then_pushes
#print axioms Hls.C20.segment_number_last_wins
#print axioms Hls.C20.segment_number_none_resets
#print axioms Hls.C20.segment_number_some
#print axioms Hls.C20.push_implicit
#print axioms Hls.C20.pushes_eq_segments
#print axioms Hls.C20.parser_is_builder
#print axioms Hls.C20.builder_text_agree
#print axioms Hls.C20.build_never_panics
#print axioms Hls.C20.slotValues_length_compact
#print axioms Hls.C20.buildLoop_slots
#print axioms Hls.C20.built_numbering
#print axioms Hls.C20.master_parser_is_builder
#print axioms Hls.C20.master_build_never_panics
#print axioms Hls.C20T.parse_of_lines
#print axioms Hls.C20T.builder_text_agree_text
#print axioms Hls.C20T.pushes_text_agree
#print axioms Hls.C20T.accepted_text_builds
#print axioms Hls.C20T.btreeInsert_overwrite
#print axioms Hls.C20T.client_attribute_last_wins
