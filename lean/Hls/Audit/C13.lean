import Hls.Props.C13
#print axioms Hls.C13.checkMediaGroup_iff
#print axioms Hls.C13.validateVariants_closed
#print axioms Hls.C13.refsOk_iff
#print axioms Hls.C13.validateVariants_iff
#print axioms Hls.C13.validateSessionData_iff
#print axioms Hls.C13.build_ok_iff
#print axioms Hls.C13.checkMediaGroup_none
#print axioms Hls.C13.masterFinish_ok_iff
#print axioms Hls.C13.masterFinish_fields
#print axioms Hls.C13.parseMaster_consistent
#print axioms Hls.C13.assembleMaster_ok_iff
#print axioms Hls.C13.isAssociated_iff_partial
#print axioms Hls.C13.isAssociated_counterexample
#print axioms Hls.C13.associatedWith_go
#print axioms Hls.C13.associatedWith_iff
