import Hls.Props.C04
#print axioms Hls.C04.fold_media
#print axioms Hls.C04.fold_variants
#print axioms Hls.C04.fold_sessionData
#print axioms Hls.C04.fold_sessionKeys
#print axioms Hls.C04.fold_unknown
#print axioms Hls.C04.parsed_valid
#print axioms Hls.C04.write_parse_valid
#print axioms Hls.C04.master_write_parse
#print axioms Hls.C04.master_roundtrip
#print axioms Hls.C04.master_fixed_point
#print axioms Hls.C04.master_roundtrip_wf
#print axioms Hls.C04.master_fixed_point_wf
#print axioms Hls.C04.master_roundtrip_parsed
#print axioms Hls.C04.master_fixed_point_parsed
#print axioms Hls.C04.master_canonical_text
#print axioms Hls.C04.master_any_layout
#print axioms Hls.C04.example_master
