import Hls.Props.C03
#print axioms Hls.C03.findReplaced_spec
#print axioms Hls.C03.step_idem
#print axioms Hls.C03.writer_refines
#print axioms Hls.C03.key_lines_mirror
#print axioms Hls.C03.media_text_reduction
#print axioms Hls.C03.k3_counterexample
#print axioms Hls.C03.k2_counterexample
#print axioms Hls.C03.control_roundtrip
