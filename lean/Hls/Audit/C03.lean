import Hls.Props.C03
#print axioms Hls.C03.key_mirror
#print axioms Hls.C03.media_write_parse
#print axioms Hls.C03.media_write_parse_wf
#print axioms Hls.C03.media_roundtrip
#print axioms Hls.C03.media_fixed_point
#print axioms Hls.C03.media_roundtrip_wf
#print axioms Hls.C03.media_fixed_point_wf
#print axioms Hls.C03.media_roundtrip_parsed
#print axioms Hls.C03.media_roundtrip_general
#print axioms Hls.C03.media_fixed_point_general
#print axioms Hls.C03.media_canonical_text
#print axioms Hls.C03.media_any_layout
#print axioms Hls.C03.example_media
#print axioms Hls.C03.k3_repaired
#print axioms Hls.C03.k2_counterexample
#print axioms Hls.C03.control_roundtrip
