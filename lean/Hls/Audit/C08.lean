import Hls.Props.C08
import Hls.Props.C08Text
#print axioms Hls.C08.checkRanges_iff
#print axioms Hls.C08.validate_ranges_iff
#print axioms Hls.C08.resolveRange_eq
#print axioms Hls.C08.built_ranges
#print axioms Hls.C08.validate_checkRanges
#print axioms Hls.C08.segments_inRange
#print axioms Hls.C08.ranges_lines
#print axioms Hls.C08.not_chained_rejected
#print axioms Hls.C08.resolved_range_text
#print axioms Hls.C08.map_range_verbatim
#print axioms Hls.C08T.ranges_text
#print axioms Hls.C08T.durations_text
