import Hls.Props.C15
import Hls.Props.C15Text
#print axioms Hls.C15.tables_match
#print axioms Hls.C15.masterStep_err_iff
#print axioms Hls.C15.mediaStep_foreign
#print axioms Hls.C15.foldRes_all_ok
#print axioms Hls.C15.master_rejects_media_tags
#print axioms Hls.C15.media_rejects_master_tags
#print axioms Hls.C15.header_required
#print axioms Hls.C15.td_step
#print axioms Hls.C15.td_fold
#print axioms Hls.C15.map_ok_inj
#print axioms Hls.C15.media_has_target_duration
#print axioms Hls.C15.never_both
#print axioms Hls.C15.streaminf_pairs
#print axioms Hls.C15.streaminf_trailing
#print axioms Hls.C15T.items_cover
#print axioms Hls.C15T.startsWith_split
#print axioms Hls.C15T.kind_of_map
#print axioms Hls.C15T.media_prefix_kind
#print axioms Hls.C15T.media_flag_kind
#print axioms Hls.C15T.master_rejects_text
#print axioms Hls.C15T.master_prefix_kind
#print axioms Hls.C15T.media_rejects_text
