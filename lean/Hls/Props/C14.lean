import Hls.Model.Script
import Hls.Proofs.NoPanic
/-!
# C14 — per-tag attribute rules are enforced exactly (required / forbidden / dependent)

Every tag parser is `fold step over the attribute pairs, then finish`. The theorems characterise
`finish` / `validate` — the decision tables — as exactly the rules of the property, for ALL
accumulator states (presence/absence and values of every attribute), and show that the builders
end in the same tables (or, for the two recorded findings K6, do not).
-/
namespace Hls.C14
open Hls

/-! ## EXT-X-MEDIA (text and builder share `ExtXMediaBuilder::validate` + required fields) -/

/-- the rules of the property, declaratively -/
def MediaRules (b : ExtXMediaBuilder) : Prop :=
  ∃ t, b.media_type = some t ∧ b.group_id.isSome = true ∧ b.name.isSome = true ∧
    (t = .subtitles → b.uri.isSome = true) ∧
    (t = .closedCaptions → b.uri = none ∧ b.instream_id.isSome = true) ∧
    (t ≠ .closedCaptions → b.instream_id = none) ∧
    (b.is_forced = some true → t = .subtitles) ∧
    ¬ (b.is_default = some true ∧ b.is_autoselect = some false)

theorem media_build_ok_iff (b : ExtXMediaBuilder) : (b.build).isOk = true ↔ MediaRules b := by
  obtain ⟨mt, uri, g, l, al, n, d, au, f, i, c, ch⟩ := b
  cases mt with
  | none => simp [ExtXMediaBuilder.build, ExtXMediaBuilder.validate, MediaRules, Res.isOk]
  | some t =>
    cases t <;> cases uri <;> cases g <;> cases n <;> cases i <;>
      rcases d with _ | _ | _ <;> rcases au with _ | _ | _ <;> rcases f with _ | _ | _ <;>
      simp [ExtXMediaBuilder.build, ExtXMediaBuilder.validate, MediaRules, Res.isOk]

/-- the text parser ends in that same table -/
theorem media_parse_ok_iff (s : Str) :
    (ExtXMedia.parse s).isOk = true ↔
      ∃ r b, stripTag s pfxMedia = .ok r ∧ foldRes ExtXMedia.step {} (attrPairs r) = .ok b ∧ MediaRules b := by
  unfold ExtXMedia.parse
  cases h1 : stripTag s pfxMedia with
  | ok r =>
    simp only [Res.bind_ok]
    cases h2 : foldRes ExtXMedia.step {} (attrPairs r) with
    | ok b =>
      simp only [Res.bind_ok, media_build_ok_iff]
      constructor
      · intro h; exact ⟨r, b, rfl, h2, h⟩
      · rintro ⟨r', b', e1, e2, h⟩
        simp only [Res.ok.injEq] at e1; subst e1
        rw [h2] at e2; simp only [Res.ok.injEq] at e2; subst e2; exact h
    | err =>
      simp only [Res.isOk, Res.bind_err, Bool.false_eq_true, false_iff, not_exists, not_and]
      intro r' x e1 e; simp only [Res.ok.injEq] at e1; subst e1; rw [h2] at e; cases e
    | panic =>
      simp only [Res.isOk, Res.bind_panic, Bool.false_eq_true, false_iff, not_exists, not_and]
      intro r' x e1 e; simp only [Res.ok.injEq] at e1; subst e1; rw [h2] at e; cases e
  | err => simp [Res.isOk]
  | panic => simp [Res.isOk]

/-! ## EXT-X-DATERANGE -/

def DateRangeRules (a : ExtXDateRangeAcc) : Prop :=
  a.id.isSome = true ∧ (a.end_on_next = true → a.«class».isSome = true ∧ a.duration = none ∧ a.end_date = none)

theorem dateRange_finish_ok_iff (a : ExtXDateRangeAcc) : (ExtXDateRange.finish a).isOk = true ↔ DateRangeRules a := by
  obtain ⟨id, cl, sd, ed, du, pd, c1, c2, c3, eon, ca⟩ := a
  cases id <;> cases cl <;> cases du <;> cases ed <;> cases eon <;>
    simp [ExtXDateRange.finish, DateRangeRules, Res.isOk]

/-- `END-ON-NEXT` accepts only `YES` -/
theorem dateRange_end_on_next (a : ExtXDateRangeAcc) (v : Str) :
    (ExtXDateRange.step a ("END-ON-NEXT".toList, v)).isOk = true ↔ v = "YES".toList := by
  have hk : ∀ k : String, k ∈ ["ID", "CLASS", "START-DATE", "END-DATE", "DURATION", "PLANNED-DURATION", "SCTE35-CMD", "SCTE35-OUT", "SCTE35-IN"] →
      ("END-ON-NEXT".toList == k.toList) = false := by decide
  simp only [ExtXDateRange.step, hk "ID" (by simp), hk "CLASS" (by simp), hk "START-DATE" (by simp), hk "END-DATE" (by simp),
    hk "DURATION" (by simp), hk "PLANNED-DURATION" (by simp), hk "SCTE35-CMD" (by simp), hk "SCTE35-OUT" (by simp),
    hk "SCTE35-IN" (by simp), Bool.false_eq_true, if_false, beq_self_eq_true, if_true]
  by_cases h : v = "YES".toList
  · subst h; simp [Res.isOk]
  · have : (v != "YES".toList) = true := by simpa using h
    rw [this]
    simp only [if_true, Res.isOk]
    constructor
    · intro e; cases e
    · intro e; exact absurd e h

/-- a negative, NaN, infinite or too large DURATION / PLANNED-DURATION is rejected (not a panic) -/
theorem duration_text_rejected (s : Str) (neg : Bool) (m : Nat) (e : Int)
    (h : parseFloat fmt64 s = some (.fin neg m e)) (hbad : (neg = true ∧ m ≠ 0) ∨ toNanos m e = none) :
    parseSecs s = .err := by
  unfold parseSecs
  rw [h]
  rcases hbad with ⟨h1, h2⟩ | h3
  · simp [h1, h2]
  · cases neg <;> simp [h3]

theorem duration_special_rejected (s : Str) (h : parseFloat fmt64 s = some .nan ∨ (∃ n, parseFloat fmt64 s = some (.inf n)) ∨ parseFloat fmt64 s = none) :
    parseSecs s = .err := by
  unfold parseSecs
  rcases h with h | ⟨n, h⟩ | h <;> rw [h]

/-- a client attribute name with a lowercase, non-ASCII or non `[A-Z0-9-]` character is rejected -/
theorem client_attribute_name_rejected (a : ExtXDateRangeAcc) (k v : Str) (hx : startsWith k "X-".toList = true)
    (hbad : k.any badClientAttrChar = true) : ExtXDateRange.step a (k, v) = .err := by
  have hne : ∀ n : String, n ∈ ["ID", "CLASS", "START-DATE", "END-DATE", "DURATION", "PLANNED-DURATION", "SCTE35-CMD",
      "SCTE35-OUT", "SCTE35-IN", "END-ON-NEXT"] → (k == n.toList) = false := by
    intro n hn
    cases hk : k == n.toList
    · rfl
    · have := eq_of_beq hk; subst this
      simp only [List.mem_cons, List.mem_nil_iff, or_false] at hn
      rcases hn with rfl|rfl|rfl|rfl|rfl|rfl|rfl|rfl|rfl|rfl <;> revert hx <;> decide
  simp only [ExtXDateRange.step, hne "ID" (by simp), hne "CLASS" (by simp), hne "START-DATE" (by simp), hne "END-DATE" (by simp),
    hne "DURATION" (by simp), hne "PLANNED-DURATION" (by simp), hne "SCTE35-CMD" (by simp), hne "SCTE35-OUT" (by simp),
    hne "SCTE35-IN" (by simp), hne "END-ON-NEXT" (by simp), Bool.false_eq_true, if_false, hx, hbad, if_true]

/-- FULL STATEMENT (not true of the current code — recorded finding K6): the builder enforces
`DateRangeRules`. What holds: `ExtXDateRangeBuilder::build` only needs `id`. -/
theorem dateRange_builder_partial (b : ExtXDateRangeBuilder) : (b.build).isOk = true ↔ b.id.isSome = true := by
  cases h : b.id <;> simp [ExtXDateRangeBuilder.build, h, Res.isOk]

theorem dateRange_builder_counterexample :
    ∃ b : ExtXDateRangeBuilder, (b.build).isOk = true ∧
      ¬ DateRangeRules { id := b.id, «class» := b.«class», end_on_next := b.end_on_next.getD false } :=
  ⟨{ id := some ['a'], end_on_next := some true }, by decide, by simp [DateRangeRules]⟩

/-! ## EXT-X-SESSION-DATA -/

theorem sessionData_finish_ok_iff (a : ExtXSessionDataAcc) :
    (ExtXSessionData.finish a).isOk = true ↔
      a.data_id.isSome = true ∧ ((a.session_value.isSome = true ∧ a.uri = none) ∨ (a.session_value = none ∧ a.uri.isSome = true)) := by
  obtain ⟨i, v, u, l⟩ := a
  cases i <;> cases v <;> cases u <;> simp [ExtXSessionData.finish, Res.isOk]

theorem sessionData_builder_ok_iff (b : ExtXSessionDataBuilder) :
    (b.build).isOk = true ↔ b.data_id.isSome = true ∧ b.data.isSome = true := by
  obtain ⟨i, d, l⟩ := b
  cases i <;> cases d <;> simp [ExtXSessionDataBuilder.build, Res.isOk]

/-! ## keys -/

theorem decryptionKey_finish_ok_iff (a : DecryptionKeyAcc) :
    (DecryptionKey.finish a).isOk = true ↔ a.method.isSome = true ∧ a.uri.isSome = true := by
  obtain ⟨m, u, i, f, v⟩ := a
  cases m <;> cases u <;> simp [DecryptionKey.finish, Res.isOk]

/-- the URI attribute only counts when it is non-empty after trimming -/
theorem decryptionKey_uri_nonempty (a : DecryptionKeyAcc) (v : Str) (a' : DecryptionKeyAcc)
    (h : DecryptionKey.step a ("URI".toList, v) = .ok a') (hnone : a.uri = none) :
    a'.uri.isSome = true ↔ (trim (unquote v)).isEmpty = false := by
  have h1 : ("URI".toList == "METHOD".toList) = false := by decide
  simp only [DecryptionKey.step, h1, Bool.false_eq_true, if_false, beq_self_eq_true, if_true] at h
  cases he : (trim (unquote v)).isEmpty <;> simp [he] at h <;> subst h <;> simp [hnone]

/-- `METHOD` accepts exactly the RFC's names (table regenerated from the source) -/
theorem method_values (s : Str) : (EncryptionMethod.parse s).isOk = true ↔ s = "AES-128".toList ∨ s = "SAMPLE-AES".toList := by
  have e : EncryptionMethod.parse s =
      if "AES-128".toList == s then .ok .aes128 else if "SAMPLE-AES".toList == s then .ok .sampleAes else .err := by
    simp only [EncryptionMethod.parse, Generated.encryptionMethodNames, lookupIdx, lookupIdx.go]
    split
    · rfl
    · split <;> rfl
  rw [e]
  cases h1 : "AES-128".toList == s
  · cases h2 : "SAMPLE-AES".toList == s
    · simp only [Bool.false_eq_true, if_false, Res.isOk]
      constructor
      · intro h; cases h
      · rintro (h | h)
        · subst h; simp at h1
        · subst h; simp at h2
    · have := eq_of_beq h2; subst this; simp [Res.isOk]
  · have := eq_of_beq h1; subst this; simp [Res.isOk]

/-- an IV must be `0x`/`0X` followed by exactly 32 hex digits -/
theorem iv_syntax (s : Str) (v : InitializationVector) (h : InitializationVector.parse s = .ok v) :
    (startsWith s "0x".toList = true ∨ startsWith s "0X".toList = true) ∧ utf8Len (s.drop 2) = 32 ∧
    ∃ bs, hexDecode? (s.drop 2) = some bs ∧ v = .aes128 (bytesToNat bs) := by
  unfold InitializationVector.parse at h
  by_cases hp : (startsWith s "0x".toList || startsWith s "0X".toList) = true
  · rw [hp] at h
    simp only [Bool.not_true, Bool.false_eq_true, if_false] at h
    by_cases hl : utf8Len (s.drop 2) = 32
    · have hl' : (utf8Len (s.drop 2) != 32) = false := by simp [hl]
      rw [hl'] at h
      simp only [Bool.false_eq_true, if_false] at h
      cases hb : hexDecode? (s.drop 2) with
      | none => rw [hb] at h; cases h
      | some bs =>
        rw [hb] at h
        simp only [Res.ok.injEq] at h
        exact ⟨by simpa using hp, hl, bs, rfl, h.symm⟩
    · have hl' : (utf8Len (s.drop 2) != 32) = true := by simp [hl]
      rw [hl'] at h; cases h
  · have hp' : (startsWith s "0x".toList || startsWith s "0X".toList) = false := by simpa using hp
    rw [hp'] at h; cases h

/-- at most 9 key format versions -/
theorem versions_capacity (s : Str) (v : KeyFormatVersions) (h : KeyFormatVersions.parse s = .ok v) : v.items.length ≤ 9 := by
  unfold KeyFormatVersions.parse at h
  cases hm : mapRes (fun p => parseNat 8 p) (splitAll '/' (unquote s)) with
  | ok items =>
    rw [hm] at h
    simp only [Res.bind_ok] at h
    split at h
    · cases h
    · rename_i hl; simp only [Res.pure_eq, Res.ok.injEq] at h; subst h; simpa using hl
  | err => rw [hm] at h; cases h
  | panic => rw [hm] at h; cases h

/-- `DecryptionKeyBuilder::build` demands METHOD and a non-blank URI, like the text parser (full statement since the
`fix:` that added the URI test to the builder's `validate`; before it an empty URI built — former finding K6b) -/
theorem decryptionKey_builder_ok_iff (b : DecryptionKeyBuilder) :
    (b.build).isOk = true ↔ b.method.isSome = true ∧ ∃ u, b.uri = some u ∧ (trim u).isEmpty = false := by
  obtain ⟨m, u, i, f, v⟩ := b
  cases m with
  | none => cases u <;> simp [DecryptionKeyBuilder.build, Res.isOk]
  | some m0 =>
    cases u with
    | none => simp [DecryptionKeyBuilder.build, Res.isOk]
    | some u0 =>
      simp only [DecryptionKeyBuilder.build]
      cases h : (trim u0).isEmpty
      · simp only [Bool.false_eq_true, if_false, Res.isOk, Option.isSome_some, true_and]
        exact ⟨fun _ => ⟨u0, rfl, h⟩, fun _ => trivial⟩
      · simp only [if_true, Res.isOk, Option.isSome_some, true_and]
        constructor
        · intro e; cases e
        · rintro ⟨u, e, hu⟩; cases e; rw [h] at hu; cases hu

/-- the former counterexample: an empty URI no longer builds -/
theorem decryptionKey_builder_empty_uri_rejected :
    (({ method := some .aes128, uri := some [] } : DecryptionKeyBuilder).build).isOk = false := by decide

/-! ## stream tags, EXT-X-START -/

theorem streamData_finish_ok_iff (a : StreamDataAcc) : (StreamData.finish a).isOk = true ↔ a.bandwidth.isSome = true := by
  obtain ⟨b, ab, c, r, h, v⟩ := a
  cases b <;> simp [StreamData.finish, Res.isOk]

theorem streamData_builder_ok_iff (b : StreamDataBuilder) : (b.build).isOk = true ↔ b.bandwidth.isSome = true := by
  obtain ⟨bw, ab, c, r, h, v⟩ := b
  cases bw <;> simp [StreamDataBuilder.build, Res.isOk]

/-- an I-frame stream needs a URI attribute (and BANDWIDTH through `StreamData`) -/
theorem iframe_needs_uri (s r : Str) (h1 : stripTag s pfxIFrameStreamInf = .ok r) (h2 : firstUri (attrPairs r) = none) :
    VariantStream.parse s = .err := by
  simp [VariantStream.parse, h1, h2]

theorem yes_no_values (s : Str) : (parseYesNo s).isOk = true ↔ s = "YES".toList ∨ s = "NO".toList := by
  unfold parseYesNo
  by_cases h1 : s = "YES".toList
  · subst h1; decide
  · by_cases h2 : s = "NO".toList
    · subst h2; decide
    · have e1 : (s == "YES".toList) = false := by simpa using h1
      have e2 : (s == "NO".toList) = false := by simpa using h2
      rw [e1, e2]
      simp only [Bool.false_eq_true, if_false, Res.isOk]
      constructor
      · intro e; cases e
      · rintro (e | e)
        · exact absurd e h1
        · exact absurd e h2

theorem start_needs_time_offset (s : Str) (t : ExtXStart) (h : ExtXStart.parse s = .ok t) :
    ∃ r a, stripTag s pfxStart = .ok r ∧ foldRes ExtXStart.step {} (attrPairs r) = .ok a ∧ a.time_offset = some t.time_offset := by
  unfold ExtXStart.parse at h
  cases h1 : stripTag s pfxStart with
  | ok r =>
    rw [h1] at h; simp only [Res.bind_ok] at h
    cases h2 : foldRes ExtXStart.step {} (attrPairs r) with
    | ok a =>
      rw [h2] at h; simp only [Res.bind_ok] at h
      cases ht : a.time_offset with
      | none => rw [ht] at h; cases h
      | some x => rw [ht] at h; simp only [Res.pure_eq, Res.ok.injEq] at h; subst h; exact ⟨r, a, rfl, h2, ht⟩
    | err => rw [h2] at h; cases h
    | panic => rw [h2] at h; cases h
  | err => rw [h1] at h; cases h
  | panic => rw [h1] at h; cases h

/-! ## non-vacuity -/
def exSub : ExtXMediaBuilder :=
  { media_type := some MediaType.subtitles, group_id := some "g".toList, name := some "n".toList, uri := some "u".toList,
    is_forced := some true }
def exAud : ExtXMediaBuilder :=
  { media_type := some MediaType.audio, group_id := some "g".toList, name := some "n".toList, is_forced := some true }
example : exSub.build.isOk = true ∧ exAud.build.isOk = false := by decide

/-! ## enumerated values: exactly the names of the table, nothing dressed -/

theorem lookupIdx_go_mem (names : List String) (s : Str) (i j : Nat) (h : lookupIdx.go s names i = some j) :
    ∃ n ∈ names, n.toList = s := by
  induction names generalizing i with
  | nil => simp [lookupIdx.go] at h
  | cons n ns ih =>
    simp only [lookupIdx.go] at h
    by_cases hn : (n.toList == s) = true
    · exact ⟨n, by simp, eq_of_beq hn⟩
    · simp only [hn, Bool.false_eq_true, if_false] at h
      obtain ⟨m, hm, hs⟩ := ih (i + 1) h
      exact ⟨m, by simp [hm], hs⟩

/-- a string found in a name table IS one of the names (the lookup compares whole strings) -/
theorem lookupIdx_mem (names : List String) (s : Str) (j : Nat) (h : lookupIdx names s = some j) :
    ∃ n ∈ names, n.toList = s := lookupIdx_go_mem names s 0 j h

/-- no name of any enumerated type regenerated from the source contains a quote, an apostrophe or a blank -/
theorem enum_names_bare : ∀ n ∈ Generated.encryptionMethodNames ++ Generated.hdcpLevelNames ++ Generated.mediaTypeNames ++ Generated.inStreamIdNames,
    ∀ c ∈ n.toList, c ≠ '"' ∧ c ≠ '\'' ∧ c ≠ ' ' := by decide +kernel

/-- `TYPE`, `HDCP-LEVEL`, `INSTREAM-ID`: a value is accepted only if it is one of the table's names as written — so a value
dressed with quotes (`"AUDIO"`, `AUD"IO`), apostrophes or blanks is rejected, as `END-ON-NEXT="YES"` (`dateRange_end_on_next`),
`METHOD="AES-128"` (`method_values`) and `DEFAULT="YES"` (`yes_no_values`) are -/
theorem mediaType_values (s : Str) (h : (MediaType.parse s).isOk = true) : ∃ n ∈ Generated.mediaTypeNames, n.toList = s := by
  unfold MediaType.parse at h
  cases hl : lookupIdx Generated.mediaTypeNames s with
  | none => rw [hl] at h; simp [Res.ofOpt, Res.isOk] at h
  | some j => exact lookupIdx_mem _ _ _ hl

theorem hdcpLevel_values (s : Str) (h : (HdcpLevel.parse s).isOk = true) : ∃ n ∈ Generated.hdcpLevelNames, n.toList = s := by
  unfold HdcpLevel.parse at h
  cases hl : lookupIdx Generated.hdcpLevelNames s with
  | none => rw [hl] at h; simp [Res.ofOpt, Res.isOk] at h
  | some j => exact lookupIdx_mem _ _ _ hl

theorem inStreamId_values (s : Str) (h : (InStreamId.parse s).isOk = true) : ∃ n ∈ Generated.inStreamIdNames, n.toList = s := by
  unfold InStreamId.parse at h
  cases hl : lookupIdx Generated.inStreamIdNames s with
  | none => rw [hl] at h; simp [Res.isOk] at h
  | some j => exact lookupIdx_mem _ _ _ hl

/-- hence: a quote anywhere in the value of an enumerated attribute means rejection -/
theorem enum_quote_rejected (s : Str) (hq : '"' ∈ s) :
    (MediaType.parse s).isOk = false ∧ (HdcpLevel.parse s).isOk = false ∧ (InStreamId.parse s).isOk = false ∧
    (EncryptionMethod.parse s).isOk = false ∧ (parseYesNo s).isOk = false := by
  have bare := enum_names_bare
  refine ⟨?_, ?_, ?_, ?_, ?_⟩
  · cases h : (MediaType.parse s).isOk with
    | false => rfl
    | true =>
      obtain ⟨n, hn, rfl⟩ := mediaType_values s h
      exact absurd rfl (bare n (by simp [hn]) '"' hq).1
  · cases h : (HdcpLevel.parse s).isOk with
    | false => rfl
    | true =>
      obtain ⟨n, hn, rfl⟩ := hdcpLevel_values s h
      exact absurd rfl (bare n (by simp [hn]) '"' hq).1
  · cases h : (InStreamId.parse s).isOk with
    | false => rfl
    | true =>
      obtain ⟨n, hn, rfl⟩ := inStreamId_values s h
      exact absurd rfl (bare n (by simp [hn]) '"' hq).1
  · cases h : (EncryptionMethod.parse s).isOk with
    | false => rfl
    | true =>
      rcases (method_values s).mp h with rfl | rfl <;> exact absurd hq (by decide)
  · cases h : (parseYesNo s).isOk with
    | false => rfl
    | true =>
      rcases (yes_no_values s).mp h with rfl | rfl <;> exact absurd hq (by decide)

end Hls.C14
