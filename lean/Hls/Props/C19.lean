import Hls.Proofs.Order
/-!
# C19 — equality, ordering and hashing of the hand-written impls are coherent

The three types with hand-written `PartialEq`/`Ord`/`Hash` are `KeyFormatVersions`, `Float`,
`UFloat`; every other public type derives them (structural equality / lexicographic order /
field-wise hashing — trusted base), so the laws lift through `cmpList`, `cmpOpt`, `ordThen`
(`Hls/Proofs/Order.lean`). The derived order of `DecryptionKey` / `ExtXKey` is modelled too
because the library relies on it for the set of keys in effect.
-/
namespace Hls.C19
open Hls

/-- KeyFormatVersions: `==` is true exactly on identical content (no false equality), reflexive;
`cmp = Equal` exactly when `==`; equal values feed the same bytes to the hasher;
`cmp` is antisymmetric and transitive. -/
theorem kfv_laws (a b c : KeyFormatVersions) :
    (a.eq b = true ↔ a = b) ∧ a.eq a = true ∧
    (a.cmp b = .eq ↔ a.eq b = true) ∧
    (a.eq b = true → a.hashBytes = b.hashBytes) ∧
    (a.cmp b).swap = b.cmp a ∧
    (a.cmp b = .lt → b.cmp c = .lt → a.cmp c = .lt) := by
  have hl := cmpList_lawful cmpNat_lawful
  have h1 : a.eq b = true ↔ a = b := by
    cases a; cases b
    simp only [KeyFormatVersions.eq, KeyFormatVersions.mk.injEq]
    constructor
    · intro h; split at h
      · simpa using h
      · cases h
    · intro h; subst h; simp
  refine ⟨h1, by simp [KeyFormatVersions.eq], ?_, ?_, hl.swap _ _, hl.trans_lt _ _ _⟩
  · rw [h1]; cases a; cases b; simp [KeyFormatVersions.cmp, hl.eq_iff]
  · intro h; rw [h1.mp h]

/-- non-vacuity / regression witness for the defect that was fixed (`eq` compared `self` with
`self`): two different values of equal length are *not* equal, and `cmp`, hash agree with that -/
theorem kfv_distinct_example :
    (⟨[1, 2]⟩ : KeyFormatVersions).eq ⟨[3, 4]⟩ = false ∧
    (⟨[1, 2]⟩ : KeyFormatVersions).cmp ⟨[3, 4]⟩ = .lt ∧
    (⟨[1, 2]⟩ : KeyFormatVersions).hashBytes ≠ (⟨[3, 4]⟩ : KeyFormatVersions).hashBytes := by
  decide

/-- a finite binary32 pattern -/
abbrev Finite32 (a : Float32) : Prop := a.bits < 2 ^ 32

theorem key_determines_bits (a b : Float32) (ha : Finite32 a) (hb : Finite32 b)
    (hk : a.key = b.key) (hz : a.key ≠ 0) : a.bits = b.bits := by
  unfold Finite32 at ha hb
  unfold Float32.key at hk hz
  simp only [beq_iff_eq] at hk hz
  split at hk <;> split at hk <;> simp_all <;> omega

/-- Float / UFloat: reflexive `==`; `cmp = Equal` exactly when `==`; `==` means the same real
value (equal order keys; `+0 == -0` by IEEE design); equal values feed the same bytes to the
hasher (`Float` hashes both zeros as `+0`; `UFloat` has no negative zero); antisymmetric,
transitive. -/
theorem f32_laws (a b c : Float32) (ha : Finite32 a) (hb : Finite32 b) :
    a.eq a = true ∧
    (a.eq b = true ↔ a.key = b.key) ∧
    (a.cmp b = .eq ↔ a.eq b = true) ∧
    (a.eq b = true → a.hashBytesFloat = b.hashBytesFloat) ∧
    (a.eq b = true → a.bits < 2 ^ 31 → b.bits < 2 ^ 31 → a.hashBytesUFloat = b.hashBytesUFloat) ∧
    (a.cmp b).swap = b.cmp a ∧
    (a.cmp b = .lt → b.cmp c = .lt → a.cmp c = .lt) := by
  refine ⟨by simp [Float32.eq], by simp [Float32.eq], ?_, ?_, ?_, ?_, ?_⟩
  · simp only [Float32.cmp, Float32.eq, beq_iff_eq]
    split
    · rename_i h; simp; omega
    · split <;> simp_all
  · intro h
    have hk : a.key = b.key := by simpa [Float32.eq] using h
    unfold Float32.hashBytesFloat
    by_cases hz : a.key = 0
    · have hz' : b.key = 0 := by omega
      simp [hz, hz']
    · have hz' : ¬ b.key = 0 := by omega
      simp [hz, hz', key_determines_bits a b ha hb hk hz]
  · intro h h31a h31b
    have hk : a.key = b.key := by simpa [Float32.eq] using h
    unfold Float32.hashBytesUFloat
    have : a.bits = b.bits := by
      unfold Float32.key at hk
      simp only [beq_iff_eq] at hk
      split at hk <;> split at hk <;> simp_all <;> omega
    rw [this]
  · simp only [Float32.cmp, Float32.eq, beq_iff_eq]
    by_cases h1 : a.key < b.key
    · have : ¬ b.key < a.key := by omega
      have : ¬ b.key = a.key := by omega
      simp [*, Ordering.swap]
    · by_cases h2 : a.key = b.key
      · simp [h2, Ordering.swap]
      · have : b.key < a.key := by omega
        have : ¬ b.key = a.key := by omega
        simp [*, Ordering.swap]
  · simp only [Float32.cmp, Float32.eq, beq_iff_eq]
    intro h1 h2
    have h1' : a.key < b.key := by
      by_cases h : a.key < b.key
      · exact h
      · simp [h] at h1; split at h1 <;> simp at h1
    have h2' : b.key < c.key := by
      by_cases h : b.key < c.key
      · exact h
      · simp [h] at h2; split at h2 <;> simp at h2
    have : a.key < c.key := by omega
    simp [this]

/-- non-vacuity: `+0` and `-0` are finite, equal, `cmp`-equal and hash alike; 1.5 ≠ 2.5 -/
example : Finite32 ⟨0⟩ ∧ Finite32 ⟨0x80000000⟩ ∧ Float32.eq ⟨0⟩ ⟨0x80000000⟩ = true ∧
    Float32.hashBytesFloat ⟨0⟩ = Float32.hashBytesFloat ⟨0x80000000⟩ ∧
    Float32.cmp ⟨0x3fc00000⟩ ⟨0x40200000⟩ = .lt := by decide

/-! ## the derived order the key set relies on -/

/-- `derive(Ord)` on `DecryptionKey` is `Equal` exactly on identical keys -/
theorem decryptionKey_cmp_laws (a b c : DecryptionKey) :
    (a.cmp b = .eq ↔ a = b) ∧ (a.cmp b).swap = b.cmp a ∧ (a.cmp b = .lt → b.cmp c = .lt → a.cmp c = .lt) :=
  ⟨decryptionKeyCmp_lawful.eq_iff a b, decryptionKeyCmp_lawful.swap a b, decryptionKeyCmp_lawful.trans_lt a b c⟩

/-- the order of `ExtXKey` (`Option<DecryptionKey>`, the element type of the set of keys in
effect): `Equal` exactly on identical values, antisymmetric, transitive -/
theorem extXKey_cmp_laws (a b c : ExtXKey) :
    (ExtXKey.cmp a b = .eq ↔ a = b) ∧ (ExtXKey.cmp a b).swap = ExtXKey.cmp b a ∧
    (ExtXKey.cmp a b = .lt → ExtXKey.cmp b c = .lt → ExtXKey.cmp a c = .lt) :=
  ⟨extXKeyCmp_lawful.eq_iff a b, extXKeyCmp_lawful.swap a b, extXKeyCmp_lawful.trans_lt a b c⟩

end Hls.C19
