import Hls.Proofs.DateRangeRT
import Hls.Proofs.MasterWrittenRT
/-!
# C18, composite tags — the text form of every attribute-list tag reads back to the value

`Props/C18.lean` has the value types (enum tables, integers, ranges, codecs, key formats, hex, IV); the
helper files that prove the tag-level round trips import it, so their results are restated here as the
property's second file. Each `…_rt` says `parse (to_string v) = v` for the value domain named in its `WF`
predicate (strings without quote / line end, integers below 2^64, the tag's own rules, and — the only facts
taken as hypotheses — Rust's float formatting reading back: `FloatRT`, `FrameRateRT`, the seconds pairs).
`line_*` says that the written line, handed to the line classifier, comes back as the same typed line.
-/
namespace Hls.C18T
open Hls

theorem decryptionKey (k : DecryptionKey) (h : k.WF) : DecryptionKey.parse k.show = .ok k := decryptionKey_rt k h
theorem sessionData (t : ExtXSessionData) (h : t.WF) : ExtXSessionData.parse t.show = .ok t := sessionData_rt t h
theorem media (t : ExtXMedia) (h : t.WF) : ExtXMedia.parse t.show = .ok t := media_rt t h
theorem start (t : ExtXStart) (hf : FloatRT t.time_offset) : ExtXStart.parse t.show = .ok t := start_rt t hf
theorem dateRange (t : ExtXDateRange) (h : t.WF) : ExtXDateRange.parse t.show = .ok t := dateRange_rt t h
theorem iframeStreamInf (uri : Str) (d : StreamData) (hu : Quotable uri) (hd : d.WF) :
    VariantStream.parse (VariantStream.extXIFrame uri d).show = .ok (.extXIFrame uri d) := iframe_rt uri d hu hd
theorem streamInf (uri : Str) (fr : Option Float32) (au su : Option Str) (cc : Option ClosedCaptions) (d : StreamData)
    (h : StreamInfWF uri fr au su cc d) :
    VariantStream.parse (VariantStream.extXStreamInf uri fr au su cc d).show = .ok (.extXStreamInf uri fr au su cc d) := by
  rw [streamInf_show_eq]
  have := streamInf_rt uri fr au su cc d h
  simpa using this
theorem clientValue_string (v : Str) (hq : Quotable v) : Value.parse (Value.show (.string v)) = .ok (.string v) := (value_string_rt v hq).1
theorem clientValue_hex (bs : List Nat) (h : ∀ b ∈ bs, b < 256) : Value.parse (Value.show (.hex bs)) = .ok (.hex bs) := (value_hex_rt bs h).1

/-- every line of a media playlist in `MediaWF`, written and classified again, is the same typed line -/
theorem line_media_playlist (p : MediaPlaylist) (wf : MediaWF p) (lines : List Line) (h : p.writeLines = .ok lines) :
    ∀ l ∈ lines, LineRT l := written_lines_rt p wf lines h
/-- every line of a master playlist in `MasterWF` -/
theorem line_master_playlist (p : MasterPlaylist) (wf : MasterWF p) : ∀ l ∈ p.writeLines, LineRT l := master_written_lines_rt p wf

end Hls.C18T
