import Hls.Proofs.KeySet
import Hls.Proofs.Fold
import Hls.Proofs.ParserInv
/-!
# C06 — EXT-X-KEY scoping: each segment and map reports exactly the keys in effect

Specification (RFC 8216 §4.3.2.4): the keys in effect are either the explicit "unencrypted"
marker (after `METHOD=NONE`) or a partial map from key formats (absent KEYFORMAT ≡ identity) to
the latest key of that format. The parser state refines this specification line by line.
-/
namespace Hls.C06
open Hls

/-! ## specification -/

inductive KeySpec where
  | marker
  | keys (m : KeyFormat → Option DecryptionKey)

def KeySpec.init : KeySpec := .keys fun _ => none

/-- effect of one `EXT-X-KEY` line -/
def KeySpec.step : KeySpec → ExtXKey → KeySpec
  | _, none => .marker
  | .marker, some k => .keys fun f => if f = normFormat k then some k else none
  | .keys m, some k => .keys fun f => if f = normFormat k then some k else m f

/-- the list `a` lists exactly the keys in effect described by the specification -/
def Abs (a : List ExtXKey) : KeySpec → Prop
  | .marker => a = [none]
  | .keys m => (∀ x ∈ a, x ≠ none) ∧ ∀ k, some k ∈ a ↔ m (normFormat k) = some k

/-! ## one step -/

theorem findRemove_none {k : DecryptionKey} {a : List ExtXKey} (hn : ∀ x ∈ a, x ≠ none) :
    findRemove k a = none ↔ ∀ o, some o ∈ a → normFormat o ≠ normFormat k := by
  induction a with
  | nil => simp [findRemove]
  | cons x xs ih =>
    cases x with
    | none => exact absurd rfl (hn none (by simp))
    | some o =>
      have hn' : ∀ x ∈ xs, x ≠ none := fun x hx => hn x (by simp [hx])
      simp only [findRemove]
      split
      · rename_i h
        have h' : normFormat o = normFormat k := by simpa using h
        constructor
        · intro hh; cases hh
        · intro hh; exact absurd h' (hh o (by simp))
      · rename_i h
        have h' : normFormat o ≠ normFormat k := by simpa using h
        rw [ih hn']
        constructor
        · intro hh o' ho'
          simp only [List.mem_cons, Option.some.injEq] at ho'
          rcases ho' with rfl | ho'
          · exact h'
          · exact hh o' ho'
        · intro hh o' ho'; exact hh o' (by simp [ho'])

theorem findRemove_some {k : DecryptionKey} {a : List ExtXKey} (hn : ∀ x ∈ a, x ≠ none) {r : ExtXKey}
    (h : findRemove k a = some r) : ∃ o, r = some o ∧ some o ∈ a ∧ normFormat o = normFormat k := by
  induction a with
  | nil => simp [findRemove] at h
  | cons x xs ih =>
    cases x with
    | none => exact absurd rfl (hn none (by simp))
    | some o =>
      have hn' : ∀ x ∈ xs, x ≠ none := fun x hx => hn x (by simp [hx])
      simp only [findRemove] at h
      split at h
      · rename_i hf
        simp only [Option.some.injEq] at h; subst h
        exact ⟨o, rfl, by simp, by simpa using hf⟩
      · obtain ⟨o', h1, h2, h3⟩ := ih hn' h
        exact ⟨o', h1, by simp [h2], h3⟩

/-- **one-step refinement**: the parser's update of the keys in effect implements the
specification's step -/
theorem abs_step (a : List ExtXKey) (s : KeySpec) (x : ExtXKey) (ha : Abs a s) :
    Abs (updateKeys a x) (s.step x) := by
  cases x with
  | none => cases s <;> simp [updateKeys, KeySpec.step, Abs]
  | some k =>
    cases s with
    | marker =>
      simp only [Abs] at ha; subst ha
      simp only [updateKeys, findRemove, setRemove, KeySpec.step, Abs]
      have : (List.filter (fun y => ExtXKey.cmp none y != .eq) [none] : List ExtXKey) = [] := by
        simp [List.filter, (xkey_cmp_eq none none).mpr rfl]
      rw [this]
      simp only [setInsert, List.mem_singleton]
      refine ⟨by intro x hx; subst hx; simp, ?_⟩
      intro k'
      constructor
      · intro h; simp only [Option.some.injEq] at h; subst h; simp
      · intro h
        split at h
        · simpa using h.symm
        · cases h
    | keys m =>
      obtain ⟨hn, hm⟩ := ha
      have huniq : ∀ k1 k2, some k1 ∈ a → some k2 ∈ a → normFormat k1 = normFormat k2 → k1 = k2 := by
        intro k1 k2 h1 h2 hf
        have e1 := (hm k1).mp h1
        have e2 := (hm k2).mp h2
        rw [hf, e2] at e1
        exact (Option.some.inj e1).symm
      simp only [updateKeys, KeySpec.step, Abs]
      cases hfr : findRemove k a with
      | none =>
        have hno := (findRemove_none hn).mp hfr
        simp only []
        refine ⟨?_, ?_⟩
        · intro x hx
          rcases (mem_setInsert _ _ _).mp hx with rfl | hx
          · simp
          · exact hn x hx
        · intro k'
          rw [mem_setInsert]
          constructor
          · rintro (h | h)
            · simp only [Option.some.injEq] at h; subst h; simp
            · have := hno k' h
              simp only [this, if_false]
              exact (hm k').mp h
          · intro h
            split at h
            · left; simpa using h.symm
            · right; exact (hm k').mpr h
      | some r =>
        obtain ⟨o, rfl, ho, hof⟩ := findRemove_some hn hfr
        simp only []
        refine ⟨?_, ?_⟩
        · intro x hx
          rcases (mem_setInsert _ _ _).mp hx with rfl | hx
          · simp
          · exact hn x ((mem_setRemove _ _ _).mp hx).1
        · intro k'
          rw [mem_setInsert, mem_setRemove]
          constructor
          · rintro (h | ⟨h, hne⟩)
            · simp only [Option.some.injEq] at h; subst h; simp
            · have hf : normFormat k' ≠ normFormat k := by
                intro hf; apply hne; congr 1; exact huniq k' o h ho (hf.trans hof.symm)
              simp only [hf, if_false]
              exact (hm k').mp h
          · intro h
            split at h
            · left; simpa using h.symm
            · rename_i hf
              right
              refine ⟨(hm k').mpr h, ?_⟩
              intro he
              simp only [Option.some.injEq] at he; subst he
              exact hf hof

/-! ## what a snapshot guarantees -/

/-- no two keys of the same key format; the marker never next to a real key -/
theorem abs_unique (a : List ExtXKey) (s : KeySpec) (ha : Abs a s) :
    (∀ k1 k2, some k1 ∈ a → some k2 ∈ a → normFormat k1 = normFormat k2 → k1 = k2) ∧
    (none ∈ a → a = [none]) := by
  cases s with
  | marker => simp only [Abs] at ha; subst ha; simp
  | keys m =>
    obtain ⟨hn, hm⟩ := ha
    refine ⟨?_, fun h => absurd rfl (hn none h)⟩
    intro k1 k2 h1 h2 hf
    have e1 := (hm k1).mp h1
    have e2 := (hm k2).mp h2
    rw [hf, e2] at e1
    exact (Option.some.inj e1).symm

/-- `Decryptable::keys()` is the snapshot without the marker: exactly the keys of the map -/
theorem decryptable_abs (a : List ExtXKey) (m : KeyFormat → Option DecryptionKey) (ha : Abs a (.keys m)) (k : DecryptionKey) :
    k ∈ decryptableKeys a ↔ m (normFormat k) = some k := by
  unfold decryptableKeys
  simp only [List.mem_filterMap, id]
  rw [← ha.2 k]
  constructor
  · rintro ⟨x, hx, rfl⟩; exact hx
  · intro h; exact ⟨some k, h, rfl⟩

theorem decryptable_marker : decryptableKeys [none] = [] := rfl

/-! ## the parser refines the specification over every line history -/

/-- specification state while reading lines: keys in effect, snapshot taken by a pending
`EXT-X-MAP`, and per finished segment (snapshot at its URI line, snapshot of its map) -/
structure SpecSt where
  cur : KeySpec := .init
  pendingMap : Option KeySpec := none
  segs : List (KeySpec × Option KeySpec) := []

def specStep (s : SpecSt) : Line → SpecSt
  | .key k => { s with cur := s.cur.step k }
  | .map _ => { s with pendingMap := some s.cur }
  | .uri _ => { s with segs := s.segs ++ [(s.cur, s.pendingMap)], pendingMap := none }
  | _ => s

def MapRel : Option ExtXMap → Option KeySpec → Prop
  | none, none => True
  | some m, some k => Abs m.keys k ∧ KSorted m.keys
  | _, _ => False

def SegRel (keys : List ExtXKey) (map : Option ExtXMap) (sp : KeySpec × Option KeySpec) : Prop :=
  Abs keys sp.1 ∧ KSorted keys ∧ MapRel map sp.2

def SegsRel : List MediaSegment → List (KeySpec × Option KeySpec) → Prop
  | [], [] => True
  | s :: ss, p :: ps => SegRel s.keys s.map p ∧ SegsRel ss ps
  | _, _ => False

theorem SegsRel_append {a : List MediaSegment} {b : List (KeySpec × Option KeySpec)} (h : SegsRel a b)
    (s : MediaSegment) (p : KeySpec × Option KeySpec) (hs : SegRel s.keys s.map p) :
    SegsRel (a ++ [s]) (b ++ [p]) := by
  induction a generalizing b with
  | nil => cases b with
    | nil => exact ⟨hs, trivial⟩
    | cons _ _ => cases h
  | cons x xs ih => cases b with
    | nil => cases h
    | cons y ys => exact ⟨h.1, ih h.2⟩

/-- refinement relation between parser state and specification state -/
def Rel (st : PState) (sp : SpecSt) : Prop :=
  Abs st.available_keys sp.cur ∧ KSorted st.available_keys ∧
  MapRel st.segment.map sp.pendingMap ∧ SegsRel st.segments sp.segs

theorem rel_init (b : MediaPlaylistBuilder) : Rel { builder := b } {} := by
  refine ⟨⟨by simp, by simp [KeySpec.init]⟩, trivial, trivial, trivial⟩

theorem rel_step (st st' : PState) (sp : SpecSt) (l : Line) (hr : Rel st sp)
    (h : mediaStep st l = .ok st') : Rel st' (specStep sp l) := by
  obtain ⟨h1, h2, h3, h4⟩ := hr
  cases l with
  | key k =>
    simp only [mediaStep, Res.ok.injEq] at h; subst h
    exact ⟨abs_step _ _ _ h1, KSorted_updateKeys _ _ h2, h3, h4⟩
  | map m =>
    simp only [mediaStep, Res.ok.injEq] at h; subst h
    exact ⟨h1, h2, ⟨h1, h2⟩, h4⟩
  | uri u =>
    simp only [mediaStep] at h
    split at h
    · rename_i seg hseg
      simp only [Res.ok.injEq] at h; subst h
      unfold MediaSegmentBuilder.build at hseg
      split at hseg
      · simp only [Res.ok.injEq, Option.getD_some] at hseg
        subst hseg
        refine ⟨h1, h2, trivial, SegsRel_append h4 _ _ ⟨h1, h2, h3⟩⟩
      · cases hseg
    · cases h
    · cases h
  | discontinuitySequence n =>
    simp only [mediaStep] at h
    split at h
    · cases h
    · split at h
      · cases h
      · simp only [Res.ok.injEq] at h; subst h; exact ⟨h1, h2, h3, h4⟩
  | media _ => simp [mediaStep] at h
  | variant _ => simp [mediaStep] at h
  | sessionData _ => simp [mediaStep] at h
  | sessionKey _ => simp [mediaStep] at h
  | version _ => simp only [mediaStep, Res.ok.injEq] at h; subst h; exact ⟨h1, h2, h3, h4⟩
  | comment _ => simp only [mediaStep, Res.ok.injEq] at h; subst h; exact ⟨h1, h2, h3, h4⟩
  | inf _ => simp only [mediaStep, Res.ok.injEq] at h; subst h; exact ⟨h1, h2, h3, h4⟩
  | byteRange _ => simp only [mediaStep, Res.ok.injEq] at h; subst h; exact ⟨h1, h2, h3, h4⟩
  | discontinuity => simp only [mediaStep, Res.ok.injEq] at h; subst h; exact ⟨h1, h2, h3, h4⟩
  | programDateTime _ => simp only [mediaStep, Res.ok.injEq] at h; subst h; exact ⟨h1, h2, h3, h4⟩
  | dateRange _ => simp only [mediaStep, Res.ok.injEq] at h; subst h; exact ⟨h1, h2, h3, h4⟩
  | targetDuration _ => simp only [mediaStep, Res.ok.injEq] at h; subst h; exact ⟨h1, h2, h3, h4⟩
  | mediaSequence _ => simp only [mediaStep, Res.ok.injEq] at h; subst h; exact ⟨h1, h2, h3, h4⟩
  | endList => simp only [mediaStep, Res.ok.injEq] at h; subst h; exact ⟨h1, h2, h3, h4⟩
  | playlistType _ => simp only [mediaStep, Res.ok.injEq] at h; subst h; exact ⟨h1, h2, h3, h4⟩
  | iFramesOnly => simp only [mediaStep, Res.ok.injEq] at h; subst h; exact ⟨h1, h2, h3, h4⟩
  | independentSegments => simp only [mediaStep, Res.ok.injEq] at h; subst h; exact ⟨h1, h2, h3, h4⟩
  | start _ => simp only [mediaStep, Res.ok.injEq] at h; subst h; exact ⟨h1, h2, h3, h4⟩
  | unknown _ => simp only [mediaStep, Res.ok.injEq] at h; subst h; exact ⟨h1, h2, h3, h4⟩

/-- **refinement over every line history** (induction over the lines) -/
theorem rel_fold (ls : List Line) (st st' : PState) (sp : SpecSt) (hr : Rel st sp)
    (h : foldRes mediaStep st ls = .ok st') : Rel st' (ls.foldl specStep sp) := by
  induction ls generalizing st sp with
  | nil => simp only [foldRes, Res.ok.injEq] at h; subst h; exact hr
  | cons l ls ih =>
    simp only [foldRes] at h
    cases hs : mediaStep st l with
    | ok s1 => rw [hs] at h; exact ih s1 (specStep sp l) (rel_step st s1 sp l hr hs) h
    | err => rw [hs] at h; cases h
    | panic => rw [hs] at h; cases h

/-! ## through `build`: the reported keys are the snapshot, with the IV completed (C07) -/

/-- the final segment reports the snapshot `ks` of the specification at its URI line (each key with
its IV completed from the segment number, which changes neither format nor method nor URI), and its
map reports the snapshot at the `EXT-X-MAP` line -/
def FinalRel (seg : MediaSegment) (sp : KeySpec × Option KeySpec) : Prop :=
  ∃ ks, Abs ks sp.1 ∧ KSorted ks ∧ seg.keys = ks.map (completeIv seg.number) ∧ MapRel seg.map sp.2

def FinalsRel : List MediaSegment → List (KeySpec × Option KeySpec) → Prop
  | [], [] => True
  | s :: ss, p :: ps => FinalRel s p ∧ FinalsRel ss ps
  | _, _ => False

theorem finals_of_built (seq : Nat) (a b : List MediaSegment) (sps : List (KeySpec × Option KeySpec))
    (i : Nat) (prev : Option ByteRange) (hr : SegsRel a sps) (hb : Built seq i prev a b) : FinalsRel b sps := by
  induction a generalizing b sps i prev with
  | nil =>
    cases b with
    | nil => cases sps with
      | nil => trivial
      | cons _ _ => cases hr
    | cons _ _ => cases hb
  | cons x xs ih =>
    cases b with
    | nil => cases hb
    | cons y ys =>
      cases sps with
      | nil => cases hr
      | cons sp sps =>
        obtain ⟨h1, h2⟩ := hb
        obtain ⟨n, br, _, _, e⟩ := buildOne_ok _ _ _ _ _ h1
        refine ⟨⟨x.keys, hr.1.1, hr.1.2.1, ?_, ?_⟩, ih _ _ _ _ hr.2 h2⟩
        · subst e; rfl
        · subst e; exact hr.1.2.2

/-- **C06 over typed lines**: for every line history accepted by the media state machine, segment
`i` of the result reports exactly the keys the specification has in effect at its URI line, and its
initialization section the keys in effect at the `EXT-X-MAP` line. -/
theorem keys_in_effect_lines (b : MediaPlaylistBuilder) (ls : List Line) (p : MediaPlaylist)
    (h : assembleMedia b ls = .ok p) : FinalsRel p.segments (ls.foldl specStep {}).segs := by
  obtain ⟨st, hf, _, hb, _⟩ := assembleMedia_ok b ls p h
  have hr := rel_fold ls _ st {} (rel_init b) hf
  exact finals_of_built _ _ _ _ _ _ hr.2.2.2 hb

/-- **C06 for every input text** (any builder configuration, so also `FromStr` and
`MediaPlaylistBuilder::parse`): an accepted text decomposes into classified lines, and the
reported keys are the specification's snapshots over exactly those lines. -/
theorem keys_in_effect (b : MediaPlaylistBuilder) (s : Str) (p : MediaPlaylist)
    (h : parseMediaWith b s = .ok p) :
    ∃ (rest : Str) (ls : List Line), stripTag s pfxM3u = .ok rest ∧ lineItems rest = ls.map Res.ok ∧
      FinalsRel p.segments (ls.foldl specStep {}).segs := by
  obtain ⟨rest, ls, h1, h2, h3⟩ := parseMediaWith_ok b s p h
  exact ⟨rest, ls, h1, h2, keys_in_effect_lines b ls p h3⟩

theorem normFormat_completeIv (n : Nat) (k k' : DecryptionKey) (h : completeIv n (some k) = some k') :
    normFormat k' = normFormat k := by
  simp only [completeIv] at h
  split at h
  · injection h with h; subst h; rfl
  · injection h with h; subst h; rfl

theorem finals_mem {segs : List MediaSegment} {sps : List (KeySpec × Option KeySpec)} (h : FinalsRel segs sps)
    (seg : MediaSegment) (hs : seg ∈ segs) : ∃ sp, FinalRel seg sp := by
  induction segs generalizing sps with
  | nil => cases hs
  | cons x xs ih =>
    cases sps with
    | nil => cases h
    | cons sp sps =>
      rcases List.mem_cons.mp hs with rfl | hs
      · exact ⟨sp, h.1⟩
      · exact ih h.2 hs

/-- **no segment ever reports two keys of the same key format**, and the marker is never mixed
with real keys — for every accepted input text -/
theorem no_two_keys_same_format (b : MediaPlaylistBuilder) (s : Str) (p : MediaPlaylist)
    (h : parseMediaWith b s = .ok p) (seg : MediaSegment) (hs : seg ∈ p.segments)
    (k1 k2 : DecryptionKey) (h1 : some k1 ∈ seg.keys) (h2 : some k2 ∈ seg.keys)
    (hf : normFormat k1 = normFormat k2) : k1 = k2 := by
  obtain ⟨_, ls, _, _, hfin⟩ := keys_in_effect b s p h
  obtain ⟨sp, ks, ha, _, hk, _⟩ := finals_mem hfin seg hs
  rw [hk] at h1 h2
  obtain ⟨x1, hx1, e1⟩ := List.mem_map.mp h1
  obtain ⟨x2, hx2, e2⟩ := List.mem_map.mp h2
  cases x1 with
  | none => simp [completeIv] at e1
  | some y1 =>
    cases x2 with
    | none => simp [completeIv] at e2
    | some y2 =>
      have f1 := normFormat_completeIv _ _ _ e1
      have f2 := normFormat_completeIv _ _ _ e2
      have : y1 = y2 := (abs_unique ks sp.1 ha).1 y1 y2 hx1 hx2 (by rw [← f1, ← f2, hf])
      subst this
      rw [e1] at e2
      exact Option.some.inj e2

/-! ## non-vacuity: a concrete history with accumulation, replacement and reset -/

example :
    let k (u : String) (f : Option KeyFormat) : DecryptionKey := ⟨.aes128, u.toList, .missing, f, none⟩
    let inf : Line := .inf ⟨1000000000, none⟩
    (match assembleMedia {} [.targetDuration 10000000000,
        .key (some (k "a" none)), .key (some (k "b" (some (.other "f".toList)))), inf, .uri "s0".toList,
        .key (some (k "c" (some .identity))), inf, .uri "s1".toList,
        .key none, inf, .uri "s2".toList] with
      | .ok p => p.segments.map (fun s => s.keys.map (Option.map (·.uri)))
      | _ => []) =
    [[some "a".toList, some "b".toList], [some "b".toList, some "c".toList], [none]] := by
  decide

end Hls.C06
