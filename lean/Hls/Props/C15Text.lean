import Hls.Props.C15
import Hls.Props.C12
import Hls.Props.C01Text
import Hls.Proofs.DispatchAt
/-!
# C15 at string level (second property file of C15): foreign tags, stated about the characters of the text

`C15.master_rejects_media_tags` / `media_rejects_master_tags` speak about classified lines. Here: in any text the master
parser accepts, no line in tag position (every trimmed non-empty line except the one that follows `#EXT-X-STREAM-INF`)
starts with the prefix of a media-playlist or media-segment tag — WHATEVER follows the colon, well-formed or not — none is
one of the three value-less media tags, and none is a bare URI line. Symmetrically no line of an accepted media playlist
text starts with the prefix of a master-playlist tag.
-/
namespace Hls.C15T
open Hls

/-- the lines in tag position: all of them except the one after an `#EXT-X-STREAM-INF` line (its URI, whatever it is) -/
def tagPosition : List Str → List Str
  | [] => []
  | [l] => [l]
  | l :: u :: rest =>
    if startsWith l Generated.streamInfPrefix.toList then l :: tagPosition rest else l :: tagPosition (u :: rest)
termination_by l => l.length

/-- every line in tag position is a `STREAM-INF` line or is classified on its own -/
theorem items_cover (R : List Str) (ls : List Line) (h : items R = ls.map Res.ok) :
    ∀ l ∈ tagPosition R, startsWith l siPfx = true ∨ ∃ x ∈ ls, classify1 l = .ok x := by
  fun_induction tagPosition R generalizing ls with
  | case1 => intro l hl; cases hl
  | case2 l =>
    intro m hm
    simp only [List.mem_singleton] at hm; subst hm
    rw [items] at h
    by_cases hs : startsWith m Generated.streamInfPrefix.toList = true
    · exact .inl (by simpa [siPfx] using hs)
    · simp only [hs, Bool.false_eq_true, if_false] at h
      cases ls with
      | nil => simp at h
      | cons x ls' =>
        simp only [List.map_cons, List.cons.injEq] at h
        exact .inr ⟨x, by simp, h.1⟩
  | case3 l u rest hl ih =>
    intro m hm
    rw [items] at h
    simp only [hl, if_true] at h
    cases ls with
    | nil => simp at h
    | cons x ls' =>
      simp only [List.map_cons, List.cons.injEq] at h
      rcases List.mem_cons.mp hm with e | hm'
      · subst e; exact .inl (by simpa [siPfx] using hl)
      · rcases ih ls' h.2 m hm' with a | ⟨y, hy, hc⟩
        · exact .inl a
        · exact .inr ⟨y, by simp [hy], hc⟩
  | case4 l u rest hl ih =>
    intro m hm
    rw [items] at h
    simp only [hl, Bool.false_eq_true, if_false] at h
    cases ls with
    | nil => simp at h
    | cons x ls' =>
      simp only [List.map_cons, List.cons.injEq] at h
      rcases List.mem_cons.mp hm with e | hm'
      · subst e; exact .inr ⟨x, by simp, h.1⟩
      · rcases ih ls' h.2 m hm' with a | ⟨y, hy, hc⟩
        · exact .inl a
        · exact .inr ⟨y, by simp [hy], hc⟩

theorem startsWith_split (l p : Str) (h : startsWith l p = true) : ∃ r, l = p ++ r := by
  unfold startsWith at h
  rw [List.isPrefixOf_iff_prefix] at h
  obtain ⟨r, e⟩ := h
  exact ⟨r, e.symm⟩

/-- the prefixes of the media-playlist / media-segment tags that carry a value -/
def mediaValuePrefixes : List Str :=
  [pfxInf, pfxByteRange, pfxDiscontinuitySequence, pfxKey, pfxMap, pfxProgramDateTime, pfxTargetDuration, pfxDateRange,
   pfxMediaSequence, playlistTypePrefix]

/-- the value-less media tags -/
def mediaFlagTags : List Str := [pfxDiscontinuity, pfxEndList, pfxIFramesOnly]

/-- the prefixes of the master-playlist tags -/
def masterPrefixes : List Str := [pfxMedia, pfxIFrameStreamInf, siPfx, pfxSessionData, pfxSessionKey]

theorem kind_of_map {α} (parse : Str → Res α) (ctor : α → Line) (l : Str) (x : Line)
    (h : (parse l).map ctor = .ok x) : ∃ a, x = ctor a := by
  rw [C05.Res.map_eq_ok] at h
  obtain ⟨a, _, e⟩ := h
  exact ⟨a, e.symm⟩

/-- a line that starts with a media value-tag prefix is a media tag or nothing at all — never an unknown tag -/
theorem media_prefix_kind (l : Str) (x : Line) (hc : classify1 l = .ok x)
    (hp : ∃ p ∈ mediaValuePrefixes, startsWith l p = true) : C15.isMediaKind x = true := by
  obtain ⟨p, hm, hs⟩ := hp
  obtain ⟨r, rfl⟩ := startsWith_split l p hs
  simp only [mediaValuePrefixes, List.mem_cons, List.mem_nil_iff, or_false] at hm
  rcases hm with rfl | rfl | rfl | rfl | rfl | rfl | rfl | rfl | rfl | rfl
  · rw [classify1_ext _ (C12.ext_prefix _ _ (by decide)), dispatch_inf] at hc
    obtain ⟨a, rfl⟩ := kind_of_map _ _ _ _ hc; rfl
  · rw [classify1_ext _ (C12.ext_prefix _ _ (by decide)), dispatch_byteRange] at hc
    obtain ⟨a, rfl⟩ := kind_of_map _ _ _ _ hc; rfl
  · rw [classify1_ext _ (C12.ext_prefix _ _ (by decide)), dispatch_discontinuitySequence] at hc
    obtain ⟨a, rfl⟩ := kind_of_map _ _ _ _ hc; rfl
  · rw [classify1_ext _ (C12.ext_prefix _ _ (by decide)), dispatch_key] at hc
    obtain ⟨a, rfl⟩ := kind_of_map _ _ _ _ hc; rfl
  · rw [classify1_ext _ (C12.ext_prefix _ _ (by decide)), dispatch_map] at hc
    obtain ⟨a, rfl⟩ := kind_of_map _ _ _ _ hc; rfl
  · rw [classify1_ext _ (C12.ext_prefix _ _ (by decide)), dispatch_programDateTime] at hc
    obtain ⟨a, rfl⟩ := kind_of_map _ _ _ _ hc; rfl
  · rw [classify1_ext _ (C12.ext_prefix _ _ (by decide)), dispatch_targetDuration] at hc
    obtain ⟨a, rfl⟩ := kind_of_map _ _ _ _ hc; rfl
  · rw [classify1_ext _ (C12.ext_prefix _ _ (by decide)), dispatch_dateRange] at hc
    obtain ⟨a, rfl⟩ := kind_of_map _ _ _ _ hc; rfl
  · rw [classify1_ext _ (C12.ext_prefix _ _ (by decide)), dispatch_mediaSequence] at hc
    obtain ⟨a, rfl⟩ := kind_of_map _ _ _ _ hc; rfl
  · rw [classify1_ext _ (C12.ext_prefix _ _ (by decide)), dispatch_playlistType] at hc
    obtain ⟨a, rfl⟩ := kind_of_map _ _ _ _ hc; rfl

theorem media_flag_kind (l : Str) (x : Line) (hc : classify1 l = .ok x) (hf : l ∈ mediaFlagTags) :
    C15.isMediaKind x = true := by
  simp only [mediaFlagTags, List.mem_cons, List.mem_nil_iff, or_false] at hf
  rcases hf with rfl | rfl | rfl
  · rw [classify1_ext _ (by decide), dispatch_discontinuity] at hc; cases hc; rfl
  · rw [classify1_ext _ (by decide), dispatch_endList] at hc; cases hc; rfl
  · rw [classify1_ext _ (by decide), dispatch_iFramesOnly] at hc; cases hc; rfl

/-- **C15 (master side) for every input text**: no line in tag position of an accepted master playlist text starts with a
media tag's prefix (whatever follows it), is a value-less media tag, or is a bare URI -/
theorem master_rejects_text (s : Str) (p : MasterPlaylist) (h : parseMaster s = .ok p) :
    ∃ rest, stripTag s pfxM3u = .ok rest ∧ ∀ l ∈ tagPosition (rawLines rest),
      (∀ q ∈ mediaValuePrefixes, startsWith l q = false) ∧ l ∉ mediaFlagTags ∧ startsWith l ['#'] = true := by
  obtain ⟨rest, ls, h1, h2, hall⟩ := C15.master_rejects_media_tags s p h
  refine ⟨rest, h1, fun l hl => ?_⟩
  have hsi : ∀ q ∈ mediaValuePrefixes, startsWith l siPfx = true → startsWith l q = false := by
    intro q hq hs
    obtain ⟨r, rfl⟩ := startsWith_split l siPfx hs
    simp only [mediaValuePrefixes, List.mem_cons, List.mem_nil_iff, or_false] at hq
    rcases hq with rfl | rfl | rfl | rfl | rfl | rfl | rfl | rfl | rfl | rfl <;> rfl
  rcases items_cover (rawLines rest) ls h2 l hl with hs | ⟨x, hx, hc⟩
  · refine ⟨fun q hq => hsi q hq hs, ?_, ?_⟩
    · intro hf
      obtain ⟨r, rfl⟩ := startsWith_split l siPfx hs
      simp only [mediaFlagTags, List.mem_cons, List.mem_nil_iff, or_false] at hf
      have hp : startsWith (siPfx ++ r) siPfx = true := by
        unfold startsWith; rw [List.isPrefixOf_iff_prefix]; exact List.prefix_append _ _
      rcases hf with e | e | e <;> (rw [e] at hp; revert hp; decide)
    · obtain ⟨r, rfl⟩ := startsWith_split l siPfx hs; rfl
  · obtain ⟨hk, hu⟩ := hall x hx
    refine ⟨fun q hq => ?_, fun hf => ?_, ?_⟩
    · cases hq' : startsWith l q with
      | false => rfl
      | true => rw [media_prefix_kind l x hc ⟨q, hq, hq'⟩] at hk; cases hk
    · rw [media_flag_kind l x hc hf] at hk; cases hk
    · cases hh : startsWith l ['#'] with
      | true => rfl
      | false =>
        rw [C01T.plain_is_uri l hh] at hc
        simp only [Res.ok.injEq] at hc; subst hc
        simp [C15.isUri] at hu

/-- a line that starts with a master tag's prefix is a master tag or nothing at all -/
theorem master_prefix_kind (l : Str) (x : Line) (hc : classify1 l = .ok x)
    (hp : ∃ p ∈ masterPrefixes, startsWith l p = true) : C15.isMasterKind x = true := by
  obtain ⟨p, hm, hs⟩ := hp
  obtain ⟨r, rfl⟩ := startsWith_split l p hs
  simp only [masterPrefixes, List.mem_cons, List.mem_nil_iff, or_false] at hm
  rcases hm with rfl | rfl | rfl | rfl | rfl
  · rw [classify1_ext _ (C12.ext_prefix _ _ (by decide)), dispatch_media] at hc
    obtain ⟨a, rfl⟩ := kind_of_map _ _ _ _ hc; rfl
  · rw [classify1_ext _ (C12.ext_prefix _ _ (by decide)), dispatch_iFrameStreamInf] at hc
    obtain ⟨a, rfl⟩ := kind_of_map _ _ _ _ hc; rfl
  · have e : classify1 (siPfx ++ r) = (VariantStream.parse (siPfx ++ r)).map .variant := by
      rw [classify1_ext _ (C12.ext_prefix _ _ (by decide))]
      unfold siPfx Generated.streamInfPrefix; dispatch_eval
    rw [e] at hc
    obtain ⟨a, rfl⟩ := kind_of_map _ _ _ _ hc; rfl
  · rw [classify1_ext _ (C12.ext_prefix _ _ (by decide)), dispatch_sessionData] at hc
    obtain ⟨a, rfl⟩ := kind_of_map _ _ _ _ hc; rfl
  · rw [classify1_ext _ (C12.ext_prefix _ _ (by decide)), dispatch_sessionKey] at hc
    obtain ⟨a, rfl⟩ := kind_of_map _ _ _ _ hc; rfl

/-- **C15 (media side) for every input text and builder configuration**: no line of an accepted media playlist text
starts with the prefix of a master-playlist tag -/
theorem media_rejects_text (b : MediaPlaylistBuilder) (s : Str) (p : MediaPlaylist) (h : parseMediaWith b s = .ok p) :
    ∃ rest, stripTag s pfxM3u = .ok rest ∧ ∀ l ∈ rawLines rest, ∀ q ∈ masterPrefixes, startsWith l q = false := by
  obtain ⟨rest, ls, h1, h2, hall⟩ := C15.media_rejects_master_tags b s p h
  obtain ⟨rest', ls', h1', h2', h3'⟩ := parseMediaWith_ok b s p h
  rw [h1] at h1'; simp only [Res.ok.injEq] at h1'; subst h1'
  obtain ⟨st, hf, _⟩ := assembleMedia_ok b ls' p h3'
  have hfold : foldRes (liftItem mediaStep) { builder := b } (items (rawLines rest)) = .ok st := by
    have : items (rawLines rest) = ls'.map Res.ok := h2'
    rw [this, foldRes_liftItem_map_ok]; exact hf
  have hi := C01T.items_media (rawLines rest) _ st hfold
  have hmap : (rawLines rest).map classify1 = ls.map Res.ok := by rw [← hi]; exact h2
  refine ⟨rest, h1, fun l hl q hq => ?_⟩
  have : classify1 l ∈ ls.map Res.ok := by rw [← hmap]; exact List.mem_map.mpr ⟨l, hl, rfl⟩
  obtain ⟨x, hx, e⟩ := List.mem_map.mp this
  cases hq' : startsWith l q with
  | false => rfl
  | true =>
    have := master_prefix_kind l x e.symm ⟨q, hq, hq'⟩
    rw [hall x hx] at this; cases this

/-! non-vacuity: the line behind `#EXT-X-STREAM-INF` is not in tag position, everything else is -/
example : tagPosition ["#EXT-X-STREAM-INF:BANDWIDTH=1".toList, "#EXTINF:1,".toList, "#EXT-X-FOO".toList] =
    ["#EXT-X-STREAM-INF:BANDWIDTH=1".toList, "#EXT-X-FOO".toList] := by
  rw [tagPosition]; simp only [show startsWith "#EXT-X-STREAM-INF:BANDWIDTH=1".toList Generated.streamInfPrefix.toList = true by decide, if_true]
  rw [tagPosition]

end Hls.C15T
