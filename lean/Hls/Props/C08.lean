import Hls.Proofs.ParserInv
import Hls.Proofs.RoundTrip
/-!
# C08 — offset-less byte ranges continue the previous sub-range; others are verbatim
-/
namespace Hls.C08
open Hls

/-! ## acceptance: continuity -/

/-- declarative rule: every offset-less range directly follows a segment that is a sub-range of
the same URI. `prev` = the previous segment, if any. -/
def WellChained : List MediaSegment → Option MediaSegment → Prop
  | [], _ => True
  | s :: ss, prev =>
    (∀ r, s.byte_range = some r → r.start = none →
        ∃ p, prev = some p ∧ p.byte_range.isSome = true ∧ p.uri = s.uri) ∧
    WellChained ss (some s)

/-- relation between the validator's `last_range_uri` and the previous segment (the validator keeps
`last` unchanged across offset-less segments, which is sound because they have the same URI) -/
def Rel (last : Option Str) (prev : Option MediaSegment) : Prop :=
  match prev with
  | none => last = none
  | some p => (p.byte_range.isSome = true → last = some p.uri) ∧ (p.byte_range = none → last = none)

theorem checkRanges_iff (ss : List MediaSegment) (last : Option Str) (prev : Option MediaSegment)
    (h : Rel last prev) : checkRanges last ss = true ↔ WellChained ss prev := by
  induction ss generalizing last prev with
  | nil => simp [checkRanges, WellChained]
  | cons s ss ih =>
    simp only [checkRanges, WellChained]
    cases hr : s.byte_range with
    | none =>
      simp only []
      rw [ih none (some s) (by simp [Rel, hr])]
      simp
    | some r =>
      cases hst : r.start with
      | some o =>
        simp only [hst]
        rw [ih (some s.uri) (some s) (by simp [Rel, hr])]
        constructor
        · intro hw
          refine ⟨?_, hw⟩
          intro r' e hs
          simp only [Option.some.injEq] at e; subst e; rw [hst] at hs; cases hs
        · intro hw; exact hw.2
      | none =>
        simp only [hst]
        cases last with
        | none =>
          simp only [Bool.false_eq_true, false_iff]
          rintro ⟨hc, _⟩
          obtain ⟨p, hp, hps, _⟩ := hc r rfl hst
          subst hp
          have := h.1 hps
          cases this
        | some u =>
          simp only []
          by_cases hu : u = s.uri
          · subst hu
            simp only [bne_self_eq_false, Bool.false_eq_true, if_false]
            rw [ih (some s.uri) (some s) (by simp [Rel, hr])]
            constructor
            · intro hw
              refine ⟨?_, hw⟩
              intro r' e _
              cases prev with
              | none => simp [Rel] at h
              | some p =>
                refine ⟨p, rfl, ?_, ?_⟩
                · cases hp : p.byte_range with
                  | none => have := h.2 hp; cases this
                  | some _ => rfl
                · cases hp : p.byte_range with
                  | none => have := h.2 hp; cases this
                  | some _ =>
                    have := h.1 (by simp [hp])
                    exact (Option.some.inj this).symm
            · intro hw; exact hw.2
          · have hne : (u != s.uri) = true := by simpa using hu
            simp only [hne, if_true, Bool.false_eq_true, false_iff]
            rintro ⟨hc, _⟩
            obtain ⟨p, hp, hps, hpu⟩ := hc r rfl hst
            subst hp
            have := h.1 hps
            simp only [Option.some.injEq] at this
            exact hu (this.trans hpu)

/-- **acceptance**: the validator's byte-range loop accepts a segment list iff it is well chained -/
theorem validate_ranges_iff (ss : List MediaSegment) : checkRanges none ss = true ↔ WellChained ss none :=
  checkRanges_iff ss none none rfl

/-! ## resolution -/

/-- declarative resolution of one range given the previous segment's resolved range -/
def specResolve (prevSeg : Option (Option ByteRange)) : Option ByteRange → Option ByteRange
  | none => none
  | some r =>
    match r.start with
    | some _ => some r
    | none =>
      match prevSeg with
      | some (some p) => some ⟨some p.end_, min (r.end_ + p.end_) u64Max⟩
      | _ => some ⟨some 0, r.end_⟩

/-- all written lengths / ends fit in 64 bits (true of everything the text parser produces) -/
def InRange (r : Option ByteRange) : Prop := ∀ x, r = some x → x.end_ ≤ u64Max

theorem resolveRange_eq (prev : Option ByteRange) (r : Option ByteRange) (hp : InRange prev) :
    resolveRange prev r = .ok (specResolve (prev.map some) r) ∧
    InRange (specResolve (prev.map some) r) ∨ (∃ x, r = some x ∧ ¬ x.end_ ≤ u64Max) := by
  by_cases hr : ∃ x, r = some x ∧ ¬ x.end_ ≤ u64Max
  · exact Or.inr hr
  · left
    cases r with
    | none => exact ⟨rfl, by intro x e; cases e⟩
    | some x =>
      have hx : x.end_ ≤ u64Max := by
        by_cases h : x.end_ ≤ u64Max
        · exact h
        · exact absurd ⟨x, rfl, h⟩ hr
      cases hst : x.start with
      | some o =>
        simp only [resolveRange, specResolve, hst]
        refine ⟨by first | rfl | trivial, ?_⟩
        intro y e; simp only [Option.some.injEq] at e; subst e; exact hx
      | none =>
        cases prev with
        | none =>
          simp only [resolveRange, specResolve, hst, ByteRange.setStart, Option.map_none]
          simp only [Nat.not_lt_zero, if_false, Res.map, gt_iff_lt]
          refine ⟨by first | rfl | trivial, ?_⟩
          intro y e; simp only [Option.some.injEq] at e; subst e; exact hx
        | some p =>
          have hpe := hp p rfl
          simp only [resolveRange, specResolve, hst, Option.map_some, ByteRange.saturatingAdd, ByteRange.setStart]
          have hle : ¬ p.end_ > min (x.end_ + p.end_) (2 ^ 64 - 1) := by
            unfold u64Max at hpe; omega
          simp only [hle, if_false, Res.map]
          refine ⟨by first | rfl | trivial, ?_⟩
          intro y e; simp only [Option.some.injEq] at e; subst e
          simp only [u64Max]; omega

/-- ranges of the output, slot by slot, against the declarative resolution -/
def SpecRanges : Option (Option ByteRange) → List MediaSegment → List (Option ByteRange)
  | _, [] => []
  | prevSeg, s :: ss =>
    let r := specResolve prevSeg s.byte_range
    r :: SpecRanges (some r) ss

/-- **resolution.** On a well-chained list whose written values fit 64 bits, the `build` loop
(which threads one stale `previous_range` across range-less segments) computes the declarative
resolution: an offset-less range starts at the end of the immediately preceding segment's
sub-range and keeps its length; a range with offset is verbatim. -/
theorem built_ranges (seq : Nat) (a b : List MediaSegment) (i : Nat) (prevR : Option ByteRange)
    (prevSeg : Option MediaSegment) (pr : Option (Option ByteRange))
    (hw : WellChained a prevSeg) (hb : Built seq i prevR a b)
    (hin : ∀ s ∈ a, InRange s.byte_range) (hpin : InRange prevR)
    (hrel : ∀ p, prevSeg = some p → p.byte_range.isSome = true → pr = some prevR ∧ prevR.isSome = true) :
    b.map (·.byte_range) = SpecRanges pr a := by
  induction a generalizing b i prevR prevSeg pr with
  | nil =>
    cases b with
    | nil => rfl
    | cons _ _ => cases hb
  | cons x xs ih =>
    cases b with
    | nil => cases hb
    | cons y ys =>
      obtain ⟨hc, hw'⟩ := hw
      obtain ⟨h1, h2⟩ := hb
      obtain ⟨n, br, _, hres, e⟩ := buildOne_ok _ _ _ _ _ h1
      have hxin := hin x (by simp)
      have hybr : y.byte_range = br := by subst e; rfl
      rcases resolveRange_eq prevR x.byte_range hpin with ⟨he, hi'⟩ | ⟨z, hz, hbad⟩
      · rw [he] at hres
        simp only [Res.ok.injEq] at hres
        -- the model's resolution uses `prevR.map some`; relate it to `pr`
        have hspec : specResolve (prevR.map some) x.byte_range = specResolve pr x.byte_range := by
          cases hxr : x.byte_range with
          | none => rfl
          | some r =>
            cases hst : r.start with
            | some o => simp [specResolve, hst]
            | none =>
              obtain ⟨p, hp, hps, _⟩ := hc r hxr hst
              obtain ⟨e1, e2⟩ := hrel p hp hps
              subst e1
              cases prevR with
              | none => simp at e2
              | some q => rfl
        simp only [List.map_cons, SpecRanges, hybr, ← hres, hspec, List.cons.injEq, true_and]
        apply ih ys (i + 1) (nextPrev prevR y.byte_range) (some x) (some (specResolve pr x.byte_range)) hw' h2
          (fun s hs => hin s (by simp [hs]))
        · rw [hybr, ← hres, hspec]
          intro q hq
          unfold nextPrev at hq
          split at hq
          · rename_i r hr
            simp only [Option.some.injEq] at hq; subst hq
            rw [← hspec] at hr
            exact hi' r hr
          · exact hpin q hq
        · intro p hp hps
          simp only [Option.some.injEq] at hp; subst hp
          rw [hybr, ← hres, hspec]
          have hsome : (specResolve pr x.byte_range).isSome = true := by
            cases hb' : x.byte_range with
            | none => rw [hb'] at hps; cases hps
            | some r =>
              simp only [specResolve]
              cases r.start with
              | some _ => rfl
              | none => simp only []; split <;> rfl
          cases hs : specResolve pr x.byte_range with
          | none => rw [hs] at hsome; cases hsome
          | some q => exact ⟨rfl, rfl⟩
      · exact absurd (hxin z hz) hbad

theorem validate_checkRanges (b : MediaPlaylistBuilder) (segs : List MediaSegment) (td : Nat)
    (hs : b.segments = some (segs.map some)) (ht : b.target_duration = some td) (hv : b.validate = true) :
    checkRanges none segs = true := by
  unfold MediaPlaylistBuilder.validate at hv
  rw [ht] at hv
  simp only [MediaPlaylistBuilder.validateSegments, hs, slotValues_map_some, Bool.and_eq_true] at hv
  exact hv.2

/-- the byte-range lines of a history all fit 64 bits (true of every line the text classifier
produces: `ByteRange.parse` checks it) -/
def LinesInRange (ls : List Line) : Prop := ∀ r, Line.byteRange r ∈ ls → r.end_ ≤ u64Max

theorem segments_inRange (ls : List Line) (st st' : PState) (hl : LinesInRange ls)
    (hst : InRange st.segment.byte_range ∧ ∀ s ∈ st.segments, InRange s.byte_range)
    (h : foldRes mediaStep st ls = .ok st') :
    InRange st'.segment.byte_range ∧ ∀ s ∈ st'.segments, InRange s.byte_range := by
  induction ls generalizing st with
  | nil => simp only [foldRes, Res.ok.injEq] at h; subst h; exact hst
  | cons l ls ih =>
    simp only [foldRes] at h
    cases hs : mediaStep st l with
    | err => rw [hs] at h; cases h
    | panic => rw [hs] at h; cases h
    | ok s1 =>
      rw [hs] at h
      apply ih s1 (fun r hr => hl r (List.mem_cons_of_mem _ hr)) _ h
      obtain ⟨a, c⟩ := hst
      cases l
      case byteRange r =>
        simp only [mediaStep, Res.ok.injEq] at hs; subst hs
        refine ⟨?_, c⟩
        intro x e; simp only [Option.some.injEq] at e; subst e; exact hl r (by simp)
      case uri u =>
        simp only [mediaStep] at hs
        split at hs
        · rename_i seg hseg
          simp only [Res.ok.injEq] at hs; subst hs
          unfold MediaSegmentBuilder.build at hseg
          split at hseg
          · simp only [Res.ok.injEq] at hseg; subst hseg
            refine ⟨(by intro x e; cases e), ?_⟩
            intro s hs'
            rcases List.mem_append.mp hs' with hs' | hs'
            · exact c s hs'
            · simp only [List.mem_singleton] at hs'; subst hs'; exact a
          · cases hseg
        · cases hs
        · cases hs
      case discontinuitySequence n =>
        simp only [mediaStep] at hs
        split at hs
        · cases hs
        · split at hs
          · cases hs
          · simp only [Res.ok.injEq] at hs; subst hs; exact ⟨a, c⟩
      all_goals (first
        | (simp only [mediaStep, Res.ok.injEq] at hs; subst hs; exact ⟨a, c⟩)
        | (simp [mediaStep] at hs))

/-- **C08 (typed lines).** For every accepted line history (byte-range values within 64 bits, as
the text classifier guarantees): the parsed segments are well chained — so an offset-less range is
only accepted directly behind a sub-range of the same URI — and every reported range is the
declarative resolution. -/
theorem ranges_lines (b : MediaPlaylistBuilder) (ls : List Line) (p : MediaPlaylist)
    (hl : LinesInRange ls) (h : assembleMedia b ls = .ok p) :
    ∃ parsed : List MediaSegment, parsed.length = p.segments.length ∧ WellChained parsed none ∧
      p.segments.map (·.byte_range) = SpecRanges none parsed := by
  obtain ⟨st, hf, _, hb, _, htd, _, _, hval⟩ := assembleMedia_ok b ls p h
  have hinv := pinv_fold ls _ st (pinv_init b) hf
  have hin := segments_inRange ls _ st hl ⟨(by intro x e; cases e), (by intro s hs; cases hs)⟩ hf
  have hseg := setSegments_implicit st.builder st.segments hinv.2.2
  have hcr := validate_checkRanges _ st.segments p.target_duration hseg htd hval
  have hw := (validate_ranges_iff st.segments).mp hcr
  refine ⟨st.segments, Built_length hb, hw, ?_⟩
  exact built_ranges _ _ _ 0 none none none hw hb hin.2 (by intro x e; cases e) (by intro p e; cases e)

/-- a rejected chain: if the parsed segments are not well chained the history is not accepted -/
theorem not_chained_rejected (b : MediaPlaylistBuilder) (ls : List Line) (st : PState)
    (hf : foldRes mediaStep { builder := b } ls = .ok st) (hn : ¬ WellChained st.segments none) :
    ∀ p, assembleMedia b ls ≠ .ok p := by
  intro p h
  obtain ⟨st', hf', _, _, _, htd, _, _, hval⟩ := assembleMedia_ok b ls p h
  rw [hf] at hf'; simp only [Res.ok.injEq] at hf'; subst hf'
  have hinv := pinv_fold ls _ st (pinv_init b) hf
  have hseg := setSegments_implicit st.builder st.segments hinv.2.2
  exact hn ((validate_ranges_iff st.segments).mp (validate_checkRanges _ st.segments p.target_duration hseg htd hval))

/-! ## the text form -/

/-- a resolved range is written `length@start` and re-parses to itself -/
theorem resolved_range_text (r : ByteRange) (s : Nat) (hs : r.start = some s) (hle : s ≤ r.end_)
    (h64 : r.end_ < 2 ^ 64) :
    r.show = showNat (r.end_ - s) ++ '@' :: showNat s ∧ ByteRange.parse r.show = .ok r := by
  refine ⟨by simp [ByteRange.show, ByteRange.len, hs], byteRange_roundtrip r ⟨h64, ?_⟩⟩
  intro s' e; rw [hs] at e; simp only [Option.some.injEq] at e; subst e; exact hle

/-- `EXT-X-MAP BYTERANGE` is reported as written: the map parser stores `ByteRange.parse` of the
unquoted attribute, whatever follows in `build` -/
theorem map_range_verbatim (a : ExtXMapAcc) (v : Str) (a' : ExtXMapAcc)
    (h : ExtXMap.step a ("BYTERANGE".toList, v) = .ok a') :
    ∃ r, ByteRange.parse (unquote v) = .ok r ∧ a'.range = some r := by
  simp only [ExtXMap.step] at h
  have : ("BYTERANGE".toList == "URI".toList) = false := by decide
  simp only [this, Bool.false_eq_true, if_false, beq_self_eq_true, if_true] at h
  cases hp : ByteRange.parse (unquote v) with
  | ok r => rw [hp] at h; simp only [Res.bind_ok, Res.pure_eq, Res.ok.injEq] at h; subst h; exact ⟨r, rfl, rfl⟩
  | err => rw [hp] at h; simp at h
  | panic => rw [hp] at h; simp at h

/-! ## non-vacuity -/

example :
    let seg (u : String) (r : Option ByteRange) : Line := .uri u.toList
    let inf : Line := .inf ⟨1000000000, none⟩
    (match assembleMedia {} [.targetDuration 10000000000,
        .byteRange ⟨some 10, 30⟩, inf, .uri "a".toList,
        .byteRange ⟨none, 5⟩, inf, .uri "a".toList,
        inf, .uri "b".toList,
        .byteRange ⟨some 7, 9⟩, inf, .uri "c".toList, .byteRange ⟨none, 1⟩, inf, .uri "c".toList] with
      | .ok p => p.segments.map (·.byte_range)
      | _ => []) =
    [some ⟨some 10, 30⟩, some ⟨some 30, 35⟩, none, some ⟨some 7, 9⟩, some ⟨some 9, 10⟩] := by
  decide

/-- an offset-less range after a segment of another URI is rejected -/
example :
    let inf : Line := .inf ⟨1000000000, none⟩
    (assembleMedia {} [.targetDuration 10000000000, .byteRange ⟨some 10, 30⟩, inf, .uri "a".toList,
        .byteRange ⟨none, 5⟩, inf, .uri "b".toList]).isOk = false := by
  decide

end Hls.C08
