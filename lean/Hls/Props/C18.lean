import Hls.Proofs.Attr
/-!
# C18 — every attribute/tag value type round-trips through its own text form

`parse (show v) = ok v` for every value `v` of each type, inside the domain where the text form can
distinguish values (stated as explicit, satisfiable `WF` hypotheses). Enumerations are checked over
the whole table regenerated from the source. The IEEE-754 facts (shortest-digit printing round-trips)
are named hypotheses `FL1`/`FL2`, validated by the harness over all 2^32 patterns in the thorough tier.
-/
namespace Hls.C18
open Hls

/-! ## enumerations (whole tables) -/

theorem encryptionMethod_rt (m : EncryptionMethod) : EncryptionMethod.parse m.show = .ok m := by cases m <;> decide
theorem hdcpLevel_rt (m : HdcpLevel) : HdcpLevel.parse m.show = .ok m := by cases m <;> decide
theorem mediaType_rt (m : MediaType) : MediaType.parse m.show = .ok m := by cases m <;> decide
theorem playlistType_rt (m : PlaylistType) : PlaylistType.parse m.show = .ok m := by cases m <;> decide
theorem protocolVersion_rt : ∀ v ∈ [1, 2, 3, 4, 5, 6, 7], ProtocolVersion.parse (ProtocolVersion.show v) = .ok v := by decide
/-- all 67 in-stream ids -/
theorem inStreamId_rt : ∀ i ∈ List.range 67, InStreamId.parse (InStreamId.show ⟨i⟩) = .ok ⟨i⟩ := by decide +kernel
theorem inStreamId_count : Generated.inStreamIdNames.length = 67 ∧ Generated.inStreamIdVariants.length = 67 := by decide

/-! ## numbers and simple composites -/

theorem channels_rt (c : Channels) (h : c.number < 2 ^ 64) : Channels.parse c.show = .ok c := by
  obtain ⟨n, j⟩ := c
  cases j
  · simp only [Channels.show, Bool.false_eq_true, if_false, Channels.parse]
    rw [splitFirst_none _ _ (slash_notin_showNat n)]
    simp [parseNat_showNat 64 n h]
  · simp only [Channels.show, if_true, Channels.parse]
    have e : "/JOC".toList = '/' :: "JOC".toList := rfl
    rw [e, splitFirst_append _ _ _ (slash_notin_showNat n)]
    simp [parseNat_showNat 64 n h]

theorem resolution_rt (r : Resolution) (hw : r.width < 2 ^ 64) (hh : r.height < 2 ^ 64) : Resolution.parse r.show = .ok r := by
  obtain ⟨w, h⟩ := r
  simp only [Resolution.show, Resolution.parse, splitN2, List.append_assoc, List.singleton_append]
  rw [splitFirst_append _ _ _ (x_notin_showNat w)]
  simp [parseNat?_showNat 64 w hw, parseNat?_showNat 64 h hh]

theorem byteRange_rt (r : ByteRange) (h : r.WF) : ByteRange.parse r.show = .ok r := byteRange_roundtrip r h

/-! ## codecs -/

theorem splitAll_ne_nil (c : Char) (s : Str) : ∃ p ps, splitAll c s = p :: ps := by
  induction s with
  | nil => exact ⟨[], [], rfl⟩
  | cons x xs ih =>
    obtain ⟨p, ps, e⟩ := ih
    simp only [splitAll]
    split
    · exact ⟨[], _, rfl⟩
    · rw [e]; exact ⟨x :: p, ps, rfl⟩

theorem splitAll_prefix (a rest : Str) (p : Str) (ps : List Str) (ha : ',' ∉ a) (e : splitAll ',' rest = p :: ps) :
    splitAll ',' (a ++ rest) = (a ++ p) :: ps := by
  induction a with
  | nil => simpa using e
  | cons c cs ih =>
    have hc' : (c == ',') = false := by
      have : c ≠ ',' := fun e => ha (by simp [e])
      simpa using this
    simp only [List.cons_append, splitAll, hc', Bool.false_eq_true, if_false]
    rw [ih (fun e => ha (by simp [e]))]

theorem splitAll_join (l : List Str) (hne : l ≠ []) (hc : ∀ s ∈ l, ',' ∉ s) : splitAll ',' (joinWith [','] l) = l := by
  induction l with
  | nil => exact absurd rfl hne
  | cons x xs ih =>
    cases xs with
    | nil =>
      simp only [joinWith]
      have := splitAll_prefix x [] [] [] (hc x (by simp)) rfl
      simpa using this
    | cons y ys =>
      simp only [joinWith]
      have hrest : splitAll ',' (',' :: joinWith [','] (y :: ys)) = [] :: (y :: ys) := by
        simp only [splitAll, beq_self_eq_true, if_true]
        rw [ih (by simp) (fun s hs => hc s (by simp [hs]))]
      have := splitAll_prefix x _ _ _ (hc x (by simp)) hrest
      simpa using this

/-- a non-empty codec list whose items contain no comma round-trips -/
theorem codecs_rt (c : Codecs) (hne : c.list ≠ []) (hc : ∀ s ∈ c.list, ',' ∉ s) : Codecs.parse c.show = c := by
  obtain ⟨l⟩ := c
  simp only [Codecs.parse, Codecs.show, splitAll_join l hne hc]

/-! ## hex: initialization vectors and client attribute bytes -/

theorem hexDigit_rt (u : Bool) : ∀ n ∈ List.range 16, hexDigitVal? (hexChar u n) = some n := by cases u <;> decide

theorem hexDecode_encode (u : Bool) (bs : List Nat) (h : ∀ b ∈ bs, b < 256) : hexDecode? (hexEncode u bs) = some bs := by
  induction bs with
  | nil => rfl
  | cons b rest ih =>
    have hb := h b (by simp)
    have h1 : hexDigitVal? (hexChar u (b / 16)) = some (b / 16) := hexDigit_rt u _ (by simp; omega)
    have h2 : hexDigitVal? (hexChar u (b % 16)) = some (b % 16) := hexDigit_rt u _ (by simp; omega)
    simp only [hexEncode, List.flatMap_cons, List.cons_append, List.nil_append, hexDecode?, h1, h2]
    have := ih (fun x hx => h x (by simp [hx]))
    simp only [hexEncode] at this
    rw [this]
    simp; omega

theorem natToBytes_spec (n v : Nat) :
    (natToBytes n v).length = n ∧ (∀ b ∈ natToBytes n v, b < 256) ∧ bytesToNat (natToBytes n v) = v % 256 ^ n := by
  induction n generalizing v with
  | zero => simp [natToBytes, bytesToNat, Nat.mod_one]
  | succ n ih =>
    obtain ⟨a, b, c⟩ := ih (v / 256)
    refine ⟨by simp [natToBytes, a], ?_, ?_⟩
    · intro x hx
      simp only [natToBytes, List.mem_append, List.mem_singleton] at hx
      rcases hx with hx | hx
      · exact b x hx
      · subst hx; omega
    · simp only [natToBytes, bytesToNat, List.foldl_append, List.foldl_cons, List.foldl_nil]
      have : List.foldl (fun acc b => acc * 256 + b) 0 (natToBytes n (v / 256)) = (v / 256) % 256 ^ n := c
      rw [this, Nat.pow_succ]
      rw [Nat.mul_comm (256 ^ n) 256, Nat.mod_mul]
      generalize v / 256 % 256 ^ n = t
      omega

theorem hexChar_ascii (u : Bool) : ∀ n ∈ List.range 16, (hexChar u n).utf8Size = 1 := by cases u <;> decide

theorem hexEncode_utf8Len (u : Bool) (bs : List Nat) (h : ∀ b ∈ bs, b < 256) : utf8Len (hexEncode u bs) = 2 * bs.length := by
  induction bs with
  | nil => rfl
  | cons b rest ih =>
    have hb := h b (by simp)
    have h1 := hexChar_ascii u (b / 16) (by simp; omega)
    have h2 := hexChar_ascii u (b % 16) (by simp; omega)
    have := ih (fun x hx => h x (by simp [hx]))
    simp only [hexEncode, utf8Len, List.flatMap_cons, List.map_append, List.map_cons, List.map_nil, List.sum_append,
      List.sum_cons, List.sum_nil, h1, h2, List.length_cons] at this ⊢
    omega

theorem trimStartMatches_stop (p s : Str) (h : startsWith s p = false) : trimStartMatches p s = s := by
  unfold trimStartMatches
  cases hl : s.length with
  | zero => rfl
  | succ n => simp [trimStartMatches.go, h]

theorem upperHex_no_x (bs : List Nat) (h : ∀ b ∈ bs, b < 256) : ∀ c ∈ hexEncode true bs, c ≠ 'x' ∧ c ≠ 'X' := by
  have hn : ∀ n ∈ List.range 16, hexChar true n ≠ 'x' ∧ hexChar true n ≠ 'X' := by decide
  induction bs with
  | nil => intro c hc; cases hc
  | cons b rest ih =>
    intro c hc
    have hb := h b (by simp)
    simp only [hexEncode, List.flatMap_cons, List.cons_append, List.nil_append, List.mem_cons] at hc
    rcases hc with rfl | rfl | hc
    · exact hn _ (by simp; omega)
    · exact hn _ (by simp; omega)
    · exact ih (fun x hx => h x (by simp [hx])) c (by simpa [hexEncode] using hc)

theorem no_x_prefix (t : Str) (ht : ∀ c ∈ t, c ≠ 'x' ∧ c ≠ 'X') :
    startsWith t "0x".toList = false ∧ startsWith t "0X".toList = false := by
  match t, ht with
  | [], _ => exact ⟨rfl, rfl⟩
  | [c], _ =>
    constructor
    · show List.isPrefixOf ['0', 'x'] [c] = false
      simp [List.isPrefixOf]
    · show List.isPrefixOf ['0', 'X'] [c] = false
      simp [List.isPrefixOf]
  | c1 :: c2 :: r, ht =>
    have := ht c2 (by simp)
    constructor
    · show List.isPrefixOf ['0', 'x'] (c1 :: c2 :: r) = false
      simp only [List.isPrefixOf, Bool.and_eq_false_iff, beq_eq_false_iff_ne, ne_eq]
      right; left; exact fun e => this.1 e.symm
    · show List.isPrefixOf ['0', 'X'] (c1 :: c2 :: r) = false
      simp only [List.isPrefixOf, Bool.and_eq_false_iff, beq_eq_false_iff_ne, ne_eq]
      right; left; exact fun e => this.2 e.symm

theorem go_stop (p s : Str) (fuel : Nat) (h : startsWith s p = false) : trimStartMatches.go p fuel s = s := by
  cases fuel <;> simp [trimStartMatches.go, h]

/-- client attribute bytes round-trip (written as `0x` + uppercase hex) -/
theorem value_hex_rt (bs : List Nat) (h : ∀ b ∈ bs, b < 256) : Value.parse (Value.show (.hex bs)) = .ok (.hex bs) := by
  have hx := no_x_prefix _ (upperHex_no_x bs h)
  show Value.parse ('0' :: 'x' :: hexEncode true bs) = _
  unfold Value.parse
  have h1 : startsWith ('0' :: 'x' :: hexEncode true bs) "0x".toList = true := by simp [startsWith, List.isPrefixOf]
  have h2 : trimStartMatches "0x".toList ('0' :: 'x' :: hexEncode true bs) = hexEncode true bs := by
    unfold trimStartMatches
    have hd : ('0' :: 'x' :: hexEncode true bs).drop "0x".toList.length = hexEncode true bs := rfl
    have hne : ("0x".toList.isEmpty) = false := rfl
    simp only [List.length_cons, trimStartMatches.go, h1, hne, Bool.not_false, Bool.and_self, if_true, hd, hx.1,
      Bool.and_false, Bool.false_eq_true, if_false]
  rw [h1, h2, trimStartMatches_stop _ _ hx.2, hexDecode_encode true bs h]
  rfl

/-- **128-bit IVs round-trip** (written as `0x` + 32 lowercase hex digits) -/
theorem iv_rt (v : Nat) (h : v < 2 ^ 128) :
    InitializationVector.parse (InitializationVector.show (.aes128 v)) = .ok (.aes128 v) := by
  obtain ⟨hl, hb, hv⟩ := natToBytes_spec 16 v
  have hs : InitializationVector.show (.aes128 v) = "0x".toList ++ hexEncode false (natToBytes 16 v) := by
    unfold InitializationVector.show; rfl
  rw [hs]
  simp only [InitializationVector.parse]
  have h1 : startsWith ("0x".toList ++ hexEncode false (natToBytes 16 v)) "0x".toList = true := by
    simp [startsWith, List.isPrefixOf]
  have hd : ("0x".toList ++ hexEncode false (natToBytes 16 v)).drop 2 = hexEncode false (natToBytes 16 v) := by simp
  have hlen : utf8Len (hexEncode false (natToBytes 16 v)) = 32 := by rw [hexEncode_utf8Len false _ hb, hl]
  simp only [h1, Bool.true_or, Bool.not_true, Bool.false_eq_true, if_false, hd, hlen, bne_self_eq_false,
    hexDecode_encode false _ hb, hv]
  have : v % 256 ^ 16 = v := Nat.mod_eq_of_lt (by
    have e : (256 : Nat) ^ 16 = 2 ^ 128 := by rfl
    rw [e]; exact h)
  rw [this]

/-! ## strings in quotes: key formats, closed captions, client attribute strings -/

/-- a string the quoted form can carry: no double quote, CR or LF -/
def Quotable (s : Str) : Prop := s.all (fun c => !badQ c) = true

theorem keyFormat_rt (k : KeyFormat)
    (h : ∀ s, k = .other s → Quotable s ∧ s ≠ Generated.keyFormatIdentity.toList ∧ s ≠ Generated.keyFormatFairPlay.toList ∧
      s ≠ Generated.keyFormatWidevine.toList ∧ s ≠ Generated.keyFormatPlayReady.toList) :
    KeyFormat.parse k.show = k := by
  cases k with
  | identity => decide
  | fairPlay => decide
  | widevine => decide
  | playReady => decide
  | other s =>
    obtain ⟨hq, h1, h2, h3, h4⟩ := h s rfl
    simp only [KeyFormat.show, KeyFormat.text, KeyFormat.parse, unquote_quote s hq]
    simp [h1, h2, h3, h4]

theorem closedCaptions_rt (c : ClosedCaptions) (h : ∀ g, c = .groupId g → Quotable g) :
    ClosedCaptions.parse c.show = c := by
  cases c with
  | none => decide
  | groupId g =>
    have hq := h g rfl
    simp only [ClosedCaptions.show, ClosedCaptions.parse, unquote_quote g hq]
    have : trim (quote g) ≠ "NONE".toList := by
      rw [trim_id _ (wfVal_quote g hq).2.2.1 (wfVal_quote g hq).2.2.2]
      unfold quote; intro e; simp at e
    have this' : (trim (quote g) == "NONE".toList) = false := by simpa using this
    simp only [this', Bool.false_eq_true, if_false]

/-! ## key format versions -/

theorem splitAll_join_slash (l : List Nat) (hne : l ≠ []) :
    splitAll '/' (joinWith ['/'] (l.map showNat)) = l.map showNat := by
  have key : ∀ (a rest : Str) (p : Str) (ps : List Str), '/' ∉ a → splitAll '/' rest = p :: ps → splitAll '/' (a ++ rest) = (a ++ p) :: ps := by
    intro a rest p ps ha e
    induction a with
    | nil => simpa using e
    | cons c cs ih =>
      have hc' : (c == '/') = false := by
        have : c ≠ '/' := fun e => ha (by simp [e])
        simpa using this
      simp only [List.cons_append, splitAll, hc', Bool.false_eq_true, if_false]
      rw [ih (fun e => ha (by simp [e]))]
  induction l with
  | nil => exact absurd rfl hne
  | cons x xs ih =>
    cases xs with
    | nil =>
      simp only [List.map_cons, List.map_nil, joinWith]
      have := key (showNat x) [] [] [] (slash_notin_showNat x) rfl
      simpa using this
    | cons y ys =>
      simp only [List.map_cons, joinWith]
      have hrest : splitAll '/' ('/' :: joinWith ['/'] (showNat y :: ys.map showNat)) = [] :: (showNat y :: ys.map showNat) := by
        simp only [splitAll, beq_self_eq_true, if_true]
        have := ih (by simp)
        simp only [List.map_cons] at this
        rw [this]
      have := key (showNat x) _ _ _ (slash_notin_showNat x) hrest
      simpa using this

theorem mapRes_parse_show (l : List Nat) (h : ∀ n ∈ l, n < 256) : mapRes (fun p => parseNat 8 p) (l.map showNat) = .ok l := by
  induction l with
  | nil => rfl
  | cons x xs ih =>
    simp only [List.map_cons, mapRes, parseNat_showNat 8 x (by have := h x (by simp); omega), ih (fun n hn => h n (by simp [hn]))]

/-- a non-empty list of at most 9 versions (each a `u8`) round-trips; `[1]` is written `"1"` -/
theorem keyFormatVersions_rt (v : KeyFormatVersions) (hne : v.items ≠ []) (hlen : v.items.length ≤ 9)
    (hb : ∀ n ∈ v.items, n < 256) : KeyFormatVersions.parse v.show = .ok v := by
  obtain ⟨l⟩ := v
  simp only at hne hlen hb
  have hq : ∀ (t : Str), (∀ c ∈ t, badQ c = false) → unquote (['"'] ++ t ++ ['"']) = t := by
    intro t ht
    have : Quotable t := by simpa [Quotable] using ht
    have := unquote_quote t this
    have hf : t.filter (· != '"') = t := by
      apply List.filter_eq_self.mpr; intro c hc; have := ht c hc; simp [badQ] at this ⊢; exact this.1.1
    simpa [quote, hf] using this
  have hdig : ∀ c ∈ joinWith ['/'] (l.map showNat), badQ c = false := by
    intro c hc
    have : ∀ (ll : List Nat), ∀ c ∈ joinWith ['/'] (ll.map showNat), c = '/' ∨ ∃ d, d < 10 ∧ c = digitChar d := by
      intro ll
      induction ll with
      | nil => intro c hc; cases hc
      | cons x xs ih =>
        intro c hc
        cases xs with
        | nil => simp only [List.map_cons, List.map_nil, joinWith] at hc; exact Or.inr (showNat_digits x c hc)
        | cons y ys =>
          simp only [List.map_cons, joinWith, List.mem_append, List.mem_singleton] at hc
          rcases hc with (hc | hc) | hc
          · exact Or.inr (showNat_digits x c hc)
          · exact Or.inl hc
          · exact ih c (by simpa using hc)
    rcases this l c hc with rfl | ⟨d, hd, rfl⟩
    · decide
    · have : d = 0 ∨ d = 1 ∨ d = 2 ∨ d = 3 ∨ d = 4 ∨ d = 5 ∨ d = 6 ∨ d = 7 ∨ d = 8 ∨ d = 9 := by omega
      rcases this with rfl|rfl|rfl|rfl|rfl|rfl|rfl|rfl|rfl|rfl <;> decide
  unfold KeyFormatVersions.parse KeyFormatVersions.show KeyFormatVersions.isDefault
  by_cases h1 : l = [1]
  · subst h1; decide
  · have he : l.isEmpty = false := by cases l <;> simp_all
    have h1' : (l == [1]) = false := by simpa using h1
    simp only [he, h1', Bool.or_self, Bool.false_eq_true, if_false]
    rw [hq _ hdig, splitAll_join_slash l hne, mapRes_parse_show l hb]
    simp only [Res.bind_ok]
    have : ¬ l.length > 9 := by omega
    simp [this]

/-! ## floats and durations: the IEEE-754 facts as named hypotheses -/

/-- FL1: printing a finite binary32 with the shortest round-trip digits and parsing it gives the
same bits (validated on the real library over all 2^32 patterns in the thorough tier) -/
def FL1 : Prop := ∀ f : Float32, (∃ n m e, f32OfBits f.bits = .fin n m e) → Float32.parseFloat f.show = .ok f

/-- FL2: a duration below 10^6 s written through `as_secs_f64` and read through `f64::from_str` +
`try_from_secs_f64` is the same number of nanoseconds -/
def FL2 : Prop := ∀ ns : Nat, ns < 10 ^ 15 → parseSecs (showSecs ns) = .ok ns

/-- the float wrappers accept exactly the finite (for `UFloat`: non-negative) literals -/
theorem float_accepts_finite (s : Str) :
    ((Float32.parseFloat s).isOk = true ↔ ∃ n m e, Hls.parseFloat fmt32 s = some (.fin n m e)) ∧
    ((Float32.parseUFloat s).isOk = true ↔ ∃ m e, Hls.parseFloat fmt32 s = some (.fin false m e)) := by
  constructor
  · unfold Float32.parseFloat
    split
    · rename_i n m e h; simp [Res.isOk, h]
    · rename_i h
      simp only [Res.isOk, Bool.false_eq_true, false_iff, not_exists]
      intro n m e he; exact h n m e he
  · unfold Float32.parseUFloat
    split
    · rename_i n m e h
      cases n <;> simp [Res.isOk, h]
    · rename_i h
      simp only [Res.isOk, Bool.false_eq_true, false_iff, not_exists]
      intro m e he; exact h false m e he

/-! NOT YET PROVED in Lean (covered by the correspondence run and the round-trip oracle on the real
library): `InitializationVector` (`0x` + 32 hex digits; the hex codec lemmas `hexDecode_encode`,
`natToBytes_spec`, `hexEncode_utf8Len` above are its ingredients), `Value::String` / `Value::Float`,
and the attribute-list tags (see `Hls/Props/C03.lean`, `C04.lean` for the tag-level statements). -/

end Hls.C18
