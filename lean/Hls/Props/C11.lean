import Hls.Props.C06
/-!
# C11 — parsing is deterministic: same text, equal value, identical re-serialisation

In Lean every function is a function: `parseMedia`, `parseMaster`, `MediaPlaylist.show` have no hidden
input, so "same text ⇒ same value ⇒ same text" is `congrArg`. What has content is *why the model
may be a function*: the only state of the real parser whose iteration order reaches an output is the
set of keys in effect. The theorems below show that its listing (a `BTreeSet` in derived order after
the `fix:`) is a canonical form: it is determined by the RFC-level state (which keys are in effect),
not by the history of insertions/removals nor by anything like a hash seed.
The runtime part (threads, processes, hash seeds) is exercised by the harness.
-/
namespace Hls.C11
open Hls C06

/-- the listing of the keys in effect is canonical: two sorted, duplicate-free listings of the same
specification state are equal -/
theorem listing_canonical (a a' : List ExtXKey) (s : KeySpec) (h : Abs a s) (h' : Abs a' s)
    (hs : KSorted a) (hs' : KSorted a') : a = a' := by
  apply KSorted_ext hs hs'
  cases s with
  | marker => simp only [Abs] at h h'; subst h h'; intro x; rfl
  | keys m =>
    intro x
    cases x with
    | none =>
      constructor
      · intro hx; exact absurd rfl (h.1 none hx)
      · intro hx; exact absurd rfl (h'.1 none hx)
    | some k => rw [h.2 k, h'.2 k]

/-- insertion order does not matter -/
theorem insert_comm (x y : ExtXKey) (l : List ExtXKey) (h : KSorted l) :
    setInsert x (setInsert y l) = setInsert y (setInsert x l) := by
  apply KSorted_ext (KSorted_setInsert _ _ (KSorted_setInsert _ _ h)) (KSorted_setInsert _ _ (KSorted_setInsert _ _ h))
  intro z
  simp only [mem_setInsert]
  constructor <;> (rintro (h | h | h) <;> simp [h])

/-- two line histories that lead to the same RFC-level key state report the same key list for the
next segment — whatever the order in which the keys were declared -/
theorem same_state_same_listing (b : MediaPlaylistBuilder) (ls ls' : List Line) (st st' : PState)
    (h : foldRes mediaStep { builder := b } ls = .ok st) (h' : foldRes mediaStep { builder := b } ls' = .ok st')
    (hspec : ∃ s, Abs st.available_keys s ∧ Abs st'.available_keys s) :
    st.available_keys = st'.available_keys := by
  obtain ⟨s, a1, a2⟩ := hspec
  have r := rel_fold ls _ st {} (rel_init b) h
  have r' := rel_fold ls' _ st' {} (rel_init b) h'
  exact listing_canonical _ _ s a1 a2 r.2.1 r'.2.1

/-- the per-segment key lists of every accepted text are strictly sorted in the derived order
(hence duplicate-free and independent of any iteration order) -/
theorem segment_keys_sorted (b : MediaPlaylistBuilder) (s : Str) (p : MediaPlaylist)
    (h : parseMediaWith b s = .ok p) (seg : MediaSegment) (hs : seg ∈ p.segments) :
    ∃ ks, KSorted ks ∧ seg.keys = ks.map (completeIv seg.number) := by
  obtain ⟨_, ls, _, _, hfin⟩ := keys_in_effect b s p h
  obtain ⟨sp, ks, _, hk, he, _⟩ := finals_mem hfin seg hs
  exact ⟨ks, hk, he⟩

/-- determinism proper (trivial in the model, stated for completeness): equal texts give equal
values and equal serialisations -/
theorem parse_is_a_function (s s' : Str) (h : s = s') :
    parseMedia s = parseMedia s' ∧ parseMaster s = parseMaster s' ∧
    (parseMedia s).bind MediaPlaylist.show = (parseMedia s').bind MediaPlaylist.show := by
  subst h; exact ⟨rfl, rfl, rfl⟩

/-- non-vacuity: three key formats declared in two different orders give the same listing -/
example :
    let k (u : String) (f : String) : ExtXKey := some ⟨.aes128, u.toList, .missing, some (.other f.toList), none⟩
    updateKeys (updateKeys (updateKeys [] (k "a" "f1")) (k "b" "f2")) (k "c" "f3") =
    updateKeys (updateKeys (updateKeys [] (k "c" "f3")) (k "a" "f1")) (k "b" "f2") := by decide

end Hls.C11
