import Hls.Props.C01
import Hls.Proofs.ParsedWF
import Hls.Proofs.Render
/-!
# C01 at string level (second property file of C01): the segments of an accepted text are its URI lines

`C01.segments_in_order` is about classified lines. Here the statement is about the characters of the text: whatever text
the media parser accepts, the URIs of the reported segments are — one for one, in order — the trimmed non-empty lines of
the text (behind `#EXTM3U`) that do not start with `#`. Nothing is invented, dropped, merged or reordered, for any input.
-/
namespace Hls.C01T
open Hls

/-- in a text the media parser gets through, no `#EXT-X-STREAM-INF` line pairs up with the line behind it: every item
is the classification of one raw line -/
theorem items_media (R : List Str) (s t : PState) (h : foldRes (liftItem mediaStep) s (items R) = .ok t) :
    items R = R.map classify1 := by
  fun_induction items R generalizing s with
  | case1 => rfl
  | case2 l hl => simp [foldRes, liftItem] at h
  | case3 l hl => rfl
  | case4 l u rest hl ih =>
    exfalso
    simp only [foldRes] at h
    cases hv : VariantStream.parse (l ++ ['\n'] ++ u) with
    | ok v => rw [hv] at h; simp [Res.map, liftItem, mediaStep] at h
    | err => rw [hv] at h; simp [Res.map, liftItem] at h
    | panic => rw [hv] at h; simp [Res.map, liftItem] at h
  | case5 l u rest hl ih =>
    simp only [foldRes] at h
    cases hs : liftItem mediaStep s (classify1 l) with
    | ok s1 =>
      rw [hs] at h
      rw [ih s1 h]; rfl
    | err => rw [hs] at h; cases h
    | panic => rw [hs] at h; cases h

theorem arm_nouri {α} (parse : Str → Res α) (ctor : α → Line) (h : ∀ a, C01.uriOf (ctor a) = none) :
    ∀ s x, (parse s).map ctor = .ok x → C01.uriOf x = none := by
  intro s x hx
  rw [C05.Res.map_eq_ok] at hx
  obtain ⟨a, _, rfl⟩ := hx
  exact h a

/-- a line that starts with `#` never becomes a URI line -/
theorem hash_not_uri (l : Str) (x : Line) (h : classify1 l = .ok x) (hh : startsWith l ['#'] = true) :
    C01.uriOf x = none := by
  refine classify1_ind (fun s x => startsWith s ['#'] = true → C01.uriOf x = none) ?_ (fun _ _ => rfl) (fun _ _ => rfl)
    ?_ l x h hh
  · simp only [tagParsers, C05.AllArms]
    refine ⟨?_, ?_, ?_, ?_, ?_, ?_, ?_, ?_, ?_, ?_, ?_, ?_, ?_, ?_, ?_, ?_, ?_, ?_, ?_, ?_, trivial⟩ <;>
      (intro s x hx _; exact arm_nouri _ _ (fun _ => rfl) s x hx)
  · intro s hs hs'; rw [hs] at hs'; cases hs'

/-- a line that does not start with `#` is a URI line, verbatim -/
theorem plain_is_uri (l : Str) (hh : startsWith l ['#'] = false) : classify1 l = .ok (.uri l) := by
  have h1 : startsWith l "#EXT".toList = false := by
    cases l with
    | nil => rfl
    | cons c r =>
      have hc : ('#' == c) = false := by simpa [startsWith, List.isPrefixOf] using hh
      show List.isPrefixOf ('#' :: "EXT".toList) (c :: r) = false
      simp only [List.isPrefixOf, hc, Bool.false_and]
  simp only [classify1, h1, hh]; rfl

/-- the URI lines among the classified lines are the raw lines without a leading `#` -/
theorem uris_of_raw (R : List Str) (ls : List Line) (h : R.map classify1 = ls.map Res.ok) :
    ls.filterMap C01.uriOf = R.filter (fun l => !startsWith l ['#']) := by
  induction R generalizing ls with
  | nil => cases ls with
    | nil => rfl
    | cons _ _ => simp at h
  | cons l R ih =>
    cases ls with
    | nil => simp at h
    | cons x ls =>
      simp only [List.map_cons, List.cons.injEq] at h
      obtain ⟨hx, hr⟩ := h
      cases hh : startsWith l ['#'] with
      | true =>
        simp only [List.filterMap_cons, hash_not_uri l x hx hh, List.filter_cons, hh, Bool.not_true]
        exact ih ls hr
      | false =>
        rw [plain_is_uri l hh] at hx
        simp only [Res.ok.injEq] at hx; subst hx
        simp only [List.filterMap_cons, C01.uriOf, List.filter_cons, hh, Bool.not_false, if_true]
        rw [ih ls hr]

/-- **C01, "exactly the segments the text lists, in order", for every input text and builder configuration**: the URIs
of the segments of an accepted media playlist text are the lines of the text (trimmed, non-empty, behind `#EXTM3U`)
that do not start with `#`, in the order of the text -/
theorem segment_uris_text (b : MediaPlaylistBuilder) (s : Str) (p : MediaPlaylist) (h : parseMediaWith b s = .ok p) :
    ∃ rest, stripTag s pfxM3u = .ok rest ∧
      p.segments.map (·.uri) = (rawLines rest).filter (fun l => !startsWith l ['#']) := by
  obtain ⟨rest, ls, h1, h2, h3⟩ := parseMediaWith_ok b s p h
  refine ⟨rest, h1, ?_⟩
  rw [C01.segments_in_order b ls p h3]
  obtain ⟨st, hf, _⟩ := assembleMedia_ok b ls p h3
  have hfold : foldRes (liftItem mediaStep) { builder := b } (items (rawLines rest)) = .ok st := by
    have : items (rawLines rest) = ls.map Res.ok := h2
    rw [this, foldRes_liftItem_map_ok]; exact hf
  have hi := items_media (rawLines rest) _ st hfold
  have : (rawLines rest).map classify1 = ls.map Res.ok := by rw [← hi]; exact h2
  exact uris_of_raw _ ls this

/-- … so the number of segments is the number of such lines -/
theorem segment_count_text (b : MediaPlaylistBuilder) (s : Str) (p : MediaPlaylist) (h : parseMediaWith b s = .ok p) :
    ∃ rest, stripTag s pfxM3u = .ok rest ∧
      p.segments.length = ((rawLines rest).filter (fun l => !startsWith l ['#'])).length := by
  obtain ⟨rest, h1, h2⟩ := segment_uris_text b s p h
  exact ⟨rest, h1, by rw [← h2, List.length_map]⟩

/-- read the other way round: no line of an accepted media text is silently skipped — every trimmed non-empty line
that does not start with `#` is the URI of a reported segment -/
theorem every_plain_line_is_a_segment (b : MediaPlaylistBuilder) (s : Str) (p : MediaPlaylist)
    (h : parseMediaWith b s = .ok p) :
    ∃ rest, stripTag s pfxM3u = .ok rest ∧ ∀ l ∈ rawLines rest, startsWith l ['#'] = false →
      ∃ seg ∈ p.segments, seg.uri = l := by
  obtain ⟨rest, h1, h2⟩ := segment_uris_text b s p h
  refine ⟨rest, h1, fun l hl hh => ?_⟩
  have : l ∈ p.segments.map (·.uri) := by
    rw [h2]; exact List.mem_filter.mpr ⟨hl, by simp [hh]⟩
  obtain ⟨seg, hs, e⟩ := List.mem_map.mp this
  exact ⟨seg, hs, e⟩

end Hls.C01T
