import Hls.Proofs.AttrFold
import Hls.Proofs.Attr
import Hls.Proofs.Fold
import Hls.Props.C12
import Hls.Props.C04
import Hls.Props.C15
/-!
# C02 — master playlist text is parsed faithfully, attribute by attribute

* **collection** (`master_lists_in_order`): the five result lists are exactly the tags of their kind
  in source order, the flags are "was the tag present", the start offset is the last `EXT-X-START`.
* **acceptance** (`master_accepted_iff`): a list of classified lines is accepted exactly when it
  has no media-playlist tag / URI line and the documented cross-tag rules hold (C13's subject);
  nothing else can reject.
* **attributes** (`*_faithful`): for an attribute list written with any blanks around names, `=`,
  values and `,`, each tag's parser returns the closed form of `Proofs/AttrFold`: every field is the
  parse / unquoting of the LAST value written for its name and nothing else; quoted strings come
  back exactly, commas and `=` inside them never split or truncate (`quoted_values_exact`).
-/
namespace Hls.C02
open Hls

def mediaOf : Line → Option ExtXMedia
  | .media m => some m
  | _ => none
def variantOf : Line → Option VariantStream
  | .variant v => some v
  | _ => none
def sessionDataOf : Line → Option ExtXSessionData
  | .sessionData d => some d
  | _ => none
def sessionKeyOf : Line → Option DecryptionKey
  | .sessionKey k => some k
  | _ => none
def startOf : Line → Option ExtXStart
  | .start s => some s
  | _ => none
def isIndep : Line → Bool
  | .independentSegments => true
  | _ => false

/-- what one accepted line does to the state, as a function -/
theorem masterStep_spec (st st' : MState) (l : Line) (h : masterStep st l = .ok st') :
    st'.media = st.media ++ (mediaOf l).toList ∧
    st'.variant_streams = st.variant_streams ++ (variantOf l).toList ∧
    st'.session_data = st.session_data ++ (sessionDataOf l).toList ∧
    st'.session_keys = st.session_keys ++ (sessionKeyOf l).toList ∧
    st'.unknown_tags = st.unknown_tags ++ (C12.unknownText l).toList ∧
    st'.builder.has_independent_segments = (if isIndep l then some true else st.builder.has_independent_segments) ∧
    st'.builder.start = (match startOf l with
      | some s => some (some s)
      | none => st.builder.start) := by
  cases l <;> simp only [masterStep] at h <;>
    first
    | (cases h; done)
    | (simp only [Res.ok.injEq] at h; subst h
       simp [mediaOf, variantOf, sessionDataOf, sessionKeyOf, C12.unknownText, isIndep, startOf])

def lastStart (init : Option (Option ExtXStart)) (ls : List Line) : Option (Option ExtXStart) :=
  ls.foldl (fun acc l => match startOf l with
    | some s => some (some s)
    | none => acc) init

theorem master_fold_spec (ls : List Line) (st st' : MState) (h : foldRes masterStep st ls = .ok st') :
    st'.media = st.media ++ ls.filterMap mediaOf ∧
    st'.variant_streams = st.variant_streams ++ ls.filterMap variantOf ∧
    st'.session_data = st.session_data ++ ls.filterMap sessionDataOf ∧
    st'.session_keys = st.session_keys ++ ls.filterMap sessionKeyOf ∧
    st'.unknown_tags = st.unknown_tags ++ ls.filterMap C12.unknownText ∧
    st'.builder.has_independent_segments = (if ls.any isIndep then some true else st.builder.has_independent_segments) ∧
    st'.builder.start = lastStart st.builder.start ls := by
  induction ls generalizing st with
  | nil => simp only [foldRes, Res.ok.injEq] at h; subst h; simp [lastStart]
  | cons l rest ih =>
    simp only [foldRes] at h
    cases hs : masterStep st l with
    | ok t =>
      rw [hs] at h
      obtain ⟨a1, a2, a3, a4, a5, a6, a7⟩ := masterStep_spec st t l hs
      obtain ⟨b1, b2, b3, b4, b5, b6, b7⟩ := ih t h
      refine ⟨?_, ?_, ?_, ?_, ?_, ?_, ?_⟩
      · rw [b1, a1]; cases hm : mediaOf l <;> simp [List.filterMap_cons, hm]
      · rw [b2, a2]; cases hm : variantOf l <;> simp [List.filterMap_cons, hm]
      · rw [b3, a3]; cases hm : sessionDataOf l <;> simp [List.filterMap_cons, hm]
      · rw [b4, a4]; cases hm : sessionKeyOf l <;> simp [List.filterMap_cons, hm]
      · rw [b5, a5]; cases hm : C12.unknownText l <;> simp [List.filterMap_cons, hm]
      · rw [b6, a6]; cases hi : isIndep l <;> simp [hi]
      · rw [b7, a7]; simp only [lastStart, List.foldl_cons]
    | err => rw [hs] at h; cases h
    | panic => rw [hs] at h; cases h

/-- **collection in source order within each kind** -/
theorem master_lists_in_order (ls : List Line) (p : MasterPlaylist) (h : assembleMaster ls = .ok p) :
    p.media = ls.filterMap mediaOf ∧
    p.variant_streams = ls.filterMap variantOf ∧
    p.session_data = ls.filterMap sessionDataOf ∧
    p.session_keys = ls.filterMap sessionKeyOf ∧
    p.unknown_tags = ls.filterMap C12.unknownText ∧
    p.has_independent_segments = ls.any isIndep ∧
    p.start = (lastStart none ls).getD none := by
  unfold assembleMaster at h
  cases hf : foldRes masterStep {} ls with
  | ok st =>
    rw [hf] at h
    obtain ⟨b1, b2, b3, b4, b5, b6, b7⟩ := master_fold_spec ls {} st hf
    simp only [masterFinish, MasterPlaylistBuilder.build] at h
    split at h
    · cases h
    · simp only [Res.ok.injEq] at h; subst h
      simp only [Option.getD_some, b1, b2, b3, b4, b5, b6, b7, List.nil_append]
      cases ls.any isIndep <;> simp
  | err => rw [hf] at h; cases h
  | panic => rw [hf] at h; cases h

/-- lines a master playlist may contain -/
def masterLine : Line → Bool
  | .media _ | .variant _ | .sessionData _ | .sessionKey _ | .independentSegments | .start _
  | .unknown _ | .comment _ | .version _ => true
  | _ => false

theorem masterStep_ok_iff (st : MState) (l : Line) : (masterStep st l).isOk = masterLine l := by
  cases l <;> rfl

theorem fold_ok_of_lines (ls : List Line) (st : MState) (h : ∀ l ∈ ls, masterLine l = true) :
    ∃ st', foldRes masterStep st ls = .ok st' := by
  induction ls generalizing st with
  | nil => exact ⟨st, rfl⟩
  | cons l rest ih =>
    have hl := h l (by simp)
    have := masterStep_ok_iff st l
    rw [hl] at this
    cases hs : masterStep st l with
    | ok t =>
      obtain ⟨st', e⟩ := ih t (fun l' hl' => h l' (by simp [hl']))
      exact ⟨st', by simp [foldRes, hs, e]⟩
    | err => rw [hs] at this; cases this
    | panic => rw [hs] at this; cases this

/-- **no valid master playlist is rejected**: the typed-line machine accepts exactly when every
line is a master-playlist line and the cross-tag validation (group references, closed-captions
rule, session-data uniqueness: C13) holds for the collected lists -/
theorem master_accepted_iff (ls : List Line) :
    (assembleMaster ls).isOk = true ↔
      (∀ l ∈ ls, masterLine l = true) ∧
      (validateVariants (some (ls.filterMap mediaOf)) (false, false) (ls.filterMap variantOf) &&
        validateSessionData [] (ls.filterMap sessionDataOf)) = true := by
  constructor
  · intro h
    cases hp : assembleMaster ls with
    | ok p =>
      have hall : ∀ l ∈ ls, masterLine l = true := by
        unfold assembleMaster at hp
        cases hf : foldRes masterStep {} ls with
        | ok st =>
          intro l hl
          have := C15.foldRes_all_ok masterStep {} st ls hf l hl
          obtain ⟨s, e⟩ := this
          rw [masterStep_ok_iff s l] at e; exact e
        | err => rw [hf] at hp; cases hp
        | panic => rw [hf] at hp; cases hp
      refine ⟨hall, ?_⟩
      have hv := C04.parsed_valid ls p hp
      obtain ⟨b1, b2, b3, _⟩ := master_lists_in_order ls p hp
      simpa [C04.Valid, b1, b2, b3] using hv
    | err => rw [hp] at h; cases h
    | panic => rw [hp] at h; cases h
  · intro ⟨hall, hv⟩
    obtain ⟨st, hf⟩ := fold_ok_of_lines ls {} hall
    obtain ⟨b1, b2, b3, _⟩ := master_fold_spec ls {} st hf
    unfold assembleMaster
    rw [hf]
    simp only [masterFinish, MasterPlaylistBuilder.build, MasterPlaylistBuilder.validate, b1, b2, b3, List.nil_append,
      Option.getD_some, hv, Bool.not_true, Bool.false_eq_true, if_false, Res.isOk]

/-! ## attributes -/

def kv (p : PaddedPair) : Str × Str := (p.k, p.v)

/-- `EXT-X-MEDIA`: whatever the blanks, the result is the builder filled with the last value per
name (closed form) and then validated -/
theorem xmedia_faithful (P : List PaddedPair) (wf : ∀ p ∈ P, p.WF)
    (t : trim (pfxMedia ++ renderPadded P) = pfxMedia ++ renderPadded P) :
    ExtXMedia.parse (pfxMedia ++ renderPadded P) = (ExtXMedia.closed (P.map kv)).bind ExtXMediaBuilder.build := by
  simp only [ExtXMedia.parse, C12.stripTag_line _ _ t, Res.bind_ok, attrPairs_render P wf, ExtXMedia.fold_closed]
  rfl

theorem sessionData_faithful (P : List PaddedPair) (wf : ∀ p ∈ P, p.WF)
    (t : trim (pfxSessionData ++ renderPadded P) = pfxSessionData ++ renderPadded P) :
    ExtXSessionData.parse (pfxSessionData ++ renderPadded P) = (ExtXSessionData.closed (P.map kv)).bind ExtXSessionData.finish := by
  simp only [ExtXSessionData.parse, C12.stripTag_line _ _ t, Res.bind_ok, attrPairs_render P wf, ExtXSessionData.fold_closed]
  rfl

theorem sessionKey_faithful (P : List PaddedPair) (wf : ∀ p ∈ P, p.WF)
    (t : trim (pfxSessionKey ++ renderPadded P) = pfxSessionKey ++ renderPadded P) :
    ExtXSessionKey.parse (pfxSessionKey ++ renderPadded P) = (DecryptionKey.closed (P.map kv)).bind DecryptionKey.finish := by
  simp only [ExtXSessionKey.parse, DecryptionKey.parse, C12.stripTag_line _ _ t, Res.bind_ok, attrPairs_render P wf,
    DecryptionKey.fold_closed]
  rfl

theorem start_faithful (P : List PaddedPair) (wf : ∀ p ∈ P, p.WF)
    (t : trim (pfxStart ++ renderPadded P) = pfxStart ++ renderPadded P) :
    ExtXStart.parse (pfxStart ++ renderPadded P) = (ExtXStart.closed (P.map kv)).bind fun a =>
      match a.time_offset with
      | some t => .ok ⟨t, a.is_precise⟩
      | none => .err := by
  simp only [ExtXStart.parse, C12.stripTag_line _ _ t, Res.bind_ok, attrPairs_render P wf, ExtXStart.fold_closed]
  rfl

theorem streamData_faithful (P : List PaddedPair) (wf : ∀ p ∈ P, p.WF) :
    StreamData.parse (renderPadded P) = (StreamData.closed (P.map kv)).bind StreamData.finish := by
  simp only [StreamData.parse, attrPairs_render P wf, StreamData.fold_closed]
  rfl

theorem streamInf_attrs_faithful (P : List PaddedPair) (wf : ∀ p ∈ P, p.WF) :
    foldRes StreamInf.step {} (attrPairs (renderPadded P)) = StreamInf.closed (P.map kv) := by
  rw [attrPairs_render P wf, StreamInf.fold_closed]; rfl

/-- **quoted strings come back exactly**: a list of `NAME="string"` attributes, whatever the
strings contain besides `"`, CR and LF (commas, `=`, blanks, non-ASCII) and whatever blanks
surround names and values, tokenizes and unquotes to exactly the names and strings -/
theorem quoted_values_exact (items : List (Str × Str × Str × Str × Str × Str))
    (h : ∀ it ∈ items, wfKey it.1 ∧ it.2.1.all (fun c => !badQ c) = true ∧
      it.2.2.1.all isWs = true ∧ it.2.2.2.1.all isWs = true ∧ it.2.2.2.2.1.all isWs = true ∧ it.2.2.2.2.2.all isWs = true) :
    (attrPairs (renderPadded (items.map fun it => ⟨it.1, quote it.2.1, it.2.2.1, it.2.2.2.1, it.2.2.2.2.1, it.2.2.2.2.2⟩))).map
      (fun p => (p.1, unquote p.2)) = items.map fun it => (it.1, it.2.1) := by
  rw [attrPairs_render]
  · simp only [List.map_map]
    apply List.map_congr_left
    intro it hit
    obtain ⟨_, hq, _⟩ := h it hit
    simp [unquote_quote _ hq]
  · intro p hp
    simp only [List.mem_map] at hp
    obtain ⟨it, hit, rfl⟩ := hp
    obtain ⟨h1, h2, h3, h4, h5, h6⟩ := h it hit
    exact ⟨h1, wfVal_quote _ h2, h3, h4, h5, h6⟩

end Hls.C02
