import Hls.Proofs.ParserInv
/-!
# C07 — segments are numbered from the media sequence; missing IVs derive from it
-/
namespace Hls.C07
open Hls

/-! ## numbering -/

/-- the media sequence after a line history: the last `EXT-X-MEDIA-SEQUENCE` line, wherever it
stands, else what the builder was configured with -/
def mseqUpd (acc : Option Nat) : Line → Option Nat
  | .mediaSequence n => some n
  | _ => acc

def mseqOf (init : Option Nat) (ls : List Line) : Option Nat := ls.foldl mseqUpd init

theorem mseq_step (st st' : PState) (l : Line) (h : mediaStep st l = .ok st') :
    st'.builder.media_sequence = mseqUpd st.builder.media_sequence l := by
  cases l
  case uri u =>
    simp only [mediaStep] at h
    split at h
    · simp only [Res.ok.injEq] at h; subst h; rfl
    · cases h
    · cases h
  case discontinuitySequence n =>
    simp only [mediaStep] at h
    split at h
    · cases h
    · split at h
      · cases h
      · simp only [Res.ok.injEq] at h; subst h; rfl
  all_goals (first
    | (simp only [mediaStep, Res.ok.injEq] at h; subst h; rfl)
    | (simp [mediaStep] at h))

theorem mseq_fold (ls : List Line) (st st' : PState) (h : foldRes mediaStep st ls = .ok st') :
    st'.builder.media_sequence = mseqOf st.builder.media_sequence ls := by
  induction ls generalizing st with
  | nil => simp only [foldRes, Res.ok.injEq] at h; subst h; rfl
  | cons l ls ih =>
    simp only [foldRes] at h
    cases hs : mediaStep st l with
    | ok s1 =>
      rw [hs] at h
      have e1 := ih s1 h
      have e2 := mseq_step st s1 l hs
      rw [e1, e2]
      simp only [mseqOf, List.foldl_cons]
    | err => rw [hs] at h; cases h
    | panic => rw [hs] at h; cases h

theorem built_numbers (seq : Nat) (a b : List MediaSegment) (i : Nat) (prev : Option ByteRange)
    (himp : ∀ s ∈ a, s.explicit_number = false) (hb : Built seq i prev a b) :
    ∀ j s', b[j]? = some s' → s'.number = seq + (i + j) ∧ s'.number ≤ u64Max ∧ s'.explicit_number = false := by
  induction a generalizing b i prev with
  | nil =>
    cases b with
    | nil => intro j s' h; simp at h
    | cons _ _ => cases hb
  | cons x xs ih =>
    cases b with
    | nil => cases hb
    | cons y ys =>
      obtain ⟨h1, h2⟩ := hb
      obtain ⟨n, br, hn, _, e⟩ := buildOne_ok _ _ _ _ _ h1
      have hx := himp x (by simp)
      intro j s' hj
      cases j with
      | zero =>
        simp only [List.getElem?_cons_zero, Option.some.injEq] at hj
        subst hj
        unfold segNumber at hn
        simp only [hx, Bool.not_false, if_true] at hn
        split at hn
        · rename_i hle
          simp only [Res.ok.injEq] at hn
          subst e; simp only
          subst hn
          exact ⟨by omega, hle, hx⟩
        · cases hn
      | succ j =>
        simp only [List.getElem?_cons_succ] at hj
        have := ih ys (i + 1) _ (fun s hs => himp s (by simp [hs])) h2 j s' hj
        refine ⟨by omega, this.2.1, this.2.2⟩

/-- **C07 numbering (typed lines).** Every accepted line history yields segments numbered
consecutively from the media sequence, which is the value of the last `EXT-X-MEDIA-SEQUENCE` line
wherever it appears (0 when absent); all numbers fit the integer type. -/
theorem numbering_lines (b : MediaPlaylistBuilder) (ls : List Line) (p : MediaPlaylist)
    (h : assembleMedia b ls = .ok p) :
    p.media_sequence = (mseqOf b.media_sequence ls).getD 0 ∧
    ∀ j s, p.segments[j]? = some s → s.number = p.media_sequence + j ∧ s.number ≤ u64Max := by
  obtain ⟨st, hf, _, hb, hm, _⟩ := assembleMedia_ok b ls p h
  have hinv := pinv_fold ls _ st (pinv_init b) hf
  have hms := mseq_fold ls _ st hf
  refine ⟨by rw [hm, hms], ?_⟩
  intro j s hj
  have := built_numbers _ _ _ 0 none hinv.2.2 hb j s hj
  rw [hm]
  exact ⟨by omega, this.2.1⟩

/-- **C07 numbering (every input text, every parse entry point).** -/
theorem numbering (b : MediaPlaylistBuilder) (s : Str) (p : MediaPlaylist) (h : parseMediaWith b s = .ok p) :
    ∀ j seg, p.segments[j]? = some seg → seg.number = p.media_sequence + j ∧ seg.number ≤ u64Max := by
  obtain ⟨_, ls, _, _, h3⟩ := parseMediaWith_ok b s p h
  exact (numbering_lines b ls p h3).2

/-! ## effective IVs -/

/-- the IV rule: a key gets the segment number as IV exactly when it is AES-128, has no IV
attribute and its format is absent or identity; otherwise it is reported as written -/
theorem completeIv_spec (n : Nat) (k : DecryptionKey) :
    completeIv n (some k) = some
      (if k.method = .aes128 ∧ k.iv = .missing ∧ (k.format = none ∨ k.format = some .identity)
       then { k with iv := .number n } else k) := by
  obtain ⟨m, u, iv, f, v⟩ := k
  unfold completeIv
  cases m <;> cases iv <;> cases f <;> simp
  all_goals (rename_i f; cases f <;> simp)

theorem completeIv_none (n : Nat) : completeIv n none = none := rfl

/-- an explicit IV attribute is reported verbatim -/
theorem completeIv_explicit (n : Nat) (k : DecryptionKey) (v : Nat) (h : k.iv = .aes128 v) :
    completeIv n (some k) = some k := by
  rw [completeIv_spec]; simp [h]

/-- the derived IV, as a 128-bit number, is the segment number -/
theorem derived_iv_value (n : Nat) (k : DecryptionKey)
    (h : k.method = .aes128 ∧ k.iv = .missing ∧ (k.format = none ∨ k.format = some .identity)) :
    ∃ k', completeIv n (some k) = some k' ∧ k'.iv.toU128 = some n := by
  refine ⟨{ k with iv := .number n }, ?_, rfl⟩
  rw [completeIv_spec]; simp [h]

theorem built_keys (seq : Nat) (a b : List MediaSegment) (i : Nat) (prev : Option ByteRange)
    (hb : Built seq i prev a b) :
    ∀ (j : Nat) (s s' : MediaSegment), a[j]? = some s → b[j]? = some s' → s'.keys = s.keys.map (completeIv s'.number) := by
  induction a generalizing b i prev with
  | nil => intro j s s' h; simp at h
  | cons x xs ih =>
    cases b with
    | nil => cases hb
    | cons y ys =>
      obtain ⟨h1, h2⟩ := hb
      obtain ⟨n, br, _, _, e⟩ := buildOne_ok _ _ _ _ _ h1
      intro j s s' hj hj'
      cases j with
      | zero =>
        simp only [List.getElem?_cons_zero, Option.some.injEq] at hj hj'
        subst hj hj' e; rfl
      | succ j =>
        simp only [List.getElem?_cons_succ] at hj hj'
        exact ih ys (i + 1) _ h2 j s s' hj hj'

/-- **C07 IVs.** In every accepted line history, the keys reported by segment `j` are the keys in
effect at its URI line with the IV rule applied for that segment's own number. -/
theorem effective_ivs_lines (b : MediaPlaylistBuilder) (ls : List Line) (p : MediaPlaylist)
    (h : assembleMedia b ls = .ok p) :
    ∃ parsed : List MediaSegment, parsed.length = p.segments.length ∧
      ∀ (j : Nat) (s s' : MediaSegment), parsed[j]? = some s → p.segments[j]? = some s' →
        s'.keys = s.keys.map (completeIv (p.media_sequence + j)) := by
  obtain ⟨st, hf, _, hb, hm, _⟩ := assembleMedia_ok b ls p h
  have hinv := pinv_fold ls _ st (pinv_init b) hf
  refine ⟨st.segments, Built_length hb, ?_⟩
  intro j s s' hj hj'
  have hk := built_keys _ _ _ 0 none hb j s s' hj hj'
  have hn := built_numbers _ _ _ 0 none hinv.2.2 hb j s' hj'
  rw [hk, hn.1, hm]; simp

/-- **C07 IVs, every accepted TEXT** (any parse entry point) -/
theorem effective_ivs (b : MediaPlaylistBuilder) (t : Str) (p : MediaPlaylist) (h : parseMediaWith b t = .ok p) :
    ∃ parsed : List MediaSegment, parsed.length = p.segments.length ∧
      ∀ (j : Nat) (s s' : MediaSegment), parsed[j]? = some s → p.segments[j]? = some s' →
        s'.keys = s.keys.map (completeIv (p.media_sequence + j)) := by
  obtain ⟨_, ls, _, _, h3⟩ := parseMediaWith_ok b t p h
  exact effective_ivs_lines b ls p h3

/-! ## the writer never writes a derived IV -/

/-- `Display for DecryptionKey` prints an `IV=` attribute only for the explicit variant -/
theorem show_iv_free (k : DecryptionKey) (h : ∀ v, k.iv ≠ .aes128 v) :
    k.show = ({ k with iv := .missing } : DecryptionKey).show := by
  unfold DecryptionKey.show
  cases hi : k.iv with
  | aes128 v => exact absurd hi (h v)
  | number n => rfl
  | missing => rfl

/-- the writer strips a derived IV and keeps everything else; an explicit IV stays -/
theorem stripIv_spec (k : DecryptionKey) :
    (∀ n, k.iv = .number n → stripIv k = { k with iv := .missing }) ∧
    ((∀ n, k.iv ≠ .number n) → stripIv k = k) := by
  unfold stripIv
  cases hi : k.iv <;> simp

/-- stripping undoes the IV rule on keys that came from text (their IV is explicit or missing):
what the writer announces is the key as it was written, so re-parsing re-derives the IV from the
(possibly slid) segment number -/
theorem stripIv_completeIv (n : Nat) (k : DecryptionKey) (h : ∀ m, k.iv ≠ .number m) :
    (completeIv n (some k)).map stripIv = some k := by
  rw [completeIv_spec]
  split
  · rename_i hc
    simp only [Option.map_some, stripIv]
    obtain ⟨_, h2, _⟩ := hc
    cases k; simp_all
  · simp only [Option.map_some, (stripIv_spec k).2 h]

/-! ## non-vacuity -/

example :
    let k : DecryptionKey := ⟨.aes128, "k".toList, .missing, none, none⟩
    let kx : DecryptionKey := ⟨.aes128, "x".toList, .aes128 7, some (.other "f".toList), none⟩
    let inf : Line := .inf ⟨1000000000, none⟩
    (match assembleMedia {} [.key (some k), .key (some kx), inf, .uri "a".toList, .targetDuration 10000000000,
        inf, .uri "b".toList, .mediaSequence 2680] with
      | .ok p => p.segments.map (fun s => (s.number, s.keys.map (Option.map (·.iv))))
      | _ => []) =
    [(2680, [some (.number 2680), some (.aes128 7)]), (2681, [some (.number 2681), some (.aes128 7)])] := by
  decide


/-! ## recorded finding K7: explicit numbers are slot indices -/

def k7Seg (u : Str) (n : Nat) (ex : Bool) : MediaSegment :=
  ⟨n, ex, [], none, none, none, false, none, ⟨1000000000, none⟩, u⟩

/-- `media_sequence = 5`, three implicitly numbered segments pushed, then one with the explicit number 3
(which lands in the free slot 3): `build` succeeds and reports the numbers 5, 6, 7, 3 — for built
playlists with explicit numbers and a media sequence above 0 the numbering is NOT
`media_sequence + position` (recorded, not repaired: K7) -/
theorem k7_counterexample :
    ((((({ target_duration := some 10000000000, media_sequence := some 5 } : MediaPlaylistBuilder).pushSegment
      (k7Seg ['a'] 0 false)).pushSegment (k7Seg ['b'] 0 false)).pushSegment (k7Seg ['c'] 0 false)).pushSegment
      (k7Seg ['d'] 3 true)).build.map (fun p => p.segments.map (·.number)) = .ok [5, 6, 7, 3] := by decide

end Hls.C07
