import Hls.Proofs.ParserInv
import Hls.Props.C08
/-!
# C09 — the target-duration rule is enforced exactly, at every boundary
-/
namespace Hls.C09
open Hls

/-- rounding to the nearest whole second, halves up — integer arithmetic on nanoseconds -/
theorem roundedSecs_spec (s f : Nat) (hf : f < nanosPerSec) (hs : s + 1 ≤ u64Max) :
    roundedSecs (s * nanosPerSec + f) = if f ≥ 500000000 then s + 1 else s := by
  unfold roundedSecs nanosPerSec at *
  split
  · have : (s * 1000000000 + f + 500000000) / 1000000000 = s + 1 := by omega
    rw [this]; omega
  · have : (s * 1000000000 + f + 500000000) / 1000000000 = s := by omega
    rw [this]; omega

/-- the bound a segment is compared with: `target + allowance` (saturating), or `target` -/
def maxDur (b : MediaPlaylistBuilder) (target : Nat) : Nat :=
  match b.allowable_excess_duration with
  | some e => min (target + e) durationMax
  | none => target

/-- the duration rule for one segment -/
def DurOk (b : MediaPlaylistBuilder) (target : Nat) (s : MediaSegment) : Prop :=
  roundedSecs s.duration.duration * nanosPerSec ≤ maxDur b target

/-- the (wrongly scoped, recorded finding K1) independent-segments/AES-128 condition of the code -/
def IndepOk (b : MediaPlaylistBuilder) (segs : List MediaSegment) : Prop :=
  b.has_independent_segments.getD false = true →
    (∃ k ∈ segs.flatMap (·.keys), isAes128Key k = true) → ∀ k ∈ segs.flatMap (·.keys), isAes128Key k = true

/-- **acceptance of the validator**: exactly the three rules -/
theorem validateSegments_iff (b : MediaPlaylistBuilder) (target : Nat) (slots : List (Option MediaSegment))
    (hs : b.segments = some slots) :
    b.validateSegments target = true ↔
      IndepOk b (slotValues slots) ∧ (∀ s ∈ slotValues slots, DurOk b target s) ∧
      C08.WellChained (slotValues slots) none := by
  unfold MediaPlaylistBuilder.validateSegments
  rw [hs]
  simp only [Bool.and_eq_true, List.all_eq_true, Bool.not_eq_true', decide_eq_false_iff_not, Nat.not_lt,
    C08.validate_ranges_iff]
  constructor
  · rintro ⟨⟨h1, h2⟩, h3⟩
    refine ⟨?_, ?_, h3⟩
    · intro hi hex k hk
      simp only [hi, if_true] at h1
      obtain ⟨k0, hk0, ha⟩ := hex
      have : (List.flatMap (fun x => x.keys) (slotValues slots)).any isAes128Key = true :=
        List.any_eq_true.mpr ⟨k0, hk0, ha⟩
      simp only [this, if_true, List.all_eq_true] at h1
      exact h1 k hk
    · intro s hs'
      have := h2 s hs'
      unfold DurOk maxDur
      cases he : b.allowable_excess_duration <;> simp only [he] at this ⊢ <;> omega
  · rintro ⟨h1, h2, h3⟩
    refine ⟨⟨?_, ?_⟩, h3⟩
    · cases hi : b.has_independent_segments.getD false with
      | false => simp
      | true =>
        simp only [if_true]
        cases ha : (List.flatMap (fun x => x.keys) (slotValues slots)).any isAes128Key with
        | false => simp
        | true =>
          simp only [if_true, List.all_eq_true]
          obtain ⟨k0, hk0, hk1⟩ := List.any_eq_true.mp ha
          exact h1 hi ⟨k0, hk0, hk1⟩
    · intro s hs'
      have := h2 s hs'
      unfold DurOk maxDur at this
      cases he : b.allowable_excess_duration <;> simp only [he] at this ⊢ <;> omega

theorem built_durations (seq : Nat) (a b : List MediaSegment) (i : Nat) (prev : Option ByteRange)
    (hb : Built seq i prev a b) : b.map (·.duration) = a.map (·.duration) := by
  induction a generalizing b i prev with
  | nil => cases b with
    | nil => rfl
    | cons _ _ => cases hb
  | cons x xs ih =>
    cases b with
    | nil => cases hb
    | cons y ys =>
      obtain ⟨h1, h2⟩ := hb
      obtain ⟨n, br, _, _, e⟩ := buildOne_ok _ _ _ _ _ h1
      simp only [List.map_cons, ih ys _ _ h2]
      subst e; rfl

/-- **C09 (soundness for every accepted line history).** No media playlist value obtained from
parsing contains a segment whose rounded duration exceeds target + allowance. -/
theorem accepted_durations (b : MediaPlaylistBuilder) (ls : List Line) (p : MediaPlaylist)
    (h : assembleMedia b ls = .ok p) :
    ∀ s ∈ p.segments, roundedSecs s.duration.duration * nanosPerSec ≤
      (match b.allowable_excess_duration with
       | some e => min (p.target_duration + e) durationMax
       | none => p.target_duration) := by
  obtain ⟨st, hf, _, hb, _, htd, _, _, hval⟩ := assembleMedia_ok b ls p h
  have hinv := pinv_fold ls _ st (pinv_init b) hf
  have hseg := setSegments_implicit st.builder st.segments hinv.2.2
  -- the excess is never touched by the loop
  have hex : st.builder.allowable_excess_duration = b.allowable_excess_duration := by
    have key : ∀ (ls : List Line) (s s' : PState), foldRes mediaStep s ls = .ok s' →
        s'.builder.allowable_excess_duration = s.builder.allowable_excess_duration := by
      intro ls
      induction ls with
      | nil => intro s s' h; simp only [foldRes, Res.ok.injEq] at h; subst h; rfl
      | cons l ls ih =>
        intro s s' h
        simp only [foldRes] at h
        cases hx : mediaStep s l with
        | ok s1 =>
          rw [hx] at h
          rw [ih s1 s' h]
          cases l
          case uri u =>
            simp only [mediaStep] at hx
            split at hx
            · simp only [Res.ok.injEq] at hx; subst hx; rfl
            · cases hx
            · cases hx
          case discontinuitySequence n =>
            simp only [mediaStep] at hx
            split at hx
            · cases hx
            · split at hx
              · cases hx
              · simp only [Res.ok.injEq] at hx; subst hx; rfl
          all_goals (first
            | (simp only [mediaStep, Res.ok.injEq] at hx; subst hx; rfl)
            | (simp [mediaStep] at hx))
        | err => rw [hx] at h; cases h
        | panic => rw [hx] at h; cases h
    exact key ls _ st hf
  unfold MediaPlaylistBuilder.validate at hval
  have htd' : ({ st.builder.setSegments st.segments with unknown := some st.unknown } : MediaPlaylistBuilder).target_duration
      = some p.target_duration := htd
  rw [htd'] at hval
  have hv := (validateSegments_iff _ p.target_duration (st.segments.map some) hseg).mp hval
  rw [slotValues_map_some] at hv
  have hd := built_durations _ _ _ 0 none hb
  intro s hs
  have : s.duration ∈ st.segments.map (·.duration) := by
    rw [← hd]; exact List.mem_map.mpr ⟨s, hs, rfl⟩
  obtain ⟨s0, hs0, e⟩ := List.mem_map.mp this
  have := hv.2.1 s0 hs0
  unfold DurOk maxDur at this
  have hex' : ({ st.builder.setSegments st.segments with unknown := some st.unknown } : MediaPlaylistBuilder).allowable_excess_duration
      = b.allowable_excess_duration := hex
  rw [hex'] at this
  rw [← e]
  exact this

/-- **C09 (completeness).** A line history whose parsed segments break the duration rule is
rejected; so acceptance implies, and (given the other acceptance conditions) is implied by, the rule. -/
theorem too_long_rejected (b : MediaPlaylistBuilder) (ls : List Line) (st : PState) (td : Nat)
    (hf : foldRes mediaStep { builder := b } ls = .ok st) (htd : st.builder.target_duration = some td)
    (s : MediaSegment) (hs : s ∈ st.segments)
    (hlong : ¬ DurOk ({ st.builder.setSegments st.segments with unknown := some st.unknown }) td s) :
    ∀ p, assembleMedia b ls ≠ .ok p := by
  intro p h
  obtain ⟨st', hf', _, _, _, htd', _, _, hval⟩ := assembleMedia_ok b ls p h
  rw [hf] at hf'; simp only [Res.ok.injEq] at hf'; subst hf'
  have hinv := pinv_fold ls _ st (pinv_init b) hf
  have hseg := setSegments_implicit st.builder st.segments hinv.2.2
  rw [htd] at htd'; simp only [Option.some.injEq] at htd'; subst htd'
  unfold MediaPlaylistBuilder.validate at hval
  have htd'' : ({ st.builder.setSegments st.segments with unknown := some st.unknown } : MediaPlaylistBuilder).target_duration
      = some p.target_duration := htd
  rw [htd''] at hval
  have hv := (validateSegments_iff _ p.target_duration (st.segments.map some) hseg).mp hval
  rw [slotValues_map_some] at hv
  exact hlong (hv.2.1 s hs)

/-- whole-second targets and allowances (what the text and the usual builder calls give): the rule
reads "rounded seconds ≤ target seconds + allowance seconds" -/
theorem rule_whole_seconds (d T E : Nat) :
    roundedSecs d * nanosPerSec ≤ T * nanosPerSec + E * nanosPerSec ↔ roundedSecs d ≤ T + E := by
  unfold nanosPerSec; constructor <;> intro h <;> omega

/-! ## boundaries (non-vacuity): 10.499999999 s passes a 10 s target, 10.5 s does not -/
example : roundedSecs 10499999999 = 10 ∧ roundedSecs 10500000000 = 11 ∧ roundedSecs 10500000001 = 11 := by decide
example :
    (assembleMedia {} [.targetDuration 10000000000, .inf ⟨10499999999, none⟩, .uri ['a']]).isOk = true ∧
    (assembleMedia {} [.targetDuration 10000000000, .inf ⟨10500000000, none⟩, .uri ['a']]).isOk = false ∧
    (assembleMedia { allowable_excess_duration := some 1000000000 }
      [.targetDuration 10000000000, .inf ⟨11499999999, none⟩, .uri ['a']]).isOk = true := by decide
/-- the corner the floating-point rounding got wrong (fixed): 2^25 s + .499999997 s rounds down -/
example : roundedSecs (33554432 * 1000000000 + 499999997) = 33554432 := by decide

end Hls.C09
