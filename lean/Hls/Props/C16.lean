import Hls.Proofs.ParserInv
import Hls.Props.C07
/-!
# C16 — live updates keep segment identity: append, slide and truncation are stable
-/
namespace Hls.C16
open Hls

/-! ## determinism and locality of the `build` loop -/

theorem built_functional (seq : Nat) (a b b' : List MediaSegment) (i : Nat) (prev : Option ByteRange)
    (h : Built seq i prev a b) (h' : Built seq i prev a b') : b = b' := by
  induction a generalizing b b' i prev with
  | nil =>
    cases b with
    | nil => cases b' with
      | nil => rfl
      | cons _ _ => cases h'
    | cons _ _ => cases h
  | cons x xs ih =>
    cases b with
    | nil => cases h
    | cons y ys =>
      cases b' with
      | nil => cases h'
      | cons y' ys' =>
        obtain ⟨h1, h2⟩ := h
        obtain ⟨h1', h2'⟩ := h'
        rw [h1] at h1'; simp only [Res.ok.injEq] at h1'; subst h1'
        rw [ih ys ys' _ _ h2 h2']

/-- the output for a prefix of the input does not depend on what follows -/
theorem built_prefix (seq : Nat) (a c out : List MediaSegment) (i : Nat) (prev : Option ByteRange)
    (h : Built seq i prev (a ++ c) out) :
    ∃ o1 o2, out = o1 ++ o2 ∧ Built seq i prev a o1 := by
  induction a generalizing out i prev with
  | nil => exact ⟨[], out, rfl, trivial⟩
  | cons x xs ih =>
    cases out with
    | nil => cases h
    | cons y ys =>
      obtain ⟨h1, h2⟩ := h
      obtain ⟨o1, o2, e, hb⟩ := ih ys _ _ h2
      exact ⟨y :: o1, o2, by simp [e], ⟨h1, hb⟩⟩

/-! ## append / cut at a line boundary -/

def isMediaSequence : Line → Bool
  | .mediaSequence _ => true
  | _ => false

theorem segments_grow_step (st st' : PState) (l : Line) (h : mediaStep st l = .ok st') :
    ∃ more, st'.segments = st.segments ++ more := by
  cases l
  case uri u =>
    simp only [mediaStep] at h
    split at h
    · simp only [Res.ok.injEq] at h; subst h; exact ⟨_, rfl⟩
    · cases h
    · cases h
  case discontinuitySequence n =>
    simp only [mediaStep] at h
    split at h
    · cases h
    · split at h
      · cases h
      · simp only [Res.ok.injEq] at h; subst h; exact ⟨[], by simp⟩
  all_goals (first
    | (simp only [mediaStep, Res.ok.injEq] at h; subst h; exact ⟨[], by simp⟩)
    | (simp [mediaStep] at h))

theorem segments_grow (ls : List Line) (st st' : PState) (h : foldRes mediaStep st ls = .ok st') :
    ∃ more, st'.segments = st.segments ++ more := by
  induction ls generalizing st with
  | nil => simp only [foldRes, Res.ok.injEq] at h; subst h; exact ⟨[], by simp⟩
  | cons l ls ih =>
    simp only [foldRes] at h
    cases hx : mediaStep st l with
    | ok s1 =>
      rw [hx] at h
      obtain ⟨m1, e1⟩ := segments_grow_step st s1 l hx
      obtain ⟨m2, e2⟩ := ih s1 h
      exact ⟨m1 ++ m2, by rw [e2, e1, List.append_assoc]⟩
    | err => rw [hx] at h; cases h
    | panic => rw [hx] at h; cases h

theorem mseqOf_noSeq (init : Option Nat) (ex : List Line) (h : ∀ l ∈ ex, isMediaSequence l = false) :
    C07.mseqOf init ex = init := by
  induction ex generalizing init with
  | nil => rfl
  | cons l ls ih =>
    simp only [C07.mseqOf, List.foldl_cons]
    have hl := h l (by simp)
    have : C07.mseqUpd init l = init := by cases l <;> first | rfl | (simp [isMediaSequence] at hl)
    rw [this]
    exact ih init (fun l' hl' => h l' (by simp [hl']))

/-- **append / cut.** If a line history and an extension of it (which does not re-state the media
sequence) are both accepted, the segments of the shorter one are a prefix of the segments of the
longer one: the segments they have in common have identical numbers and content. Reading it from
right to left this is the statement for a text cut at a line boundary. -/
theorem append_stable (b : MediaPlaylistBuilder) (ls ex : List Line) (p p' : MediaPlaylist)
    (h : assembleMedia b ls = .ok p) (h' : assembleMedia b (ls ++ ex) = .ok p')
    (hns : ∀ l ∈ ex, isMediaSequence l = false) : p.segments <+: p'.segments := by
  obtain ⟨st1, hf1, _, hb1, hm1, _⟩ := assembleMedia_ok b ls p h
  obtain ⟨st2, hf2, _, hb2, hm2, _⟩ := assembleMedia_ok b (ls ++ ex) p' h'
  rw [foldRes_append, hf1] at hf2
  simp only at hf2
  obtain ⟨more, e⟩ := segments_grow ex st1 st2 hf2
  have hseq : st2.builder.media_sequence = st1.builder.media_sequence := by
    rw [C07.mseq_fold ex st1 st2 hf2, mseqOf_noSeq _ ex hns]
  rw [e, hseq] at hb2
  obtain ⟨o1, o2, eo, hbo⟩ := built_prefix _ _ _ _ _ _ hb2
  have := built_functional _ _ _ _ _ _ hbo hb1
  subst this
  exact ⟨o2, eo.symm⟩

/-! ## truncation inside an item -/

def isSegmentTag : Line → Bool
  | .inf _ | .byteRange _ | .discontinuity | .key _ | .map _ | .programDateTime _ | .dateRange _ => true
  | _ => false

def isUriLine : Line → Bool
  | .uri _ => true
  | _ => false

theorem partial_after_tag (st st' : PState) (l : Line) (hl : isSegmentTag l = true)
    (h : mediaStep st l = .ok st') : st'.has_partial_segment = true := by
  cases l <;> simp [isSegmentTag] at hl <;> (simp only [mediaStep, Res.ok.injEq] at h; subst h; rfl)

theorem partial_persists (ls : List Line) (st st' : PState) (hp : st.has_partial_segment = true)
    (hno : ∀ l ∈ ls, isUriLine l = false) (h : foldRes mediaStep st ls = .ok st') :
    st'.has_partial_segment = true := by
  induction ls generalizing st with
  | nil => simp only [foldRes, Res.ok.injEq] at h; subst h; exact hp
  | cons l ls ih =>
    simp only [foldRes] at h
    cases hx : mediaStep st l with
    | ok s1 =>
      rw [hx] at h
      apply ih s1 _ (fun l' hl' => hno l' (by simp [hl'])) h
      have hl := hno l (by simp)
      cases l
      case uri u => simp [isUriLine] at hl
      case discontinuitySequence n =>
        simp only [mediaStep] at hx
        split at hx
        · cases hx
        · split at hx
          · cases hx
          · simp only [Res.ok.injEq] at hx; subst hx; exact hp
      all_goals (first
        | (simp only [mediaStep, Res.ok.injEq] at hx; subst hx; first | exact hp | rfl)
        | (simp [mediaStep] at hx))
    | err => rw [hx] at h; cases h
    | panic => rw [hx] at h; cases h

/-- **truncation.** A history that stops inside an item — some segment tag (EXTINF, BYTERANGE,
DISCONTINUITY, KEY, MAP, PROGRAM-DATE-TIME, DATERANGE) not followed by a URI line — is rejected,
never accepted with the item silently dropped. -/
theorem cut_inside_item_rejected (b : MediaPlaylistBuilder) (pre post : List Line) (t : Line)
    (ht : isSegmentTag t = true) (hno : ∀ l ∈ post, isUriLine l = false) :
    (assembleMedia b (pre ++ t :: post)).isOk = false := by
  unfold assembleMedia
  rw [foldRes_append]
  cases h1 : foldRes mediaStep { builder := b } pre with
  | ok st1 =>
    simp only [foldRes]
    cases h2 : mediaStep st1 t with
    | ok st2 =>
      simp only
      cases h3 : foldRes mediaStep st2 post with
      | ok st3 =>
        have := partial_persists post st2 st3 (partial_after_tag st1 st2 t ht h2) hno h3
        simp [mediaFinish, this, Res.isOk]
      | err => rfl
      | panic => rfl
    | err => rfl
    | panic => rfl
  | err => rfl
  | panic => rfl

/-- a text whose item stream ends with the error item of a dangling `EXT-X-STREAM-INF`
(see `C15.streaminf_trailing`) is rejected by both parsers -/
theorem trailing_error_item_rejected {σ} (step : σ → Line → Res σ) (s : σ) (its : List (Res Line)) :
    ∀ t, foldRes (liftItem step) s (its ++ [.err]) ≠ .ok t := by
  intro t h
  rw [foldRes_append] at h
  cases h1 : foldRes (liftItem step) s its with
  | ok s1 => rw [h1] at h; simp [foldRes, liftItem] at h
  | err => rw [h1] at h; cases h
  | panic => rw [h1] at h; cases h

/-! ## sliding the window -/

theorem segNumber_shift (seq k i : Nat) (s : MediaSegment) : segNumber (seq + k) i s = segNumber seq (i + k) s := by
  unfold segNumber
  have : i + (seq + k) = i + k + seq := by omega
  rw [this]

theorem buildOne_shift (seq k i : Nat) (prev : Option ByteRange) (s : MediaSegment) :
    buildOne (seq + k) i prev s = buildOne seq (i + k) prev s := by
  unfold buildOne; rw [segNumber_shift]

/-- raising the media sequence by `k` is the same as starting the slot index at `k` -/
theorem built_shift (seq k : Nat) (a b : List MediaSegment) (i : Nat) (prev : Option ByteRange) :
    Built (seq + k) i prev a b ↔ Built seq (i + k) prev a b := by
  induction a generalizing b i prev with
  | nil => cases b <;> simp [Built]
  | cons x xs ih =>
    cases b with
    | nil => simp [Built]
    | cons y ys =>
      simp only [Built, buildOne_shift]
      have : i + 1 + k = i + k + 1 := by omega
      rw [ih ys (i + 1) _, this]

/-- `previous_range` after the first `k` segments -/
def prevAfter : Option ByteRange → List MediaSegment → Option ByteRange
  | prev, [] => prev
  | prev, y :: ys => prevAfter (nextPrev prev y.byte_range) ys

theorem built_drop (seq : Nat) (a b : List MediaSegment) (i : Nat) (prev : Option ByteRange) (k : Nat)
    (h : Built seq i prev a b) : Built seq (i + k) (prevAfter prev (b.take k)) (a.drop k) (b.drop k) := by
  induction k generalizing a b i prev with
  | zero => simpa [prevAfter] using h
  | succ k ih =>
    cases a with
    | nil => cases b with
      | nil => simp [Built]
      | cons _ _ => cases h
    | cons x xs =>
      cases b with
      | nil => cases h
      | cons y ys =>
        obtain ⟨_, h2⟩ := h
        have := ih xs ys (i + 1) _ h2
        simp only [List.drop_succ_cons, List.take_succ_cons, prevAfter]
        have e : i + (k + 1) = i + 1 + k := by omega
        rw [e]; exact this

/-- a resolved range: absent, or with an explicit start -/
def Resolved : Option ByteRange → Prop
  | none => True
  | some r => r.start.isSome = true

theorem resolveRange_resolved (prev : Option ByteRange) (r br : Option ByteRange)
    (h : resolveRange prev r = .ok br) : Resolved br := by
  cases r with
  | none => simp only [resolveRange, Res.ok.injEq] at h; subst h; trivial
  | some x =>
    simp only [resolveRange] at h
    cases hs : x.start with
    | some o => rw [hs] at h; simp only [Res.ok.injEq] at h; subst h; simp [Resolved, hs]
    | none =>
      rw [hs] at h
      cases prev with
      | none =>
        simp only [ByteRange.setStart] at h
        split at h
        · cases h
        · simp only [Res.map, Res.ok.injEq] at h; subst h; rfl
      | some p =>
        simp only [ByteRange.setStart] at h
        split at h
        · cases h
        · simp only [Res.map, Res.ok.injEq] at h; subst h; rfl

theorem resolveRange_of_resolved (prev : Option ByteRange) (r : Option ByteRange) (h : Resolved r) :
    resolveRange prev r = .ok r := by
  cases r with
  | none => rfl
  | some x =>
    simp only [Resolved] at h
    cases hs : x.start with
    | none => rw [hs] at h; cases h
    | some o => simp [resolveRange, hs]

/-- the first segment that has a byte range (if any) has an explicit offset -/
def FirstRangeExplicit : List MediaSegment → Prop
  | [] => True
  | s :: ss =>
    match s.byte_range with
    | none => FirstRangeExplicit ss
    | some r => r.start.isSome = true

theorem built_prev_irrelevant (seq : Nat) (a b : List MediaSegment) (i : Nat) (prev prev' : Option ByteRange)
    (hf : FirstRangeExplicit a) (h : Built seq i prev a b) : Built seq i prev' a b := by
  induction a generalizing b i prev prev' with
  | nil => cases b with
    | nil => trivial
    | cons _ _ => cases h
  | cons x xs ih =>
    cases b with
    | nil => cases h
    | cons y ys =>
      obtain ⟨h1, h2⟩ := h
      obtain ⟨n, br, hn, hr, e⟩ := buildOne_ok _ _ _ _ _ h1
      simp only [FirstRangeExplicit] at hf
      cases hx : x.byte_range with
      | none =>
        rw [hx] at hf hr
        simp only [resolveRange, Res.ok.injEq] at hr; subst hr
        have hy : y.byte_range = none := by subst e; rfl
        refine ⟨?_, ?_⟩
        · rw [← h1]; unfold buildOne; simp [hx, resolveRange]
        · rw [hy] at h2 ⊢
          exact ih ys _ _ _ hf h2
      | some r =>
        rw [hx] at hf hr
        have hres : resolveRange prev' (some r) = .ok (some r) := resolveRange_of_resolved _ _ hf
        have hres0 : resolveRange prev (some r) = .ok (some r) := resolveRange_of_resolved _ _ hf
        rw [hres0] at hr; simp only [Res.ok.injEq] at hr; subst hr
        have hy : y.byte_range = some r := by subst e; rfl
        refine ⟨?_, ?_⟩
        · rw [← h1]; unfold buildOne; simp [hx, hres, hres0]
        · rw [hy] at h2 ⊢
          exact h2

/-- the server's restatement of the first remaining segment: its (resolved) range made explicit -/
def restateHead (a b : List MediaSegment) : List MediaSegment :=
  match a, b with
  | s :: ss, t :: _ => { s with byte_range := t.byte_range } :: ss
  | _, _ => a

/-- **slide.** Let `a` be the parsed segments of a playlist with media sequence `seq` and `b` the
reported ones. Drop the first `k`, raise the media sequence by `k`, restate the first remaining
segment's byte range explicitly (keys in effect are restated so that the parser sees the same key
sets — C06): if no later offset-less range is left dangling, the reported segments are exactly
`b.drop k` — same numbers, URIs, byte ranges, keys and effective IVs. -/
theorem slide_stable (seq k : Nat) (a b : List MediaSegment) (h : Built seq 0 none a b)
    (hf : FirstRangeExplicit (restateHead (a.drop k) (b.drop k))) :
    Built (seq + k) 0 none (restateHead (a.drop k) (b.drop k)) (b.drop k) := by
  have h1 := built_drop seq a b 0 none k h
  simp only [Nat.zero_add] at h1
  have h2 : Built (seq + k) 0 (prevAfter none (b.take k)) (a.drop k) (b.drop k) := by
    rw [built_shift]; simpa using h1
  -- restating the head does not change the output
  have h3 : Built (seq + k) 0 (prevAfter none (b.take k)) (restateHead (a.drop k) (b.drop k)) (b.drop k) := by
    cases ha : a.drop k with
    | nil => rw [ha] at h2; simpa [restateHead] using h2
    | cons s ss =>
      cases hb : b.drop k with
      | nil => rw [ha, hb] at h2; cases h2
      | cons t ts =>
        rw [ha, hb] at h2
        obtain ⟨g1, g2⟩ := h2
        obtain ⟨n, br, hn, hr, e⟩ := buildOne_ok _ _ _ _ _ g1
        have hres := resolveRange_resolved _ _ _ hr
        have ht : t.byte_range = br := by subst e; rfl
        simp only [restateHead]
        refine ⟨?_, g2⟩
        unfold buildOne at g1 ⊢
        have hn' : segNumber (seq + k) 0 { s with byte_range := t.byte_range } = .ok n := by
          unfold segNumber at hn ⊢; exact hn
        rw [hn']
        simp only [ht, resolveRange_of_resolved _ br hres]
        rw [hn, hr] at g1
        simp only [Res.ok.injEq] at g1 ⊢
        rw [← g1]
  exact built_prev_irrelevant _ _ _ _ _ none hf h3

/-! ## non-vacuity -/
example :
    let inf : Line := .inf ⟨1000000000, none⟩
    let base : List Line := [.targetDuration 10000000000, .mediaSequence 7, inf, .uri ['a'], inf, .uri ['b']]
    (match assembleMedia {} base, assembleMedia {} (base ++ [inf, .uri ['c'], .endList]) with
     | .ok p, .ok p' => p.segments.map (·.number) == [7, 8] && p'.segments.map (·.number) == [7, 8, 9]
     | _, _ => false) = true := by decide

end Hls.C16
