import Hls.Proofs.MediaRT
import Hls.Proofs.MediaK2
import Hls.Proofs.WrittenRT
import Hls.Proofs.ParsedMedia
import Hls.Proofs.ExamplesMedia
/-!
# C03 — a media playlist survives serialise → parse

Headline statements (helper lemmas: `Proofs/KeyMirror.lean`, `Proofs/MediaRT.lean`,
`Proofs/Render.lean`):

* `media_write_parse` — **for every media playlist value the parser can produce** (from any typed
  line list, entry points `try_from` / `from_str` / `builder().allowable_excess_duration(e).parse`)
  whose keys come from text (`LinesNoNum`: no "derived" IV in the input, which text cannot
  express) and that is free of the recorded shape `NoK2` (a key line between a segment's map and its URI), the writer produces lines
  and the parser's state machine run on those lines returns **exactly the same value**: same
  playlist-level values, segments, numbers, URIs, durations, titles, byte ranges, flags, date ranges,
  maps with their key coverage, per-segment keys with their effective IVs, unknown tags.
* `media_roundtrip` — the same through `to_string()` and the text parser, given that each written
  line's text classifies back to the line (`LineRT`).
* `media_fixed_point` — the second serialisation is byte-identical.
* `key_mirror` — the stateful heart: after the lines the writer emits for one key, the parser's
  keys in effect equal the writer's announced set.
* `k2_counterexample` — the recorded history on which the statement without `NoK2` is false;
  `k3_repaired` — the former finding K3 round-trips since the writer prints the reset;
  `control_roundtrip` — non-vacuity.
-/
namespace Hls.C03
open Hls C06 C03K

/-- **the writer's announced keys mirror the parser's keys in effect** -/
theorem key_mirror (W : List ExtXKey) (s : KeySpec) (key : ExtXKey) (out : List Line)
    (ha : Abs W s) (hs : KSorted W) :
    ∃ W' em, writeKeyStep (W, out) key = .ok (W', out ++ em) ∧ em.foldl keyOfLine W = W' ∧
      Abs W' (s.step (stripKey key)) ∧ KSorted W' :=
  key_lines_mirror W s key out ha hs

/-- **L2 round trip for every parser-producible value** -/
theorem media_write_parse (e : Option Nat) (ls : List Line) (p : MediaPlaylist)
    (h : assembleMedia (bE e) ls = .ok p) (hiv : LinesNoNum ls) (hk2 : NoK2 p) :
    ∃ lines, p.writeLines = .ok lines ∧ assembleMedia (bE e) lines = .ok p :=
  write_parse_wf p e (parsed_wf e ls p h hiv hk2) (parsed_persist e ls p h hiv)

/-- the same for any well-formed value, parsed or built -/
theorem media_write_parse_wf (p : MediaPlaylist) (e : Option Nat) (wf : WF p e) (hk3 : Persist [] p.segments) :
    ∃ lines, p.writeLines = .ok lines ∧ assembleMedia (bE e) lines = .ok p :=
  write_parse_wf p e wf hk3

/-- **text round trip**: for every accepted text (keys taken from text never carry a derived IV:
`text_lines_noNum`), free of the K2 shape, `to_string()` then the same entry point gives
back the same value — provided each written line's text classifies back to the line (`LineRT`) -/
theorem media_roundtrip (e : Option Nat) (s : Str) (p : MediaPlaylist)
    (h : parseMediaWith (bE e) s = .ok p) (hk2 : NoK2 p)
    (hrt : ∀ lines, p.writeLines = .ok lines → ∀ l ∈ lines, LineRT l) :
    ∃ text, p.show = .ok text ∧ parseMediaWith (bE e) text = .ok p := by
  obtain ⟨rest, ls, _, h2, h3⟩ := parseMediaWith_ok (bE e) s p h
  obtain ⟨lines, w1, w2⟩ := media_write_parse e ls p h3 (text_lines_noNum rest ls h2) hk2
  refine ⟨pfxM3u ++ ['\n'] ++ renderLines lines, by simp [MediaPlaylist.show, w1], ?_⟩
  rw [parseMedia_of_written (bE e) lines (hrt lines w1)]
  exact w2

/-- **serialisation is a fixed point after one round** -/
theorem media_fixed_point (e : Option Nat) (s : Str) (p p' : MediaPlaylist) (text : Str)
    (h : parseMediaWith (bE e) s = .ok p) (hk2 : NoK2 p)
    (hrt : ∀ lines, p.writeLines = .ok lines → ∀ l ∈ lines, LineRT l)
    (ht : p.show = .ok text) (h' : parseMediaWith (bE e) text = .ok p') : p'.show = p.show := by
  obtain ⟨text2, t1, t2⟩ := media_roundtrip e s p h hk2 hrt
  rw [ht] at t1; cases t1
  rw [t2] at h'; cases h'; rfl

/-- **text round trip from conditions on the value**: the abstract `LineRT` hypothesis of
`media_roundtrip` is discharged line kind by line kind (`written_lines_rt`) for every value in `MediaWF`:
integers below 2^64, quotable strings, well-formed ranges and keys. What `MediaWF` still takes as given is
named there: the decimal round trip of each EXTINF duration and of the EXT-X-START offset (facts about Rust's
float formatting: FL2, FL1 in the trusted base; the same inside `ExtXDateRange.WF`), and the line-level round trip
of URI lines and of unknown tags (written verbatim; derived for parsed values in `media_roundtrip_parsed`). -/
theorem media_roundtrip_wf (e : Option Nat) (s : Str) (p : MediaPlaylist)
    (h : parseMediaWith (bE e) s = .ok p) (hk2 : NoK2 p) (wf : MediaWF p) :
    ∃ text, p.show = .ok text ∧ parseMediaWith (bE e) text = .ok p :=
  media_roundtrip e s p h hk2 (written_lines_rt p wf)

theorem media_fixed_point_wf (e : Option Nat) (s : Str) (p p' : MediaPlaylist) (text : Str)
    (h : parseMediaWith (bE e) s = .ok p) (hk2 : NoK2 p) (wf : MediaWF p)
    (ht : p.show = .ok text) (h' : parseMediaWith (bE e) text = .ok p') : p'.show = p.show :=
  media_fixed_point e s p p' text h hk2 (written_lines_rt p wf) ht h'

/-- **the round trip for everything the parser returns**: whatever text `s` the playlist `p` was parsed from,
writing `p` and parsing the result gives `p` back — under `NoK2 p` (finding K2: no key line between a
segment's EXT-X-MAP and its URI) and `MediaOpen p`: Rust's decimal formatting reads back — each EXTINF duration,
the EXT-X-START offset, the two EXT-X-DATERANGE durations and float-valued client attributes (FL2, FL1) — and the
SCTE35 values of a date range are plain tokens (hexadecimal sequences in valid text). Everything else `MediaWF` asks for is *derived* from the fact that `p` came out of the parser
(`text_lines_good`, `assembled_mediaWF`): integers are below 2^64, strings are free of quotes and line ends,
keys have a non-blank URI, a 128-bit IV and at most nine one-byte versions, ranges lie inside 2^64, URI lines and
unknown tags are trimmed single lines that classify the same way again. -/
theorem media_roundtrip_parsed (e : Option Nat) (s : Str) (p : MediaPlaylist)
    (h : parseMediaWith (bE e) s = .ok p) (hk2 : NoK2 p) (ho : MediaOpen p) :
    ∃ text, p.show = .ok text ∧ parseMediaWith (bE e) text = .ok p := by
  obtain ⟨rest, ls, _, h2, h3⟩ := parseMediaWith_ok (bE e) s p h
  exact media_roundtrip_wf e s p h hk2 (assembled_mediaWF e ls p h3 (text_lines_good rest ls h2) ho)

/-- **what write → parse does to EVERY playlist the parser returns — the exact content of finding K2.**
No `NoK2`: for every string `s` with `parse s = ok p` (and the float facts), `to_string` succeeds and parsing the text
returns `fixMaps p`, i.e. `p` with every EXT-X-MAP covered by the keys of its own segment. Everything else — the
playlist-level values, the segments with their numbers, URIs, durations, titles, byte ranges, flags, date ranges,
per-segment keys and effective IVs, the unknown tags — comes back unchanged, and `fixMaps p = p` exactly when no key
line stands between a map and its URI (`fixMaps_id`, `k2_counterexample`). -/
theorem media_roundtrip_general (e : Option Nat) (s : Str) (p : MediaPlaylist)
    (h : parseMediaWith (bE e) s = .ok p) (ho : MediaOpen p) :
    ∃ text, p.show = .ok text ∧ parseMediaWith (bE e) text = .ok (fixMaps p) := by
  obtain ⟨rest, ls, _, h2, h3⟩ := parseMediaWith_ok (bE e) s p h
  obtain ⟨lines, w1, w2⟩ := write_parse_k2 e ls p h3 (text_lines_noNum rest ls h2)
  have wf := assembled_mediaWF e ls p h3 (text_lines_good rest ls h2) ho
  refine ⟨pfxM3u ++ ['\n'] ++ renderLines lines, by simp [MediaPlaylist.show, w1], ?_⟩
  rw [parseMedia_of_written (bE e) lines (written_lines_rt p wf lines w1)]
  exact w2

/-- **serialisation is a fixed point after one round, K2 or not**: the text written for `fixMaps p` is the text
written for `p` (the writer does not look at a map's key list) -/
theorem media_fixed_point_general (p : MediaPlaylist) : (fixMaps p).show = p.show := by
  have h := writeLines_fixMaps p
  unfold MediaPlaylist.show
  cases hp : p.writeLines with
  | ok lp =>
    rw [hp] at h
    cases hq : (fixMaps p).writeLines with
    | ok lq =>
      rw [hq] at h
      simp only [Res.map, Res.ok.injEq] at h
      have e : renderLines lq = renderLines lp := by
        have hr : ∀ l : Line, l.norm.render = l.render := by intro l; cases l <;> rfl
        have : ∀ ls : List Line, renderLines (ls.map Line.norm) = renderLines ls := by
          intro ls
          simp only [renderLines, List.flatMap_map, hr]
        rw [← this lq, h, this lp]
      simp [e]
    | err => rw [hq] at h; cases h
    | panic => rw [hq] at h; cases h
  | err =>
    rw [hp] at h
    cases hq : (fixMaps p).writeLines with
    | ok lq => rw [hq] at h; cases h
    | err => rfl
    | panic => rw [hq] at h; cases h
  | panic =>
    rw [hp] at h
    cases hq : (fixMaps p).writeLines with
    | ok lq => rw [hq] at h; cases h
    | err => rw [hq] at h; cases h
    | panic => rfl

/-- **the canonical text of any well-formed value is read faithfully**: no parse in the hypotheses — for every
value `p` with the structural facts `WF p e` (what `build` guarantees: numbering, resolved ranges, key coverage of maps,
validation), keys that never vanish (`Persist`) and fields in the text domain (`MediaWF`), `to_string` succeeds and the
parser returns exactly `p` from it. This is "the model says what the text says" with the value as the quantified
object: the text is whatever the writer prints for it. -/
theorem media_canonical_text (p : MediaPlaylist) (e : Option Nat) (wf : WF p e) (hk3 : Persist [] p.segments) (mwf : MediaWF p) :
    ∃ text, p.show = .ok text ∧ parseMediaWith (bE e) text = .ok p := by
  obtain ⟨lines, w1, w2⟩ := media_write_parse_wf p e wf hk3
  refine ⟨pfxM3u ++ ['\n'] ++ renderLines lines, by simp [MediaPlaylist.show, w1], ?_⟩
  rw [parseMedia_of_written (bE e) lines (written_lines_rt p mwf lines w1)]
  exact w2

/-- **faithful in any layout**: any text `#EXTM3U` + `x` whose lines classify into typed lines that agree with the lines
the writer prints for `p` — up to comments, EXT-X-VERSION lines and swaps of independent lines (C12's `SwapEq`), and,
inside each tag, up to attribute order, blanks and unknown attributes (C12's `classify_*_layout`) — parses to exactly `p`.
The value is the quantified object; the text may be any of its renderings. -/
theorem media_any_layout (p : MediaPlaylist) (e : Option Nat) (wf : WF p e) (hk3 : Persist [] p.segments) (mwf : MediaWF p)
    (x : Str) (ls : List Line) (hx : lineItems x = ls.map Res.ok) (lines : List Line) (hw : p.writeLines = .ok lines)
    (hs : C12.SwapEq C12.mediaIndep (ls.filter C12.nonNeutral) ((lines.map Line.norm).filter C12.nonNeutral)) :
    parseMediaWith (bE e) (pfxM3u ++ x) = .ok p := by
  obtain ⟨lines', w1, w2⟩ := media_write_parse_wf p e wf hk3
  rw [hw] at w1; cases w1
  have hrt := written_lines_rt p mwf lines hw
  have hcanon : lineItems ('\n' :: renderLines lines) = (lines.map Line.norm).map Res.ok := by
    unfold lineItems
    have := rawLines_append_nl [] (renderLines lines) (by simp)
    simp only [List.nil_append] at this
    rw [this]
    have hk : keepLine [] = [] := rfl
    rw [hk, List.nil_append]
    exact lineItems_renderLines lines hrt
  rw [C12.media_presentation (bE e) x ('\n' :: renderLines lines) ls (lines.map Line.norm) hx hcanon hs]
  have e1 : pfxM3u ++ '\n' :: renderLines lines = pfxM3u ++ ['\n'] ++ renderLines lines := by simp
  rw [e1, parseMedia_of_written (bE e) lines hrt]
  exact w2

/-- non-vacuity of `media_roundtrip_wf` / `media_roundtrip_parsed`: a concrete playlist with a key (explicit IV,
KEYFORMAT, KEYFORMATVERSIONS), a map with byte range, chained byte ranges, a title with a comma, program date time,
discontinuity, EXT-X-START and an unknown tag is in `MediaWF`, free of K2, and round-trips at string level -/
theorem example_media : MediaWF exMedia ∧ NoK2 exMedia ∧
    ∃ text, exMedia.show = .ok text ∧ parseMediaWith (bE none) text = .ok exMedia :=
  ⟨exMedia_wf, (by
    intro s hs m hm
    simp [exMedia] at hs
    rcases hs with rfl | rfl
    · cases hm; rfl
    · cases hm), exMedia_roundtrip⟩

/-- the former finding K3 (`KEY a, KEY b(f), segment, KEY NONE, KEY a, segment`): since the `fix:`
that makes the writer print the reset, it round-trips -/
theorem k3_repaired : (assembleMedia {} k3Lines).isOk = true ∧ writeThenParse k3Lines = assembleMedia {} k3Lines :=
  C03K.k3_repaired

/-- the recorded shape on which the statement without `NoK2` is false -/
theorem k2_counterexample : (assembleMedia {} k2Lines).isOk = true ∧ (writeThenParse k2Lines).isOk = true ∧
    writeThenParse k2Lines ≠ assembleMedia {} k2Lines := C03K.k2_counterexample

/-- non-vacuity of `media_write_parse`: a playlist with two key formats, a map, a reset and new
keys satisfies `NoK2`, `NoK3`, and round-trips -/
theorem control_roundtrip :
    writeThenParse [.targetDuration 10000000000, .key (some kA), .key (some kB), .map ⟨['m'], none, []⟩, .inf inf1, .uri ['s', '0'],
      .key none, .inf inf1, .uri ['s', '1'], .key (some kA), .key (some kB), .inf inf1, .uri ['s', '2']] =
    assembleMedia {} [.targetDuration 10000000000, .key (some kA), .key (some kB), .map ⟨['m'], none, []⟩, .inf inf1, .uri ['s', '0'],
      .key none, .inf inf1, .uri ['s', '1'], .key (some kA), .key (some kB), .inf inf1, .uri ['s', '2']] := C03K.control_roundtrip

end Hls.C03
