import Hls.Generated.IntoOwned
/-!
# C17 — borrowed, owned and cloned forms of a value are interchangeable

`Hls/Generated/IntoOwned.lean` is regenerated on every run from the 19 `fn into_owned` bodies of the
source: per target field, which source field feeds it and through which ownership-only wrapper. The
theorems below say that each of them is the identity on observable content; a swapped, dropped or
altered field in the source makes the corresponding `…_id` theorem unprovable.
`clone()` is derived (`#[derive(Clone)]`, trusted base) and modelled as the identity.
-/
namespace Hls.C17
open Hls

theorem map_id_of {α} (f : α → α) (h : ∀ x, f x = x) (l : List α) : l.map f = l := by
  induction l with
  | nil => rfl
  | cons x xs ih => simp [h x, ih]

theorem omap_id_of {α} (f : α → α) (h : ∀ x, f x = x) (o : Option α) : o.map f = o := by
  cases o <;> simp [h]

theorem str_id (x : Str) : IntoOwned.intoOwned x = x := rfl

theorem codecs_id (x : Codecs) : IntoOwned.intoOwned x = x := by
  show intoOwned_Codecs x = x
  cases x; simp [intoOwned_Codecs]
theorem keyFormat_id (x : KeyFormat) : IntoOwned.intoOwned x = x := by
  show intoOwned_KeyFormat x = x
  cases x <;> rfl
theorem closedCaptions_id (x : ClosedCaptions) : IntoOwned.intoOwned x = x := by
  show intoOwned_ClosedCaptions x = x
  cases x <;> rfl
theorem value_id (x : Value) : IntoOwned.intoOwned x = x := by
  show intoOwned_Value x = x
  cases x <;> rfl
theorem sessionData_id (x : SessionData) : IntoOwned.intoOwned x = x := by
  show intoOwned_SessionData x = x
  cases x <;> rfl
theorem decryptionKey_id (x : DecryptionKey) : IntoOwned.intoOwned x = x := by
  show intoOwned_DecryptionKey x = x
  cases x; simp [intoOwned_DecryptionKey, omap_id_of _ keyFormat_id]
theorem extXKey_id (x : ExtXKey) : IntoOwned.intoOwned x = x := by
  show intoOwned_ExtXKey x = x
  simp [intoOwned_ExtXKey, omap_id_of _ decryptionKey_id]
theorem extInf_id (x : ExtInf) : IntoOwned.intoOwned x = x := by
  show intoOwned_ExtInf x = x
  cases x; simp [intoOwned_ExtInf]
theorem extXMap_id (x : ExtXMap) : IntoOwned.intoOwned x = x := by
  show intoOwned_ExtXMap x = x
  cases x; simp [intoOwned_ExtXMap, map_id_of _ extXKey_id]
theorem extXProgramDateTime_id (x : ExtXProgramDateTime) : IntoOwned.intoOwned x = x := by
  show intoOwned_ExtXProgramDateTime x = x
  cases x; rfl
theorem extXDateRange_id (x : ExtXDateRange) : IntoOwned.intoOwned x = x := by
  show intoOwned_ExtXDateRange x = x
  cases x
  have h : ∀ (l : List (Str × Value)), l.map (fun kv => (kv.1, IntoOwned.intoOwned kv.2)) = l := by
    intro l; apply map_id_of; intro kv; cases kv; simp [value_id]
  simp [intoOwned_ExtXDateRange, h]
theorem streamData_id (x : StreamData) : IntoOwned.intoOwned x = x := by
  show intoOwned_StreamData x = x
  cases x; simp [intoOwned_StreamData, omap_id_of _ codecs_id]
theorem extXMedia_id (x : ExtXMedia) : IntoOwned.intoOwned x = x := by
  show intoOwned_ExtXMedia x = x
  cases x; simp [intoOwned_ExtXMedia]
theorem extXSessionData_id (x : ExtXSessionData) : IntoOwned.intoOwned x = x := by
  show intoOwned_ExtXSessionData x = x
  cases x; simp [intoOwned_ExtXSessionData, sessionData_id]
theorem extXSessionKey_id (x : DecryptionKey) : intoOwned_ExtXSessionKey x = x := decryptionKey_id x
theorem variantStream_id (x : VariantStream) : IntoOwned.intoOwned x = x := by
  show intoOwned_VariantStream x = x
  cases x <;> simp [intoOwned_VariantStream, streamData_id, omap_id_of _ closedCaptions_id]
theorem mediaSegment_id (x : MediaSegment) : IntoOwned.intoOwned x = x := by
  show intoOwned_MediaSegment x = x
  cases x
  simp [intoOwned_MediaSegment, map_id_of _ extXKey_id, omap_id_of _ extXMap_id, omap_id_of _ extXDateRange_id,
    omap_id_of _ extXProgramDateTime_id, extInf_id]
theorem mediaPlaylist_id (x : MediaPlaylist) : IntoOwned.intoOwned x = x := by
  show intoOwned_MediaPlaylist x = x
  cases x; simp [intoOwned_MediaPlaylist, map_id_of _ mediaSegment_id]
theorem masterPlaylist_id (x : MasterPlaylist) : IntoOwned.intoOwned x = x := by
  show intoOwned_MasterPlaylist x = x
  cases x
  simp [intoOwned_MasterPlaylist, map_id_of _ extXMedia_id, map_id_of _ variantStream_id, map_id_of _ extXSessionData_id,
    map_id_of _ decryptionKey_id]

/-- the three ways of parsing a media playlist agree: `FromStr` = `TryFrom` followed by
`into_owned`, `MediaPlaylistBuilder::parse` on a fresh builder = `TryFrom` (the translator checks on
every run that the three Rust entry points still are `parse_media_playlist` with a fresh builder
[+ `into_owned`]) -/
theorem entry_points_agree (s : Str) :
    (parseMedia s).map IntoOwned.intoOwned = parseMedia s ∧ parseMediaFromStr s = parseMedia s ∧
    builderParse none s = parseMedia s := by
  refine ⟨?_, rfl, rfl⟩
  cases parseMedia s <;> simp [Res.map, mediaPlaylist_id]

/-- hence equal observable content and identical serialisation -/
theorem owned_same_text (p : MediaPlaylist) (m : MasterPlaylist) :
    (IntoOwned.intoOwned p).show = p.show ∧ (IntoOwned.intoOwned m).show = m.show := by
  rw [mediaPlaylist_id, masterPlaylist_id]; exact ⟨rfl, rfl⟩

end Hls.C17
