import Hls.Props.C16
import Hls.Proofs.Render
/-!
# C16 at string level (second property file of C16): appending lines to an accepted text

`C16.append_stable` is about classified lines. Here: if a media playlist text that ends at a line boundary is accepted,
and the same text with more text appended is accepted too (and the appended part does not restate EXT-X-MEDIA-SEQUENCE),
then the segments of the shorter one are a prefix of the segments of the longer one — numbers, URIs, ranges, keys,
effective IVs and all. Read from right to left it is the statement for a text cut at a line boundary.
-/
namespace Hls.C16T
open Hls

/-- `Lines::from` of `y\n` followed by more text: the raw lines of both parts -/
theorem rawLines_append_aux (n : Nat) : ∀ (y t : Str), y.length ≤ n → rawLines (y ++ '\n' :: t) = rawLines (y ++ ['\n']) ++ rawLines t := by
  induction n with
  | zero =>
    intro y t hn
    have : y = [] := List.eq_nil_of_length_eq_zero (by omega)
    subst this
    have h1 := rawLines_append_nl [] t (by simp)
    have h2 := rawLines_append_nl [] [] (by simp)
    simp only [List.nil_append] at h1 h2 ⊢
    rw [h1, h2]
    have : rawLines [] = [] := rfl
    simp [this]
  | succ n ih =>
    intro y t hn
    rcases nl_split y with h | ⟨a, rest, e, ha⟩
    · have h1 := rawLines_append_nl y t h
      have h2 := rawLines_append_nl y [] h
      have : rawLines [] = [] := rfl
      rw [h1, h2, this]; simp
    · subst e
      have e1 : a ++ '\n' :: rest ++ '\n' :: t = a ++ '\n' :: (rest ++ '\n' :: t) := by simp
      have e2 : a ++ '\n' :: rest ++ ['\n'] = a ++ '\n' :: (rest ++ ['\n']) := by simp
      rw [e1, e2, rawLines_append_nl a _ ha, rawLines_append_nl a _ ha, ih rest t (by simp at hn; omega)]
      simp

theorem rawLines_append (y t : Str) : rawLines (y ++ '\n' :: t) = rawLines (y ++ ['\n']) ++ rawLines t :=
  rawLines_append_aux y.length y t (Nat.le_refl _)

/-- the items of an accepted media text are not disturbed by what follows: no STREAM-INF tag is waiting for its URI -/
theorem items_append_ok (R B : List Str) (s t : PState) (h : foldRes (liftItem mediaStep) s (items R) = .ok t) :
    items (R ++ B) = items R ++ items B := by
  fun_induction items R generalizing s with
  | case1 => rfl
  | case2 l hl => simp [foldRes, liftItem] at h
  | case3 l hl =>
    have hp : startsWith l siPfx = false := by simpa [siPfx] using hl
    show items (l :: B) = [classify1 l] ++ items B
    rw [items_cons_plain l B hp]; rfl
  | case4 l u rest hl ih =>
    exfalso
    simp only [foldRes] at h
    cases hv : VariantStream.parse (l ++ ['\n'] ++ u) with
    | ok v => rw [hv] at h; simp [Res.map, liftItem, mediaStep] at h
    | err => rw [hv] at h; simp [Res.map, liftItem] at h
    | panic => rw [hv] at h; simp [Res.map, liftItem] at h
  | case5 l u rest hl ih =>
    have hp : startsWith l siPfx = false := by simpa [siPfx] using hl
    simp only [foldRes] at h
    cases hs : liftItem mediaStep s (classify1 l) with
    | ok s1 =>
      rw [hs] at h
      have := ih s1 h
      show items (l :: (u :: rest ++ B)) = classify1 l :: items (u :: rest) ++ items B
      rw [items_cons_plain l _ hp]
      simp only [List.cons_append] at this ⊢
      rw [this]
    | err => rw [hs] at h; cases h
    | panic => rw [hs] at h; cases h

theorem map_ok_split {α} (A : List α) (X : List (Res α)) (L : List α) (h : A.map Res.ok ++ X = L.map Res.ok) :
    ∃ ex, L = A ++ ex ∧ X = ex.map Res.ok := by
  induction A generalizing L with
  | nil => exact ⟨L, rfl, by simpa using h⟩
  | cons a rest ih =>
    cases L with
    | nil => simp at h
    | cons b L' =>
      simp only [List.map_cons, List.cons_append, List.cons.injEq, Res.ok.injEq] at h
      obtain ⟨ex, e1, e2⟩ := ih L' h.2
      exact ⟨ex, by rw [h.1, e1]; rfl, e2⟩

/-- **appending text to an accepted text** (cutting at a line boundary, read backwards) -/
theorem append_stable_text (b : MediaPlaylistBuilder) (y t : Str) (p p' : MediaPlaylist)
    (h : parseMediaWith b (pfxM3u ++ (y ++ ['\n'])) = .ok p) (h' : parseMediaWith b (pfxM3u ++ (y ++ '\n' :: t)) = .ok p')
    (hns : ∀ ex : List Line, lineItems t = ex.map Res.ok → ∀ l ∈ ex, C16.isMediaSequence l = false) :
    p.segments <+: p'.segments := by
  obtain ⟨rest, ls, s1, l1, a1⟩ := parseMediaWith_ok b _ p h
  obtain ⟨rest', ls', s1', l1', a1'⟩ := parseMediaWith_ok b _ p' h'
  obtain ⟨r, hs, hr⟩ := header_strip (y ++ ['\n'])
  obtain ⟨r', hs', hr'⟩ := header_strip (y ++ '\n' :: t)
  rw [hs] at s1; cases s1
  rw [hs'] at s1'; cases s1'
  unfold lineItems at l1 l1'
  rw [hr] at l1
  rw [hr', rawLines_append] at l1'
  -- the shorter text's items are accepted by the parser's loop
  have hfold : ∃ st, foldRes (liftItem mediaStep) { builder := b } (items (rawLines (y ++ ['\n']))) = .ok st := by
    unfold assembleMedia at a1
    cases hf : foldRes mediaStep { builder := b } ls with
    | ok st => exact ⟨st, by rw [l1, foldRes_liftItem_map_ok]; exact hf⟩
    | err => rw [hf] at a1; cases a1
    | panic => rw [hf] at a1; cases a1
  obtain ⟨st, hst⟩ := hfold
  rw [items_append_ok _ _ _ st hst, l1] at l1'
  obtain ⟨ex, e1, e2⟩ := map_ok_split ls _ ls' l1'
  subst e1
  exact C16.append_stable b ls ex p p' a1 a1' (hns ex e2)

/-- **truncation inside an item, string level**: whatever text is accepted, its classified lines never end inside an
item — no segment tag (EXTINF, BYTERANGE, DISCONTINUITY, KEY, MAP, PROGRAM-DATE-TIME, DATERANGE) is left without the
URI line that closes the item. Equivalently: a text whose lines classify to `pre ++ t :: post` with `t` such a tag and
no URI line in `post` is rejected by every parse entry point. -/
theorem cut_inside_item_rejected_text (b : MediaPlaylistBuilder) (s rest : Str) (pre post : List Line) (t : Line)
    (hs : stripTag s pfxM3u = .ok rest) (hl : lineItems rest = (pre ++ t :: post).map Res.ok)
    (ht : C16.isSegmentTag t = true) (hno : ∀ l ∈ post, C16.isUriLine l = false) :
    (parseMediaWith b s).isOk = false := by
  rw [parseMediaWith_of_lines b s rest _ hs hl]
  exact C16.cut_inside_item_rejected b pre post t ht hno

end Hls.C16T
