import Hls.Proofs.Render
import Hls.Proofs.MasterWrittenRT
import Hls.Proofs.ParsedMaster
import Hls.Proofs.ExamplesMaster
/-!
# C04 — a master playlist survives serialise → parse

* `master_write_parse` (typed lines, unconditional): for **every** playlist value `p` that the
  parser can produce, running the parser's state machine on the lines the writer emits gives
  back exactly `p`.
* `master_roundtrip` (text): the same through `to_string()` and `MasterPlaylist::try_from`,
  provided each written line's text classifies back to the line (`LineRT`).  Equality of values gives
  the fixed point of the serialisation for free (`master_fixed_point`).
* `master_roundtrip_wf` (text, from conditions on the value): `LineRT` is proved for every kind of line
  the master writer emits (`Proofs/MasterWrittenRT.master_written_lines_rt`: EXT-X-MEDIA, both STREAM-INF
  tags with their stream data, SESSION-DATA, SESSION-KEY, START, VERSION, INDEPENDENT-SEGMENTS) for the
  values in `MasterWF` — strings without quote / line end, integers below 2^64, one of the 67 in-stream
  ids, the tag's own rules — plus two facts about Rust's float formatting (the START offset and the
  three-decimal FRAME-RATE read back) and the verbatim unknown tags.
* `master_roundtrip_parsed` (text, for everything the parser returns): `MasterWF` itself is derived for
  every parsed playlist (`Proofs/ParsedMaster`), leaving only the two float facts (`MasterOpen`).
-/
namespace Hls.C04
open Hls

theorem fold_media (ms : List ExtXMedia) (st : MState) :
    foldRes masterStep st (ms.map Line.media) = .ok { st with media := st.media ++ ms } := by
  induction ms generalizing st with
  | nil => simp [foldRes]
  | cons m rest ih => simp only [List.map_cons, foldRes, masterStep]; rw [ih]; simp

theorem fold_variants (vs : List VariantStream) (st : MState) :
    foldRes masterStep st (vs.map Line.variant) = .ok { st with variant_streams := st.variant_streams ++ vs } := by
  induction vs generalizing st with
  | nil => simp [foldRes]
  | cons m rest ih => simp only [List.map_cons, foldRes, masterStep]; rw [ih]; simp

theorem fold_sessionData (ds : List ExtXSessionData) (st : MState) :
    foldRes masterStep st (ds.map Line.sessionData) = .ok { st with session_data := st.session_data ++ ds } := by
  induction ds generalizing st with
  | nil => simp [foldRes]
  | cons m rest ih => simp only [List.map_cons, foldRes, masterStep]; rw [ih]; simp

theorem fold_sessionKeys (ks : List DecryptionKey) (st : MState) :
    foldRes masterStep st (ks.map Line.sessionKey) = .ok { st with session_keys := st.session_keys ++ ks } := by
  induction ks generalizing st with
  | nil => simp [foldRes]
  | cons m rest ih => simp only [List.map_cons, foldRes, masterStep]; rw [ih]; simp

theorem fold_unknown (us : List Str) (st : MState) :
    foldRes masterStep st (us.map Line.unknown) = .ok { st with unknown_tags := st.unknown_tags ++ us } := by
  induction us generalizing st with
  | nil => simp [foldRes]
  | cons m rest ih => simp only [List.map_cons, foldRes, masterStep]; rw [ih]; simp

/-- the value is one the builder's validation accepts -/
def Valid (p : MasterPlaylist) : Prop :=
  (validateVariants (some p.media) (false, false) p.variant_streams && validateSessionData [] p.session_data) = true

theorem parsed_valid (ls : List Line) (p : MasterPlaylist) (h : assembleMaster ls = .ok p) : Valid p := by
  unfold assembleMaster at h
  cases hf : foldRes masterStep {} ls with
  | ok st =>
    rw [hf] at h
    simp only [masterFinish, MasterPlaylistBuilder.build] at h
    cases hv : (MasterPlaylistBuilder.validate _) with
    | false => rw [hv] at h; simp at h
    | true =>
      rw [hv] at h
      simp only [Bool.not_true, Bool.false_eq_true, if_false, Res.ok.injEq] at h
      subst h
      simpa [Valid, MasterPlaylistBuilder.validate] using hv
  | err => rw [hf] at h; cases h
  | panic => rw [hf] at h; cases h

/-- the state machine on the written lines of any valid value -/
theorem write_parse_valid (p : MasterPlaylist) (hv : Valid p) : assembleMaster p.writeLines = .ok p := by
  have hver : ∀ st : MState, foldRes masterStep st (if p.requiredVersion != 1 then [Line.version p.requiredVersion] else []) = .ok st := by
    intro st; split <;> simp [foldRes, masterStep]
  obtain ⟨his, start, media, vs, sd, sk, unk⟩ := p
  unfold assembleMaster MasterPlaylist.writeLines
  simp only [foldRes_append, fold_media, fold_variants, fold_sessionData, fold_sessionKeys, fold_unknown]
  rw [hver]
  simp only [Valid] at hv
  cases his <;> cases start <;>
    simp [foldRes, masterStep, masterFinish, MasterPlaylistBuilder.build, MasterPlaylistBuilder.validate] at hv ⊢ <;>
    simp [hv]

/-- **L2 round trip**: for every value the parser can produce -/
theorem master_write_parse (ls : List Line) (p : MasterPlaylist) (h : assembleMaster ls = .ok p) :
    assembleMaster p.writeLines = .ok p :=
  write_parse_valid p (parsed_valid ls p h)

/-- **text round trip** -/
theorem master_roundtrip (s : Str) (p : MasterPlaylist) (h : parseMaster s = .ok p)
    (hrt : ∀ l ∈ p.writeLines, LineRT l) : parseMaster p.show = .ok p := by
  obtain ⟨_, ls, _, _, ha⟩ := parseMaster_ok s p h
  unfold MasterPlaylist.show
  rw [parseMaster_of_written p.writeLines hrt]
  exact master_write_parse ls p ha

/-- **serialisation is a fixed point after one round** -/
theorem master_fixed_point (s : Str) (p p' : MasterPlaylist) (h : parseMaster s = .ok p)
    (hrt : ∀ l ∈ p.writeLines, LineRT l) (h' : parseMaster p.show = .ok p') : p'.show = p.show := by
  rw [master_roundtrip s p h hrt] at h'
  cases h'; rfl

/-- **text round trip from conditions on the value** -/
theorem master_roundtrip_wf (s : Str) (p : MasterPlaylist) (h : parseMaster s = .ok p) (wf : MasterWF p) :
    parseMaster p.show = .ok p :=
  master_roundtrip s p h (master_written_lines_rt p wf)

theorem master_fixed_point_wf (s : Str) (p p' : MasterPlaylist) (h : parseMaster s = .ok p) (wf : MasterWF p)
    (h' : parseMaster p.show = .ok p') : p'.show = p.show :=
  master_fixed_point s p p' h (master_written_lines_rt p wf) h'

/-- **the round trip for everything the master parser returns**: whatever text `s` the playlist `p` was parsed
from, writing `p` and parsing the result gives `p` back, and writing that again gives the same bytes — under
`MasterOpen p` only: two facts about Rust's float formatting (the EXT-X-START offset and the three-decimal
FRAME-RATE read back). Everything else `MasterWF` asks for is derived from the fact that `p` came out of the
parser (`text_lines_mgood`, `assembled_masterWF`). -/
theorem master_roundtrip_parsed (s : Str) (p : MasterPlaylist) (h : parseMaster s = .ok p) (ho : MasterOpen p) :
    parseMaster p.show = .ok p := by
  obtain ⟨rest, ls, _, h2, h3⟩ := parseMaster_ok s p h
  exact master_roundtrip_wf s p h (assembled_masterWF ls p h3 (text_lines_mgood rest ls h2) ho)

theorem master_fixed_point_parsed (s : Str) (p p' : MasterPlaylist) (h : parseMaster s = .ok p) (ho : MasterOpen p)
    (h' : parseMaster p.show = .ok p') : p'.show = p.show := by
  rw [master_roundtrip_parsed s p h ho] at h'
  cases h'; rfl

/-- **the canonical text of any valid value is read faithfully**: no parse in the hypotheses — for every master
playlist value that passes the builder's validation (`Valid`) and whose fields are in the text domain (`MasterWF`),
the parser returns exactly that value from `to_string()` -/
theorem master_canonical_text (p : MasterPlaylist) (hv : Valid p) (wf : MasterWF p) : parseMaster p.show = .ok p := by
  unfold MasterPlaylist.show
  rw [parseMaster_of_written p.writeLines (master_written_lines_rt p wf)]
  exact write_parse_valid p hv

/-- **faithful in any layout**: any text `#EXTM3U` + `x` whose lines classify into typed lines that agree with the lines
the writer prints for `p` — up to comments, EXT-X-VERSION lines and swaps of independent lines — parses to exactly `p` -/
theorem master_any_layout (p : MasterPlaylist) (hv : Valid p) (wf : MasterWF p) (x : Str) (ls : List Line)
    (hx : lineItems x = ls.map Res.ok)
    (hs : C12.SwapEq C12.masterIndep (ls.filter C12.nonNeutral) ((p.writeLines.map Line.norm).filter C12.nonNeutral)) :
    parseMaster (pfxM3u ++ x) = .ok p := by
  have hrt := master_written_lines_rt p wf
  have hcanon : lineItems ('\n' :: renderLines p.writeLines) = (p.writeLines.map Line.norm).map Res.ok := by
    unfold lineItems
    have := rawLines_append_nl [] (renderLines p.writeLines) (by simp)
    simp only [List.nil_append] at this
    rw [this]
    have hk : keepLine [] = [] := rfl
    rw [hk, List.nil_append]
    exact lineItems_renderLines p.writeLines hrt
  rw [C12.master_presentation x ('\n' :: renderLines p.writeLines) ls (p.writeLines.map Line.norm) hx hcanon hs]
  have e1 : pfxM3u ++ '\n' :: renderLines p.writeLines = pfxM3u ++ ['\n'] ++ renderLines p.writeLines := by simp
  rw [e1, parseMaster_of_written p.writeLines hrt]
  exact write_parse_valid p hv

/-- non-vacuity of `master_roundtrip_wf` / `master_roundtrip_parsed`: a concrete master playlist with every kind of
tag is in `MasterWF` and round-trips at string level -/
theorem example_master : MasterWF exMaster ∧ parseMaster exMaster.show = .ok exMaster := ⟨exMaster_wf, exMaster_roundtrip⟩

end Hls.C04
