import Hls.Proofs.NoPanic
import Hls.Proofs.Fold
import Hls.Props.C08
import Hls.Proofs.KeySet
/-!
# C05 — parsing and re-serialising never panic (and every model function terminates)

The model returns `Res.panic` exactly where the Rust code can unwind. Termination: every function
of the model is accepted by Lean's termination checker (structural recursion, or well-founded
recursion on the remaining input length for `attrPairs`, `items`, `showNat`) — no `partial`, no fuel
that could run out on long inputs except the bounded digit searches of float printing.
What a theorem cannot express — running time — is measured by the harness (evidence `timing`).
-/
namespace Hls.C05
open Hls

/-! ## the line classifier -/

/-- a predicate holds for every arm of `Tag::try_from` -/
def AllArms (P : (Str → Res Line) → Prop) : List (String × (Str → Res Line)) → Prop
  | [] => True
  | (_, p) :: rest => P p ∧ AllArms P rest

theorem AllArms_lookup (P : (Str → Res Line) → Prop) (kind : String) (l : List (String × (Str → Res Line)))
    (h : AllArms P l) (p : Str → Res Line) (hl : lookupParser kind l = some p) : P p := by
  induction l with
  | nil => cases hl
  | cons e rest ih =>
    obtain ⟨k, q⟩ := e
    simp only [lookupParser] at hl
    split at hl
    · simp only [Option.some.injEq] at hl; subst hl; exact h.1
    · exact ih h.2 hl

theorem tagParser_np (kind : String) (s : Str) : tagParser kind s ≠ .panic := by
  unfold tagParser
  cases hl : lookupParser kind tagParsers with
  | none => simp
  | some p =>
    refine AllArms_lookup (fun p => ∀ s, p s ≠ .panic) kind tagParsers ?_ p hl s
    simp only [tagParsers, AllArms]
    simp

theorem dispatchIn_np (tbl : List (String × String × Bool)) (s : Str) : dispatchIn tbl s ≠ .panic := by
  induction tbl with
  | nil => simp [dispatchIn]
  | cons e rest ih =>
    obtain ⟨k, p, ex⟩ := e
    simp only [dispatchIn]
    split
    · exact tagParser_np k s
    · exact ih

theorem classify1_np (l : Str) : classify1 l ≠ .panic := by
  simp only [classify1]
  split
  · exact dispatchIn_np _ l
  · split <;> simp

theorem items_np (ls : List Str) : ∀ it ∈ items ls, it ≠ .panic := by
  fun_induction items ls with
  | case1 => intro it h; cases h
  | case2 l h => intro it hi; simp only [List.mem_singleton] at hi; subst hi; simp
  | case3 l h => intro it hi; simp only [List.mem_singleton] at hi; subst hi; exact classify1_np l
  | case4 l u rest h ih =>
    intro it hi
    rcases List.mem_cons.mp hi with rfl | hi
    · simp
    · exact ih it hi
  | case5 l u rest h ih =>
    intro it hi
    rcases List.mem_cons.mp hi with rfl | hi
    · exact classify1_np l
    · exact ih it hi

/-! ## every public text entry point of a tag or attribute type -/

theorem types_never_panic (s : Str) :
    ByteRange.parse s ≠ .panic ∧ Channels.parse s ≠ .panic ∧ DecryptionKey.parse s ≠ .panic ∧
    EncryptionMethod.parse s ≠ .panic ∧ Float32.parseFloat s ≠ .panic ∧ Float32.parseUFloat s ≠ .panic ∧
    HdcpLevel.parse s ≠ .panic ∧ InStreamId.parse s ≠ .panic ∧ InitializationVector.parse s ≠ .panic ∧
    KeyFormatVersions.parse s ≠ .panic ∧ MediaType.parse s ≠ .panic ∧ PlaylistType.parse s ≠ .panic ∧
    ProtocolVersion.parse s ≠ .panic ∧ Resolution.parse s ≠ .panic ∧ StreamData.parse s ≠ .panic ∧
    Value.parse s ≠ .panic := by
  simp

theorem tags_never_panic (s : Str) :
    ExtXVersion.parse s ≠ .panic ∧ ExtInf.parse s ≠ .panic ∧ ExtXByteRange.parse s ≠ .panic ∧
    ExtXKey.parse s ≠ .panic ∧ ExtXMap.parse s ≠ .panic ∧ ExtXProgramDateTime.parse s ≠ .panic ∧
    ExtXDateRange.parse s ≠ .panic ∧ ExtXMedia.parse s ≠ .panic ∧ ExtXSessionData.parse s ≠ .panic ∧
    ExtXSessionKey.parse s ≠ .panic ∧ ExtXStart.parse s ≠ .panic ∧ VariantStream.parse s ≠ .panic := by
  simp

/-! ## byte ranges produced by the classifier fit 64 bits, so `set_start` inside `build` cannot fire -/

theorem parseNat?_lt (bits : Nat) (s : Str) (n : Nat) (h : parseNat? bits s = some n) : n < 2 ^ bits := by
  unfold parseNat? at h
  simp only at h
  split at h
  · cases h
  · split at h
    · split at h
      · simp only [Option.some.injEq] at h; subst h; assumption
      · cases h
    · cases h

theorem ByteRange.parse_end (s : Str) (r : ByteRange) (h : ByteRange.parse s = .ok r) : r.end_ ≤ u64Max := by
  simp only [ByteRange.parse] at h
  cases hl : parseNat? 64 (splitN2 '@' s).1 with
  | none => rw [hl] at h; cases h
  | some len =>
    rw [hl] at h
    simp only at h
    have hlen := parseNat?_lt 64 _ _ hl
    cases ho : (splitN2 '@' s).2 with
    | none =>
      rw [ho] at h; simp only [Res.ok.injEq] at h; subst h
      simp only [u64Max]; omega
    | some os =>
      rw [ho] at h; simp only at h
      cases hs : parseNat? 64 os with
      | none => rw [hs] at h; cases h
      | some st =>
        rw [hs] at h; simp only at h
        split at h
        · simp only [Res.ok.injEq] at h; subst h; simp only [u64Max]; omega
        · cases h

@[simp] theorem Res.map_eq_ok {α β} (f : α → β) (x : Res α) (y : β) :
    Res.map f x = .ok y ↔ ∃ a, x = .ok a ∧ f a = y := by
  cases x <;> simp [Res.map]

theorem tagParser_byteRange (kind : String) (s : Str) (r : ByteRange)
    (h : tagParser kind s = .ok (.byteRange r)) : r.end_ ≤ u64Max := by
  unfold tagParser at h
  cases hl : lookupParser kind tagParsers with
  | none => rw [hl] at h; cases h
  | some p =>
    rw [hl] at h
    refine AllArms_lookup (fun p => ∀ s r, p s = .ok (.byteRange r) → r.end_ ≤ u64Max) kind tagParsers ?_ p hl s r h
    simp only [tagParsers, AllArms]
    simp only [Res.map_eq_ok, reduceCtorEq, and_false, exists_false, false_imp_iff, implies_true, true_and, and_true,
      Line.byteRange.injEq, exists_eq_right]
    intro s r h
    simp only [ExtXByteRange.parse] at h
    cases hs : stripTag s pfxByteRange with
    | ok rest => rw [hs] at h; exact ByteRange.parse_end rest r (by simpa using h)
    | err => rw [hs] at h; simp at h
    | panic => rw [hs] at h; simp at h

theorem dispatchIn_byteRange (tbl : List (String × String × Bool)) (s : Str) (r : ByteRange)
    (h : dispatchIn tbl s = .ok (.byteRange r)) : r.end_ ≤ u64Max := by
  induction tbl with
  | nil => simp [dispatchIn] at h
  | cons e rest ih =>
    obtain ⟨k, p, ex⟩ := e
    simp only [dispatchIn] at h
    split at h
    · exact tagParser_byteRange k s r h
    · exact ih h

theorem classify1_byteRange (l : Str) (r : ByteRange) (h : classify1 l = .ok (.byteRange r)) : r.end_ ≤ u64Max := by
  simp only [classify1] at h
  split at h
  · exact dispatchIn_byteRange _ l r h
  · split at h <;> simp at h

theorem items_byteRange (ls : List Str) (r : ByteRange) (h : Res.ok (Line.byteRange r) ∈ items ls) : r.end_ ≤ u64Max := by
  fun_induction items ls with
  | case1 => cases h
  | case2 l hl => simp at h
  | case3 l hl => simp only [List.mem_singleton] at h; exact classify1_byteRange l r h.symm
  | case4 l u rest hl ih =>
    rcases List.mem_cons.mp h with e | h
    · exfalso
      have e' := e.symm
      rw [Res.map_eq_ok] at e'
      obtain ⟨a, _, ha⟩ := e'
      cases ha
    · exact ih h
  | case5 l u rest hl ih =>
    rcases List.mem_cons.mp h with e | h
    · exact classify1_byteRange l r e.symm
    · exact ih h

/-! ## the `build` loop -/

theorem resolveRange_np (prev : Option ByteRange) (r : Option ByteRange)
    (hp : C08.InRange prev) (hr : C08.InRange r) :
    resolveRange prev r ≠ .panic ∧ ∀ br, resolveRange prev r = .ok br → C08.InRange br := by
  rcases C08.resolveRange_eq prev r hp with ⟨h1, h2⟩ | ⟨x, hx, hbad⟩
  · rw [h1]; exact ⟨by simp, fun br e => by simp only [Res.ok.injEq] at e; subst e; exact h2⟩
  · exact absurd (hr x hx) hbad

theorem buildLoop_np (seq : Nat) (slots : List (Option MediaSegment)) (i : Nat) (prev : Option ByteRange)
    (hin : ∀ s, some s ∈ slots → C08.InRange s.byte_range) (hp : C08.InRange prev) :
    buildLoop seq i prev slots ≠ .panic := by
  induction slots generalizing i prev with
  | nil => simp [buildLoop]
  | cons x xs ih =>
    cases x with
    | none =>
      simp only [buildLoop]
      have := ih (i + 1) prev (fun s hs => hin s (List.mem_cons_of_mem _ hs)) hp
      cases hr : buildLoop seq (i + 1) prev xs <;> simp_all
    | some s =>
      simp only [buildLoop]
      have hs := hin s (by simp)
      obtain ⟨hnp, hok⟩ := resolveRange_np prev s.byte_range hp hs
      cases h1 : buildOne seq i prev s with
      | err => simp
      | panic =>
        exfalso
        unfold buildOne at h1
        cases hn : segNumber seq i s with
        | ok n =>
          rw [hn] at h1; simp only at h1
          cases hr : resolveRange prev s.byte_range with
          | ok br => rw [hr] at h1; cases h1
          | err => rw [hr] at h1; cases h1
          | panic => exact hnp hr
        | err => rw [hn] at h1; cases h1
        | panic => unfold segNumber at hn; repeat' split at hn
                   all_goals cases hn
      | ok s' =>
        simp only
        obtain ⟨n, br, _, hr, e⟩ := buildOne_ok _ _ _ _ _ h1
        have hbr : C08.InRange s'.byte_range := by subst e; exact hok br hr
        have hp' : C08.InRange (nextPrev prev s'.byte_range) := by
          intro q hq; unfold nextPrev at hq
          split at hq
          · rename_i r' hr'; simp only [Option.some.injEq] at hq; subst hq; exact hbr _ hr'
          · exact hp q hq
        have := ih (i + 1) _ (fun s hs => hin s (List.mem_cons_of_mem _ hs)) hp'
        cases hr2 : buildLoop seq (i + 1) (nextPrev prev s'.byte_range) xs <;> simp_all

theorem build_np (b : MediaPlaylistBuilder)
    (hin : ∀ slots, b.segments = some slots → ∀ s, some s ∈ slots → C08.InRange s.byte_range) :
    b.build ≠ .panic := by
  unfold MediaPlaylistBuilder.build
  split
  · simp
  · cases hs : b.segments with
    | none => simp
    | some slots =>
      simp only
      split
      · simp
      · have := buildLoop_np (b.media_sequence.getD 0) slots 0 none (hin slots hs) (by intro x e; cases e)
        cases hb : buildLoop (b.media_sequence.getD 0) 0 none slots with
        | ok slots' => simp only [finishBuild]; repeat' split
                       all_goals simp
        | err => simp
        | panic => exact absurd hb this

/-! ## the two playlist parsers, for every input string -/

theorem segBuild_np (b : MediaSegmentBuilder) : b.build ≠ .panic := by
  simp only [MediaSegmentBuilder.build]; split <;> simp

theorem mediaStep_np (st : PState) (l : Line) : mediaStep st l ≠ .panic := by
  cases l
  case uri u =>
    simp only [mediaStep]
    have := segBuild_np { st.segment with uri := some u, keys := some st.available_keys }
    cases hb : MediaSegmentBuilder.build { st.segment with uri := some u, keys := some st.available_keys } with
    | ok seg => simp
    | err => simp
    | panic => exact absurd hb this
  case discontinuitySequence n =>
    simp only [mediaStep]; repeat' split
    all_goals simp
  all_goals simp [mediaStep]

theorem masterStep_np (st : MState) (l : Line) : masterStep st l ≠ .panic := by
  cases l <;> simp [masterStep]

theorem liftItem_np {σ} (step : σ → Line → Res σ) (h : ∀ s l, step s l ≠ .panic) (s : σ) (it : Res Line)
    (hi : it ≠ .panic) : liftItem step s it ≠ .panic := by
  cases it with
  | ok l => exact h s l
  | err => simp [liftItem]
  | panic => exact absurd rfl hi

/-- **C05 (master).** `MasterPlaylist::try_from` returns `Ok` or `Err` for every input string. -/
theorem parseMaster_never_panics (s : Str) : parseMaster s ≠ .panic := by
  unfold parseMaster
  cases hs : stripTag s pfxM3u with
  | ok rest =>
    simp only
    have := foldRes_ne_panic_mem (liftItem masterStep) (lineItems rest)
      (fun st it hit => liftItem_np masterStep masterStep_np st it (items_np _ it hit)) {}
    cases hf : foldRes (liftItem masterStep) {} (lineItems rest) with
    | ok st => simp only [masterFinish, MasterPlaylistBuilder.build]; split <;> simp
    | err => simp
    | panic => exact absurd hf this
  | err => simp
  | panic => simp at hs

/-- **C05 (media).** `MediaPlaylist::try_from`, `FromStr` and `MediaPlaylistBuilder::parse` (any
builder configuration) return `Ok` or `Err` for every input string. -/
theorem parseMedia_never_panics (b : MediaPlaylistBuilder) (s : Str) : parseMediaWith b s ≠ .panic := by
  unfold parseMediaWith
  cases hs : stripTag s pfxM3u with
  | ok rest =>
    simp only
    have := foldRes_ne_panic_mem (liftItem mediaStep) (lineItems rest)
      (fun st it hit => liftItem_np mediaStep mediaStep_np st it (items_np _ it hit)) { builder := b }
    cases hf : foldRes (liftItem mediaStep) { builder := b } (lineItems rest) with
    | ok st =>
      simp only
      obtain ⟨ls, h1, h2⟩ := foldRes_liftItem_ok mediaStep _ _ _ hf
      have hl : C08.LinesInRange ls := by
        intro r hr
        apply items_byteRange (rawLines rest) r
        show Res.ok (Line.byteRange r) ∈ lineItems rest
        rw [h1]; exact List.mem_map.mpr ⟨_, hr, rfl⟩
      have hin := C08.segments_inRange ls _ st hl ⟨(by intro x e; cases e), (by intro s hs; cases hs)⟩ h2
      have hinv := pinv_fold ls _ st (pinv_init b) h2
      have hseg := setSegments_implicit st.builder st.segments hinv.2.2
      unfold mediaFinish
      split
      · simp
      · apply build_np
        intro slots hsl s' hs'
        have e : ({ st.builder.setSegments st.segments with unknown := some st.unknown } : MediaPlaylistBuilder).segments
            = some (st.segments.map some) := hseg
        rw [e] at hsl; simp only [Option.some.injEq] at hsl; subst hsl
        obtain ⟨s0, hs0, e0⟩ := List.mem_map.mp hs'
        simp only [Option.some.injEq] at e0; subst e0
        exact hin.2 s0 hs0
    | err => simp
    | panic => exact absurd hf this
  | err => simp
  | panic => simp at hs

/-! ## `to_string()` on anything -/

theorem findReplaced_np (k : DecryptionKey) (l : List ExtXKey) (h : none ∉ l) : findReplaced k l ≠ .panic := by
  induction l with
  | nil => simp [findReplaced]
  | cons x xs ih =>
    cases x with
    | none => exact absurd (by simp) h
    | some d =>
      simp only [findReplaced]
      split
      · simp
      · exact ih (fun hx => h (List.mem_cons_of_mem _ hx))

theorem writeKeyStep_np (st : List ExtXKey × List Line) (k : ExtXKey) : writeKeyStep st k ≠ .panic := by
  obtain ⟨avail, out⟩ := st
  cases k with
  | none => simp [writeKeyStep]
  | some dk =>
    simp only [writeKeyStep]
    split
    · simp
    · have hno : none ∉ setInsert (some (stripIv dk)) (setRemove none avail) := by
        intro h
        rcases (mem_setInsert _ _ _).mp h with h | h
        · cases h
        · exact ((mem_setRemove _ _ _).mp h).2 rfl
      have := findReplaced_np (stripIv dk) _ hno
      cases hf : findReplaced (stripIv dk) (setInsert (some (stripIv dk)) (setRemove none avail)) with
      | ok r => cases r <;> simp
      | err => simp
      | panic => exact absurd hf this

theorem writeLines_never_panics (p : MediaPlaylist) : p.writeLines ≠ .panic := by
  unfold MediaPlaylist.writeLines
  have : ∀ st, foldRes writeSegStep st p.segments ≠ .panic := by
    intro st
    apply foldRes_ne_panic
    intro st s
    simp only [writeSegStep]
    have := foldRes_ne_panic writeKeyStep writeKeyStep_np (resetStep st s.keys) s.keys
    cases hf : foldRes writeKeyStep (resetStep st s.keys) s.keys with
    | ok r => simp
    | err => simp
    | panic => exact absurd hf this
  cases hf : foldRes writeSegStep ([], p.headerLines) p.segments with
  | ok r => simp
  | err => simp
  | panic => exact absurd hf (this _)

/-- **C05 (writer).** `to_string()` of ANY media playlist value (parsed or built, whatever its key
lists look like) does not reach the writer's `unreachable!`. -/
theorem show_never_panics (p : MediaPlaylist) : p.show ≠ .panic := by
  unfold MediaPlaylist.show
  have := writeLines_never_panics p
  cases hf : p.writeLines with
  | ok r => simp
  | err => simp
  | panic => exact absurd hf this

/-! ## non-vacuity: the inputs that used to panic are now errors (typed-level evaluation) -/
example : unquote ['"'] = [] := by decide
example : ByteRange.parse "18446744073709551615@1".toList = .err := by decide
example : (assembleMedia {} [.targetDuration 10000000000, .mediaSequence (2 ^ 64 - 1),
    .inf ⟨1, none⟩, .uri ['a'], .inf ⟨1, none⟩, .uri ['b']]) = .err := by decide

end Hls.C05
