import Hls.Proofs.AttrFold
import Hls.Proofs.Attr
import Hls.Proofs.ParserInv
import Hls.Props.C02
import Hls.Proofs.KeyLine
/-!
# C01 — media playlist text is parsed faithfully

* **segments** (`segment_faithful`): the segment flushed at a URI line is determined by the tags
  since the previous URI line and by nothing before it: duration/title = last `EXTINF`, byte range
  = last `EXT-X-BYTERANGE`, discontinuity = some `EXT-X-DISCONTINUITY`, program date-time, date
  range, map (with the keys in effect where it stands), URI; `segments_in_order`: one segment per
  URI line, in order.
* **playlist-level values** (`header_values`): every builder field is the fold of the header tags
  (`hdrUpd`: last `TARGETDURATION` / `MEDIA-SEQUENCE` / … wins, flags are set by presence).
* **rejections** (`mediaStep_err_iff`): the line loop rejects for exactly three reasons — a
  master-playlist tag, a URI line without `EXTINF` since the previous URI, a misplaced
  `EXT-X-DISCONTINUITY-SEQUENCE`; the checks after the loop are C08/C09's rules plus the
  independent-segments rule, whose over-strictness is recorded finding K1 (`k1_counterexample`).
* **attributes** (`*_faithful`): as in C02, through the closed forms of `Proofs/AttrFold`.
-/
namespace Hls.C01
open Hls

/-! ## the tags of one segment -/

def isSegTag : Line → Bool
  | .inf _ | .byteRange _ | .discontinuity | .key _ | .map _ | .programDateTime _ | .dateRange _ => true
  | _ => false

def isDisc : Line → Bool
  | .discontinuity => true
  | _ => false

/-- effect of a segment tag on the segment under construction (given the keys in effect) -/
def segUpd (keys : List ExtXKey) (sb : MediaSegmentBuilder) : Line → MediaSegmentBuilder
  | .inf t => { sb with duration := some t }
  | .byteRange r => { sb with byte_range := some r }
  | .discontinuity => { sb with has_discontinuity := some true }
  | .map m => { sb with map := some { m with keys := keys } }
  | .programDateTime t => { sb with program_date_time := some t }
  | .dateRange t => { sb with date_range := some t }
  | _ => sb

theorem segTag_step (st : PState) (l : Line) (h : isSegTag l = true) :
    ∃ st', mediaStep st l = .ok st' ∧ st'.segment = segUpd st.available_keys st.segment l ∧
      st'.available_keys = keyOfLine st.available_keys l ∧ st'.segments = st.segments ∧
      st'.builder = st.builder ∧ st'.unknown = st.unknown ∧ st'.has_partial_segment = true ∧
      st'.has_discontinuity_tag = (st.has_discontinuity_tag || isDisc l) := by
  cases l <;> simp [isSegTag] at h <;> exact ⟨_, rfl, rfl, rfl, rfl, rfl, rfl, rfl, by simp [isDisc]⟩

/-- the pair (segment under construction, keys in effect) after a run of segment tags -/
def groupFold (acc : MediaSegmentBuilder × List ExtXKey) (tags : List Line) : MediaSegmentBuilder × List ExtXKey :=
  tags.foldl (fun a l => (segUpd a.2 a.1 l, keyOfLine a.2 l)) acc

theorem group_fold (tags : List Line) (st : PState) (h : ∀ l ∈ tags, isSegTag l = true) :
    ∃ st', foldRes mediaStep st tags = .ok st' ∧
      (st'.segment, st'.available_keys) = groupFold (st.segment, st.available_keys) tags ∧
      st'.segments = st.segments ∧ st'.builder = st.builder ∧ st'.unknown = st.unknown ∧
      st'.has_discontinuity_tag = (st.has_discontinuity_tag || tags.any isDisc) := by
  induction tags generalizing st with
  | nil => exact ⟨st, rfl, rfl, rfl, rfl, rfl, by simp⟩
  | cons l rest ih =>
    obtain ⟨t, h1, h2, h3, h4, h5, h6, _, h7⟩ := segTag_step st l (h l (by simp))
    obtain ⟨st', g1, g2, g3, g4, g5, g6⟩ := ih t (fun l' hl' => h l' (by simp [hl']))
    refine ⟨st', by simp [foldRes, h1, g1], ?_, by rw [g3, h4], by rw [g4, h5], by rw [g5, h6], ?_⟩
    · rw [g2, h2, h3]; rfl
    · rw [g6, h7]; simp [Bool.or_assoc]

/-- last value of a kind among the tags -/
def lastOf {α} (f : Line → Option α) (tags : List Line) : Option α :=
  tags.foldl (fun acc l => match f l with
    | some x => some x
    | none => acc) none

def infOf : Line → Option ExtInf
  | .inf t => some t
  | _ => none
def rangeOf : Line → Option ByteRange
  | .byteRange r => some r
  | _ => none
def pdtOf : Line → Option ExtXProgramDateTime
  | .programDateTime t => some t
  | _ => none
def dateRangeOf : Line → Option ExtXDateRange
  | .dateRange t => some t
  | _ => none
/-- generic: a field that only one kind of tag writes holds the last such tag -/
theorem groupFold_field {α} (get : MediaSegmentBuilder → Option α) (f : Line → Option α)
    (hset : ∀ keys sb l x, f l = some x → get (segUpd keys sb l) = some x)
    (hkeep : ∀ keys sb l, f l = none → get (segUpd keys sb l) = get sb)
    (tags : List Line) (acc : MediaSegmentBuilder × List ExtXKey) :
    get (groupFold acc tags).1 = (lastOf f tags).or (get acc.1) := by
  induction tags using snoc_induction generalizing acc with
  | hnil => simp [groupFold, lastOf]
  | hsnoc l a ih =>
    simp only [groupFold, lastOf, List.foldl_append, List.foldl_cons, List.foldl_nil]
    cases hf : f a with
    | some x => simp [hset _ _ _ _ hf]
    | none =>
      simp only [hkeep _ _ _ hf]
      exact ih acc

theorem group_keys (tags : List Line) (acc : MediaSegmentBuilder × List ExtXKey) :
    (groupFold acc tags).2 = tags.foldl keyOfLine acc.2 := by
  induction tags generalizing acc with
  | nil => rfl
  | cons l rest ih => simp only [groupFold, List.foldl_cons] at ih ⊢; exact ih _

theorem group_disc (tags : List Line) (acc : MediaSegmentBuilder × List ExtXKey) :
    (groupFold acc tags).1.has_discontinuity.getD false = (acc.1.has_discontinuity.getD false || tags.any isDisc) := by
  induction tags generalizing acc with
  | nil => simp [groupFold]
  | cons l rest ih =>
    simp only [groupFold, List.foldl_cons, List.any_cons] at ih ⊢
    rw [ih]
    cases l <;> simp [segUpd, isDisc]

theorem group_explicit (tags : List Line) (acc : MediaSegmentBuilder × List ExtXKey) :
    (groupFold acc tags).1.explicit_number = acc.1.explicit_number ∧ (groupFold acc tags).1.number = acc.1.number := by
  induction tags generalizing acc with
  | nil => exact ⟨rfl, rfl⟩
  | cons l rest ih =>
    simp only [groupFold, List.foldl_cons] at ih ⊢
    obtain ⟨a, b⟩ := ih (segUpd acc.2 acc.1 l, keyOfLine acc.2 l)
    rw [a, b]
    cases l <;> exact ⟨rfl, rfl⟩

/-- **the segment a URI line flushes**: determined by the tags since the previous URI line.
`st.segment = {}` is the state right after a flush (and at the start). -/
theorem segment_faithful (st : PState) (tags : List Line) (u : Str) (hfresh : st.segment = {})
    (htags : ∀ l ∈ tags, isSegTag l = true) (t : ExtInf) (hinf : lastOf infOf tags = some t) :
    ∃ st' seg, foldRes mediaStep st (tags ++ [.uri u]) = .ok st' ∧ st'.segments = st.segments ++ [seg] ∧
      st'.segment = {} ∧ st'.has_partial_segment = false ∧
      st'.available_keys = tags.foldl keyOfLine st.available_keys ∧
      seg.uri = u ∧ seg.duration = t ∧
      seg.byte_range = lastOf rangeOf tags ∧
      seg.program_date_time = lastOf pdtOf tags ∧
      seg.date_range = lastOf dateRangeOf tags ∧
      seg.has_discontinuity = tags.any isDisc ∧
      seg.keys = tags.foldl keyOfLine st.available_keys ∧
      seg.explicit_number = false ∧ seg.number = 0 ∧
      seg.map = (groupFold ({}, st.available_keys) tags).1.map ∧
      st'.builder = st.builder ∧ st'.unknown = st.unknown ∧ st'.has_discontinuity_tag = (st.has_discontinuity_tag || tags.any isDisc) := by
  obtain ⟨s1, h1, h2, h3, h4, h5, h6⟩ := group_fold tags st htags
  have hseg : s1.segment = (groupFold (st.segment, st.available_keys) tags).1 := by rw [← h2]
  have hkeys : s1.available_keys = tags.foldl keyOfLine st.available_keys := by
    have : s1.available_keys = (groupFold (st.segment, st.available_keys) tags).2 := by rw [← h2]
    rw [this, group_keys]
  have hdur : s1.segment.duration = some t := by
    rw [hseg, groupFold_field (·.duration) infOf _ _ tags, hinf]
    · rfl
    · intro keys sb l x e; cases l <;> simp [infOf] at e; subst e; rfl
    · intro keys sb l e; cases l <;> simp [infOf] at e <;> rfl
  have hbr : s1.segment.byte_range = lastOf rangeOf tags := by
    rw [hseg, groupFold_field (·.byte_range) rangeOf _ _ tags, hfresh]
    · simp
    · intro keys sb l x e; cases l <;> simp [rangeOf] at e; subst e; rfl
    · intro keys sb l e; cases l <;> simp [rangeOf] at e <;> rfl
  have hpdt : s1.segment.program_date_time = lastOf pdtOf tags := by
    rw [hseg, groupFold_field (·.program_date_time) pdtOf _ _ tags, hfresh]
    · simp
    · intro keys sb l x e; cases l <;> simp [pdtOf] at e; subst e; rfl
    · intro keys sb l e; cases l <;> simp [pdtOf] at e <;> rfl
  have hdr : s1.segment.date_range = lastOf dateRangeOf tags := by
    rw [hseg, groupFold_field (·.date_range) dateRangeOf _ _ tags, hfresh]
    · simp
    · intro keys sb l x e; cases l <;> simp [dateRangeOf] at e; subst e; rfl
    · intro keys sb l e; cases l <;> simp [dateRangeOf] at e <;> rfl
  have hdisc : s1.segment.has_discontinuity.getD false = tags.any isDisc := by
    rw [hseg, group_disc, hfresh]; simp
  have hexp : s1.segment.explicit_number = none := by
    rw [hseg, (group_explicit tags _).1, hfresh]
  have hnum : s1.segment.number = none := by
    rw [hseg, (group_explicit tags _).2, hfresh]
  rw [foldRes_append, h1]
  simp only [foldRes, mediaStep, MediaSegmentBuilder.build, hdur]
  let seg0 : MediaSegment := ⟨s1.segment.number.getD 0, s1.segment.explicit_number.getD false, s1.available_keys, s1.segment.map,
    s1.segment.byte_range, s1.segment.date_range, s1.segment.has_discontinuity.getD false, s1.segment.program_date_time, t, u⟩
  refine ⟨{ s1 with segments := s1.segments ++ [seg0], segment := {}, has_partial_segment := false }, seg0,
    rfl, ?_, rfl, rfl, hkeys, rfl, rfl, hbr, hpdt, hdr, hdisc, hkeys, ?_, ?_, ?_, h4, h5, h6⟩
  · simp [h3]
  · simp [seg0, hexp]
  · simp [seg0, hnum]
  · simp only [seg0]; rw [hseg, hfresh]

/-! ## one segment per URI line, in order; `build` keeps what the tags said -/

def uriOf : Line → Option Str
  | .uri u => some u
  | _ => none

theorem step_uris (st st' : PState) (l : Line) (h : mediaStep st l = .ok st') :
    st'.segments.map (·.uri) = st.segments.map (·.uri) ++ (uriOf l).toList := by
  cases l <;> simp only [mediaStep] at h <;>
    first
    | (simp only [Res.ok.injEq] at h; subst h; simp [uriOf]; done)
    | (cases h; done)
    | (repeat' split at h
       all_goals first
         | (simp only [Res.ok.injEq] at h; subst h; simp [uriOf]; done)
         | (cases h; done)
         | skip)
  -- the URI line
  all_goals (
    rename_i seg hb
    simp only [Res.ok.injEq] at h; subst h
    simp only [MediaSegmentBuilder.build] at hb
    split at hb
    · simp only [Res.ok.injEq] at hb; subst hb; simp_all [uriOf]
    · cases hb)

theorem fold_uris (ls : List Line) (st st' : PState) (h : foldRes mediaStep st ls = .ok st') :
    st'.segments.map (·.uri) = st.segments.map (·.uri) ++ ls.filterMap uriOf := by
  induction ls generalizing st with
  | nil => simp only [foldRes, Res.ok.injEq] at h; subst h; simp
  | cons l rest ih =>
    simp only [foldRes] at h
    cases hs : mediaStep st l with
    | ok t =>
      rw [hs] at h
      rw [ih t h, step_uris st t l hs]
      cases hu : uriOf l <;> simp [hu]
    | err => rw [hs] at h; cases h
    | panic => rw [hs] at h; cases h

/-- `build` changes number, keys (IV completion) and byte range (explicit offset) only -/
theorem built_keeps (seq : Nat) (a b : List MediaSegment) (i : Nat) (prev : Option ByteRange) (h : Built seq i prev a b) :
    b.map (fun s => (s.uri, s.duration, s.has_discontinuity, s.program_date_time, s.date_range, s.map, s.explicit_number)) =
    a.map (fun s => (s.uri, s.duration, s.has_discontinuity, s.program_date_time, s.date_range, s.map, s.explicit_number)) := by
  induction a generalizing b i prev with
  | nil => cases b with
    | nil => rfl
    | cons _ _ => cases h
  | cons x xs ih =>
    cases b with
    | nil => cases h
    | cons y ys =>
      obtain ⟨h1, h2⟩ := h
      obtain ⟨n, br, _, _, e⟩ := buildOne_ok _ _ _ _ _ h1
      simp only [List.map_cons, ih ys _ _ h2, e]

/-- **exactly the segments the text lists, in order**: one segment per URI line, with that URI -/
theorem segments_in_order (b : MediaPlaylistBuilder) (ls : List Line) (p : MediaPlaylist)
    (h : assembleMedia b ls = .ok p) : p.segments.map (·.uri) = ls.filterMap uriOf := by
  obtain ⟨st, hf, _, hb, _⟩ := assembleMedia_ok b ls p h
  have h1 := fold_uris ls _ st hf
  have h2 := built_keeps _ _ _ _ _ hb
  have h3 : p.segments.map (·.uri) = st.segments.map (·.uri) := by
    have := congrArg (List.map (fun t : Str × ExtInf × Bool × Option ExtXProgramDateTime × Option ExtXDateRange × Option ExtXMap × Bool => t.1)) h2
    simpa [List.map_map, Function.comp_def] using this
  rw [h3, h1]; simp

/-! ## playlist-level values -/

/-- effect of a line on the builder's playlist-level fields -/
def hdrUpd (b : MediaPlaylistBuilder) : Line → MediaPlaylistBuilder
  | .targetDuration d => { b with target_duration := some d }
  | .mediaSequence n => { b with media_sequence := some n }
  | .discontinuitySequence n => { b with discontinuity_sequence := some n }
  | .endList => { b with has_end_list := some true }
  | .playlistType p => { b with playlist_type := some (some p) }
  | .iFramesOnly => { b with has_i_frames_only := some true }
  | .independentSegments => { b with has_independent_segments := some true }
  | .start s => { b with start := some (some s) }
  | _ => b

theorem step_builder (st st' : PState) (l : Line) (h : mediaStep st l = .ok st') : st'.builder = hdrUpd st.builder l := by
  cases l <;> simp only [mediaStep] at h <;>
    first
    | (simp only [Res.ok.injEq] at h; subst h; rfl)
    | (cases h; done)
    | (repeat' split at h
       all_goals first
         | (simp only [Res.ok.injEq] at h; subst h; rfl)
         | (cases h; done))

theorem fold_builder (ls : List Line) (st st' : PState) (h : foldRes mediaStep st ls = .ok st') :
    st'.builder = ls.foldl hdrUpd st.builder := by
  induction ls generalizing st with
  | nil => simp only [foldRes, Res.ok.injEq] at h; subst h; rfl
  | cons l rest ih =>
    simp only [foldRes] at h
    cases hs : mediaStep st l with
    | ok t => rw [hs] at h; rw [ih t h, step_builder st t l hs]; rfl
    | err => rw [hs] at h; cases h
    | panic => rw [hs] at h; cases h

/-- all playlist-level fields of the result, from the builder the loop ends with -/
theorem finish_fields (st : PState) (p : MediaPlaylist) (h : mediaFinish st = .ok p) :
    st.builder.target_duration = some p.target_duration ∧
    p.media_sequence = st.builder.media_sequence.getD 0 ∧
    p.discontinuity_sequence = st.builder.discontinuity_sequence.getD 0 ∧
    p.playlist_type = st.builder.playlist_type.getD none ∧
    p.has_i_frames_only = st.builder.has_i_frames_only.getD false ∧
    p.has_independent_segments = st.builder.has_independent_segments.getD false ∧
    p.start = st.builder.start.getD none ∧
    p.has_end_list = st.builder.has_end_list.getD false ∧
    p.allowable_excess_duration = st.builder.allowable_excess_duration.getD 0 ∧
    p.unknown = st.unknown := by
  unfold mediaFinish at h
  split at h
  · cases h
  · obtain ⟨_, slots, slots', _, _, _, hfin⟩ := build_ok _ _ h
    unfold finishBuild at hfin
    split at hfin
    · cases hfin
    · split at hfin
      · cases hfin
      · rename_i td htd
        simp only [Res.ok.injEq] at hfin; subst hfin
        exact ⟨htd, rfl, rfl, rfl, rfl, rfl, rfl, rfl, rfl, rfl⟩

/-- **playlist-level values are reported exactly as written**: each is the fold of the
playlist-level tags over the initial builder (last tag of a kind wins, flags are set by presence;
`EXT-X-VERSION`, comments, segment tags and URI lines do not touch them) -/
theorem header_values (b : MediaPlaylistBuilder) (ls : List Line) (p : MediaPlaylist) (h : assembleMedia b ls = .ok p) :
    (ls.foldl hdrUpd b).target_duration = some p.target_duration ∧
    p.media_sequence = (ls.foldl hdrUpd b).media_sequence.getD 0 ∧
    p.discontinuity_sequence = (ls.foldl hdrUpd b).discontinuity_sequence.getD 0 ∧
    p.playlist_type = (ls.foldl hdrUpd b).playlist_type.getD none ∧
    p.has_i_frames_only = (ls.foldl hdrUpd b).has_i_frames_only.getD false ∧
    p.has_independent_segments = (ls.foldl hdrUpd b).has_independent_segments.getD false ∧
    p.start = (ls.foldl hdrUpd b).start.getD none ∧
    p.has_end_list = (ls.foldl hdrUpd b).has_end_list.getD false ∧
    p.allowable_excess_duration = (ls.foldl hdrUpd b).allowable_excess_duration.getD 0 ∧
    p.unknown = ls.filterMap C12.unknownText := by
  unfold assembleMedia at h
  cases hf : foldRes mediaStep { builder := b } ls with
  | ok st =>
    rw [hf] at h
    have hb := fold_builder ls _ st hf
    simp only at hb
    have := finish_fields st p h
    rw [hb] at this
    obtain ⟨a1, a2, a3, a4, a5, a6, a7, a8, a9, a10⟩ := this
    refine ⟨a1, a2, a3, a4, a5, a6, a7, a8, a9, ?_⟩
    rw [a10, C12.fold_unknown ls _ st hf]; rfl
  | err => rw [hf] at h; cases h
  | panic => rw [hf] at h; cases h

/-! ## why the line loop can reject -/

/-- **the three reasons**: a master-playlist tag; a URI line without `EXTINF` since the previous
URI line; `EXT-X-DISCONTINUITY-SEQUENCE` after the first segment or `EXT-X-DISCONTINUITY` -/
def isMasterLine : Line → Bool
  | .media _ | .variant _ | .sessionData _ | .sessionKey _ => true
  | _ => false

theorem mediaStep_err_iff (st : PState) (l : Line) :
    mediaStep st l = .err ↔
      (isMasterLine l = true) ∨
      (∃ u, l = .uri u ∧ st.segment.duration = none) ∨
      (∃ n, l = .discontinuitySequence n ∧ (st.segments ≠ [] ∨ st.has_discontinuity_tag = true)) := by
  cases l <;> simp only [mediaStep, isMasterLine]
  case uri u =>
    simp only [MediaSegmentBuilder.build]
    cases hd : st.segment.duration <;> simp [hd]
  case discontinuitySequence n =>
    cases hs : st.segments <;> cases ht : st.has_discontinuity_tag <;> simp [hs, ht]
  all_goals simp

/-! ## attributes of the media tags -/

theorem map_faithful (P : List PaddedPair) (wf : ∀ p ∈ P, p.WF)
    (t : trim (pfxMap ++ renderPadded P) = pfxMap ++ renderPadded P) :
    ExtXMap.parse (pfxMap ++ renderPadded P) = (ExtXMap.closed (P.map C02.kv)).bind fun a =>
      match a.uri with
      | some u => .ok ⟨u, a.range, []⟩
      | none => .err := by
  simp only [ExtXMap.parse, C12.stripTag_line _ _ t, Res.bind_ok, attrPairs_render P wf, ExtXMap.fold_closed]
  rfl

theorem dateRange_faithful (P : List PaddedPair) (wf : ∀ p ∈ P, p.WF)
    (t : trim (pfxDateRange ++ renderPadded P) = pfxDateRange ++ renderPadded P) :
    ExtXDateRange.parse (pfxDateRange ++ renderPadded P) = (ExtXDateRange.closed (P.map C02.kv)).bind ExtXDateRange.finish := by
  simp only [ExtXDateRange.parse, C12.stripTag_line _ _ t, Res.bind_ok, attrPairs_render P wf, ExtXDateRange.fold_closed]
  rfl

theorem key_faithful (P : List PaddedPair) (wf : ∀ p ∈ P, p.WF)
    (t : trim (pfxKey ++ renderPadded P) = pfxKey ++ renderPadded P) :
    ExtXKey.parse (pfxKey ++ renderPadded P) =
      if lastVal "METHOD".toList (P.map C02.kv) == some "NONE".toList then .ok none
      else ((DecryptionKey.closed (P.map C02.kv)).bind DecryptionKey.finish).map some := by
  have ekv : P.map C02.kv = P.map (fun p => (p.k, p.v)) := rfl
  rw [ekv]
  simp only [ExtXKey.parse, DecryptionKey.parse, C12.stripTag_line _ _ t, Res.bind_ok, attrPairs_render P wf,
    DecryptionKey.fold_closed, C12.lastMethod_eq]
  by_cases hc : (lastVal "METHOD".toList (List.map (fun p => (p.k, p.v)) P) == some "NONE".toList) = true
  · rw [if_pos hc, if_pos hc]; rfl
  · rw [if_neg hc, if_neg hc]
    cases DecryptionKey.closed (List.map (fun p => (p.k, p.v)) P) with
    | ok a =>
      show (DecryptionKey.finish a >>= fun k => pure (some k)) = Res.map some (DecryptionKey.finish a)
      cases hfin : DecryptionKey.finish a <;> rfl
    | err => rfl
    | panic => rfl

/-! ## recorded finding K1: the independent-segments rule rejects a valid playlist -/

/-- `EXT-X-INDEPENDENT-SEGMENTS` with one AES-128 key and one SAMPLE-AES key: valid by RFC 8216,
rejected by `validate_media_segments` -/
theorem k1_counterexample :
    assembleMedia {} [.targetDuration 10000000000, .independentSegments,
      .key (some ⟨.aes128, ['a'], .missing, none, none⟩), .inf ⟨1000000000, none⟩, .uri ['s', '0'],
      .key (some ⟨.sampleAes, ['b'], .missing, none, none⟩), .inf ⟨1000000000, none⟩, .uri ['s', '1']] = .err := by decide

end Hls.C01
