import Hls.Model.Master
/-!
# C13 — a master playlist is accepted iff group references and session data are consistent
-/
namespace Hls.C13
open Hls

/-! ## declarative specification -/

/-- a rendition of type `t` with group id `g` is defined -/
def Defined (media : List ExtXMedia) (t : MediaType) (g : Str) : Prop :=
  ∃ m ∈ media, m.media_type = t ∧ m.group_id = g

def OptDefined (media : List ExtXMedia) (t : MediaType) : Option Str → Prop
  | some g => Defined media t g
  | none => True

/-- every group id referenced by the variant is defined by a rendition of the matching type -/
def RefsDefined (media : List ExtXMedia) : VariantStream → Prop
  | .extXStreamInf _ _ au su cc d =>
    OptDefined media .audio au ∧ OptDefined media .video d.video ∧ OptDefined media .subtitles su ∧
    (match cc with
     | some (.groupId g) => Defined media .closedCaptions g
     | _ => True)
  | .extXIFrame _ d => OptDefined media .video d.video

def ccIsNone : VariantStream → Bool
  | .extXStreamInf _ _ _ _ (some .none) _ => true
  | _ => false
def ccIsGroup : VariantStream → Bool
  | .extXStreamInf _ _ _ _ (some (.groupId _)) _ => true
  | _ => false

/-- the consistency the property demands -/
def Consistent (media : List ExtXMedia) (vs : List VariantStream) (ds : List ExtXSessionData) : Prop :=
  (∀ v ∈ vs, RefsDefined media v) ∧
  ¬ (∃ a ∈ vs, ∃ b ∈ vs, ccIsNone a = true ∧ ccIsGroup b = true) ∧
  (ds.map fun d => (d.data_id, d.language)).Nodup

/-! ## the validator equals a closed form -/

theorem checkMediaGroup_iff (media : List ExtXMedia) (t : MediaType) (g : Str) :
    checkMediaGroup (some media) t g = true ↔ Defined media t g := by
  simp [checkMediaGroup, Defined]

def refsOk (media : Option (List ExtXMedia)) : VariantStream → Bool
  | .extXStreamInf _ _ au su cc d =>
    optGroupOk media .audio au && optGroupOk media .video d.video && optGroupOk media .subtitles su &&
    (match cc with
     | some (.groupId g) => checkMediaGroup media .closedCaptions g
     | _ => true)
  | .extXIFrame _ d => optGroupOk media .video d.video

def closedForm (media : Option (List ExtXMedia)) (vs : List VariantStream) (fl : CcFlags) : Bool :=
  vs.all (refsOk media) && (!fl.1 || !vs.any ccIsGroup) && (!fl.2 || !vs.any ccIsNone) &&
  !(vs.any ccIsNone && vs.any ccIsGroup)

theorem validateVariants_closed (media : Option (List ExtXMedia)) (vs : List VariantStream) (fl : CcFlags) :
    validateVariants media fl vs = closedForm media vs fl := by
  induction vs generalizing fl with
  | nil => obtain ⟨n, g⟩ := fl; simp [validateVariants, closedForm]
  | cons v vs ih =>
    obtain ⟨n, g⟩ := fl
    cases v with
    | extXIFrame uri d =>
      simp only [validateVariants, validateVariantStep, closedForm, List.all_cons, List.any_cons, refsOk,
        ccIsNone, ccIsGroup, Bool.false_or]
      cases h1 : optGroupOk media .video d.video
      · simp
      · simp only [Bool.not_true, Bool.false_eq_true, if_false, ih, closedForm, Bool.true_and]
    | extXStreamInf uri fr au su cc d =>
      simp only [validateVariants, validateVariantStep, closedForm, List.all_cons, List.any_cons, refsOk]
      cases h1 : optGroupOk media .audio au
      · simp
      cases h2 : optGroupOk media .video d.video
      · simp
      cases h3 : optGroupOk media .subtitles su
      · simp
      simp only [Bool.not_true, Bool.false_eq_true, if_false, Bool.true_and]
      rcases cc with _ | (gid | _)
      · simp only [ih, closedForm, ccIsNone, ccIsGroup, Bool.false_or, Bool.true_and]
      · simp only [ccIsNone, ccIsGroup, Bool.false_or, Bool.true_or]
        cases n
        · cases h4 : checkMediaGroup media .closedCaptions gid
          · simp
          · simp only [Bool.false_eq_true, if_false, Bool.not_true, ih, closedForm, Bool.true_and]
            generalize vs.all (refsOk media) = A; generalize vs.any ccIsGroup = G; generalize vs.any ccIsNone = N
            cases A <;> cases G <;> cases N <;> cases g <;> rfl
        · simp
      · simp only [ccIsNone, ccIsGroup, Bool.false_or, Bool.true_or]
        cases g
        · simp only [Bool.false_eq_true, if_false, ih, closedForm, Bool.true_and]
          generalize vs.all (refsOk media) = A; generalize vs.any ccIsGroup = G; generalize vs.any ccIsNone = N
          cases A <;> cases G <;> cases N <;> cases n <;> rfl
        · simp

theorem refsOk_iff (media : List ExtXMedia) (v : VariantStream) :
    refsOk (some media) v = true ↔ RefsDefined media v := by
  have ho : ∀ t o, optGroupOk (some media) t o = true ↔ OptDefined media t o := by
    intro t o; cases o <;> simp [optGroupOk, OptDefined, checkMediaGroup_iff]
  cases v with
  | extXIFrame uri d => simp [refsOk, RefsDefined, ho]
  | extXStreamInf uri fr au su cc d =>
    rcases cc with _ | (gid | _) <;> simp [refsOk, RefsDefined, ho, checkMediaGroup_iff, and_assoc]

/-- variant part: accepted iff every reference is defined and NONE / group are not mixed,
in either order -/
theorem validateVariants_iff (media : List ExtXMedia) (vs : List VariantStream) :
    validateVariants (some media) (false, false) vs = true ↔
      (∀ v ∈ vs, RefsDefined media v) ∧ ¬ (∃ a ∈ vs, ∃ b ∈ vs, ccIsNone a = true ∧ ccIsGroup b = true) := by
  rw [validateVariants_closed]
  simp only [closedForm, Bool.not_false, Bool.true_or, Bool.and_true, Bool.and_eq_true,
    List.all_eq_true, Bool.not_eq_true', Bool.and_eq_false_iff, List.any_eq_false, refsOk_iff]
  constructor
  · rintro ⟨h1, h2⟩
    refine ⟨h1, ?_⟩
    rintro ⟨a, ha, b, hb, hna, hgb⟩
    rcases h2 with h | h
    · have := h a ha; simp [hna] at this
    · have := h b hb; simp [hgb] at this
  · rintro ⟨h1, h2⟩
    refine ⟨h1, ?_⟩
    by_cases hN : ∃ a ∈ vs, ccIsNone a = true
    · right; intro b hb hgb
      obtain ⟨a, ha, hna⟩ := hN
      exact h2 ⟨a, ha, b, hb, hna, hgb⟩
    · left; intro a ha hna; exact hN ⟨a, ha, hna⟩

/-! ## session data -/

theorem validateSessionData_iff (seen : List (Str × Option Str)) (ds : List ExtXSessionData) :
    validateSessionData seen ds = true ↔
      (ds.map fun d => (d.data_id, d.language)).Nodup ∧ ∀ d ∈ ds, (d.data_id, d.language) ∉ seen := by
  induction ds generalizing seen with
  | nil => simp [validateSessionData]
  | cons d ds ih =>
    simp only [validateSessionData, List.map_cons, List.nodup_cons, List.mem_cons, forall_eq_or_imp]
    by_cases h : (d.data_id, d.language) ∈ seen
    · simp [h]
    · have hc : seen.contains (d.data_id, d.language) = false := by simpa using h
      simp only [hc, Bool.false_eq_true, if_false, ih, List.mem_cons, List.mem_map]
      constructor
      · rintro ⟨h1, h2⟩
        refine ⟨⟨?_, h1⟩, h, ?_⟩
        · rintro ⟨x, hx, he⟩
          have := h2 x hx
          apply this; left; exact he
        · intro x hx hs; exact h2 x hx (Or.inr hs)
      · rintro ⟨⟨h1, h2⟩, _, h4⟩
        refine ⟨h2, ?_⟩
        intro x hx hs
        rcases hs with hs | hs
        · exact h1 ⟨x, hx, hs⟩
        · exact h4 x hx hs

/-! ## the property -/

/-- **C13 (builder).** With the three lists set, `build()` succeeds iff the content is consistent. -/
theorem build_ok_iff (b : MasterPlaylistBuilder) (media : List ExtXMedia) (vs : List VariantStream)
    (ds : List ExtXSessionData) (hm : b.media = some media) (hv : b.variant_streams = some vs)
    (hd : b.session_data = some ds) :
    (b.build).isOk = true ↔ Consistent media vs ds := by
  unfold MasterPlaylistBuilder.build MasterPlaylistBuilder.validate Consistent
  rw [hm, hv, hd]
  simp only [Option.getD_some]
  have hvv := validateVariants_iff media vs
  have hss : validateSessionData [] ds = true ↔ (ds.map fun d => (d.data_id, d.language)).Nodup := by
    rw [validateSessionData_iff]; simp
  cases h1 : validateVariants (some media) (false, false) vs
  · rw [h1] at hvv
    constructor
    · intro h; simp [Res.isOk] at h
    · rintro ⟨p, q, _⟩; exact absurd (hvv.mpr ⟨p, q⟩) (by simp)
  · rw [h1] at hvv
    have pq := hvv.mp rfl
    cases h2 : validateSessionData [] ds
    · rw [h2] at hss
      constructor
      · intro h; simp [Res.isOk] at h
      · rintro ⟨_, _, r⟩; exact absurd (hss.mpr r) (by simp)
    · rw [h2] at hss
      constructor
      · intro _; exact ⟨pq.1, pq.2, hss.mp rfl⟩
      · intro _; simp [Res.isOk]

/-- without a rendition list every group reference is undefined (`check_media_group` on `None`) -/
theorem checkMediaGroup_none (t : MediaType) (g : Str) : checkMediaGroup none t g = false := rfl

/-- what the parser hands to `build` -/
theorem masterFinish_ok_iff (st : MState) :
    (masterFinish st).isOk = true ↔ Consistent st.media st.variant_streams st.session_data := by
  unfold masterFinish
  exact build_ok_iff _ st.media st.variant_streams st.session_data rfl rfl rfl

theorem masterFinish_fields (st : MState) (p : MasterPlaylist) (h : masterFinish st = .ok p) :
    p.media = st.media ∧ p.variant_streams = st.variant_streams ∧ p.session_data = st.session_data := by
  unfold masterFinish MasterPlaylistBuilder.build at h
  split at h
  · cases h
  · simp only [Option.getD_some, Res.ok.injEq] at h
    subst h; exact ⟨rfl, rfl, rfl⟩

/-- **C13 (parser).** Every master playlist value obtained from parsing is consistent. -/
theorem parseMaster_consistent (s : Str) (p : MasterPlaylist) (h : parseMaster s = .ok p) :
    Consistent p.media p.variant_streams p.session_data := by
  unfold parseMaster at h
  split at h
  · rename_i rest _
    split at h
    · rename_i st _
      have hf := masterFinish_fields st p h
      have hok : (masterFinish st).isOk = true := by rw [h]; rfl
      rw [hf.1, hf.2.1, hf.2.2]
      exact (masterFinish_ok_iff st).mp hok
    · cases h
    · cases h
  · cases h
  · cases h

/-- **C13 (parser, converse).** The typed-line parser accepts exactly when the collected lists are
consistent: rejection can only come from a foreign/erroneous line or from inconsistency. -/
theorem assembleMaster_ok_iff (ls : List Line) (st : MState) (h : foldRes masterStep {} ls = .ok st) :
    (assembleMaster ls).isOk = true ↔ Consistent st.media st.variant_streams st.session_data := by
  unfold assembleMaster
  rw [h]
  exact masterFinish_ok_iff st

/-! ## rendition lookup -/

/-- the variant references a rendition of type `t` and group `g` -/
def Refs : VariantStream → MediaType → Str → Prop
  | .extXIFrame _ d, t, g => t = .video ∧ d.video = some g
  | .extXStreamInf _ _ au su cc d, t, g =>
    (t = .audio ∧ au = some g) ∨ (t = .video ∧ d.video = some g) ∨ (t = .subtitles ∧ su = some g) ∨
    (t = .closedCaptions ∧ cc = some (.groupId g))

/-- FULL STATEMENT (not provable for the current code — recorded finding K5):
`isAssociated v m = true ↔ Refs v m.media_type m.group_id`.
Proved under the hypothesis that excludes the quirk: a `CLOSED-CAPTIONS=NONE` variant against a
closed-captions rendition whose group id is literally `NONE`. -/
theorem isAssociated_iff_partial (v : VariantStream) (m : ExtXMedia)
    (hq : ¬ (ccIsNone v = true ∧ m.media_type = .closedCaptions ∧ m.group_id = "NONE".toList)) :
    v.isAssociated m = true ↔ Refs v m.media_type m.group_id := by
  cases v with
  | extXIFrame uri d =>
    simp only [VariantStream.isAssociated, Refs]
    cases hm : m.media_type <;> cases hv : d.video <;> simp
  | extXStreamInf uri fr au su cc d =>
    simp only [VariantStream.isAssociated, Refs]
    cases hm : m.media_type
    · simp
    · simp
    · simp
    · rcases cc with _ | (gid | _)
      · simp
      · simp
      · simp only [ccIsNone, hm, true_and] at hq
        simp
        exact hq

/-- the quirk itself (K5): `CLOSED-CAPTIONS=NONE` is associated with a group called `NONE` -/
theorem isAssociated_counterexample :
    ∃ v m, v.isAssociated m = true ∧ ¬ Refs v m.media_type m.group_id := by
  refine ⟨.extXStreamInf [] none none none (some .none) ⟨1, none, none, none, none, none⟩,
          ⟨.closedCaptions, none, "NONE".toList, none, none, [], false, false, false, none, none, none⟩, by decide, ?_⟩
  simp [Refs]

/-- the lookup returns exactly the positions of the associated renditions -/
theorem associatedWith_go (v : VariantStream) (ms : List ExtXMedia) (k i : Nat) :
    i ∈ MasterPlaylist.associatedWith.go v ms k ↔ ∃ j m, ms[j]? = some m ∧ i = k + j ∧ v.isAssociated m = true := by
  induction ms generalizing k with
  | nil => simp [MasterPlaylist.associatedWith.go]
  | cons x xs ih =>
    simp only [MasterPlaylist.associatedWith.go]
    constructor
    · intro h
      split at h
      · rename_i hx
        rcases List.mem_cons.mp h with rfl | h
        · exact ⟨0, x, by simp, by simp, hx⟩
        · obtain ⟨j, m, h1, h2, h3⟩ := (ih (k + 1)).mp h
          exact ⟨j + 1, m, by simpa using h1, by omega, h3⟩
      · obtain ⟨j, m, h1, h2, h3⟩ := (ih (k + 1)).mp h
        exact ⟨j + 1, m, by simpa using h1, by omega, h3⟩
    · rintro ⟨j, m, h1, h2, h3⟩
      cases j with
      | zero =>
        simp at h1; subst h1
        simp [h3, h2]
      | succ j =>
        have : i ∈ MasterPlaylist.associatedWith.go v xs (k + 1) :=
          (ih (k + 1)).mpr ⟨j, m, by simpa using h1, by omega, h3⟩
        split
        · exact List.mem_cons_of_mem _ this
        · exact this

theorem associatedWith_iff (p : MasterPlaylist) (v : VariantStream) (i : Nat) :
    i ∈ p.associatedWith v ↔ ∃ m, p.media[i]? = some m ∧ v.isAssociated m = true := by
  unfold MasterPlaylist.associatedWith
  rw [associatedWith_go]
  constructor
  · rintro ⟨j, m, h1, h2, h3⟩; exact ⟨m, by simpa [h2] using h1, h3⟩
  · rintro ⟨m, h1, h2⟩; exact ⟨i, m, h1, by simp, h2⟩

/-! ## the stream selectors -/

theorem positionsWhere_go {α} (f : α → Bool) (l : List α) (k i : Nat) :
    i ∈ positionsWhere.go f l k ↔ ∃ j x, l[j]? = some x ∧ i = k + j ∧ f x = true := by
  induction l generalizing k with
  | nil => simp [positionsWhere.go]
  | cons a rest ih =>
    simp only [positionsWhere.go]
    constructor
    · intro h
      split at h
      · rename_i hf
        rcases List.mem_cons.mp h with rfl | h
        · exact ⟨0, a, by simp, by simp, hf⟩
        · obtain ⟨j, x, h1, h2, h3⟩ := (ih (k + 1)).mp h
          exact ⟨j + 1, x, by simpa using h1, by omega, h3⟩
      · obtain ⟨j, x, h1, h2, h3⟩ := (ih (k + 1)).mp h
        exact ⟨j + 1, x, by simpa using h1, by omega, h3⟩
    · rintro ⟨j, x, h1, h2, h3⟩
      cases j with
      | zero =>
        simp at h1; subst h1
        simp [h3, h2]
      | succ j =>
        have : i ∈ positionsWhere.go f rest (k + 1) := (ih (k + 1)).mpr ⟨j, x, by simpa using h1, by omega, h3⟩
        split
        · exact List.mem_cons_of_mem _ this
        · exact this

theorem positionsWhere_iff {α} (f : α → Bool) (l : List α) (i : Nat) :
    i ∈ positionsWhere f l ↔ ∃ x, l[i]? = some x ∧ f x = true := by
  unfold positionsWhere
  rw [positionsWhere_go]
  constructor
  · rintro ⟨j, x, h1, h2, h3⟩; exact ⟨x, by simpa [h2] using h1, h3⟩
  · rintro ⟨x, h1, h2⟩; exact ⟨i, x, h1, by simp, h2⟩

/-- **`audio_streams`** selects exactly the STREAM-INF variants that reference an AUDIO group -/
theorem audioStreams_iff (p : MasterPlaylist) (i : Nat) :
    i ∈ p.audioStreams ↔ ∃ uri fr g su cc d, p.variant_streams[i]? = some (.extXStreamInf uri fr (some g) su cc d) := by
  unfold MasterPlaylist.audioStreams
  rw [positionsWhere_iff]
  constructor
  · rintro ⟨v, h1, h2⟩
    cases v with
    | extXIFrame u d => cases h2
    | extXStreamInf uri fr au su cc d =>
      cases au with
      | none => cases h2
      | some g => exact ⟨uri, fr, g, su, cc, d, h1⟩
  · rintro ⟨uri, fr, g, su, cc, d, h⟩; exact ⟨_, h, rfl⟩

/-- **`video_streams`** selects exactly the variants (of either kind) whose stream data names a VIDEO group -/
theorem videoStreams_iff (p : MasterPlaylist) (i : Nat) :
    i ∈ p.videoStreams ↔ ∃ v, p.variant_streams[i]? = some v ∧ v.streamData.video.isSome = true := by
  unfold MasterPlaylist.videoStreams
  rw [positionsWhere_iff]; rfl

/-- **`unassociated_streams`** selects exactly the variants that reference no group at all -/
theorem unassociatedStreams_iff (p : MasterPlaylist) (i : Nat) :
    i ∈ p.unassociatedStreams ↔ ∃ v, p.variant_streams[i]? = some v ∧ v.streamData.video = none ∧
      ∀ uri fr au su cc d, v = .extXStreamInf uri fr au su cc d → au = none ∧ su = none ∧ cc = none := by
  unfold MasterPlaylist.unassociatedStreams
  rw [positionsWhere_iff]
  constructor
  · rintro ⟨v, h1, h2⟩
    refine ⟨v, h1, ?_⟩
    cases v with
    | extXIFrame u d =>
      simp only [VariantStream.isUnassociated, Option.isNone_iff_eq_none] at h2
      exact ⟨h2, fun _ _ _ _ _ _ e => by cases e⟩
    | extXStreamInf uri fr au su cc d =>
      cases au <;> cases su <;> cases cc <;> simp only [VariantStream.isUnassociated, Option.isNone_iff_eq_none] at h2 <;>
        first
        | exact ⟨h2, fun _ _ _ _ _ _ e => by cases e; exact ⟨rfl, rfl, rfl⟩⟩
        | cases h2
  · rintro ⟨v, h1, h2, h3⟩
    refine ⟨v, h1, ?_⟩
    cases v with
    | extXIFrame u d => simpa [VariantStream.isUnassociated, VariantStream.streamData] using h2
    | extXStreamInf uri fr au su cc d =>
      obtain ⟨rfl, rfl, rfl⟩ := h3 uri fr au su cc d rfl
      simpa [VariantStream.isUnassociated, VariantStream.streamData] using h2

/-! ## non-vacuity -/

/-- an accepted, non-trivial configuration: one audio rendition, one variant referencing it,
one with `CLOSED-CAPTIONS=NONE` -/
example :
    let m : ExtXMedia := ⟨.audio, none, "g1".toList, none, none, "n".toList, false, false, false, none, none, none⟩
    let d : StreamData := ⟨1, none, none, none, none, none⟩
    validateVariants (some [m]) (false, false)
      [.extXStreamInf "u".toList none (some "g1".toList) none (some .none) d, .extXIFrame "i".toList d] = true := by
  decide

/-- the order dependence that was fixed: group first, NONE second is rejected too -/
example :
    let m : ExtXMedia := ⟨.closedCaptions, none, "cc".toList, none, none, "n".toList, false, false, false, some ⟨0⟩, none, none⟩
    let d : StreamData := ⟨1, none, none, none, none, none⟩
    validateVariants (some [m]) (false, false)
      [.extXStreamInf "a".toList none none none (some (.groupId "cc".toList)) d,
       .extXStreamInf "b".toList none none none (some .none) d] = false ∧
    validateVariants (some [m]) (false, false)
      [.extXStreamInf "b".toList none none none (some .none) d,
       .extXStreamInf "a".toList none none none (some (.groupId "cc".toList)) d] = false := by
  decide

end Hls.C13
