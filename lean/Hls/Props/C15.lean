import Hls.Proofs.Fold
import Hls.Proofs.ParserInv
/-!
# C15 — a text is never both a master and a media playlist; foreign tags are rejected

Both parsers strip the same `#EXTM3U` header and then consume the *same* item stream
`lineItems rest`. The sets of rejected tag kinds are the tables `Generated.masterRejects` /
`Generated.mediaRejects`, regenerated from the `UnexpectedTag` arms of the two parsers on every run:
if an arm disappears from the source, `masterStep_err_iff` / `mediaStep_foreign` below stop checking.
-/
namespace Hls.C15
open Hls

def isUri : Line → Bool
  | .uri _ => true
  | _ => false

/-- the 13 media-playlist / media-segment tag kinds of the property statement -/
def mediaKinds : List String :=
  ["ExtInf", "ExtXByteRange", "ExtXDateRange", "ExtXDiscontinuity", "ExtXDiscontinuitySequence", "ExtXEndList", "ExtXIFramesOnly", "ExtXKey", "ExtXMap", "ExtXMediaSequence", "ExtXProgramDateTime", "ExtXTargetDuration", "PlaylistType"]

/-- the master tag kinds of the property statement (both stream-inf tags are `VariantStream`) -/
def masterKinds : List String := ["ExtXMedia", "ExtXSessionData", "ExtXSessionKey", "VariantStream"]

/-- the regenerated tables are exactly the property's sets -/
theorem tables_match : Generated.masterRejects = mediaKinds ∧ Generated.mediaRejects = masterKinds := by decide

def isMediaKind (l : Line) : Bool :=
  match l.kind with
  | some k => Generated.masterRejects.contains k
  | none => false

def isMasterKind (l : Line) : Bool :=
  match l.kind with
  | some k => Generated.mediaRejects.contains k
  | none => false

/-- the master loop rejects a line exactly when it is a media tag (per the regenerated table) or a
bare URI line -/
theorem masterStep_err_iff (st : MState) (l : Line) :
    (masterStep st l).isOk = false ↔ (isMediaKind l = true ∨ isUri l = true) := by
  cases l <;> simp [masterStep, Res.isOk, isMediaKind, isUri, Line.kind, Generated.masterRejects]

/-- the media loop rejects every master tag (per the regenerated table) -/
theorem mediaStep_foreign (st : PState) (l : Line) (h : isMasterKind l = true) :
    mediaStep st l = .err := by
  cases l <;> simp [isMasterKind, Line.kind, Generated.mediaRejects] at h <;> rfl

theorem foldRes_all_ok {σ α} (f : σ → α → Res σ) (s t : σ) (ls : List α) (h : foldRes f s ls = .ok t)
    (l : α) (hl : l ∈ ls) : ∃ s', (f s' l).isOk = true := by
  induction ls generalizing s with
  | nil => cases hl
  | cons x xs ih =>
    simp only [foldRes] at h
    cases hx : f s x with
    | ok s1 =>
      rw [hx] at h
      rcases List.mem_cons.mp hl with rfl | hl
      · exact ⟨s, by rw [hx]; rfl⟩
      · exact ih s1 h hl
    | err => rw [hx] at h; cases h
    | panic => rw [hx] at h; cases h

/-- **(2a)** a master playlist is never accepted when a media tag or a URI line occurs in item
position: an accepted text consists of classified lines none of which is a media tag or a URI -/
theorem master_rejects_media_tags (s : Str) (p : MasterPlaylist) (h : parseMaster s = .ok p) :
    ∃ (rest : Str) (ls : List Line), stripTag s pfxM3u = .ok rest ∧ lineItems rest = ls.map Res.ok ∧
      ∀ l ∈ ls, isMediaKind l = false ∧ isUri l = false := by
  obtain ⟨rest, ls, h1, h2, h3⟩ := parseMaster_ok s p h
  refine ⟨rest, ls, h1, h2, ?_⟩
  intro l hl
  unfold assembleMaster at h3
  cases hf : foldRes masterStep {} ls with
  | ok st =>
    obtain ⟨s', hs'⟩ := foldRes_all_ok masterStep _ st ls hf l hl
    have := (not_congr (masterStep_err_iff s' l)).mp (by simp [hs'])
    simp only [not_or, Bool.not_eq_true] at this
    exact this
  | err => rw [hf] at h3; cases h3
  | panic => rw [hf] at h3; cases h3

/-- **(2b)** a media playlist is never accepted when a master tag occurs in item position -/
theorem media_rejects_master_tags (b : MediaPlaylistBuilder) (s : Str) (p : MediaPlaylist)
    (h : parseMediaWith b s = .ok p) :
    ∃ (rest : Str) (ls : List Line), stripTag s pfxM3u = .ok rest ∧ lineItems rest = ls.map Res.ok ∧
      ∀ l ∈ ls, isMasterKind l = false := by
  obtain ⟨rest, ls, h1, h2, h3⟩ := parseMediaWith_ok b s p h
  refine ⟨rest, ls, h1, h2, ?_⟩
  intro l hl
  unfold assembleMedia at h3
  cases hf : foldRes mediaStep { builder := b } ls with
  | ok st =>
    obtain ⟨s', hs'⟩ := foldRes_all_ok mediaStep _ st ls hf l hl
    cases hk : isMasterKind l with
    | false => rfl
    | true => rw [mediaStep_foreign s' l hk] at hs'; cases hs'
  | err => rw [hf] at h3; cases h3
  | panic => rw [hf] at h3; cases h3

/-- **(2c)** both parsers reject a text that lacks the `#EXTM3U` header -/
theorem header_required (b : MediaPlaylistBuilder) (s : Str) (h : stripTag s pfxM3u = .err) :
    parseMediaWith b s = .err ∧ parseMaster s = .err := by
  simp [parseMediaWith, parseMaster, h]

/-! ## a media playlist has a TARGETDURATION line, which the master parser rejects -/

def isTargetDuration : Line → Bool
  | .targetDuration _ => true
  | _ => false

def tdUpd (acc : Option Nat) : Line → Option Nat
  | .targetDuration d => some d
  | _ => acc

theorem td_step (st st' : PState) (l : Line) (h : mediaStep st l = .ok st') :
    st'.builder.target_duration = tdUpd st.builder.target_duration l := by
  cases l
  case uri u =>
    simp only [mediaStep] at h
    split at h
    · simp only [Res.ok.injEq] at h; subst h; rfl
    · cases h
    · cases h
  case discontinuitySequence n =>
    simp only [mediaStep] at h
    split at h
    · cases h
    · split at h
      · cases h
      · simp only [Res.ok.injEq] at h; subst h; rfl
  all_goals (first
    | (simp only [mediaStep, Res.ok.injEq] at h; subst h; rfl)
    | (simp [mediaStep] at h))

theorem td_fold (ls : List Line) (st st' : PState) (h : foldRes mediaStep st ls = .ok st')
    (hn : st.builder.target_duration = none) (hs : st'.builder.target_duration.isSome = true) :
    ∃ l ∈ ls, isTargetDuration l = true := by
  induction ls generalizing st with
  | nil => simp only [foldRes, Res.ok.injEq] at h; subst h; rw [hn] at hs; cases hs
  | cons l ls ih =>
    simp only [foldRes] at h
    cases hx : mediaStep st l with
    | ok s1 =>
      rw [hx] at h
      have e := td_step st s1 l hx
      by_cases ht : isTargetDuration l = true
      · exact ⟨l, by simp, ht⟩
      · have e' : s1.builder.target_duration = none := by
          rw [e, ← hn]
          cases l <;> first | rfl | (simp [isTargetDuration] at ht)
        obtain ⟨l', hl', ht'⟩ := ih s1 h e'
        exact ⟨l', List.mem_cons_of_mem _ hl', ht'⟩
    | err => rw [hx] at h; cases h
    | panic => rw [hx] at h; cases h

theorem map_ok_inj {α} (a b : List α) (h : a.map Res.ok = b.map Res.ok) : a = b := by
  induction a generalizing b with
  | nil => cases b with
    | nil => rfl
    | cons _ _ => simp at h
  | cons x xs ih => cases b with
    | nil => simp at h
    | cons y ys =>
      simp only [List.map_cons, List.cons.injEq, Res.ok.injEq] at h
      rw [h.1, ih ys h.2]

/-- a media playlist parsed through `TryFrom`/`FromStr` contains an `EXT-X-TARGETDURATION` line
(the field is required and only that tag sets it) -/
theorem media_has_target_duration (ls : List Line) (p : MediaPlaylist) (h : assembleMedia {} ls = .ok p) :
    ∃ l ∈ ls, isTargetDuration l = true := by
  obtain ⟨st, hf, _, _, _, htd, _⟩ := assembleMedia_ok {} ls p h
  exact td_fold ls _ st hf rfl (by rw [htd]; rfl)

/-- **(1)** no text is accepted both as a master playlist and as a media playlist -/
theorem never_both (s : Str) : ¬ ((parseMaster s).isOk = true ∧ (parseMedia s).isOk = true) := by
  rintro ⟨hm, hp⟩
  cases hm' : parseMaster s with
  | ok pm =>
    cases hp' : parseMedia s with
    | ok pp =>
      obtain ⟨r1, ls1, a1, a2, a3⟩ := master_rejects_media_tags s pm hm'
      obtain ⟨r2, ls2, b1, b2, b3⟩ := parseMediaWith_ok {} s pp hp'
      rw [a1] at b1; simp only [Res.ok.injEq] at b1; subst b1
      rw [a2] at b2
      have hls : ls1 = ls2 := map_ok_inj ls1 ls2 b2
      subst hls
      obtain ⟨l, hl, ht⟩ := media_has_target_duration ls1 pp b3
      have := (a3 l hl).1
      cases l <;> simp [isTargetDuration] at ht
      simp [isMediaKind, Line.kind, Generated.masterRejects] at this
    | err => rw [hp'] at hp; cases hp
    | panic => rw [hp'] at hp; cases hp
  | err => rw [hm'] at hm; cases hm
  | panic => rw [hm'] at hm; cases hm

/-- the line after `EXT-X-STREAM-INF` is never an item of its own: the pair is one item -/
theorem streaminf_pairs (l u : Str) (rest : List Str) (h : startsWith l Generated.streamInfPrefix.toList = true) :
    items (l :: u :: rest) = (VariantStream.parse (l ++ ['\n'] ++ u)).map Line.variant :: items rest := by
  rw [items]; simp [h]

/-- a text cut right after an `EXT-X-STREAM-INF` line yields an error item (not a silent end) -/
theorem streaminf_trailing (l : Str) (h : startsWith l Generated.streamInfPrefix.toList = true) :
    items [l] = [.err] := by
  rw [items]; simp [h]

/-! ## non-vacuity (typed lines; the text-level functions use well-founded recursion, which `decide` does not unfold) -/
example : (assembleMedia {} [.targetDuration 1000000000, .inf ⟨1000000000, none⟩, .uri ['a']]).isOk = true := by decide
example : (assembleMaster [.variant (.extXStreamInf ['a'] none none none none ⟨1, none, none, none, none, none⟩)]).isOk = true := by decide
example : (assembleMaster [.targetDuration 1000000000]).isOk = false := by decide
example : (assembleMedia {} [.targetDuration 1000000000, .variant (.extXIFrame ['a'] ⟨1, none, none, none, none, none⟩)]).isOk = false := by decide

end Hls.C15
