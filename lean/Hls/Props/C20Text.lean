import Hls.Props.C20
import Hls.Proofs.Fold
import Hls.Proofs.BTree
/-!
# C20 at string level (second property file of C20): the builder path and the TEXT path agree

`C20.builder_text_agree` relates a builder to classified lines. Here the text itself is the object: for any text whose
lines classify (no malformed tag line), the media parser's answer — accepted or rejected, and the value when accepted —
is the answer of `build()` on the builder that received the same playlist-level setter calls and the same implicitly
numbered segments. So a validation step that the builder path applies differently from the parser contradicts this.
-/
namespace Hls.C20T
open Hls

/-- parsing a text whose lines all classify is assembling those lines -/
theorem parse_of_lines (b : MediaPlaylistBuilder) (s rest : Str) (ls : List Line)
    (h1 : stripTag s pfxM3u = .ok rest) (h2 : lineItems rest = ls.map Res.ok) :
    parseMediaWith b s = assembleMedia b ls := by
  unfold parseMediaWith assembleMedia
  rw [h1]; simp only []
  rw [h2, foldRes_liftItem_map_ok]

/-- **builder path = text path, for every text**: if the line loop gets through the text (ending outside a segment), the
parser's result IS `build()` of the builder holding the loop's setter calls and its (implicitly numbered) segments —
equal outcome, equal value -/
theorem builder_text_agree_text (b : MediaPlaylistBuilder) (s rest : Str) (ls : List Line) (st : PState)
    (h1 : stripTag s pfxM3u = .ok rest) (h2 : lineItems rest = ls.map Res.ok)
    (h : foldRes mediaStep { builder := b } ls = .ok st) (hp : st.has_partial_segment = false)
    (b' : MediaPlaylistBuilder)
    (hsame : b' = { st.builder with segments := some (st.segments.map some), unknown := some st.unknown }) :
    b'.build = parseMediaWith b s := by
  rw [parse_of_lines b s rest ls h1 h2]
  exact C20.builder_text_agree b ls st h hp b' hsame

/-- … and pushing the same segments one by one instead of handing over the list changes nothing -/
theorem pushes_text_agree (b : MediaPlaylistBuilder) (s rest : Str) (ls : List Line) (st : PState)
    (h1 : stripTag s pfxM3u = .ok rest) (h2 : lineItems rest = ls.map Res.ok)
    (h : foldRes mediaStep { builder := b } ls = .ok st) (hp : st.has_partial_segment = false) :
    ({ st.builder with segments := some (st.segments.map some), unknown := some st.unknown } : MediaPlaylistBuilder).build
      = parseMediaWith b s :=
  builder_text_agree_text b s rest ls st h1 h2 h hp _ rfl

/-- a text the parser accepts never makes `build()` panic on the corresponding builder (it returns that value) -/
theorem accepted_text_builds (b : MediaPlaylistBuilder) (s : Str) (p : MediaPlaylist) (h : parseMediaWith b s = .ok p) :
    ∃ b' : MediaPlaylistBuilder, b'.build = .ok p := by
  obtain ⟨rest, ls, h1, h2, h3⟩ := parseMediaWith_ok b s p h
  obtain ⟨st, hf, hp, _⟩ := assembleMedia_ok b ls p h3
  exact ⟨{ st.builder with segments := some (st.segments.map some), unknown := some st.unknown },
    (builder_text_agree_text b s rest ls st h1 h2 hf hp _ rfl).trans h⟩

/-! ## a setter called twice: the last call counts (the client attributes of a date range, a map keyed by name) -/

/-- inserting twice under one name keeps the second value -/
theorem btreeInsert_overwrite (k : Str) (v v' : Value) (l : List (Str × Value)) :
    btreeInsert k v' (btreeInsert k v l) = btreeInsert k v' l := by
  have L := cmpStr_lawful
  have hrefl : cmpStr k k = .eq := (L.eq_iff k k).mpr rfl
  induction l with
  | nil => simp [btreeInsert, hrefl]
  | cons x rest ih =>
    obtain ⟨a, va⟩ := x
    cases h : cmpStr k a with
    | lt => simp [btreeInsert, h, hrefl]
    | eq => simp [btreeInsert, h, hrefl]
    | gt => simp [btreeInsert, h, ih]

/-- `insert_client_attribute(name, v)` then `insert_client_attribute(name, v')` is `insert_client_attribute(name, v')` -/
theorem client_attribute_last_wins (b : ExtXDateRangeBuilder) (k : Str) (v v' : Value) :
    ({ b with client_attributes := some (btreeInsert k v' (({ b with client_attributes := some (btreeInsert k v (b.client_attributes.getD [])) } : ExtXDateRangeBuilder).client_attributes.getD [])) } : ExtXDateRangeBuilder)
      = { b with client_attributes := some (btreeInsert k v' (b.client_attributes.getD [])) } := by
  simp [btreeInsert_overwrite]

end Hls.C20T
