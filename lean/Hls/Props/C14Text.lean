import Hls.Props.C14
import Hls.Props.C12
/-!
# C14 at string level (second property file of C14): the attribute rules as statements about which names occur

`C14.*_finish_ok_iff` characterise the decision tables behind the attribute loops. Here the loops are folded away with
their closed forms (`Proofs/AttrFold.lean`), so each rule reads as a statement about the attribute list itself — which
names occur in it, with acceptable values — and is visibly independent of the ORDER in which the attributes are written:
a rule that was only enforced for some orders (checked inside the loop, behind an `if let`, next to another attribute)
contradicts these theorems.
-/
namespace Hls.C14T
open Hls

/-- the attribute list mentions the name `k` -/
def has (k : String) (ps : List (Str × Str)) : Bool := ps.any fun kv => kv.1 == k.toList

theorem lastValQ_isSome (k : Str) (q : Str → Bool) (ps : List (Str × Str)) :
    (lastValQ k q ps).isSome = ps.any fun kv => kv.1 == k && q kv.2 := by
  induction ps using snoc_induction with
  | hnil => rfl
  | hsnoc l kv ih =>
    rw [lastValQ_snoc, List.any_append]
    by_cases h : (kv.1 == k && q kv.2) = true
    · simp [h]
    · have h' : (kv.1 == k && q kv.2) = false := by simpa using h
      simp [h', ih]

theorem lastVal_isSome (k : String) (ps : List (Str × Str)) : (lastVal k.toList ps).isSome = has k ps := by
  unfold lastVal has
  rw [lastValQ_isSome]
  simp

theorem none_of_isSome_false {α} {o : Option α} (h : o.isSome = false) : o = none := by
  cases o <;> simp_all

theorem has_perm {ps qs : List (Str × Str)} (h : ps.Perm qs) (k : String) : has k ps = has k qs :=
  h.any_eq

/-- when no value of the attribute `k` is malformed, "the last value parses" is "the name occurs" -/
theorem optParse_isSome {α} (k : String) (f : Str → Res α) (ps : List (Str × Str)) (hb : ps.any (badAt k f) = false) :
    (optParse f (lastVal k.toList ps)).isSome = has k ps := by
  induction ps using snoc_induction with
  | hnil => rfl
  | hsnoc l kv ih =>
    rw [List.any_append] at hb
    simp only [Bool.or_eq_false_iff, List.any_cons, List.any_nil, Bool.or_false] at hb
    obtain ⟨hl, hk⟩ := hb
    rw [lastVal_snoc]
    unfold has at ih ⊢
    rw [List.any_append]
    by_cases h : (kv.1 == k.toList) = true
    · simp only [h, if_true, List.any_cons, List.any_nil, Bool.or_false, Bool.or_true]
      simp only [badAt, h, Bool.true_and, Bool.not_eq_false'] at hk
      cases hf : f kv.2 with
      | ok v => simp [optParse, Res.toOption, hf]
      | err => rw [hf] at hk; cases hk
      | panic => rw [hf] at hk; cases hk
    · have h' : (kv.1 == k.toList) = false := by simpa using h
      simp only [h', Bool.false_eq_true, if_false, List.any_cons, List.any_nil, Bool.or_false]
      exact ih hl

/-! ## EXT-X-SESSION-DATA: DATA-ID, and exactly one of VALUE and URI — in whatever order they are written -/

theorem sessionData_text_iff (s : Str) :
    (ExtXSessionData.parse s).isOk = true ↔
      ∃ r, stripTag s pfxSessionData = .ok r ∧ has "DATA-ID" (attrPairs r) = true ∧
        (has "VALUE" (attrPairs r) != has "URI" (attrPairs r)) = true := by
  unfold ExtXSessionData.parse
  cases h1 : stripTag s pfxSessionData with
  | ok r =>
    simp only [Res.bind_ok, ExtXSessionData.fold_closed, ExtXSessionData.closed, ExtXSessionData.bad, List.any_eq_true,
      Bool.false_eq_true, and_false, exists_false, if_false, C14.sessionData_finish_ok_iff, Option.isSome_map,
      Option.map_eq_none_iff, lastVal_isSome]
    constructor
    · intro ⟨hid, h⟩
      refine ⟨r, rfl, hid, ?_⟩
      rcases h with ⟨hv, hu⟩ | ⟨hv, hu⟩
      · have : has "URI" (attrPairs r) = false := by rw [← lastVal_isSome, hu]; rfl
        simp [hv, this]
      · have : has "VALUE" (attrPairs r) = false := by rw [← lastVal_isSome, hv]; rfl
        simp [hu, this]
    · rintro ⟨r', e, hid, hx⟩
      simp only [Res.ok.injEq] at e; subst e
      refine ⟨hid, ?_⟩
      cases hv : has "VALUE" (attrPairs r) <;> cases hu : has "URI" (attrPairs r) <;> simp [hv, hu] at hx
      · right
        refine ⟨?_, rfl⟩
        have := lastVal_isSome "VALUE" (attrPairs r); rw [hv] at this
        exact none_of_isSome_false this
      · left
        refine ⟨rfl, ?_⟩
        have := lastVal_isSome "URI" (attrPairs r); rw [hu] at this
        exact none_of_isSome_false this
  | err => simp [Res.isOk]
  | panic => simp [Res.isOk]

/-- … so two SESSION-DATA attribute lists that are rearrangements of each other are accepted or rejected together -/
theorem sessionData_order_free (r1 r2 : Str) (t1 : trim (pfxSessionData ++ r1) = pfxSessionData ++ r1)
    (t2 : trim (pfxSessionData ++ r2) = pfxSessionData ++ r2) (h : (attrPairs r1).Perm (attrPairs r2)) :
    (ExtXSessionData.parse (pfxSessionData ++ r1)).isOk = (ExtXSessionData.parse (pfxSessionData ++ r2)).isOk := by
  have key : ∀ r, trim (pfxSessionData ++ r) = pfxSessionData ++ r →
      ((ExtXSessionData.parse (pfxSessionData ++ r)).isOk = true ↔
        has "DATA-ID" (attrPairs r) = true ∧ (has "VALUE" (attrPairs r) != has "URI" (attrPairs r)) = true) := by
    intro r t
    rw [sessionData_text_iff]
    constructor
    · rintro ⟨r', e, h⟩
      rw [C12.stripTag_line _ _ t] at e; simp only [Res.ok.injEq] at e; subst e; exact h
    · intro h; exact ⟨r, C12.stripTag_line _ _ t, h⟩
  have e1 := key r1 t1
  have e2 := key r2 t2
  rw [has_perm h, has_perm h, has_perm h] at e1
  exact Bool.eq_iff_iff.mpr (e1.trans e2.symm)

/-! ## EXT-X-DATERANGE: ID; END-ON-NEXT needs CLASS and excludes DURATION and END-DATE — wherever they stand -/

theorem dateRange_text_iff (s : Str) :
    (ExtXDateRange.parse s).isOk = true ↔
      ∃ r, stripTag s pfxDateRange = .ok r ∧ (attrPairs r).any ExtXDateRange.bad = false ∧
        has "ID" (attrPairs r) = true ∧
        (has "END-ON-NEXT" (attrPairs r) = true →
          has "CLASS" (attrPairs r) = true ∧ has "DURATION" (attrPairs r) = false ∧ has "END-DATE" (attrPairs r) = false) := by
  unfold ExtXDateRange.parse
  cases h1 : stripTag s pfxDateRange with
  | ok r =>
    simp only [Res.bind_ok, ExtXDateRange.fold_closed, ExtXDateRange.closed]
    cases hb : (attrPairs r).any ExtXDateRange.bad with
    | true =>
      simp only [if_true, Res.bind_err, Res.isOk, Bool.false_eq_true, false_iff, not_exists, not_and]
      intro r' e hb'; simp only [Res.ok.injEq] at e; subst e; rw [hb] at hb'; cases hb'
    | false =>
      have hd : (attrPairs r).any (badAt "DURATION" parseSecs) = false := by
        apply Bool.eq_false_iff.mpr
        intro hc
        obtain ⟨kv, hm, hk⟩ := List.any_eq_true.mp hc
        have : (attrPairs r).any ExtXDateRange.bad = true :=
          List.any_eq_true.mpr ⟨kv, hm, by simp [ExtXDateRange.bad, hk]⟩
        rw [hb] at this; cases this
      simp only [Bool.false_eq_true, if_false, Res.bind_ok]
      rw [C14.dateRange_finish_ok_iff]
      simp only [C14.DateRangeRules, Option.isSome_map, lastVal_isSome, Option.map_eq_none_iff]
      have hdur := optParse_isSome "DURATION" parseSecs (attrPairs r) hd
      constructor
      · rintro ⟨hid, hrule⟩
        refine ⟨r, rfl, hb, hid, fun he => ?_⟩
        obtain ⟨a, b, c⟩ := hrule he
        refine ⟨a, ?_, ?_⟩
        · rw [← hdur, b]; rfl
        · rw [← lastVal_isSome, c]; rfl
      · rintro ⟨r', e, _, hid, hrule⟩
        simp only [Res.ok.injEq] at e; subst e
        refine ⟨hid, fun he => ?_⟩
        obtain ⟨a, b, c⟩ := hrule he
        refine ⟨a, ?_, ?_⟩
        · rw [b] at hdur
          exact none_of_isSome_false hdur
        · have := lastVal_isSome "END-DATE" (attrPairs r); rw [c] at this
          exact none_of_isSome_false this
  | err => simp [Res.isOk]
  | panic => simp [Res.isOk]

/-- … so two DATERANGE attribute lists that are rearrangements of each other are accepted or rejected together -/
theorem dateRange_order_free (r1 r2 : Str) (t1 : trim (pfxDateRange ++ r1) = pfxDateRange ++ r1)
    (t2 : trim (pfxDateRange ++ r2) = pfxDateRange ++ r2) (h : (attrPairs r1).Perm (attrPairs r2)) :
    (ExtXDateRange.parse (pfxDateRange ++ r1)).isOk = (ExtXDateRange.parse (pfxDateRange ++ r2)).isOk := by
  have key : ∀ r, trim (pfxDateRange ++ r) = pfxDateRange ++ r →
      ((ExtXDateRange.parse (pfxDateRange ++ r)).isOk = true ↔
        ((attrPairs r).any ExtXDateRange.bad = false ∧ has "ID" (attrPairs r) = true ∧
        (has "END-ON-NEXT" (attrPairs r) = true →
          has "CLASS" (attrPairs r) = true ∧ has "DURATION" (attrPairs r) = false ∧ has "END-DATE" (attrPairs r) = false))) := by
    intro r t
    rw [dateRange_text_iff]
    constructor
    · rintro ⟨r', e, h⟩
      rw [C12.stripTag_line _ _ t] at e; simp only [Res.ok.injEq] at e; subst e; exact h
    · intro h; exact ⟨r, C12.stripTag_line _ _ t, h⟩
  have e1 := key r1 t1
  have e2 := key r2 t2
  rw [h.any_eq, has_perm h, has_perm h, has_perm h, has_perm h, has_perm h] at e1
  exact Bool.eq_iff_iff.mpr (e1.trans e2.symm)

/-! ## keys: METHOD and a non-blank URI, every value well-formed — in any order -/

theorem decryptionKey_text_iff (r : Str) :
    (DecryptionKey.parse r).isOk = true ↔
      (attrPairs r).any DecryptionKey.bad = false ∧ has "METHOD" (attrPairs r) = true ∧
        (attrPairs r).any (fun kv => kv.1 == "URI".toList && nonBlankUri kv.2) = true := by
  unfold DecryptionKey.parse
  simp only [DecryptionKey.fold_closed, DecryptionKey.closed]
  cases hb : (attrPairs r).any DecryptionKey.bad with
  | true => simp [Res.isOk]
  | false =>
    have hm : (attrPairs r).any (badAt "METHOD" EncryptionMethod.parse) = false := by
      apply Bool.eq_false_iff.mpr
      intro hc
      obtain ⟨kv, hmem, hk⟩ := List.any_eq_true.mp hc
      have : (attrPairs r).any DecryptionKey.bad = true :=
        List.any_eq_true.mpr ⟨kv, hmem, by simp [DecryptionKey.bad, hk]⟩
      rw [hb] at this; cases this
    simp only [Bool.false_eq_true, if_false, Res.bind_ok, C14.decryptionKey_finish_ok_iff, Option.isSome_map,
      optParse_isSome "METHOD" EncryptionMethod.parse _ hm, lastValQ_isSome, true_and]

theorem decryptionKey_order_free (r1 r2 : Str) (h : (attrPairs r1).Perm (attrPairs r2)) :
    (DecryptionKey.parse r1).isOk = (DecryptionKey.parse r2).isOk := by
  have e1 := decryptionKey_text_iff r1
  have e2 := decryptionKey_text_iff r2
  rw [h.any_eq, has_perm h, h.any_eq] at e1
  exact Bool.eq_iff_iff.mpr (e1.trans e2.symm)

/-- a malformed value of one attribute is a malformed value of the tag -/
theorem any_bad_of {bad sub : Str × Str → Bool} (ps : List (Str × Str)) (himp : ∀ kv, sub kv = true → bad kv = true)
    (hb : ps.any bad = false) : ps.any sub = false := by
  apply Bool.eq_false_iff.mpr
  intro hc
  obtain ⟨kv, hm, hk⟩ := List.any_eq_true.mp hc
  have : ps.any bad = true := List.any_eq_true.mpr ⟨kv, hm, himp kv hk⟩
  rw [hb] at this; cases this

/-! ## stream data (both STREAM-INF kinds): BANDWIDTH, every value well-formed -/

theorem streamData_text_iff (r : Str) :
    (StreamData.parse r).isOk = true ↔ (attrPairs r).any StreamData.bad = false ∧ has "BANDWIDTH" (attrPairs r) = true := by
  unfold StreamData.parse
  simp only [StreamData.fold_closed, StreamData.closed]
  cases hb : (attrPairs r).any StreamData.bad with
  | true => simp [Res.isOk]
  | false =>
    have hm := any_bad_of (sub := badAt "BANDWIDTH" (parseNat 64)) (attrPairs r)
      (fun kv h => by simp [StreamData.bad, h]) hb
    simp only [Bool.false_eq_true, if_false, Res.bind_ok, C14.streamData_finish_ok_iff,
      optParse_isSome "BANDWIDTH" (parseNat 64) _ hm, true_and]

theorem streamData_order_free (r1 r2 : Str) (h : (attrPairs r1).Perm (attrPairs r2)) :
    (StreamData.parse r1).isOk = (StreamData.parse r2).isOk := by
  have e1 := streamData_text_iff r1
  have e2 := streamData_text_iff r2
  rw [h.any_eq, has_perm h] at e1
  exact Bool.eq_iff_iff.mpr (e1.trans e2.symm)

/-! ## EXT-X-MAP needs URI; EXT-X-START needs TIME-OFFSET -/

theorem map_text_iff (s : Str) :
    (ExtXMap.parse s).isOk = true ↔
      ∃ r, stripTag s pfxMap = .ok r ∧ (attrPairs r).any ExtXMap.bad = false ∧ has "URI" (attrPairs r) = true := by
  unfold ExtXMap.parse
  cases h1 : stripTag s pfxMap with
  | ok r =>
    simp only [Res.bind_ok, ExtXMap.fold_closed, ExtXMap.closed]
    cases hb : (attrPairs r).any ExtXMap.bad with
    | true =>
      simp only [if_true, Res.bind_err, Res.isOk, Bool.false_eq_true, false_iff, not_exists, not_and]
      intro r' e hb'; simp only [Res.ok.injEq] at e; subst e; rw [hb] at hb'; cases hb'
    | false =>
      simp only [Bool.false_eq_true, if_false, Res.bind_ok]
      have hs := lastVal_isSome "URI" (attrPairs r)
      cases hl : lastVal "URI".toList (attrPairs r) with
      | none =>
        rw [hl] at hs
        simp only [Option.map_none, Res.isOk, Bool.false_eq_true, false_iff, not_exists, not_and]
        intro r' e _ hu; simp only [Res.ok.injEq] at e; subst e; rw [← hs] at hu; cases hu
      | some v =>
        rw [hl] at hs
        simp only [Option.map_some, Res.pure_eq, Res.isOk, true_iff]
        exact ⟨r, rfl, hb, hs.symm⟩
  | err => simp [Res.isOk]
  | panic => simp [Res.isOk]

theorem start_text_iff (s : Str) :
    (ExtXStart.parse s).isOk = true ↔
      ∃ r, stripTag s pfxStart = .ok r ∧ (attrPairs r).any ExtXStart.bad = false ∧ has "TIME-OFFSET" (attrPairs r) = true := by
  unfold ExtXStart.parse
  cases h1 : stripTag s pfxStart with
  | ok r =>
    simp only [Res.bind_ok, ExtXStart.fold_closed, ExtXStart.closed]
    cases hb : (attrPairs r).any ExtXStart.bad with
    | true =>
      simp only [if_true, Res.bind_err, Res.isOk, Bool.false_eq_true, false_iff, not_exists, not_and]
      intro r' e hb'; simp only [Res.ok.injEq] at e; subst e; rw [hb] at hb'; cases hb'
    | false =>
      simp only [Bool.false_eq_true, if_false, Res.bind_ok]
      have hm := any_bad_of (sub := badAt "TIME-OFFSET" Float32.parseFloat) (attrPairs r)
        (fun kv h => by simp [ExtXStart.bad, h]) hb
      have hs := optParse_isSome "TIME-OFFSET" Float32.parseFloat (attrPairs r) hm
      cases hl : optParse Float32.parseFloat (lastVal "TIME-OFFSET".toList (attrPairs r)) with
      | none =>
        rw [hl] at hs
        simp only [Res.isOk, Bool.false_eq_true, false_iff, not_exists, not_and]
        intro r' e _ hu; simp only [Res.ok.injEq] at e; subst e; rw [← hs] at hu; cases hu
      | some v =>
        rw [hl] at hs
        simp only [Res.pure_eq, Res.isOk, true_iff]
        exact ⟨r, rfl, hb, hs.symm⟩
  | err => simp [Res.isOk]
  | panic => simp [Res.isOk]

/-! ## non-vacuity: the rule that a seeded change enforced for one order only -/

example : has "VALUE" [("DATA-ID".toList, "\"a\"".toList), ("URI".toList, "\"u\"".toList), ("VALUE".toList, "\"v\"".toList)] = true ∧
    has "URI" [("DATA-ID".toList, "\"a\"".toList), ("URI".toList, "\"u\"".toList), ("VALUE".toList, "\"v\"".toList)] = true := by decide

end Hls.C14T
