import Hls.Props.C05
import Hls.Props.C08
import Hls.Props.C09
/-!
# C08 / C09 at string level (second property file of C08)

`Props/C08.lean` and `Props/C09.lean` state the byte-range and target-duration rules over classified lines; here the same
statements for every TEXT any parse entry point accepts (the classifier only returns ranges that fit 64 bits:
`C05.items_byteRange`).
-/
namespace Hls.C08T
open Hls

/-- **byte ranges of every accepted text**: the reported ranges are the declarative resolution (`SpecRanges`: an
offset-less range starts where the previous sub-range of the same URI ended, a range with offset is as written) of a
well-chained list of written ranges -/
theorem ranges_text (b : MediaPlaylistBuilder) (s : Str) (p : MediaPlaylist) (h : parseMediaWith b s = .ok p) :
    ∃ parsed : List MediaSegment, parsed.length = p.segments.length ∧ C08.WellChained parsed none ∧
      p.segments.map (·.byte_range) = C08.SpecRanges none parsed := by
  obtain ⟨rest, ls, _, h2, h3⟩ := parseMediaWith_ok b s p h
  refine C08.ranges_lines b ls p ?_ h3
  intro r hr
  apply C05.items_byteRange (rawLines rest) r
  show Res.ok (Line.byteRange r) ∈ lineItems rest
  rw [h2]; exact List.mem_map.mpr ⟨_, hr, rfl⟩

/-- **target-duration rule for every accepted text**: no segment of a playlist handed out is longer (rounded) than
the target duration plus the configured allowance -/
theorem durations_text (b : MediaPlaylistBuilder) (s : Str) (p : MediaPlaylist) (h : parseMediaWith b s = .ok p) :
    ∀ seg ∈ p.segments, roundedSecs seg.duration.duration * nanosPerSec ≤
      (match b.allowable_excess_duration with
       | some e => min (p.target_duration + e) durationMax
       | none => p.target_duration) := by
  obtain ⟨_, ls, _, _, h3⟩ := parseMediaWith_ok b s p h
  exact C09.accepted_durations b ls p h3

end Hls.C08T
