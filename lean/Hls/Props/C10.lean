import Hls.Proofs.KeySet
import Hls.Model.Master
/-!
# C10 — the emitted EXT-X-VERSION is sound (≥ the RFC 8216 §7 minimum) and not inflated

The writers are defined through typed lines (`MediaPlaylist.writeLines`, `MasterPlaylist.writeLines`;
`to_string()` renders exactly those lines). `lineMin` / `rfcMin` compute RFC 8216 §7's minimum from the
*written* lines alone, independently of `required_version()`.
-/
namespace Hls.C10
open Hls

/-! ## the RFC minimum of written lines -/

def versionsWritten (k : DecryptionKey) : Bool := k.versions.isSome

def ivWritten (k : DecryptionKey) : Bool :=
  match k.iv with
  | .aes128 _ => true
  | _ => false

/-- a written key line: KEYFORMAT / KEYFORMATVERSIONS need 5, an IV attribute needs 2 -/
def keyLineMin (k : DecryptionKey) : Nat :=
  if k.format.isSome || versionsWritten k then 5 else if ivWritten k then 2 else 1

def lineMin : Line → Nat
  | .key (some k) => keyLineMin k
  | .sessionKey k => keyLineMin k
  | .inf t => if t.writtenFraction then 3 else 1      -- decimal-floating-point EXTINF: the WRITTEN number has a fraction
  | .byteRange _ => 4
  | .iFramesOnly => 4
  | .map _ => 5
  | .media m => (match m.instream_id with
      | some i => i.requiredVersion
      | none => 1)
  | _ => 1

def isMap : Line → Bool
  | .map _ => true
  | _ => false
def isIfo : Line → Bool
  | .iFramesOnly => true
  | _ => false
def isVersion : Line → Bool
  | .version _ => true
  | _ => false

/-- RFC 8216 §7 minimum for a list of written lines (EXT-X-MAP without I-FRAMES-ONLY needs 6) -/
def rfcMin (ls : List Line) : Nat :=
  max (maxVersion (ls.map lineMin)) (if ls.any isMap && !ls.any isIfo then 6 else 1)

/-! ## `max` bookkeeping -/

theorem foldl_max_ge (l : List Nat) (a : Nat) : a ≤ l.foldl max a ∧ ∀ x ∈ l, x ≤ l.foldl max a := by
  induction l generalizing a with
  | nil => simp
  | cons y ys ih =>
    simp only [List.foldl_cons]
    obtain ⟨h1, h2⟩ := ih (max a y)
    refine ⟨by omega, ?_⟩
    intro x hx
    rcases List.mem_cons.mp hx with rfl | hx
    · omega
    · exact h2 x hx

theorem foldl_max_le (l : List Nat) (a b : Nat) (ha : a ≤ b) (h : ∀ x ∈ l, x ≤ b) : l.foldl max a ≤ b := by
  induction l generalizing a with
  | nil => simpa
  | cons y ys ih =>
    simp only [List.foldl_cons]
    exact ih (max a y) (by have := h y (by simp); omega) (fun x hx => h x (by simp [hx]))

theorem mem_le_maxVersion (l : List Nat) (x : Nat) (h : x ∈ l) : x ≤ maxVersion l := (foldl_max_ge l 1).2 x h
theorem one_le_maxVersion (l : List Nat) : 1 ≤ maxVersion l := (foldl_max_ge l 1).1
theorem maxVersion_le (l : List Nat) (b : Nat) (hb : 1 ≤ b) (h : ∀ x ∈ l, x ≤ b) : maxVersion l ≤ b := foldl_max_le l 1 b hb h

/-! ## what the writer emits -/

/-- a key line never claims more than the key's required version, even after the IV is stripped -/
theorem keyLineMin_le (k : DecryptionKey) : keyLineMin (stripIv k) ≤ k.requiredVersion := by
  obtain ⟨m, u, iv, f, v⟩ := k
  cases f <;> cases v <;> cases iv <;>
    simp [keyLineMin, stripIv, DecryptionKey.requiredVersion, versionsWritten, ivWritten, InitializationVector.isSome] <;>
    (try split) <;> omega

/-- lines the writer may add while handling segment `s` -/
def FromSeg (s : MediaSegment) (l : Line) : Prop :=
  (∃ k, some k ∈ s.keys ∧ l = .key (some (stripIv k))) ∨ l = .key none ∨ l ∈ s.writeLines

theorem writeKeyStep_out (s : MediaSegment) (st st' : List ExtXKey × List Line) (key : ExtXKey) (hk : key ∈ s.keys)
    (h : writeKeyStep st key = .ok st') :
    (∀ l ∈ st'.2, l ∈ st.2 ∨ FromSeg s l) ∧
    ((∀ x ∈ st.1, x = none ∨ Line.key x ∈ st.2) → (∀ x ∈ st'.1, x = none ∨ Line.key x ∈ st'.2)) ∧
    (∀ l ∈ st.2, l ∈ st'.2) ∧
    ((∀ x ∈ st.1, x = none ∨ Line.key x ∈ st.2) → ∀ k, key = some k → Line.key (some (stripIv k)) ∈ st'.2) := by
  obtain ⟨avail, out⟩ := st
  cases key with
  | none =>
    simp only [writeKeyStep, Res.ok.injEq] at h; subst h
    refine ⟨?_, ?_, ?_, ?_⟩
    · intro l hl
      rcases List.mem_append.mp hl with hl | hl
      · exact Or.inl hl
      · simp only [List.mem_singleton] at hl; exact Or.inr (Or.inr (Or.inl hl))
    · intro _ x hx; simp only [List.mem_singleton] at hx; exact Or.inl hx
    · intro l hl; exact List.mem_append_left _ hl
    · intro _ k e; cases e
  | some dk =>
    simp only [writeKeyStep] at h
    split at h
    · rename_i hc
      simp only [Res.ok.injEq] at h; subst h
      refine ⟨fun l hl => Or.inl hl, ?_, fun l hl => hl, ?_⟩
      · intro hinv x hx
        exact hinv x ((mem_setRemove _ _ _).mp hx).1
      · intro hinv k e
        simp only [Option.some.injEq] at e; subst e
        have hm := (setContains_iff _ _).mp hc
        have := hinv _ ((mem_setRemove _ _ _).mp hm).1
        rcases this with e | e
        · cases e
        · exact e
    · have newline : ∀ l ∈ out ++ [Line.key (some (stripIv dk))], l ∈ out ∨ FromSeg s l := by
        intro l hl
        rcases List.mem_append.mp hl with hl | hl
        · exact Or.inl hl
        · simp only [List.mem_singleton] at hl
          exact Or.inr (Or.inl ⟨dk, hk, hl⟩)
      have inv_ins : (∀ x ∈ avail, x = none ∨ Line.key x ∈ out) →
          ∀ x ∈ setInsert (some (stripIv dk)) (setRemove none avail), x = none ∨ Line.key x ∈ out ++ [Line.key (some (stripIv dk))] := by
        intro hinv x hx
        rcases (mem_setInsert _ _ _).mp hx with rfl | hx
        · exact Or.inr (by simp)
        · rcases hinv x ((mem_setRemove _ _ _).mp hx).1 with e | e
          · exact Or.inl e
          · exact Or.inr (List.mem_append_left _ e)
      split at h
      · rename_i r _
        simp only [Res.ok.injEq] at h; subst h
        refine ⟨newline, ?_, fun l hl => List.mem_append_left _ hl, fun _ k e => by
          simp only [Option.some.injEq] at e; subst e; simp⟩
        intro hinv x hx
        exact inv_ins hinv x ((mem_setRemove _ _ _).mp hx).1
      · simp only [Res.ok.injEq] at h; subst h
        exact ⟨newline, inv_ins, fun l hl => List.mem_append_left _ hl, fun _ k e => by
          simp only [Option.some.injEq] at e; subst e; simp⟩
      · cases h
      · cases h

/-- state of the writer: every announced real key has been written as a line -/
def Announced (st : List ExtXKey × List Line) : Prop := ∀ x ∈ st.1, x = none ∨ Line.key x ∈ st.2

theorem writeKeys_fold (s : MediaSegment) (keys : List ExtXKey) (hsub : ∀ k ∈ keys, k ∈ s.keys)
    (st st' : List ExtXKey × List Line) (h : foldRes writeKeyStep st keys = .ok st') (hinv : Announced st) :
    (∀ l ∈ st'.2, l ∈ st.2 ∨ FromSeg s l) ∧ Announced st' ∧ (∀ l ∈ st.2, l ∈ st'.2) ∧
    (∀ k, some k ∈ keys → Line.key (some (stripIv k)) ∈ st'.2) := by
  induction keys generalizing st with
  | nil => simp only [foldRes, Res.ok.injEq] at h; subst h; exact ⟨fun l hl => Or.inl hl, hinv, fun l hl => hl, by simp⟩
  | cons key rest ih =>
    simp only [foldRes] at h
    cases hx : writeKeyStep st key with
    | ok s1 =>
      rw [hx] at h
      obtain ⟨a1, a2, a3, a4⟩ := writeKeyStep_out s st s1 key (hsub key (by simp)) hx
      obtain ⟨b1, b2, b3, b4⟩ := ih (fun k hk => hsub k (by simp [hk])) s1 h (a2 hinv)
      refine ⟨?_, b2, fun l hl => b3 l (a3 l hl), ?_⟩
      · intro l hl
        rcases b1 l hl with hl | hl
        · exact a1 l hl
        · exact Or.inr hl
      · intro k hk
        rcases List.mem_cons.mp hk with e | hk
        · exact b3 _ (a4 hinv k e.symm)
        · exact b4 k hk
    | err => rw [hx] at h; cases h
    | panic => rw [hx] at h; cases h

theorem writeSegs_fold (segs : List MediaSegment) (st st' : List ExtXKey × List Line)
    (h : foldRes writeSegStep st segs = .ok st') (hinv : Announced st) :
    (∀ l ∈ st'.2, l ∈ st.2 ∨ ∃ s ∈ segs, FromSeg s l) ∧ Announced st' ∧ (∀ l ∈ st.2, l ∈ st'.2) ∧
    (∀ s ∈ segs, (∀ k, some k ∈ s.keys → Line.key (some (stripIv k)) ∈ st'.2) ∧ ∀ l ∈ s.writeLines, l ∈ st'.2) := by
  induction segs generalizing st with
  | nil => simp only [foldRes, Res.ok.injEq] at h; subst h; exact ⟨fun l hl => Or.inl hl, hinv, fun l hl => hl, by simp⟩
  | cons s rest ih =>
    simp only [foldRes] at h
    cases hx : writeSegStep st s with
    | ok s1 =>
      rw [hx] at h
      simp only [writeSegStep] at hx
      have r1 : ∀ l ∈ (resetStep st s.keys).2, l ∈ st.2 ∨ l = Line.key none := by
        intro l hl
        unfold resetStep at hl
        split at hl
        · rcases List.mem_append.mp hl with hl | hl
          · exact Or.inl hl
          · simp only [List.mem_singleton] at hl; exact Or.inr hl
        · exact Or.inl hl
      have r2 : Announced (resetStep st s.keys) := by
        unfold resetStep
        split
        · intro x hx; simp only [List.mem_singleton] at hx; exact Or.inl hx
        · exact hinv
      have r3 : ∀ l ∈ st.2, l ∈ (resetStep st s.keys).2 := by
        intro l hl
        unfold resetStep
        split
        · exact List.mem_append_left _ hl
        · exact hl
      cases hk : foldRes writeKeyStep (resetStep st s.keys) s.keys with
      | ok r =>
        rw [hk] at hx
        obtain ⟨avail, out⟩ := r
        simp only [Res.ok.injEq] at hx; subst hx
        obtain ⟨a1', a2, a3', a4⟩ := writeKeys_fold s s.keys (fun k hk => hk) (resetStep st s.keys) (avail, out) hk r2
        have a1 : ∀ l ∈ out, l ∈ st.2 ∨ FromSeg s l := by
          intro l hl
          rcases a1' l hl with hl | hl
          · rcases r1 l hl with hl | hl
            · exact Or.inl hl
            · exact Or.inr (Or.inr (Or.inl hl))
          · exact Or.inr hl
        have a3 : ∀ l ∈ st.2, l ∈ out := fun l hl => a3' l (r3 l hl)
        have hinv1 : Announced (avail, out ++ s.writeLines) := by
          intro x hx
          rcases a2 x hx with e | e
          · exact Or.inl e
          · exact Or.inr (List.mem_append_left _ e)
        obtain ⟨b1, b2, b3, b4⟩ := ih (avail, out ++ s.writeLines) h hinv1
        refine ⟨?_, b2, fun l hl => b3 l (List.mem_append_left _ (a3 l hl)), ?_⟩
        · intro l hl
          rcases b1 l hl with hl | ⟨s', hs', hf⟩
          · rcases List.mem_append.mp hl with hl | hl
            · rcases a1 l hl with hl | hl
              · exact Or.inl hl
              · exact Or.inr ⟨s, by simp, hl⟩
            · exact Or.inr ⟨s, by simp, Or.inr (Or.inr hl)⟩
          · exact Or.inr ⟨s', by simp [hs'], hf⟩
        · intro s' hs'
          rcases List.mem_cons.mp hs' with rfl | hs'
          · exact ⟨fun k hk => b3 _ (List.mem_append_left _ (a4 k hk)), fun l hl => b3 l (List.mem_append_right _ hl)⟩
          · exact b4 s' hs'
      | err => rw [hk] at hx; cases hx
      | panic => rw [hk] at hx; cases hx
    | err => rw [hx] at h; cases h
    | panic => rw [hx] at h; cases h

/-- decomposition of the written lines of a media playlist -/
theorem writeLines_mem (p : MediaPlaylist) (ls : List Line) (h : p.writeLines = .ok ls) :
    (∀ l ∈ ls, l ∈ p.headerLines ∨ (∃ s ∈ p.segments, FromSeg s l) ∨ (∃ u, l = .unknown u) ∨ l = .endList) ∧
    (∀ l ∈ p.headerLines, l ∈ ls) ∧
    (∀ s ∈ p.segments, (∀ k, some k ∈ s.keys → Line.key (some (stripIv k)) ∈ ls) ∧ ∀ l ∈ s.writeLines, l ∈ ls) := by
  unfold MediaPlaylist.writeLines at h
  cases hf : foldRes writeSegStep ([], p.headerLines) p.segments with
  | ok r =>
    rw [hf] at h
    obtain ⟨avail, out⟩ := r
    simp only [Res.ok.injEq] at h; subst h
    obtain ⟨a1, _, a3, a4⟩ := writeSegs_fold p.segments _ _ hf (by intro x hx; cases hx)
    refine ⟨?_, fun l hl => List.mem_append_left _ (List.mem_append_left _ (a3 l hl)), ?_⟩
    · intro l hl
      rcases List.mem_append.mp hl with hl | hl
      · rcases List.mem_append.mp hl with hl | hl
        · rcases a1 l hl with hl | hl
          · exact Or.inl hl
          · exact Or.inr (Or.inl hl)
        · obtain ⟨u, _, e⟩ := List.mem_map.mp hl
          exact Or.inr (Or.inr (Or.inl ⟨u, e.symm⟩))
      · split at hl
        · simp only [List.mem_singleton] at hl; exact Or.inr (Or.inr (Or.inr hl))
        · cases hl
    · intro s hs
      obtain ⟨b1, b2⟩ := a4 s hs
      exact ⟨fun k hk => List.mem_append_left _ (List.mem_append_left _ (b1 k hk)),
             fun l hl => List.mem_append_left _ (List.mem_append_left _ (b2 l hl))⟩
  | err => rw [hf] at h; cases h
  | panic => rw [hf] at h; cases h

/-! ## the property -/

theorem header_version_mem (p : MediaPlaylist) (l : Line) (hl : l ∈ p.headerLines) (hv : isVersion l = true) :
    l = .version p.requiredVersion ∧ p.requiredVersion ≠ 1 := by
  unfold MediaPlaylist.headerLines at hl
  simp only [List.mem_append, List.mem_cons, List.mem_nil_iff, or_false] at hl
  rcases hl with ((((((hl | hl) | hl) | hl) | hl) | hl) | hl) | hl
  · split at hl
    · rename_i hne
      simp only [List.mem_singleton] at hl
      exact ⟨hl, by simpa using hne⟩
    · cases hl
  · subst hl; cases hv
  · split at hl <;> simp at hl; subst hl; cases hv
  · split at hl <;> simp at hl; subst hl; cases hv
  · split at hl <;> simp at hl; subst hl; cases hv
  · split at hl <;> simp at hl; subst hl; cases hv
  · split at hl <;> simp at hl; subst hl; cases hv
  · split at hl <;> simp at hl; subst hl; cases hv

theorem fromSeg_not_version (s : MediaSegment) (l : Line) (h : FromSeg s l) : isVersion l = false := by
  rcases h with ⟨k, _, rfl⟩ | rfl | h
  · rfl
  · rfl
  · unfold MediaSegment.writeLines at h
    simp only [List.mem_append, List.mem_cons, List.mem_nil_iff, or_false] at h
    rcases h with ((((h | h) | h) | h) | h) | h
    · split at h <;> simp at h; subst h; rfl
    · split at h <;> simp at h; subst h; rfl
    · split at h <;> simp at h; subst h; rfl
    · split at h <;> simp at h; subst h; rfl
    · split at h <;> simp at h; subst h; rfl
    · rcases h with rfl | rfl <;> rfl

/-- **(1) at most one EXT-X-VERSION line; it carries exactly the reported required version and is
omitted exactly when that is 1.** -/
theorem media_version_line (p : MediaPlaylist) (ls : List Line) (h : p.writeLines = .ok ls) :
    ∀ l ∈ ls, isVersion l = true → l = .version p.requiredVersion ∧ p.requiredVersion ≠ 1 := by
  obtain ⟨a, _, _⟩ := writeLines_mem p ls h
  intro l hl hv
  rcases a l hl with hh | ⟨s, _, hf⟩ | ⟨u, rfl⟩ | rfl
  · exact header_version_mem p l hh hv
  · rw [fromSeg_not_version s l hf] at hv; cases hv
  · cases hv
  · cases hv

theorem media_version_present (p : MediaPlaylist) (ls : List Line) (h : p.writeLines = .ok ls)
    (hne : p.requiredVersion ≠ 1) : Line.version p.requiredVersion ∈ ls := by
  obtain ⟨_, b, _⟩ := writeLines_mem p ls h
  apply b
  unfold MediaPlaylist.headerLines
  have : (p.requiredVersion != 1) = true := by simpa using hne
  simp [this]

theorem seg_rv_le (p : MediaPlaylist) (s : MediaSegment) (hs : s ∈ p.segments) : s.requiredVersion ≤ p.requiredVersion := by
  have h1 : s.requiredVersion ≤ maxVersion (p.segments.map MediaSegment.requiredVersion) :=
    mem_le_maxVersion _ _ (List.mem_map.mpr ⟨s, hs, rfl⟩)
  have h2 : maxVersion (p.segments.map MediaSegment.requiredVersion) ≤ p.requiredVersion := by
    unfold MediaPlaylist.requiredVersion
    exact mem_le_maxVersion _ _ (by simp)
  exact Nat.le_trans h1 h2

theorem key_rv_le_seg (s : MediaSegment) (k : DecryptionKey) (hk : some k ∈ s.keys) : k.requiredVersion ≤ s.requiredVersion := by
  have h1 : k.requiredVersion ≤ maxVersion (s.keys.map ExtXKey.requiredVersion) :=
    mem_le_maxVersion _ _ (List.mem_map.mpr ⟨some k, hk, rfl⟩)
  have h2 : maxVersion (s.keys.map ExtXKey.requiredVersion) ≤ s.requiredVersion := by
    unfold MediaSegment.requiredVersion
    exact mem_le_maxVersion _ _ (by simp)
  exact Nat.le_trans h1 h2

/-- **(2) soundness.** The reported (and emitted) version is never lower than what RFC 8216 §7
demands for the features present in the written lines. -/
theorem media_version_sound (p : MediaPlaylist) (ls : List Line) (h : p.writeLines = .ok ls) :
    rfcMin ls ≤ p.requiredVersion := by
  obtain ⟨a, _, _⟩ := writeLines_mem p ls h
  have hline : ∀ l ∈ ls, lineMin l ≤ p.requiredVersion ∧ (isMap l = true → 6 ≤ p.requiredVersion) := by
    intro l hl
    rcases a l hl with hh | ⟨s, hs, hf⟩ | ⟨u, rfl⟩ | rfl
    · -- header lines
      unfold MediaPlaylist.headerLines at hh
      simp only [List.mem_append, List.mem_cons, List.mem_nil_iff, or_false] at hh
      have one := one_le_maxVersion [1, 1, 1, 1, (if p.has_i_frames_only then 4 else 1), 1, 1, 1,
        maxVersion (p.segments.map MediaSegment.requiredVersion)]
      rcases hh with ((((((hh | hh) | hh) | hh) | hh) | hh) | hh) | hh
      · split at hh <;> simp at hh; subst hh; exact ⟨one, by simp [isMap]⟩
      · subst hh; exact ⟨one, by simp [isMap]⟩
      · split at hh <;> simp at hh; subst hh; exact ⟨one, by simp [isMap]⟩
      · split at hh <;> simp at hh; subst hh; exact ⟨one, by simp [isMap]⟩
      · split at hh <;> simp at hh; subst hh; exact ⟨one, by simp [isMap]⟩
      · split at hh
        · rename_i hifo
          simp at hh; subst hh
          refine ⟨?_, by simp [isMap]⟩
          unfold MediaPlaylist.requiredVersion
          apply mem_le_maxVersion
          simp [hifo, lineMin]
        · cases hh
      · split at hh <;> simp at hh; subst hh; exact ⟨one, by simp [isMap]⟩
      · split at hh <;> simp at hh; subst hh; exact ⟨one, by simp [isMap]⟩
    · have hsp := seg_rv_le p s hs
      rcases hf with ⟨k, hk, rfl⟩ | rfl | hw
      · refine ⟨?_, by simp [isMap]⟩
        have h1 := keyLineMin_le k
        have h2 := key_rv_le_seg s k hk
        simp only [lineMin]
        exact Nat.le_trans h1 (Nat.le_trans h2 hsp)
      · exact ⟨by simp only [lineMin]; exact Nat.le_trans (one_le_maxVersion _) (Nat.le_refl _), by simp [isMap]⟩
      · unfold MediaSegment.writeLines at hw
        simp only [List.mem_append, List.mem_cons, List.mem_nil_iff, or_false] at hw
        have sone : 1 ≤ s.requiredVersion := one_le_maxVersion _
        rcases hw with ((((hw | hw) | hw) | hw) | hw) | hw
        · split at hw
          · rename_i m hm
            simp at hw; subst hw
            have : 6 ≤ s.requiredVersion := by
              unfold MediaSegment.requiredVersion
              apply mem_le_maxVersion; simp [hm]
            exact ⟨by simp only [lineMin]; omega, fun _ => by omega⟩
          · cases hw
        · split at hw
          · rename_i r hr
            simp at hw; subst hw
            have : 4 ≤ s.requiredVersion := by
              unfold MediaSegment.requiredVersion
              apply mem_le_maxVersion; simp [hr]
            exact ⟨by simp only [lineMin]; omega, by simp [isMap]⟩
          · cases hw
        · split at hw <;> simp at hw; subst hw; exact ⟨by simp only [lineMin]; omega, by simp [isMap]⟩
        · split at hw <;> simp at hw; subst hw; exact ⟨by simp only [lineMin]; omega, by simp [isMap]⟩
        · split at hw <;> simp at hw; subst hw; exact ⟨by simp only [lineMin]; omega, by simp [isMap]⟩
        · rcases hw with rfl | rfl
          · refine ⟨?_, by simp [isMap]⟩
            have : s.duration.requiredVersion ≤ s.requiredVersion := by
              unfold MediaSegment.requiredVersion
              apply mem_le_maxVersion; simp
            simp only [lineMin, ExtInf.requiredVersion] at this ⊢
            exact Nat.le_trans this hsp
          · exact ⟨by simp only [lineMin]; omega, by simp [isMap]⟩
    · exact ⟨by simp only [lineMin]; exact one_le_maxVersion _, by simp [isMap]⟩
    · exact ⟨by simp only [lineMin]; exact one_le_maxVersion _, by simp [isMap]⟩
  unfold rfcMin
  apply Nat.max_le.mpr
  constructor
  · apply maxVersion_le _ _ (one_le_maxVersion _)
    intro x hx
    obtain ⟨l, hl, rfl⟩ := List.mem_map.mp hx
    exact (hline l hl).1
  · split
    · rename_i hm
      simp only [Bool.and_eq_true, List.any_eq_true] at hm
      obtain ⟨⟨l, hl, hml⟩, _⟩ := hm
      exact (hline l hl).2 hml
    · exact one_le_maxVersion _

/-! ## not inflated -/

/-- the two documented conservative cases: any EXT-X-MAP gives 6; a derived IV gives 2 -/
def slack (p : MediaPlaylist) : Nat :=
  max (if p.segments.any (·.map.isSome) then 6 else 1)
      (if p.segments.any (fun s => s.keys.any fun k => match k with
          | some d => (match d.iv with
              | .number _ => true
              | _ => false)
          | none => false) then 2 else 1)

theorem key_rv_le (k : DecryptionKey) :
    k.requiredVersion ≤ max (keyLineMin (stripIv k)) (match k.iv with
      | .number _ => 2
      | _ => 1) := by
  obtain ⟨m, u, iv, f, v⟩ := k
  cases f <;> cases v <;> cases iv <;>
    simp_all [keyLineMin, stripIv, DecryptionKey.requiredVersion, versionsWritten, ivWritten, InitializationVector.isSome]

/-- **(3) not inflated.** Outside the two documented conservative cases the emitted version
equals the RFC minimum of the written lines (full statement since the `fix:` that writes
KEYFORMATVERSIONS whenever it is set; before it a default version list counted for version 5
without being written: former finding K4). -/
theorem media_version_not_inflated (p : MediaPlaylist) (ls : List Line) (h : p.writeLines = .ok ls) :
    p.requiredVersion ≤ max (rfcMin ls) (slack p) := by
  obtain ⟨_, b, c⟩ := writeLines_mem p ls h
  have hmin : ∀ l ∈ ls, lineMin l ≤ rfcMin ls := by
    intro l hl
    unfold rfcMin
    exact Nat.le_trans (mem_le_maxVersion _ _ (List.mem_map.mpr ⟨l, hl, rfl⟩)) (Nat.le_max_left _ _)
  have hone : 1 ≤ max (rfcMin ls) (slack p) := Nat.le_trans (one_le_maxVersion _) (Nat.le_trans (Nat.le_max_left _ _) (Nat.le_max_left _ _))
  unfold MediaPlaylist.requiredVersion
  apply maxVersion_le _ _ hone
  intro x hx
  simp only [List.mem_cons, List.mem_nil_iff, or_false] at hx
  rcases hx with rfl | rfl | rfl | rfl | rfl | rfl | rfl | rfl | rfl
  any_goals exact hone
  · split
    · rename_i hifo
      have : Line.iFramesOnly ∈ ls := b _ (by unfold MediaPlaylist.headerLines; simp [hifo])
      exact Nat.le_trans (hmin _ this) (Nat.le_max_left _ _)
    · exact hone
  · apply maxVersion_le _ _ hone
    intro y hy
    obtain ⟨s, hs, rfl⟩ := List.mem_map.mp hy
    obtain ⟨c1, c2⟩ := c s hs
    unfold MediaSegment.requiredVersion
    apply maxVersion_le _ _ hone
    intro z hz
    simp only [List.mem_cons, List.mem_nil_iff, or_false] at hz
    rcases hz with rfl | rfl | rfl | rfl | rfl | rfl | rfl
    any_goals exact hone
    · apply maxVersion_le _ _ hone
      intro w hw
      obtain ⟨k, hk, rfl⟩ := List.mem_map.mp hw
      cases k with
      | none => exact hone
      | some d =>
        have h1 := key_rv_le d
        have h2 := hmin _ (c1 d hk)
        simp only [lineMin] at h2
        simp only [ExtXKey.requiredVersion]
        have hs1 : 1 ≤ slack p := by
          unfold slack
          apply Nat.le_trans _ (Nat.le_max_left _ _)
          split <;> omega
        have h3 : (match d.iv with
            | .number _ => 2
            | _ => 1) ≤ slack p := by
          cases hiv : d.iv with
          | number n =>
            simp only []
            unfold slack
            apply Nat.le_trans _ (Nat.le_max_right _ _)
            have : (p.segments.any fun s => s.keys.any fun k => match k with
                | some d => (match d.iv with
                    | .number _ => true
                    | _ => false)
                | none => false) = true := by
              apply List.any_eq_true.mpr ⟨s, hs, ?_⟩
              apply List.any_eq_true.mpr ⟨some d, hk, ?_⟩
              simp [hiv]
            simp [this]
          | aes128 v => exact hs1
          | missing => exact hs1
        omega
    · split
      · rename_i m hm
        have : 6 ≤ slack p := by
          unfold slack
          apply Nat.le_trans _ (Nat.le_max_left _ _)
          have : p.segments.any (·.map.isSome) = true := List.any_eq_true.mpr ⟨s, hs, by simp [hm]⟩
          simp [this]
        omega
      · exact hone
    · split
      · rename_i r hr
        have : Line.byteRange r ∈ ls := c2 _ (by unfold MediaSegment.writeLines; simp [hr])
        have := hmin _ this
        simp only [lineMin] at this
        omega
      · exact hone
    · have : Line.inf s.duration ∈ ls := c2 _ (by unfold MediaSegment.writeLines; simp)
      have := hmin _ this
      simp only [lineMin, ExtInf.requiredVersion] at this ⊢
      omega

/-! ## master playlists -/

theorem master_version_line (p : MasterPlaylist) :
    (∀ l ∈ p.writeLines, isVersion l = true → l = .version p.requiredVersion ∧ p.requiredVersion ≠ 1) ∧
    (p.requiredVersion ≠ 1 → Line.version p.requiredVersion ∈ p.writeLines) := by
  constructor
  · intro l hl hv
    unfold MasterPlaylist.writeLines at hl
    simp only [List.mem_append, List.mem_map] at hl
    rcases hl with ((((((hl | ⟨m, _, rfl⟩) | ⟨v, _, rfl⟩) | ⟨d, _, rfl⟩) | ⟨k, _, rfl⟩) | hl) | hl) | ⟨u, _, rfl⟩
    · split at hl
      · rename_i hne; simp only [List.mem_singleton] at hl; exact ⟨hl, by simpa using hne⟩
      · cases hl
    · cases hv
    · cases hv
    · cases hv
    · cases hv
    · split at hl <;> simp at hl; subst hl; cases hv
    · split at hl <;> simp at hl; subst hl; cases hv
    · cases hv
  · intro hne
    unfold MasterPlaylist.writeLines
    have : (p.requiredVersion != 1) = true := by simpa using hne
    simp [this]

theorem master_version_sound (p : MasterPlaylist) : rfcMin p.writeLines ≤ p.requiredVersion := by
  have hone : 1 ≤ p.requiredVersion := one_le_maxVersion _
  have hline : ∀ l ∈ p.writeLines, lineMin l ≤ p.requiredVersion ∧ isMap l = false := by
    intro l hl
    unfold MasterPlaylist.writeLines at hl
    simp only [List.mem_append, List.mem_map] at hl
    rcases hl with ((((((hl | ⟨m, hm, rfl⟩) | ⟨v, _, rfl⟩) | ⟨d, _, rfl⟩) | ⟨k, hk, rfl⟩) | hl) | hl) | ⟨u, _, rfl⟩
    · split at hl <;> simp at hl; subst hl; exact ⟨hone, rfl⟩
    · refine ⟨?_, rfl⟩
      unfold MasterPlaylist.requiredVersion
      apply Nat.le_trans _ (mem_le_maxVersion _ _ (by simp : maxVersion (p.media.map ExtXMedia.requiredVersion) ∈ _))
      apply Nat.le_trans _ (mem_le_maxVersion _ _ (List.mem_map.mpr ⟨m, hm, rfl⟩))
      simp only [lineMin, ExtXMedia.requiredVersion]; exact Nat.le_refl _
    · exact ⟨hone, rfl⟩
    · exact ⟨hone, rfl⟩
    · refine ⟨?_, rfl⟩
      unfold MasterPlaylist.requiredVersion
      apply Nat.le_trans _ (mem_le_maxVersion _ _ (by simp : maxVersion (p.session_keys.map DecryptionKey.requiredVersion) ∈ _))
      apply Nat.le_trans _ (mem_le_maxVersion _ _ (List.mem_map.mpr ⟨k, hk, rfl⟩))
      simp only [lineMin]
      have := keyLineMin_le k
      -- session keys are written with their IV as is (`stripIv` only concerns derived IVs, which a session key never has from text)
      obtain ⟨m, u, iv, f, v⟩ := k
      cases f <;> cases v <;> cases iv <;>
        simp_all [keyLineMin, stripIv, DecryptionKey.requiredVersion, versionsWritten, ivWritten, InitializationVector.isSome]
    · split at hl <;> simp at hl; subst hl; exact ⟨hone, rfl⟩
    · split at hl <;> simp at hl; subst hl; exact ⟨hone, rfl⟩
    · exact ⟨hone, rfl⟩
  unfold rfcMin
  apply Nat.max_le.mpr
  constructor
  · apply maxVersion_le _ _ hone
    intro x hx
    obtain ⟨l, hl, rfl⟩ := List.mem_map.mp hx
    exact (hline l hl).1
  · have : p.writeLines.any isMap = false := by
      apply List.any_eq_false.mpr
      intro l hl; simp [(hline l hl).2]
    simp [this]; exact hone

/-- a session key built with a derived IV (text cannot express one) counts for version 2 without an IV being written -/
def masterSlack (p : MasterPlaylist) : Nat :=
  if p.session_keys.any (fun d => match d.iv with
      | .number _ => true
      | _ => false) then 2 else 1

theorem sessionKey_rv_le (k : DecryptionKey) :
    k.requiredVersion ≤ max (keyLineMin k) (match k.iv with
      | .number _ => 2
      | _ => 1) := by
  obtain ⟨m, u, iv, f, v⟩ := k
  cases f <;> cases v <;> cases iv <;>
    simp_all [keyLineMin, DecryptionKey.requiredVersion, versionsWritten, ivWritten, InitializationVector.isSome]

/-- **master playlists: not inflated.** The emitted version is at most the RFC minimum of the written lines
(outside the one conservative case: a session key carrying a derived IV, which only a builder can make) -/
theorem master_version_not_inflated (p : MasterPlaylist) : p.requiredVersion ≤ max (rfcMin p.writeLines) (masterSlack p) := by
  have hmin : ∀ l ∈ p.writeLines, lineMin l ≤ rfcMin p.writeLines := by
    intro l hl
    unfold rfcMin
    exact Nat.le_trans (mem_le_maxVersion _ _ (List.mem_map.mpr ⟨l, hl, rfl⟩)) (Nat.le_max_left _ _)
  have hmedia : ∀ m ∈ p.media, Line.media m ∈ p.writeLines := by
    intro m hm; unfold MasterPlaylist.writeLines; simp [hm]
  have hkey : ∀ k ∈ p.session_keys, Line.sessionKey k ∈ p.writeLines := by
    intro k hk; unfold MasterPlaylist.writeLines; simp [hk]
  have hone : 1 ≤ max (rfcMin p.writeLines) (masterSlack p) := by
    have : 1 ≤ masterSlack p := by unfold masterSlack; split <;> omega
    omega
  unfold MasterPlaylist.requiredVersion
  apply maxVersion_le _ _ hone
  intro x hx
  simp only [List.mem_cons, List.mem_nil_iff, or_false] at hx
  rcases hx with rfl | rfl | rfl | rfl | rfl | rfl
  any_goals exact hone
  · apply maxVersion_le _ _ hone
    intro y hy
    obtain ⟨m, hm, rfl⟩ := List.mem_map.mp hy
    have := hmin _ (hmedia m hm)
    have e : lineMin (Line.media m) = m.requiredVersion := rfl
    rw [e] at this
    omega
  · apply maxVersion_le _ _ hone
    intro y hy
    obtain ⟨k, hk, rfl⟩ := List.mem_map.mp hy
    have h1 := hmin _ (hkey k hk)
    simp only [lineMin] at h1
    have h2 := sessionKey_rv_le k
    have h3 : (match k.iv with
        | .number _ => 2
        | _ => 1) ≤ masterSlack p := by
      unfold masterSlack
      cases hiv : k.iv with
      | number n =>
        have : p.session_keys.any (fun d => match d.iv with
            | .number _ => true
            | _ => false) = true := List.any_eq_true.mpr ⟨k, hk, by simp [hiv]⟩
        simp [this]
      | aes128 v => simp only; split <;> omega
      | missing => simp only; split <;> omega
    omega

/-! ## non-vacuity -/
example :
    let seg : MediaSegment := ⟨0, false, [some ⟨.aes128, ['k'], .number 0, none, none⟩], none, some ⟨some 0, 10⟩, none, false, none, ⟨1500000000, none⟩, ['u']⟩
    let p : MediaPlaylist := ⟨10000000000, 0, 0, none, false, false, none, false, [seg], 0, []⟩
    p.requiredVersion = 4 ∧ (match p.writeLines with
      | .ok ls => rfcMin ls
      | _ => 0) = 4 := by decide +kernel

/-- finding K11 (repaired by `fix:` c2c8895): what counts for EXTINF is the WRITTEN number. 10^10 s + 1 ns (only the
builders make it) is written `10000000000`, an integer: version 1, although the value has nanoseconds; 1.5 s is written `1.5`. -/
example : ExtInf.requiredVersion ⟨10000000000000000001, none⟩ = 1 ∧ ExtInf.requiredVersion ⟨1500000000, none⟩ = 3
    ∧ ExtInf.show ⟨10000000000000000001, none⟩ = "#EXTINF:10000000000,".toList := by decide +kernel

end Hls.C10
