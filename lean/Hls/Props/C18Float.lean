import Hls.Proofs.FltRT
import Hls.Proofs.LineRTAttr
/-!
# C18 — `Float` / `UFloat`: the printed text reads back as the same value (FL1 proved)

`FloatRT f` was a named hypothesis of the string-level round trips (`MediaOpen`, `MasterOpen`,
`DateRangeOpen`). Here it is a theorem for every finite binary32 pattern for which the digit search of the
printing model succeeds (`DigitsFound`; decidable, evaluated by the kernel on concrete values and swept over
all 2^32 patterns against the implementation by the C18 run).
-/
namespace Hls.C18Float
open Hls

/-- a finite binary32 bit pattern (what `Float` / `UFloat` can hold) -/
def Finite32 (f : Float32) : Prop := f.bits < 2 ^ 32 ∧ f.bits / 2 ^ 23 % 256 ≠ 255

instance (f : Float32) : Decidable (Finite32 f) := by unfold Finite32; infer_instance

/-- the search for round-tripping digits (at most 20 significant digits) succeeds for this value -/
def digitsFoundB (f : Float32) : Bool :=
  match f.fv with
  | .fin _ m e => m == 0 || (shortest fmt32 m e).1 != 0
  | _ => false

def DigitsFound (f : Float32) : Prop := digitsFoundB f = true

instance (f : Float32) : Decidable (DigitsFound f) := by unfold DigitsFound; infer_instance

theorem fv_fin (f : Float32) (h : Finite32 f) :
    ∃ neg m e, f.fv = .fin neg m e ∧ (m = 0 → e = fmt32.emin) := by
  have p23 : (2:Nat) ^ 23 = 8388608 := by decide
  obtain ⟨_, hfin⟩ := h
  rw [p23] at hfin
  unfold Float32.fv f32OfBits
  simp only [p23, beq_iff_eq, hfin, if_false]
  split
  · split
    · exact ⟨_, _, _, rfl, fun _ => rfl⟩
    · rename_i h0; exact ⟨_, _, _, rfl, fun h => absurd h h0⟩
  · exact ⟨_, _, _, rfl, fun h => by omega⟩

theorem plain_of_chars (v : Str) (h : ∀ ch ∈ v, IsDig ch ∨ ch = '.' ∨ ch = '-') : plainVal v = true := by
  unfold plainVal
  rw [List.all_eq_true]
  intro ch hch
  rcases h ch hch with ⟨d, hd, rfl⟩ | rfl | rfl
  · rcases digit10_cases d hd with rfl|rfl|rfl|rfl|rfl|rfl|rfl|rfl|rfl|rfl <;> decide
  · decide
  · decide

/-- what `f32::from_str` makes of the printed text: a finite value of the same sign and bit pattern -/
theorem parse_show (f : Float32) (hfin : Finite32 f) (hfound : DigitsFound f) :
    ∃ neg m e m' e', f.fv = .fin neg m e ∧ Hls.parseFloat fmt32 f.show = some (.fin neg m' e') ∧
      f32Bits (.fin neg m' e') = f.bits := by
  obtain ⟨neg, m, e, hfv, hz⟩ := fv_fin f hfin
  have hbits : f32Bits (.fin neg m e) = f.bits := by
    rw [← hfv]; exact f32Bits_ofBits f.bits hfin.1 hfin.2
  unfold DigitsFound digitsFoundB at hfound
  rw [hfv] at hfound
  simp only [Bool.or_eq_true, beq_iff_eq, bne_iff_ne, ne_eq] at hfound
  unfold Float32.show
  rw [hfv]
  by_cases hm : m = 0
  · subst hm
    refine ⟨neg, 0, e, 0, fmt32.emin, rfl, parseFloat_display_zero fmt32 neg e, ?_⟩
    rw [← hz rfl]; exact hbits
  · have hs : (shortest fmt32 m e).1 ≠ 0 := by
      rcases hfound with h | h
      · exact absurd h hm
      · exact h
    exact ⟨neg, m, e, m, e, rfl, parseFloat_display fmt32 neg m e hs, hbits⟩

/-- **C18 for `Float`**: `Float::from_str(x.to_string()) == Ok(x)`, and the text is a plain attribute
value (no comma, quote or blank), for every finite binary32 value whose digits the search finds. -/
theorem float_roundtrip (f : Float32) (hfin : Finite32 f) (hfound : DigitsFound f) : FloatRT f := by
  obtain ⟨neg, m, e, m', e', hfv, hp, hb⟩ := parse_show f hfin hfound
  constructor
  · unfold Float32.parseFloat
    rw [hp]
    simp only [hb]
  · unfold Float32.show
    rw [hfv]
    exact plain_of_chars _ (displayFV_chars fmt32 neg m e)

/-- the sign of a bit pattern below 2^31 -/
theorem fv_nonneg (f : Float32) (hpos : f.bits < 2 ^ 31) (neg : Bool) (m : Nat) (e : Int)
    (hfv : f.fv = .fin neg m e) : neg = false := by
  have p31 : (2:Nat) ^ 31 = 2147483648 := by decide
  have h0 : f.bits / 2 ^ 31 % 2 = 0 := by rw [p31] at hpos ⊢; omega
  unfold Float32.fv f32OfBits at hfv
  simp only [h0] at hfv
  repeat' split at hfv
  all_goals first | (injection hfv with h1 _ _; rw [← h1]; decide) | exact absurd hfv (by simp)

/-- **C18 for `UFloat`** (sign bit clear): `UFloat::from_str(x.to_string()) == Ok(x)` -/
theorem ufloat_roundtrip (f : Float32) (hfin : Finite32 f) (hpos : f.bits < 2 ^ 31) (hfound : DigitsFound f) :
    Float32.parseUFloat f.show = .ok f := by
  obtain ⟨neg, m, e, m', e', hfv, hp, hb⟩ := parse_show f hfin hfound
  have hneg := fv_nonneg f hpos neg m e hfv
  subst hneg
  unfold Float32.parseUFloat
  rw [hp]
  simp only [hb, Bool.false_eq_true, if_false]

/-- non-vacuity, evaluated by the kernel: 1.5, -0.0, the smallest subnormal, the largest finite value
and 0.1 (whose shortest digits are not its exact expansion) are finite and their digits are found -/
example : Finite32 ⟨0x3FC00000⟩ ∧ DigitsFound ⟨0x3FC00000⟩ := by decide +kernel
example : Finite32 ⟨0x80000000⟩ ∧ DigitsFound ⟨0x80000000⟩ := by decide +kernel
example : Finite32 ⟨1⟩ ∧ DigitsFound ⟨1⟩ := by decide +kernel
example : Finite32 ⟨0x7F7FFFFF⟩ ∧ DigitsFound ⟨0x7F7FFFFF⟩ := by decide +kernel
example : Finite32 ⟨0x3DCCCCCD⟩ ∧ DigitsFound ⟨0x3DCCCCCD⟩ := by decide +kernel
example : Float32.show ⟨0x3DCCCCCD⟩ = "0.1".toList := by decide +kernel

/-! ## durations written as decimal seconds (FL2 reduced to its numeric core) -/

/-- **FL2 reduced**: the seconds text of a duration reads back as the same number of nanoseconds as soon
as (1) the digit search succeeds for the binary64 value `as_secs_f64` produces and (2) that binary64
value converts back to the same nanoseconds — two facts about numbers; nothing about text is assumed. -/
theorem secs_roundtrip (ns m : Nat) (e : Int)
    (hv : asSecsF64 ns = .fin false m e)
    (hz : m = 0 → e = fmt64.emin)
    (hfound : m = 0 ∨ (shortest fmt64 m e).1 ≠ 0)
    (hback : toNanos m e = some ns) :
    parseSecs (showSecs ns) = .ok ns ∧ plainVal (showSecs ns) = true := by
  refine ⟨?_, by unfold showSecs; rw [hv]; exact plain_of_chars _ (displayFV_chars fmt64 false m e)⟩
  unfold parseSecs showSecs
  rw [hv]
  by_cases hm : m = 0
  · subst hm
    rw [parseFloat_display_zero, ← hz rfl]
    simp only [hback]
    simp
  · have hs : (shortest fmt64 m e).1 ≠ 0 := by
      rcases hfound with h | h
      · exact absurd h hm
      · exact h
    rw [parseFloat_display fmt64 false m e hs]
    simp only [hback]
    simp

/-- non-vacuity: 9.009 s (a typical EXTINF) meets the three numeric facts; evaluated by the kernel -/
example : ∃ m e, asSecsF64 9009000000 = .fin false m e ∧ (m = 0 → e = fmt64.emin) ∧
    (m = 0 ∨ (shortest fmt64 m e).1 ≠ 0) ∧ toNanos m e = some 9009000000 := by
  refine ⟨5071616130372600, -49, by decide +kernel, by decide, Or.inr (by decide +kernel), by decide +kernel⟩

end Hls.C18Float
