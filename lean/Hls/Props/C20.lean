import Hls.Props.C05
import Hls.Props.C07
import Hls.Model.Script
/-!
# C20 — builder path and text path agree; builders never panic on in-domain calls
-/
namespace Hls.C20
open Hls

/-! ## builder call sequences -/

/-- the public setter calls of `MediaPlaylistBuilder` (segments are handled separately) -/
inductive HCall where
  | td (ns : Nat) | ms (n : Nat) | ds (n : Nat) | pt (p : PlaylistType) | ifo (b : Bool) | ind (b : Bool)
  | «end» (b : Bool) | start (s : ExtXStart) | ex (ns : Nat) | unk (u : List Str)
deriving Repr, DecidableEq

def HCall.target : HCall → Nat
  | .td _ => 0 | .ms _ => 1 | .ds _ => 2 | .pt _ => 3 | .ifo _ => 4 | .ind _ => 5 | .«end» _ => 6 | .start _ => 7
  | .ex _ => 8 | .unk _ => 9

def applyH (b : MediaPlaylistBuilder) : HCall → MediaPlaylistBuilder
  | .td ns => { b with target_duration := some ns }
  | .ms n => { b with media_sequence := some n }
  | .ds n => { b with discontinuity_sequence := some n }
  | .pt p => { b with playlist_type := some (some p) }
  | .ifo v => { b with has_i_frames_only := some v }
  | .ind v => { b with has_independent_segments := some v }
  | .«end» v => { b with has_end_list := some v }
  | .start s => { b with start := some (some s) }
  | .ex ns => { b with allowable_excess_duration := some ns }
  | .unk u => { b with unknown := some u }

/-- setters of different fields commute; the same field: the later call wins -/
theorem setters_commute (b : MediaPlaylistBuilder) (c1 c2 : HCall) (h : c1.target ≠ c2.target) :
    applyH (applyH b c1) c2 = applyH (applyH b c2) c1 := by
  cases c1 <;> cases c2 <;> first | (exfalso; exact h rfl) | rfl

theorem setter_last_wins (b : MediaPlaylistBuilder) (c1 c2 : HCall) (h : c1.target = c2.target) :
    applyH (applyH b c1) c2 = applyH b c2 := by
  cases c1 <;> cases c2 <;> first | rfl | (simp [HCall.target] at h)

/-- a setter call does not touch the segments, and `push_segment` / `segments` do not touch the rest -/
theorem setter_push_commute (b : MediaPlaylistBuilder) (c : HCall) (s : MediaSegment) :
    applyH (b.pushSegment s) c = (applyH b c).pushSegment s := by
  cases c <;> (unfold MediaPlaylistBuilder.pushSegment; simp only [applyH]; split <;> rfl)

/-- hence any interleaving of the setter calls with the pushes gives the same builder -/
theorem setter_pushes_commute (segs : List MediaSegment) (b : MediaPlaylistBuilder) (c : HCall) :
    applyH (segs.foldl MediaPlaylistBuilder.pushSegment b) c = segs.foldl MediaPlaylistBuilder.pushSegment (applyH b c) := by
  induction segs generalizing b with
  | nil => rfl
  | cons s ss ih =>
    simp only [List.foldl_cons]
    rw [ih (b.pushSegment s), setter_push_commute]

theorem setters_then_pushes (b : MediaPlaylistBuilder) (cs : List HCall) (segs : List MediaSegment) :
    cs.foldl applyH (segs.foldl MediaPlaylistBuilder.pushSegment b) =
    segs.foldl MediaPlaylistBuilder.pushSegment (cs.foldl applyH b) := by
  induction cs generalizing b with
  | nil => rfl
  | cons c cs ih =>
    simp only [List.foldl_cons]
    rw [setter_pushes_commute, ih (applyH b c)]

/-! ## `push_segment` one by one = `segments(vec)` for implicitly numbered segments -/

/-! ## the segment builder's `number` setter -/

/-- the last call decides -/
theorem segment_number_last_wins (b : MediaSegmentBuilder) (v w : Option Nat) :
    (b.setNumber v).setNumber w = b.setNumber w := rfl

/-- `number(None)` takes an explicit number back: the segment built is the one of a builder on which `number` was never
called (what seed C20-m broke: it kept the explicit mark) -/
theorem segment_number_none_resets (b : MediaSegmentBuilder) (n : Nat) (h1 : b.number = none) (h2 : b.explicit_number = none) :
    ((b.setNumber (some n)).setNumber none).build = b.build := by
  unfold MediaSegmentBuilder.build MediaSegmentBuilder.setNumber
  simp [h1, h2]

/-- and a segment whose number was given is marked explicit with exactly that number -/
theorem segment_number_some (b : MediaSegmentBuilder) (n : Nat) (s : MediaSegment) (h : (b.setNumber (some n)).build = .ok s) :
    s.number = n ∧ s.explicit_number = true := by
  unfold MediaSegmentBuilder.build MediaSegmentBuilder.setNumber at h
  simp only at h
  split at h
  · injection h with h; subst h; simp
  · cases h

theorem push_implicit (b : MediaPlaylistBuilder) (s : MediaSegment) (h : s.explicit_number = false) :
    (b.pushSegment s).segments = some (b.segments.getD [] ++ [some s]) := by
  simp [MediaPlaylistBuilder.pushSegment, h]

theorem pushes_eq_segments (b : MediaPlaylistBuilder) (segs : List MediaSegment)
    (himp : ∀ s ∈ segs, s.explicit_number = false) (hb : b.segments = none) (hne : segs ≠ []) :
    segs.foldl MediaPlaylistBuilder.pushSegment b = b.setSegments segs := by
  have key : ∀ (ss : List MediaSegment) (b' : MediaPlaylistBuilder) (pre : List (Option MediaSegment)),
      (∀ s ∈ ss, s.explicit_number = false) → b'.segments = some pre →
      ss.foldl MediaPlaylistBuilder.pushSegment b' = { b' with segments := some (pre ++ ss.map some) } := by
    intro ss
    induction ss with
    | nil => intro b' pre _ hp; cases b'; simp_all
    | cons s ss ih =>
      intro b' pre hi hp
      simp only [List.foldl_cons]
      have hs := hi s (by simp)
      have e : b'.pushSegment s = { b' with segments := some (pre ++ [some s]) } := by
        simp [MediaPlaylistBuilder.pushSegment, hs, hp]
      rw [e, ih _ (pre ++ [some s]) (fun x hx => hi x (by simp [hx])) rfl]
      simp
  cases segs with
  | nil => exact absurd rfl hne
  | cons s ss =>
    simp only [List.foldl_cons]
    have hs := himp s (by simp)
    have e : b.pushSegment s = { b with segments := some [some s] } := by
      simp [MediaPlaylistBuilder.pushSegment, hs, hb]
    rw [e, key ss _ [some s] (fun x hx => himp x (by simp [hx])) rfl]
    obtain ⟨h1, h2⟩ := filter_explicit_nil (s :: ss) himp
    simp [MediaPlaylistBuilder.setSegments, h1, h2]

/-! ## the parser IS a builder call sequence -/

/-- the builder the text parser hands to `build()`: its own setter calls, then `segments(parsed)` -/
theorem parser_is_builder (b : MediaPlaylistBuilder) (ls : List Line) (st : PState)
    (h : foldRes mediaStep { builder := b } ls = .ok st) (hp : st.has_partial_segment = false) :
    assembleMedia b ls =
      ({ st.builder.setSegments st.segments with unknown := some st.unknown } : MediaPlaylistBuilder).build := by
  simp [assembleMedia, h, mediaFinish, hp]

/-- so for every implicitly numbered content the two paths give the *same* result — accepted or
rejected alike, equal values when accepted: a builder state with the same fields and the same
(implicitly numbered) segments builds what the parser builds -/
theorem builder_text_agree (b : MediaPlaylistBuilder) (ls : List Line) (st : PState)
    (h : foldRes mediaStep { builder := b } ls = .ok st) (hp : st.has_partial_segment = false)
    (b' : MediaPlaylistBuilder)
    (hsame : b' = { st.builder with segments := some (st.segments.map some), unknown := some st.unknown }) :
    b'.build = assembleMedia b ls := by
  rw [parser_is_builder b ls st h hp, hsame]
  have hinv := pinv_fold ls _ st (pinv_init b) h
  obtain ⟨h1, h2⟩ := filter_explicit_nil st.segments hinv.2.2
  simp [MediaPlaylistBuilder.setSegments, h1, h2]

/-! ## no panic, gap-free result, numbering -/

/-- **builders do not panic**: `build()` on any builder whose byte-range values fit the integer
type (what `ExtXByteRange::from(range)` gives) returns `Ok` or `Err` -/
theorem build_never_panics (b : MediaPlaylistBuilder)
    (hin : ∀ slots, b.segments = some slots → ∀ s, some s ∈ slots → C08.InRange s.byte_range) :
    b.build ≠ .panic := C05.build_np b hin

theorem slotValues_length_compact (slots : List (Option MediaSegment)) (h : slots.any (·.isNone) = false) :
    (slotValues slots).length = slots.length ∧
    ∀ (i : Nat) (s : MediaSegment), (slotValues slots)[i]? = some s ↔ slots[i]? = some (some s) := by
  induction slots with
  | nil => simp [slotValues]
  | cons x xs ih =>
    simp only [List.any_cons, Bool.or_eq_false_iff] at h
    cases x with
    | none => simp at h
    | some v =>
      obtain ⟨h1, h2⟩ := ih h.2
      refine ⟨by simp [slotValues] at h1 ⊢; exact h1, ?_⟩
      intro i s
      cases i with
      | zero => simp [slotValues]
      | succ i => simpa [slotValues] using h2 i s

theorem buildLoop_slots (seq : Nat) (slots out : List (Option MediaSegment)) (i : Nat) (prev : Option ByteRange)
    (h : buildLoop seq i prev slots = .ok out) :
    out.length = slots.length ∧ ∀ (j : Nat) (s' : MediaSegment), out[j]? = some (some s') →
      ∃ s, slots[j]? = some (some s) ∧ s'.explicit_number = s.explicit_number ∧ s'.uri = s.uri ∧
        (s.explicit_number = false → s'.number = seq + (i + j)) ∧ (s.explicit_number = true → s'.number = s.number) := by
  induction slots generalizing out i prev with
  | nil => simp only [buildLoop, Res.ok.injEq] at h; subst h; simp
  | cons x xs ih =>
    cases x with
    | none =>
      simp only [buildLoop] at h
      cases hr : buildLoop seq (i + 1) prev xs with
      | ok r =>
        rw [hr] at h; simp only [Res.ok.injEq] at h; subst h
        obtain ⟨h1, h2⟩ := ih r (i + 1) prev hr
        refine ⟨by simp [h1], ?_⟩
        intro j s' hj
        cases j with
        | zero => simp at hj
        | succ j =>
          obtain ⟨s, a, b, c, d, e⟩ := h2 j s' (by simpa using hj)
          exact ⟨s, by simpa using a, b, c, fun hh => by have := d hh; omega, e⟩
      | err => rw [hr] at h; cases h
      | panic => rw [hr] at h; cases h
    | some s =>
      simp only [buildLoop] at h
      cases h1 : buildOne seq i prev s with
      | ok s1 =>
        rw [h1] at h; simp only at h
        cases hr : buildLoop seq (i + 1) (nextPrev prev s1.byte_range) xs with
        | ok r =>
          rw [hr] at h; simp only [Res.ok.injEq] at h; subst h
          obtain ⟨g1, g2⟩ := ih r (i + 1) _ hr
          obtain ⟨n, br, hn, _, e⟩ := buildOne_ok _ _ _ _ _ h1
          refine ⟨by simp [g1], ?_⟩
          intro j s' hj
          cases j with
          | zero =>
            simp only [List.getElem?_cons_zero, Option.some.injEq] at hj
            subst hj
            refine ⟨s, rfl, by subst e; rfl, by subst e; rfl, ?_, ?_⟩
            · intro hx
              unfold segNumber at hn
              simp only [hx, Bool.not_false, if_true] at hn
              split at hn
              · simp only [Res.ok.injEq] at hn; subst e; simp only; omega
              · cases hn
            · intro hx
              unfold segNumber at hn
              simp only [hx, Bool.not_true, Bool.false_eq_true, if_false, Res.ok.injEq] at hn
              subst e; simp only; exact hn.symm
          | succ j =>
            obtain ⟨s0, a, b, c, d, e'⟩ := g2 j s' (by simpa using hj)
            exact ⟨s0, by simpa using a, b, c, fun hh => by have := d hh; omega, e'⟩
        | err => rw [hr] at h; cases h
        | panic => rw [hr] at h; cases h
      | err => rw [h1] at h; cases h
      | panic => rw [h1] at h; cases h

/-- **every successfully built playlist has gap-free segments; implicit numbers are
`media_sequence + position`, explicit numbers are preserved** -/
theorem built_numbering (b : MediaPlaylistBuilder) (p : MediaPlaylist) (h : b.build = .ok p) :
    ∃ slots, b.segments = some slots ∧ p.segments.length = slots.length ∧
      ∀ (j : Nat) (s' : MediaSegment), p.segments[j]? = some s' →
        ∃ s, slots[j]? = some (some s) ∧ s'.uri = s.uri ∧
          (s.explicit_number = false → s'.number = p.media_sequence + j) ∧
          (s.explicit_number = true → s'.number = s.number) := by
  obtain ⟨_, slots, slots', hs, _, hbl, hfin⟩ := build_ok b p h
  obtain ⟨f1, _, f3, f4, _⟩ := finishBuild_ok b slots' p hfin
  obtain ⟨g1, g2⟩ := buildLoop_slots _ slots slots' 0 none hbl
  obtain ⟨c1, c2⟩ := slotValues_length_compact slots' f1
  refine ⟨slots, hs, by rw [f3, c1, g1], ?_⟩
  intro j s' hj
  rw [f3] at hj
  obtain ⟨s, a, _, c, d, e⟩ := g2 j s' ((c2 j s').mp hj)
  exact ⟨s, a, c, fun hh => by rw [f4, d hh]; omega, e⟩

/-! ## master builder = master parser's last step -/

theorem master_parser_is_builder (ls : List Line) (st : MState) (h : foldRes masterStep {} ls = .ok st) :
    assembleMaster ls = masterFinish st ∧
    ∃ b : MasterPlaylistBuilder, masterFinish st = b.build ∧ b.media = some st.media ∧
      b.variant_streams = some st.variant_streams ∧ b.session_data = some st.session_data ∧
      b.session_keys = some st.session_keys ∧ b.unknown_tags = some st.unknown_tags := by
  refine ⟨by simp [assembleMaster, h], _, rfl, rfl, rfl, rfl, rfl, rfl⟩

theorem master_build_never_panics (b : MasterPlaylistBuilder) : b.build ≠ .panic := by
  unfold MasterPlaylistBuilder.build; split <;> simp

/-! ## non-vacuity -/
def exSeg (u : Char) : MediaSegment := ⟨0, false, [], none, none, none, false, none, ⟨1000000000, none⟩, [u]⟩
example :
    ((applyH (applyH {} (.ms 5)) (.td 10000000000)).pushSegment (exSeg 'a')).pushSegment (exSeg 'b') =
      ((applyH ((applyH {} (.td 10000000000)).pushSegment (exSeg 'a')) (.ms 5)).pushSegment (exSeg 'b')) := by decide

end Hls.C20
